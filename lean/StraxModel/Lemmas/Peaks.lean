import StraxModel.Model.Peaks
/-
  Helper lemmas for property C19 (theory T15 Peaks).  Core tactics only (`grind`, `omega`, `simp`).
-/
namespace Strax.Peaks
open Strax

/-! ## slices and sums -/

theorem slice_nil_of_le {α} (a : List α) {lo hi : Nat} (h : hi ≤ lo) : slice a lo hi = [] := by
  unfold slice; have : hi - lo = 0 := by omega
  simp [this]

theorem slice_length {α} (a : List α) (lo hi : Nat) (h : hi ≤ a.length) : (slice a lo hi).length = hi - lo := by
  unfold slice; simp; omega

theorem sum_take_succ (a : List Rat) (k : Nat) (h : k < a.length) :
    (a.take (k+1)).sum = (a.take k).sum + a.getD k 0 := by
  rw [List.take_add_one, List.sum_append]
  simp [List.getD_eq_getElem?_getD, List.getElem?_eq_getElem h, Rat.add_zero]

/-- extending a slice to the right by one sample -/
theorem sum_slice_succ_right (a : List Rat) (lo hi : Nat) (h1 : lo ≤ hi) (h2 : hi < a.length) :
    (slice a lo (hi+1)).sum = (slice a lo hi).sum + a.getD hi 0 := by
  unfold slice
  have e : hi + 1 - lo = (hi - lo) + 1 := by omega
  rw [e, sum_take_succ _ _ (by simp; omega)]
  congr 1
  simp [List.getD_eq_getElem?_getD]
  congr 2; omega

/-- shrinking a non-empty slice from the left by one sample -/
theorem sum_slice_succ_left (a : List Rat) (lo hi : Nat) (h1 : lo < hi) (h2 : lo < a.length) :
    (slice a (lo+1) hi).sum = (slice a lo hi).sum - a.getD lo 0 := by
  unfold slice
  rw [List.drop_eq_getElem_cons h2]
  have e : hi - lo = (hi - (lo+1)) + 1 := by omega
  rw [e, List.take_succ_cons, List.sum_cons]
  simp [List.getD_eq_getElem?_getD, List.getElem?_eq_getElem h2]
  grind

/-! ## symmetric_moving_average -/

/-- one iteration of the moving-average loop keeps "asum = sum of the current window, count = its size" -/
theorem sma_step (a : List Rat) (w i : Nat) (hw : 1 ≤ w) (hin : i < a.length) :
    smaStep true a w a.length i
        ((slice a (i - (w+1)) (min a.length (i+w))).sum, ((min a.length (i+w) - (i - (w+1)) : Nat) : Int))
      = ((slice a (i - w) (min a.length (i+w+1))).sum, ((min a.length (i+w+1) - (i - w) : Nat) : Int)) := by
  unfold smaStep
  by_cases h1 : (i : Int) - w - 1 ≥ 0 <;> by_cases h2 : i + w < a.length
  · have e1 : ((i : Int) - w - 1).toNat = i - (w+1) := by omega
    have e2 : min a.length (i+w) = i + w := by omega
    have e3 : min a.length (i+w+1) = i + w + 1 := by omega
    have e4 : i - w = (i - (w+1)) + 1 := by omega
    simp only [h1, h2, if_true, decide_true, e1, e2, e3]
    rw [e4, sum_slice_succ_left a _ (i+w+1) (by omega) (by omega), sum_slice_succ_right a _ (i+w) (by omega) h2]
    refine Prod.ext ?_ ?_
    · grind
    · simp only; omega
  · have e1 : ((i : Int) - w - 1).toNat = i - (w+1) := by omega
    have e2 : min a.length (i+w) = a.length := by omega
    have e3 : min a.length (i+w+1) = a.length := by omega
    have e4 : i - w = (i - (w+1)) + 1 := by omega
    simp only [h1, h2, if_true, if_false, decide_true, e1, e2, e3]
    rw [e4, sum_slice_succ_left a _ a.length (by omega) (by omega)]
    refine Prod.ext rfl ?_
    simp only; omega
  · have e2 : min a.length (i+w) = i + w := by omega
    have e3 : min a.length (i+w+1) = i + w + 1 := by omega
    have e4 : i - w = 0 := by omega
    have e5 : i - (w+1) = 0 := by omega
    simp only [h1, h2, if_true, if_false, decide_false, Bool.false_eq_true, e2, e3, e4, e5]
    rw [sum_slice_succ_right a 0 (i+w) (by omega) h2]
    refine Prod.ext rfl ?_
    simp only; omega
  · have e2 : min a.length (i+w) = a.length := by omega
    have e3 : min a.length (i+w+1) = a.length := by omega
    have e4 : i - w = 0 := by omega
    have e5 : i - (w+1) = 0 := by omega
    simp only [h1, h2, if_true, if_false, decide_false, Bool.false_eq_true, e2, e3, e4, e5]

theorem smaLoop_spec (a : List Rat) (w : Nat) (hw : 1 ≤ w) :
    ∀ (fuel i : Nat), i + fuel = a.length →
      smaLoop true a w a.length fuel i
          ((slice a (i - (w+1)) (min a.length (i+w))).sum, ((min a.length (i+w) - (i - (w+1)) : Nat) : Int))
        = (List.range' i fuel).map (windowMean a w) := by
  intro fuel
  induction fuel with
  | zero => intros; simp [smaLoop]
  | succ fuel ih =>
    intro i hi
    have hin : i < a.length := by omega
    rw [List.range'_succ, List.map_cons]
    unfold smaLoop
    simp only [sma_step a w i hw hin]
    have e : i - w = (i + 1) - (w + 1) := by omega
    have e' : i + w + 1 = i + 1 + w := by omega
    refine List.cons_eq_cons.mpr ⟨?_, ?_⟩
    · unfold windowMean; simp [Rat.intCast_natCast]
    · rw [e, e']; exact ih (i+1) (by omega)



theorem windowMean_zero (a : List Rat) (i : Nat) (h : i < a.length) : windowMean a 0 i = a.getD i 0 := by
  unfold windowMean
  have e : min a.length (i + 0 + 1) = i + 1 := by omega
  simp only [Nat.sub_zero, e]
  rw [sum_slice_succ_right a i i (Nat.le_refl _) h, slice_nil_of_le a (Nat.le_refl i)]
  have : ((i + 1 - i : Nat) : Rat) = 1 := by
    have : i + 1 - i = 1 := by omega
    rw [this]; rfl
  rw [this]; grind

theorem map_getD_range (a : List Rat) : (List.range a.length).map (fun i => a.getD i 0) = a := by
  apply List.ext_getElem
  · simp
  · intro i h1 h2
    simp [List.getD_eq_getElem?_getD, List.getElem?_eq_getElem h2]

/-- the moving average as it is now equals its defining formula, for every waveform and wing width -/
theorem symmetricMovingAverage_eq (a : List Rat) (w : Nat) :
    symmetricMovingAverage a w = (List.range a.length).map (windowMean a w) := by
  unfold symmetricMovingAverage smaGen
  by_cases hw : w = 0
  · subst hw
    simp only [if_true]
    conv => lhs; rw [← map_getD_range a]
    apply List.map_congr_left
    intro i hi
    exact (windowMean_zero a i (by simpa using hi)).symm
  · simp only [hw, if_false, if_true]
    have h := smaLoop_spec a w (by omega) a.length 0 (by omega)
    rw [List.range_eq_range']
    rw [← h]
    congr 2
    · unfold slice; simp
      congr 1
      rw [List.take_eq_take_iff]; omega
    · simp; omega


/-! ## _split_peaks -/

/-- fragments start at `a`, follow each other without gap or overlap, are non-empty, and end at `b` -/
def Tiles : List Frag → Int → Int → Prop
  | [], a, b => a = b
  | f :: fs, a, b => f.time = a ∧ 0 < f.length ∧ Tiles fs f.endt b

/-- as `Tiles` but gaps are allowed (never overlaps) -/
def NoOverlap : List Frag → Int → Prop
  | [], _ => True
  | f :: fs, a => a ≤ f.time ∧ 0 < f.length ∧ NoOverlap fs f.endt

/-- the last split index actually used (entries equal to `NO_MORE_SPLITS` are skipped) -/
def lastSplit : Int → List Int → Int
  | prev, [] => prev
  | prev, s :: rest => if s = NO_MORE_SPLITS then lastSplit prev rest else lastSplit s rest

theorem splitOne_tiles (pTime pDt origDt : Int) (hdiv : origDt ∣ pDt) :
    ∀ (splits : List Int) (prev : Int) (frags : List Frag),
      splitOne pTime pDt origDt prev splits = .ok frags →
      Tiles frags (pTime + prev * pDt) (pTime + lastSplit prev splits * pDt) := by
  intro splits
  induction splits with
  | nil => intro prev frags h; simp [splitOne] at h; subst h; simp [Tiles, lastSplit]
  | cons s rest ih =>
    intro prev frags h
    unfold splitOne at h
    by_cases hs : s = NO_MORE_SPLITS
    · simp only [hs, if_true] at h
      simp only [lastSplit, hs, if_true]
      exact ih prev frags h
    · simp only [hs, if_false] at h
      by_cases h0 : origDt = 0
      · simp [h0] at h
      · simp only [h0, if_false] at h
        obtain ⟨k, hk⟩ := hdiv
        split at h
        · simp at h
        · rename_i hlen
          split at h
          · simp at h
          · rename_i fr hfr
            simp only [Except.ok.injEq] at h
            subst h
            have e : ((s - prev) * pDt).tdiv origDt = (s - prev) * k := by
              rw [hk, show (s - prev) * (origDt * k) = origDt * ((s - prev) * k) by grind]
              exact Int.mul_tdiv_cancel_left _ h0
            simp only [Tiles, lastSplit, hs, if_false]
            refine ⟨trivial, by omega, ?_⟩
            have := ih s fr hfr
            have e2 : Frag.endt { time := pTime + prev * pDt, length := ((s - prev) * pDt).tdiv origDt, dt := origDt } = pTime + s * pDt := by
              simp only [Frag.endt, hk]; grind
            rw [e2]; exact this


theorem tdiv_pos_imp {x d : Int} (hd : 0 < d) (h : 0 < x.tdiv d) : 0 ≤ x ∧ d * x.tdiv d ≤ x := by
  have hx : 0 ≤ x := by
    false_or_by_contra
    have h1 : (-(-x)).tdiv d = -((-x).tdiv d) := Int.neg_tdiv (-x) d
    have h2 : 0 ≤ (-x).tdiv d := Int.tdiv_nonneg (by omega) (by omega)
    rw [Int.neg_neg] at h1
    omega
  exact ⟨hx, Int.mul_tdiv_self_le hx⟩

theorem NoOverlap_mono {fs : List Frag} {a a' : Int} (h : a' ≤ a) (hn : NoOverlap fs a) : NoOverlap fs a' := by
  cases fs with
  | nil => trivial
  | cons f fs => exact ⟨by have := hn.1; omega, hn.2.1, hn.2.2⟩

theorem splitOne_noOverlap (pTime pDt origDt : Int) (hd : 0 < origDt) :
    ∀ (splits : List Int) (prev : Int) (frags : List Frag),
      splitOne pTime pDt origDt prev splits = .ok frags →
      NoOverlap frags (pTime + prev * pDt) := by
  intro splits
  induction splits with
  | nil => intro prev frags h; simp [splitOne] at h; subst h; simp [NoOverlap]
  | cons s rest ih =>
    intro prev frags h
    unfold splitOne at h
    by_cases hs : s = NO_MORE_SPLITS
    · simp only [hs, if_true] at h
      exact ih prev frags h
    · simp only [hs, if_false] at h
      have h0 : origDt ≠ 0 := by omega
      simp only [h0, if_false] at h
      split at h
      · simp at h
      · rename_i hlen
        split at h
        · simp at h
        · rename_i fr hfr
          simp only [Except.ok.injEq] at h
          subst h
          have hp := tdiv_pos_imp hd (show 0 < ((s - prev) * pDt).tdiv origDt by omega)
          simp only [NoOverlap]
          refine ⟨Int.le_refl _, by omega, ?_⟩
          refine NoOverlap_mono ?_ (ih s fr hfr)
          simp only [Frag.endt]
          have e : prev * pDt + (s - prev) * pDt = s * pDt := by grind
          omega



/-! ## find_peaks -/

/-- one iteration of the hit loop on the candidate -/
def Cand.step (P : FPParams) (toPe : List Rat) (nCh : Nat) (c : Option Cand) (h : Hit) : Cand :=
  (Cand.enter P nCh c h).add toPe h

/-- the candidate built from a group of hits -/
def buildCand (P : FPParams) (toPe : List Rat) (nCh : Nat) : List Hit → Option Cand
  | [] => none
  | h :: t => some (t.foldl (fun c x => Cand.step P toPe nCh (some c) x) (Cand.step P toPe nCh none h))

theorem scanHits_cons (P : FPParams) (toPe : List Rat) (nCh : Nat) (c : Option Cand) (h : Hit) (rest : List Hit) :
    scanHits P toPe nCh c (h :: rest) =
      match rest with
      | [] => [Cand.step P toPe nCh c h]
      | nx :: _ =>
        if isFar P (Cand.step P toPe nCh c h) nx || tooLong P (Cand.step P toPe nCh c h) nx
        then Cand.step P toPe nCh c h :: scanHits P toPe nCh none rest
        else scanHits P toPe nCh (some (Cand.step P toPe nCh c h)) rest := by
  cases rest <;> simp [scanHits, Cand.step]

def membersOf (c : Option Cand) : List Hit := match c with | some c => c.members | none => []

theorem step_members (P : FPParams) (toPe : List Rat) (nCh : Nat) (c : Option Cand) (h : Hit) :
    (Cand.step P toPe nCh c h).members = membersOf c ++ [h] := by
  cases c <;> simp [Cand.step, Cand.enter, Cand.add, membersOf]

/-- the candidate is the fold of the loop body over its members -/
def Inv (P : FPParams) (toPe : List Rat) (nCh : Nat) (c : Cand) : Prop := buildCand P toPe nCh c.members = some c

def InvO (P : FPParams) (toPe : List Rat) (nCh : Nat) : Option Cand → Prop
  | none => True
  | some c => Inv P toPe nCh c

theorem step_inv (P : FPParams) (toPe : List Rat) (nCh : Nat) (c : Option Cand) (h : Hit) (hc : InvO P toPe nCh c) :
    Inv P toPe nCh (Cand.step P toPe nCh c h) := by
  unfold Inv
  rw [step_members]
  cases c with
  | none => simp [membersOf, buildCand]
  | some c =>
    simp only [InvO, Inv] at hc
    simp only [membersOf]
    cases hm : c.members with
    | nil => rw [hm] at hc; simp [buildCand] at hc
    | cons h0 t =>
      rw [hm] at hc
      simp only [buildCand, Option.some.injEq] at hc
      simp only [List.cons_append, buildCand, List.foldl_append, List.foldl_cons, List.foldl_nil, hc]

/-- partition: the members of the closed candidates, concatenated, are the hits (after what the open candidate holds) -/
theorem scanHits_flatten (P : FPParams) (toPe : List Rat) (nCh : Nat) :
    ∀ (hits : List Hit) (c : Option Cand), hits ≠ [] →
      ((scanHits P toPe nCh c hits).map (·.members)).flatten = membersOf c ++ hits := by
  intro hits
  induction hits with
  | nil => intro c h; exact absurd rfl h
  | cons h rest ih =>
    intro c _
    rw [scanHits_cons]
    cases rest with
    | nil => simp [step_members]
    | cons nx r =>
      simp only
      split
      · simp [step_members, ih none (by simp), membersOf]
      · rw [ih _ (by simp)]; simp [membersOf, step_members]

theorem scanHits_inv (P : FPParams) (toPe : List Rat) (nCh : Nat) :
    ∀ (hits : List Hit) (c : Option Cand), InvO P toPe nCh c →
      ∀ c' ∈ scanHits P toPe nCh c hits, Inv P toPe nCh c' := by
  intro hits
  induction hits with
  | nil => intro c _ c' hc'; simp [scanHits] at hc'
  | cons h rest ih =>
    intro c hc c' hc'
    rw [scanHits_cons] at hc'
    have hs := step_inv P toPe nCh c h hc
    cases rest with
    | nil => simp at hc'; subst hc'; exact hs
    | cons nx r =>
      simp only at hc'
      split at hc'
      · simp only [List.mem_cons] at hc'
        rcases hc' with rfl | hc'
        · exact hs
        · exact ih none trivial c' hc'
      · exact ih (some _) hs c' hc'


/-- inside a group: every further hit is neither far from nor too long for the candidate built so far -/
def ChainOK (P : FPParams) (toPe : List Rat) (nCh : Nat) : Cand → List Hit → Prop
  | _, [] => True
  | c, h :: rest => isFar P c h = false ∧ tooLong P c h = false ∧ ChainOK P toPe nCh (Cand.step P toPe nCh (some c) h) rest

def IsChain (P : FPParams) (toPe : List Rat) (nCh : Nat) : List Hit → Prop
  | [] => False
  | h :: t => ChainOK P toPe nCh (Cand.step P toPe nCh none h) t

theorem ChainOK_append (P : FPParams) (toPe : List Rat) (nCh : Nat) (h : Hit) :
    ∀ (l : List Hit) (c : Cand), ChainOK P toPe nCh c (l ++ [h]) ↔
      ChainOK P toPe nCh c l ∧
        isFar P (l.foldl (fun c x => Cand.step P toPe nCh (some c) x) c) h = false ∧
        tooLong P (l.foldl (fun c x => Cand.step P toPe nCh (some c) x) c) h = false := by
  intro l
  induction l with
  | nil => intro c; simp [ChainOK]
  | cons x l ih => intro c; simp only [List.cons_append, ChainOK, List.foldl_cons, ih]; grind

def ChainO (P : FPParams) (toPe : List Rat) (nCh : Nat) : Option Cand → Prop
  | none => True
  | some c => IsChain P toPe nCh c.members

theorem step_chain (P : FPParams) (toPe : List Rat) (nCh : Nat) (c : Option Cand) (h : Hit)
    (hi : InvO P toPe nCh c) (hc : ChainO P toPe nCh c)
    (hn : ∀ c0, c = some c0 → isFar P c0 h = false ∧ tooLong P c0 h = false) :
    IsChain P toPe nCh (Cand.step P toPe nCh c h).members := by
  rw [step_members]
  cases c with
  | none => simp [membersOf, IsChain, ChainOK]
  | some c =>
    simp only [membersOf]
    simp only [InvO, Inv] at hi
    simp only [ChainO] at hc
    cases hm : c.members with
    | nil => rw [hm] at hi; simp [buildCand] at hi
    | cons h0 t =>
      rw [hm] at hi hc
      simp only [buildCand, Option.some.injEq] at hi
      simp only [List.cons_append, IsChain] at hc ⊢
      rw [ChainOK_append, hi]
      exact ⟨hc, hn c rfl⟩

theorem scanHits_chain (P : FPParams) (toPe : List Rat) (nCh : Nat) :
    ∀ (hits : List Hit) (c : Option Cand), InvO P toPe nCh c → ChainO P toPe nCh c →
      (∀ c0 h r, c = some c0 → hits = h :: r → isFar P c0 h = false ∧ tooLong P c0 h = false) →
      ∀ c' ∈ scanHits P toPe nCh c hits, IsChain P toPe nCh c'.members := by
  intro hits
  induction hits with
  | nil => intro c _ _ _ c' hc'; simp [scanHits] at hc'
  | cons h rest ih =>
    intro c hi hc hn c' hc'
    rw [scanHits_cons] at hc'
    have hs := step_inv P toPe nCh c h hi
    have hch := step_chain P toPe nCh c h hi hc (fun c0 e => hn c0 h rest e rfl)
    cases rest with
    | nil => simp at hc'; subst hc'; exact hch
    | cons nx r =>
      simp only at hc'
      split at hc'
      · simp only [List.mem_cons] at hc'
        rcases hc' with rfl | hc'
        · exact hch
        · exact ih none trivial trivial (by intro c0 _ _ e; cases e) c' hc'
      · rename_i hcond
        refine ih (some _) hs hch ?_ c' hc'
        intro c0 h' r' e1 e2
        cases e1; cases e2
        simpa using hcond

/-- `f c h` holds between every closed candidate `c` and the first hit `h` of the next group -/
def sepBy (f : Cand → Hit → Bool) : List Cand → Bool
  | c :: c' :: rest => (match c'.members with | h :: _ => f c h | [] => false) && sepBy f (c' :: rest)
  | _ => true

/-- between consecutive groups: the first hit of the next group is far from (`>= gap_threshold` behind the
running end of), or too long for, the closed candidate -/
def Separated (P : FPParams) (cs : List Cand) : Prop := sepBy (fun c h => isFar P c h || tooLong P c h) cs = true

/-- every boundary is a gap boundary (no `max_duration` cut happened) -/
def SeparatedFar (P : FPParams) (cs : List Cand) : Prop := sepBy (fun c h => isFar P c h) cs = true

instance (P : FPParams) (cs : List Cand) : Decidable (Separated P cs) := by unfold Separated; infer_instance
instance (P : FPParams) (cs : List Cand) : Decidable (SeparatedFar P cs) := by unfold SeparatedFar; infer_instance

theorem scanHits_head (P : FPParams) (toPe : List Rat) (nCh : Nat) :
    ∀ (r : List Hit) (h : Hit) (c : Option Cand),
      ∃ c' rest' t, scanHits P toPe nCh c (h :: r) = c' :: rest' ∧ c'.members = membersOf c ++ h :: t := by
  intro r
  induction r with
  | nil => intro h c; exact ⟨Cand.step P toPe nCh c h, [], [], by simp [scanHits_cons], by simp [step_members]⟩
  | cons nx r ih =>
    intro h c
    rw [scanHits_cons]
    simp only
    split
    · exact ⟨_, _, [], rfl, by simp [step_members]⟩
    · obtain ⟨c', rest', t, e1, e2⟩ := ih nx (some (Cand.step P toPe nCh c h))
      exact ⟨c', rest', nx :: t, e1, by simp [e2, membersOf, step_members]⟩

theorem scanHits_separated (P : FPParams) (toPe : List Rat) (nCh : Nat) :
    ∀ (hits : List Hit) (c : Option Cand), Separated P (scanHits P toPe nCh c hits) := by
  intro hits
  induction hits with
  | nil => intro c; simp [scanHits, Separated, sepBy]
  | cons h rest ih =>
    intro c
    rw [scanHits_cons]
    cases rest with
    | nil => simp [Separated, sepBy]
    | cons nx r =>
      simp only
      split
      · rename_i hcond
        obtain ⟨c', rest', t, e1, e2⟩ := scanHits_head P toPe nCh r nx none
        have := ih none
        rw [e1] at this ⊢
        simp only [membersOf, List.nil_append] at e2
        simp only [Separated, sepBy, e2, Bool.and_eq_true] at this ⊢
        exact ⟨hcond, this⟩
      · exact ih _

/-! ### closed forms of the candidate's fields -/

theorem addIdx_length (l : List Rat) (k : Nat) (v : Rat) : (addIdx l k v).length = l.length := by
  induction l generalizing k with
  | nil => simp [addIdx]
  | cons b bs ih => cases k <;> simp [addIdx, ih]

theorem addIdx_getD (l : List Rat) (k j : Nat) (v : Rat) (hk : k < l.length) :
    (addIdx l k v).getD j 0 = l.getD j 0 + (if j = k then v else 0) := by
  induction l generalizing k j with
  | nil => simp at hk
  | cons b bs ih =>
    cases k with
    | zero => cases j <;> simp [addIdx, Rat.add_zero]
    | succ k =>
      cases j with
      | zero => simp [addIdx, Rat.add_zero]
      | succ j =>
        simp only [addIdx, List.getD_cons_succ]
        rw [ih k j (by simpa using hk)]
        simp

/-- what a hit adds to the area of its peak, in PE -/
def hitPE (toPe : List Rat) (x : Hit) : Rat := x.area * toPe.getD x.channel 0

def stepF (P : FPParams) (toPe : List Rat) (nCh : Nat) : Cand → Hit → Cand :=
  fun c x => Cand.step P toPe nCh (some c) x

theorem fold_fields (P : FPParams) (toPe : List Rat) (nCh : Nat) :
    ∀ (t : List Hit) (c : Cand),
      (t.foldl (stepF P toPe nCh) c).time = c.time ∧
      (t.foldl (stepF P toPe nCh) c).dt = c.dt ∧
      (t.foldl (stepF P toPe nCh) c).endt = t.foldl (fun e x => max e x.endt) c.endt ∧
      (t.foldl (stepF P toPe nCh) c).nHits = c.nHits + t.length ∧
      (t.foldl (stepF P toPe nCh) c).area = c.area + (t.map (hitPE toPe)).sum ∧
      (t.foldl (stepF P toPe nCh) c).apc.length = c.apc.length := by
  intro t
  induction t with
  | nil => intro c; simp [Rat.add_zero]
  | cons x t ih =>
    intro c
    simp only [List.foldl_cons]
    obtain ⟨h1, h2, h3, h4, h5, h6⟩ := ih (stepF P toPe nCh c x)
    rw [h1, h2, h3, h4, h5, h6]
    simp only [stepF, Cand.step, Cand.enter, Cand.add, List.map_cons, List.sum_cons, List.length_cons, hitPE, addIdx_length]
    refine ⟨trivial, trivial, trivial, by omega, by grind, trivial⟩

theorem fold_apc (P : FPParams) (toPe : List Rat) (nCh : Nat) (k : Nat) :
    ∀ (t : List Hit) (c : Cand), (∀ x ∈ t, x.channel < c.apc.length) →
      (t.foldl (stepF P toPe nCh) c).apc.getD k 0
        = c.apc.getD k 0 + ((t.filter (fun x => x.channel = k)).map (hitPE toPe)).sum := by
  intro t
  induction t with
  | nil => intro c _; simp [Rat.add_zero]
  | cons x t ih =>
    intro c hch
    simp only [List.foldl_cons]
    have hx : x.channel < c.apc.length := hch x (by simp)
    rw [ih (stepF P toPe nCh c x) (by
      intro y hy
      simp only [stepF, Cand.step, Cand.enter, Cand.add, addIdx_length]
      exact hch y (by simp [hy]))]
    simp only [stepF, Cand.step, Cand.enter, Cand.add]
    rw [addIdx_getD _ _ _ _ hx]
    by_cases hk : x.channel = k
    · subst hk; simp [List.filter_cons, hitPE]; grind
    · have : ¬ k = x.channel := fun e => hk e.symm
      simp [List.filter_cons, hk, this]; grind


/-- latest end among the hits of a group (0 for the empty group) -/
def maxEndt : List Hit → Int
  | [] => 0
  | h :: t => t.foldl (fun e x => max e x.endt) h.endt

theorem foldmax_ge (t : List Hit) (e : Int) :
    e ≤ t.foldl (fun e x => max e x.endt) e ∧ ∀ x ∈ t, x.endt ≤ t.foldl (fun e x => max e x.endt) e := by
  induction t generalizing e with
  | nil => simp
  | cons y t ih =>
    simp only [List.foldl_cons, List.mem_cons]
    obtain ⟨h1, h2⟩ := ih (max e y.endt)
    refine ⟨by omega, ?_⟩
    intro x hx
    rcases hx with rfl | hx
    · omega
    · exact h2 x hx

theorem le_maxEndt (g : List Hit) : ∀ x ∈ g, x.endt ≤ maxEndt g := by
  cases g with
  | nil => simp
  | cons h t =>
    intro x hx
    simp only [maxEndt, List.mem_cons] at *
    rcases hx with rfl | hx
    · exact (foldmax_ge t _).1
    · exact (foldmax_ge t _).2 x hx

theorem foldmax_dvd (d : Int) (t : List Hit) (e : Int) (he : d ∣ e) (ht : ∀ x ∈ t, d ∣ x.endt) :
    d ∣ t.foldl (fun e x => max e x.endt) e := by
  induction t generalizing e with
  | nil => simpa
  | cons y t ih =>
    simp only [List.foldl_cons]
    apply ih
    · rcases Int.le_total e y.endt with h | h
      · rw [Int.max_eq_right h]; exact ht y (by simp)
      · rw [Int.max_eq_left h]; exact he
    · intro x hx; exact ht x (by simp [hx])

/-- the fields of the candidate of a group, in closed form -/
theorem buildCand_spec (P : FPParams) (toPe : List Rat) (nCh : Nat) (h : Hit) (t : List Hit) (c : Cand)
    (hb : buildCand P toPe nCh (h :: t) = some c) :
    c.time = h.time - P.left ∧ c.dt = h.dt ∧ c.endt = maxEndt (h :: t) ∧ c.nHits = ((h :: t).length : Int) ∧
    c.area = ((h :: t).map (hitPE toPe)).sum ∧ c.apc.length = nCh ∧
    ((∀ x ∈ h :: t, x.channel < nCh) → ∀ k, c.apc.getD k 0 = (((h :: t).filter (fun x => x.channel = k)).map (hitPE toPe)).sum) := by
  simp only [buildCand, Option.some.injEq] at hb
  subst hb
  obtain ⟨h1, h2, h3, h4, h5, h6⟩ := fold_fields P toPe nCh t (Cand.step P toPe nCh none h)
  have f : ∀ (c0 : Cand), t.foldl (fun c x => Cand.step P toPe nCh (some c) x) c0 = t.foldl (stepF P toPe nCh) c0 := fun _ => rfl
  rw [f]
  refine ⟨by rw [h1]; simp [Cand.step, Cand.enter, Cand.add], by rw [h2]; simp [Cand.step, Cand.enter, Cand.add], ?_, ?_, ?_, ?_, ?_⟩
  · rw [h3]; simp [Cand.step, Cand.enter, Cand.add, maxEndt]
  · rw [h4]; simp [Cand.step, Cand.enter, Cand.add]; omega
  · rw [h5]; simp [Cand.step, Cand.enter, Cand.add, hitPE, Rat.zero_add]
  · rw [h6]; simp [Cand.step, Cand.enter, Cand.add, addIdx_length, zeros]
  · intro hch k
    have hz : (zeros nCh).length = nCh := by simp [zeros]
    rw [fold_apc P toPe nCh k t _ (by
      intro x hx
      simp only [Cand.step, Cand.enter, Cand.add, addIdx_length, hz]
      exact hch x (by simp [hx]))]
    simp only [Cand.step, Cand.enter, Cand.add]
    rw [addIdx_getD _ _ _ _ (by rw [hz]; exact hch h (by simp))]
    have hzero : (zeros nCh).getD k 0 = 0 := by
      simp [zeros, List.getD_eq_getElem?_getD, List.getElem?_replicate]; split <;> rfl
    rw [hzero]
    by_cases hk : h.channel = k
    · subst hk; simp [hitPE, Rat.zero_add]
    · have : ¬ k = h.channel := fun e => hk e.symm
      simp [hk, this, Rat.zero_add, Rat.add_zero]


/-! ### the cuts -/

/-- the peak a closed candidate becomes, if it passes the cuts -/
def Cand.toPeak (P : FPParams) (nS : Nat) (c : Cand) : Option Peak :=
  match c.finish P nS with
  | .ok (some p) => some p
  | _ => none

theorem finishAll_ok (P : FPParams) (nS : Nat) :
    ∀ (cs : List Cand) (peaks : List Peak), finishAll P nS cs = .ok peaks →
      peaks = cs.filterMap (Cand.toPeak P nS) ∧ ∀ c ∈ cs, ∃ r, c.finish P nS = .ok r := by
  intro cs
  induction cs with
  | nil => intro peaks h; simp [finishAll] at h; subst h; simp
  | cons c cs ih =>
    intro peaks h
    unfold finishAll at h
    split at h
    · simp at h
    · rename_i hf
      obtain ⟨e, he⟩ := ih peaks h
      refine ⟨by simp [List.filterMap_cons, Cand.toPeak, hf, e], ?_⟩
      intro c' hc'
      rcases List.mem_cons.mp hc' with rfl | hc'
      · exact ⟨_, hf⟩
      · exact he c' hc'
    · rename_i p hf
      split at h
      · simp at h
      · rename_i ps hps
        simp only [Except.ok.injEq] at h
        obtain ⟨e, he⟩ := ih ps hps
        refine ⟨by simp [List.filterMap_cons, Cand.toPeak, hf, ← h, e], ?_⟩
        intro c' hc'
        rcases List.mem_cons.mp hc' with rfl | hc'
        · exact ⟨_, hf⟩
        · exact he c' hc'

/-- a candidate becomes a peak exactly when it passes both cuts; the peak carries its fields -/
theorem toPeak_some (P : FPParams) (nS : Nat) (c : Cand) (p : Peak) (h : c.toPeak P nS = some p) :
    ¬ c.area < P.minArea ∧ ¬ nonzeroCount c.apc < P.minChannels ∧
    p.time = c.time ∧ p.dt = c.dt ∧ p.length = Int.tdiv (c.endt - c.time + P.right) c.lastDt ∧ 0 < p.length ∧
    p.area = c.area ∧ p.apc = c.apc ∧ p.nHits = c.nHits ∧ p.maxGap = c.maxGap := by
  unfold Cand.toPeak Cand.finish at h
  split at h
  · rename_i q hq
    split at hq
    · simp at hq
    · split at hq
      · simp at hq
      · split at hq
        · simp at hq
        · simp only [] at hq
          split at hq
          · simp at hq
          · simp only [Except.ok.injEq, Option.some.injEq] at hq h
            subst hq; subst h
            refine ⟨by assumption, by assumption, rfl, rfl, rfl, by simp only; omega, rfl, rfl, rfl, rfl⟩
  · simp at h

theorem toPeak_none_of_cut (P : FPParams) (nS : Nat) (c : Cand)
    (h : c.area < P.minArea ∨ nonzeroCount c.apc < P.minChannels) : c.toPeak P nS = none := by
  unfold Cand.toPeak Cand.finish
  rcases h with h | h
  · simp [h]
  · by_cases h' : c.area < P.minArea <;> simp [h, h']


/-! ### order and separation of the closed candidates -/

theorem inv_first (P : FPParams) (toPe : List Rat) (nCh : Nat) (c : Cand) (hi : Inv P toPe nCh c) :
    ∃ f t, c.members = f :: t ∧ c.time = f.time - P.left := by
  unfold Inv at hi
  cases hm : c.members with
  | nil => rw [hm] at hi; simp [buildCand] at hi
  | cons f t =>
    rw [hm] at hi
    exact ⟨f, t, rfl, (buildCand_spec P toPe nCh f t c hi).1⟩

theorem sorted_flatten_cons {l : List Hit} {L : List (List Hit)}
    (h : (l :: L).flatten.Pairwise (fun a b => a.time ≤ b.time)) :
    L.flatten.Pairwise (fun a b => a.time ≤ b.time) ∧ ∀ x ∈ l, ∀ l' ∈ L, ∀ y ∈ l', x.time ≤ y.time := by
  simp only [List.flatten_cons, List.pairwise_append] at h
  refine ⟨h.2.1, ?_⟩
  intro x hx l' hl' y hy
  exact h.2.2 x hx y (List.mem_flatten.mpr ⟨l', hl', hy⟩)

/-- with time-sorted hits, candidates closed by the gap rule are separated by at least the threshold
(measured between the running end of the earlier and the first hit of the later one) -/
theorem pairwise_far (P : FPParams) (toPe : List Rat) (nCh : Nat) :
    ∀ (cs : List Cand), (∀ c ∈ cs, Inv P toPe nCh c) →
      (cs.map (·.members)).flatten.Pairwise (fun a b => a.time ≤ b.time) →
      SeparatedFar P cs →
      cs.Pairwise (fun c c' => c.endt + P.gap ≤ c'.time + P.left) := by
  intro cs
  induction cs with
  | nil => intros; exact List.Pairwise.nil
  | cons c rest ih =>
    intro hinv hsort hsep
    simp only [List.map_cons] at hsort
    obtain ⟨hs1, hs2⟩ := sorted_flatten_cons hsort
    cases rest with
    | nil => exact List.pairwise_singleton _ _
    | cons c' rest' =>
      simp only [SeparatedFar, sepBy, Bool.and_eq_true] at hsep
      obtain ⟨hfar, hsep'⟩ := hsep
      refine List.Pairwise.cons ?_ (ih (fun x hx => hinv x (by simp [hx])) hs1 hsep')
      obtain ⟨f', t', hm', ht'⟩ := inv_first P toPe nCh c' (hinv c' (by simp))
      rw [hm'] at hfar
      simp only [isFar, decide_eq_true_eq] at hfar
      intro c'' hc''
      rcases List.mem_cons.mp hc'' with rfl | hc''
      · omega
      · obtain ⟨f'', t'', hm'', ht''⟩ := inv_first P toPe nCh c'' (hinv c'' (by simp [hc'']))
        simp only [List.map_cons] at hs1
        have := (sorted_flatten_cons hs1).2 f' (by simp [hm']) c''.members (List.mem_map.mpr ⟨c'', hc'', rfl⟩) f'' (by simp [hm''])
        omega

/-- with time-sorted hits the candidates start in time order, duration cuts or not -/
theorem pairwise_time (P : FPParams) (toPe : List Rat) (nCh : Nat) :
    ∀ (cs : List Cand), (∀ c ∈ cs, Inv P toPe nCh c) →
      (cs.map (·.members)).flatten.Pairwise (fun a b => a.time ≤ b.time) →
      cs.Pairwise (fun c c' => c.time ≤ c'.time) := by
  intro cs
  induction cs with
  | nil => intros; exact List.Pairwise.nil
  | cons c rest ih =>
    intro hinv hsort
    simp only [List.map_cons] at hsort
    obtain ⟨hs1, hs2⟩ := sorted_flatten_cons hsort
    refine List.Pairwise.cons ?_ (ih (fun x hx => hinv x (by simp [hx])) hs1)
    obtain ⟨f, t, hm, ht⟩ := inv_first P toPe nCh c (hinv c (by simp))
    intro c'' hc''
    obtain ⟨f'', t'', hm'', ht''⟩ := inv_first P toPe nCh c'' (hinv c'' (by simp [hc'']))
    have := hs2 f (by simp [hm]) c''.members (List.mem_map.mpr ⟨c'', hc'', rfl⟩) f'' (by simp [hm''])
    omega


/-! ### the span of a peak -/

theorem fold_lastDt (P : FPParams) (toPe : List Rat) (nCh : Nat) (d : Int) :
    ∀ (t : List Hit) (c : Cand), c.lastDt = d → (∀ x ∈ t, x.dt = d) → (t.foldl (stepF P toPe nCh) c).lastDt = d := by
  intro t
  induction t with
  | nil => intro c h _; simpa
  | cons x t ih =>
    intro c _ hx
    simp only [List.foldl_cons]
    exact ih _ (by simp [stepF, Cand.step, Cand.enter, Cand.add, hx x (by simp)]) (fun y hy => hx y (by simp [hy]))

/-- hits of one sampling width `d`, on the sample grid -/
def OnGrid (d : Int) (g : List Hit) : Prop := ∀ x ∈ g, x.dt = d ∧ d ∣ x.time

/-- a peak spans its hits plus the extensions: it starts `left_extension` before the first hit and
ends `right_extension` after the latest hit end (hits on a common sample grid) -/
theorem peak_span (P : FPParams) (toPe : List Rat) (nCh nS : Nat) (c : Cand) (p : Peak) (d : Int)
    (hi : Inv P toPe nCh c) (hd : 0 < d) (hg : OnGrid d c.members) (hl : d ∣ P.left) (hr : d ∣ P.right)
    (hp : c.toPeak P nS = some p) :
    ∃ f t, c.members = f :: t ∧ p.time = f.time - P.left ∧ p.endt = maxEndt c.members + P.right ∧ p.dt = d := by
  obtain ⟨_, _, ht, hdt, hlen, _, _⟩ := toPeak_some P nS c p hp
  unfold Inv at hi
  cases hm : c.members with
  | nil => rw [hm] at hi; simp [buildCand] at hi
  | cons f t =>
    rw [hm] at hi hg
    obtain ⟨s1, s2, s3, _⟩ := buildCand_spec P toPe nCh f t c hi
    have hlast : c.lastDt = d := by
      simp only [buildCand, Option.some.injEq] at hi
      rw [← hi]
      exact fold_lastDt P toPe nCh d t _ (by simp [Cand.step, Cand.enter, Cand.add, (hg f (by simp)).1])
        (fun x hx => (hg x (by simp [hx])).1)
    have hfd : f.dt = d := (hg f (by simp)).1
    have hdvd : d ∣ c.endt - c.time + P.right := by
      have h1 : d ∣ c.endt := by
        rw [s3]
        apply foldmax_dvd
        · simp only [Hit.endt, hfd]; exact Int.dvd_add (hg f (by simp)).2 (Int.dvd_mul_right _ _)
        · intro x hx
          simp only [Hit.endt, (hg x (by simp [hx])).1]
          exact Int.dvd_add (hg x (by simp [hx])).2 (Int.dvd_mul_right _ _)
      have h2 : d ∣ c.time := by rw [s1]; exact Int.dvd_sub (hg f (by simp)).2 hl
      exact Int.dvd_add (Int.dvd_sub h1 h2) hr
    refine ⟨f, t, rfl, by rw [ht, s1], ?_, by rw [hdt, s2, hfd]⟩
    obtain ⟨k, hk⟩ := hdvd
    have : p.length = k := by
      rw [hlen, hlast, hk]; exact Int.mul_tdiv_cancel_left _ (by omega)
    simp only [Peak.endt, ht, hdt, s2, hfd, this, ← s3]
    omega



/-! ## sum_waveform / store_downsampled_waveform -/

theorem addIdx_sum (l : List Rat) (k : Nat) (v : Rat) (hk : k < l.length) : (addIdx l k v).sum = l.sum + v := by
  induction l generalizing k with
  | nil => simp at hk
  | cons b bs ih =>
    cases k with
    | zero => simp [addIdx]; grind
    | succ k => simp [addIdx, ih k (by simpa using hk)]; grind

theorem addAt_length (buf : List Rat) (k : Nat) (xs : List Rat) : (addAt buf k xs).length = buf.length := by
  induction buf generalizing k xs with
  | nil => simp [addAt]
  | cons b bs ih =>
    cases k with
    | zero => cases xs <;> simp [addAt, ih]
    | succ k => simp [addAt, ih]

/-- `buf[k : k+len(xs)] += xs` adds the sum of `xs` when the slice fits -/
theorem addAt_sum (buf : List Rat) (k : Nat) (xs : List Rat) (h : k + xs.length ≤ buf.length) :
    (addAt buf k xs).sum = buf.sum + xs.sum := by
  induction buf generalizing k xs with
  | nil =>
    have : xs = [] := by cases xs <;> simp_all
    subst this; simp [addAt, Rat.add_zero]
  | cons b bs ih =>
    cases k with
    | zero =>
      cases xs with
      | nil => simp [addAt, Rat.add_zero]
      | cons x xs =>
        simp only [addAt, List.sum_cons]
        rw [ih 0 xs (by simp at h ⊢; omega)]
        grind
    | succ k =>
      simp only [addAt, List.sum_cons]
      rw [ih k xs (by simp at h ⊢; omega)]
      grind

/-- `overlap_indices` returns index ranges that lie inside both intervals and have equal length -/
theorem overlapIndices_fits (a1 nA b1 nB hs he ps pe : Int)
    (h : overlapIndices a1 nA b1 nB = .ok ((hs, he), (ps, pe))) :
    0 ≤ hs ∧ hs ≤ he ∧ he ≤ nA ∧ 0 ≤ ps ∧ ps ≤ pe ∧ pe ≤ nB ∧ he - hs = pe - ps := by
  unfold overlapIndices at h
  split at h
  · simp at h
  · rename_i h1
    split at h
    · simp at h; obtain ⟨⟨rfl, rfl⟩, rfl, rfl⟩ := h; simp at h1; omega
    · simp only [] at h
      split at h
      · simp at h; obtain ⟨⟨rfl, rfl⟩, rfl, rfl⟩ := h; simp at h1; omega
      · split at h
        · simp at h; obtain ⟨⟨rfl, rfl⟩, rfl, rfl⟩ := h; simp at h1; omega
        · simp at h; obtain ⟨⟨rfl, rfl⟩, rfl, rfl⟩ := h; simp at h1; omega


theorem slice_length_le {α} (a : List α) (lo hi : Nat) : (slice a lo hi).length ≤ hi - lo := by
  unfold slice; simp; omega

/-- the hit scan keeps `Σ buf = area = Σ area_per_channel` (as increments) -/
theorem scanPeakHits_conserves (p : Peak) (dt : Int) (toPe : List Rat) :
    ∀ (hits : List Hit) (acc acc' : SumAcc), scanPeakHits p dt toPe hits acc = .ok acc' →
      acc.buf.length = p.length.toNat →
      acc'.buf.length = acc.buf.length ∧ acc'.buf.sum - acc.buf.sum = acc'.area - acc.area ∧
      ((∀ h ∈ hits, h.channel < acc.apc.length) →
        acc'.apc.length = acc.apc.length ∧ acc'.apc.sum - acc.apc.sum = acc'.area - acc.area) := by
  intro hits
  induction hits with
  | nil => intro acc acc' h _; simp [scanPeakHits] at h; subst h; simp; grind
  | cons x rest ih =>
    intro acc acc' h hlen
    unfold scanPeakHits at h
    split at h
    · simp at h
    · simp only [] at h
      split at h
      · simp at h; subst h; simp; grind
      · split at h
        · obtain ⟨h1, h2, h3⟩ := ih acc acc' h hlen
          exact ⟨h1, h2, fun hc => h3 (fun y hy => hc y (by simp [hy]))⟩
        · split at h
          · simp at h
          · rename_i hs he ps pe hov
            obtain ⟨o1, o2, o3, o4, o5, o6, o7⟩ := overlapIndices_fits _ _ _ _ _ _ _ _ hov
            have hfit : ps.toNat + ((slice x.wave hs.toNat he.toNat).map (· * toPe.getD x.channel 0)).length ≤ acc.buf.length := by
              have := slice_length_le x.wave hs.toNat he.toNat
              simp only [List.length_map]
              omega
            obtain ⟨h1, h2, h3⟩ := ih _ acc' h (by simp only [addAt_length]; exact hlen)
            simp only [addAt_length] at h1
            rw [addAt_sum _ _ _ hfit] at h2
            refine ⟨h1, by grind, ?_⟩
            intro hc
            have hx : x.channel < acc.apc.length := hc x (by simp)
            obtain ⟨h4, h5⟩ := h3 (by intro y hy; simp only [addIdx_length]; exact hc y (by simp [hy]))
            simp only [addIdx_length] at h4
            rw [addIdx_sum _ _ _ hx] at h5
            exact ⟨h4, by grind⟩


theorem groupSums_length (f k : Nat) (buf : List Rat) : (groupSums f k buf).length = k := by
  induction k generalizing buf with
  | zero => simp [groupSums]
  | succ k ih => simp [groupSums, ih]

theorem groupSums_sum (f k : Nat) (buf : List Rat) : (groupSums f k buf).sum = (buf.take (k * f)).sum := by
  induction k generalizing buf with
  | zero => simp [groupSums]
  | succ k ih =>
    simp only [groupSums, List.sum_cons, ih]
    have : (k + 1) * f = f + k * f := by grind
    rw [this, List.take_add, List.sum_append]

theorem setAt_zero_take (data xs : List Rat) (h : xs.length ≤ data.length) : (setAt data 0 xs).take xs.length = xs := by
  induction data generalizing xs with
  | nil => cases xs <;> simp_all [setAt]
  | cons b bs ih =>
    cases xs with
    | nil => simp
    | cons x xs => simp [setAt, ih xs (by simpa using h)]

theorem ceil_div_spec (L n : Nat) (hn : 0 < n) : L ≤ downsampleFactor L n * n ∧ (downsampleFactor L n ≤ 1 → L ≤ n) := by
  unfold downsampleFactor
  constructor
  · have := Nat.lt_div_mul_add (a := L + n - 1) hn
    omega
  · intro h
    false_or_by_contra
    have : 2 ≤ (L + n - 1) / n := (Nat.le_div_iff_mul_le hn).mpr (by omega)
    omega

/-- what `store_downsampled_waveform` stores plus what it drops is the whole full-resolution waveform -/
theorem storeDownsampled_sum (p : Peak) (buf : List Rat) (hn : 0 < p.data.length)
    (hb : buf.length = p.length.toNat) :
    (storeDownsampled p buf).wave.sum + (droppedTail p buf).sum = buf.sum := by
  obtain ⟨c1, c2⟩ := ceil_div_spec p.length.toNat p.data.length hn
  unfold storeDownsampled droppedTail Peak.wave
  simp only []
  by_cases hf : downsampleFactor p.length.toNat p.data.length > 1
  · simp only [hf, if_true, writePrefix]
    have hle : p.length.toNat / downsampleFactor p.length.toNat p.data.length ≤ p.data.length :=
      Nat.div_le_of_le_mul c1
    have e1 : (Int.toNat ((p.length.toNat / downsampleFactor p.length.toNat p.data.length : Nat) : Int))
        = (groupSums (downsampleFactor p.length.toNat p.data.length) (p.length.toNat / downsampleFactor p.length.toNat p.data.length) buf).length := by
      rw [groupSums_length]; exact Int.toNat_natCast _
    rw [e1, setAt_zero_take _ _ (by rw [groupSums_length]; exact hle), groupSums_sum]
    have e2 : List.take p.length.toNat buf = buf := List.take_of_length_le (by omega)
    rw [e2, ← List.sum_append, List.take_append_drop]
  · simp only [hf, if_false, writePrefix, List.sum_nil, Rat.add_zero]
    have e2 : List.take p.length.toNat buf = buf := List.take_of_length_le (by omega)
    rw [e2]
    have := setAt_zero_take p.data buf (by have := c2 (by omega); omega)
    rw [hb] at this
    rw [this]


theorem zeros_sum (n : Nat) : (zeros n).sum = 0 := by
  induction n with
  | zero => rfl
  | succ n ih => simp [zeros, List.replicate_succ] at ih ⊢; rw [ih]; exact Rat.add_zero 0

theorem zeros_length (n : Nat) : (zeros n).length = n := by simp [zeros]

/-- one peak of `sum_waveform`: the full-resolution buffer integrates to the area, which is also the sum of
the per-channel areas; the stored waveform plus the samples dropped by down-sampling integrate to it -/
theorem sumOnePeak_conserves (dt : Int) (toPe : List Rat) (nCh : Nat) (p q : Peak) (hits' : List Hit) (buf : List Rat)
    (hn : 0 < p.data.length) (h : sumOnePeak dt toPe nCh p hits' = .ok (q, buf)) :
    buf.sum = q.area ∧ q.wave.sum + (droppedTail p buf).sum = q.area ∧
    ((∀ x ∈ hits', x.channel < nCh) → q.apc.sum = q.area) := by
  unfold sumOnePeak at h
  split at h
  · simp at h
  · rename_i acc hacc
    simp only [Except.ok.injEq, Prod.mk.injEq] at h
    obtain ⟨hq, hbuf⟩ := h
    subst hbuf
    obtain ⟨h1, h2, h3⟩ := scanPeakHits_conserves p dt toPe hits' _ acc hacc (by simp [zeros_length])
    simp only [zeros_sum, zeros_length] at h1 h2 h3
    have hA : acc.buf.sum = acc.area := by grind
    have hs := storeDownsampled_sum { p with area := acc.area } acc.buf hn (by simpa using h1)
    have hq2 : q.wave = (storeDownsampled { p with area := acc.area } acc.buf).wave := by
      rw [← hq]; rfl
    have hq3 : q.area = acc.area := by
      rw [← hq]; unfold storeDownsampled; simp only []; split <;> rfl
    have hd : droppedTail { p with area := acc.area } acc.buf = droppedTail p acc.buf := rfl
    refine ⟨by rw [hq3]; exact hA, by rw [hq2, hq3, ← hd, hs]; exact hA, ?_⟩
    intro hc
    have := (h3 hc).2
    have hq4 : q.apc = acc.apc := by rw [← hq]
    rw [hq4, hq3]; grind


theorem firstContributing_sub (p : Peak) (dt : Int) : ∀ (hits hits' : List Hit),
    firstContributing p dt hits = some hits' → ∀ x ∈ hits', x ∈ hits := by
  intro hits
  induction hits with
  | nil => intro hits' h; simp [firstContributing] at h
  | cons y rest ih =>
    intro hits' h x hx
    unfold firstContributing at h
    split at h
    · simp at h; subst h; exact hx
    · exact List.mem_cons_of_mem _ (ih hits' h x hx)

/-- the two lists have the same length and corresponding entries are related -/
def AllPairs {α β} (R : α → β → Prop) : List α → List β → Prop
  | [], [] => True
  | a :: as, b :: bs => R a b ∧ AllPairs R as bs
  | _, _ => False

theorem AllPairs_same {α} {R : α → α → Prop} (h : ∀ x, R x x) : ∀ l : List α, AllPairs R l l
  | [] => trivial
  | x :: xs => ⟨h x, AllPairs_same h xs⟩

theorem AllPairs.imp {α β} {R S : α → β → Prop} (h : ∀ a b, R a b → S a b) :
    ∀ {l : List α} {m : List β}, AllPairs R l m → AllPairs S l m
  | [], [], _ => trivial
  | _ :: _, _ :: _, ⟨h1, h2⟩ => ⟨h _ _ h1, AllPairs.imp h h2⟩
  | [], _ :: _, hf => hf.elim
  | _ :: _, [], hf => hf.elim

/-- every peak returned by `sum_waveform` was either summed by `sumOnePeak` over a suffix of the hits, or
(hits exhausted) is left as it was / with its area reset -/
theorem sumLoop_forall (dt : Int) (toPe : List Rat) (nCh : Nat) :
    ∀ (peaks : List Peak) (hits : List Hit) (out : List Peak), sumLoop dt toPe nCh peaks hits = .ok out →
      AllPairs (fun p q =>
        (∃ hits' buf, sumOnePeak dt toPe nCh p hits' = .ok (q, buf) ∧ ∀ x ∈ hits', x ∈ hits) ∨ q = p ∨ q = { p with area := 0 })
        peaks out := by
  intro peaks
  induction peaks with
  | nil => intro hits out h; simp [sumLoop] at h; subst h; trivial
  | cons p ps ih =>
    intro hits out h
    unfold sumLoop at h
    split at h
    · simp only [Except.ok.injEq] at h
      subst h
      refine ⟨Or.inr (Or.inr rfl), ?_⟩
      apply AllPairs_same
      intro x; exact Or.inr (Or.inl rfl)
    · rename_i hits' hfc
      split at h
      · simp at h
      · rename_i p' buf hone
        split at h
        · simp at h
        · rename_i r hr
          simp only [Except.ok.injEq] at h
          subst h
          have hsub := firstContributing_sub p dt hits hits' hfc
          refine ⟨Or.inl ⟨hits', buf, hone, hsub⟩, ?_⟩
          refine AllPairs.imp ?_ (ih hits' r hr)
          intro a b hab
          rcases hab with ⟨h2, b2, e, hs⟩ | hab
          · exact Or.inl ⟨h2, b2, e, fun x hx => hsub x (hs x hx)⟩
          · exact Or.inr hab

theorem droppedTail_nil_of_dvd (p : Peak) (buf : List Rat)
    (h : downsampleFactor p.length.toNat p.data.length ∣ p.length.toNat) : droppedTail p buf = [] := by
  unfold droppedTail
  simp only []
  split
  · rw [Nat.div_mul_cancel h]
    simp
  · rfl

theorem sum_zero_of_all_zero (l : List Rat) (h : l.all (· = 0) = true) : l.sum = 0 := by
  induction l with
  | nil => rfl
  | cons x xs ih =>
    simp only [List.all_cons, Bool.and_eq_true, decide_eq_true_eq] at h
    rw [List.sum_cons, h.1, ih h.2]; exact Rat.add_zero 0



/-! ## merge_peaks -/

theorem zipAdd_length (a b : List Rat) : (zipAdd a b).length = a.length := by
  induction a generalizing b with
  | nil => cases b <;> simp [zipAdd]
  | cons x xs ih => cases b <;> simp [zipAdd, ih]

theorem zipAdd_getD (a b : List Rat) (k : Nat) (h : b.length ≤ a.length) :
    (zipAdd a b).getD k 0 = a.getD k 0 + b.getD k 0 := by
  induction a generalizing b k with
  | nil =>
    have : b = [] := by cases b <;> simp_all
    subst this; simp [zipAdd]; exact (Rat.add_zero 0).symm
  | cons x xs ih =>
    cases b with
    | nil => simp [zipAdd, Rat.add_zero]
    | cons y ys =>
      cases k with
      | zero => simp [zipAdd]
      | succ k => simp only [zipAdd, List.getD_cons_succ]; exact ih ys k (by simpa using h)

theorem setAt_length (buf : List Rat) (k : Nat) (xs : List Rat) : (setAt buf k xs).length = buf.length := by
  induction buf generalizing k xs with
  | nil => simp [setAt]
  | cons b bs ih =>
    cases k with
    | zero => cases xs <;> simp [setAt, ih]
    | succ k => simp [setAt, ih]

/-- the loop over the constituents adds areas, hit counts and per-channel areas -/
theorem mergeLoop_acc (t0 common : Int) :
    ∀ (old : List Peak) (acc acc' : MergeAcc), mergeLoop t0 common old acc = .ok acc' →
      acc'.area = acc.area + (old.map (·.area)).sum ∧ acc'.nHits = acc.nHits + (old.map (·.nHits)).sum ∧
      acc'.buf.length = acc.buf.length ∧ acc'.apc.length = acc.apc.length ∧
      ((∀ p ∈ old, p.apc.length = acc.apc.length) →
        ∀ k, acc'.apc.getD k 0 = acc.apc.getD k 0 + (old.map (·.apc.getD k 0)).sum) := by
  intro old
  induction old with
  | nil => intro acc acc' h; simp [mergeLoop] at h; subst h; simp [Rat.add_zero]
  | cons p ps ih =>
    intro acc acc' h
    unfold mergeLoop at h
    simp only [] at h
    split at h
    · simp at h
    · split at h
      · simp at h
      · obtain ⟨h1, h2, h3, h4, h5⟩ := ih _ acc' h
        simp only [setAt_length, zipAdd_length] at h3 h4 h5
        refine ⟨by rw [h1]; simp only [List.map_cons, List.sum_cons]; grind,
                by rw [h2]; simp only [List.map_cons, List.sum_cons]; omega, h3, h4, ?_⟩
        intro hl k
        rw [h5 (fun q hq => hl q (by simp [hq])) k, zipAdd_getD _ _ _ (by rw [hl p (by simp)]; exact Nat.le_refl _)]
        simp only [List.map_cons, List.sum_cons]; grind


/-- `store_downsampled_waveform` keeps start, area, per-channel area and hit count, and never lets the peak
grow: `dt * length` can only shrink (it shrinks exactly when the factor does not divide the length) -/
theorem storeDownsampled_fields (p : Peak) (buf : List Rat) (hdt : 0 < p.dt) :
    (storeDownsampled p buf).time = p.time ∧ (storeDownsampled p buf).area = p.area ∧
    (storeDownsampled p buf).apc = p.apc ∧ (storeDownsampled p buf).nHits = p.nHits ∧
    (storeDownsampled p buf).dt * (storeDownsampled p buf).length ≤ p.dt * p.length ∧
    0 < (storeDownsampled p buf).dt := by
  unfold storeDownsampled
  simp only []
  split
  · rename_i hf
    refine ⟨rfl, rfl, rfl, rfl, ?_, ?_⟩
    · simp only []
      have hL : 0 < p.length.toNat := by
        false_or_by_contra
        have : p.length.toNat = 0 := by omega
        rw [this] at hf
        unfold downsampleFactor at hf
        have := Nat.div_le_self (0 + p.data.length - 1) p.data.length
        have h0 : (0 + p.data.length - 1) / p.data.length = 0 := by
          by_cases hz : p.data.length = 0
          · simp [hz]
          · exact Nat.div_eq_of_lt (by omega)
        omega
      have h1 := Nat.div_mul_le_self p.length.toNat (downsampleFactor p.length.toNat p.data.length)
      have h2 : ((p.length.toNat / downsampleFactor p.length.toNat p.data.length : Nat) : Int) *
          ((downsampleFactor p.length.toNat p.data.length : Nat) : Int) ≤ p.length := by
        have : ((p.length.toNat : Nat) : Int) = p.length := Int.toNat_of_nonneg (by omega)
        rw [← this]; exact_mod_cast h1
      calc p.dt * ↑(downsampleFactor p.length.toNat p.data.length) * ↑(p.length.toNat / downsampleFactor p.length.toNat p.data.length)
          = p.dt * (↑(p.length.toNat / downsampleFactor p.length.toNat p.data.length) * ↑(downsampleFactor p.length.toNat p.data.length)) := by grind
        _ ≤ p.dt * p.length := Int.mul_le_mul_of_nonneg_left h2 (by omega)
    · simp only []
      exact Int.mul_pos hdt (by omega)
  · exact ⟨rfl, rfl, rfl, rfl, Int.le_refl _, hdt⟩

theorem gcdOfDts_nonneg (old : List Peak) (h : ∀ p ∈ old, 0 ≤ p.dt) : 0 ≤ gcdOfDts old := by
  cases old with
  | nil => simp [gcdOfDts]
  | cons p ps =>
    simp only [gcdOfDts]
    have : ∀ (l : List Peak) (g : Int), 0 ≤ g → 0 ≤ l.foldl (fun g q => (Int.gcd g q.dt : Int)) g := by
      intro l
      induction l with
      | nil => intro g hg; simpa
      | cons q qs ih => intro g _; simp only [List.foldl_cons]; exact ih _ (by omega)
    exact this ps p.dt (h p (by simp))

/-- **merge: adds and spans.** -/
theorem mergeOne_spec (nCh nS : Nat) (old : List Peak) (q : Peak) (e : Int)
    (h : mergeOne nCh nS old = .ok (q, e)) :
    ∃ first last, old.head? = some first ∧ old.getLast? = some last ∧
      q.time = first.time ∧ e = last.endt ∧
      q.area = (old.map (·.area)).sum ∧ q.nHits = (old.map (·.nHits)).sum ∧
      ((∀ p ∈ old, p.apc.length = nCh) → ∀ k, q.apc.getD k 0 = (old.map (·.apc.getD k 0)).sum) ∧
      ((∀ p ∈ old, 0 ≤ p.dt) → 0 < q.dt ∧ q.time + q.dt * q.length ≤ e) := by
  unfold mergeOne at h
  split at h
  · rename_i first rest last hl
    simp only [] at h
    split at h
    · simp at h
    · rename_i hc
      split at h
      · simp at h
      · rename_i acc hacc
        simp only [Except.ok.injEq, Prod.mk.injEq] at h
        obtain ⟨hq, he⟩ := h
        obtain ⟨a1, a2, a3, a4, a5⟩ := mergeLoop_acc _ _ _ _ _ hacc
        refine ⟨first, last, rfl, hl, ?_, he.symm, ?_, ?_, ?_, ?_⟩
        · rw [← hq]; unfold storeDownsampled; simp only []; split <;> rfl
        · rw [← hq]; unfold storeDownsampled; simp only []; split <;> (simp only [a1]; grind)
        · rw [← hq]; unfold storeDownsampled; simp only []; split <;> (simp only [a2]; omega)
        · intro hl' k
          have hz : (zeros nCh).getD k 0 = 0 := by
            simp [zeros, List.getD_eq_getElem?_getD, List.getElem?_replicate]; split <;> rfl
          have := a5 (by intro p hp; simp only [zeros_length]; exact hl' p hp) k
          rw [hz] at this
          rw [← hq]; unfold storeDownsampled; simp only []; split <;> (simp only [this]; grind)
        · intro hdt
          have hg := gcdOfDts_nonneg (first :: rest) hdt
          have hpos : 0 < gcdOfDts (first :: rest) := by omega
          obtain ⟨f1, _, _, _, f5, f6⟩ := storeDownsampled_fields
            { time := first.time, length := Int.fdiv (last.endt - first.time) (gcdOfDts (first :: rest)),
              dt := gcdOfDts (first :: rest), area := acc.area, apc := acc.apc, nHits := acc.nHits, maxGap := -1,
              data := zeros nS } acc.buf hpos
          rw [hq] at f1 f5 f6
          refine ⟨f6, ?_⟩
          simp only [] at f1 f5
          rw [f1, ← he]
          have hfl : gcdOfDts (first :: rest) * Int.fdiv (last.endt - first.time) (gcdOfDts (first :: rest)) ≤ last.endt - first.time := by
            rw [Int.fdiv_eq_ediv_of_nonneg _ hg, Int.mul_comm]
            exact Int.ediv_mul_le _ (by omega)
          omega
  · simp at h



/-! ## replace_merged -/

theorem replaceLoop_cons (o : Row) (os : List Row) (i : Nat) (win : Option (Nat × Nat))
    (pend : List (Row × (Nat × Nat))) (acc : List Row) :
    replaceLoop (o :: os) i win pend acc =
      replaceLoop os (i+1) (insertStep i win pend acc).1 (insertStep i win pend acc).2.1
        (if keepRow i (insertStep i win pend acc).1 then o :: (insertStep i win pend acc).2.2 else (insertStep i win pend acc).2.2) := by
  rw [replaceLoop]

theorem replaceLoop_none : ∀ (os : List Row) (i : Nat) (acc : List Row),
    replaceLoop os i none [] acc = (acc.reverse ++ os, none, []) := by
  intro os
  induction os with
  | nil => intro i acc; simp [replaceLoop]
  | cons o os ih => intro i acc; rw [replaceLoop_cons]; simp [insertStep, keepRow, ih]

/-- walking through the rows before the end of the current window: rows before `s` are copied, rows in `[s, e)` skipped -/
theorem replaceLoop_within (s e : Nat) (m : Row) (rest : List (Row × (Nat × Nat))) :
    ∀ (A B : List Row) (i : Nat) (acc : List Row), i + A.length ≤ e →
      replaceLoop (A ++ B) i (some (s, e)) ((m, (s, e)) :: rest) acc
        = replaceLoop B (i + A.length) (some (s, e)) ((m, (s, e)) :: rest) ((A.take (s - i)).reverse ++ acc) := by
  intro A
  induction A with
  | nil => intro B i acc _; simp
  | cons a A ih =>
    intro B i acc h
    simp only [List.length_cons] at h
    have hne : i ≠ e := by omega
    have e3 : i + 1 + A.length = i + (A.length + 1) := by omega
    simp only [List.cons_append, List.length_cons]
    rw [replaceLoop_cons]
    simp only [insertStep, hne, if_false, keepRow]
    by_cases hs : i < s
    · simp only [hs, decide_true, if_true]
      rw [ih B (i+1) (a :: acc) (by omega)]
      have e1 : s - i = (s - (i+1)) + 1 := by omega
      rw [e1, e3]
      simp only [List.take_succ_cons, List.reverse_cons, List.append_assoc, List.singleton_append]
    · simp only [hs, decide_false, if_false, Bool.false_eq_true]
      rw [ih B (i+1) acc (by omega)]
      have e1 : s - i = 0 := by omega
      have e2 : s - (i+1) = 0 := by omega
      simp [e1, e2, e3]


/-- well-formed skip windows: non-empty, inside the array, in order and not overlapping -/
def WindowsOk (n : Nat) : Nat → List (Row × (Nat × Nat)) → Prop
  | _, [] => True
  | lo, (_, (s, e)) :: rest => lo ≤ s ∧ s < e ∧ e ≤ n ∧ WindowsOk n e rest

theorem replaceSpec_shift (orig : List Row) (e : Nat) (rest : List (Row × (Nat × Nat)))
    (h : ∀ m s e' r, rest = (m, (s, e')) :: r → s = e) :
    replaceSpec orig (e+1) rest = replaceSpec orig e rest ∨ rest = [] := by
  cases rest with
  | nil => exact Or.inr rfl
  | cons x r =>
    obtain ⟨m, s, e'⟩ := x
    have := h m s e' r rfl
    subst this
    left
    simp [replaceSpec, slice]

theorem replaceLoop_spec (orig : List Row) :
    ∀ (rest : List (Row × (Nat × Nat))) (m : Row) (s e i : Nat) (acc : List Row),
      i ≤ e → s < e → e ≤ orig.length → WindowsOk orig.length e rest →
      ((replaceLoop (orig.drop i) i (some (s, e)) ((m, (s, e)) :: rest) acc).2.1 = none ∧
       (replaceLoop (orig.drop i) i (some (s, e)) ((m, (s, e)) :: rest) acc).2.2 = [] ∧
       (replaceLoop (orig.drop i) i (some (s, e)) ((m, (s, e)) :: rest) acc).1
          = acc.reverse ++ replaceSpec orig i ((m, (s, e)) :: rest)) ∨
      (∃ m' s', (replaceLoop (orig.drop i) i (some (s, e)) ((m, (s, e)) :: rest) acc).2.1 = some (s', orig.length) ∧
       (replaceLoop (orig.drop i) i (some (s, e)) ((m, (s, e)) :: rest) acc).2.2 = [(m', (s', orig.length))] ∧
       (replaceLoop (orig.drop i) i (some (s, e)) ((m, (s, e)) :: rest) acc).1 ++ [m']
          = acc.reverse ++ replaceSpec orig i ((m, (s, e)) :: rest)) := by
  intro rest
  induction rest with
  | nil =>
    intro m s e i acc hie hse hen _
    have hsplit : orig.drop i = (orig.drop i).take (e - i) ++ orig.drop e := by
      conv => lhs; rw [← List.take_append_drop (e - i) (orig.drop i)]
      simp only [List.drop_drop]; congr 2; omega
    have hlen : ((orig.drop i).take (e - i)).length = e - i := by simp; omega
    have hA : ((orig.drop i).take (e - i)).take (s - i) = slice orig i s := by
      unfold slice; rw [List.take_take]; congr 1; omega
    rw [hsplit, replaceLoop_within s e m [] _ _ i acc (by omega), hlen, hA]
    have hie' : i + (e - i) = e := by omega
    rw [hie']
    by_cases hlast : e = orig.length
    · right
      refine ⟨m, s, ?_⟩
      have : orig.drop e = [] := by rw [hlast]; simp
      rw [this]
      simp [replaceLoop, hlast, replaceSpec]
    · left
      have hlt : e < orig.length := by omega
      rw [List.drop_eq_getElem_cons hlt, replaceLoop_cons]
      simp [insertStep, keepRow, replaceLoop_none, replaceSpec]
  | cons x rest ih =>
    obtain ⟨m2, s2, e2⟩ := x
    intro m s e i acc hie hse hen hw
    obtain ⟨w1, w2, w3, w4⟩ := hw
    have hsplit : orig.drop i = (orig.drop i).take (e - i) ++ orig.drop e := by
      conv => lhs; rw [← List.take_append_drop (e - i) (orig.drop i)]
      simp only [List.drop_drop]; congr 2; omega
    have hlen : ((orig.drop i).take (e - i)).length = e - i := by simp; omega
    have hA : ((orig.drop i).take (e - i)).take (s - i) = slice orig i s := by
      unfold slice; rw [List.take_take]; congr 1; omega
    rw [hsplit, replaceLoop_within s e m _ _ _ i acc (by omega), hlen, hA]
    have hie' : i + (e - i) = e := by omega
    rw [hie']
    have hlt : e < orig.length := by omega
    rw [List.drop_eq_getElem_cons hlt, replaceLoop_cons]
    simp only [insertStep, if_true, keepRow]
    by_cases hes : e < s2
    · simp only [hes, decide_true, if_true]
      have := ih m2 s2 e2 (e+1) (orig[e] :: m :: ((slice orig i s).reverse ++ acc)) (by omega) w2 w3 w4
      have hsl : slice orig e s2 = orig[e] :: slice orig (e+1) s2 := by
        simp only [slice]
        rw [List.drop_eq_getElem_cons hlt]
        have : s2 - e = (s2 - (e+1)) + 1 := by omega
        rw [this, List.take_succ_cons]
      rcases this with ⟨h1, h2, h3⟩ | ⟨m', s', h1, h2, h3⟩
      · left; refine ⟨h1, h2, ?_⟩
        rw [h3]; simp [replaceSpec, hsl]
      · right; refine ⟨m', s', h1, h2, ?_⟩
        rw [h3]; simp [replaceSpec, hsl]
    · have hes2 : s2 = e := by omega
      subst hes2
      simp only [Nat.lt_irrefl, decide_false, if_false, Bool.false_eq_true]
      have := ih m2 s2 e2 (s2+1) (m :: ((slice orig i s).reverse ++ acc)) (by omega) w2 w3 w4
      have hsp : replaceSpec orig (s2+1) ((m2, (s2, e2)) :: rest) = replaceSpec orig s2 ((m2, (s2, e2)) :: rest) := by
        simp [replaceSpec, slice]
      rcases this with ⟨h1, h2, h3⟩ | ⟨m', s', h1, h2, h3⟩
      · left; refine ⟨h1, h2, ?_⟩
        rw [h3, hsp]; simp [replaceSpec]
      · right; refine ⟨m', s', h1, h2, ?_⟩
        rw [h3, hsp]; simp [replaceSpec]


/-- `_replace_merged` with well-formed windows returns the defining interleaving
`orig[0:s0] ++ [m0] ++ orig[e0:s1] ++ [m1] ++ … ++ orig[e_last:]` -/
theorem replaceMergedCore_spec (orig merge : List Row) (windows : List (Nat × Nat)) (res : List Row)
    (hw : WindowsOk orig.length 0 (merge.zip windows))
    (h : replaceMergedCore orig merge windows = .ok res) :
    res = replaceSpec orig 0 (merge.zip windows) := by
  unfold replaceMergedCore at h
  split at h
  · simp at h
  · rename_i m0 w0 pend' hz
    obtain ⟨s0, e0⟩ := w0
    rw [hz] at hw ⊢
    obtain ⟨_, w2, w3, w4⟩ := hw
    have hspec := replaceLoop_spec orig pend' m0 s0 e0 0 [] (Nat.zero_le _) w2 w3 w4
    simp only [List.drop_zero, List.reverse_nil, List.nil_append] at hspec
    simp only [] at h
    rcases hspec with ⟨h1, h2, h3⟩ | ⟨m', s', h1, h2, h3⟩
    · generalize hr : replaceLoop orig 0 (some (s0, e0)) ((m0, s0, e0) :: pend') [] = r at h h1 h2 h3
      obtain ⟨r1, r2, r3⟩ := r
      simp only [] at h1 h2 h3
      subst h1 h2
      simp only [] at h
      split at h
      · simp at h
      · simp only [Except.ok.injEq] at h; rw [← h, h3]
    · generalize hr : replaceLoop orig 0 (some (s0, e0)) ((m0, s0, e0) :: pend') [] = r at h h1 h2 h3
      obtain ⟨r1, r2, r3⟩ := r
      simp only [] at h1 h2 h3
      subst h1 h2
      simp only [if_true] at h
      split at h
      · simp at h
      · split at h
        · simp at h
        · simp only [Except.ok.injEq] at h; rw [← h, h3]



/-! ## index_of_fraction -/

theorem filterMap_congr' {α β} (f g : α → Option β) (l : List α) (h : ∀ x ∈ l, f x = g x) :
    l.filterMap f = l.filterMap g := by
  induction l with
  | nil => rfl
  | cons a l ih => simp [List.filterMap_cons, h a (by simp), ih (fun x hx => h x (by simp [hx]))]

theorem reach_cond (seen x A f : Rat) (hA : 0 < A) : (seen + x / A ≥ f) ↔ (seen * A + x ≥ f * A) := by
  have e : (seen + x / A) * A = seen * A + x := by grind
  constructor
  · intro h
    have := Rat.mul_le_mul_of_nonneg_right h (Rat.le_of_lt hA)
    rw [e] at this; exact this
  · intro h
    rw [← e] at h
    exact Rat.le_of_mul_le_mul_right h hA

/-- `reachIndex` for one more sample in front -/
theorem reachIndex_cons (A f x : Rat) (xs : List Rat) (i : Nat) (cum : Rat) :
    reachIndex A f (x :: xs) i cum =
      if cum + x ≥ f * A then some (if x ≠ 0 then (i : Rat) + (f * A - cum) / x else (i : Rat))
      else reachIndex A f xs (i+1) (cum + x) := by
  rw [reachIndex]

/-- the `while` loop for one sample serves exactly the open fractions reached in this sample (a prefix of the
ascending list), with the interpolation formula of `reachIndex` -/
theorem iofInner_spec (A x : Rat) (i : Nat) (seen : Rat) (xs : List Rat) (hA : 0 < A) :
    ∀ (rem : List Rat), rem.Pairwise (· ≤ ·) →
      rem.filterMap (fun f => reachIndex A f (x :: xs) i (seen * A))
        = (iofInner A x i seen rem).1 ++ (iofInner A x i seen rem).2.filterMap (fun f => reachIndex A f xs (i+1) ((seen + x / A) * A)) ∧
      rem.filter (fun f => (reachIndex A f (x :: xs) i (seen * A)).isNone)
        = (iofInner A x i seen rem).2.filter (fun f => (reachIndex A f xs (i+1) ((seen + x / A) * A)).isNone) ∧
      (iofInner A x i seen rem).2.Pairwise (· ≤ ·) := by
  have e : (seen + x / A) * A = seen * A + x := by grind
  intro rem
  induction rem with
  | nil => intro _; simp [iofInner]
  | cons f rest ih =>
    intro hs
    have hs' := (List.pairwise_cons.mp hs)
    obtain ⟨ih1, ih2, ih3⟩ := ih hs'.2
    unfold iofInner
    by_cases hc : seen + x / A ≥ f
    · have hc' := (reach_cond seen x A f hA).mp hc
      simp only [hc, if_true]
      refine ⟨?_, ?_, ih3⟩
      · rw [List.filterMap_cons, reachIndex_cons]
        simp only [hc', if_true, ih1, List.cons_append]
        congr 1
        by_cases hx : x = 0
        · simp [hx]
        · simp only [hx, ne_eq, not_false_eq_true, if_true]; congr 1; grind
      · rw [List.filter_cons, reachIndex_cons]
        simp only [hc', if_true, Option.isNone_some, ih2, Bool.false_eq_true, if_false]
    · simp only [hc, if_false]
      have hnot : ∀ g ∈ f :: rest, ¬ (seen * A + x ≥ g * A) := by
        intro g hg hge
        have hg' := (reach_cond seen x A g hA).mpr hge
        rcases List.mem_cons.mp hg with rfl | hg
        · exact hc hg'
        · exact hc (Rat.le_trans (hs'.1 g hg) hg')
      refine ⟨?_, ?_, hs⟩
      · simp only [List.nil_append]
        apply filterMap_congr'
        intro g hg
        rw [reachIndex_cons, e]
        simp [hnot g hg]
      · apply List.filter_congr
        intro g hg
        rw [reachIndex_cons, e]
        simp [hnot g hg]


/-- the sample loop: for ascending fractions the results are, in order, the `reachIndex` of every fraction that
is reached at all; the fractions never reached stay open -/
theorem iofLoop_spec (A : Rat) (hA : 0 < A) :
    ∀ (xs : List Rat) (i : Nat) (seen : Rat) (rem : List Rat), rem.Pairwise (· ≤ ·) →
      (iofLoop A xs i seen rem).1 = rem.filterMap (fun f => reachIndex A f xs i (seen * A)) ∧
      (iofLoop A xs i seen rem).2 = rem.filter (fun f => (reachIndex A f xs i (seen * A)).isNone) := by
  intro xs
  induction xs with
  | nil =>
    intro i seen rem _
    simp only [iofLoop, reachIndex, Option.isNone_none]
    refine ⟨?_, (List.filter_eq_self.mpr (by simp)).symm⟩
    induction rem with
    | nil => rfl
    | cons a l ih => simp [List.filterMap_cons]
  | cons x xs ih =>
    intro i seen rem hs
    obtain ⟨h1, h2, h3⟩ := iofInner_spec A x i seen xs hA rem hs
    rw [iofLoop]
    simp only []
    generalize hin : iofInner A x i seen rem = r at h1 h2 h3
    obtain ⟨rs, rem'⟩ := r
    simp only [] at h1 h2 h3 ⊢
    by_cases he : rem'.isEmpty
    · have : rem' = [] := by simpa using he
      subst this
      simp only [List.isEmpty_nil, if_true]
      simp at h1 h2
      exact ⟨by rw [h1], by simpa using h2⟩
    · simp only [he, if_false, Bool.false_eq_true]
      obtain ⟨g1, g2⟩ := ih (i+1) (seen + x / A) rem' h3
      generalize hl : iofLoop A xs (i+1) (seen + x / A) rem' = r2 at g1 g2
      obtain ⟨rs', rem''⟩ := r2
      simp only [] at g1 g2 ⊢
      exact ⟨by rw [h1, g1], by rw [h2, g2]⟩


/-- `reachIndex` is the first crossing of the cumulated area through `f·A`, linearly interpolated inside the
crossing sample: no earlier sample reaches the level, sample `k` does, and
`cum(k) + (r − k)·x_k = f·A` -/
theorem reachIndex_spec (A f : Rat) :
    ∀ (xs : List Rat) (i : Nat) (cum r : Rat), reachIndex A f xs i cum = some r →
      ∃ k, k < xs.length ∧ (∀ j < k, cum + (xs.take (j+1)).sum < f * A) ∧ cum + (xs.take (k+1)).sum ≥ f * A ∧
        (xs.getD k 0 ≠ 0 → (r - ((i + k : Nat) : Rat)) * xs.getD k 0 = f * A - (cum + (xs.take k).sum)) ∧
        (xs.getD k 0 = 0 → r = ((i + k : Nat) : Rat)) := by
  intro xs
  induction xs with
  | nil => intro i cum r h; simp [reachIndex] at h
  | cons x xs ih =>
    intro i cum r h
    rw [reachIndex_cons] at h
    by_cases hc : cum + x ≥ f * A
    · simp only [hc, if_true, Option.some.injEq] at h
      refine ⟨0, by simp, by simp, by simpa [Rat.add_zero] using hc, ?_, ?_⟩
      · intro hx
        simp only [List.getD_cons_zero] at hx
        simp only [hx, ne_eq, not_false_eq_true, if_true] at h
        subst h
        simp [Rat.add_zero]; grind
      · intro hx
        simp only [List.getD_cons_zero] at hx
        simp [hx] at h
        simp [← h]
    · simp only [hc, if_false] at h
      obtain ⟨k, h1, h2, h3, h4, h5⟩ := ih (i+1) (cum + x) r h
      refine ⟨k+1, by simp; omega, ?_, ?_, ?_, ?_⟩
      · intro j hj
        cases j with
        | zero => simp [Rat.add_zero]; exact Rat.not_le.mp hc
        | succ j =>
          have := h2 j (by omega)
          simp only [List.take_succ_cons, List.sum_cons]
          grind
      · simp only [List.take_succ_cons, List.sum_cons]; grind
      · intro hx
        simp only [List.getD_cons_succ] at hx ⊢
        have := h4 hx
        have e : ((i + (k + 1) : Nat) : Rat) = ((i + 1 + k : Nat) : Rat) := by congr 1; omega
        rw [e]; simp only [List.take_succ_cons, List.sum_cons]; grind
      · intro hx
        simp only [List.getD_cons_succ] at hx
        have := h5 hx
        have e : ((i + (k + 1) : Nat) : Rat) = ((i + 1 + k : Nat) : Rat) := by congr 1; omega
        rw [e]; exact this



/-! ## highest_density_region -/

/-- strictly ascending -/
def StrictAsc : List Nat → Prop
  | a :: b :: rest => a < b ∧ StrictAsc (b :: rest)
  | _ => True

/-- the indices covered by a list of half-open runs -/
def runIndices (runs : List (Nat × Nat)) : List Nat := runs.flatMap fun r => List.range' r.1 (r.2 - r.1)

/-- runs are non-empty and separated by at least one missing index (i.e. they are maximal) -/
def RunsSeparated : List (Nat × Nat) → Prop
  | (s, e) :: (s', e') :: rest => s < e ∧ e < s' ∧ RunsSeparated ((s', e') :: rest)
  | [(s, e)] => s < e
  | [] => True

theorem runsSeparated_head {s e : Nat} {more : List (Nat × Nat)} (h : RunsSeparated ((s, e) :: more)) : s < e := by
  cases more with
  | nil => exact h
  | cons x xs => obtain ⟨s', e'⟩ := x; exact h.1

/-- `runsOf` of a strictly ascending index list: the runs cover exactly the indices, are non-empty and maximal,
and the first run starts at the first index -/
theorem runsOf_spec : ∀ (ind : List Nat), StrictAsc ind →
    runIndices (runsOf ind) = ind ∧ RunsSeparated (runsOf ind) ∧
    (∀ i rest, ind = i :: rest → ∃ e more, runsOf ind = (i, e) :: more) := by
  intro ind
  induction ind with
  | nil => intro _; simp [runsOf, runIndices, RunsSeparated]
  | cons i rest ih =>
    intro hasc
    have hrest : StrictAsc rest := by
      cases rest with
      | nil => trivial
      | cons j r => exact hasc.2
    obtain ⟨h1, h2, h3⟩ := ih hrest
    cases hR : runsOf rest with
    | nil =>
      have : rest = [] := by
        cases rest with
        | nil => rfl
        | cons j r => obtain ⟨e, more, he⟩ := h3 j r rfl; rw [he] at hR; cases hR
      subst this
      simp [runsOf, runIndices, RunsSeparated]
    | cons x more =>
      obtain ⟨s, e⟩ := x
      rw [hR] at h1 h2
      have hse := runsSeparated_head h2
      obtain ⟨j, r, hj⟩ : ∃ j r, rest = j :: r := by
        cases rest with
        | nil => simp [runsOf] at hR
        | cons j r => exact ⟨j, r, rfl⟩
      obtain ⟨e', more', he'⟩ := h3 j r hj
      rw [hR] at he'
      simp only [List.cons.injEq, Prod.mk.injEq] at he'
      have hsj : s = j := he'.1.1
      have hij : i < j := by rw [hj] at hasc; exact hasc.1
      simp only [runsOf, hR]
      by_cases hs : s = i + 1
      · simp only [hs, if_true]
        refine ⟨?_, ?_, fun i' rest' h => ⟨e, more, by simp only [List.cons.injEq] at h; rw [h.1]⟩⟩
        · rw [← h1]
          simp only [runIndices, List.flatMap_cons]
          have : e - i = (e - (i+1)) + 1 := by omega
          rw [this, List.range'_succ, hs]; simp
        · cases more with
          | nil => simp only [RunsSeparated] at h2 ⊢; omega
          | cons y ys =>
            obtain ⟨s2, e2⟩ := y
            simp only [RunsSeparated] at h2 ⊢
            exact ⟨by omega, h2.2.1, h2.2.2⟩
      · simp only [hs, if_false]
        refine ⟨?_, ?_, fun i' rest' h => ⟨i+1, (s, e) :: more, by simp only [List.cons.injEq] at h; rw [h.1]⟩⟩
        · rw [← h1]
          simp [runIndices, List.flatMap_cons]
        · simp only [RunsSeparated]
          exact ⟨by omega, by omega, h2⟩


theorem insertNat_perm (i : Nat) (l : List Nat) : (insertNat i l).Perm (i :: l) := by
  induction l with
  | nil => exact List.Perm.refl _
  | cons j js ih =>
    simp only [insertNat]
    split
    · exact List.Perm.refl _
    · exact (List.Perm.cons j ih).trans (List.Perm.swap i j js)

theorem insertNat_sorted (i : Nat) (l : List Nat) (h : l.Pairwise (· ≤ ·)) : (insertNat i l).Pairwise (· ≤ ·) := by
  induction l with
  | nil => simp [insertNat]
  | cons j js ih =>
    simp only [insertNat]
    have hj := List.pairwise_cons.mp h
    split
    · rename_i hij
      refine List.Pairwise.cons ?_ h
      intro x hx
      rcases List.mem_cons.mp hx with rfl | hx
      · exact hij
      · exact Nat.le_trans hij (hj.1 x hx)
    · rename_i hij
      refine List.Pairwise.cons ?_ (ih hj.2)
      intro x hx
      have := (insertNat_perm i js).mem_iff.mp hx
      rcases List.mem_cons.mp this with rfl | hx'
      · omega
      · exact hj.1 x hx'

theorem sortNat_spec (l : List Nat) : (sortNat l).Perm l ∧ (sortNat l).Pairwise (· ≤ ·) := by
  unfold sortNat
  have : ∀ (l acc : List Nat), acc.Pairwise (· ≤ ·) →
      (l.foldl (fun acc i => insertNat i acc) acc).Perm (l ++ acc) ∧ (l.foldl (fun acc i => insertNat i acc) acc).Pairwise (· ≤ ·) := by
    intro l
    induction l with
    | nil => intro acc h; exact ⟨List.Perm.refl _, h⟩
    | cons x xs ih =>
      intro acc h
      simp only [List.foldl_cons]
      obtain ⟨p, q⟩ := ih (insertNat x acc) (insertNat_sorted x acc h)
      refine ⟨p.trans ?_, q⟩
      have := insertNat_perm x acc
      exact (List.Perm.append_left xs this).trans (by simp [List.perm_middle])
  simpa using this l [] List.Pairwise.nil

theorem strictAsc_of_sorted_nodup : ∀ (l : List Nat), l.Pairwise (· ≤ ·) → l.Nodup → StrictAsc l
  | [], _, _ => trivial
  | [_], _, _ => trivial
  | a :: b :: rest, hs, hn => by
    have h1 := List.pairwise_cons.mp hs
    have h2 := List.nodup_cons.mp hn
    refine ⟨?_, strictAsc_of_sorted_nodup (b :: rest) h1.2 h2.2⟩
    have : a ≤ b := h1.1 b (by simp)
    have : a ≠ b := fun e => h2.1 (by simp [e])
    omega


theorem insertByVal_perm (data : List Rat) (i : Nat) (l : List Nat) : (insertByVal data i l).Perm (i :: l) := by
  induction l with
  | nil => exact List.Perm.refl _
  | cons j js ih =>
    simp only [insertByVal]
    split
    · exact List.Perm.refl _
    · exact (List.Perm.cons j ih).trans (List.Perm.swap i j js)

theorem insertByVal_sorted (data : List Rat) (i : Nat) (l : List Nat)
    (h : l.Pairwise (fun a b => data.getD a 0 ≤ data.getD b 0)) :
    (insertByVal data i l).Pairwise (fun a b => data.getD a 0 ≤ data.getD b 0) := by
  induction l with
  | nil => simp [insertByVal]
  | cons j js ih =>
    simp only [insertByVal]
    have hj := List.pairwise_cons.mp h
    split
    · rename_i hij
      refine List.Pairwise.cons ?_ h
      intro x hx
      rcases List.mem_cons.mp hx with rfl | hx
      · exact Rat.le_of_lt hij
      · exact Rat.le_trans (Rat.le_of_lt hij) (hj.1 x hx)
    · rename_i hij
      refine List.Pairwise.cons ?_ (ih hj.2)
      intro x hx
      have := (insertByVal_perm data i js).mem_iff.mp hx
      rcases List.mem_cons.mp this with rfl | hx'
      · exact Rat.not_lt.mp hij
      · exact hj.1 x hx'

/-- `stable_argsort(data)[::-1]`: a permutation of all indices, values descending -/
theorem maxToMin_spec (data : List Rat) :
    (maxToMin data).Perm (List.range data.length) ∧
    (maxToMin data).Pairwise (fun a b => data.getD b 0 ≤ data.getD a 0) := by
  unfold maxToMin
  have : ∀ (l acc : List Nat), acc.Pairwise (fun a b => data.getD a 0 ≤ data.getD b 0) →
      (l.foldl (fun acc i => insertByVal data i acc) acc).Perm (l ++ acc) ∧
      (l.foldl (fun acc i => insertByVal data i acc) acc).Pairwise (fun a b => data.getD a 0 ≤ data.getD b 0) := by
    intro l
    induction l with
    | nil => intro acc h; exact ⟨List.Perm.refl _, h⟩
    | cons x xs ih =>
      intro acc h
      simp only [List.foldl_cons]
      obtain ⟨p, q⟩ := ih (insertByVal data x acc) (insertByVal_sorted data x acc h)
      refine ⟨p.trans ?_, q⟩
      have := insertByVal_perm data x acc
      exact (List.Perm.append_left xs this).trans (by simp [List.perm_middle])
  obtain ⟨p, q⟩ := this (List.range data.length) [] List.Pairwise.nil
  refine ⟨(List.reverse_perm _).trans (by simpa using p), ?_⟩
  rw [List.pairwise_reverse]
  exact q

/-- the sample set of a highest-density region, `max_to_min[:j]`, read back as intervals:
* the reported runs cover exactly the `j` selected indices (in ascending order), are non-empty and maximal;
* no sample outside the selection is higher than a sample inside;
* the selection has no repeated index. -/
theorem hdr_region (data : List Rat) (j : Nat) :
    let order := maxToMin data
    let ind := sortNat (order.take j)
    runIndices (runsOf ind) = ind ∧ RunsSeparated (runsOf ind) ∧ ind.Perm (order.take j) ∧
    (∀ a ∈ order.take j, ∀ b ∈ order.drop j, data.getD b 0 ≤ data.getD a 0) ∧
    (order.take j ++ order.drop j).Perm (List.range data.length) := by
  intro order ind
  obtain ⟨hp, hs⟩ := maxToMin_spec data
  obtain ⟨sp, ss⟩ := sortNat_spec (order.take j)
  have hnd : order.Nodup := hp.nodup_iff.mpr List.nodup_range
  have hnd' : ind.Nodup := sp.nodup_iff.mpr (List.Nodup.sublist (List.take_sublist j order) hnd)
  obtain ⟨r1, r2, _⟩ := runsOf_spec ind (strictAsc_of_sorted_nodup ind ss hnd')
  refine ⟨r1, r2, sp, ?_, by rw [List.take_append_drop]; exact hp⟩
  intro a ha b hb
  have : (order.take j ++ order.drop j).Pairwise (fun a b => data.getD b 0 ≤ data.getD a 0) := by
    rw [List.take_append_drop]; exact hs
  exact (List.pairwise_append.mp this).2.2 a ha b hb


/-- a finished result row stems from the selection `max_to_min[:j]` of some `1 ≤ j < n` -/
def RowFromSelection (data : List Rat) (bufSize : Nat) (row : List (Int × Int) × Rat) : Prop :=
  ∃ j, 1 ≤ j ∧ j < data.length ∧ row.1 = hdrRow bufSize (sortNat ((maxToMin data).take j))

theorem hdrServe_inv (P : List (Int × Int) × Rat → Prop) (bufSize total : Nat) (ind : List Nat) (topSum : Rat) (j : Nat)
    (low fs dj : Rat) (st : HdrState)
    (hrow : ∀ amp, P (hdrRow bufSize ind, amp))
    (h : st.rows.length + st.open_.length = total ∧ ∀ row ∈ st.rows, P row) :
    (hdrServe bufSize ind topSum j low fs dj st).rows.length + (hdrServe bufSize ind topSum j low fs dj st).open_.length = total ∧
    ∀ row ∈ (hdrServe bufSize ind topSum j low fs dj st).rows, P row := by
  unfold hdrServe
  simp only []
  split
  · exact h
  · constructor
    · simp only [List.length_append, List.length_reverse, List.length_map, List.length_take, List.length_drop]
      have := List.length_filter_le (fun f => decide (f ≤ fs)) st.open_
      omega
    · intro row hr
      rcases List.mem_append.mp hr with hr | hr
      · simp only [List.mem_reverse, List.mem_map] at hr
        obtain ⟨f, _, rfl⟩ := hr
        exact hrow _
      · exact h.2 row hr

theorem hdrStep_inv (data : List Rat) (areaTot : Rat) (upper : Bool) (bufSize total : Nat)
    (st : HdrState) (j : Nat) (hj : 1 ≤ j ∧ j < data.length)
    (h : st.rows.length + st.open_.length = total ∧ ∀ row ∈ st.rows, RowFromSelection data bufSize row) :
    (hdrStep data (maxToMin data) areaTot upper bufSize st j).rows.length
        + (hdrStep data (maxToMin data) areaTot upper bufSize st j).open_.length = total ∧
    ∀ row ∈ (hdrStep data (maxToMin data) areaTot upper bufSize st j).rows, RowFromSelection data bufSize row := by
  unfold hdrStep
  split
  · exact h
  · simp only []
    split
    · exact h
    · exact hdrServe_inv _ bufSize total _ _ j _ _ _ st (fun _ => ⟨j, hj.1, hj.2, rfl⟩) h


/-- the result of `highest_density_region`: one row per desired fraction; every row is either the interval
list of a selection `max_to_min[:j]` (described by `hdr_region`) or — for fractions not reached by any proper
level set — the whole range `[0, n)` -/
theorem hdr_rows (data fractions : List Rat) (upper : Bool) (bufSize : Nat) (rows : List (List (Int × Int) × Rat))
    (h : highestDensityRegion data fractions upper bufSize = .ok rows) :
    rows.length = fractions.length ∧
    ∀ row ∈ rows, RowFromSelection data bufSize row ∨
      row.1 = ((0 : Int), (data.length : Int)) :: List.replicate (bufSize - 1) ((0 : Int), (0 : Int)) := by
  unfold highestDensityRegion at h
  simp only [] at h
  split at h
  · simp at h
  · simp only [Except.ok.injEq] at h
    have key : ∀ (l : List Nat) (st : HdrState), (∀ j ∈ l, 1 ≤ j ∧ j < data.length) →
        (st.rows.length + st.open_.length = fractions.length ∧ ∀ row ∈ st.rows, RowFromSelection data bufSize row) →
        ((l.foldl (hdrStep data (maxToMin data) data.sum upper bufSize) st).rows.length
          + (l.foldl (hdrStep data (maxToMin data) data.sum upper bufSize) st).open_.length = fractions.length ∧
         ∀ row ∈ (l.foldl (hdrStep data (maxToMin data) data.sum upper bufSize) st).rows, RowFromSelection data bufSize row) := by
      intro l
      induction l with
      | nil => intro st _ hst; exact hst
      | cons j l ih =>
        intro st hl hst
        simp only [List.foldl_cons]
        exact ih _ (fun x hx => hl x (by simp [hx])) (hdrStep_inv data data.sum upper bufSize _ st j (hl j (by simp)) hst)
    have hmem : ∀ j ∈ (List.range data.length).drop 1, 1 ≤ j ∧ j < data.length := by
      intro j hj
      have h1 : j ∈ List.range data.length := List.mem_of_mem_drop hj
      have h2 : j < data.length := List.mem_range.mp h1
      refine ⟨?_, h2⟩
      rw [List.range_eq_range', List.drop_range'] at hj
      have := List.mem_range'_1.mp hj
      omega
    obtain ⟨k1, k2⟩ := key _ { lowest := none, open_ := fractions, rows := [] } hmem (by simp)
    subst h
    constructor
    · simp only [List.length_append, List.length_reverse, List.length_map]; exact k1
    · intro row hrow
      rcases List.mem_append.mp hrow with hr | hr
      · exact Or.inl (k2 row (List.mem_reverse.mp hr))
      · simp only [List.mem_map] at hr
        obtain ⟨f, _, rfl⟩ := hr
        exact Or.inr rfl



/-! ## sum_waveform: area = Σ definitional hit contributions -/

theorem filter_range_interval : ∀ (n lo hi : Nat), hi ≤ n →
    (List.range n).filter (fun k => decide (lo ≤ k) && decide (k < hi)) = List.range' lo (hi - lo) := by
  intro n
  induction n with
  | zero => intro lo hi h; have : hi = 0 := by omega
            subst this; simp
  | succ n ih =>
    intro lo hi h
    rw [List.range_succ, List.filter_append]
    by_cases hh : hi ≤ n
    · rw [ih lo hi hh]
      have : ¬ (n < hi) := by omega
      simp [this]
    · have hhi : hi = n + 1 := by omega
      subst hhi
      have e : (List.range n).filter (fun k => decide (lo ≤ k) && decide (k < n + 1))
          = (List.range n).filter (fun k => decide (lo ≤ k) && decide (k < n)) := by
        apply List.filter_congr
        intro k hk
        have := List.mem_range.mp hk
        simp [this]; omega
      rw [e, ih lo n (Nat.le_refl _)]
      by_cases hl : lo ≤ n
      · have e2 : n + 1 - lo = (n - lo) + 1 := by omega
        simp only [List.filter_cons, hl, decide_true, Nat.lt_succ_self, Bool.and_self, if_true, List.filter_nil]
        rw [e2, List.range'_concat]
        congr 2; omega
      · have e2 : n + 1 - lo = 0 := by omega
        have e3 : n - lo = 0 := by omega
        simp [hl, e2, e3]

theorem map_getD_range' (wave : List Rat) : ∀ (m lo : Nat), lo + m ≤ wave.length →
    (List.range' lo m).map (fun k => wave.getD k 0) = (wave.drop lo).take m := by
  intro m
  induction m with
  | zero => intro lo _; simp
  | succ m ih =>
    intro lo h
    rw [List.range'_succ, List.map_cons, ih (lo+1) (by omega)]
    rw [List.drop_eq_getElem_cons (by omega : lo < wave.length), List.take_succ_cons]
    simp [List.getD_eq_getElem?_getD, List.getElem?_eq_getElem (by omega : lo < wave.length)]


/-- the samples of `h` inside the peak, by definition, are those with index in `[max 0 (−s), min nA (L − s))`
when the hit starts `s` samples after the peak start -/
theorem contribution_interval (p : Peak) (dt : Int) (toPe : List Rat) (h : Hit) (s : Int)
    (hdt : 0 < dt) (hs : h.time = p.time + s * dt) :
    contribution p dt toPe h =
      ((slice h.wave (max 0 (-s)).toNat (min (h.wave.length : Int) (p.length - s)).toNat).map
        (· * toPe.getD h.channel 0)).sum := by
  unfold contribution
  have hP : ∀ k ∈ List.range h.wave.length,
      (decide (p.time ≤ h.time + (k : Int) * dt) && decide (h.time + (k : Int) * dt < p.time + p.length * dt))
        = (decide ((max 0 (-s)).toNat ≤ k) && decide (k < (min (h.wave.length : Int) (p.length - s)).toNat)) := by
    intro k hk
    have hk' := List.mem_range.mp hk
    have e1 : (p.time ≤ h.time + (k : Int) * dt) ↔ (0 * dt ≤ (s + k) * dt) := by
      rw [hs, Int.add_mul]; omega
    have e2 : (h.time + (k : Int) * dt < p.time + p.length * dt) ↔ ((s + k) * dt < p.length * dt) := by
      rw [hs, Int.add_mul]; omega
    have a1 : (0 ≤ s + (k : Int)) ↔ ((max 0 (-s)).toNat ≤ k) := by omega
    have a2 : (s + (k : Int) < p.length) ↔ (k < (min (h.wave.length : Int) (p.length - s)).toNat) := by omega
    have f1 := e1.trans ((Int.mul_le_mul_right hdt).trans a1)
    have f2 := e2.trans ((Int.mul_lt_mul_right hdt).trans a2)
    simp only [decide_eq_decide.mpr f1, decide_eq_decide.mpr f2]
  rw [List.filter_congr hP]
  by_cases hle : (max 0 (-s)).toNat ≤ (min (h.wave.length : Int) (p.length - s)).toNat
  · rw [filter_range_interval _ _ _ (by omega)]
    have hm := map_getD_range' h.wave ((min (h.wave.length : Int) (p.length - s)).toNat - (max 0 (-s)).toNat)
      (max 0 (-s)).toNat (by omega)
    have hc : (List.range' (max 0 (-s)).toNat ((min (h.wave.length : Int) (p.length - s)).toNat - (max 0 (-s)).toNat)).map
          (fun k => h.wave.getD k 0 * toPe.getD h.channel 0)
        = ((List.range' (max 0 (-s)).toNat ((min (h.wave.length : Int) (p.length - s)).toNat - (max 0 (-s)).toNat)).map
            (fun k => h.wave.getD k 0)).map (fun x => x * toPe.getD h.channel 0) := by
      rw [List.map_map]; rfl
    rw [hc, hm]
    rfl
  · have hemp : (List.range h.wave.length).filter
        (fun k => decide ((max 0 (-s)).toNat ≤ k) && decide (k < (min (h.wave.length : Int) (p.length - s)).toNat)) = [] := by
      rw [List.filter_eq_nil_iff]
      intro k _
      simp; omega
    rw [hemp, slice_nil_of_le _ (by omega)]
    simp


/-- the index range `overlap_indices` cuts out of the hit is the definitional one (or both are empty) -/
theorem overlap_clip {α} (wave : List α) (a1 nA b1 L s hs he ps pe : Int)
    (hov : overlapIndices a1 nA b1 L = .ok ((hs, he), (ps, pe))) (hsd : a1 - b1 = s)
    (hw : (wave.length : Int) = nA) :
    slice wave hs.toNat he.toNat = slice wave (max 0 (-s)).toNat (min (wave.length : Int) (L - s)).toNat := by
  unfold overlapIndices at hov
  rw [hsd] at hov
  have hz : ∀ (lo hi : Nat), hi ≤ lo → slice wave 0 0 = slice wave lo hi := by
    intro lo hi h; rw [slice_nil_of_le wave h, slice_nil_of_le wave (Nat.le_refl 0)]
  split at hov
  · simp at hov
  · rename_i h1
    simp at h1
    split at hov
    · rename_i h2
      simp at hov h2
      obtain ⟨⟨rfl, rfl⟩, _⟩ := hov
      exact hz _ _ (by omega)
    · rename_i h2
      simp at h2
      simp only [] at hov
      split at hov
      · simp at hov
        obtain ⟨⟨rfl, rfl⟩, _⟩ := hov
        exact hz _ _ (by omega)
      · split at hov
        · simp at hov
          obtain ⟨⟨rfl, rfl⟩, _⟩ := hov
          exact hz _ _ (by omega)
        · simp at hov
          obtain ⟨⟨rfl, rfl⟩, _⟩ := hov
          congr 2 <;> omega


theorem fdiv_neg_mul (s dt : Int) (hdt : 0 < dt) : Int.fdiv (-(s * dt)) dt = -s := by
  rw [Int.fdiv_eq_ediv_of_nonneg _ (Int.le_of_lt hdt), ← Int.neg_mul]
  exact Int.mul_ediv_cancel _ (by omega)

theorem fdiv_add_mul (a s dt : Int) (hdt : 0 < dt) : Int.fdiv (a + s * dt) dt = Int.fdiv a dt + s := by
  rw [Int.fdiv_eq_ediv_of_nonneg _ (Int.le_of_lt hdt), Int.fdiv_eq_ediv_of_nonneg _ (Int.le_of_lt hdt)]
  exact Int.add_mul_ediv_right _ _ (by omega)

/-- a hit that starts at or after the end of the peak contributes nothing -/
theorem contribution_right (p : Peak) (dt : Int) (toPe : List Rat) (h : Hit) (s : Int)
    (hdt : 0 < dt) (hs : h.time = p.time + s * dt) (hr : p.length ≤ s) : contribution p dt toPe h = 0 := by
  rw [contribution_interval p dt toPe h s hdt hs, slice_nil_of_le _ (by omega)]
  rfl

/-- **area = Σ hit contributions**: the hit scan of `sum_waveform` adds, for every hit of a time-sorted list on
the sample grid of the peak, exactly its definitional contribution (the samples lying inside the peak, in PE) -/
theorem scanPeakHits_contributions (p : Peak) (dt : Int) (toPe : List Rat) (hdt : 0 < dt) :
    ∀ (hits : List Hit) (acc acc' : SumAcc), scanPeakHits p dt toPe hits acc = .ok acc' →
      (∀ h ∈ hits, ∃ s : Int, h.time = p.time + s * dt) →
      (∀ h ∈ hits, (h.wave.length : Int) = h.length) →
      hits.Pairwise (fun a b => a.time ≤ b.time) →
      acc'.area = acc.area + (hits.map (contribution p dt toPe)).sum := by
  intro hits
  induction hits with
  | nil => intro acc acc' h _ _ _; simp [scanPeakHits] at h; subst h; simp [Rat.add_zero]
  | cons x rest ih =>
    intro acc acc' h hal hwl hsort
    obtain ⟨s, hs⟩ := hal x (by simp)
    have hsh : Int.fdiv (p.time - x.time) dt = -s := by
      rw [hs, show p.time - (p.time + s * dt) = -(s * dt) by omega]; exact fdiv_neg_mul s dt hdt
    have hso := List.pairwise_cons.mp hsort
    unfold scanPeakHits at h
    split at h
    · simp at h
    · simp only [hsh] at h
      split at h
      · -- break: this hit and all later ones start behind the peak
        rename_i hbr
        simp only [Except.ok.injEq] at h
        subst h
        have hz : ∀ y ∈ x :: rest, contribution p dt toPe y = 0 := by
          intro y hy
          obtain ⟨sy, hsy⟩ := hal y hy
          apply contribution_right p dt toPe y sy hdt hsy
          have hxy : x.time ≤ y.time := by
            rcases List.mem_cons.mp hy with rfl | hy'
            · exact Int.le_refl _
            · exact hso.1 y hy'
          have : s * dt ≤ sy * dt := by omega
          have := (Int.mul_le_mul_right hdt).mp this
          omega
        have : ((x :: rest).map (contribution p dt toPe)).sum = 0 := by
          have : (x :: rest).map (contribution p dt toPe) = (x :: rest).map (fun _ => (0 : Rat)) :=
            List.map_congr_left hz
          rw [this]
          clear hz this
          induction (x :: rest) with
          | nil => rfl
          | cons a l ih2 => simp only [List.map_cons, List.sum_cons, ih2]; exact Rat.add_zero 0
        rw [this, Rat.add_zero]
      · split at h
        · -- continue: the hit ends before the peak starts
          rename_i hbr hct
          have hx0 : contribution p dt toPe x = 0 := by
            rw [contribution_interval p dt toPe x s hdt hs, slice_nil_of_le _ (by have := hwl x (by simp); omega)]
            rfl
          rw [ih acc acc' h (fun y hy => hal y (by simp [hy])) (fun y hy => hwl y (by simp [hy])) hso.2]
          simp only [List.map_cons, List.sum_cons, hx0, Rat.zero_add]
        · split at h
          · simp at h
          · rename_i hbr hct hs' he' ps pe hov
            have hsd : Int.fdiv x.time dt - Int.fdiv p.time dt = s := by
              rw [hs, fdiv_add_mul _ _ _ hdt]; omega
            have hclip := overlap_clip x.wave _ _ _ _ s _ _ _ _ hov hsd (hwl x (by simp))
            have hx : ((slice x.wave hs'.toNat he'.toNat).map (· * toPe.getD x.channel 0)).sum = contribution p dt toPe x := by
              rw [contribution_interval p dt toPe x s hdt hs, hclip]
            rw [ih _ acc' h (fun y hy => hal y (by simp [hy])) (fun y hy => hwl y (by simp [hy])) hso.2]
            simp only [List.map_cons, List.sum_cons, hx]
            grind


/-- a hit that ends at or before the start of the peak contributes nothing -/
theorem contribution_left (p : Peak) (dt : Int) (toPe : List Rat) (h : Hit) (s : Int)
    (hdt : 0 < dt) (hs : h.time = p.time + s * dt) (hw : (h.wave.length : Int) = h.length)
    (hl : h.time + h.length * dt ≤ p.time) : contribution p dt toPe h = 0 := by
  have : (s + h.length) * dt ≤ 0 * dt := by rw [Int.add_mul]; omega
  have := (Int.mul_le_mul_right hdt).mp this
  rw [contribution_interval p dt toPe h s hdt hs, slice_nil_of_le _ (by omega)]
  rfl

theorem firstContributing_split (p : Peak) (dt : Int) : ∀ (hits hits' : List Hit),
    firstContributing p dt hits = some hits' →
    ∃ skipped, hits = skipped ++ hits' ∧ ∀ h ∈ skipped, h.time + h.length * dt ≤ p.time := by
  intro hits
  induction hits with
  | nil => intro hits' h; simp [firstContributing] at h
  | cons y rest ih =>
    intro hits' h
    unfold firstContributing at h
    split at h
    · simp at h; subst h; exact ⟨[], rfl, by simp⟩
    · rename_i hn
      obtain ⟨sk, e, hsk⟩ := ih hits' h
      refine ⟨y :: sk, by rw [e]; rfl, ?_⟩
      intro z hz
      rcases List.mem_cons.mp hz with rfl | hz
      · omega
      · exact hsk z hz

theorem sum_map_zero {α} (l : List α) (f : α → Rat) (h : ∀ x ∈ l, f x = 0) : (l.map f).sum = 0 := by
  induction l with
  | nil => rfl
  | cons a l ih =>
    simp only [List.map_cons, List.sum_cons, h a (by simp), ih (fun x hx => h x (by simp [hx]))]
    exact Rat.add_zero 0

/-- one peak of `sum_waveform`, started at its first contributing hit: its area is the sum of the definitional
contributions of ALL hits (time-sorted, on the peak's sample grid, each carrying its `length` samples) -/
theorem sumOnePeak_contributions (dt : Int) (toPe : List Rat) (nCh : Nat) (p q : Peak) (hits hits' : List Hit) (buf : List Rat)
    (hdt : 0 < dt)
    (hal : ∀ h ∈ hits, ∃ s : Int, h.time = p.time + s * dt) (hwl : ∀ h ∈ hits, (h.wave.length : Int) = h.length)
    (hsort : hits.Pairwise (fun a b => a.time ≤ b.time))
    (hfc : firstContributing p dt hits = some hits') (h : sumOnePeak dt toPe nCh p hits' = .ok (q, buf)) :
    q.area = (hits.map (contribution p dt toPe)).sum := by
  obtain ⟨sk, e, hsk⟩ := firstContributing_split p dt hits hits' hfc
  unfold sumOnePeak at h
  split at h
  · simp at h
  · rename_i acc hacc
    simp only [Except.ok.injEq, Prod.mk.injEq] at h
    have hq : q.area = acc.area := by
      rw [← h.1]; unfold storeDownsampled; simp only []; split <;> rfl
    have hmem : ∀ x ∈ hits', x ∈ hits := fun x hx => by rw [e]; exact List.mem_append_right _ hx
    have hs' : hits'.Pairwise (fun a b => a.time ≤ b.time) := by
      rw [e] at hsort; exact (List.pairwise_append.mp hsort).2.1
    have := scanPeakHits_contributions p dt toPe hdt hits' _ acc hacc
      (fun x hx => hal x (hmem x hx)) (fun x hx => hwl x (hmem x hx)) hs'
    rw [hq, this, e, List.map_append, List.sum_append]
    have hz := sum_map_zero sk (contribution p dt toPe) (by
      intro x hx
      have hx' : x ∈ hits := by rw [e]; exact List.mem_append_left _ hx
      obtain ⟨s, hs⟩ := hal x hx'
      exact contribution_left p dt toPe x s hdt hs (hwl x hx') (hsk x hx))
    rw [hz]


/-- a result row always has exactly `bufSize` interval slots: the maximal runs followed by zero slots when they
fit, all `-1` when there are more runs than slots -/
theorem hdrRow_spec (bufSize : Nat) (ind : List Nat) :
    (hdrRow bufSize ind).length = bufSize ∧
    ((runsOf ind).length ≤ bufSize →
      hdrRow bufSize ind = ((runsOf ind).map fun r => ((r.1 : Int), (r.2 : Int))) ++ List.replicate (bufSize - (runsOf ind).length) (0, 0)) ∧
    (bufSize < (runsOf ind).length → hdrRow bufSize ind = List.replicate bufSize (-1, -1)) := by
  unfold hdrRow hdrRowGen
  simp only [if_true]
  by_cases h : (runsOf ind).length - 1 ≥ bufSize
  · simp only [h, decide_true, if_true, List.length_replicate]
    refine ⟨trivial, ?_, fun _ => trivial⟩
    intro hle
    have h0 : (runsOf ind).length = 0 ∧ bufSize = 0 := by omega
    have : runsOf ind = [] := List.eq_nil_of_length_eq_zero h0.1
    simp [this, h0.2]
  · simp only [h, decide_false, if_false, Bool.false_eq_true]
    refine ⟨by simp; omega, fun _ => trivial, fun hlt => by omega⟩



/-! ## highest_density_region: closed form -/

/-- value of the `j`-th highest sample, `data[max_to_min[j]]` -/
def hdrVal (data : List Rat) (order : List Nat) (j : Nat) : Rat := data.getD (order.getD j 0) 0

/-- level below the selection `max_to_min[:j]`: the next sample when `only_upper_part`, else 0 -/
def hdrLow (data : List Rat) (order : List Nat) (upper : Bool) (j : Nat) : Rat :=
  if upper then hdrVal data order j else 0

/-- the values of the selected samples -/
def hdrTop (data : List Rat) (order : List Nat) (j : Nat) : List Rat := (order.take j).map fun k => data.getD k 0

/-- `fraction_seen` at level `j`: mass of the `j` highest samples above the level, over the total -/
def hdrSeen (data : List Rat) (order : List Nat) (areaTot : Rat) (upper : Bool) (j : Nat) : Rat :=
  ((hdrTop data order j).map (· - hdrLow data order upper j)).sum / areaTot

/-- the result row of fraction `f` when it is served at level `j`: the intervals of the selection and the
interpolated amplitude `(1 - g)·mean(selection) + g·low`, `g = f / fraction_seen` -/
def hdrRowAt (data : List Rat) (order : List Nat) (areaTot : Rat) (upper : Bool) (bufSize : Nat) (j : Nat) (f : Rat) :
    List (Int × Int) × Rat :=
  (hdrRow bufSize (sortNat (order.take j)),
   (1 - f / hdrSeen data order areaTot upper j) * (hdrTop data order j).sum / (j : Rat)
     + f / hdrSeen data order areaTot upper j * hdrLow data order upper j)

/-- the row of a fraction that no level reaches: the whole range -/
def hdrWhole (data : List Rat) (bufSize : Nat) (f : Rat) : List (Int × Int) × Rat :=
  (((0 : Int), (data.length : Int)) :: List.replicate (bufSize - 1) ((0 : Int), (0 : Int)),
   (1 - f) * data.sum / (data.length : Rat))

/-- the levels the loop actually looks at, given the last value seen: a step is skipped when its sample
equals the previous level (`if lowest_sample_seen == data[max_to_min[j]]: continue`) -/
def levelsFrom (data : List Rat) (order : List Nat) : Option Rat → List Nat → List Nat
  | _, [] => []
  | prev, j :: l =>
    if prev = some (hdrVal data order j) then levelsFrom data order prev l
    else j :: levelsFrom data order (some (hdrVal data order j)) l

/-- the row of fraction `f` by definition: served at the FIRST level whose mass reaches it -/
def hdrSpecOver (data : List Rat) (order : List Nat) (areaTot : Rat) (upper : Bool) (bufSize : Nat)
    (levels : List Nat) (f : Rat) : List (Int × Int) × Rat :=
  match levels.find? (fun j => decide (f ≤ hdrSeen data order areaTot upper j)) with
  | some j => hdrRowAt data order areaTot upper bufSize j f
  | none => hdrWhole data bufSize f

theorem sorted_threshold_split (s : Rat) : ∀ (l : List Rat), l.Pairwise (· ≤ ·) →
    (∀ f ∈ l.take (l.filter (fun f => decide (f ≤ s))).length, f ≤ s) ∧
    (∀ f ∈ l.drop (l.filter (fun f => decide (f ≤ s))).length, ¬ f ≤ s) := by
  intro l
  induction l with
  | nil => intro _; simp
  | cons a l ih =>
    intro h
    have hc := List.pairwise_cons.mp h
    by_cases ha : a ≤ s
    · obtain ⟨i1, i2⟩ := ih hc.2
      simp only [List.filter_cons, ha, decide_true, if_true, List.length_cons, List.take_succ_cons, List.drop_succ_cons]
      refine ⟨?_, i2⟩
      intro f hf
      rcases List.mem_cons.mp hf with rfl | hf
      · exact ha
      · exact i1 f hf
    · have hempty : l.filter (fun f => decide (f ≤ s)) = [] := by
        rw [List.filter_eq_nil_iff]
        intro f hf
        simp only [decide_eq_true_eq]
        intro hfs
        exact ha (Rat.le_trans (hc.1 f hf) hfs)
      simp only [List.filter_cons, ha, decide_false, hempty, List.length_nil, List.take_zero, List.drop_zero]
      refine ⟨by simp, ?_⟩
      intro f hf
      rcases List.mem_cons.mp hf with rfl | hf
      · exact ha
      · intro hfs; exact ha (Rat.le_trans (hc.1 f hf) hfs)


/-- serving one level, for ascending open fractions: exactly the open fractions `≤ fraction_seen` get this
level's row, the others stay open -/
theorem hdrServe_spec (bufSize : Nat) (ind : List Nat) (topSum : Rat) (j : Nat) (low fs dj : Rat) (st : HdrState)
    (G : Rat → List (Int × Int) × Rat) (hs : st.open_.Pairwise (· ≤ ·)) :
    (hdrServe bufSize ind topSum j low fs dj st).rows.reverse ++ (hdrServe bufSize ind topSum j low fs dj st).open_.map G
      = st.rows.reverse ++ st.open_.map (fun f =>
          if f ≤ fs then (hdrRow bufSize ind, (1 - f / fs) * topSum / (j : Rat) + f / fs * low) else G f) ∧
    (hdrServe bufSize ind topSum j low fs dj st).lowest = some dj ∧
    (hdrServe bufSize ind topSum j low fs dj st).open_.Pairwise (· ≤ ·) := by
  obtain ⟨t1, t2⟩ := sorted_threshold_split fs st.open_ hs
  unfold hdrServe
  simp only []
  split
  · rename_i h0
    rw [h0] at t2
    simp only [List.drop_zero] at t2
    refine ⟨?_, rfl, hs⟩
    simp only []
    congr 1
    apply List.map_congr_left
    intro f hf
    simp [t2 f hf]
  · refine ⟨?_, rfl, hs.sublist (List.drop_sublist _ _)⟩
    simp only [List.reverse_append, List.reverse_reverse, List.append_assoc]
    congr 1
    conv => rhs; rw [← List.take_append_drop (st.open_.filter (fun f => decide (f ≤ fs))).length st.open_]
    rw [List.map_append]
    congr 1
    · apply List.map_congr_left
      intro f hf
      simp [t1 f hf]
    · apply List.map_congr_left
      intro f hf
      simp [t2 f hf]

theorem hdrFold_empty (data : List Rat) (order : List Nat) (areaTot : Rat) (upper : Bool) (bufSize : Nat) :
    ∀ (l : List Nat) (st : HdrState), st.open_ = [] →
      (l.foldl (hdrStep data order areaTot upper bufSize) st) = st := by
  intro l
  induction l with
  | nil => intro st _; rfl
  | cons j l ih =>
    intro st h
    simp only [List.foldl_cons]
    have : hdrStep data order areaTot upper bufSize st j = st := by
      unfold hdrStep; simp [h]
    rw [this]; exact ih st h

/-- the loop over the levels, for ascending open fractions: every open fraction ends up with the row of the
first level (among those the loop looks at) whose mass reaches it, or stays open -/
theorem hdrFold_spec (data : List Rat) (order : List Nat) (areaTot : Rat) (upper : Bool) (bufSize : Nat) :
    ∀ (l : List Nat) (st : HdrState), st.open_.Pairwise (· ≤ ·) →
      (l.foldl (hdrStep data order areaTot upper bufSize) st).rows.reverse
          ++ (l.foldl (hdrStep data order areaTot upper bufSize) st).open_.map (hdrWhole data bufSize)
        = st.rows.reverse ++ st.open_.map
            (hdrSpecOver data order areaTot upper bufSize (levelsFrom data order st.lowest l)) := by
  intro l
  induction l with
  | nil =>
    intro st _
    simp only [List.foldl_nil, levelsFrom]
    congr 1
  | cons j l ih =>
    intro st hs
    by_cases he : st.open_ = []
    · rw [hdrFold_empty data order areaTot upper bufSize (j :: l) st he, he]; simp
    · simp only [List.foldl_cons]
      by_cases hl : st.lowest = some (hdrVal data order j)
      · have hstep : hdrStep data order areaTot upper bufSize st j = st := by
          unfold hdrStep hdrVal at *; simp [he, hl]
        rw [hstep, ih st hs]
        simp only [levelsFrom, hl, if_true]
      · have hstep : hdrStep data order areaTot upper bufSize st j
            = hdrServe bufSize (sortNat (order.take j)) (hdrTop data order j).sum j (hdrLow data order upper j)
                (hdrSeen data order areaTot upper j) (hdrVal data order j) st := by
          unfold hdrStep hdrVal at *
          simp only [List.isEmpty_iff, he, if_false, hl]
          rfl
        rw [hstep]
        obtain ⟨s1, s2, s3⟩ := hdrServe_spec bufSize (sortNat (order.take j)) (hdrTop data order j).sum j
          (hdrLow data order upper j) (hdrSeen data order areaTot upper j) (hdrVal data order j) st
          (hdrSpecOver data order areaTot upper bufSize (levelsFrom data order (some (hdrVal data order j)) l)) hs
        rw [ih _ s3, s2, s1]
        congr 1
        apply List.map_congr_left
        intro f _
        simp only [levelsFrom, hl, if_false, hdrSpecOver, List.find?_cons]
        by_cases hf : f ≤ hdrSeen data order areaTot upper j
        · simp [hf, hdrRowAt]
        · simp [hf]


/-- a level boundary in the samples sorted from max to min: the first step, or a sample lower than its predecessor -/
def isLevel (data : List Rat) (order : List Nat) (j : Nat) : Bool :=
  decide (j = 1) || decide (hdrVal data order j ≠ hdrVal data order (j - 1))

/-- the levels `highest_density_region` looks at: `1 ≤ j < n` at a level boundary -/
def hdrLevels (data : List Rat) : List Nat :=
  ((List.range data.length).drop 1).filter (isLevel data (maxToMin data))

theorem levelsFrom_range' (data : List Rat) (order : List Nat) : ∀ (m a : Nat), 1 ≤ a →
    levelsFrom data order (some (hdrVal data order (a - 1))) (List.range' a m)
      = (List.range' a m).filter (fun j => decide (hdrVal data order j ≠ hdrVal data order (j - 1))) := by
  intro m
  induction m with
  | zero => intro a _; simp [levelsFrom]
  | succ m ih =>
    intro a ha
    rw [List.range'_succ]
    simp only [levelsFrom, List.filter_cons]
    have e : a + 1 - 1 = a := by omega
    by_cases h : hdrVal data order a = hdrVal data order (a - 1)
    · have h' : some (hdrVal data order (a - 1)) = some (hdrVal data order a) := by rw [h]
      simp only [h', if_true, h, ne_eq, not_true_eq_false, decide_false, Bool.false_eq_true, if_false]
      have := ih (a + 1) (by omega)
      rw [e] at this
      exact this
    · have h' : ¬ (some (hdrVal data order (a - 1)) = some (hdrVal data order a)) := by
        intro hh; exact h (Option.some.inj hh).symm
      simp only [h', if_false, ne_eq, h, not_false_eq_true, decide_true, if_true]
      have := ih (a + 1) (by omega)
      rw [e] at this
      rw [this]

theorem levelsFrom_none (data : List Rat) (order : List Nat) (n : Nat) :
    levelsFrom data order none ((List.range n).drop 1) = ((List.range n).drop 1).filter (isLevel data order) := by
  rw [List.range_eq_range', List.drop_range']
  cases hn : n - 1 with
  | zero => simp [levelsFrom]
  | succ m =>
    simp only [Nat.zero_add]
    rw [List.range'_succ]
    simp only [levelsFrom, List.filter_cons, isLevel, decide_true, Bool.true_or, if_true]
    have : ¬ (none = some (hdrVal data order 1)) := by simp
    simp only [this, if_false]
    congr 1
    have h := levelsFrom_range' data order m 2 (by omega)
    simp only [show 2 - 1 = 1 by rfl] at h
    rw [h]
    apply List.filter_congr
    intro j hj
    have := (List.mem_range'_1.mp hj).1
    have hj1 : ¬ j = 1 := by omega
    simp [isLevel, hj1]

/-- **closed form of `highest_density_region`** for ascending fractions: per fraction the row of the first level
boundary whose mass reaches it, the whole range if none does -/
theorem highestDensityRegion_eq (data fractions : List Rat) (upper : Bool) (bufSize : Nat)
    (hs : fractions.Pairwise (· ≤ ·)) (hpos : 0 < data.sum) :
    highestDensityRegion data fractions upper bufSize
      = .ok (fractions.map (hdrSpecOver data (maxToMin data) data.sum upper bufSize (hdrLevels data))) := by
  unfold highestDensityRegion
  simp only []
  have hn : ¬ data.sum ≤ 0 := Rat.not_le.mpr hpos
  simp only [hn, if_false]
  have h := hdrFold_spec data (maxToMin data) data.sum upper bufSize ((List.range data.length).drop 1)
    { lowest := none, open_ := fractions, rows := [] } hs
  simp only [List.reverse_nil, List.nil_append] at h
  rw [levelsFrom_none] at h
  unfold hdrLevels
  rw [← h]
  rfl



/-! ## merge_peaks: the merged waveform -/

theorem sum_replicate_rat (k : Nat) (c : Rat) : (List.replicate k c).sum = (k : Rat) * c := by
  induction k with
  | zero => simp
  | succ k ih => rw [List.replicate_succ, List.sum_cons, ih]; push_cast; grind

theorem upsampleWave_sum (xs : List Rat) (k : Nat) (hk : 0 < k) : (upsampleWave xs k).sum = xs.sum := by
  have hk0 : (k : Rat) ≠ 0 := by
    have : (0 : Rat) < (k : Rat) := Rat.natCast_pos.mpr hk
    grind
  unfold upsampleWave
  induction xs with
  | nil => rfl
  | cons x xs ih =>
    rw [List.flatMap_cons, List.sum_append, ih, List.sum_cons, sum_replicate_rat]
    congr 1; grind

theorem upsampleWave_length (xs : List Rat) (k : Nat) : (upsampleWave xs k).length = xs.length * k := by
  unfold upsampleWave
  induction xs with
  | nil => simp
  | cons x xs ih => rw [List.flatMap_cons, List.length_append, ih]; simp; grind

/-- all samples from index `k` on are zero -/
def ZeroFrom (buf : List Rat) (k : Nat) : Prop := ∀ i, k ≤ i → buf.getD i 0 = 0

theorem zeroFrom_zeros (n k : Nat) : ZeroFrom (zeros n) k := by
  intro i _
  simp [zeros, List.getD_eq_getElem?_getD, List.getElem?_replicate]; split <;> rfl

/-- assigning into a still-zero region adds the assigned samples to the sum and keeps everything behind zero -/
theorem setAt_zero_region : ∀ (buf : List Rat) (k : Nat) (xs : List Rat), ZeroFrom buf k → k + xs.length ≤ buf.length →
    (setAt buf k xs).sum = buf.sum + xs.sum ∧ ZeroFrom (setAt buf k xs) (k + xs.length) := by
  intro buf
  induction buf with
  | nil =>
    intro k xs _ hfit
    have : xs = [] := by cases xs <;> simp_all
    subst this
    exact ⟨by simp [setAt, Rat.add_zero], by intro i _; simp [setAt]⟩
  | cons b bs ih =>
    intro k xs hz hfit
    cases k with
    | zero =>
      cases xs with
      | nil => exact ⟨by simp [setAt, Rat.add_zero], by simpa [setAt] using hz⟩
      | cons x xs =>
        have hb : b = 0 := by simpa using hz 0 (Nat.le_refl 0)
        have hz' : ZeroFrom bs 0 := by intro i _; simpa using hz (i+1) (by omega)
        obtain ⟨i1, i2⟩ := ih 0 xs hz' (by simp at hfit ⊢; omega)
        simp only [setAt, List.sum_cons, i1, hb]
        refine ⟨by grind, ?_⟩
        intro i hi
        cases i with
        | zero => simp at hi
        | succ i =>
          simp only [List.getD_cons_succ]
          exact i2 i (by simp at hi ⊢; omega)
    | succ k =>
      have hz' : ZeroFrom bs k := by intro i hi; simpa using hz (i+1) (by omega)
      obtain ⟨i1, i2⟩ := ih k xs hz' (by simp at hfit ⊢; omega)
      simp only [setAt, List.sum_cons, i1]
      refine ⟨by grind, ?_⟩
      intro i hi
      cases i with
      | zero => omega
      | succ i => simp only [List.getD_cons_succ]; exact i2 i (by omega)


/-- the constituents are written one behind the other: each starts (in samples of the common dt, counted from
the first start) at or behind the end of the previous one -/
def MergeChain (t0 common : Int) : Nat → List Peak → Prop
  | _, [] => True
  | hi, p :: rest =>
    (hi : Int) ≤ Int.fdiv (p.time - t0) common ∧ MergeChain t0 common (Int.fdiv (p.endt - t0) common).toNat rest

theorem mergeLoop_wave (t0 common : Int) (hc : 0 < common) :
    ∀ (old : List Peak) (acc acc' : MergeAcc) (hi : Nat), mergeLoop t0 common old acc = .ok acc' →
      ZeroFrom acc.buf hi → MergeChain t0 common hi old →
      (∀ p ∈ old, common ∣ p.dt ∧ 0 < p.dt ∧ Int.fdiv (p.endt - t0) common ≤ acc.buf.length) →
      acc'.buf.sum = acc.buf.sum + (old.map (·.wave.sum)).sum := by
  intro old
  induction old with
  | nil => intro acc acc' hi h _ _ _; simp [mergeLoop] at h; subst h; simp [Rat.add_zero]
  | cons p ps ih =>
    intro acc acc' hi h hz hch hp
    obtain ⟨hdvd, hdt, hfit⟩ := hp p (by simp)
    obtain ⟨hhi, hrest⟩ := hch
    unfold mergeLoop at h
    simp only [] at h
    split at h
    · simp at h
    · rename_i hneg
      split at h
      · simp at h
      · rename_i hlen
        have hl0 : 0 ≤ p.length := by omega
        obtain ⟨u, hu⟩ := hdvd
        have hup : p.dt / common = u := by rw [hu]; exact Int.mul_ediv_cancel_left _ (by omega)
        have hu1 : 1 ≤ u := by
          false_or_by_contra
          have : u ≤ 0 := by omega
          have := Int.mul_le_mul_of_nonneg_left this (Int.le_of_lt hc)
          simp at this; omega
        have hwl : p.wave.length = p.length.toNat := by
          unfold Peak.wave; simp; omega
        have hxl : (upsampleWave p.wave (p.dt / common).toNat).length = p.length.toNat * u.toNat := by
          rw [upsampleWave_length, hwl, hup]
        have hend : Int.fdiv (p.endt - t0) common = Int.fdiv (p.time - t0) common + p.length * u := by
          have : p.endt - t0 = (p.time - t0) + (p.length * u) * common := by
            unfold Peak.endt; rw [hu]; grind
          rw [this]; exact fdiv_add_mul _ _ _ hc
        have hmul : ((p.length.toNat * u.toNat : Nat) : Int) = p.length * u := by
          push_cast
          rw [Int.toNat_of_nonneg hl0, Int.toNat_of_nonneg (by omega)]
        have hidx : (Int.fdiv (p.time - t0) common).toNat + (upsampleWave p.wave (p.dt / common).toNat).length
            = (Int.fdiv (p.endt - t0) common).toNat := by
          rw [hxl]; omega
        have hzi : ZeroFrom acc.buf (Int.fdiv (p.time - t0) common).toNat := by
          intro i hi'; exact hz i (by omega)
        obtain ⟨s1, s2⟩ := setAt_zero_region acc.buf _ _ hzi (by rw [hidx]; omega)
        rw [hidx] at s2
        have := ih _ acc' _ h s2 hrest (by
          intro q hq
          obtain ⟨a, b, c⟩ := hp q (by simp [hq])
          exact ⟨a, b, by simp only [setAt_length]; exact c⟩)
        rw [this, s1, upsampleWave_sum _ _ (by rw [hup]; omega)]
        simp only [List.map_cons, List.sum_cons]
        grind


/-- time-sorted and non-overlapping (what `_merge_peaks` checks before it starts) -/
def DisjointSorted : List Peak → Prop
  | p :: q :: rest => p.endt ≤ q.time ∧ DisjointSorted (q :: rest)
  | _ => True

theorem gcdFold_dvd : ∀ (l : List Peak) (g : Int),
    (l.foldl (fun g q => (Int.gcd g q.dt : Int)) g) ∣ g ∧ ∀ q ∈ l, (l.foldl (fun g q => (Int.gcd g q.dt : Int)) g) ∣ q.dt := by
  intro l
  induction l with
  | nil => intro g; exact ⟨Int.dvd_refl _, by simp⟩
  | cons q l ih =>
    intro g
    simp only [List.foldl_cons]
    obtain ⟨h1, h2⟩ := ih (Int.gcd g q.dt : Int)
    refine ⟨Int.dvd_trans h1 (Int.gcd_dvd_left _ _), ?_⟩
    intro r hr
    rcases List.mem_cons.mp hr with rfl | hr
    · exact Int.dvd_trans h1 (Int.gcd_dvd_right _ _)
    · exact h2 r hr

theorem gcdOfDts_dvd (old : List Peak) : ∀ p ∈ old, gcdOfDts old ∣ p.dt := by
  cases old with
  | nil => simp
  | cons a l =>
    intro p hp
    simp only [gcdOfDts]
    obtain ⟨h1, h2⟩ := gcdFold_dvd l a.dt
    rcases List.mem_cons.mp hp with rfl | hp
    · exact h1
    · exact h2 p hp

theorem endt_le_last : ∀ (old : List Peak) (last : Peak), DisjointSorted old →
    (∀ p ∈ old, 0 ≤ p.length ∧ 0 < p.dt) → old.getLast? = some last → ∀ p ∈ old, p.endt ≤ last.endt := by
  intro old
  induction old with
  | nil => intro last _ _ _ p hp; simp at hp
  | cons a l ih =>
    intro last hd hpos hl p hp
    cases l with
    | nil =>
      simp at hl hp; subst hl; subst hp; exact Int.le_refl _
    | cons b l' =>
      have hl' : (b :: l').getLast? = some last := by simpa [List.getLast?_cons_cons] using hl
      have ihb := ih last hd.2 (fun q hq => hpos q (by simp [hq])) hl'
      rcases List.mem_cons.mp hp with rfl | hp
      · have hbe : b.time ≤ b.endt := by
          have := hpos b (by simp)
          unfold Peak.endt
          have := Int.mul_nonneg (Int.le_of_lt this.2) this.1
          omega
        have := ihb b (by simp)
        have := hd.1
        omega
      · exact ihb p hp

theorem mergeChain_of_sorted (t0 common : Int) (hc : 0 < common) : ∀ (old : List Peak) (hi : Nat),
    DisjointSorted old → (∀ p ∈ old, 0 ≤ p.length ∧ 0 < p.dt) →
    (∀ p, old.head? = some p → (hi : Int) ≤ Int.fdiv (p.time - t0) common) → MergeChain t0 common hi old := by
  intro old
  induction old with
  | nil => intros; trivial
  | cons a l ih =>
    intro hi hd hpos hh
    have h0 := hh a rfl
    refine ⟨h0, ?_⟩
    cases l with
    | nil => trivial
    | cons b l' =>
      apply ih _ hd.2 (fun q hq => hpos q (by simp [hq]))
      intro p hp
      simp at hp; subst hp
      have hae : a.time ≤ a.endt := by
        have := hpos a (by simp)
        unfold Peak.endt
        have := Int.mul_nonneg (Int.le_of_lt this.2) this.1
        omega
      have m1 : Int.fdiv (a.endt - t0) common ≤ Int.fdiv (b.time - t0) common := by
        rw [Int.fdiv_eq_ediv_of_nonneg _ (Int.le_of_lt hc), Int.fdiv_eq_ediv_of_nonneg _ (Int.le_of_lt hc)]
        exact Int.ediv_le_ediv hc (by have := hd.1; omega)
      have m2 : Int.fdiv (a.time - t0) common ≤ Int.fdiv (a.endt - t0) common := by
        rw [Int.fdiv_eq_ediv_of_nonneg _ (Int.le_of_lt hc), Int.fdiv_eq_ediv_of_nonneg _ (Int.le_of_lt hc)]
        exact Int.ediv_le_ediv hc (by omega)
      omega


/-- **merged waveform.** For time-sorted, non-overlapping constituents with positive `dt` the merged peak is
`store_downsampled_waveform` of a full-resolution buffer (common dt) that integrates to the sum of the
constituents' waveforms; hence what is stored plus what down-sampling drops (D11) integrates to that sum -/
theorem mergeOne_wave (nCh nS : Nat) (old : List Peak) (q : Peak) (e : Int) (hnS : 0 < nS)
    (hd : DisjointSorted old) (hdt : ∀ p ∈ old, 0 < p.dt)
    (h : mergeOne nCh nS old = .ok (q, e)) :
    ∃ (p0 : Peak) (buf : List Rat), q = storeDownsampled p0 buf ∧ p0.data.length = nS ∧ buf.length = p0.length.toNat ∧
      buf.sum = (old.map (·.wave.sum)).sum ∧
      q.wave.sum + (droppedTail p0 buf).sum = (old.map (·.wave.sum)).sum := by
  unfold mergeOne at h
  split at h
  · rename_i first rest last hl
    simp only [] at h
    split at h
    · simp at h
    · rename_i hc0
      split at h
      · simp at h
      · rename_i acc hacc
        simp only [Except.ok.injEq, Prod.mk.injEq] at h
        obtain ⟨hq, _⟩ := h
        have hg := gcdOfDts_nonneg (first :: rest) (fun p hp => Int.le_of_lt (hdt p hp))
        have hc : 0 < gcdOfDts (first :: rest) := by omega
        -- lengths are non-negative, otherwise the loop would have failed
        have hlen : ∀ (l : List Peak) (a a' : MergeAcc), mergeLoop first.time (gcdOfDts (first :: rest)) l a = .ok a' →
            ∀ p ∈ l, 0 ≤ p.length := by
          intro l
          induction l with
          | nil => intro _ _ _ p hp; simp at hp
          | cons x xs ih =>
            intro a a' hm p hp
            unfold mergeLoop at hm
            simp only [] at hm
            split at hm
            · simp at hm
            · rename_i hneg
              split at hm
              · simp at hm
              · rcases List.mem_cons.mp hp with rfl | hp
                · omega
                · exact ih _ a' hm p hp
        have hpos : ∀ p ∈ first :: rest, 0 ≤ p.length ∧ 0 < p.dt := fun p hp => ⟨hlen _ _ _ hacc p hp, hdt p hp⟩
        have hlast := endt_le_last (first :: rest) last hd hpos hl
        have hfe : first.time ≤ first.endt := by
          have := hpos first (by simp)
          unfold Peak.endt
          have := Int.mul_nonneg (Int.le_of_lt this.2) this.1
          omega
        have hlen0 : 0 ≤ Int.fdiv (last.endt - first.time) (gcdOfDts (first :: rest)) := by
          rw [Int.fdiv_eq_ediv_of_nonneg _ hg]
          exact Int.ediv_nonneg (by have := hlast first (by simp); omega) hg
        have hchain := mergeChain_of_sorted first.time _ hc (first :: rest) 0 hd hpos (by
          intro p hp; simp at hp; subst hp; simp [Int.fdiv])
        have hw := mergeLoop_wave first.time _ hc (first :: rest) _ acc 0 hacc (zeroFrom_zeros _ 0) hchain (by
          intro p hp
          refine ⟨gcdOfDts_dvd _ p hp, hdt p hp, ?_⟩
          simp only [zeros_length]
          rw [Int.toNat_of_nonneg hlen0, Int.fdiv_eq_ediv_of_nonneg _ hg, Int.fdiv_eq_ediv_of_nonneg _ hg]
          exact Int.ediv_le_ediv hc (by have := hlast p hp; omega))
        simp only [zeros_sum, Rat.zero_add] at hw
        obtain ⟨_, _, a3, _, _⟩ := mergeLoop_acc _ _ _ _ _ hacc
        simp only [zeros_length] at a3
        refine ⟨_, acc.buf, hq.symm, by simp [zeros_length], by simpa using a3, hw, ?_⟩
        rw [← hq, ← hw]
        exact storeDownsampled_sum _ acc.buf (by simp [zeros_length]; exact hnS) (by simpa using a3)
  · simp at h



/-! ## add_lone_hits -/

theorem addIdx_oob (l : List Rat) (k : Nat) (v : Rat) (h : l.length ≤ k) : addIdx l k v = l := by
  induction l generalizing k with
  | nil => simp [addIdx]
  | cons b bs ih =>
    cases k with
    | zero => simp at h
    | succ k => simp [addIdx, ih k (by simpa using h)]

theorem addIdx_getD' (l : List Rat) (k j : Nat) (v : Rat) :
    (addIdx l k v).getD j 0 = l.getD j 0 + (if j = k ∧ k < l.length then v else 0) := by
  by_cases hk : k < l.length
  · rw [addIdx_getD l k j v hk]; simp [hk]
  · rw [addIdx_oob l k v (by omega)]; simp [hk, Rat.add_zero]

theorem modifyNth_length {α} (l : List α) (i : Nat) (f : α → α) : (modifyNth l i f).length = l.length := by
  induction l generalizing i with
  | nil => simp [modifyNth]
  | cons x xs ih => cases i <;> simp [modifyNth, ih]

theorem modifyNth_getElem? {α} (l : List α) (i k : Nat) (f : α → α) :
    (modifyNth l i f)[k]? = if k = i then l[k]?.map f else l[k]? := by
  induction l generalizing i k with
  | nil => simp [modifyNth]
  | cons x xs ih =>
    cases i with
    | zero => cases k <;> simp [modifyNth]
    | succ i =>
      cases k with
      | zero => simp [modifyNth]
      | succ k => simp [modifyNth, ih]

/-- sample index of a lone hit inside a peak: `(lh.time - p.time) // p.dt` -/
def loneIndex (p : Peak) (lh : Hit) : Nat := (Int.fdiv (lh.time - p.time) p.dt).toNat


/-- what the lone hits assigned to peak `k` add to it -/
def loneArea (toPe : List Rat) (pairs : List (Option Nat × Hit)) (k : Nat) : Rat :=
  ((pairs.filter (fun x => decide (x.1 = some k))).map (fun x => hitPE toPe x.2)).sum

def loneApc (toPe : List Rat) (pairs : List (Option Nat × Hit)) (k c nCh : Nat) : Rat :=
  ((pairs.filter (fun x => decide (x.1 = some k) && (decide (x.2.channel = c) && decide (c < nCh)))).map (fun x => hitPE toPe x.2)).sum

def loneData (toPe : List Rat) (pairs : List (Option Nat × Hit)) (p : Peak) (k m : Nat) : Rat :=
  ((pairs.filter (fun x => decide (x.1 = some k) && (decide (loneIndex p x.2 = m) && decide (m < p.data.length)))).map
    (fun x => hitPE toPe x.2)).sum

/-- `_add_lone_hits`: every peak keeps its time span; its area grows by the PE of exactly the lone hits assigned
to it, its per-channel areas by those of that channel, and sample `(lh.time - time) // dt` of its waveform
receives each of them -/
theorem addLoneLoop_spec (toPe : List Rat) :
    ∀ (pairs : List (Option Nat × Hit)) (peaks out : List Peak), addLoneLoop toPe pairs peaks = .ok out →
      out.length = peaks.length ∧
      ∀ k p, peaks[k]? = some p → ∃ q, out[k]? = some q ∧
        q.time = p.time ∧ q.length = p.length ∧ q.dt = p.dt ∧ q.apc.length = p.apc.length ∧ q.data.length = p.data.length ∧
        q.area = p.area + loneArea toPe pairs k ∧
        (∀ c, q.apc.getD c 0 = p.apc.getD c 0 + loneApc toPe pairs k c p.apc.length) ∧
        (∀ m, q.data.getD m 0 = p.data.getD m 0 + loneData toPe pairs p k m) := by
  intro pairs
  induction pairs with
  | nil =>
    intro peaks out h
    simp [addLoneLoop] at h; subst h
    refine ⟨rfl, ?_⟩
    intro k p hp
    exact ⟨p, hp, rfl, rfl, rfl, rfl, rfl, by simp [loneArea, Rat.add_zero], by simp [loneApc, Rat.add_zero],
      by simp [loneData, Rat.add_zero]⟩
  | cons x rest ih =>
    intro peaks out h
    obtain ⟨oi, lh⟩ := x
    cases oi with
    | none =>
      simp only [addLoneLoop] at h
      obtain ⟨h1, h2⟩ := ih peaks out h
      refine ⟨h1, ?_⟩
      intro k p hp
      obtain ⟨q, e1, e2, e3, e4, e5, e6, e7, e8, e9⟩ := h2 k p hp
      refine ⟨q, e1, e2, e3, e4, e5, e6, ?_, ?_, ?_⟩
      · simpa [loneArea, List.filter_cons] using e7
      · intro c; simpa [loneApc, List.filter_cons] using e8 c
      · intro m; simpa [loneData, List.filter_cons] using e9 m
    | some i =>
      simp only [addLoneLoop] at h
      split at h
      · simp at h
      · rename_i p0 hp0
        split at h
        · simp at h
        · split at h
          · simp at h
          · obtain ⟨h1, h2⟩ := ih _ out h
            rw [modifyNth_length] at h1
            refine ⟨h1, ?_⟩
            intro k p hp
            by_cases hk : k = i
            · subst hk
              have hpp : p0 = p := by rw [hp0] at hp; exact Option.some.inj hp
              subst hpp
              obtain ⟨q, e1, e2, e3, e4, e5, e6, e7, e8, e9⟩ := h2 k
                (loneUpdate (lh.area * toPe.getD lh.channel 0) lh.channel (Int.fdiv (lh.time - p0.time) p0.dt).toNat p0)
                (by rw [modifyNth_getElem?]; simp [hp0])
              simp only [loneUpdate, addIdx_length] at e2 e3 e4 e5 e6 e7 e8 e9
              refine ⟨q, e1, e2, e3, e4, e5, e6, ?_, ?_, ?_⟩
              · rw [e7]; simp [loneArea, List.filter_cons, hitPE]; grind
              · intro c
                rw [e8 c, addIdx_getD']
                simp only [loneApc, List.filter_cons, decide_true, Bool.true_and]
                by_cases hc : lh.channel = c ∧ c < p0.apc.length
                · obtain ⟨hc1, hc2⟩ := hc
                  subst hc1
                  simp [hc2, hitPE]; grind
                · have : ¬ (c = lh.channel ∧ lh.channel < p0.apc.length) := by
                    intro hh; exact hc ⟨hh.1.symm, by rw [← hh.1] at hh; exact hh.2⟩
                  have hb : (decide (lh.channel = c) && decide (c < p0.apc.length)) = false := by
                    simp only [Bool.and_eq_false_iff, decide_eq_false_iff_not]
                    by_cases h1 : lh.channel = c
                    · right; intro h2; exact hc ⟨h1, h2⟩
                    · left; exact h1
                  simp [this, hb, Rat.add_zero]
              · intro m
                rw [e9 m, addIdx_getD']
                have hli : ∀ y : Hit, loneIndex
                    { p0 with area := p0.area + lh.area * toPe.getD lh.channel 0,
                              apc := addIdx p0.apc lh.channel (lh.area * toPe.getD lh.channel 0),
                              data := addIdx p0.data (Int.fdiv (lh.time - p0.time) p0.dt).toNat (lh.area * toPe.getD lh.channel 0) } y
                    = loneIndex p0 y := fun _ => rfl
                simp only [loneData, List.filter_cons, decide_true, Bool.true_and, hli, addIdx_length]
                by_cases hm : loneIndex p0 lh = m ∧ m < p0.data.length
                · obtain ⟨hm1, hm2⟩ := hm
                  have hm1' : (Int.fdiv (lh.time - p0.time) p0.dt).toNat = m := hm1
                  simp [hm1, hm2, hm1', hitPE]; grind
                · have hb : (decide (loneIndex p0 lh = m) && decide (m < p0.data.length)) = false := by
                    simp only [Bool.and_eq_false_iff, decide_eq_false_iff_not]
                    by_cases h1 : loneIndex p0 lh = m
                    · right; intro h2; exact hm ⟨h1, h2⟩
                    · left; exact h1
                  have : ¬ (m = (Int.fdiv (lh.time - p0.time) p0.dt).toNat ∧ (Int.fdiv (lh.time - p0.time) p0.dt).toNat < p0.data.length) := by
                    intro hh; apply hm; refine ⟨hh.1.symm, ?_⟩; rw [hh.1]; exact hh.2
                  simp [this, hb, Rat.add_zero]
            · obtain ⟨q, e1, e2, e3, e4, e5, e6, e7, e8, e9⟩ := h2 k p (by rw [modifyNth_getElem?]; simp [hk, hp])
              have hne : ¬ (some i = some k) := by intro hh; exact hk (Option.some.inj hh).symm
              refine ⟨q, e1, e2, e3, e4, e5, e6, ?_, ?_, ?_⟩
              · simpa [loneArea, List.filter_cons, hne] using e7
              · intro c; simpa [loneApc, List.filter_cons, hne] using e8 c
              · intro m; simpa [loneData, List.filter_cons, hne] using e9 m


/-- `_fc_in` only reports a container that really contains the thing -/
theorem fcIn_sound : ∀ (as cs : List (Int × Int)) (bi n k : Nat),
    (fcIn as cs bi)[n]? = some (some k) →
    ∃ a c, as[n]? = some a ∧ bi ≤ k ∧ cs[k - bi]? = some c ∧ c.1 ≤ a.1 ∧ a.2 ≤ c.2 := by
  intro as
  induction as with
  | nil => intro cs bi n k h; simp [fcIn] at h
  | cons a as ih =>
    intro cs bi n k h
    obtain ⟨a0, a1⟩ := a
    simp only [fcIn] at h
    split at h
    · -- containers exhausted: everything is `none`
      cases n with
      | zero => simp at h
      | succ n => simp [List.getElem?_map] at h
    · rename_i b0 b1 tl hcs
      cases n with
      | zero =>
        simp only [List.getElem?_cons_zero, Option.some.injEq] at h
        split at h
        · rename_i hc
          simp only [Option.some.injEq] at h
          refine ⟨(a0, a1), (b0, b1), rfl, by omega, ?_, hc.1, hc.2⟩
          have : cs[(List.takeWhile (fun c => decide (c.2 ≤ a0)) cs).length]? = some (b0, b1) := by
            have := congrArg (fun l => l[0]?) hcs
            simpa [List.getElem?_drop] using this
          rw [← h]; simpa using this
        · simp at h
      | succ n =>
        simp only [List.getElem?_cons_succ] at h
        obtain ⟨a', c, e1, e2, e3, e4, e5⟩ := ih _ _ n k h
        refine ⟨a', c, by simpa using e1, by omega, ?_, e4, e5⟩
        rw [List.getElem?_drop] at e3
        rw [← e3]; congr 1; omega

/-- `add_lone_hits` = the sanity checks, `_fc_in` on the intervals, then the update loop -/
theorem addLoneHits_ok (toPe : List Rat) (peaks out : List Peak) (lone : List Hit)
    (h : addLoneHits toPe peaks lone = .ok out) :
    addLoneLoop toPe ((fcIn (lone.map fun h => (h.time, h.endt)) (peaks.map fun p => (p.time, p.endt)) 0).zip lone) peaks = .ok out := by
  unfold addLoneHits at h
  split at h
  · simp at h
  · split at h
    · simp at h
    · exact h



/-! ## compute_widths -/

theorem iofInner_length (A x : Rat) (i : Nat) (seen : Rat) : ∀ (rem : List Rat),
    (iofInner A x i seen rem).1.length + (iofInner A x i seen rem).2.length = rem.length := by
  intro rem
  induction rem with
  | nil => simp [iofInner]
  | cons f rest ih =>
    unfold iofInner
    split
    · simp only [List.length_cons]; omega
    · simp

theorem iofLoop_length (A : Rat) : ∀ (xs : List Rat) (i : Nat) (seen : Rat) (rem : List Rat),
    (iofLoop A xs i seen rem).1.length + (iofLoop A xs i seen rem).2.length = rem.length := by
  intro xs
  induction xs with
  | nil => intro i seen rem; simp [iofLoop]
  | cons x xs ih =>
    intro i seen rem
    have h1 := iofInner_length A x i seen rem
    rw [iofLoop]
    simp only []
    generalize iofInner A x i seen rem = r at h1
    obtain ⟨rs, rem'⟩ := r
    simp only [] at h1 ⊢
    split
    · rename_i he
      have : rem' = [] := by simpa using he
      subst this; simpa using h1
    · have h2 := ih (i+1) (seen + x / A) rem'
      generalize iofLoop A xs (i+1) (seen + x / A) rem' = r2 at h2
      obtain ⟨rs', rem''⟩ := r2
      simp only [List.length_append] at h2 ⊢
      omega

theorem setLast_length (l : List Rat) (v : Rat) : (setLast l v).length = l.length := by
  unfold setLast
  split
  · rename_i h; have : l = [] := by simpa using h
    subst this; rfl
  · rename_i a r h
    have : l.length = r.length + 1 := by
      have := congrArg List.length h; simpa using this
    simp; omega

theorem indexOfFraction_length (p : Peak) (fr : List Rat) : (indexOfFraction p fr).length = fr.length := by
  unfold indexOfFraction
  split
  · simp
  · unfold computeIndexOfFraction
    have h := iofLoop_length p.area p.wave 0 0 fr
    generalize iofLoop p.area p.wave 0 0 fr = r at h
    obtain ⟨rs, rem⟩ := r
    simp only [] at h ⊢
    have hl : (rs ++ rem.map fun _ => (0 : Rat)).length = fr.length := by simp; omega
    have ite_len : ∀ (c : Prop) [Decidable c] (a b : List Rat) (n : Nat), a.length = n → b.length = n →
        (if c then a else b).length = n := by
      intro c _ a b n ha hb; split <;> assumption
    exact ite_len _ _ _ _ (by rw [setLast_length]; exact hl) hl

theorem everySecond_getElem? : ∀ (l : List Rat) (k : Nat), (everySecond l)[k]? = l[2 * k]?
  | [], k => by simp [everySecond]
  | [x], k => by cases k <;> simp [everySecond]
  | x :: y :: rest, k => by
    cases k with
    | zero => simp [everySecond]
    | succ k =>
      simp only [everySecond, List.getElem?_cons_succ]
      rw [everySecond_getElem? rest k]
      have : 2 * (k + 1) = (2 * k) + 1 + 1 := by omega
      rw [this]; simp

/-- `compute_widths` in terms of the area-fraction times `t_j = index_of_fraction(fr)[j] · dt` (`fr` the
ascending list of `2i+1` fractions): median = `t_i`, width `k` = `t_{i+k} − t_{i−k}`, decile `k` = `t_{2k} − t_i` -/
theorem computeWidths_spec (p : Peak) (nW : Nat) (i : Nat) (hodd : (widthFractions nW).length = 2 * i + 1) :
    let times := (indexOfFraction p (widthFractions nW)).map (· * (p.dt : Rat))
    (computeWidths p nW).1 = times.getD i 0 ∧
    (∀ k, k ≤ i → (computeWidths p nW).2.1[k]? = some (times.getD (i + k) 0 - times.getD (i - k) 0)) ∧
    (∀ k, (computeWidths p nW).2.2[k]? = (times[2 * k]?).map (· - times.getD i 0)) := by
  intro times
  have hlen : times.length = 2 * i + 1 := by
    simp only [times, List.length_map, indexOfFraction_length, hodd]
  have hi : (widthFractions nW).length / 2 = i := by omega
  unfold computeWidths
  simp only [hi]
  refine ⟨rfl, ?_, ?_⟩
  · intro k hk
    rw [List.getElem?_zipWith]
    have h1 : (List.drop i times)[k]? = some (times.getD (i + k) 0) := by
      rw [List.getElem?_drop, List.getD_eq_getElem?_getD]
      have : i + k < times.length := by omega
      simp [List.getElem?_eq_getElem this]
    have h2 : (List.drop i times.reverse)[k]? = some (times.getD (i - k) 0) := by
      rw [List.getElem?_drop, List.getElem?_reverse (by omega), List.getD_eq_getElem?_getD]
      have e : times.length - 1 - (i + k) = i - k := by omega
      have : i - k < times.length := by omega
      rw [e]; simp [List.getElem?_eq_getElem this]
    rw [h1, h2]
  · intro k
    rw [List.getElem?_map, everySecond_getElem?]


/-! ## replace_merged: the result is time-sorted -/

/-- every merged row starts where the first original row of its window starts -/
def MergedStartAtWindow (orig : List Row) : List (Row × (Nat × Nat)) → Prop
  | [] => True
  | (m, (s, _)) :: rest => (∃ h : s < orig.length, m.time = orig[s].time) ∧ MergedStartAtWindow orig rest

theorem mem_slice_index {α} (l : List α) (lo hi : Nat) (x : α) (hx : x ∈ slice l lo hi) :
    ∃ j, lo ≤ j ∧ j < hi ∧ ∃ h : j < l.length, x = l[j] := by
  unfold slice at hx
  obtain ⟨k, hk, rfl⟩ := List.getElem_of_mem hx
  simp only [List.length_take, List.length_drop] at hk
  refine ⟨lo + k, by omega, by omega, by omega, ?_⟩
  simp

theorem mem_drop_index {α} (l : List α) (lo : Nat) (x : α) (hx : x ∈ l.drop lo) :
    ∃ j, lo ≤ j ∧ ∃ h : j < l.length, x = l[j] := by
  obtain ⟨k, hk, rfl⟩ := List.getElem_of_mem hx
  simp only [List.length_drop] at hk
  exact ⟨lo + k, by omega, by omega, by simp⟩

/-- every row of the defining interleaving starts at the start time of some original row at or behind `lo` -/
theorem replaceSpec_mem (orig : List Row) : ∀ (pend : List (Row × (Nat × Nat))) (lo : Nat),
    WindowsOk orig.length lo pend → MergedStartAtWindow orig pend →
    ∀ x ∈ replaceSpec orig lo pend, ∃ j, lo ≤ j ∧ ∃ h : j < orig.length, x.time = orig[j].time := by
  intro pend
  induction pend with
  | nil =>
    intro lo _ _ x hx
    obtain ⟨j, h1, h2, rfl⟩ := mem_drop_index orig lo x hx
    exact ⟨j, h1, h2, rfl⟩
  | cons y rest ih =>
    obtain ⟨m, s, e⟩ := y
    intro lo hw hm x hx
    obtain ⟨w1, w2, w3, w4⟩ := hw
    obtain ⟨⟨hs, hmt⟩, hm'⟩ := hm
    simp only [replaceSpec, List.mem_append, List.mem_cons] at hx
    rcases hx with hx | rfl | hx
    · obtain ⟨j, h1, _, h3, rfl⟩ := mem_slice_index orig lo s x hx
      exact ⟨j, h1, h3, rfl⟩
    · exact ⟨s, w1, hs, hmt⟩
    · obtain ⟨j, h1, h2, h3⟩ := ih e w4 hm' x hx
      exact ⟨j, by omega, h2, h3⟩

/-- **time-sortedness of the `replace_merged` result**: time-sorted originals, well-formed windows and merged rows
that start where their window starts give a time-sorted result -/
theorem replaceSpec_sorted (orig : List Row) (hso : orig.Pairwise (fun a b => a.time ≤ b.time)) :
    ∀ (pend : List (Row × (Nat × Nat))) (lo : Nat),
      WindowsOk orig.length lo pend → MergedStartAtWindow orig pend →
      (replaceSpec orig lo pend).Pairwise (fun a b => a.time ≤ b.time) := by
  have hmono : ∀ (i j : Nat) (hi : i < orig.length) (hj : j < orig.length), i ≤ j → orig[i].time ≤ orig[j].time := by
    intro i j hi hj hij
    rcases Nat.lt_or_eq_of_le hij with h | h
    · exact List.pairwise_iff_getElem.mp hso i j hi hj h
    · subst h; exact Int.le_refl _
  intro pend
  induction pend with
  | nil =>
    intro lo _ _
    exact hso.sublist (List.drop_sublist _ _)
  | cons y rest ih =>
    obtain ⟨m, s, e⟩ := y
    intro lo hw hm
    obtain ⟨w1, w2, w3, w4⟩ := hw
    obtain ⟨⟨hs, hmt⟩, hm'⟩ := hm
    simp only [replaceSpec]
    rw [List.pairwise_append]
    refine ⟨?_, ?_, ?_⟩
    · unfold slice
      exact (hso.sublist (List.drop_sublist _ _)).sublist (List.take_sublist _ _)
    · rw [List.pairwise_cons]
      refine ⟨?_, ih e w4 hm'⟩
      intro x hx
      obtain ⟨j, h1, h2, h3⟩ := replaceSpec_mem orig rest e w4 hm' x hx
      rw [hmt, h3]; exact hmono s j hs h2 (by omega)
    · intro a ha b hb
      obtain ⟨ja, _, a2, a3, rfl⟩ := mem_slice_index orig lo s a ha
      rcases List.mem_cons.mp hb with rfl | hb
      · rw [hmt]; exact hmono ja s a3 hs (by omega)
      · obtain ⟨j, h1, h2, h3⟩ := replaceSpec_mem orig rest e w4 hm' b hb
        rw [h3]; exact hmono ja j a3 h2 (by omega)



/-! ## translation invariance (epoch-scale timestamps) -/

def Hit.shift (T : Int) (h : Hit) : Hit := { h with time := h.time + T }
def Cand.shift (T : Int) (c : Cand) : Cand :=
  { c with time := c.time + T, endt := c.endt + T, members := c.members.map (Hit.shift T) }
def Peak.shift (T : Int) (p : Peak) : Peak := { p with time := p.time + T }

theorem Hit.shift_endt (T : Int) (h : Hit) : (h.shift T).endt = h.endt + T := by
  simp only [Hit.shift, Hit.endt]; omega

theorem step_shift (P : FPParams) (toPe : List Rat) (nCh : Nat) (T : Int) (c : Option Cand) (h : Hit) :
    Cand.step P toPe nCh (c.map (Cand.shift T)) (h.shift T) = (Cand.step P toPe nCh c h).shift T := by
  cases c with
  | none =>
    simp only [Cand.step, Cand.enter, Cand.add, Option.map_none, Cand.shift, Hit.shift_endt]
    simp only [Hit.shift, List.map_append, List.map_cons, List.map_nil, List.nil_append]
    congr 1 <;> omega
  | some c =>
    simp only [Cand.step, Cand.enter, Cand.add, Option.map_some, Cand.shift, Hit.shift_endt]
    simp only [Hit.shift, List.map_append, List.map_cons, List.map_nil]
    congr 1 <;> omega

theorem isFar_shift (P : FPParams) (T : Int) (c : Cand) (nx : Hit) :
    isFar P (c.shift T) (nx.shift T) = isFar P c nx := by
  simp only [isFar, Cand.shift, Hit.shift]; congr 1; apply propext; constructor <;> intro h <;> omega

theorem tooLong_shift (P : FPParams) (T : Int) (c : Cand) (nx : Hit) :
    tooLong P (c.shift T) (nx.shift T) = tooLong P c nx := by
  simp only [tooLong, Cand.shift, Hit.shift]; congr 1; apply propext; constructor <;> intro h <;> omega

theorem scanHits_shift (P : FPParams) (toPe : List Rat) (nCh : Nat) (T : Int) :
    ∀ (hits : List Hit) (c : Option Cand),
      scanHits P toPe nCh (c.map (Cand.shift T)) (hits.map (Hit.shift T)) = (scanHits P toPe nCh c hits).map (Cand.shift T) := by
  intro hits
  induction hits with
  | nil => intro c; simp [scanHits]
  | cons h rest ih =>
    intro c
    rw [List.map_cons, scanHits_cons, scanHits_cons, step_shift]
    cases rest with
    | nil => simp
    | cons nx r =>
      simp only [List.map_cons, isFar_shift, tooLong_shift]
      split
      · have := ih none
        simp only [Option.map_none, List.map_cons] at this
        rw [this]; simp
      · have := ih (some (Cand.step P toPe nCh c h))
        simp only [Option.map_some, List.map_cons] at this
        exact this

theorem finish_shift (P : FPParams) (nS : Nat) (T : Int) (c : Cand) :
    (c.shift T).finish P nS = (c.finish P nS).map (Option.map (Peak.shift T)) := by
  unfold Cand.finish
  simp only [Cand.shift]
  have e : c.endt + T - (c.time + T) + P.right = c.endt - c.time + P.right := by omega
  simp only [e]
  split
  · rfl
  · split
    · rfl
    · split
      · rfl
      · split <;> rfl

theorem finishAll_shift (P : FPParams) (nS : Nat) (T : Int) : ∀ (cs : List Cand),
    finishAll P nS (cs.map (Cand.shift T)) = (finishAll P nS cs).map (List.map (Peak.shift T)) := by
  intro cs
  induction cs with
  | nil => rfl
  | cons c cs ih =>
    simp only [List.map_cons, finishAll, finish_shift, ih]
    cases hc : c.finish P nS with
    | error e => rfl
    | ok o =>
      cases o with
      | none => simp [Except.map]
      | some p =>
        cases hf : finishAll P nS cs with
        | error e => rfl
        | ok ps => simp [Except.map]

/-- **`find_peaks` is translation invariant**: moving all hit times by `T` moves all peak times by `T` and changes
nothing else (so results at acquisition-epoch times ≈ 1.7e18 ns are those at small times, shifted) -/
theorem findPeaks_shift (P : FPParams) (toPe : List Rat) (nCh nS : Nat) (T : Int) (hits : List Hit) :
    findPeaks P toPe nCh nS (hits.map (Hit.shift T)) = (findPeaks P toPe nCh nS hits).map (List.map (Peak.shift T)) := by
  unfold findPeaks
  have ha : fpAsserts P toPe (hits.map (Hit.shift T)) = fpAsserts P toPe hits := by
    cases hits with
    | nil => rfl
    | cons h0 r => simp [fpAsserts, Hit.shift, List.all_map, Function.comp_def]; rfl
  have he : (hits.map (Hit.shift T)).isEmpty = hits.isEmpty := by cases hits <;> rfl
  rw [ha, he]
  split
  · rfl
  · split
    · rfl
    · have := scanHits_shift P toPe nCh T hits none
      simp only [Option.map_none] at this
      rw [this, finishAll_shift]


theorem Peak.shift_endt (T : Int) (p : Peak) : (p.shift T).endt = p.endt + T := by
  simp only [Peak.shift, Peak.endt]; omega

theorem gapsBetween_shift (T : Int) : ∀ (peaks : List Peak), gapsBetween (peaks.map (Peak.shift T)) = gapsBetween peaks
  | [] => rfl
  | [_] => rfl
  | a :: b :: rest => by
    simp only [List.map_cons, gapsBetween]
    have := gapsBetween_shift T (b :: rest)
    simp only [List.map_cons] at this
    rw [this, Peak.shift_endt]
    congr 1
    simp only [Peak.shift]; omega

theorem gcdOfDts_shift (T : Int) (old : List Peak) : gcdOfDts (old.map (Peak.shift T)) = gcdOfDts old := by
  cases old with
  | nil => rfl
  | cons p ps =>
    simp only [List.map_cons, gcdOfDts, List.foldl_map]
    rfl

theorem mergeLoop_shift (t0 common T : Int) : ∀ (old : List Peak) (acc : MergeAcc),
    mergeLoop (t0 + T) common (old.map (Peak.shift T)) acc = mergeLoop t0 common old acc := by
  intro old
  induction old with
  | nil => intro acc; rfl
  | cons p ps ih =>
    intro acc
    simp only [List.map_cons]
    unfold mergeLoop
    have e : (p.shift T).time - (t0 + T) = p.time - t0 := by simp only [Peak.shift]; omega
    simp only [e]
    simp only [Peak.shift, Peak.wave, ih]

theorem slice_map {α β} (f : α → β) (l : List α) (a b : Nat) : slice (l.map f) a b = (slice l a b).map f := by
  simp [slice, List.map_drop, List.map_take]

theorem selectOld_shift (T : Int) (peaks : List Peak) (merged : Option (List Bool)) (s e : Nat) :
    selectOld (peaks.map (Peak.shift T)) merged s e = (selectOld peaks merged s e).map (List.map (Peak.shift T)) := by
  unfold selectOld
  simp only [slice_map]
  cases merged with
  | none => rfl
  | some m =>
    simp only []
    split
    · rfl
    · simp only [Except.map]
      congr 1
      generalize slice peaks s e = l
      generalize slice m s e = bs
      induction l generalizing bs with
      | nil => simp
      | cons x xs ih =>
        cases bs with
        | nil => simp
        | cons b bs =>
          simp only [List.map_cons, List.zip_cons_cons, List.filter_cons]
          cases b <;> simp [ih bs]

theorem mergeOne_shift (nCh nS : Nat) (T : Int) (old : List Peak) :
    mergeOne nCh nS (old.map (Peak.shift T)) = (mergeOne nCh nS old).map (fun qe => (qe.1.shift T, qe.2 + T)) := by
  unfold mergeOne
  cases old with
  | nil => rfl
  | cons first rest =>
    have hl : ((first :: rest).map (Peak.shift T)).getLast? = ((first :: rest).getLast?).map (Peak.shift T) := by
      rw [List.getLast?_map]
    rw [hl]
    cases hlast : (first :: rest).getLast? with
    | none => simp [List.getLast?_eq_none_iff] at hlast
    | some last =>
      simp only [List.map_cons, Option.map_some]
      have hg := gcdOfDts_shift T (first :: rest)
      simp only [List.map_cons] at hg
      rw [hg]
      split
      · rfl
      · have e' : last.endt + T - (first.time + T) = last.endt - first.time := by omega
        have ht : (first.shift T).time = first.time + T := rfl
        have hm := mergeLoop_shift first.time (gcdOfDts (first :: rest)) T (first :: rest)
        simp only [List.map_cons] at hm
        simp only [ht, hm, Peak.shift_endt, e']
        cases mergeLoop first.time (gcdOfDts (first :: rest)) (first :: rest)
            { buf := zeros ((last.endt - first.time).fdiv (gcdOfDts (first :: rest))).toNat, area := 0, apc := zeros nCh,
              nHits := 0 } with
        | error er => rfl
        | ok acc =>
          simp only [Except.map]
          congr 1
          unfold storeDownsampled Peak.shift
          simp only []
          split <;> rfl

theorem mergeAll_shift (nCh nS : Nat) (T : Int) (peaks : List Peak) (merged : Option (List Bool)) :
    ∀ (ranges : List (Nat × Nat)),
      mergeAll nCh nS (peaks.map (Peak.shift T)) merged ranges
        = (mergeAll nCh nS peaks merged ranges).map (List.map (fun qe => (qe.1.shift T, qe.2 + T))) := by
  intro ranges
  induction ranges with
  | nil => rfl
  | cons r rest ih =>
    obtain ⟨s, e⟩ := r
    simp only [mergeAll, selectOld_shift, ih]
    cases selectOld peaks merged s e with
    | error er => rfl
    | ok old =>
      simp only [Except.map, mergeOne_shift]
      cases mergeOne nCh nS old with
      | error er => rfl
      | ok qe =>
        simp only [Except.map]
        cases mergeAll nCh nS peaks merged rest with
        | error er => rfl
        | ok rs => rfl

/-- **`merge_peaks` is translation invariant**: moving all peak times by `T` moves the merged peaks and their
collected end times by `T` and changes nothing else -/
theorem mergePeaks_shift (nCh nS : Nat) (T : Int) (peaks : List Peak) (merged : Option (List Bool)) (ranges : List (Nat × Nat)) :
    mergePeaks nCh nS (peaks.map (Peak.shift T)) merged ranges
      = (mergePeaks nCh nS peaks merged ranges).map (List.map (fun qe => (qe.1.shift T, qe.2 + T))) := by
  have hgo : mergePeaks.mergePeaksGo nCh nS (peaks.map (Peak.shift T)) merged ranges
      = (mergePeaks.mergePeaksGo nCh nS peaks merged ranges).map (List.map (fun qe => (qe.1.shift T, qe.2 + T))) := by
    unfold mergePeaks.mergePeaksGo
    simp only [gapsBetween_shift]
    split
    · rfl
    · split
      · rfl
      · exact mergeAll_shift nCh nS T peaks merged ranges
  unfold mergePeaks
  cases merged with
  | none => exact hgo
  | some m =>
    simp only [List.length_map]
    split
    · rfl
    · exact hgo



/-! ## review round: closed forms -/

theorem ChainOK_mid (P : FPParams) (toPe : List Rat) (nCh : Nat) (h' : Hit) (l2 : List Hit) :
    ∀ (l1 : List Hit) (c : Cand), ChainOK P toPe nCh c (l1 ++ h' :: l2) →
      isFar P (l1.foldl (fun c x => Cand.step P toPe nCh (some c) x) c) h' = false ∧
      tooLong P (l1.foldl (fun c x => Cand.step P toPe nCh (some c) x) c) h' = false := by
  intro l1
  induction l1 with
  | nil => intro c h; exact ⟨h.1, h.2.1⟩
  | cons x l1 ih => intro c h; exact ih _ h.2.2

/-- **closed form of a cluster** (no model helper in the statement): for every hit `h'` of a cluster after its
first one, with `pre` the non-empty list of the cluster's hits before it (first hit `f`):
`h'` starts less than `gap_threshold` after the latest end among `pre`, and
`h'.end − f.time + 2·left_extension + right_extension ≤ max_duration` (the cut as the code evaluates it). -/
theorem chain_closed_form (P : FPParams) (toPe : List Rat) (nCh : Nat) (f h' : Hit) (l1 l2 : List Hit)
    (hc : IsChain P toPe nCh (f :: l1 ++ h' :: l2)) :
    h'.time - maxEndt (f :: l1) < P.gap ∧ h'.endt - f.time + 2 * P.left + P.right ≤ P.maxDuration := by
  simp only [List.cons_append, IsChain] at hc
  obtain ⟨h1, h2⟩ := ChainOK_mid P toPe nCh h' l2 l1 _ hc
  have hb : buildCand P toPe nCh (f :: l1) = some (l1.foldl (fun c x => Cand.step P toPe nCh (some c) x) (Cand.step P toPe nCh none f)) := rfl
  obtain ⟨s1, _, s3, _⟩ := buildCand_spec P toPe nCh f l1 _ hb
  simp only [isFar, decide_eq_false_iff_not, s3] at h1
  simp only [tooLong, decide_eq_false_iff_not, s1] at h2
  refine ⟨by omega, ?_⟩
  simp only [Hit.endt]; omega

/-! ## review round: fragments after the re-summing of `split_peaks` -/

/-- what `sum_waveform` / `store_downsampled_waveform` make of the time span of a fragment of `_split_peaks` when the
peak buffer holds `nS` samples: unchanged if it fits, else down-sampled by `ceil(length / nS)` and floored -/
def Frag.resummed (nS : Nat) (r : Frag) : Frag :=
  if downsampleFactor r.length.toNat nS > 1 then
    { r with length := ((r.length.toNat / downsampleFactor r.length.toNat nS : Nat) : Int),
             dt := r.dt * (downsampleFactor r.length.toNat nS : Nat) }
  else r

/-- `Frag.resummed` is what `storeDownsampled` does to `(time, length, dt)` -/
theorem resummed_eq_store (r : Frag) (p : Peak) (buf : List Rat)
    (h1 : p.time = r.time) (h2 : p.length = r.length) (h3 : p.dt = r.dt) :
    (storeDownsampled p buf).time = (r.resummed p.data.length).time ∧
    (storeDownsampled p buf).length = (r.resummed p.data.length).length ∧
    (storeDownsampled p buf).dt = (r.resummed p.data.length).dt := by
  unfold storeDownsampled Frag.resummed
  simp only [h2]
  split <;> simp [h1, h2, h3]

/-- fragments in time order, none starting before the previous one ends (gaps allowed) -/
def Ordered : List Frag → Int → Prop
  | [], _ => True
  | f :: fs, a => a ≤ f.time ∧ Ordered fs f.endt

theorem Ordered_mono {fs : List Frag} {a a' : Int} (h : a' ≤ a) (hn : Ordered fs a) : Ordered fs a' := by
  cases fs with
  | nil => trivial
  | cons f fs => exact ⟨by have := hn.1; omega, hn.2⟩

theorem resummed_shrinks (nS : Nat) (r : Frag) (hdt : 0 < r.dt) :
    (r.resummed nS).time = r.time ∧ (r.resummed nS).endt ≤ r.endt := by
  unfold Frag.resummed
  split
  · rename_i hf
    refine ⟨rfl, ?_⟩
    simp only [Frag.endt]
    have hL : 0 < r.length.toNat := by
      false_or_by_contra
      have h0 : r.length.toNat = 0 := by omega
      rw [h0] at hf
      unfold downsampleFactor at hf
      have : (0 + nS - 1) / nS = 0 := by
        by_cases hz : nS = 0
        · simp [hz]
        · exact Nat.div_eq_of_lt (by omega)
      omega
    have h1 := Nat.div_mul_le_self r.length.toNat (downsampleFactor r.length.toNat nS)
    have h2 : ((r.length.toNat / downsampleFactor r.length.toNat nS : Nat) : Int) * ((downsampleFactor r.length.toNat nS : Nat) : Int) ≤ r.length := by
      have : ((r.length.toNat : Nat) : Int) = r.length := Int.toNat_of_nonneg (by omega)
      rw [← this]; exact_mod_cast h1
    have := Int.mul_le_mul_of_nonneg_left h2 (Int.le_of_lt hdt)
    have e : r.dt * ↑(downsampleFactor r.length.toNat nS) * ↑(r.length.toNat / downsampleFactor r.length.toNat nS)
        = r.dt * (↑(r.length.toNat / downsampleFactor r.length.toNat nS) * ↑(downsampleFactor r.length.toNat nS)) := by grind
    omega
  · exact ⟨rfl, Int.le_refl _⟩

theorem NoOverlap_resummed (nS : Nat) : ∀ (fs : List Frag) (a : Int), (∀ f ∈ fs, 0 < f.dt) → NoOverlap fs a →
    Ordered (fs.map (Frag.resummed nS)) a := by
  intro fs
  induction fs with
  | nil => intro a _ _; trivial
  | cons f fs ih =>
    intro a hdt hn
    obtain ⟨h1, h2⟩ := resummed_shrinks nS f (hdt f (by simp))
    simp only [List.map_cons, Ordered]
    refine ⟨by rw [h1]; exact hn.1, ?_⟩
    exact Ordered_mono h2 (ih f.endt (fun g hg => hdt g (by simp [hg])) hn.2.2)

/-- no fragment is shortened: it fits the buffer, or its down-sampling factor divides its length -/
def NoShortening (nS : Nat) (fs : List Frag) : Prop :=
  ∀ f ∈ fs, downsampleFactor f.length.toNat nS ∣ f.length.toNat

theorem Tiles_resummed (nS : Nat) : ∀ (fs : List Frag) (a b : Int), NoShortening nS fs → Tiles fs a b →
    Tiles (fs.map (Frag.resummed nS)) a b := by
  intro fs
  induction fs with
  | nil => intro a b _ h; exact h
  | cons f fs ih =>
    intro a b hns ht
    obtain ⟨t1, t2, t3⟩ := ht
    have hd := hns f (by simp)
    have key : (f.resummed nS).time = f.time ∧ 0 < (f.resummed nS).length ∧ (f.resummed nS).endt = f.endt := by
      unfold Frag.resummed
      split
      · rename_i hf
        obtain ⟨k, hk⟩ := hd
        have hLpos : 0 < f.length.toNat := by omega
        have hfpos : 0 < downsampleFactor f.length.toNat nS := by omega
        have hdiv : f.length.toNat / downsampleFactor f.length.toNat nS = k := by
          conv => lhs; lhs; rw [hk]
          exact Nat.mul_div_cancel_left k hfpos
        have hkpos : 0 < k := by
          false_or_by_contra
          have : k = 0 := by omega
          rw [this] at hk; omega
        refine ⟨rfl, by simp only [hdiv]; exact_mod_cast hkpos, ?_⟩
        simp only [Frag.endt, hdiv]
        have : ((f.length.toNat : Nat) : Int) = f.length := Int.toNat_of_nonneg (by omega)
        rw [← this, hk]; push_cast; grind
      · exact ⟨rfl, t2, rfl⟩
    simp only [List.map_cons, Tiles]
    refine ⟨by rw [key.1]; exact t1, key.2.1, ?_⟩
    rw [key.2.2]
    exact ih f.endt b (fun g hg => hns g (by simp [hg])) t3



/-! ## LocalMinimumSplitter: closing index -/

theorem lastSplit_append_close : ∀ (l : List Int) (p s : Int), s ≠ NO_MORE_SPLITS →
    lastSplit p (l ++ [s, NO_MORE_SPLITS]) = s := by
  intro l
  induction l with
  | nil => intro p s hs; simp [lastSplit, hs]
  | cons x l ih =>
    intro p s hs
    simp only [List.cons_append, lastSplit]
    split
    · exact ih p s hs
    · exact ih x s hs

theorem lmStep_found (mh mr : Rat) (st : LMState) (i : Nat) (x : Rat) :
    (st.foundOne = true → (lmStep mh mr st i x).1.foundOne = true) ∧
    (∀ k, (lmStep mh mr st i x).2 = some k → (lmStep mh mr st i x).1.foundOne = true) := by
  have hmin : (lmMin st i x).foundOne = st.foundOne := by unfold lmMin; split <;> rfl
  have hmax : ∀ s : LMState, (lmMax s i x).foundOne = s.foundOne := by intro s; unfold lmMax; split <;> rfl
  unfold lmStep
  simp only [hmax]
  unfold lmYield
  constructor
  · intro h; split
    · rfl
    · simp only [hmin]; exact h
  · intro k hk
    split
    · rfl
    · rename_i hc; simp [hc] at hk

theorem lmLoop_mono (mh mr : Rat) : ∀ (ys : List Rat) (j : Nat) (s : LMState), s.foundOne = true →
    (lmLoop mh mr ys j s).2 = true := by
  intro ys
  induction ys with
  | nil => intro j s hs; simpa [lmLoop] using hs
  | cons y ys ih => intro j s hs; simp only [lmLoop]; exact ih _ _ ((lmStep_found mh mr s j y).1 hs)

theorem lmLoop_found (mh mr : Rat) : ∀ (xs : List Rat) (i : Nat) (st : LMState),
    (lmLoop mh mr xs i st).2 = false → (lmLoop mh mr xs i st).1 = [] := by
  intro xs
  induction xs with
  | nil => intro i st _; rfl
  | cons x xs ih =>
    intro i st h
    simp only [lmLoop] at h ⊢
    have hrest := ih (i+1) (lmStep mh mr st i x).1 h
    cases hy : (lmStep mh mr st i x).2 with
    | none => simpa [hy] using hrest
    | some k =>
      have := lmLoop_mono mh mr xs (i+1) _ ((lmStep_found mh mr st i x).2 k hy)
      rw [this] at h; cases h

/-- what the local-minimum splitter yields ends with `len(w)` whenever it yields a split at all -/
theorem localMinimumYields_close (w : List Rat) (mh mr : Rat) :
    localMinimumYields w mh mr = [NO_MORE_SPLITS] ∨ lastSplit 0 (localMinimumYields w mh mr) = (w.length : Int) := by
  unfold localMinimumYields
  simp only []
  generalize hr : lmLoop mh mr w 0 { foundOne := false, lastMax := -lmBig, minSinceMax := lmBig, minSinceMaxI := 0 } = r
  obtain ⟨sp, found⟩ := r
  cases found with
  | false =>
    left
    have := lmLoop_found mh mr w 0 _ (by rw [hr])
    rw [hr] at this
    simp only [] at this
    subst this; rfl
  | true =>
    right
    simp only [if_true, List.append_assoc, List.cons_append, List.nil_append]
    exact lastSplit_append_close sp 0 _ (by unfold NO_MORE_SPLITS; omega)



/-! ## totality of find_peaks -/

theorem finishAll_total (P : FPParams) (nS : Nat) : ∀ (cs : List Cand),
    (∀ c ∈ cs, ∃ r, c.finish P nS = .ok r) → ∃ peaks, finishAll P nS cs = .ok peaks := by
  intro cs
  induction cs with
  | nil => intro _; exact ⟨[], rfl⟩
  | cons c cs ih =>
    intro h
    obtain ⟨r, hr⟩ := h c (by simp)
    obtain ⟨ps, hps⟩ := ih (fun x hx => h x (by simp [hx]))
    simp only [finishAll, hr, hps]
    cases r with
    | none => exact ⟨ps, rfl⟩
    | some p => exact ⟨p :: ps, rfl⟩

theorem finish_ok_of (P : FPParams) (toPe : List Rat) (nCh nS : Nat) (c : Cand) (d : Int)
    (hi : Inv P toPe nCh c) (hd : 0 < d) (hg : ∀ x ∈ c.members, x.dt = d ∧ 1 ≤ x.length)
    (hl : 0 ≤ P.left) (hr : 0 ≤ P.right) : ∃ r, c.finish P nS = .ok r := by
  unfold Inv at hi
  cases hm : c.members with
  | nil => rw [hm] at hi; simp [buildCand] at hi
  | cons f t =>
    rw [hm] at hi hg
    obtain ⟨s1, _, s3, _⟩ := buildCand_spec P toPe nCh f t c hi
    have hlast : c.lastDt = d := by
      simp only [buildCand, Option.some.injEq] at hi
      rw [← hi]
      exact fold_lastDt P toPe nCh d t _ (by simp [Cand.step, Cand.enter, Cand.add, (hg f (by simp)).1])
        (fun x hx => (hg x (by simp [hx])).1)
    have hfe : f.endt ≤ c.endt := by rw [s3]; exact le_maxEndt (f :: t) f (by simp)
    have hf := hg f (by simp)
    have hmul : d ≤ f.dt * f.length := by
      rw [hf.1]
      have := Int.mul_le_mul_of_nonneg_left hf.2 (Int.le_of_lt hd)
      simpa using this
    have hx : d ≤ c.endt - c.time + P.right := by
      simp only [Hit.endt] at hfe; omega
    have hq : 1 ≤ (c.endt - c.time + P.right).tdiv d := by
      rw [Int.tdiv_eq_ediv_of_nonneg (by omega)]
      have := Int.ediv_le_ediv hd hx
      rwa [Int.ediv_self (by omega)] at this
    unfold Cand.finish
    split
    · exact ⟨_, rfl⟩
    · split
      · exact ⟨_, rfl⟩
      · rw [hlast]
        have : ¬ d = 0 := by omega
        simp only [this, if_false]
        have : ¬ (c.endt - c.time + P.right).tdiv d ≤ 0 := by omega
        simp only [this, if_false]
        exact ⟨_, rfl⟩

/-- **totality**: `find_peaks` returns (no error) whenever its assertions hold, all hits have one positive `dt`
and at least one sample, and the extensions are non-negative -/
theorem findPeaks_total (P : FPParams) (toPe : List Rat) (nCh nS : Nat) (hits : List Hit) (d : Int)
    (ha : fpAsserts P toPe hits = true) (hd : 0 < d) (hg : ∀ x ∈ hits, x.dt = d ∧ 1 ≤ x.length)
    (hl : 0 ≤ P.left) (hr : 0 ≤ P.right) : ∃ peaks, findPeaks P toPe nCh nS hits = .ok peaks := by
  unfold findPeaks
  by_cases he : hits.isEmpty
  · simp only [he, if_true]; exact ⟨[], rfl⟩
  · simp only [he, if_false, ha, Bool.not_true, Bool.false_eq_true]
    have hne : hits ≠ [] := by simpa using he
    apply finishAll_total
    intro c hc
    have hfl := scanHits_flatten P toPe nCh hits none hne
    simp only [membersOf, List.nil_append] at hfl
    refine finish_ok_of P toPe nCh nS c d (scanHits_inv P toPe nCh hits none trivial c hc) hd ?_ hl hr
    intro x hx
    apply hg
    rw [← hfl]
    exact List.mem_flatten.mpr ⟨c.members, List.mem_map.mpr ⟨c, hc, rfl⟩, hx⟩


end Strax.Peaks
