import StraxModel.Model.Pulse
/-
  Lemmas about the hit finder of theory T14 (property C18): maximal runs, the Boolean interval scan `scanB`,
  the field invariant of `scanRec`, the running maximum / peak time, and the record loop.  Core Lean only.
-/
namespace Strax.Pulse

/-- `[l, r)` is a maximal run of `true` in `bs` -/
def IsMaxRun (bs : List Bool) (l r : Nat) : Prop :=
  l < r ∧ r ≤ bs.length ∧ (∀ j, l ≤ j → j < r → bs[j]? = some true) ∧
  (l = 0 ∨ bs[l - 1]? = some false) ∧ (r = bs.length ∨ bs[r]? = some false)

/-- number of leading `true`s -/
def lead : List Bool → Nat
  | true :: t => lead t + 1
  | _ => 0

/-- the interval logic of the sample loop on the flags `x >= threshold` -/
def scanB : List Bool → Nat → Option Nat → List (Nat × Nat)
  | [], _, _ => []
  | b :: rest, i, o =>
    let o := if o.isNone && b then some i else o
    match o with
    | none => scanB rest (i + 1) none
    | some s =>
      if !b then (s, i) :: scanB rest (i + 1) none
      else if rest.isEmpty then (s, i + 1) :: scanB rest (i + 1) none
      else scanB rest (i + 1) (some s)

theorem lead_le (bs : List Bool) : lead bs ≤ bs.length := by
  induction bs with
  | nil => simp [lead]
  | cons b t ih => cases b <;> simp [lead]; omega

theorem lead_true (bs : List Bool) : ∀ j, j < lead bs → bs[j]? = some true := by
  induction bs with
  | nil => simp [lead]
  | cons b t ih =>
    intro j hj
    cases b with
    | false => simp [lead] at hj
    | true =>
      cases j with
      | zero => simp
      | succ j => simp [lead] at hj; simpa using ih j hj

theorem lead_stop (bs : List Bool) : lead bs = bs.length ∨ bs[lead bs]? = some false := by
  induction bs with
  | nil => simp [lead]
  | cons b t ih =>
    cases b with
    | false => simp [lead]
    | true => simp [lead]; exact ih

theorem isMaxRun_zero (bs : List Bool) (r : Nat) : IsMaxRun bs 0 r ↔ 0 < r ∧ r = lead bs := by
  constructor
  · rintro ⟨h1, h2, h3, -, h5⟩
    refine ⟨h1, ?_⟩
    -- r ≤ lead: otherwise bs[lead] is true and false
    rcases Nat.lt_trichotomy r (lead bs) with h | h | h
    · have := lead_true bs r h
      rcases h5 with h5 | h5
      · have := lead_le bs; omega
      · simp_all
    · exact h
    · have := h3 (lead bs) (Nat.zero_le _) h
      rcases lead_stop bs with h6 | h6
      · omega
      · simp_all
  · rintro ⟨h1, rfl⟩
    exact ⟨h1, lead_le bs, fun j _ hj => lead_true bs j hj, Or.inl rfl, lead_stop bs⟩

theorem isMaxRun_cons_false (t : List Bool) (l r : Nat) :
    IsMaxRun (false :: t) l r ↔ ∃ l' r', l = l' + 1 ∧ r = r' + 1 ∧ IsMaxRun t l' r' := by
  constructor
  · rintro ⟨h1, h2, h3, h4, h5⟩
    cases l with
    | zero => have := h3 0 (Nat.le_refl _) h1; simp at this
    | succ l' =>
      cases r with
      | zero => omega
      | succ r' =>
        refine ⟨l', r', rfl, rfl, by omega, by simpa using h2, ?_, ?_, ?_⟩
        · intro j hj1 hj2
          have := h3 (j + 1) (by omega) (by omega)
          simpa using this
        · cases l' with
          | zero => exact Or.inl rfl
          | succ l'' => right; simpa using h4
        · rcases h5 with h5 | h5
          · left; simpa using h5
          · right; simpa using h5
  · rintro ⟨l', r', rfl, rfl, h1, h2, h3, h4, h5⟩
    refine ⟨by omega, by simpa using h2, ?_, ?_, ?_⟩
    · intro j hj1 hj2
      cases j with
      | zero => omega
      | succ j => simpa using h3 j (by omega) (by omega)
    · right
      cases l' with
      | zero => simp
      | succ l'' => rcases h4 with h4 | h4; omega; simpa using h4
    · rcases h5 with h5 | h5
      · left; simpa using h5
      · right; simpa using h5

theorem isMaxRun_cons_true_pos (t : List Bool) (l r : Nat) (hl : 0 < l) :
    IsMaxRun (true :: t) l r ↔ ∃ l' r', 0 < l' ∧ l = l' + 1 ∧ r = r' + 1 ∧ IsMaxRun t l' r' := by
  constructor
  · rintro ⟨h1, h2, h3, h4, h5⟩
    cases l with
    | zero => omega
    | succ l' =>
      cases r with
      | zero => omega
      | succ r' =>
        cases l' with
        | zero => simp at h4
        | succ l'' =>
          refine ⟨l'' + 1, r', by omega, rfl, rfl, by omega, by simpa using h2, ?_, ?_, ?_⟩
          · intro j hj1 hj2
            have := h3 (j + 1) (by omega) (by omega)
            simpa using this
          · right; simpa using h4
          · rcases h5 with h5 | h5
            · left; simpa using h5
            · right; simpa using h5
  · rintro ⟨l', r', hl', rfl, rfl, h1, h2, h3, h4, h5⟩
    refine ⟨by omega, by simpa using h2, ?_, ?_, ?_⟩
    · intro j hj1 hj2
      cases j with
      | zero => omega
      | succ j => simpa using h3 j (by omega) (by omega)
    · right
      cases l' with
      | zero => omega
      | succ l'' => rcases h4 with h4 | h4; omega; simpa using h4
    · rcases h5 with h5 | h5
      · left; simpa using h5
      · right; simpa using h5


theorem scanB_cons_true_none (t : List Bool) (i : Nat) :
    scanB (true :: t) i none = scanB (true :: t) i (some i) := by
  simp [scanB]

theorem mem_scanB (bs : List Bool) : ∀ (i : Nat) (p : Nat × Nat),
    (p ∈ scanB bs i none ↔ ∃ l r, p = (i + l, i + r) ∧ IsMaxRun bs l r) ∧
    (∀ s, p ∈ scanB bs i (some s) ↔
      (bs ≠ [] ∧ p = (s, i + lead bs)) ∨ (∃ l r, 0 < l ∧ p = (i + l, i + r) ∧ IsMaxRun bs l r)) := by
  induction bs with
  | nil =>
    intro i p
    simp only [scanB, List.not_mem_nil, IsMaxRun, List.length_nil, false_iff, not_exists, not_and, ne_eq,
      not_true_eq_false, false_and, false_or]
    refine ⟨?_, fun _ => ?_⟩
    · intro l r _ h1 h2; omega
    · intro l r _ _ h1 h2; omega
  | cons b t ih =>
    intro i p
    -- the `some` case first, the `none` case reduces to it
    have hsome : ∀ s, p ∈ scanB (b :: t) i (some s) ↔
        ((b :: t) ≠ [] ∧ p = (s, i + lead (b :: t))) ∨
          (∃ l r, 0 < l ∧ p = (i + l, i + r) ∧ IsMaxRun (b :: t) l r) := by
      intro s
      cases b with
      | false =>
        simp only [scanB, Option.isNone_some, Bool.false_and, Bool.false_eq_true, ↓reduceIte, Bool.not_false,
          List.mem_cons, lead, ne_eq, reduceCtorEq, not_false_eq_true, true_and, Nat.add_zero]
        rw [(ih (i + 1) p).1]
        constructor
        · rintro (h | ⟨l, r, rfl, h⟩)
          · exact Or.inl h
          · exact Or.inr ⟨l + 1, r + 1, by omega, by simp; omega, (isMaxRun_cons_false t _ _).2 ⟨l, r, rfl, rfl, h⟩⟩
        · rintro (h | ⟨l, r, hl, rfl, h⟩)
          · exact Or.inl h
          · obtain ⟨l', r', rfl, rfl, h'⟩ := (isMaxRun_cons_false t _ _).1 h
            exact Or.inr ⟨l', r', by simp; omega, h'⟩
      | true =>
        cases t with
        | nil =>
          simp only [scanB, Option.isNone_some, Bool.false_and, Bool.false_eq_true, ↓reduceIte, Bool.not_true,
            List.isEmpty_nil, List.mem_cons, List.not_mem_nil, or_false, lead, ne_eq, reduceCtorEq, not_false_eq_true, true_and]
          constructor
          · intro h; exact Or.inl (by simpa using h)
          · rintro (h | ⟨l, r, hl, rfl, h1, h2, -⟩)
            · simpa using h
            · simp at h2; omega
        | cons b' t' =>
          simp only [scanB, Option.isNone_some, Bool.false_and, Bool.false_eq_true, ↓reduceIte, Bool.not_true,
            List.isEmpty_cons, ne_eq, reduceCtorEq, not_false_eq_true, true_and]
          have := ((ih (i + 1) p).2 s)
          simp only [scanB, Option.isNone_some, Bool.false_and, Bool.false_eq_true, ↓reduceIte] at this
          rw [this]
          have hlead : lead (true :: b' :: t') = lead (b' :: t') + 1 := rfl
          constructor
          · rintro (⟨-, h⟩ | ⟨l, r, hl, rfl, h⟩)
            · left; rw [h, hlead]; simp; omega
            · right
              exact ⟨l + 1, r + 1, by omega, by simp; omega,
                (isMaxRun_cons_true_pos _ _ _ (by omega)).2 ⟨l, r, hl, rfl, rfl, h⟩⟩
          · rintro (h | ⟨l, r, hl, rfl, h⟩)
            · left; refine ⟨by simp, ?_⟩; rw [h, hlead]; simp; omega
            · obtain ⟨l', r', hl', rfl, rfl, h'⟩ := (isMaxRun_cons_true_pos _ _ _ hl).1 h
              right; exact ⟨l', r', hl', by simp; omega, h'⟩
    refine ⟨?_, hsome⟩
    cases b with
    | false =>
      simp only [scanB, Option.isNone_none, Bool.true_and, Bool.false_eq_true, ↓reduceIte]
      rw [(ih (i + 1) p).1]
      constructor
      · rintro ⟨l, r, rfl, h⟩
        exact ⟨l + 1, r + 1, by simp; omega, (isMaxRun_cons_false t _ _).2 ⟨l, r, rfl, rfl, h⟩⟩
      · rintro ⟨l, r, rfl, h⟩
        obtain ⟨l', r', rfl, rfl, h'⟩ := (isMaxRun_cons_false t _ _).1 h
        exact ⟨l', r', by simp; omega, h'⟩
    | true =>
      rw [scanB_cons_true_none, hsome i]
      constructor
      · rintro (⟨-, h⟩ | ⟨l, r, hl, rfl, h⟩)
        · exact ⟨0, lead (true :: t), by simpa using h, (isMaxRun_zero _ _).2 ⟨by simp [lead], rfl⟩⟩
        · exact ⟨l, r, rfl, h⟩
      · rintro ⟨l, r, rfl, h⟩
        cases l with
        | zero =>
          left
          obtain ⟨-, rfl⟩ := (isMaxRun_zero _ _).1 h
          simp
        | succ l' => right; exact ⟨l' + 1, r, by omega, rfl, h⟩


/-- every interval produced from position `i` on ends after `i` (or at `i` when it closes an open interval)
and, unless it is the open one, starts at or after `i` -/
theorem scanB_bounds (bs : List Bool) : ∀ (i : Nat) (o : Option Nat) (p : Nat × Nat), p ∈ scanB bs i o →
    (i ≤ p.1 ∧ p.1 < p.2) ∨ (o = some p.1 ∧ i ≤ p.2) := by
  induction bs with
  | nil => intro i o p h; simp [scanB] at h
  | cons b t ih =>
    intro i o p h
    cases b <;> cases o <;> simp only [scanB, Option.isNone_none, Option.isNone_some, Bool.true_and, Bool.false_and,
      Bool.false_eq_true, ↓reduceIte, Bool.not_false, Bool.not_true, List.mem_cons] at h
    · rcases ih (i + 1) none p h with h | h
      · left; omega
      · simp at h
    · rcases h with rfl | h
      · right; simp
      · rcases ih (i + 1) none p h with h | h
        · left; omega
        · simp at h
    · split at h
      · simp only [List.mem_cons] at h
        rcases h with rfl | h
        · left; simp
        · rcases ih (i + 1) none p h with h | h
          · left; omega
          · simp at h
      · rcases ih (i + 1) (some i) p h with h | h
        · left; omega
        · left; simp at h; omega
    · split at h
      · simp only [List.mem_cons] at h
        rcases h with rfl | h
        · right; simp
        · rcases ih (i + 1) none p h with h | h
          · left; omega
          · simp at h
      · rcases ih (i + 1) _ p h with h | h
        · left; omega
        · right; exact ⟨h.1, by omega⟩

theorem scanB_sorted (bs : List Bool) : ∀ (i : Nat) (o : Option Nat), (∀ s, o = some s → s < i) →
    (scanB bs i o).Pairwise (fun a b => a.2 < b.1) := by
  induction bs with
  | nil => intro i o _; simp [scanB]
  | cons b t ih =>
    intro i o ho
    have tail : ∀ (s e : Nat), e ≤ i → ((s, e) :: scanB t (i + 1) none).Pairwise (fun a b => a.2 < b.1) := by
      intro s e he
      refine List.pairwise_cons.2 ⟨?_, ih (i + 1) none (by simp)⟩
      intro q hq
      rcases scanB_bounds t (i + 1) none q hq with h | h
      · simp; omega
      · simp at h
    cases b <;> cases o <;> simp only [scanB, Option.isNone_none, Option.isNone_some, Bool.true_and, Bool.false_and,
      Bool.false_eq_true, ↓reduceIte, Bool.not_false, Bool.not_true]
    · exact ih (i + 1) none (by simp)
    · exact tail _ _ (Nat.le_refl _)
    · split
      · rename_i ht
        have : t = [] := by simpa using ht
        subst this; simp [scanB]
      · exact ih (i + 1) (some i) (by simp)
    · split
      · rename_i ht
        have : t = [] := by simpa using ht
        subst this; simp [scanB]
      · rename_i s _
        exact ih (i + 1) (some s) (by intro s' hs'; have := ho s' (by simpa using hs'); simp at hs'; omega)

/-- the intervals of the sample loop are those of `scanB` on the flags -/
theorem scanRec_intervals (r : Record) (ri : Nat) (thr : Q) (xs : List Int) : ∀ (i : Nat) (st : ScanSt),
    (scanRec r ri thr xs i st).1.map (fun h => (h.left, h.right)) = scanB (xs.map thr.leInt) i st.start := by
  induction xs with
  | nil => intro i st; simp [scanRec, scanB]
  | cons x rest ih =>
    intro i st
    obtain ⟨start, area, height, mt⟩ := st
    cases hx : thr.leInt x <;> cases start <;>
      simp [scanRec, scanB, hx, ih, mkHit]
    all_goals (split <;> simp_all)


/-! ### hit fields -/

/-- `xs[a:b]` -/
def slice (xs : List Int) (a b : Nat) : List Int := (xs.take b).drop a

@[simp] theorem slice_cons_succ (x : Int) (t : List Int) (a b : Nat) : slice (x :: t) (a + 1) (b + 1) = slice t a b := by
  simp [slice]

@[simp] theorem slice_cons_zero (x : Int) (t : List Int) (b : Nat) : slice (x :: t) 0 (b + 1) = x :: t.take b := by
  simp [slice]

/-- membership of a slice -/
theorem mem_slice {xs : List Int} {a b : Nat} {v : Int} (h : v ∈ slice xs a b) :
    ∃ j, a ≤ j ∧ j < b ∧ xs[j]? = some v := by
  unfold slice at h
  obtain ⟨i, hi⟩ := List.mem_iff_getElem?.1 h
  rw [List.getElem?_drop, List.getElem?_take] at hi
  split at hi
  · exact ⟨a + i, by omega, by assumption, hi⟩
  · simp at hi

/-- the joint update of `(height, max_time)` over consecutive samples starting at index `i` -/
def trackMT (r : Record) : List Int → Nat → Int × Int → Int × Int
  | [], _, hm => hm
  | x :: t, i, hm => trackMT r t (i + 1) (max x hm.1, if x > hm.1 then r.time + (i : Int) * r.dt else hm.2)

theorem scanRec_fields (r : Record) (ri : Nat) (thr : Q) (xs : List Int) : ∀ (i : Nat) (st : ScanSt),
    (st.start = none → st.area = 0 ∧ st.height = 0) →
    ∀ x ∈ (scanRec r ri thr xs i st).1,
      (∃ s, st.start = some s ∧ i ≤ x.right ∧
        x = mkHit r ri thr s x.right (st.area + (xs.take (x.right - i)).sum)
              (trackMT r (xs.take (x.right - i)) i (st.height, st.maxTime)).1
              (trackMT r (xs.take (x.right - i)) i (st.height, st.maxTime)).2)
      ∨ (∃ m0, i ≤ x.left ∧ x.left < x.right ∧
        x = mkHit r ri thr x.left x.right (slice xs (x.left - i) (x.right - i)).sum
              (trackMT r (slice xs (x.left - i) (x.right - i)) x.left (0, m0)).1
              (trackMT r (slice xs (x.left - i) (x.right - i)) x.left (0, m0)).2) := by
  induction xs with
  | nil => intro i st _ x hx; simp [scanRec] at hx
  | cons y rest ih =>
    intro i st hst x hx
    -- shifting a "fresh" hit found in the rest of the record
    have shift : ∀ st', (st'.start = none → st'.area = 0 ∧ st'.height = 0) → st'.start = none →
        x ∈ (scanRec r ri thr rest (i + 1) st').1 →
        (∃ m0, i ≤ x.left ∧ x.left < x.right ∧
          x = mkHit r ri thr x.left x.right (slice (y :: rest) (x.left - i) (x.right - i)).sum
              (trackMT r (slice (y :: rest) (x.left - i) (x.right - i)) x.left (0, m0)).1
              (trackMT r (slice (y :: rest) (x.left - i) (x.right - i)) x.left (0, m0)).2) := by
      intro st' h1 h2 h3
      rcases ih (i + 1) st' h1 x h3 with ⟨s, hs, -⟩ | ⟨m0, ha, hb, hc⟩
      · simp [h2] at hs
      · refine ⟨m0, by omega, hb, ?_⟩
        have e1 : x.left - i = (x.left - (i + 1)) + 1 := by omega
        have e2 : x.right - i = (x.right - (i + 1)) + 1 := by omega
        rw [e1, e2, slice_cons_succ]
        exact hc
    obtain ⟨start, area, height, mt⟩ := st
    cases hy : thr.leInt y <;> cases start
    · -- not in interval, below threshold
      simp only [scanRec, hy, Option.isNone_none, Bool.and_false, Bool.false_eq_true, ↓reduceIte] at hx
      exact Or.inr (shift _ hst rfl hx)
    · -- in interval, below threshold: the hit closes at `i`
      rename_i s
      simp only [scanRec, hy, Option.isNone_some, Bool.false_and, Bool.false_eq_true, ↓reduceIte, Bool.not_false,
        List.mem_cons] at hx
      rcases hx with rfl | hx
      · left
        refine ⟨s, rfl, by simp [mkHit], ?_⟩
        simp [mkHit, trackMT]
      · exact Or.inr (shift _ (by simp) rfl hx)
    · -- a hit starts here
      have h0 := hst rfl
      simp only at h0
      obtain ⟨rfl, rfl⟩ := h0
      simp only [scanRec, hy, Option.isNone_none, Bool.and_self, ↓reduceIte, Bool.not_true, Bool.false_eq_true] at hx
      split at hx
      · rename_i hrest
        have : rest = [] := by simpa using hrest
        subst this
        simp only [scanRec, List.mem_cons, List.not_mem_nil, or_false] at hx
        subst hx
        clear shift ih
        right
        refine ⟨mt, by simp [mkHit], by simp [mkHit], ?_⟩
        have hh : max y (max y 0) = max y 0 := by omega
        have hm : (if y > max y 0 then r.time + (i : Int) * r.dt else if y > 0 then r.time + (i : Int) * r.dt else mt)
            = (if y > 0 then r.time + (i : Int) * r.dt else mt) := by split <;> split <;> omega
        rw [hh, hm]
        simp [mkHit, trackMT]
      · rcases ih (i + 1) _ (by simp) x hx with ⟨s, hs, hle, hc⟩ | ⟨m0, ha, hb, hc⟩
        · right
          simp only [Option.some.injEq] at hs
          subst hs
          have hl : x.left = i := by rw [hc]; simp [mkHit]
          refine ⟨mt, by omega, by omega, ?_⟩
          have e2 : x.right - i = (x.right - (i + 1)) + 1 := by omega
          rw [hl, Nat.sub_self, e2, slice_cons_zero]
          rw [hc]
          simp only [mkHit, List.sum_cons, trackMT]
          have hh : max y (max y 0) = max y 0 := by omega
          have hm : (if y > max y 0 then r.time + (i : Int) * r.dt else if y > 0 then r.time + (i : Int) * r.dt else mt)
              = (if y > 0 then r.time + (i : Int) * r.dt else mt) := by split <;> split <;> omega
          rw [hh, hm]
          simp [Int.zero_add]
        · refine Or.inr ⟨m0, by omega, hb, ?_⟩
          have e1 : x.left - i = (x.left - (i + 1)) + 1 := by omega
          have e2 : x.right - i = (x.right - (i + 1)) + 1 := by omega
          rw [e1, e2, slice_cons_succ]
          exact hc
    · -- inside a hit
      rename_i s
      simp only [scanRec, hy, Option.isNone_some, Bool.false_and, Bool.false_eq_true, ↓reduceIte, Bool.not_true] at hx
      split at hx
      · rename_i hrest
        have : rest = [] := by simpa using hrest
        subst this
        simp only [scanRec, List.mem_cons, List.not_mem_nil, or_false] at hx
        subst hx
        left
        refine ⟨s, rfl, by simp [mkHit], ?_⟩
        simp [mkHit, trackMT]
      · rcases ih (i + 1) _ (by simp) x hx with ⟨s', hs, hle, hc⟩ | ⟨m0, ha, hb, hc⟩
        · left
          simp only [Option.some.injEq] at hs
          subst hs
          refine ⟨_, rfl, by omega, ?_⟩
          have e2 : x.right - i = (x.right - (i + 1)) + 1 := by omega
          rw [e2, List.take_succ_cons, List.sum_cons, trackMT]
          rw [hc]
          simp [mkHit, Int.add_assoc]
        · refine Or.inr ⟨m0, by omega, hb, ?_⟩
          have e1 : x.left - i = (x.left - (i + 1)) + 1 := by omega
          have e2 : x.right - i = (x.right - (i + 1)) + 1 := by omega
          rw [e1, e2, slice_cons_succ]
          exact hc


/-- running maximum starting from `h` -/
def maxFrom (h : Int) (xs : List Int) : Int := xs.foldl max h

@[simp] theorem maxFrom_nil (h : Int) : maxFrom h [] = h := rfl
@[simp] theorem maxFrom_cons (h x : Int) (t : List Int) : maxFrom h (x :: t) = maxFrom (max h x) t := rfl

theorem maxFrom_ge (xs : List Int) : ∀ h, h ≤ maxFrom h xs ∧ ∀ v ∈ xs, v ≤ maxFrom h xs := by
  induction xs with
  | nil => intro h; simp
  | cons x t ih =>
    intro h
    have := ih (max h x)
    refine ⟨by simp; omega, ?_⟩
    intro v hv
    simp only [List.mem_cons] at hv
    rcases hv with rfl | hv
    · simp; omega
    · simpa using this.2 v hv

theorem maxFrom_mem (xs : List Int) : ∀ h, maxFrom h xs = h ∨ maxFrom h xs ∈ xs := by
  induction xs with
  | nil => intro h; simp
  | cons x t ih =>
    intro h
    rcases ih (max h x) with h1 | h1
    · simp only [maxFrom_cons, List.mem_cons]
      rw [h1]
      by_cases hx : h ≤ x
      · right; left; omega
      · left; omega
    · right; simp only [maxFrom_cons, List.mem_cons]; exact Or.inr h1

/-- `trackMT` computes the running maximum and the time of its first occurrence (if it exceeds the start value) -/
theorem trackMT_spec (r : Record) (xs : List Int) : ∀ (i : Nat) (h m : Int),
    trackMT r xs i (h, m) =
      (maxFrom h xs,
       if maxFrom h xs > h then r.time + ((i + xs.idxOf (maxFrom h xs) : Nat) : Int) * r.dt else m) := by
  induction xs with
  | nil => intro i h m; simp [trackMT]
  | cons x t ih =>
    intro i h m
    simp only [trackMT, ih, maxFrom_cons]
    have hmx : max x h = max h x := by omega
    rw [hmx]
    have hge := (maxFrom_ge t (max h x)).1
    refine Prod.ext rfl ?_
    simp only
    by_cases h1 : maxFrom (max h x) t > max h x
    · have hne : ¬ x = maxFrom (max h x) t := by omega
      have h2 : maxFrom (max h x) t > h := by omega
      simp only [h1, h2, ↓reduceIte, List.idxOf_cons]
      have : (x == maxFrom (max h x) t) = false := by simpa using hne
      simp only [this, cond_false]
      congr 2
      omega
    · have heq : maxFrom (max h x) t = max h x := by omega
      simp only [h1, ↓reduceIte]
      by_cases h3 : x > h
      · have h4 : maxFrom (max h x) t = x := by omega
        simp only [h3, ↓reduceIte, h4, List.idxOf_cons, BEq.rfl, cond_true, Nat.add_zero]
      · have h4 : ¬ maxFrom (max h x) t > h := by omega
        simp only [h3, ↓reduceIte, h4]


/-! ### the record loop -/

/-- the flags `x >= threshold` of the in-record samples -/
def satFlags (thr : Q) (r : Record) : List Bool := r.samples.map thr.leInt

theorem recHits_ok {a h : List Q} {r : Record} {ri : Nat} {mt : Int} {out : List Hit × Int}
    (e : recHits a h r ri mt = .ok out) :
    ∃ thr, threshold a h r = .ok thr ∧ r.length ≤ r.data.length ∧
      out = scanRec r ri thr r.samples 0 ⟨none, 0, 0, mt⟩ := by
  unfold recHits at e
  split at e
  · simp at e
  · rename_i thr hthr
    split at e
    · simp at e
    · refine ⟨thr, hthr, by omega, ?_⟩
      simpa using e.symm

/-- what a fresh scan of one record produces: intervals, order, record index -/
theorem scanRec_fresh (r : Record) (ri : Nat) (thr : Q) (mt : Int) :
    let hs := (scanRec r ri thr r.samples 0 ⟨none, 0, 0, mt⟩).1
    (∀ l rr, (∃ x ∈ hs, x.left = l ∧ x.right = rr) ↔ IsMaxRun (satFlags thr r) l rr) ∧
    hs.Pairwise (fun x y => x.right < y.left) ∧ (∀ x ∈ hs, x.recordI = ri) := by
  intro hs
  have hmap := scanRec_intervals r ri thr r.samples 0 ⟨none, 0, 0, mt⟩
  refine ⟨?_, ?_, ?_⟩
  · intro l rr
    have := (mem_scanB (satFlags thr r) 0 (l, rr)).1
    simp only [Nat.zero_add, Prod.mk.injEq] at this
    have h2 : (l, rr) ∈ scanB (satFlags thr r) 0 none ↔ IsMaxRun (satFlags thr r) l rr := by
      rw [this]
      constructor
      · rintro ⟨l', r', ⟨rfl, rfl⟩, h⟩; exact h
      · intro h; exact ⟨l, rr, ⟨rfl, rfl⟩, h⟩
    rw [← h2]
    unfold satFlags
    rw [← hmap]
    simp only [List.mem_map, Prod.mk.injEq]
    constructor
    · rintro ⟨x, hx, rfl, rfl⟩; exact ⟨x, hx, rfl, rfl⟩
    · rintro ⟨x, hx, h1, h2⟩; exact ⟨x, hx, h1, h2⟩
  · have := scanB_sorted (r.samples.map thr.leInt) 0 none (by simp)
    rw [← hmap] at this
    exact (List.pairwise_map.1 this)
  · intro x hx
    rcases scanRec_fields r ri thr r.samples 0 ⟨none, 0, 0, mt⟩ (by simp) x hx with ⟨s, hs', -⟩ | ⟨m0, -, -, hc⟩
    · simp at hs'
    · rw [hc]; simp [mkHit]

theorem findHitsLoop_spec (a h : List Q) : ∀ (rs : List Record) (ri : Nat) (mt : Int) (hits : List Hit),
    findHitsLoop a h rs ri mt = .ok hits →
    (∀ k l rr, (∃ x ∈ hits, x.recordI = k ∧ x.left = l ∧ x.right = rr) ↔
        ∃ j rec thr, k = ri + j ∧ rs[j]? = some rec ∧ threshold a h rec = .ok thr ∧ IsMaxRun (satFlags thr rec) l rr) ∧
    hits.Pairwise (fun x y => x.recordI < y.recordI ∨ (x.recordI = y.recordI ∧ x.right < y.left)) ∧
    (∀ x ∈ hits, ri ≤ x.recordI) ∧
    (∀ x ∈ hits, ∃ j rec thr mt0, x.recordI = ri + j ∧ rs[j]? = some rec ∧ threshold a h rec = .ok thr ∧
        rec.length ≤ rec.data.length ∧ x ∈ (scanRec rec (ri + j) thr rec.samples 0 ⟨none, 0, 0, mt0⟩).1) := by
  intro rs
  induction rs with
  | nil =>
    intro ri mt hits e
    simp only [findHitsLoop, Except.ok.injEq] at e
    subst e
    simp
  | cons r rs ih =>
    intro ri mt hits e
    simp only [findHitsLoop] at e
    split at e
    · simp at e
    · rename_i hs mt' hrec
      split at e
      · simp at e
      · rename_i more hmore
        simp only [Except.ok.injEq] at e
        subst e
        obtain ⟨thr, hthr, hlen, hout⟩ := recHits_ok hrec
        have hhs : hs = (scanRec r ri thr r.samples 0 ⟨none, 0, 0, mt⟩).1 := by rw [← hout]
        obtain ⟨f1, f2, f3⟩ := scanRec_fresh r ri thr mt
        rw [← hhs] at f1 f2 f3
        obtain ⟨i1, i2, i3, i4⟩ := ih (ri + 1) mt' more hmore
        refine ⟨?_, ?_, ?_, ?_⟩
        · intro k l rr
          constructor
          · rintro ⟨x, hx, rfl, rfl, rfl⟩
            rcases List.mem_append.1 hx with hx | hx
            · exact ⟨0, r, thr, by rw [f3 x hx]; rfl, rfl, hthr, (f1 _ _).1 ⟨x, hx, rfl, rfl⟩⟩
            · obtain ⟨j, rec, thr', hk, hj, ht, hm⟩ := (i1 _ _ _).1 ⟨x, hx, rfl, rfl, rfl⟩
              exact ⟨j + 1, rec, thr', by omega, by simpa using hj, ht, hm⟩
          · rintro ⟨j, rec, thr', rfl, hj, ht, hm⟩
            cases j with
            | zero =>
              simp only [List.getElem?_cons_zero, Option.some.injEq] at hj
              subst hj
              rw [hthr] at ht
              simp only [Except.ok.injEq] at ht
              subst ht
              obtain ⟨x, hx, h1, h2⟩ := (f1 _ _).2 hm
              exact ⟨x, List.mem_append_left _ hx, by rw [f3 x hx]; rfl, h1, h2⟩
            | succ j =>
              obtain ⟨x, hx, h0, h1, h2⟩ := (i1 (ri + 1 + j) l rr).2 ⟨j, rec, thr', rfl, by simpa using hj, ht, hm⟩
              exact ⟨x, List.mem_append_right _ hx, by omega, h1, h2⟩
        · refine List.pairwise_append.2 ⟨?_, i2, ?_⟩
          · refine List.Pairwise.imp_of_mem ?_ f2
            intro x y hx hy hxy
            right; exact ⟨by rw [f3 x hx, f3 y hy], hxy⟩
          · intro x hx y hy
            left; have := i3 y hy; rw [f3 x hx]; omega
        · intro x hx
          rcases List.mem_append.1 hx with hx | hx
          · rw [f3 x hx]; exact Nat.le_refl _
          · have := i3 x hx; omega
        · intro x hx
          rcases List.mem_append.1 hx with hx | hx
          · exact ⟨0, r, thr, mt, by rw [f3 x hx]; rfl, rfl, hthr, hlen, by rw [Nat.add_zero, ← hhs]; exact hx⟩
          · obtain ⟨j, rec, thr', mt0, h0, hj, ht, hl, hm⟩ := i4 x hx
            refine ⟨j + 1, rec, thr', mt0, by omega, by simpa using hj, ht, hl, ?_⟩
            have : ri + (j + 1) = ri + 1 + j := by omega
            rw [this]; exact hm


/-! ### `find_hits` as a whole -/

/-- the threshold `find_hits` applies to record `rec` of the array `records` -/
def thresholdOf (records : List Record) (amp hon : ThrArg) (rec : Record) : Except Err Q :=
  match resolveThr records amp hon with
  | .ok (a, h) => threshold a h rec
  | .error e => .error e

theorem findHits_ok {records : List Record} {amp hon : ThrArg} {hits : List Hit}
    (e : findHits records amp hon = .ok hits) :
    (records = [] ∧ hits = []) ∨
    ∃ a h, resolveThr records amp hon = .ok (a, h) ∧ findHitsLoop a h records 0 0 = .ok hits := by
  unfold findHits at e
  split at e
  · left
    simp only [Except.ok.injEq] at e
    exact ⟨by simpa using ‹records.isEmpty = true›, e.symm⟩
  · split at e
    · simp at e
    · rename_i a h hres
      exact Or.inr ⟨a, h, hres, e⟩

theorem satFlags_length (thr : Q) (r : Record) (h : r.length ≤ r.data.length) : (satFlags thr r).length = r.length := by
  simp [satFlags, Record.samples, List.length_take]; omega

/-- Intervals and order of everything `find_hits` returns. -/
theorem findHits_intervals {records : List Record} {amp hon : ThrArg} {hits : List Hit}
    (e : findHits records amp hon = .ok hits) :
    (∀ k l rr, (∃ x ∈ hits, x.recordI = k ∧ x.left = l ∧ x.right = rr) ↔
        ∃ rec thr, records[k]? = some rec ∧ thresholdOf records amp hon rec = .ok thr ∧ IsMaxRun (satFlags thr rec) l rr) ∧
    hits.Pairwise (fun x y => x.recordI < y.recordI ∨ (x.recordI = y.recordI ∧ x.right < y.left)) := by
  rcases findHits_ok e with ⟨rfl, rfl⟩ | ⟨a, h, hres, hloop⟩
  · simp
  · obtain ⟨s1, s2, -, -⟩ := findHitsLoop_spec a h records 0 0 hits hloop
    refine ⟨?_, s2⟩
    intro k l rr
    rw [s1 k l rr]
    constructor
    · rintro ⟨j, rec, thr, rfl, hj, ht, hm⟩
      exact ⟨rec, thr, by simpa using hj, by simp [thresholdOf, hres, ht], hm⟩
    · rintro ⟨rec, thr, hj, ht, hm⟩
      refine ⟨k, rec, thr, by simp, hj, ?_, hm⟩
      simpa [thresholdOf, hres] using ht

/-- Fields of every hit `find_hits` returns, in terms of the record it was found in. -/
theorem findHits_fields {records : List Record} {amp hon : ThrArg} {hits : List Hit}
    (e : findHits records amp hon = .ok hits) (x : Hit) (hx : x ∈ hits) :
    ∃ rec thr m0, records[x.recordI]? = some rec ∧ thresholdOf records amp hon rec = .ok thr ∧
      rec.length ≤ rec.data.length ∧ x.left < x.right ∧
      x = mkHit rec x.recordI thr x.left x.right (slice rec.samples x.left x.right).sum
            (trackMT rec (slice rec.samples x.left x.right) x.left (0, m0)).1
            (trackMT rec (slice rec.samples x.left x.right) x.left (0, m0)).2 := by
  rcases findHits_ok e with ⟨rfl, rfl⟩ | ⟨a, h, hres, hloop⟩
  · simp at hx
  · obtain ⟨-, -, -, s4⟩ := findHitsLoop_spec a h records 0 0 hits hloop
    obtain ⟨j, rec, thr, mt0, hri, hj, ht, hlen, hmem⟩ := s4 x hx
    simp only [Nat.zero_add] at hri hmem
    rcases scanRec_fields rec j thr rec.samples 0 ⟨none, 0, 0, mt0⟩ (by simp) x hmem with ⟨s, hs, -⟩ | ⟨m0, -, hlt, hc⟩
    · simp at hs
    · refine ⟨rec, thr, m0, by rw [hri]; exact hj, by simp [thresholdOf, hres, ht], hlen, hlt, ?_⟩
      rw [hri]
      simpa using hc

end Strax.Pulse
