import StraxModel.Lemmas.PipelineTotal
import StraxModel.Lemmas.ChunkAlgRechunk
import StraxModel.Model.Align
import StraxModel.Model.Overlap
/-
  Helper lemmas for property C01, part 5: the bridge from the stream theory to the layer models of
  the other properties.
    * C07: the rechunker (`rechunkAll`, as wrapped around every saver) IS a transport on plain
      streams — proved here from `Strax.rechunk_aux`;
    * C08: `Plugin.iter` (`Align.iterRun`) as an aligner — the function is defined here, its
      `Aligner.spec` is the layer theorem C08 still owes in full (see `aligner_of_iter_partial`);
    * C09: the overlap-window state machine (`Overlap.runOverlap`) as a kernel;
    * the law predicates of the other layers imply the one used here.
  Core Lean only.
-/
namespace Strax.Pipeline
open Strax

/-! ### the laws of chunking of the other layers -/

/-- a C07-good chunk is a lawful chunk here -/
theorem chunkOK_of_good {c : Chunk} (hg : c.good = true) : chunkOKB c = true := by
  have hg' := hg
  simp only [Chunk.good, Bool.and_eq_true] at hg'
  obtain ⟨-, hse, hs, hpos, hin⟩ := (Chunk.wf_iff c).1 hg'.1
  exact (chunkOKB_iff c).2 ⟨hse, fun r hr => ⟨(hin r hr).1, hpos r hr, (hin r hr).2⟩, hs⟩

/-- C07's stream predicate (`Strax.LawAbiding`: good chunks, adjacent, one data type and run) implies
the laws of chunking used here -/
theorem lawAbiding_of_c07 : ∀ {s : List Chunk}, Strax.LawAbiding s = true → LawAbiding s
  | [], _ => lawAbiding_nil
  | [c], h => (lawAbiding_single c).2 (chunkOK_of_good (by simpa [Strax.LawAbiding] using h))
  | a :: b :: rest, h => by
    rw [Strax.lawAbiding_cons] at h
    obtain ⟨hg, hlink, hrest⟩ := h
    exact (lawAbiding_cons_cons a b rest).2 ⟨chunkOK_of_good hg, (hlink b (by simp)).1, lawAbiding_of_c07 hrest⟩

/-- the law predicate of the alignment layer (C08, `Align.lawAbidingB`: non-negative start, global
sortedness) implies the one used here -/
theorem lawAbiding_of_align {s : List Chunk} (h : Align.lawAbidingB s = true) : LawAbiding s := by
  unfold LawAbiding
  rw [lawAbiding_iff_global]
  simp only [Align.lawAbidingB, Bool.and_eq_true, List.all_eq_true] at h
  obtain ⟨⟨h1, h2⟩, h3⟩ := h
  simp only [lawAbidingGlobalB, Bool.and_eq_true, List.all_eq_true, decide_eq_true_eq]
  refine ⟨⟨?_, ?_⟩, ?_⟩
  · intro c hc
    have := h1 c hc
    simp only [Align.chunkOKB, Bool.and_eq_true, decide_eq_true_eq, List.all_eq_true] at this
    refine ⟨this.1.2, ?_⟩
    intro r hr
    have := this.2 r hr
    simp only [rowInB, Bool.and_eq_true, decide_eq_true_eq]
    exact this
  · clear h1 h3
    induction s with
    | nil => rfl
    | cons a t ih =>
      cases t with
      | nil => rfl
      | cons b rest =>
        simp only [Align.adjacentB, Bool.and_eq_true, decide_eq_true_eq] at h2
        simp only [adjacentB, Bool.and_eq_true, decide_eq_true_eq]
        exact ⟨h2.1, ih h2.2⟩
  · simpa [rows] using h3

/-! ### C07: the rechunker is a transport on plain streams -/

theorem lastStop_eq_getLast (d : Int) (s : List Chunk) :
    lastStop d s = ((s.getLast?).map (·.stop)).getD d := by
  induction s generalizing d with
  | nil => rfl
  | cons c rest ih =>
    simp only [lastStop]
    rw [ih]
    cases rest with
    | nil => simp
    | cons x xs =>
      rw [List.getLast?_cons_cons]
      cases h : (x :: xs).getLast? with
      | none => simp at h
      | some y => simp

theorem span_eq_of_ends {s t : List Chunk} (h1 : s.head?.map (·.start) = t.head?.map (·.start))
    (h2 : s.getLast?.map (·.stop) = t.getLast?.map (·.stop)) : span s = span t := by
  cases s with
  | nil =>
    cases t with
    | nil => rfl
    | cons b t => simp at h1
  | cons a s =>
    cases t with
    | nil => simp at h1
    | cons b t =>
      simp only [List.head?_cons, Option.map_some, Option.some.injEq] at h1
      simp only [span, h1, Option.some.injEq, Prod.mk.injEq, true_and]
      have e1 := lastStop_eq_getLast a.start (a :: s)
      have e2 := lastStop_eq_getLast b.start (b :: t)
      simp only [lastStop] at e1 e2
      rw [e1, e2, h2]
      -- both defaults are irrelevant: the lists are non-empty
      cases hb : (b :: t).getLast? with
      | none => simp at hb
      | some x => simp

/-- the domain of C07's stream theorem: a plain stream of one run and data type, targets ≥ 1 row -/
def plainStreamB (s : List Chunk) : Bool := Strax.LawAbiding s && s.all fun c => decide (1 ≤ c.target)

/-- `Rechunker(rechunk=True)` fed a whole stream and flushed, on the streams C07 speaks about -/
def rechunkRun (s : List Chunk) : Except Err (List Chunk) :=
  if plainStreamB s then rechunkAll (-1) ⟨true, false, none⟩ s else .error .other

/-- **rechunk-on-save is a transport** (C07 `rechunk_stream_partial` / `rechunk_aux`) -/
def Transport.rechunk : Transport :=
  Transport.ofSpec rechunkRun (by
    intro inp out _ h
    unfold rechunkRun at h
    split at h
    · rename_i hp
      simp only [plainStreamB, Bool.and_eq_true, List.all_eq_true, decide_eq_true_eq] at hp
      obtain ⟨out', r1, r2, r3, r4, r5⟩ := rechunk_aux inp none (by simpa using hp.1) (by simpa using hp.2)
      rw [h] at r1
      cases r1
      simp only [Option.toList_none, List.nil_append] at r3 r4 r5
      refine ⟨by simpa [rows] using r3, lawAbiding_of_c07 r2, ?_⟩
      apply span_eq_of_ends _ r5
      have := congrArg (Option.map (fun k : Int × String × Option String => k.1)) r4
      simpa [Option.map_map, Function.comp_def, chunkKey] using this
    · cases h)

theorem Transport.rechunk_total_on_plain (s : List Chunk) (h : plainStreamB s = true) :
    ∃ out, Transport.rechunk.run s = .ok out := by
  have hp := h
  simp only [plainStreamB, Bool.and_eq_true, List.all_eq_true, decide_eq_true_eq] at hp
  obtain ⟨out, r1, -⟩ := rechunk_aux s none (by simpa using hp.1) (by simpa using hp.2)
  exact ⟨out, by simp [Transport.rechunk, Transport.ofSpec, rechunkRun, h, r1]⟩

/-! ### C08: `Plugin.iter` as an aligner -/

/-- the chunk `Plugin.iter` hands to `compute` for dependency `i` in call `c`: `Chunk.split` / `concatenate` keep
data type, kind, run id and target size of the dependency's chunks and rebuild the default super-run entry -/
def callChunk (deps : List Align.Dep) (rid : String) (tgts : List Nat) (i : Nat) (c : Align.Call) : Chunk :=
  { dataType := ((deps[i]?).map (·.name)).getD "", kind := ((deps[i]?).map (·.kind)).getD "",
    runId := some rid, start := c.start, stop := c.stop, rows := c.rowsOf i,
    subruns := none, superrun := [⟨rid, c.start, c.stop⟩], target := (tgts[i]?).getD 1 }

/-- the aligned partition `Plugin.iter` hands to `compute`: per dependency one chunk per call -/
def streamsOfCalls (deps : List Align.Dep) (rid : String) (tgts : List Nat) (calls : List Align.Call) :
    List (List Chunk) :=
  (List.range deps.length).map fun i => calls.map (callChunk deps rid tgts i)

/-- run id and target sizes of the inputs -/
def ridOf (ins : List (List Chunk)) : String :=
  match ins with
  | (c :: _) :: _ => (c.runId).getD "0"
  | _ => "0"

def targetsOf (ins : List (List Chunk)) : List Nat :=
  ins.map fun s => match s with
    | c :: _ => c.target
    | [] => 1

def iterAligner (deps : List Align.Dep) (strict : Bool) (ins : List (List Chunk)) : Except Err (List (List Chunk)) :=
  match Align.iterRun deps ins strict with
  | .error e => .error e
  | .ok r => .ok (streamsOfCalls deps (ridOf ins) (targetsOf ins) r.calls)

/-! ### C09: the overlap-window state machine as a kernel -/

def overlapKernel (f : List Row → List Row) (w : Int × Int) : Kernel :=
  streamKernel (Overlap.runOverlap f w) f

end Strax.Pipeline
