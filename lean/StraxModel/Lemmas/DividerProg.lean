import StraxModel.Lemmas.Divider
/-
  `divide_outputs` inside the property's domain: what has been pushed into every output (`DProgInv`) and exact
  delivery of every component at termination (`divide_delivery_core`).
-/
namespace Strax.Mailbox
open Strax

/-! ### the divider inside the property's domain: what has been pushed into every output -/

/-- component `k` of every dict, in order -/
def compOf (k : Nat) : List DItem → List Msg
  | [] => []
  | .item msgs :: r => (msgs[k]?).toList ++ compOf k r
  | .raise :: r => compOf k r

/-- `_send_from` / `divide_outputs` numbering: consecutive numbers from `p` -/
def numberFrom : Nat → List Msg → List (Nat × Msg)
  | _, [] => []
  | p, m :: r => (p, m) :: numberFrom (p + 1) r

def DItem.ok (n : Nat) : DItem → Bool
  | .item msgs => msgs.length == n && !msgs.contains .stop
  | .raise => false

/-- decidable: every dict has one component per output and none is the end marker, the source does not raise,
nobody calls `kill`, there is at least one output -/
def DConfig.valid (c : DConfig) : Bool :=
  c.prog.all (DItem.ok c.outs.length) && c.killers.isEmpty && !c.outs.isEmpty

theorem numberFrom_append (p : Nat) (l : List Msg) (m : Msg) :
    numberFrom p (l ++ [m]) = numberFrom p l ++ [(p + l.length, m)] := by
  induction l generalizing p with
  | nil => simp [numberFrom]
  | cons a r ih =>
    simp only [List.cons_append, numberFrom, ih, List.length_cons]
    have : p + 1 + r.length = p + (r.length + 1) := by omega
    rw [this]

theorem numberFrom_length (p : Nat) (l : List Msg) : (numberFrom p l).length = l.length := by
  induction l generalizing p with
  | nil => rfl
  | cons a r ih => simp [numberFrom, ih]

theorem numberFrom_fst (p : Nat) (l : List Msg) : (numberFrom p l).map (·.1) = List.range' p l.length := by
  induction l generalizing p with
  | nil => rfl
  | cons a r ih => simp [numberFrom, ih, List.range'_succ]

theorem numberFrom_snd (p : Nat) (l : List Msg) : ∀ e ∈ numberFrom p l, e.2 ∈ l := by
  induction l generalizing p with
  | nil => intro e he; cases he
  | cons a r ih =>
    intro e he
    simp only [numberFrom, List.mem_cons] at he
    rcases he with rfl | he
    · simp
    · exact List.mem_cons_of_mem _ (ih _ e he)

theorem compOf_append (k : Nat) (a b : List DItem) : compOf k (a ++ b) = compOf k a ++ compOf k b := by
  induction a with
  | nil => rfl
  | cons x r ih => cases x <;> simp [compOf, ih]

theorem compOf_take_succ (k : Nat) (P : List DItem) (i : Nat) (msgs : List Msg) (m : Msg)
    (hi : P[i]? = some (.item msgs)) (hm : msgs[k]? = some m) :
    compOf k (P.take (i + 1)) = compOf k (P.take i) ++ [m] := by
  rw [List.take_add_one, hi, compOf_append]
  simp [compOf, hm]

theorem compOf_no_stop (k n : Nat) (P : List DItem) (h : P.all (DItem.ok n) = true) : Msg.stop ∉ compOf k P := by
  induction P with
  | nil => simp [compOf]
  | cons x r ih =>
    simp only [List.all_cons, Bool.and_eq_true] at h
    cases x with
    | raise => simp [DItem.ok] at h
    | item msgs =>
      simp only [compOf, List.mem_append, not_or]
      refine ⟨?_, ih h.2⟩
      intro hmem
      cases hg : msgs[k]? with
      | none => simp [hg] at hmem
      | some m =>
        simp [hg] at hmem; subst hmem
        have : Msg.stop ∈ msgs := List.mem_of_getElem? hg
        simp [DItem.ok] at h
        exact h.1.2 this


/-- how many dicts have had their component `k` pushed, by where the divider is -/
def sentCount (c : DConfig) (s : DSys) (k : Nat) : Nat :=
  match s.dpc with
  | .gate _ => s.i
  | .fetch => s.i
  | .send j _ => if k < j then s.i + 1 else s.i
  | .close _ => c.prog.length
  | .done => c.prog.length
  | .exc _ _ => 0
  | .dead _ => 0

/-- has output `k` been closed (end marker pushed)? -/
def stopSent (s : DSys) (k : Nat) : Bool :=
  match s.dpc with
  | .close j => decide (k < j)
  | .done => true
  | _ => false

def expectedSent (c : DConfig) (s : DSys) (k : Nat) : List (Nat × Msg) :=
  numberFrom 0 (compOf k (c.prog.take (sentCount c s k))) ++
    (if stopSent s k then [((compOf k c.prog).length, Msg.stop)] else [])

structure OutProg (c : DConfig) (s : DSys) (k : Nat) (o : Out) : Prop where
  killed : o.mb.killed = false
  fkilled : o.mb.forceKilled = false
  nsent : o.mb.nSent = o.sent.length
  sentEq : o.sent = expectedSent c s k
  open_ : stopSent s k = false → o.mb.closed = false
  noDead : ∀ r ∈ o.readers, ∀ e, r.pc ≠ .dead e

def dpos (c : DConfig) (s : DSys) : Prop :=
  match s.dpc with
  | .gate _ => s.prog = c.prog.drop s.i
  | .fetch => s.prog = c.prog.drop s.i
  | .send _ msgs => c.prog[s.i]? = some (.item msgs) ∧ s.prog = c.prog.drop (s.i + 1)
  | .close _ => s.prog = []
  | .done => True
  | .exc _ _ => False
  | .dead _ => False

structure DProgInv (c : DConfig) (s : DSys) : Prop where
  noKill : s.killers = []
  nOuts : s.outs.length = c.outs.length
  out : ∀ (k : Nat) (o : Out), s.outs[k]? = some o → OutProg c s k o
  pos : dpos c s

def DPc.isLoop : DPc → Bool
  | .gate _ => true
  | .fetch => true
  | _ => false

theorem gateFrom_isLoop (s : DSys) (k : Nat) : (s.gateFrom k).isLoop = true := by
  unfold DSys.gateFrom; split <;> rfl

theorem loopStart_isLoop (s : DSys) : s.loopStart.isLoop = true := by
  unfold DSys.loopStart; split
  · exact gateFrom_isLoop s 0
  · rfl

theorem expectedSent_loop {c : DConfig} {s s' : DSys} (h1 : s.dpc.isLoop = true) (h2 : s'.dpc.isLoop = true)
    (hi : s'.i = s.i) (k : Nat) : expectedSent c s' k = expectedSent c s k ∧ stopSent s' k = stopSent s k := by
  unfold expectedSent sentCount stopSent
  cases hp : s.dpc <;> simp [hp, DPc.isLoop] at h1 <;> cases hp' : s'.dpc <;> simp [hp', DPc.isLoop] at h2 <;> simp [hi]

theorem dvalid_parts {c : DConfig} (hv : c.valid = true) :
    c.prog.all (DItem.ok c.outs.length) = true ∧ c.killers = [] ∧ c.outs ≠ [] := by
  simp only [DConfig.valid, Bool.and_eq_true, List.isEmpty_iff, Bool.not_eq_true', List.isEmpty_eq_false_iff] at hv
  exact ⟨hv.1.1, hv.1.2, hv.2⟩

theorem DProgInv.init {c : DConfig} (hv : c.valid = true) : DProgInv c (dinit c) := by
  obtain ⟨_, hk, _⟩ := dvalid_parts hv
  have hloop : (dinit c).dpc.isLoop = true := loopStart_isLoop _
  refine ⟨by simp [dinit, hk], by simp [dinit], ?_, ?_⟩
  · intro k o hko
    have hE : expectedSent c (dinit c) k = [] := by
      unfold expectedSent sentCount stopSent
      cases hp : (dinit c).dpc <;> simp [hp, DPc.isLoop] at hloop <;> simp [dinit, numberFrom, compOf]
    have hS : stopSent (dinit c) k = false := by
      unfold stopSent
      cases hp : (dinit c).dpc <;> simp [hp, DPc.isLoop] at hloop <;> rfl
    simp only [dinit, List.getElem?_map] at hko
    cases hc : c.outs[k]? with
    | none => simp [hc] at hko
    | some p =>
      simp [hc] at hko; subst hko
      refine ⟨rfl, rfl, rfl, hE.symm, fun _ => rfl, ?_⟩
      intro r hr e
      simp only [List.mem_map] at hr
      obtain ⟨_, _, rfl⟩ := hr
      simp
  · unfold dpos
    cases hp : (dinit c).dpc <;> simp [hp, DPc.isLoop] at hloop <;> simp [dinit]


theorem DProgInv.update {c : DConfig} {s s' : DSys} {k : Nat} {o o' : Out} (h : DProgInv c s)
    (hk : s.outs[k]? = some o) (houts : s'.outs = s.outs.set k o') (hkill : s'.killers = s.killers)
    (hpos : dpos c s')
    (hothers : ∀ j, j ≠ k → j < s.outs.length → expectedSent c s' j = expectedSent c s j ∧ stopSent s' j = stopSent s j)
    (hk' : OutProg c s' k o') : DProgInv c s' := by
  refine ⟨by rw [hkill]; exact h.noKill, by rw [houts, List.length_set]; exact h.nOuts, ?_, hpos⟩
  intro j oj hj
  rw [houts] at hj
  rcases getElem?_set_cases hj with ⟨rfl, rfl, _⟩ | ⟨hne, hj⟩
  · exact hk'
  · have ho := h.out j oj hj
    obtain ⟨e1, e2⟩ := hothers j hne (List.getElem?_eq_some_iff.mp hj).1
    exact ⟨ho.killed, ho.fkilled, ho.nsent, by rw [e1]; exact ho.sentEq, by rw [e2]; exact ho.open_, ho.noDead⟩

/-- the number the next `send` will use has not been used -/
theorem nSent_unsent {c : DConfig} {s : DSys} {k : Nat} {o : Out} (ho : OutProg c s k o) (hs : stopSent s k = false) :
    o.mb.nSent ∉ o.sent.map (·.1) := by
  have hn := ho.nsent
  have he := ho.sentEq
  simp only [expectedSent, hs, Bool.false_eq_true, if_false, List.append_nil] at he
  rw [hn, he, numberFrom_fst, numberFrom_length]
  simp

theorem ES_loop {c : DConfig} {s : DSys} (hl : s.dpc.isLoop = true) (j : Nat) :
    expectedSent c s j = numberFrom 0 (compOf j (c.prog.take s.i)) ∧ stopSent s j = false := by
  unfold expectedSent sentCount stopSent
  cases hp : s.dpc <;> simp [hp, DPc.isLoop] at hl <;> simp

theorem ES_congr {c : DConfig} {s s' : DSys} (h1 : s'.dpc = s.dpc) (h2 : s'.i = s.i) (j : Nat) :
    expectedSent c s' j = expectedSent c s j ∧ stopSent s' j = stopSent s j := by
  unfold expectedSent sentCount stopSent
  rw [h1, h2]
  exact ⟨rfl, rfl⟩

theorem ES_send {c : DConfig} {s : DSys} {k : Nat} {msgs : List Msg} (hp : s.dpc = .send k msgs) (j : Nat) :
    expectedSent c s j = numberFrom 0 (compOf j (c.prog.take (if j < k then s.i + 1 else s.i))) ∧ stopSent s j = false := by
  unfold expectedSent sentCount stopSent
  simp [hp]

theorem ES_close {c : DConfig} {s : DSys} {k : Nat} (hp : s.dpc = .close k) (j : Nat) :
    expectedSent c s j = numberFrom 0 (compOf j c.prog) ++ (if j < k then [((compOf j c.prog).length, Msg.stop)] else []) ∧
    stopSent s j = decide (j < k) := by
  unfold expectedSent sentCount stopSent
  simp [hp]

theorem ES_done {c : DConfig} {s : DSys} (hp : s.dpc = .done) (j : Nat) :
    expectedSent c s j = numberFrom 0 (compOf j c.prog) ++ [((compOf j c.prog).length, Msg.stop)] ∧ stopSent s j = true := by
  unfold expectedSent sentCount stopSent
  simp [hp]

theorem dpos_loop {c : DConfig} {s : DSys} (hl : s.dpc.isLoop = true) : dpos c s ↔ s.prog = c.prog.drop s.i := by
  unfold dpos
  cases hp : s.dpc <;> simp [hp, DPc.isLoop] at hl <;> simp

theorem gateStep_fields {mb mb' : MB} {ok : Bool} (hg : mb.gateStep = some (ok, mb')) :
    mb'.killed = mb.killed ∧ mb'.forceKilled = mb.forceKilled ∧ mb'.nSent = mb.nSent ∧ mb'.closed = mb.closed := by
  simp only [MB.gateStep] at hg
  split at hg
  · simp at hg
  · split at hg <;> (simp only [Option.some.injEq, Prod.mk.injEq] at hg; obtain ⟨_, rfl⟩ := hg; exact ⟨rfl, rfl, rfl, rfl⟩)

theorem DProgInv.stepDivider {c : DConfig} {s s' : DSys} (hv : c.valid = true) (hinv : DInv s) (h : DProgInv c s)
    (hs : stepDivider s = some s') : DProgInv c s' := by
  obtain ⟨hok, _, hne⟩ := dvalid_parts hv
  have hnpos : 0 < s.outs.length := by
    rw [h.nOuts]; cases hc : c.outs with
    | nil => exact absurd hc hne
    | cons a r => simp
  have hemp : s.outs.isEmpty = false := by
    cases hso : s.outs with
    | nil => rw [hso] at hnpos; simp at hnpos
    | cons a r => rfl
  have hpos := h.pos
  unfold Mailbox.stepDivider at hs
  split at hs
  · -- gate k
    rename_i k hpc
    have hloop : s.dpc.isLoop = true := by rw [hpc]; rfl
    split at hs
    · simp at hs
    · rename_i o hk
      split at hs
      · simp at hs
      · rename_i ok mb hg
        simp only [Option.some.injEq] at hs
        have e_outs : s'.outs = s.outs.set k { o with mb := mb } := by rw [← hs]
        have e_i : s'.i = s.i := by rw [← hs]
        have e_prog : s'.prog = s.prog := by rw [← hs]
        have e_kill : s'.killers = s.killers := by rw [← hs]
        have e_loop : s'.dpc.isLoop = true := by
          rw [← hs]; simp only
          split
          · exact gateFrom_isLoop _ _
          · rfl
        have ho := h.out k o hk
        obtain ⟨f1, f2, f3, f4⟩ := gateStep_fields hg
        have hE : ∀ j, expectedSent c s' j = expectedSent c s j ∧ stopSent s' j = stopSent s j := by
          intro j
          obtain ⟨a1, a2⟩ := ES_loop (c := c) e_loop j
          obtain ⟨b1, b2⟩ := ES_loop (c := c) hloop j
          rw [a1, a2, b1, b2, e_i]; exact ⟨rfl, rfl⟩
        refine h.update hk e_outs e_kill ?_ (fun j _ _ => hE j) ?_
        · rw [dpos_loop e_loop, e_prog, e_i]; exact (dpos_loop hloop).mp hpos
        · exact ⟨by simp only [f1]; exact ho.killed, by simp only [f2]; exact ho.fkilled, by simp only [f3]; exact ho.nsent,
            by rw [(hE k).1]; exact ho.sentEq, by rw [(hE k).2]; intro hx; simp only [f4]; exact ho.open_ hx, ho.noDead⟩
  · -- fetch
    rename_i hpc
    have hloop : s.dpc.isLoop = true := by rw [hpc]; rfl
    have hprog0 := (dpos_loop hloop).mp hpos
    have keep : ∀ (s1 : DSys), s1.outs = s.outs → s1.killers = s.killers → dpos c s1 →
        (∀ j, j < s.outs.length → expectedSent c s1 j = expectedSent c s j ∧ stopSent s1 j = stopSent s j) → DProgInv c s1 := by
      intro s1 h1 h2 h3 h4
      refine ⟨by rw [h2]; exact h.noKill, by rw [h1]; exact h.nOuts, ?_, h3⟩
      intro j oj hj
      rw [h1] at hj
      have ho := h.out j oj hj
      obtain ⟨e1, e2⟩ := h4 j (List.getElem?_eq_some_iff.mp hj).1
      exact ⟨ho.killed, ho.fkilled, ho.nsent, by rw [e1]; exact ho.sentEq, by rw [e2]; exact ho.open_, ho.noDead⟩
    split at hs
    · rename_i hnil
      simp only [Option.some.injEq, hemp, Bool.false_eq_true, if_false] at hs
      have e_dpc : s'.dpc = .close 0 := by rw [← hs]
      refine keep s' (by rw [← hs]) (by rw [← hs]) ?_ ?_
      · have : s'.prog = s.prog := by rw [← hs]
        simp only [dpos, e_dpc, this, hnil]
      · intro j _
        rw [hnil] at hprog0
        have hle : c.prog.length ≤ s.i := List.drop_eq_nil_iff.mp hprog0.symm
        obtain ⟨a1, a2⟩ := ES_close (c := c) e_dpc j
        obtain ⟨b1, b2⟩ := ES_loop (c := c) hloop j
        rw [a1, a2, b1, b2, List.take_of_length_le hle]
        simp
    · rename_i msgs rest hcons
      simp only [Option.some.injEq, hemp, Bool.false_eq_true, if_false] at hs
      rw [hcons] at hprog0
      obtain ⟨hget, hdrop⟩ := drop_eq_cons hprog0.symm
      have hmok : DItem.ok c.outs.length (.item msgs) = true := (List.all_eq_true.mp hok) _ (List.mem_of_getElem? hget)
      simp only [DItem.ok, Bool.and_eq_true, beq_iff_eq] at hmok
      have h0 : (msgs[0]?).isSome = true := by
        have : 0 < msgs.length := by rw [hmok.1, ← h.nOuts]; exact hnpos
        simp [this]
      have e_dpc : s'.dpc = .send 0 msgs := by
        rw [← hs]; simp only [DSys.sendAt, h0, if_true]
      have e_i : s'.i = s.i := by rw [← hs]
      refine keep s' (by rw [← hs]) (by rw [← hs]) ?_ ?_
      · have : s'.prog = rest := by rw [← hs]
        simp only [dpos, e_dpc, this, e_i]; exact ⟨hget, hdrop.symm⟩
      · intro j _
        obtain ⟨a1, a2⟩ := ES_send (c := c) e_dpc j
        obtain ⟨b1, b2⟩ := ES_loop (c := c) hloop j
        rw [a1, a2, b1, b2, e_i]; simp
    · rename_i rest hcons
      exfalso
      rw [hcons] at hprog0
      obtain ⟨hget, _⟩ := drop_eq_cons hprog0.symm
      have := (List.all_eq_true.mp hok) _ (List.mem_of_getElem? hget)
      simp [DItem.ok] at this
  · -- send k msgs
    rename_i k msgs hpc
    simp only [dpos, hpc] at hpos
    obtain ⟨hget, hprog⟩ := hpos
    have hmok : DItem.ok c.outs.length (.item msgs) = true := (List.all_eq_true.mp hok) _ (List.mem_of_getElem? hget)
    simp only [DItem.ok, Bool.and_eq_true, beq_iff_eq] at hmok
    split at hs
    · rename_i o m hk hm
      have ho := h.out k o hk
      have hoi := hinv.out k o hk
      have hklt : k < s.outs.length := (List.getElem?_eq_some_iff.mp hk).1
      have hstop : stopSent s k = false := (ES_send (c := c) hpc k).2
      have hnot : ¬ o.mb.nSent < minNext o.mb.subs := le_minNext_of_not_sent hoi.mb (nSent_unsent ho hstop)
      have hsentk : o.sent = numberFrom 0 (compOf k (c.prog.take s.i)) := by
        have := ho.sentEq
        rw [(ES_send (c := c) hpc k).1] at this
        simpa using this
      split at hs
      · simp at hs
      · -- sent
        rename_i n mb hst
        simp only [Option.some.injEq] at hs
        simp only [MB.sendStep, resolveNum] at hst
        rcases sendCore_alive (ho.open_ hstop) ho.fkilled ho.killed hnot hst with ⟨hout, hmb, _⟩ | ⟨hout, _, _⟩
        · cases hout
          obtain ⟨p1, p2, p3, p4⟩ := push_fields o.mb o.mb.nSent m
          have hlenk : o.mb.nSent = (compOf k (c.prog.take s.i)).length := by
            rw [ho.nsent, hsentk, numberFrom_length]
          have hnew : o.sent ++ [(o.mb.nSent, m)] = numberFrom 0 (compOf k (c.prog.take (s.i + 1))) := by
            rw [compOf_take_succ k c.prog s.i msgs m hget hm, numberFrom_append, Nat.zero_add, ← hlenk, ← hsentk]
          have e_outs : s'.outs = s.outs.set k { o with mb := mb, sent := o.sent ++ [(o.mb.nSent, m)] } := by rw [← hs]
          have e_kill : s'.killers = s.killers := by rw [← hs]
          have e_prog : s'.prog = s.prog := by rw [← hs]
          have e_i0 : s'.i = s.iAfter k := by rw [← hs]
          have e_dpc0 : s'.dpc = s.afterSendAt k msgs := by rw [← hs]
          have hbase : ∀ (hsent' : ({ o with mb := mb, sent := o.sent ++ [(o.mb.nSent, m)] } : Out).sent = expectedSent c s' k)
              (hst' : stopSent s' k = false), OutProg c s' k { o with mb := mb, sent := o.sent ++ [(o.mb.nSent, m)] } := by
            intro hsent' hst'
            exact ⟨by simp only [hmb, p1]; exact ho.killed, by simp only [hmb, p2]; exact ho.fkilled,
              by (show mb.nSent = (o.sent ++ [(o.mb.nSent, m)]).length); rw [hmb, p4, ho.nsent]; simp, hsent',
              fun _ => by simp only [hmb, p3]; exact ho.open_ hstop, ho.noDead⟩
          by_cases hlast : k + 1 < s.outs.length
          · have hk1 : (msgs[k + 1]?).isSome = true := by
              have : k + 1 < msgs.length := by rw [hmok.1, ← h.nOuts]; exact hlast
              simp [this]
            have e_dpc : s'.dpc = .send (k + 1) msgs := by
              rw [e_dpc0]; simp only [DSys.afterSendAt, hlast, if_true, DSys.sendAt, hk1]
            have e_i : s'.i = s.i := by rw [e_i0]; simp [DSys.iAfter, hlast]
            refine h.update hk e_outs e_kill ?_ ?_ ?_
            · simp only [dpos, e_dpc, e_i, e_prog]; exact ⟨hget, hprog⟩
            · intro j hjk _
              obtain ⟨a1, a2⟩ := ES_send (c := c) e_dpc j
              obtain ⟨b1, b2⟩ := ES_send (c := c) hpc j
              rw [a1, a2, b1, b2, e_i]
              have : (j < k + 1) = (j < k) := by apply propext; constructor <;> intro hx <;> omega
              simp [this]
            · obtain ⟨a1, a2⟩ := ES_send (c := c) e_dpc k
              refine hbase ?_ a2
              rw [a1, e_i]; simpa using hnew
          · have e_loop : s'.dpc.isLoop = true := by
              rw [e_dpc0]; simp only [DSys.afterSendAt, hlast, if_false]; exact loopStart_isLoop s
            have e_i : s'.i = s.i + 1 := by rw [e_i0]; simp [DSys.iAfter, hlast]
            refine h.update hk e_outs e_kill ?_ ?_ ?_
            · rw [dpos_loop e_loop, e_prog, e_i]; exact hprog
            · intro j hjk hj
              obtain ⟨a1, a2⟩ := ES_loop (c := c) e_loop j
              obtain ⟨b1, b2⟩ := ES_send (c := c) hpc j
              rw [a1, a2, b1, b2, e_i]
              have hjlt : j < k := by omega
              simp [hjlt]
            · obtain ⟨a1, a2⟩ := ES_loop (c := c) e_loop k
              refine hbase ?_ a2
              rw [a1, e_i]; exact hnew
        · cases hout
      · rename_i mb hst
        simp only [MB.sendStep, resolveNum] at hst
        rcases sendCore_alive (ho.open_ hstop) ho.fkilled ho.killed hnot hst with ⟨hout, _, _⟩ | ⟨hout, _, _⟩ <;> cases hout
      · -- waiting
        rename_i n mb hst
        simp only [Option.some.injEq] at hs
        simp only [MB.sendStep, resolveNum] at hst
        rcases sendCore_alive (ho.open_ hstop) ho.fkilled ho.killed hnot hst with ⟨hout, _, _⟩ | ⟨hout, hmb, _⟩
        · cases hout
        · have e_outs : s'.outs = s.outs.set k { o with mb := mb } := by rw [← hs]
          have e_dpc : s'.dpc = s.dpc := by rw [← hs]
          have e_i : s'.i = s.i := by rw [← hs]
          have e_prog : s'.prog = s.prog := by rw [← hs]
          have hE : ∀ j, expectedSent c s' j = expectedSent c s j ∧ stopSent s' j = stopSent s j := by
            intro j; exact ES_congr e_dpc e_i j
          refine h.update hk e_outs (by rw [← hs]) ?_ (fun j _ _ => hE j) ?_
          · simp only [dpos, e_dpc, hpc, e_i, e_prog]; exact ⟨hget, hprog⟩
          · subst hmb
            exact ⟨ho.killed, ho.fkilled, ho.nsent, by rw [(hE k).1]; exact ho.sentEq,
              by rw [(hE k).2]; exact ho.open_, ho.noDead⟩
      · rename_i e mb hst
        simp only [MB.sendStep, resolveNum] at hst
        rcases sendCore_alive (ho.open_ hstop) ho.fkilled ho.killed hnot hst with ⟨hout, _, _⟩ | ⟨hout, _, _⟩ <;> cases hout
    · simp at hs
  · -- close k
    rename_i k hpc
    simp only [dpos, hpc] at hpos
    split at hs
    · simp at hs
    · rename_i o hk
      have ho := h.out k o hk
      have hoi := hinv.out k o hk
      have hklt : k < s.outs.length := (List.getElem?_eq_some_iff.mp hk).1
      have hstop : stopSent s k = false := by rw [(ES_close (c := c) hpc k).2]; simp
      have hnot : ¬ o.mb.nSent < minNext o.mb.subs := le_minNext_of_not_sent hoi.mb (nSent_unsent ho hstop)
      have hsentk : o.sent = numberFrom 0 (compOf k c.prog) := by
        have := ho.sentEq
        rw [(ES_close (c := c) hpc k).1] at this
        simpa using this
      split at hs
      · simp at hs
      · rename_i n mb hst
        simp only [Option.some.injEq] at hs
        simp only [MB.sendStep, resolveNum] at hst
        rcases sendCore_alive (ho.open_ hstop) ho.fkilled ho.killed hnot hst with ⟨hout, hmb, _⟩ | ⟨hout, _, _⟩
        · cases hout
          obtain ⟨p1, p2, p3, p4⟩ := push_fields o.mb o.mb.nSent .stop
          have hlen : o.mb.nSent = (compOf k c.prog).length := by rw [ho.nsent, hsentk, numberFrom_length]
          have e_outs : s'.outs = s.outs.set k { o with mb := { mb with closed := true }, sent := o.sent ++ [(o.mb.nSent, .stop)] } := by rw [← hs]
          have e_dpc0 : s'.dpc = s.afterClose k := by rw [← hs]
          have e_prog : s'.prog = s.prog := by rw [← hs]
          have hE : ∀ j, j < s.outs.length →
              expectedSent c s' j = numberFrom 0 (compOf j c.prog) ++ (if j < k + 1 then [((compOf j c.prog).length, Msg.stop)] else []) ∧
              stopSent s' j = decide (j < k + 1) := by
            intro j hj
            by_cases hlast : k + 1 < s.outs.length
            · have e_dpc : s'.dpc = .close (k + 1) := by rw [e_dpc0]; simp [DSys.afterClose, hlast]
              exact ES_close e_dpc j
            · have e_dpc : s'.dpc = .done := by rw [e_dpc0]; simp [DSys.afterClose, hlast]
              obtain ⟨a1, a2⟩ := ES_done (c := c) e_dpc j
              have : j < k + 1 := by omega
              rw [a1, a2]; simp [this]
          refine h.update hk e_outs (by rw [← hs]) ?_ ?_ ?_
          · by_cases hlast : k + 1 < s.outs.length
            · have e_dpc : s'.dpc = .close (k + 1) := by rw [e_dpc0]; simp [DSys.afterClose, hlast]
              simp only [dpos, e_dpc, e_prog]; exact hpos
            · have e_dpc : s'.dpc = .done := by rw [e_dpc0]; simp [DSys.afterClose, hlast]
              simp only [dpos, e_dpc]
          · intro j hjk hj
            obtain ⟨a1, a2⟩ := hE j hj
            obtain ⟨b1, b2⟩ := ES_close (c := c) hpc j
            rw [a1, a2, b1, b2]
            have : (j < k + 1) = (j < k) := by apply propext; constructor <;> intro hx <;> omega
            simp [this]
          · obtain ⟨a1, a2⟩ := hE k hklt
            refine ⟨by simp only [hmb, p1]; exact ho.killed, by simp only [hmb, p2]; exact ho.fkilled,
              by (show mb.nSent = (o.sent ++ [(o.mb.nSent, Msg.stop)]).length); rw [hmb, p4, ho.nsent]; simp, ?_, ?_, ho.noDead⟩
            · rw [a1]; simp [hsentk, hlen]
            · intro hx; rw [a2] at hx; simp at hx
        · cases hout
      · rename_i mb hst
        simp only [MB.sendStep, resolveNum] at hst
        rcases sendCore_alive (ho.open_ hstop) ho.fkilled ho.killed hnot hst with ⟨hout, _, _⟩ | ⟨hout, _, _⟩ <;> cases hout
      · rename_i n mb hst
        simp only [Option.some.injEq] at hs
        simp only [MB.sendStep, resolveNum] at hst
        rcases sendCore_alive (ho.open_ hstop) ho.fkilled ho.killed hnot hst with ⟨hout, _, _⟩ | ⟨hout, hmb, _⟩
        · cases hout
        · have e_outs : s'.outs = s.outs.set k { o with mb := mb } := by rw [← hs]
          have e_dpc : s'.dpc = s.dpc := by rw [← hs]
          have e_i : s'.i = s.i := by rw [← hs]
          have e_prog : s'.prog = s.prog := by rw [← hs]
          have hE : ∀ j, expectedSent c s' j = expectedSent c s j ∧ stopSent s' j = stopSent s j := by
            intro j; exact ES_congr e_dpc e_i j
          refine h.update hk e_outs (by rw [← hs]) ?_ (fun j _ _ => hE j) ?_
          · simp only [dpos, e_dpc, hpc, e_prog]; exact hpos
          · subst hmb
            exact ⟨ho.killed, ho.fkilled, ho.nsent, by rw [(hE k).1]; exact ho.sentEq,
              by rw [(hE k).2]; exact ho.open_, ho.noDead⟩
      · rename_i e mb hst
        simp only [MB.sendStep, resolveNum] at hst
        rcases sendCore_alive (ho.open_ hstop) ho.fkilled ho.killed hnot hst with ⟨hout, _, _⟩ | ⟨hout, _, _⟩ <;> cases hout
  · rename_i k e hpc; simp only [dpos, hpc] at hpos
  · simp at hs
  · simp at hs


theorem DProgInv.step {c : DConfig} {s s' : DSys} {t : DThread} (hv : c.valid = true) (hinv : DInv s) (h : DProgInv c s)
    (hs : dstep s t = some s') : DProgInv c s' := by
  cases t with
  | divider => exact h.stepDivider hv hinv hs
  | reader k i =>
    simp only [dstep, stepDReader] at hs
    split at hs
    · simp at hs
    · rename_i o hk
      have ho := h.out k o hk
      have hset : ∀ (r' : Reader), (∀ e, r'.pc ≠ .dead e) → ∀ r ∈ o.readers.set i r', ∀ e, r.pc ≠ .dead e := by
        intro r' hr' r hr
        rcases List.mem_or_eq_of_mem_set hr with hm | rfl
        · exact ho.noDead r hm
        · exact hr'
      have fin : ∀ (o' : Out), s' = { s with outs := s.outs.set k o' } →
          o'.mb.killed = o.mb.killed → o'.mb.forceKilled = o.mb.forceKilled → o'.mb.nSent = o.mb.nSent →
          o'.mb.closed = o.mb.closed → o'.sent = o.sent → (∀ r ∈ o'.readers, ∀ e, r.pc ≠ .dead e) → DProgInv c s' := by
        intro o' hs' f1 f2 f3 f4 f5 f6
        subst hs'
        have hE := fun j => ES_congr (c := c) (s := s) (s' := { s with outs := s.outs.set k o' }) rfl rfl j
        refine h.update hk rfl rfl ?_ (fun j _ _ => hE j) ?_
        · exact h.pos
        · exact ⟨by rw [f1]; exact ho.killed, by rw [f2]; exact ho.fkilled, by rw [f3, f5]; exact ho.nsent,
            by rw [f5, (hE k).1]; exact ho.sentEq, by rw [(hE k).2, f4]; exact ho.open_, f6⟩
      split at hs
      · simp at hs
      · rename_i r hr
        split at hs
        · split at hs
          · simp at hs
          · rename_i mb hst
            simp only [Option.some.injEq] at hs
            obtain ⟨hkk, _, hn, hcl, hfk, _⟩ := readStep_shape hst
            exact fin _ hs.symm hkk hfk hn hcl rfl ho.noDead
          · rename_i mb hst
            obtain ⟨_, _, _, _, _, _, sub, s2, _, _, _, hout⟩ := readStep_shape hst
            simp only at hout
            rw [ho.killed] at hout; cases hout
          · rename_i msgs mb hst
            simp only [Option.some.injEq] at hs
            obtain ⟨hkk, _, hn, hcl, hfk, _⟩ := readStep_shape hst
            exact fin _ hs.symm hkk hfk hn hcl rfl (hset _ (deliver_ne_dead _ _ _))
        · split at hs
          · split at hs
            · simp only [Option.some.injEq] at hs
              exact fin _ hs.symm rfl rfl rfl rfl rfl (hset _ (deliver_ne_dead _ _ _))
            · simp at hs
          · simp at hs
        · simp at hs
        · simp at hs
  | worker j =>
    simp only [dstep, stepDWorker] at hs
    split at hs
    · simp only [Option.some.injEq] at hs; subst hs
      refine ⟨h.noKill, h.nOuts, ?_, h.pos⟩
      intro k o hk
      have ho := h.out k o hk
      exact ⟨ho.killed, ho.fkilled, ho.nsent, ho.sentEq, ho.open_, ho.noDead⟩
    · simp at hs
  | killer q =>
    simp only [dstep, stepDKiller, h.noKill] at hs
    simp at hs

theorem DProgInv.reachable {c : DConfig} {s : DSys} (hv : c.valid = true) (h : DReachable c s) : DProgInv c s := by
  induction h with
  | init => exact DProgInv.init hv
  | step hr hs ih => exact ih.step hv (DInv.reachable hr) hs

/-! ### exact delivery -/

theorem getMsg_numberFrom (p : Nat) (L : List Msg) (q : Nat) :
    getMsg (numberFrom p L) q = if q < p then none else L[q - p]? := by
  induction L generalizing p with
  | nil => simp [numberFrom, getMsg]
  | cons a r ih =>
    simp only [numberFrom, getMsg]
    by_cases hpq : p = q
    · subst hpq; simp
    · simp only [hpq, if_false, ih]
      by_cases hlt : q < p
      · have : q < p + 1 := by omega
        simp [hlt, this]
      · have h1 : ¬ q < p + 1 := by omega
        have h2 : q - p = (q - (p + 1)) + 1 := by omega
        simp [hlt, h1, h2]

theorem inOrder_numberFrom (L : List Msg) (n : Nat) (hn : n ≤ L.length) : inOrder (numberFrom 0 L) n = L.take n := by
  induction n with
  | zero => simp [inOrder]
  | succ k ih =>
    simp only [inOrder, ih (by omega), getMsg_numberFrom, Nat.not_lt_zero, if_false, Nat.sub_zero]
    rw [List.take_add_one]

/-- what a subscriber that has seen the end marker was handed, given the log -/
theorem got_of_done {Pn : List (Nat × Msg)} {K : Nat} {sent : List (Nat × Msg)} {got rest : List Msg} {nx : Nat}
    (hsent : sent = Pn ++ [(K, .stop)]) (hfound : ∀ j, j < K → (getMsg Pn j).isSome)
    (hlt : ∀ n ∈ Pn.map (·.1), n < K) (hnsP : ∀ e ∈ Pn, e.2 ≠ .stop)
    (hns : Msg.stop ∉ got) (hd : got ++ Msg.stop :: rest = inOrder sent nx) : got = inOrder Pn K := by
  have hKnot : K ∉ Pn.map (·.1) := fun hm => by have := hlt _ hm; omega
  have hP : ∀ n, n ≤ K → inOrder sent n = inOrder Pn n := by
    intro n hn; rw [hsent]; exact inOrder_append_left (fun j hj => hfound j (by omega))
  have hnostop : ∀ n, Msg.stop ∉ inOrder Pn n := inOrder_no_stop hnsP
  by_cases hnx : nx ≤ K
  · have : Msg.stop ∈ inOrder sent nx := by rw [← hd]; simp
    rw [hP nx hnx] at this
    exact absurd this (hnostop nx)
  · have hK1 : inOrder sent (K + 1) = inOrder Pn K ++ [Msg.stop] := by
      simp only [inOrder]
      rw [hP _ (Nat.le_refl _), hsent, getMsg_append_right hKnot]
      simp [getMsg]
    have hbeyond : ∀ j, K + 1 ≤ j → getMsg sent j = none := by
      intro j hj
      apply getMsg_none_of_not_mem
      rw [hsent]
      simp only [List.map_append, List.map_cons, List.map_nil, List.mem_append, List.mem_singleton, not_or]
      exact ⟨fun hm => by have := hlt _ hm; omega, by omega⟩
    have hall : inOrder sent nx = inOrder Pn K ++ [Msg.stop] := by
      rw [inOrder_none (k := K + 1) (by omega) hbeyond, hK1]
    rw [hall] at hd
    exact (split_at_stop hns (hnostop _) hd).1

/-- **divide_delivery**: in every final state of a valid divider run, every subscriber of every output has been
handed exactly that output's component of every dict, in order, and has ended on the end marker -/
theorem divide_delivery_core {c : DConfig} {s : DSys} (hv : c.valid = true) (h : DReachable c s) (hf : s.final = true)
    (k : Nat) (o : Out) (hk : s.outs[k]? = some o) (i : Nat) (r : Reader) (hr : o.readers[i]? = some r) :
    r.got = compOf k c.prog ∧ ∃ rest, r.pc = .done rest := by
  obtain ⟨hok, _, _⟩ := dvalid_parts hv
  have hinv := DInv.reachable h
  have hp := DProgInv.reachable hv h
  simp only [DSys.final, Bool.and_eq_true, List.all_eq_true] at hf
  obtain ⟨⟨⟨hdf, hrf⟩, _⟩, _⟩ := hf
  have hdone : s.dpc = .done := by
    have := hp.pos
    unfold dpos at this
    cases hpc : s.dpc <;> simp only [hpc, DPc.finished] at this hdf <;> first | rfl | cases hdf | cases this
  have ho := hp.out k o hk
  have hoi := hinv.out k o hk
  have hsent : o.sent = numberFrom 0 (compOf k c.prog) ++ [((compOf k c.prog).length, Msg.stop)] := by
    rw [ho.sentEq, (ES_done (c := c) hdone k).1]
  have hrm : r ∈ o.readers := List.mem_of_getElem? hr
  have hfin := hrf o (List.mem_of_getElem? hk) r hrm
  obtain ⟨rest, hpc⟩ : ∃ rest, r.pc = .done rest := by
    cases hpc : r.pc with
    | read => simp [hpc, RPc.finished] at hfin
    | futW p => simp [hpc, RPc.finished] at hfin
    | done rest => exact ⟨rest, rfl⟩
    | dead e => exact absurd hpc (ho.noDead r hrm e)
  refine ⟨?_, rest, hpc⟩
  have hilt : i < o.mb.subs.length := by
    rw [← hoi.rd.len]; exact (List.getElem?_eq_some_iff.mp hr).1
  obtain ⟨hns, hd⟩ := hoi.rd.deliv i _ r (List.getElem?_eq_getElem hilt) hr
  rw [hpc] at hd
  simp only [tailOf] at hd
  have hgot := got_of_done (Pn := numberFrom 0 (compOf k c.prog)) (K := (compOf k c.prog).length) hsent
    (by intro j hj; apply mem_getMsg_isSome; rw [numberFrom_fst]; simp; omega)
    (by intro n hn; rw [numberFrom_fst] at hn; simp at hn; omega)
    (by intro e he hst
        have := numberFrom_snd 0 _ e he
        rw [hst] at this
        exact compOf_no_stop k _ c.prog hok this)
    hns hd
  rw [hgot, inOrder_numberFrom _ _ (Nat.le_refl _), List.take_length]


theorem DReachable.of_run {c : DConfig} {sched : List DThread} {s : DSys} (h : drun? (dinit c) sched = some s) :
    DReachable c s := by
  have gen : ∀ (s0 : DSys), DReachable c s0 → ∀ sched, drun? s0 sched = some s → DReachable c s := by
    intro s0 h0 sched
    induction sched generalizing s0 with
    | nil => intro h; simp only [drun?, Option.some.injEq] at h; subst h; exact h0
    | cons t ts ih =>
      intro h
      simp only [drun?] at h
      split at h
      · rename_i s1 hs1; exact ih s1 (DReachable.step h0 hs1) h
      · cases h
  exact gen _ (DReachable.init (c := c)) sched h

end Strax.Mailbox
