import StraxModel.Model.Storage
/-
  Helper lemmas for property C03 (theory T9, fault-free part).  Core Lean only.

  Main results:
  * `chunkFilename_inj`      — `"%06d"` file names of different chunk numbers differ;
  * `saveAll_eq`             — closed form of `save_from`: saving (with or without rechunking) is
                               "run the rechunker over the source, then write one chunk_info per
                               output chunk and one file per non-empty output chunk";
  * `loadAll_saved`          — loading what `save_from` wrote gives back every written chunk, up to
                               the fields the loader takes from the metadata header (`restore`).
-/
namespace Strax.Storage
open Strax

/-! ### file names -/

theorem pad6_val (i : Nat) : Nat.ofDigitChars 10 (pad6 i).toList 0 = i := by
  simp [pad6, String.toList_append, Nat.toList_repr, Nat.ofDigitChars_append,
    Nat.ofDigitChars_replicate_zero, Nat.ofDigitChars_ten_toDigits]

theorem pad6_inj {i j : Nat} (h : pad6 i = pad6 j) : i = j := by
  have := congrArg (fun s => Nat.ofDigitChars 10 s.toList 0) h
  simpa [pad6_val] using this

/-- two chunks of one saver never share a file name -/
theorem chunkFilename_inj {p : String} {i j : Nat} (h : chunkFilename p i = chunkFilename p j) : i = j := by
  unfold chunkFilename at h
  exact pad6_inj ((String.append_right_inj _).1 h)

/-! ### closed form of the saver -/

/-- the chunk_info entry written for chunk `c` saved as number `i`; `exec` = the write went to an
executor (then no `filesize` is known when the entry is written) -/
def infoFor (hdr : Header) (exec : Bool) (i : Nat) (c : Chunk) : ChunkInfo :=
  if c.rows.isEmpty then chunkInfoOf hdr.itemsize i c
  else if exec then { chunkInfoOf hdr.itemsize i c with filename := some (chunkFilename hdr.pfx i) }
  else { chunkInfoOf hdr.itemsize i c with filename := some (chunkFilename hdr.pfx i),
                                            filesize := some (blobSize c.rows).val }

def infosFrom (hdr : Header) (exec : Bool) : Nat → List Chunk → List ChunkInfo
  | _, [] => []
  | i, c :: cs => infoFor hdr exec i c :: infosFrom hdr exec (i + 1) cs

/-- the files written for chunks numbered from `i` on: one per non-empty chunk -/
def filesFrom (pfx : String) : Nat → List Chunk → Files
  | _, [] => []
  | i, c :: cs =>
    if c.rows.isEmpty then filesFrom pfx (i + 1) cs
    else (chunkFilename pfx i, c.rows) :: filesFrom pfx (i + 1) cs

/-- `md["start"]` as left by `_save_chunk_metadata` (only `chunk_i == 0` touches it) -/
def startAfter (s : Option Int) : Nat → List Chunk → Option Int
  | _, [] => s
  | i, c :: cs => startAfter (if i = 0 then some c.start else s) (i + 1) cs

/-- saver state after saving `cs` as numbers `i, i+1, …` -/
def after (sv : Saver) (i : Nat) (cs : List Chunk) : Saver :=
  { sv with
    md := { sv.md with chunks := sv.md.chunks ++ infosFrom sv.md.hdr sv.exec i cs,
                       start := startAfter sv.md.start i cs },
    files := if sv.exec then sv.files else sv.files ++ filesFrom sv.md.hdr.pfx i cs,
    pending := if sv.exec then sv.pending ++ filesFrom sv.md.hdr.pfx i cs else sv.pending }

/-- every file present so far belongs to a chunk number below `i` -/
def NamesBelow (pfx : String) (i : Nat) (fs : Files) : Prop :=
  ∀ p ∈ fs, ∃ j, j < i ∧ p.1 = chunkFilename pfx j

theorem writeFile_fresh {pfx : String} {i : Nat} {fs : Files} (h : NamesBelow pfx i fs) (rows : List Row) :
    writeFile fs (chunkFilename pfx i) rows = fs ++ [(chunkFilename pfx i, rows)] := by
  unfold writeFile
  congr 1
  rw [List.filter_eq_self]
  intro p hp
  obtain ⟨j, hj, hn⟩ := h p hp
  simp only [bne_iff_ne, ne_eq, hn]
  intro heq
  have := chunkFilename_inj heq
  omega

theorem namesBelow_filesFrom (pfx : String) (cs : List Chunk) :
    ∀ i, ∀ p ∈ filesFrom pfx i cs, ∃ j, i ≤ j ∧ j < i + cs.length ∧ p.1 = chunkFilename pfx j := by
  induction cs with
  | nil => intro i p hp; simp [filesFrom] at hp
  | cons c cs ih =>
    intro i p hp
    simp only [filesFrom] at hp
    split at hp
    · obtain ⟨j, h1, h2, h3⟩ := ih (i + 1) p hp
      exact ⟨j, by omega, by simp only [List.length_cons]; omega, h3⟩
    · simp only [List.mem_cons] at hp
      rcases hp with rfl | hp
      · exact ⟨i, by omega, by simp only [List.length_cons]; omega, rfl⟩
      · obtain ⟨j, h1, h2, h3⟩ := ih (i + 1) p hp
        exact ⟨j, by omega, by simp only [List.length_cons]; omega, h3⟩

theorem namesBelow_after {sv : Saver} {i : Nat} (h : NamesBelow sv.md.hdr.pfx i sv.files) (cs : List Chunk) :
    NamesBelow (after sv i cs).md.hdr.pfx (i + cs.length) (after sv i cs).files := by
  intro p hp
  cases hx : sv.exec with
  | true =>
    simp only [after, hx, if_true] at hp
    obtain ⟨j, hj, hn⟩ := h p hp
    exact ⟨j, by omega, hn⟩
  | false =>
    simp only [after, hx, Bool.false_eq_true, if_false, List.mem_append] at hp
    rcases hp with hp | hp
    · obtain ⟨j, hj, hn⟩ := h p hp
      exact ⟨j, by omega, hn⟩
    · obtain ⟨j, _, h2, h3⟩ := namesBelow_filesFrom _ cs i p hp
      exact ⟨j, h2, h3⟩

theorem after_nil (sv : Saver) (i : Nat) : after sv i [] = sv := by
  obtain ⟨md, files, closed, exec, pending⟩ := sv
  cases exec <;> simp [after, infosFrom, filesFrom, startAfter]

theorem infosFrom_append (hdr : Header) (x : Bool) (a b : List Chunk) :
    ∀ i, infosFrom hdr x i (a ++ b) = infosFrom hdr x i a ++ infosFrom hdr x (i + a.length) b := by
  induction a with
  | nil => intro i; simp [infosFrom]
  | cons c a ih =>
    intro i
    simp only [List.cons_append, infosFrom, ih, List.length_cons]
    rw [show i + 1 + a.length = i + (a.length + 1) by omega]

theorem filesFrom_append (pfx : String) (a b : List Chunk) :
    ∀ i, filesFrom pfx i (a ++ b) = filesFrom pfx i a ++ filesFrom pfx (i + a.length) b := by
  induction a with
  | nil => intro i; simp [filesFrom]
  | cons c a ih =>
    intro i
    simp only [List.cons_append, filesFrom, ih, List.length_cons]
    rw [show i + 1 + a.length = i + (a.length + 1) by omega]
    split <;> simp

theorem startAfter_append (a b : List Chunk) :
    ∀ s i, startAfter s i (a ++ b) = startAfter (startAfter s i a) (i + a.length) b := by
  induction a with
  | nil => intro s i; simp [startAfter]
  | cons c a ih =>
    intro s i
    simp only [List.cons_append, startAfter, ih, List.length_cons]
    rw [show i + 1 + a.length = i + (a.length + 1) by omega]

theorem after_append (sv : Saver) (i : Nat) (a b : List Chunk) :
    after (after sv i a) (i + a.length) b = after sv i (a ++ b) := by
  cases hx : sv.exec <;>
    simp [after, hx, infosFrom_append, filesFrom_append, startAfter_append, List.append_assoc]

/-- `Saver.save` on an open saver whose files all belong to earlier chunk numbers -/
theorem save_eq (sv : Saver) (c : Chunk) (i : Nat) (hc : sv.closed = false)
    (hb : NamesBelow sv.md.hdr.pfx i sv.files) : sv.save c i = .ok (after sv i [c]) := by
  unfold Saver.save
  simp only [hc, Bool.false_eq_true, if_false]
  by_cases hr : c.rows.isEmpty = true
  · cases hx : sv.exec <;> by_cases hi : i = 0 <;>
      simp [hr, hi, hx, after, infosFrom, infoFor, filesFrom, startAfter, pure, Except.pure, hc, chunkInfoOf]
  · cases hx : sv.exec with
    | true =>
      by_cases hi : i = 0 <;>
        simp [hr, hi, hx, after, infosFrom, infoFor, filesFrom, startAfter, pure, Except.pure, hc, chunkInfoOf]
    | false =>
      by_cases hi : i = 0
      · subst hi
        simp [hr, hx, after, infosFrom, infoFor, filesFrom, startAfter, pure, Except.pure, hc, chunkInfoOf,
          writeFile_fresh hb]
      · simp [hr, hi, hx, after, infosFrom, infoFor, filesFrom, startAfter, pure, Except.pure, hc, chunkInfoOf,
          writeFile_fresh hb]

/-- the per-chunk loop never fails on an open saver, and its effect is `after` -/
theorem saveList_eq (cs : List Chunk) : ∀ (sv : Saver) (i : Nat), sv.closed = false →
    NamesBelow sv.md.hdr.pfx i sv.files → saveList sv i cs = (after sv i cs, i + cs.length, none) := by
  induction cs with
  | nil => intro sv i _ _; simp [saveList, after_nil]
  | cons c cs ih =>
    intro sv i hc hb
    simp only [saveList, save_eq sv c i hc hb]
    have hc' : (after sv i [c]).closed = false := by simp [after, hc]
    have hb' := namesBelow_after hb [c]
    simp only [List.length_cons, List.length_nil, Nat.zero_add] at hb'
    rw [ih _ _ hc' hb']
    have := after_append sv i [c] cs
    simp only [List.length_cons, List.length_nil, Nat.zero_add, List.singleton_append] at this
    rw [this]
    simp only [List.length_cons]
    rw [show i + 1 + cs.length = i + (cs.length + 1) by omega]

/-- the source loop of `save_from`, when the rechunker succeeds on the whole source -/
theorem saveLoop_ok (a0 : Int) (src : List Chunk) : ∀ (sv : Saver) (r : Rechunker) (i : Nat) (out : List Chunk),
    sv.closed = false → NamesBelow sv.md.hdr.pfx i sv.files → rechunkAll a0 r src = .ok out →
    saveLoop a0 sv r i src = (after sv i out, none) := by
  induction src with
  | nil =>
    intro sv r i out hc hb h
    simp only [rechunkAll, pure, Except.pure, Except.ok.injEq] at h
    subst h
    simp [saveLoop, saveList_eq _ sv i hc hb]
  | cons c cs ih =>
    intro sv r i out hc hb h
    simp only [rechunkAll, bind, Except.bind] at h
    simp only [saveLoop]
    cases hr : r.receive a0 c with
    | error e => simp [hr] at h
    | ok p =>
      obtain ⟨r', o⟩ := p
      simp only [hr] at h
      cases hrest : rechunkAll a0 r' cs with
      | error e => simp [hrest] at h
      | ok rest =>
        simp only [hrest, pure, Except.pure, Except.ok.injEq] at h
        subst h
        simp only [saveList_eq o sv i hc hb]
        have hc' : (after sv i o).closed = false := by simp [after, hc]
        rw [ih _ r' _ rest hc' (namesBelow_after hb o) hrest, after_append]

/-- … and when it fails: the caller sees the rechunker's exception -/
theorem saveLoop_err (a0 : Int) (src : List Chunk) : ∀ (sv : Saver) (r : Rechunker) (i : Nat) (e : Err),
    sv.closed = false → NamesBelow sv.md.hdr.pfx i sv.files → rechunkAll a0 r src = .error e →
    (saveLoop a0 sv r i src).2 = some e := by
  induction src with
  | nil =>
    intro sv r i e _ _ h
    simp [rechunkAll, pure, Except.pure] at h
  | cons c cs ih =>
    intro sv r i e hc hb h
    simp only [rechunkAll, bind, Except.bind] at h
    simp only [saveLoop]
    cases hr : r.receive a0 c with
    | error e' => simp only [hr, Except.error.injEq] at h; simp [h]
    | ok p =>
      obtain ⟨r', o⟩ := p
      simp only [hr] at h
      cases hrest : rechunkAll a0 r' cs with
      | ok rest => simp [hrest, pure, Except.pure] at h
      | error e' =>
        simp only [hrest, Except.error.injEq] at h
        subst h
        simp only [saveList_eq o sv i hc hb]
        have hc' : (after sv i o).closed = false := by simp [after, hc]
        exact ih _ r' _ e' hc' (namesBelow_after hb o) hrest

/-- metadata left by a successful `save_from` whose rechunker output was `out` -/
def metaOf (hdr : Header) (out : List Chunk) : Meta :=
  { hdr, chunks := infosFrom hdr false 0 out, start := out.head?.map (·.start),
    stop := out.getLast?.map (·.stop), writingEnded := true, exception := false }

/-- … and by one whose chunk writes went to an executor: the same, without `filesize` -/
def metaOfExec (hdr : Header) (out : List Chunk) : Meta :=
  { hdr, chunks := infosFrom hdr true 0 out, start := out.head?.map (·.start),
    stop := out.getLast?.map (·.stop), writingEnded := true, exception := false }

theorem infoFor_start (hdr : Header) (x : Bool) (i : Nat) (c : Chunk) : (infoFor hdr x i c).start = c.start := by
  unfold infoFor
  split
  · rfl
  · split <;> rfl
theorem infoFor_stop (hdr : Header) (x : Bool) (i : Nat) (c : Chunk) : (infoFor hdr x i c).stop = c.stop := by
  unfold infoFor
  split
  · rfl
  · split <;> rfl

theorem infosFrom_getLast_stop (hdr : Header) (x : Bool) (cs : List Chunk) :
    ∀ i, (infosFrom hdr x i cs).getLast?.map (·.stop) = cs.getLast?.map (·.stop) := by
  induction cs with
  | nil => intro i; simp [infosFrom]
  | cons c cs ih =>
    intro i
    cases cs with
    | nil => simp [infosFrom, infoFor_stop]
    | cons c' cs' =>
      have := ih (i + 1)
      simp only [infosFrom, List.getLast?_cons_cons] at this ⊢
      exact this

theorem startAfter_zero (cs : List Chunk) : startAfter none 0 cs = cs.head?.map (·.start) := by
  have pos : ∀ (cs : List Chunk) (s : Option Int) (i : Nat), 0 < i → startAfter s i cs = s := by
    intro cs
    induction cs with
    | nil => intro s i _; rfl
    | cons c cs ih =>
      intro s i hi
      simp only [startAfter]
      rw [ih _ _ (by omega)]
      simp [show i ≠ 0 by omega]
  cases cs with
  | nil => rfl
  | cons c cs => simp [startAfter, pos]

/-- metadata after a successful `save_from` (`x` = executor) -/
def metaOfX (hdr : Header) (x : Bool) (out : List Chunk) : Meta :=
  { hdr, chunks := infosFrom hdr x 0 out, start := out.head?.map (·.start),
    stop := out.getLast?.map (·.stop), writingEnded := true, exception := false }

/-- `Saver.close` (no exception around) on an open saver whose metadata is that of `out` saved from a
fresh saver: start / end from the first / last entry, `writing_ended` -/
theorem close_after (hdr : Header) (x : Bool) (out : List Chunk) (sv : Saver) (hc : sv.closed = false)
    (hmd : sv.md = (after (Saver.init hdr x) 0 out).md) :
    sv.close false = .ok { sv with closed := true, md := metaOfX hdr x out } := by
  simp only [Saver.close, hc, Bool.false_eq_true, if_false, pure, Except.pure, hmd, metaOfX]
  cases out with
  | nil => simp [after, Saver.init, infosFrom, startAfter]
  | cons c cs =>
    have hl := infosFrom_getLast_stop hdr x (c :: cs) 0
    have hne : infosFrom hdr x 0 (c :: cs) ≠ [] := by simp [infosFrom]
    obtain ⟨l, hl'⟩ : ∃ l, (infosFrom hdr x 0 (c :: cs)).getLast? = some l := by
      cases hg : (infosFrom hdr x 0 (c :: cs)).getLast? with
      | none => exact absurd (List.getLast?_eq_none_iff.1 hg) hne
      | some l => exact ⟨l, rfl⟩
    rw [hl'] at hl
    simp only [Option.map_some] at hl
    simp only [after, Saver.init, List.nil_append, hl']
    simp [infosFrom, infoFor_start, hl]

/-- the source loop from a fresh saver (serial or executor): what the rechunker yields is saved -/
theorem saveLoop_fresh (a0 : Int) (re : Bool) (hdr : Header) (x : Bool) (src : List Chunk) :
    (∀ out, rechunkAll a0 ⟨re, hdr.runId.startsWith "_", none⟩ src = .ok out →
      saveLoop a0 (Saver.init hdr x) ⟨re, hdr.runId.startsWith "_", none⟩ 0 src = (after (Saver.init hdr x) 0 out, none)) ∧
    (∀ e, rechunkAll a0 ⟨re, hdr.runId.startsWith "_", none⟩ src = .error e →
      (saveLoop a0 (Saver.init hdr x) ⟨re, hdr.runId.startsWith "_", none⟩ 0 src).2 = some e) := by
  have hc0 : (Saver.init hdr x).closed = false := rfl
  have hb0 : NamesBelow (Saver.init hdr x).md.hdr.pfx 0 (Saver.init hdr x).files := by
    intro p hp; simp [Saver.init] at hp
  exact ⟨fun out h => saveLoop_ok a0 src _ _ 0 out hc0 hb0 h, fun e h => saveLoop_err a0 src _ _ 0 e hc0 hb0 h⟩

/-- **Closed form of `save_from`.**  Whatever the rechunk flag: the saver leaves exactly one
chunk_info per chunk that comes out of the rechunker (numbered 0, 1, …), one file per non-empty
one, overall start / end of the first / last of them, `writing_ended`, no `exception`; and it
fails exactly when the rechunker fails, with the same exception. -/
theorem saveAll_eq (a0 : Int) (re : Bool) (hdr : Header) (src : List Chunk) :
    saveAll a0 re hdr src =
      (rechunkAll a0 ⟨re, hdr.runId.startsWith "_", none⟩ src).map
        (fun out => (metaOf hdr out, filesFrom hdr.pfx 0 out)) := by
  obtain ⟨hok, herr⟩ := saveLoop_fresh a0 re hdr false src
  cases h : rechunkAll a0 ⟨re, hdr.runId.startsWith "_", none⟩ src with
  | error e =>
    have h2 := herr e h
    simp only [saveAll, saveFrom, Except.map]
    generalize saveLoop a0 (Saver.init hdr) ⟨re, hdr.runId.startsWith "_", none⟩ 0 src = res at h2
    obtain ⟨sv, e'⟩ := res
    simp only at h2
    subst h2
    by_cases hcl : sv.closed = true
    · simp [hcl, throw, throwThe, MonadExceptOf.throw]
    · simp [hcl, Saver.close, throw, throwThe, MonadExceptOf.throw, pure, Except.pure]
  | ok out =>
    have h2 := hok out h
    simp only [saveAll, saveFrom, Except.map, h2]
    have hcl : (after (Saver.init hdr) 0 out).closed = false := rfl
    simp only [hcl, Bool.false_eq_true, if_false, Option.isSome_none,
      close_after hdr false out _ hcl rfl, pure, Except.pure]
    simp [metaOf, metaOfX, after, Saver.init]

/-- files after the pending writes `pend` completed in the order `order` -/
def completed (order : List Nat) (pend : Files) : Files :=
  (order.filterMap (pend[·]?)).foldl (fun fs p => writeFile fs p.1 p.2) []

/-- **Closed form of `save_from` with an executor**: the same metadata without `filesize`, and the
files of the non-empty output chunks written in completion order. -/
theorem saveAllExec_eq (a0 : Int) (re : Bool) (hdr : Header) (src : List Chunk) (order : List Nat) :
    saveAllExec a0 re hdr src order =
      (rechunkAll a0 ⟨re, hdr.runId.startsWith "_", none⟩ src).map
        (fun out => (metaOfExec hdr out, completed order (filesFrom hdr.pfx 0 out))) := by
  obtain ⟨hok, herr⟩ := saveLoop_fresh a0 re hdr true src
  cases h : rechunkAll a0 ⟨re, hdr.runId.startsWith "_", none⟩ src with
  | error e =>
    have h2 := herr e h
    simp only [saveAllExec, saveFromExec, Except.map]
    generalize saveLoop a0 (Saver.init hdr true) ⟨re, hdr.runId.startsWith "_", none⟩ 0 src = res at h2
    obtain ⟨sv, e'⟩ := res
    simp only at h2
    subst h2
    by_cases hcl : sv.closed = true
    · simp [completeWrites, hcl, throw, throwThe, MonadExceptOf.throw]
    · simp [completeWrites, hcl, Saver.close, throw, throwThe, MonadExceptOf.throw, pure, Except.pure]
  | ok out =>
    have h2 := hok out h
    simp only [saveAllExec, saveFromExec, Except.map, h2]
    have hcl : (completeWrites order (after (Saver.init hdr true) 0 out)).closed = false := rfl
    simp only [hcl, Bool.false_eq_true, if_false, Option.isSome_none,
      close_after hdr true out _ hcl rfl, pure, Except.pure]
    simp [metaOfExec, metaOfX, completeWrites, completed, after, Saver.init]

/-! ### the loader on what the saver wrote -/

theorem readFile_filesFrom (pfx : String) (cs : List Chunk) : ∀ (i k : Nat) (c : Chunk),
    cs[k]? = some c → c.rows ≠ [] → readFile (filesFrom pfx i cs) (chunkFilename pfx (i + k)) = some c.rows := by
  induction cs with
  | nil => intro i k c h; simp at h
  | cons c0 cs ih =>
    intro i k c h hne
    cases k with
    | zero =>
      simp only [List.getElem?_cons_zero, Option.some.injEq] at h
      subst h
      simp [filesFrom, readFile, hne]
    | succ k =>
      simp only [List.getElem?_cons_succ] at h
      have := ih (i + 1) k c h hne
      rw [show i + 1 + k = i + (k + 1) by omega] at this
      simp only [filesFrom]
      split
      · exact this
      · have hneq : (chunkFilename pfx i == chunkFilename pfx (i + (k + 1))) = false := by
          simp only [beq_eq_false_iff_ne, ne_eq]
          intro heq
          have := chunkFilename_inj heq
          omega
        simp only [readFile, List.find?_cons, hneq] at this ⊢
        exact this

theorem maxEnd_le' {d B : Int} {l : List Row} (hd : d ≤ B) (h : ∀ x ∈ l, x.endt ≤ B) : maxEnd d l ≤ B := by
  induction l generalizing d with
  | nil => simpa [maxEnd]
  | cons a t ih =>
    simp only [maxEnd]
    apply ih
    · have := h a (by simp); omega
    · intro x hx; exact h x (by simp [hx])

theorem lastEndMax_le {rows : List Row} {B e : Int} (h : ∀ x ∈ rows, x.endt ≤ B)
    (he : lastEndMax rows = some e) : e ≤ B := by
  unfold lastEndMax at he
  split at he
  · simp at he
  · rename_i r rs hd
    simp only [Option.some.injEq] at he
    subst he
    have hsub : ∀ x ∈ r :: rs, x ∈ rows := by
      intro x hx; rw [← hd] at hx; exact List.mem_of_mem_drop hx
    exact maxEnd_le' (h r (hsub r (by simp))) (fun x hx => h x (hsub x (by simp [hx])))

theorem rowsInside_iff {a b : Int} {rows : List Row} :
    rowsInside a b rows = true ↔ ∀ r ∈ rows, a ≤ r.time ∧ r.time < r.endt ∧ r.endt ≤ b := by
  simp [rowsInside, and_assoc]

/-- `Chunk.__init__` as called by the loader accepts a storable chunk and rebuilds it up to the
header fields -/
theorem mkChunk_restore (hdr : Header) (rid : String) (c : Chunk) (h : storableB rid c = true) :
    mkChunk hdr.dataType hdr.kind (some rid) c.start c.stop c.rows (c.subruns.map jsonRuns) none hdr.target
      = .ok (restore hdr rid c) := by
  simp only [storableB, Bool.and_eq_true, decide_eq_true_eq, beq_iff_eq, Bool.or_eq_true,
    Bool.not_eq_true'] at h
  obtain ⟨⟨⟨⟨⟨h0, hle⟩, hin⟩, hrid⟩, hsub⟩, _⟩ := h
  rw [rowsInside_iff] at hin
  have hend : ∀ x ∈ c.rows, x.endt ≤ c.stop := fun x hx => (hin x hx).2.2
  obtain ⟨dt, k, ru, st, sp, rows, sub, sup, tg⟩ := c
  simp only at h0 hle hin hrid hsub hend
  subst hrid
  have h1 : ¬ st < 0 := by omega
  have h2 : ¬ st > sp := by omega
  have h1' : (st < 0) = False := eq_false h1
  have h2' : (st > sp) = False := eq_false h2
  have hsub' : ∀ s, sub = some s → sortRuns (jsonRuns s) = s ∧ runsOverlap s = false := by
    intro s hs
    subst hs
    simpa [restorableRuns] using hsub
  cases sub with
  | none =>
    cases hrw : rows with
    | nil =>
      simp [mkChunk, bind, Except.bind, pure, Except.pure, h1', h2', restore, sortRuns, runsOverlap]
    | cons r0 rs =>
      have h3 : ¬ r0.time < st := by have := (hin r0 (by simp [hrw])).1; omega
      cases hl : lastEndMax (r0 :: rs) with
      | none =>
        simp [mkChunk, bind, Except.bind, pure, Except.pure, h1', h2', h3, hl, restore, sortRuns, runsOverlap]
      | some e =>
        have := lastEndMax_le (rows := r0 :: rs) (B := sp) (by intro x hx; exact hend x (by simpa [hrw] using hx)) hl
        have h4 : ¬ e > sp := by omega
        simp [mkChunk, bind, Except.bind, pure, Except.pure, h1', h2', h3, hl, h4, restore, sortRuns, runsOverlap]
  | some s =>
    obtain ⟨hs1, hs2⟩ := hsub' s rfl
    simp only [sortRuns] at hs1
    cases hrw : rows with
    | nil =>
      simp [mkChunk, bind, Except.bind, pure, Except.pure, h1', h2', restore, sortRuns, runsOverlap, hs1, hs2]
    | cons r0 rs =>
      have h3 : ¬ r0.time < st := by have := (hin r0 (by simp [hrw])).1; omega
      cases hl : lastEndMax (r0 :: rs) with
      | none =>
        simp [mkChunk, bind, Except.bind, pure, Except.pure, h1', h2', h3, hl, restore, sortRuns, runsOverlap, hs1, hs2]
      | some e =>
        have := lastEndMax_le (rows := r0 :: rs) (B := sp) (by intro x hx; exact hend x (by simpa [hrw] using hx)) hl
        have h4 : ¬ e > sp := by omega
        simp [mkChunk, bind, Except.bind, pure, Except.pure, h1', h2', h3, hl, h4, restore, sortRuns, runsOverlap, hs1, hs2]

theorem infoFor_fields (hdr : Header) (x : Bool) (i : Nat) (c : Chunk) :
    (infoFor hdr x i c).i = i ∧ (infoFor hdr x i c).n = c.rows.length ∧ (infoFor hdr x i c).runId = c.runId ∧
    (infoFor hdr x i c).subruns = c.subruns ∧
    (infoFor hdr x i c).firstTime = c.rows.head?.map (·.time) ∧ (infoFor hdr x i c).firstEnd = c.rows.head?.map (·.endt) ∧
    (infoFor hdr x i c).lastTime = c.rows.getLast?.map (·.time) ∧ (infoFor hdr x i c).lastEnd = c.rows.getLast?.map (·.endt) ∧
    (infoFor hdr x i c).filename = if c.rows.isEmpty then none else some (chunkFilename hdr.pfx i) := by
  unfold infoFor
  split
  · simp_all [chunkInfoOf]
  · split <;> simp_all [chunkInfoOf]

/-- byte sizes of an entry: `nbytes = n · itemsize`; `filesize` recorded iff the chunk has rows and the
write was synchronous, and then it is the size of the file written -/
theorem infoFor_sizes (hdr : Header) (x : Bool) (i : Nat) (c : Chunk) :
    (infoFor hdr x i c).nbytes = c.rows.length * hdr.itemsize ∧
    (infoFor hdr x i c).filesize =
      if c.rows.isEmpty || x then none else some (blobSize c.rows).val := by
  unfold infoFor
  split
  · simp_all [chunkInfoOf]
  · split <;> simp_all [chunkInfoOf]

/-- the loader on the chunk_info of a storable chunk whose file (if any) is in place -/
theorem loadChunk_infoFor (md : Meta) (files : Files) (rid : String) (x : Bool) (i : Nat) (c : Chunk)
    (h : storableB rid c = true)
    (hf : c.rows ≠ [] → readFile files (chunkFilename md.hdr.pfx i) = some c.rows) :
    loadChunk md files (infoFor md.hdr x i c) = .ok (restore md.hdr rid c) := by
  have hmk := mkChunk_restore md.hdr rid c h
  simp only [storableB, Bool.and_eq_true, decide_eq_true_eq, beq_iff_eq, Bool.or_eq_true,
    Bool.not_eq_true'] at h
  obtain ⟨⟨⟨_, hrid⟩, _⟩, hsup⟩ := h
  obtain ⟨_, hn, hr, hs, _, _, _, _, hfn⟩ := infoFor_fields md.hdr x i c
  unfold loadChunk
  rw [infoFor_start, infoFor_stop, hn, hr, hs, hfn, hrid]
  have hfin : ['_'] <+: rid.toList → ¬ c.subruns = none := by
    intro hp hnone
    rcases hsup with h | h
    · simp [hp] at h
    · simp [hnone] at h
  by_cases he : c.rows = []
  · simp only [he] at hmk
    simp [he, bind, Except.bind, pure, Except.pure, hmk]
    exact hfin
  · have hlen : ¬ c.rows.length = 0 := by simpa using he
    simp [he, hlen, hf he, bind, Except.bind, pure, Except.pure, hmk]
    exact hfin

theorem mapM_loadChunk (md : Meta) (files : Files) (rid : String) (x : Bool) (cs : List Chunk) : ∀ (i : Nat),
    (∀ c ∈ cs, storableB rid c = true) →
    (∀ k c, cs[k]? = some c → c.rows ≠ [] → readFile files (chunkFilename md.hdr.pfx (i + k)) = some c.rows) →
    (infosFrom md.hdr x i cs).mapM (loadChunk md files) = .ok (cs.map (restore md.hdr rid)) := by
  induction cs with
  | nil => intro i _ _; simp [infosFrom, pure, Except.pure]
  | cons c cs ih =>
    intro i hs hf
    have h1 := loadChunk_infoFor md files rid x i c (hs c (by simp)) (by simpa using hf 0 c (by simp))
    have h2 := ih (i + 1) (fun c' hc' => hs c' (by simp [hc'])) (by
      intro k c' hk hne
      have := hf (k + 1) c' (by simpa using hk) hne
      rwa [show i + (k + 1) = i + 1 + k by omega] at this)
    simp [infosFrom, List.mapM_cons, h1, h2, bind, Except.bind, pure, Except.pure]

/-- loading the metadata of `out` (serial or executor saver) from ANY directory in which the file of
every non-empty chunk can be read under its name -/
theorem loadAll_of_readable (hdr : Header) (rid : String) (x : Bool) (out : List Chunk) (files : Files)
    (hne : out ≠ []) (hs : ∀ c ∈ out, storableB rid c = true)
    (hf : ∀ k c, out[k]? = some c → c.rows ≠ [] → readFile files (chunkFilename hdr.pfx k) = some c.rows) :
    loadAll (metaOfX hdr x out) files = .ok (out.map (restore hdr rid)) := by
  unfold loadAll
  have : (metaOfX hdr x out).chunks.isEmpty = false := by
    cases out with
    | nil => exact absurd rfl hne
    | cons c cs => simp [metaOfX, infosFrom]
  simp only [this, Bool.false_eq_true, if_false]
  exact mapM_loadChunk (metaOfX hdr x out) files rid x out 0 hs (by
    intro k c hk hr
    have := hf k c hk hr
    simpa [metaOfX] using this)

/-- **Loading what `save_from` wrote.** -/
theorem loadAll_saved (hdr : Header) (rid : String) (out : List Chunk) (hne : out ≠ [])
    (hs : ∀ c ∈ out, storableB rid c = true) :
    loadAll (metaOf hdr out) (filesFrom hdr.pfx 0 out) = .ok (out.map (restore hdr rid)) :=
  loadAll_of_readable hdr rid false out _ hne hs (by
    intro k c hk hr
    simpa using readFile_filesFrom hdr.pfx out 0 k c hk hr)

/-- with rechunking off the rechunker is the identity on streams -/
theorem rechunkAll_off (a0 : Int) (sup : Bool) (s : List Chunk) :
    rechunkAll a0 ⟨false, sup, none⟩ s = .ok s := by
  induction s with
  | nil => simp [rechunkAll, Rechunker.flush, pure, Except.pure]
  | cons c cs ih =>
    simp [rechunkAll, Rechunker.receive, ih, bind, Except.bind, pure, Except.pure]

theorem infosFrom_getElem? (hdr : Header) (x : Bool) (cs : List Chunk) : ∀ (i k : Nat),
    (infosFrom hdr x i cs)[k]? = cs[k]?.map (infoFor hdr x (i + k)) := by
  induction cs with
  | nil => intro i k; simp [infosFrom]
  | cons c cs ih =>
    intro i k
    cases k with
    | zero => simp [infosFrom]
    | succ k =>
      simp only [infosFrom, List.getElem?_cons_succ, ih]
      rw [show i + 1 + k = i + (k + 1) by omega]

theorem infosFrom_length (hdr : Header) (x : Bool) (cs : List Chunk) : ∀ i, (infosFrom hdr x i cs).length = cs.length := by
  induction cs with
  | nil => intro i; rfl
  | cons c cs ih => intro i; simp [infosFrom, ih]

/-- every file is the file of some non-empty chunk, under that chunk's name -/
theorem mem_filesFrom (pfx : String) (cs : List Chunk) : ∀ (i : Nat) (p : String × List Row),
    p ∈ filesFrom pfx i cs → ∃ k c, cs[k]? = some c ∧ c.rows ≠ [] ∧ p = (chunkFilename pfx (i + k), c.rows) := by
  induction cs with
  | nil => intro i p hp; simp [filesFrom] at hp
  | cons c cs ih =>
    intro i p hp
    simp only [filesFrom] at hp
    have step : p ∈ filesFrom pfx (i + 1) cs →
        ∃ k c', (c :: cs)[k]? = some c' ∧ c'.rows ≠ [] ∧ p = (chunkFilename pfx (i + k), c'.rows) := by
      intro hp
      obtain ⟨k, c', h1, h2, h3⟩ := ih (i + 1) p hp
      exact ⟨k + 1, c', by simpa using h1, h2, by rw [h3, show i + 1 + k = i + (k + 1) by omega]⟩
    split at hp
    · exact step hp
    · rename_i hne
      simp only [List.mem_cons] at hp
      rcases hp with rfl | hp
      · exact ⟨0, c, by simp, by simpa using hne, rfl⟩
      · exact step hp

theorem restore_fields (hdr : Header) (rid : String) (c : Chunk) :
    (restore hdr rid c).rows = c.rows ∧ (restore hdr rid c).start = c.start ∧ (restore hdr rid c).stop = c.stop ∧
    (restore hdr rid c).runId = c.runId ∧ (restore hdr rid c).subruns = c.subruns := by
  simp [restore]

theorem flatMap_rows_restore (hdr : Header) (rid : String) (cs : List Chunk) :
    (cs.map (restore hdr rid)).flatMap (·.rows) = cs.flatMap (·.rows) := by
  induction cs with
  | nil => rfl
  | cons c cs ih => simp [List.flatMap_cons, restore, ih] at *

theorem adjacentB_restore (hdr : Header) (rid : String) (cs : List Chunk) :
    adjacentB (cs.map (restore hdr rid)) = adjacentB cs := by
  induction cs with
  | nil => rfl
  | cons a cs ih =>
    cases cs with
    | nil => rfl
    | cons b cs =>
      simp only [List.map_cons, adjacentB] at ih ⊢
      rw [ih]
      rfl

theorem lawAbidingB_restore (hdr : Header) (rid : String) (cs : List Chunk) :
    lawAbidingB (cs.map (restore hdr rid)) = lawAbidingB cs := by
  unfold lawAbidingB
  rw [adjacentB_restore, flatMap_rows_restore]
  congr 2
  rw [List.all_map]
  rfl

theorem boundaries_restore (hdr : Header) (rid : String) (cs : List Chunk) :
    boundaries (cs.map (restore hdr rid)) = boundaries cs := by
  unfold boundaries
  rw [List.getLast?_map, List.map_map]
  have h1 : (fun c : Chunk => c.start) ∘ restore hdr rid = fun c => c.start := by funext c; simp [restore]
  rw [h1]
  cases cs.getLast? <;> simp [restore]

theorem boundaryRuleB_restore (hdr : Header) (rid : String) (old cs : List Chunk) :
    boundaryRuleB old (cs.map (restore hdr rid)) = boundaryRuleB old cs := by
  unfold boundaryRuleB
  rw [boundaries_restore]

/-- the laws of chunking plus the run conventions give storable chunks -/
theorem storable_of_law (rid : String) (s : List Chunk) (hl : lawAbidingB s = true)
    (hr : s.all (runOkB rid) = true) : ∀ c ∈ s, storableB rid c = true := by
  intro c hc
  simp only [lawAbidingB, Bool.and_eq_true, List.all_eq_true, decide_eq_true_eq] at hl
  have h1 := hl.1.2 c hc
  have h2 := List.all_eq_true.1 hr c hc
  simp only [runOkB, Bool.and_eq_true, decide_eq_true_eq, beq_iff_eq, Bool.or_eq_true, Bool.not_eq_true'] at h2
  simp only [storableB, Bool.and_eq_true, decide_eq_true_eq, beq_iff_eq, Bool.or_eq_true, Bool.not_eq_true']
  exact ⟨⟨⟨⟨⟨h2.1.1.1, h1.1⟩, h1.2⟩, h2.1.1.2⟩, h2.1.2⟩, h2.2⟩

theorem ok_of_toOption {α : Type} {e : Except Err α} {a : α} (h : e.toOption = some a) : e = .ok a := by
  cases e with
  | error _ => simp [Except.toOption] at h
  | ok b => simp [Except.toOption] at h; rw [h]

/-! ### directories as maps: order of the entries does not matter -/

def names (fs : Files) : List String := fs.map (·.1)

theorem readFile_eq_none_iff (fs : Files) (fn : String) : readFile fs fn = none ↔ fn ∉ names fs := by
  induction fs with
  | nil => simp [readFile, names]
  | cons p fs ih =>
    by_cases h : p.1 = fn
    · simp [readFile, names, List.find?_cons, h]
    · have h' : (p.1 == fn) = false := by simpa using h
      simp only [readFile, List.find?_cons, h', names, List.map_cons, List.mem_cons] at ih ⊢
      rw [ih]
      constructor
      · intro hh hc; rcases hc with hc | hc
        · exact h hc.symm
        · exact hh hc
      · intro hh hc; exact hh (Or.inr hc)

theorem readFile_eq_some_iff (fs : Files) (hn : (names fs).Nodup) (fn : String) (rows : List Row) :
    readFile fs fn = some rows ↔ (fn, rows) ∈ fs := by
  induction fs with
  | nil => simp [readFile]
  | cons p fs ih =>
    simp only [names, List.map_cons, List.nodup_cons] at hn
    by_cases h : p.1 = fn
    · have : ∀ r, (fn, r) ∉ fs := by
        intro r hr
        exact hn.1 (by rw [h]; exact List.mem_map.2 ⟨(fn, r), hr, rfl⟩)
      obtain ⟨a, b⟩ := p
      simp only at h
      subst h
      simp [readFile, List.find?_cons, this]
      constructor
      · intro hh; exact hh ▸ rfl
      · intro hh; exact hh ▸ rfl
    · have h' : (p.1 == fn) = false := by simpa using h
      have ih' := ih hn.2
      simp only [readFile, List.find?_cons, h'] at ih' ⊢
      rw [ih']
      simp only [List.mem_cons]
      constructor
      · intro hh; exact Or.inr hh
      · intro hh
        rcases hh with hh | hh
        · exact absurd (by rw [← hh]) h
        · exact hh

/-- two directories with the same entries in another order read the same -/
theorem readFile_perm {fs fs' : Files} (h : fs.Perm fs') (hn : (names fs).Nodup) (fn : String) :
    readFile fs fn = readFile fs' fn := by
  have hn' : (names fs').Nodup := (h.map (fun (p : String × List Row) => p.1)).nodup hn
  cases hr : readFile fs fn with
  | none =>
    rw [readFile_eq_none_iff] at hr
    symm
    rw [readFile_eq_none_iff]
    intro hc
    exact hr ((h.map (fun (p : String × List Row) => p.1)).symm.subset hc)
  | some rows =>
    rw [readFile_eq_some_iff fs hn] at hr
    symm
    rw [readFile_eq_some_iff fs' hn']
    exact h.subset hr

theorem foldl_writeFile_fresh (l : Files) : ∀ (fs : Files), (names (fs ++ l)).Nodup →
    l.foldl (fun fs p => writeFile fs p.1 p.2) fs = fs ++ l := by
  induction l with
  | nil => intro fs _; simp
  | cons p l ih =>
    intro fs hn
    have hfresh : writeFile fs p.1 p.2 = fs ++ [p] := by
      unfold writeFile
      congr 1
      rw [List.filter_eq_self]
      intro q hq
      simp only [bne_iff_ne, ne_eq]
      intro heq
      simp only [names, List.map_append, List.map_cons] at hn
      have := (List.nodup_append.1 hn).2.2 q.1 (List.mem_map.2 ⟨q, hq, rfl⟩) p.1 (by simp)
      exact this heq
    simp only [List.foldl_cons, hfresh]
    rw [ih (fs ++ [p]) (by simpa [List.append_assoc] using hn)]
    simp [List.append_assoc]

theorem filterMap_getElem?_range {α : Type} (l : List α) : (List.range l.length).filterMap (l[·]?) = l := by
  induction l with
  | nil => rfl
  | cons a t ih =>
    rw [List.length_cons, List.range_succ_eq_map, List.filterMap_cons]
    simp only [List.getElem?_cons_zero, List.filterMap_map]
    congr 1

theorem names_filesFrom_nodup (pfx : String) (cs : List Chunk) : ∀ i, (names (filesFrom pfx i cs)).Nodup := by
  induction cs with
  | nil => intro i; simp [filesFrom, names]
  | cons c cs ih =>
    intro i
    simp only [filesFrom]
    split
    · exact ih (i + 1)
    · simp only [names, List.map_cons, List.nodup_cons]
      refine ⟨?_, ih (i + 1)⟩
      intro hm
      obtain ⟨q, hq, hqe⟩ := List.mem_map.1 hm
      obtain ⟨j, h1, _, h3⟩ := namesBelow_filesFrom pfx cs (i + 1) q hq
      rw [h3] at hqe
      have := chunkFilename_inj hqe
      omega

/-- pending writes completing in any order leave the same directory, up to the order of its entries -/
theorem completed_perm (order : List Nat) (pend : Files) (h : order.Perm (List.range pend.length))
    (hn : (names pend).Nodup) : (completed order pend).Perm pend := by
  have hq : (order.filterMap (pend[·]?)).Perm pend := by
    have := h.filterMap (pend[·]?)
    rwa [filterMap_getElem?_range] at this
  unfold completed
  have hnq : (names ([] ++ order.filterMap (pend[·]?))).Nodup := by
    simpa [names] using (hq.map (fun (p : String × List Row) => p.1)).symm.nodup hn
  rw [foldl_writeFile_fresh _ [] hnq]
  simpa using hq

theorem filesFrom_length (pfx : String) (cs : List Chunk) : ∀ i,
    (filesFrom pfx i cs).length = (cs.filter (fun c => !c.rows.isEmpty)).length := by
  induction cs with
  | nil => intro i; rfl
  | cons c cs ih =>
    intro i
    simp only [filesFrom, List.filter_cons]
    split <;> simp_all

/-! ### thread-pool loading -/

theorem resolveInOrder_map (md : Meta) (files : Files) (l : List ChunkInfo) :
    resolveInOrder (l.map (loadChunk md files)) = l.mapM (loadChunk md files) := by
  induction l with
  | nil => rfl
  | cons a l ih => simp [resolveInOrder, List.mapM_cons, ih]

/-- futures submitted per chunk and resolved in chunk order give exactly the serial loader's answer
(same chunks, or the same first error) -/
theorem loadAllExec_eq (md : Meta) (files : Files) : loadAllExec md files = loadAll md files := by
  unfold loadAllExec loadAll submitAll
  rw [resolveInOrder_map]

/-! ### sub-run annotations -/

/-- strict lexicographic order on (start, end) -/
def keyLt (a b : Run) : Prop := a.start < b.start ∨ (a.start = b.start ∧ a.stop < b.stop)

theorem spansOk_facts : ∀ (s : Runs), spansOkB s = true →
    s.Pairwise keyLt ∧ runsOverlap s = false ∧ (∀ a ∈ s, a.start ≤ a.stop) ∧
    (∀ h, s.head? = some h → ∀ a ∈ s, h.start ≤ a.start ∧ h.stop ≤ a.stop)
  | [], _ => by simp [runsOverlap]
  | [a], h => by simp_all [spansOkB, runsOverlap]
  | a :: b :: rest, h => by
    simp only [spansOkB, Bool.and_eq_true, decide_eq_true_eq] at h
    obtain ⟨⟨⟨h1, h2⟩, h2'⟩, h3⟩ := h
    obtain ⟨ih1, ih2, ih3, ih4⟩ := spansOk_facts (b :: rest) h3
    have hb := ih4 b rfl
    have hbb := ih3 b (by simp)
    refine ⟨?_, ?_, ?_, ?_⟩
    · rw [List.pairwise_cons]
      refine ⟨?_, ih1⟩
      intro x hx
      have := hb x hx
      unfold keyLt
      omega
    · simp only [runsOverlap, ih2, Bool.or_false, decide_eq_false_iff_not]; omega
    · intro x hx
      simp only [List.mem_cons] at hx
      rcases hx with rfl | hx
      · exact h1
      · exact ih3 x (by simpa using hx)
    · intro h hh x hx
      simp only [List.head?_cons, Option.some.injEq] at hh
      subst hh
      simp only [List.mem_cons] at hx
      rcases hx with rfl | hx
      · omega
      · have := hb x (by simpa using hx); omega

/-- sub-run spans in time order with pairwise different (start, end) survive the json key sort + the
constructor's stable sort by (start, end), whatever the order of their ids -/
theorem restorable_of_spansOk (s : Runs) (h : spansOkB s = true) : restorableRuns (some s) = true := by
  obtain ⟨hp, hov, _, _⟩ := spansOk_facts s h
  simp only [restorableRuns, Bool.and_eq_true, beq_iff_eq, Bool.not_eq_true', hov, and_true]
  have hperm : (sortRuns (jsonRuns s)).Perm s :=
    (List.mergeSort_perm _ _).trans (List.mergeSort_perm _ _)
  have hsorted : (sortRuns (jsonRuns s)).Pairwise (fun a b => runLe a b = true) :=
    List.pairwise_mergeSort (le := runLe)
      (by intro a b c; simp only [runLe, decide_eq_true_eq]; omega)
      (by intro a b; simp only [runLe, Bool.or_eq_true, decide_eq_true_eq]; omega) _
  have hs2 : s.Pairwise (fun a b => runLe a b = true) :=
    hp.imp (by intro a b hab; unfold keyLt at hab; simp only [runLe, decide_eq_true_eq]; omega)
  refine List.Perm.eq_of_pairwise (le := fun a b => runLe a b = true) ?_ hsorted hs2 hperm
  intro a b ha hb hab hba
  simp only [runLe, decide_eq_true_eq] at hab hba
  have ha' : a ∈ s := hperm.subset ha
  -- equal keys inside a strictly increasing list: the same element
  have key : ∀ (l : List Run), l.Pairwise keyLt → ∀ x ∈ l, ∀ y ∈ l, x.start = y.start → x.stop = y.stop → x = y := by
    intro l hl
    induction l with
    | nil => intro x hx; simp at hx
    | cons z l ih =>
      rw [List.pairwise_cons] at hl
      intro x hx y hy hxy hxy'
      simp only [List.mem_cons] at hx hy
      rcases hx with rfl | hx <;> rcases hy with rfl | hy
      · rfl
      · have := hl.1 y hy; unfold keyLt at this; omega
      · have := hl.1 x hx; unfold keyLt at this; omega
      · exact ih hl.2 x hx y hy hxy hxy'
  exact key s hp a ha' b hb (by omega) (by omega)

/-- metadata as an executor saver writes it: no `filesize` in any entry -/
def Meta.withoutFilesize (m : Meta) : Meta :=
  { m with chunks := m.chunks.map (fun i => { i with filesize := none }) }

theorem infoFor_exec (hdr : Header) (i : Nat) (c : Chunk) :
    infoFor hdr true i c = { infoFor hdr false i c with filesize := none } := by
  unfold infoFor
  split
  · simp [chunkInfoOf]
  · simp [chunkInfoOf]

theorem infosFrom_exec (hdr : Header) (cs : List Chunk) : ∀ i,
    infosFrom hdr true i cs = (infosFrom hdr false i cs).map (fun i => { i with filesize := none }) := by
  induction cs with
  | nil => intro i; rfl
  | cons c cs ih => intro i; simp [infosFrom, ih, infoFor_exec]

theorem metaOfExec_eq (hdr : Header) (out : List Chunk) : metaOfExec hdr out = (metaOf hdr out).withoutFilesize := by
  simp [metaOfExec, metaOf, Meta.withoutFilesize, infosFrom_exec]

/-- every entry of the saved metadata is the entry of some written chunk -/
theorem mem_infosFrom {hdr : Header} {x : Bool} {cs : List Chunk} {info : ChunkInfo}
    (h : info ∈ infosFrom hdr x 0 cs) : ∃ k c, cs[k]? = some c ∧ info = infoFor hdr x k c := by
  obtain ⟨k, hk⟩ := List.mem_iff_getElem?.1 h
  rw [infosFrom_getElem?] at hk
  cases hc : cs[k]? with
  | none => simp [hc] at hk
  | some c =>
    simp only [hc, Option.map_some, Option.some.injEq, Nat.zero_add] at hk
    exact ⟨k, c, hc, hk.symm⟩

theorem storable_of_annotated {rid : String} {c : Chunk} (h : annotatedOkB rid c = true) : storableB rid c = true := by
  simp only [annotatedOkB, Bool.and_eq_true, decide_eq_true_eq, beq_iff_eq] at h
  obtain ⟨⟨⟨⟨h0, h1⟩, h2⟩, h3⟩, h4⟩ := h
  cases hs : c.subruns with
  | none => simp [hs] at h4
  | some sub =>
    simp only [hs] at h4
    have := restorable_of_spansOk sub h4
    simp [storableB, h0, h1, h2, h3, hs, this]

theorem mergeSort_pair {α : Type} (le : α → α → Bool) (a b : α) :
    [a, b].mergeSort le = if le a b then [a, b] else [b, a] := by
  simp [List.mergeSort, List.MergeSort.Internal.splitInTwo, List.merge]

/-- the `subruns` setter of `Chunk.__init__` refuses overlapping spans -/
theorem mkChunk_rejects_overlap (dt k : String) (rid : Option String) (a b : Int) (rows : List Row) (s : Runs)
    (sup : Option Runs) (tg : Nat) (h : runsOverlap (sortRuns s) = true) :
    mkChunk dt k rid a b rows (some s) sup tg = .error Err.valueError := by
  unfold mkChunk
  simp only [h, if_true, bind, Except.bind, throw, throwThe, MonadExceptOf.throw]

end Strax.Storage
