import StraxModel.Lemmas.Overlap
import StraxModel.Model.OverlapDecl
/-
  Property C09, round 5: the declared window in all its forms, and the two boundary formulas of `do_compute` by name.

  * `windowResult d` = what `_get_window_size` answers on `get_window_size() = d`, read off the model (`windowOf` + the test
    at the head of `doCompute`); Props/C09.lean proves it equal to the definition regenerated from the Python source.
  * `specDecl` / `runOverlapDecl`: a single-output plugin whose `get_window_size()` returns any `WindowDecl` (number, tuple /
    list of two, anything else), exactly as the driver op `c09.win` builds it.
  * a legal declaration with non-negative elements behaves as the tuple form (`runOverlapDecl_eq`): the only difference
    between the forms is the sign test, which cannot fire.
  * `invalidBeyond` / `cacheInputsBeyond`: the split times of the results and of the input cache (`step1_boundaries`).
-/
namespace Strax.Overlap
open Strax

theorem windowResult_scalar (w : Int) : windowResult (.scalar w) = .ok (w, w) := by
  simp [windowResult, windowOf, windowCheck]

theorem windowResult_pair (a b : Int) :
    windowResult (.pair a b) = if a < 0 ∨ b < 0 then .error .valueError else .ok (a, b) := by
  by_cases ha : a < 0 <;> by_cases hb : b < 0 <;> simp [windowResult, windowOf, windowCheck, ha, hb]

theorem windowResult_other : windowResult .other = .error .valueError := by
  simp [windowResult, windowOf, windowCheck]

/-- with a non-negative window the sign test of `_get_window_size` is irrelevant -/
theorem doCompute_signCheck (P : Spec) (b : Bool) (hl : 0 ≤ P.wl) (hr : 0 ≤ P.wr) (st : State) (kw : Dict Chunk) :
    doCompute { P with signCheck := b } st kw = doCompute P st kw := by
  have h1 : decide (P.wl < 0) = false := by simp only [decide_eq_false_iff_not]; omega
  have h2 : decide (P.wr < 0) = false := by simp only [decide_eq_false_iff_not]; omega
  have hb : ∀ k, baseCompute { P with signCheck := b } k = baseCompute P k := fun _ => rfl
  unfold doCompute
  simp only [h1, h2, hb, Bool.or_false, Bool.and_false]

theorem iterLoop_signCheck (P : Spec) (b : Bool) (hl : 0 ≤ P.wl) (hr : 0 ≤ P.wr) (kind : String) :
    ∀ (rest : List Chunk) (st : State) (buf : Chunk),
      iterLoop { P with signCheck := b } kind st buf rest = iterLoop P kind st buf rest := by
  intro rest
  induction rest with
  | nil =>
    intro st buf
    unfold iterLoop
    simp only [doCompute_signCheck P b hl hr]
  | cons c rest ih =>
    intro st buf
    unfold iterLoop
    simp only [doCompute_signCheck P b hl hr, ih]

theorem runDicts_signCheck (P : Spec) (b : Bool) (hl : 0 ≤ P.wl) (hr : 0 ≤ P.wr) (kind : String) (cs : List Chunk) :
    runDicts { P with signCheck := b } kind cs = runDicts P kind cs := by
  unfold runDicts
  cases cs with
  | nil => rfl
  | cons c rest => simp only [iterLoop_signCheck P b hl hr]

/-- a declaration `_get_window_size` accepts as `(wl, wr)` with both elements non-negative — number, tuple or list —
runs exactly like the tuple form `(wl, wr)` -/
theorem runOverlapDecl_eq (f : List Row → List Row) (d : WindowDecl) (wl wr : Int) (cs : List Chunk)
    (hd : windowResult d = .ok (wl, wr)) (hl : 0 ≤ wl) (hr : 0 ≤ wr) :
    runOverlapDecl f d cs = runOverlap f (wl, wr) cs := by
  have hspec : ∀ rid, specDecl f d rid = { spec1 f (wl, wr) rid with signCheck := (windowOf d).2.2.2 } := by
    intro rid
    cases d with
    | scalar w =>
      rw [windowResult_scalar] at hd
      simp only [Except.ok.injEq, Prod.mk.injEq] at hd; obtain ⟨rfl, rfl⟩ := hd; rfl
    | pair a b =>
      rw [windowResult_pair] at hd
      split at hd
      · cases hd
      · simp only [Except.ok.injEq, Prod.mk.injEq] at hd; obtain ⟨rfl, rfl⟩ := hd; rfl
    | other => rw [windowResult_other] at hd; cases hd
  unfold runOverlapDecl runOverlap
  cases cs with
  | nil => rfl
  | cons c rest =>
    simp only
    cases c.runId with
    | none => rfl
    | some rid =>
      simp only [hspec rid]
      rw [runDicts_signCheck (spec1 f (wl, wr) rid) _ hl hr]
      try rfl

/-! ### the two boundary formulas of `do_compute` -/

/-- a successful call (`step1` = `doCompute` for one kind and one output, `doCompute_spec1`) split its results at
`invalidBeyond` of the batch end, set `sent_until` to the start of what it withheld, and split its input batch `I` at
`cacheInputsBeyond` of that -/
theorem step1_boundaries {f : List Row → List Row} {w : Int × Int} {rid : String} {old : Option Chunk} {s : Int}
    {X out cr ci : Chunk} (h : step1 f w rid old s X = .ok (out, cr, ci)) :
    ∃ (I R' i0 : Chunk),
      (match old with
         | none => Except.ok X
         | some o => concatenate [o, X] false) = .ok I ∧
      R'.split (invalidBeyond I.stop w.2) true = .ok (out, cr) ∧
      I.split (cacheInputsBeyond cr.start w.1) true = .ok (i0, ci) := by
  obtain ⟨I, R, r0, R', i0, h1, _, _, _, _, h5, h6⟩ := step1_inv h
  exact ⟨I, R', i0, h1, h5, h6⟩

/-- a successful run had a non-negative window, whatever the input was (the tuple form rejects negative elements
before anything is computed) -/
theorem runOverlap_ok_nonneg {f : List Row → List Row} {wl wr : Int} {cs outs : List Chunk}
    (h : runOverlap f (wl, wr) cs = .ok outs) : 0 ≤ wl ∧ 0 ≤ wr := by
  unfold runOverlap at h
  split at h; · cases h
  split at h; · cases h
  split at h; · cases h
  rename_i c rest _ rid _ _ ds hds
  simp only [runDicts] at hds
  split at hds; · cases hds
  rename_i outs1 st1 hloop
  unfold iterLoop at hloop
  split at hloop; · cases hloop
  rename_i inp buf' _
  have hd := doCompute_spec1 f (wl, wr) rid c.kind none [] 0 inp
  have hd' : doCompute (spec1 f (wl, wr) rid) State.init [(c.kind, inp)] = _ := hd
  rw [hd'] at hloop
  split at hloop; · cases hloop
  rename_i out st2 hdc
  split at hdc; · cases hdc
  rename_i o cr ci hst
  obtain ⟨_, _, _, _, _, _, h1, h2, _⟩ := step1_inv hst
  exact ⟨h1, h2⟩

end Strax.Overlap
