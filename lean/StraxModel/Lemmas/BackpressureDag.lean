import StraxModel.Lemmas.Backpressure
/-
  C13 for ANY wiring: what one mailbox guarantees whoever its sender and readers are, whatever their drive flags,
  lazy or eager, either gate rule — as long as nobody kills it and its (single) sender numbers automatically.
  This is the part of the rest bound that does not depend on the shape of the plugin graph.
-/
namespace Strax.Backpressure
open Strax Strax.Mailbox

/-- the counting part of `MBOk` -/
structure MBCnt (mb : MB) (c : Nat) : Prop where
  cap : mb.cap = some c
  alive : mb.killed = false
  nfk : mb.forceKilled = false
  capOk : mb.heap.length ≤ c
  below : ∀ k, hasNum mb.heap k = true → k < mb.nSent
  full : ∀ k, minNext mb.subs ≤ k → k < mb.nSent → hasNum mb.heap k = true
  nextLe : ∀ sub ∈ mb.subs, sub.next ≤ mb.nSent
  ne : mb.subs ≠ []

theorem MBCnt.minLe {mb : MB} {c} (h : MBCnt mb c) : minNext mb.subs ≤ mb.nSent := by
  obtain ⟨s, hs, he⟩ := minNext_mem h.ne
  rw [← he]; exact h.nextLe s hs

theorem MBCnt.backlog_sub {mb : MB} {c} (h : MBCnt mb c) {sub : Sub} (hs : sub ∈ mb.subs) : mb.nSent ≤ sub.next + c := by
  have hsub : ∀ k, minNext mb.subs ≤ k → k < minNext mb.subs + (mb.nSent - minNext mb.subs) → k ∈ mb.heap.map (·.1) := by
    intro k h1 h2
    exact (hasNum_iff_mem _ _).mp (h.full k h1 (by have := h.minLe; omega))
  have := length_ge_of_range_subset _ _ _ hsub
  simp only [List.length_map] at this
  have := h.capOk
  have := minNext_le_of_mem hs
  omega

theorem MBCnt.flags {mb : MB} {c} (h : MBCnt mb c) (f g : Option Bool) (b : Bool) :
    MBCnt { mb with fetchFlag := f, writeFlag := g, closed := b } c :=
  ⟨h.cap, h.alive, h.nfk, h.capOk, h.below, h.full, h.nextLe, h.ne⟩

theorem MBCnt.nfic {mb : MB} {c} (h : MBCnt mb c) : MBCnt mb.notifyFetchIfCan c := by
  unfold MB.notifyFetchIfCan MB.notifyFetch
  split
  · exact ⟨h.cap, h.alive, h.nfk, h.capOk, h.below, h.full, h.nextLe, h.ne⟩
  · exact h

theorem MBCnt.push {mb : MB} {c} (h : MBCnt mb c) (hw : mb.heap.length < c) (m : Msg) : MBCnt (mb.push mb.nSent m) c := by
  have hsubs : (mb.push mb.nSent m).subs = mb.subs.map Sub.notify := rfl
  have hheap : (mb.push mb.nSent m).heap = mb.heap ++ [(mb.nSent, m)] := rfl
  have hns : (mb.push mb.nSent m).nSent = mb.nSent + 1 := rfl
  refine ⟨h.cap, h.alive, h.nfk, ?_, ?_, ?_, ?_, ?_⟩
  · rw [hheap]; simp; omega
  · intro k hk
    rw [hheap, hasNum_append] at hk
    rw [hns]
    simp only [Bool.or_eq_true, beq_iff_eq] at hk
    rcases hk with hk | hk
    · have := h.below k hk; omega
    · omega
  · intro k h1 h2
    rw [hsubs, minNext_map_notify] at h1
    rw [hheap, hasNum_append]
    rw [hns] at h2
    by_cases hk : k < mb.nSent
    · simp [h.full k h1 hk]
    · have : mb.nSent = k := by omega
      simp [this]
  · intro sub hs
    rw [hsubs] at hs
    obtain ⟨x, hx, rfl⟩ := List.mem_map.mp hs
    rw [hns, notify_next]; have := h.nextLe x hx; omega
  · rw [hsubs]; simpa using h.ne

theorem MBCnt.sendStep {mb mb' : MB} {c} {m : Msg} {out : SendOut} (h : MBCnt mb c) (hcl : mb.closed = false)
    (hs : mb.sendStep none m = some (out, mb')) : MBCnt mb' c := by
  unfold MB.sendStep at hs
  rw [show resolveNum none mb.nSent = mb.nSent from rfl] at hs
  simp only [MB.sendCore] at hs
  have hmin := h.minLe
  have hcw : mb.canWrite = decide (mb.heap.length < c) := by simp [MB.canWrite, h.cap, h.alive]
  split at hs
  · simp at hs
  · have h4 : ¬ mb.nSent < minNext mb.subs := by omega
    rw [if_neg (by simp [hcl]), if_neg (by simp [h.nfk]), if_neg (by simp [h.alive]), if_neg h4] at hs
    split at hs <;> simp only [Option.some.injEq, Prod.mk.injEq] at hs <;> obtain ⟨rfl, rfl⟩ := hs
    · rename_i hc; rw [hcw] at hc; exact h.push (by simpa using hc) m
    · exact ⟨h.cap, h.alive, h.nfk, h.capOk, h.below, h.full, h.nextLe, h.ne⟩
  · split at hs
    · simp only [Option.some.injEq, Prod.mk.injEq] at hs; obtain ⟨rfl, rfl⟩ := hs
      exact ⟨h.cap, h.alive, h.nfk, h.capOk, h.below, h.full, h.nextLe, h.ne⟩
    · rename_i hc
      have hc' : mb.canWrite = true := by simpa using hc
      rw [if_neg (by simp [h.alive])] at hs
      simp only [Option.some.injEq, Prod.mk.injEq] at hs; obtain ⟨rfl, rfl⟩ := hs
      rw [hcw] at hc'; exact h.push (by simpa using hc') m

theorem MBCnt.setSub {mb : MB} {c} (h : MBCnt mb c) {i : Nat} {sub s' : Sub} (hi : mb.subs[i]? = some sub)
    (hn : sub.next ≤ s'.next) (hle : s'.next ≤ mb.nSent) : MBCnt { mb with subs := mb.subs.set i s' } c := by
  refine ⟨h.cap, h.alive, h.nfk, h.capOk, h.below, ?_, ?_, ?_⟩
  · intro k h1 h2
    exact h.full k (Nat.le_trans (minNext_set_mono hi hn) h1) h2
  · intro x hx
    rcases List.mem_or_eq_of_mem_set hx with hx | rfl
    · exact h.nextLe x hx
    · exact hle
  · intro h0
    have := congrArg List.length h0
    simp only [List.length_set, List.length_nil] at this
    exact h.ne (List.length_eq_zero_iff.mp this)

theorem MBCnt.gcHeap {mb : MB} {c} (h : MBCnt mb c) : MBCnt { mb with heap := gc mb.heap mb.subs } c := by
  refine ⟨h.cap, h.alive, h.nfk, ?_, ?_, ?_, h.nextLe, h.ne⟩
  · exact Nat.le_trans (gc_length_le _ _) h.capOk
  · intro k hk
    simp only [hasNum_gc, Bool.and_eq_true] at hk
    exact h.below k hk.1
  · intro k h1 h2
    simp only [hasNum_gc, Bool.and_eq_true, decide_eq_true_eq]
    exact ⟨h.full k h1 h2, h1⟩

theorem MBCnt.readStep {mb mb' : MB} {c} {i : Nat} {out : ReadOut} (h : MBCnt mb c)
    (hs : mb.readStep i = some (out, mb')) : MBCnt mb' c := by
  simp only [MB.readStep] at hs
  split at hs
  · simp at hs
  · rename_i sub hi
    have hmem : sub ∈ mb.subs := List.mem_of_getElem? hi
    split at hs
    · simp at hs
    · simp only [h.alive, Bool.or_false, Bool.false_eq_true, if_false] at hs
      split at hs
      · split at hs <;> simp only [Option.some.injEq, Prod.mk.injEq] at hs <;> obtain ⟨rfl, rfl⟩ := hs
        · exact (h.setSub (s' := { sub with waitingFor := some sub.next, flag := some false }) hi (Nat.le_refl _)
            (h.nextLe sub hmem)).nfic
        · exact h.setSub (s' := { sub with flag := some false }) hi (Nat.le_refl _) (h.nextLe sub hmem)
      · simp only [Option.some.injEq, Prod.mk.injEq] at hs
        obtain ⟨rfl, rfl⟩ := hs
        have hbel := collect_below h.below mb.heap.length sub.next (h.nextLe sub hmem)
        generalize collect mb.heap mb.heap.length sub.next = msgs at *
        have hok := (h.setSub (s' := { sub with next := sub.next + msgs.length, waitingFor := none, flag := none }) hi
          (by simp) hbel).gcHeap
        exact (hok.nfic).flags _ _ _

/-- a mailbox with capacity `c`, any mode, any gate rule, subscribers with any drive flags -/
def freshMb (c : Nat) (lazy : Bool) (rule : GateRule) (drive : List Bool) : MB :=
  { cap := some c, lazy := lazy, gateRule := rule, heap := [],
    subs := drive.map fun d => { next := 0, waitingFor := none, canDrive := d, flag := none },
    nSent := 0, closed := false, killed := false, forceKilled := false, writeFlag := none, fetchFlag := none }

/-- everything that can happen to one mailbox of a pipeline that is not killed: its critical sections called by
ANY threads in ANY order (the one sender numbering automatically and not sending after `close`) -/
inductive MBReach (c : Nat) (lazy : Bool) (rule : GateRule) (drive : List Bool) : MB → Prop
  | init : MBReach c lazy rule drive (freshMb c lazy rule drive)
  | gate {mb mb' : MB} {ok : Bool} : MBReach c lazy rule drive mb → mb.gateStep = some (ok, mb') → MBReach c lazy rule drive mb'
  | send {mb mb' : MB} {m : Msg} {out : SendOut} : MBReach c lazy rule drive mb → mb.closed = false →
      mb.sendStep none m = some (out, mb') → MBReach c lazy rule drive mb'
  | close {mb : MB} : MBReach c lazy rule drive mb → MBReach c lazy rule drive { mb with closed := true }
  | read {mb mb' : MB} {i : Nat} {out : ReadOut} : MBReach c lazy rule drive mb → mb.readStep i = some (out, mb') →
      MBReach c lazy rule drive mb'

theorem MBReach.cnt {c : Nat} {lazy : Bool} {rule : GateRule} {drive : List Bool} {mb : MB} (hd : drive ≠ [])
    (h : MBReach c lazy rule drive mb) : MBCnt mb c := by
  induction h with
  | init =>
    refine ⟨rfl, rfl, rfl, by simp [freshMb], ?_, ?_, ?_, by simpa [freshMb] using hd⟩
    · intro k hk; simp [freshMb, hasNum] at hk
    · intro k _ hk; simp [freshMb] at hk
    · intro sub hs; simp only [freshMb, List.mem_map] at hs; obtain ⟨_, _, rfl⟩ := hs; simp
  | gate _ hg ih =>
    obtain ⟨f, rfl, _⟩ := gateStep_shape hg
    exact ⟨ih.cap, ih.alive, ih.nfk, ih.capOk, ih.below, ih.full, ih.nextLe, ih.ne⟩
  | send _ hcl hs ih => exact ih.sendStep hcl hs
  | close _ ih => exact ⟨ih.cap, ih.alive, ih.nfk, ih.capOk, ih.below, ih.full, ih.nextLe, ih.ne⟩
  | read _ hs ih => exact ih.readStep hs

end Strax.Backpressure
