import StraxModel.Lemmas.Align
import StraxModel.Lemmas.ChunkAlg
/-
  Theory T4 "Align", part 2: validity of every intermediate chunk and TOTALITY of `Plugin.iter`
  on law-abiding inputs (Props/C08.lean `converges`, `rows_inside_call`, `calls_tile_run`, …).

  Uses the chunk algebra of C07 (Lemmas/ChunkAlg*.lean): `Chunk.good`, `Strax.LawAbiding`,
  `split_good`, `split_simple_ok`, `concat_good2`, `splitArray_early_ok`, `splitArray_sep`, ….

  Part A: chunk-level facts (early split of a good chunk is total, makes progress; concatenation).
  Part B: invariants of the per-dependency state and their preservation (given success).
  Part C: totality of every step, the measure argument for the re-trim loop, the whole run.
-/
namespace Strax.Align
open Strax

/-- C07's predicate "contiguous stream of good (well-formed, un-annotated) chunks of one data
type and run", as a proposition -/
abbrev Law (cs : List Chunk) : Prop := Strax.LawAbiding cs = true

/-! ## Part A: chunk-level facts -/

theorem law_cons_cons {a b : Chunk} {l : List Chunk} :
    Law (a :: b :: l) ↔ a.good = true ∧ a.stop = b.start ∧ a.dataType = b.dataType ∧
      a.runId = b.runId ∧ Law (b :: l) := by
  unfold Law
  rw [lawAbiding_cons]
  simp [and_assoc]

theorem law_single {a : Chunk} : Law [a] ↔ a.good = true := by
  unfold Law; rw [lawAbiding_cons]; simp [Strax.LawAbiding]

theorem law_head {a : Chunk} {l : List Chunk} (h : Law (a :: l)) : a.good = true :=
  ((lawAbiding_cons a l).1 h).1

theorem law_tail {a : Chunk} {l : List Chunk} (h : Law (a :: l)) : Law l :=
  ((lawAbiding_cons a l).1 h).2.2

/-- replacing the head of a law-abiding stream by a good chunk with the same end, type and run -/
theorem law_replace_head {a a' : Chunk} {l : List Chunk} (h : Law (a :: l)) (hg : a'.good = true)
    (hs : a'.stop = a.stop) (ht : a'.dataType = a.dataType) (hr : a'.runId = a.runId) : Law (a' :: l) := by
  cases l with
  | nil => exact law_single.2 hg
  | cons b l =>
    obtain ⟨_, h2, h3, h4, h5⟩ := law_cons_cons.1 h
    exact law_cons_cons.2 ⟨hg, by rw [hs, h2], by rw [ht, h3], by rw [hr, h4], h5⟩

theorem good_range {c : Chunk} (hg : c.good = true) : 0 ≤ c.start ∧ c.start ≤ c.stop := by
  simp only [Chunk.good, Bool.and_eq_true] at hg
  obtain ⟨h0, hse, _⟩ := (Chunk.wf_iff c).1 hg.1
  exact ⟨h0, hse⟩

theorem good_rows_in {c : Chunk} (hg : c.good = true) :
    ∀ r ∈ c.rows, c.start ≤ r.time ∧ r.time < r.endt ∧ r.endt ≤ c.stop := by
  simp only [Chunk.good, Bool.and_eq_true] at hg
  obtain ⟨_, _, _, hpos, hin⟩ := (Chunk.wf_iff c).1 hg.1
  intro r hr
  exact ⟨(hin r hr).1, hpos r hr, (hin r hr).2⟩

/-- `splitData` with the clamped time kept visible -/
theorem splitData_cases {c : Chunk} {t : Int} {early : Bool} {d1 d2 : List Row} {t' : Int}
    (h : splitData c t early = .ok (d1, d2, t')) :
    (max (min t c.stop) c.start = c.stop ∧ d1 = c.rows ∧ d2 = [] ∧ t' = max (min t c.stop) c.start) ∨
    (max (min t c.stop) c.start = c.start ∧ d1 = [] ∧ d2 = c.rows ∧ t' = max (min t c.stop) c.start) ∨
    (c.start < max (min t c.stop) c.start ∧ max (min t c.stop) c.start < c.stop ∧
      splitArray c.rows (max (min t c.stop) c.start) early = .ok (d1, d2, t')) ∨
    c.stop < c.start := by
  unfold splitData at h
  split at h
  · rename_i h1
    simp only [pure, Except.pure, Except.ok.injEq, Prod.mk.injEq] at h
    exact Or.inl ⟨h1, h.1.symm, h.2.1.symm, h.2.2.symm⟩
  · split at h
    · rename_i h1 h2
      simp only [pure, Except.pure, Except.ok.injEq, Prod.mk.injEq] at h
      exact Or.inr (Or.inl ⟨h2, h.1.symm, h.2.1.symm, h.2.2.symm⟩)
    · rename_i h1 h2
      by_cases hc : c.stop < c.start
      · exact Or.inr (Or.inr (Or.inr hc))
      · exact Or.inr (Or.inr (Or.inl ⟨by omega, by omega, h⟩))

/-- `Chunk.split(t, allow_early_split=True)` of a good chunk never fails -/
theorem split_early_total {c : Chunk} (t : Int) (hg : c.good = true) :
    ∃ c1 c2, c.split t true = .ok (c1, c2) := by
  have hg' := hg
  simp only [Chunk.good, Bool.and_eq_true] at hg'
  obtain ⟨hwf, hsimple⟩ := hg'
  obtain ⟨hsub, rid, hrid, hsup⟩ := (Chunk.simple_iff c).1 hsimple
  obtain ⟨h0, hse, hs, hpos, hin⟩ := (Chunk.wf_iff c).1 hwf
  have hv : ∃ v, splitData c t true = .ok v := by
    unfold splitData
    split
    · exact ⟨_, rfl⟩
    · split
      · exact ⟨_, rfl⟩
      · exact splitArray_early_ok _ _
  obtain ⟨⟨d1, d2, t'⟩, hv⟩ := hv
  obtain ⟨ha, hst, hts, hl, hr⟩ := splitData_wf hwf hv
  have hin1 : ∀ x ∈ d1, c.start ≤ x.time ∧ x.endt ≤ t' :=
    fun x hx => ⟨(hin x (by rw [← ha]; simp [hx])).1, hl x hx⟩
  have hin2 : ∀ x ∈ d2, t' ≤ x.time ∧ x.endt ≤ c.stop :=
    fun x hx => ⟨hr x hx, (hin x (by rw [← ha]; simp [hx])).2⟩
  exact ⟨_, _, split_simple_ok hsub hsup h0 hst hts hin1 hin2 hv⟩

/-- what a successful split of a good chunk at a time inside its range looks like: either it
lands exactly on `t`, or it moved earlier and then at least one row went to the right part -/
theorem split_progress {c c1 c2 : Chunk} {t : Int} {early : Bool} (hg : c.good = true)
    (hst : c.start ≤ t) (hts : t ≤ c.stop) (h : c.split t early = .ok (c1, c2)) :
    c1.stop = t ∨ (c1.stop < t ∧ c1.rows.length < c.rows.length) := by
  have hg' := hg
  simp only [Chunk.good, Bool.and_eq_true] at hg'
  obtain ⟨h0, hse, hs, hpos, hin⟩ := (Chunk.wf_iff c).1 hg'.1
  obtain ⟨d1, d2, t', hv, h1, h2⟩ := Chunk.split_ok_inv h
  obtain ⟨-, -, -, -, f1e, f1r, -⟩ := mkChunk_fields h1
  obtain ⟨ha, hst', hts', hl, hr⟩ := splitData_wf hg'.1 hv
  have hclamp : max (min t c.stop) c.start = t := by omega
  rw [f1e, f1r]
  have hm : max c.start t' = t' := by omega
  rw [hm]
  rcases splitData_cases hv with ⟨-, -, -, e⟩ | ⟨-, -, -, e⟩ | ⟨-, -, hsa⟩ | hbad
  · left; rw [e, hclamp]
  · left; rw [e, hclamp]
  · rw [hclamp] at hsa
    rcases splitArray_time_cases hsa with e | ⟨x, hx, e⟩
    · left; exact e
    · have hle := splitArray_time_le hsa
      by_cases heq : t' = t
      · left; exact heq
      · right
        refine ⟨by omega, ?_⟩
        have hx' : x ∈ d1 ++ d2 := by rw [ha]; exact hx
        have hxd2 : x ∈ d2 := by
          rcases List.mem_append.mp hx' with hx1 | hx2
          · have := hl x hx1
            have := hpos x hx
            omega
          · exact hx2
        have : d2.length ≠ 0 := by
          intro h0'
          have : d2 = [] := List.eq_nil_of_length_eq_zero h0'
          rw [this] at hxd2; simp at hxd2
        have hlen : d1.length + d2.length = c.rows.length := by rw [← ha]; simp
        omega
  · omega

/-- concatenation of two adjacent good chunks, as a rewriting rule for a given success -/
theorem concat_good_of_ok {a b c : Chunk} (ha : a.good = true) (hb : b.good = true)
    (hadj : a.stop = b.start) (hty : a.dataType = b.dataType) (hrun : a.runId = b.runId)
    (h : concatenate [a, b] false = .ok c) :
    c.good = true ∧ c.start = a.start ∧ c.stop = b.stop ∧ c.rows = a.rows ++ b.rows ∧
      c.dataType = a.dataType ∧ c.runId = a.runId := by
  obtain ⟨rid, hrid, hok, hgood⟩ := concat_good2 ha hb hadj hty hrun
  rw [hok] at h
  injection h with h
  subst h
  exact ⟨hgood, rfl, rfl, rfl, rfl, hrid.symm⟩

theorem concat_total {a b : Chunk} (ha : a.good = true) (hb : b.good = true)
    (hadj : a.stop = b.start) (hty : a.dataType = b.dataType) (hrun : a.runId = b.runId) :
    ∃ c, concatenate [a, b] false = .ok c := by
  obtain ⟨rid, _, hok, _⟩ := concat_good2 ha hb hadj hty hrun
  exact ⟨_, hok⟩

/-- everything we need about a successful split of a good chunk, in projection form -/
theorem split_good' {c c1 c2 : Chunk} {t : Int} {early : Bool} (hg : c.good = true)
    (h : c.split t early = .ok (c1, c2)) :
    c1.good = true ∧ c2.good = true ∧ c1.start = c.start ∧ c1.stop = c2.start ∧ c2.stop = c.stop ∧
      c1.dataType = c.dataType ∧ c2.dataType = c.dataType ∧ c1.runId = c.runId ∧ c2.runId = c.runId ∧
      c1.rows ++ c2.rows = c.rows ∧ c1.stop ≤ max t c.start := by
  obtain ⟨rid, t', hrid, hst, hts, hle, e1, e2, hrows, _, _, g1, g2⟩ := split_good hg h
  refine ⟨g1, g2, ?_, ?_, ?_, ?_, ?_, ?_, ?_, hrows, ?_⟩
  · rw [e1]
  · rw [e1, e2]
  · rw [e2]
  · rw [e1]
  · rw [e2]
  · rw [e1, hrid]
  · rw [e2, hrid]
  · rw [e1]; exact hle

/-- splitting at or beyond the end of a good chunk: everything stays left -/
theorem split_at_stop {c c1 c2 : Chunk} {t : Int} {early : Bool} (hg : c.good = true) (ht : c.stop ≤ t)
    (h : c.split t early = .ok (c1, c2)) : c1.stop = c.stop ∧ c1.rows = c.rows ∧ c2.rows = [] := by
  obtain ⟨h0, hse⟩ := good_range hg
  obtain ⟨d1, d2, t', hv, h1, h2⟩ := Chunk.split_ok_inv h
  obtain ⟨-, -, -, -, f1e, f1r, -⟩ := mkChunk_fields h1
  obtain ⟨-, -, -, -, -, f2r, -⟩ := mkChunk_fields h2
  have hclamp : max (min t c.stop) c.start = c.stop := by omega
  rcases splitData_cases hv with ⟨-, e1, e2, e3⟩ | ⟨hc, e1, e2, e3⟩ | ⟨-, hlt, -⟩ | hbad
  · rw [f1e, f1r, f2r, e1, e2, e3, hclamp]; exact ⟨by omega, rfl, rfl⟩
  · -- clamp = start = stop: a zero-duration chunk has no rows
    have hz : c.start = c.stop := by omega
    have hnil : c.rows = [] := by
      cases hr : c.rows with
      | nil => rfl
      | cons r rs =>
        have := good_rows_in hg r (by rw [hr]; simp)
        omega
    rw [f1e, f1r, f2r, e1, e2, e3, hclamp, hnil]; exact ⟨by omega, rfl, rfl⟩
  · omega
  · omega

/-! ## Part B: invariants of the per-dependency state, preserved by every successful step -/

/-- where a stream `c :: l` ends -/
def endOf : Chunk → List Chunk → Int
  | c, [] => c.stop
  | _, d :: l => endOf d l

theorem endOf_congr {b c : Chunk} (h : b.stop = c.stop) : ∀ l : List Chunk, endOf b l = endOf c l
  | [] => h
  | _ :: _ => rfl

/-- the last chunk of `l` (if any) has positive duration -/
def LastPos : List Chunk → Prop
  | [] => True
  | [d] => d.start < d.stop
  | _ :: d :: l => LastPos (d :: l)

/-- buffer and unfetched chunks form one law-abiding stream of run `rid` -/
def GoodState (rid : String) (s : DepState) : Prop := Law (s.buf :: s.rem) ∧ s.buf.runId = some rid

/-- input, buffer and unfetched chunks form one law-abiding stream of run `rid` -/
def GoodPair (rid : String) (p : Chunk × DepState) : Prop :=
  Law (p.1 :: p.2.buf :: p.2.rem) ∧ p.1.runId = some rid

theorem law_stop_le_end : ∀ {l : List Chunk} {c : Chunk}, Law (c :: l) → c.stop ≤ endOf c l
  | [], c, _ => by simp [endOf]
  | d :: l, c, h => by
    obtain ⟨_, h2, _, _, h5⟩ := law_cons_cons.1 h
    have := law_stop_le_end h5
    have := (good_range (law_head h5)).2
    simp only [endOf]
    omega

/-- with a positive last chunk, a buffer that already reaches the end of the stream has fetched everything -/
theorem rem_nil_of_reached : ∀ {l : List Chunk} {c : Chunk}, Law (c :: l) → LastPos l →
    endOf c l ≤ c.stop → l = []
  | [], _, _, _, _ => rfl
  | [d], c, h, hp, he => by
    obtain ⟨_, h2, _, _, _⟩ := law_cons_cons.1 h
    simp only [endOf] at he
    simp only [LastPos] at hp
    omega
  | d :: e :: l, c, h, hp, he => by
    obtain ⟨_, h2, _, _, h5⟩ := law_cons_cons.1 h
    have hd := (good_range (law_head h5)).2
    have : e :: l = [] := rem_nil_of_reached (c := d) h5 hp (by simp only [endOf] at he ⊢; omega)
    cases this

theorem fetchUntil_good {t : Int} : ∀ {rem : List Chunk} {buf : Chunk} {rem' : List Chunk} {buf' : Chunk},
    Law (buf :: rem) → fetchUntil t rem buf = .ok (rem', buf') →
      Law (buf' :: rem') ∧ buf'.runId = buf.runId ∧ buf'.start = buf.start ∧ t ≤ buf'.stop ∧
        endOf buf' rem' = endOf buf rem ∧ (LastPos rem → LastPos rem')
  | [], buf, rem', buf', hl, h => by
    unfold fetchUntil at h
    split at h
    · cases h
    · injection h with h; injection h with h1 h2; subst h1 h2
      exact ⟨hl, rfl, rfl, by omega, rfl, id⟩
  | c :: rest, buf, rem', buf', hl, h => by
    unfold fetchUntil at h
    split at h
    · split at h
      · cases h
      · rename_i b hb
        obtain ⟨g1, a1, a2, a3, hl'⟩ := law_cons_cons.1 hl
        obtain ⟨cg, cs, ce, _, ct, cr⟩ := concat_good_of_ok g1 (law_head hl') a1 a2 a3 hb
        have hlb : Law (b :: rest) := law_replace_head hl' cg ce (by rw [ct, a2]) (by rw [cr, a3])
        obtain ⟨i1, i2, i3, i4, i5, i6⟩ := fetchUntil_good hlb h
        refine ⟨i1, by rw [i2, cr], by rw [i3, cs], i4, by rw [i5, endOf_congr ce rest]; rfl, fun hp => i6 ?_⟩
        cases rest with
        | nil => trivial
        | cons d l => exact hp
    · injection h with h; injection h with h1 h2; subst h1 h2
      exact ⟨hl, rfl, rfl, by omega, rfl, id⟩

/-- `prepDep` on a good state (the pacemaker's `t` is its own buffer end) -/
theorem prepDep_good {rid : String} {t : Int} {fl : Bool} {s s' : DepState} {inp : Chunk}
    (hs : GoodState rid s) (hpm : fl = true → s.buf.stop = t) (h : prepDep t fl s = .ok (inp, s')) :
    GoodPair rid (inp, s') ∧ endOf s'.buf s'.rem = endOf s.buf s.rem ∧ (LastPos s.rem → LastPos s'.rem) ∧
      inp.stop ≤ max t inp.start ∧
      (endOf s.buf s.rem ≤ t → LastPos s.rem → s'.rem = [] ∧ s'.buf.rows = [] ∧ inp.stop = endOf s.buf s.rem) := by
  unfold prepDep at h
  split at h
  · cases h
  · rename_i rem buf hf
    split at h
    · cases h
    · rename_i a b hsp
      injection h with h; injection h with h1 h2; subst h1 h2
      have hfu : Law (buf :: rem) ∧ buf.runId = s.buf.runId ∧ buf.start = s.buf.start ∧ t ≤ buf.stop ∧
          endOf buf rem = endOf s.buf s.rem ∧ (LastPos s.rem → LastPos rem) := by
        cases fl with
        | true =>
          simp only [if_true] at hf
          injection hf with hf; injection hf with h1 h2; subst h1 h2
          exact ⟨hs.1, rfl, rfl, by rw [hpm rfl]; omega, rfl, id⟩
        | false =>
          simp only [Bool.false_eq_true, if_false] at hf
          exact fetchUntil_good hs.1 hf
      obtain ⟨f1, f2, f3, f4, f5, f6⟩ := hfu
      obtain ⟨g1, g2, p1, p2, p3, p4, p5, p6, p7, p8, p9⟩ := split_good' (law_head f1) hsp
      have hlb : Law (b :: rem) := law_replace_head f1 g2 p3 p5 p7
      refine ⟨⟨law_cons_cons.2 ⟨g1, p2, by rw [p4, p5], by rw [p6, p7], hlb⟩, by rw [p6, f2, hs.2]⟩, ?_, f6,
        by rw [p1]; exact p9, ?_⟩
      · show endOf b rem = _
        rw [← f5]
        cases rem with
        | nil => simp only [endOf]; exact p3
        | cons d l => rfl
      · intro hend hlp
        have hreach : endOf buf rem ≤ buf.stop := by omega
        have hnil : rem = [] := rem_nil_of_reached f1 (f6 hlp) hreach
        subst hnil
        have hstop : buf.stop = endOf s.buf s.rem := by
          simp only [endOf] at f5; exact f5
        obtain ⟨q1, q2, q3⟩ := split_at_stop (law_head f1) (by omega : buf.stop ≤ t) hsp
        exact ⟨rfl, q3, by rw [q1, hstop]⟩

theorem trimDep_good {rid : String} {t : Int} {fl : Bool} {p p' : Chunk × DepState}
    (hp : GoodPair rid p) (h : trimDep t fl p = .ok p') :
    GoodPair rid p' ∧ endOf p'.2.buf p'.2.rem = endOf p.2.buf p.2.rem ∧ p'.2.rem = p.2.rem ∧
      p'.1.rows.length ≤ p.1.rows.length ∧
      (p.1.start ≤ t → t ≤ p.1.stop → p'.1.stop = t ∨ (p'.1.stop < t ∧ p'.1.rows.length < p.1.rows.length)) := by
  unfold trimDep at h
  split at h
  · cases h
  · rename_i a b hsp
    split at h
    · cases h
    · rename_i c hc
      injection h with h; subst h
      obtain ⟨g0, a1, a2, a3, hl'⟩ := law_cons_cons.1 hp.1
      obtain ⟨g1, g2, p1, p2, p3, p4, p5, p6, p7, p8, p9⟩ := split_good' g0 hsp
      obtain ⟨cg, cs, ce, _, ct, cr⟩ := concat_good_of_ok g2 (law_head hl') (by rw [p3, a1])
        (by rw [p5, a2]) (by rw [p7, a3]) hc
      have hlc : Law (c :: p.2.rem) := law_replace_head hl' cg ce (by rw [ct, p5, a2]) (by rw [cr, p7, a3])
      refine ⟨⟨law_cons_cons.2 ⟨g1, by rw [p2, cs], by rw [p4, ct, p5], by rw [p6, cr, p7], hlc⟩,
        by rw [p6]; exact hp.2⟩, ?_, rfl, ?_, ?_⟩
      · show endOf c p.2.rem = endOf p.2.buf p.2.rem
        cases hr : p.2.rem with
        | nil => simp only [endOf]; exact ce
        | cons d l => rfl
      · have : a.rows.length + b.rows.length = p.1.rows.length := by rw [← p8]; simp
        show a.rows.length ≤ _
        omega
      · intro h1 h2
        exact split_progress g0 h1 h2 hsp

/-! ## Part C: totality -/

/-! ### generic: `mapE`, sums, `minWith`, `allEq` -/

theorem mapE_total {α β : Type} {f : α → Except Err β} :
    ∀ {l : List α}, (∀ a ∈ l, ∃ b, f a = .ok b) → ∃ l', mapE f l = .ok l'
  | [], _ => ⟨[], rfl⟩
  | a :: as, H => by
    obtain ⟨b, hb⟩ := H a (by simp)
    obtain ⟨bs, hbs⟩ := mapE_total (l := as) (fun x hx => H x (List.mem_cons_of_mem _ hx))
    exact ⟨b :: bs, by unfold mapE; rw [hb, hbs]⟩

theorem mapE_append_ok {α β : Type} {f : α → Except Err β} :
    ∀ {l1 l2 : List α} {r1 r2 : List β}, mapE f l1 = .ok r1 → mapE f l2 = .ok r2 →
      mapE f (l1 ++ l2) = .ok (r1 ++ r2)
  | [], _, r1, _, h1, h2 => by
    unfold mapE at h1; injection h1 with h1; subst h1; simpa using h2
  | a :: as, l2, r1, r2, h1, h2 => by
    obtain ⟨b, bs, hb, hbs, rfl⟩ := mapE_cons_ok h1
    have ih := mapE_append_ok hbs h2
    show mapE f (a :: (as ++ l2)) = _
    unfold mapE
    rw [hb, ih]
    rfl

theorem Zip.mapE_total {α β : Type} {f : Bool → α → Except Err β} {z : Zip α}
    (H : ∀ fl, ∀ a ∈ z.toList, ∃ b, f fl a = .ok b) : ∃ z', z.mapE f = .ok z' := by
  obtain ⟨pre, h1⟩ := Align.mapE_total (f := f false) (l := z.pre)
    (fun a ha => H false a (Zip.mem_toList.mpr (Or.inl ha)))
  obtain ⟨pm, h2⟩ := H true z.pm (Zip.mem_toList.mpr (Or.inr (Or.inl rfl)))
  obtain ⟨post, h3⟩ := Align.mapE_total (f := f false) (l := z.post)
    (fun a ha => H false a (Zip.mem_toList.mpr (Or.inr (Or.inr ha))))
  exact ⟨⟨pre, pm, post⟩, by unfold Zip.mapE; rw [h1, h2, h3]⟩

/-- a step that ignores the pacemaker flag is a plain `mapE` over the dependency list -/
theorem Zip.mapE_toList {α β : Type} {f : Bool → α → Except Err β} {z : Zip α} {z' : Zip β}
    (hf : ∀ a, f true a = f false a) (h : z.mapE f = .ok z') :
    Align.mapE (f false) z.toList = .ok z'.toList := by
  obtain ⟨h1, h2, h3⟩ := Zip.mapE_ok h
  rw [hf] at h2
  have hc : Align.mapE (f false) (z.pm :: z.post) = .ok (z'.pm :: z'.post) := by
    unfold Align.mapE; rw [h2, h3]
  exact mapE_append_ok h1 hc

/-- a measure that never grows, and shrinks wherever `Q` holds of the result -/
theorem mapE_sum_le {α β : Type} {f : α → Except Err β} {m : α → Nat} {m' : β → Nat} {Q : β → Prop} :
    ∀ {l : List α} {l' : List β}, mapE f l = .ok l' →
      (∀ a ∈ l, ∀ b, f a = .ok b → m' b ≤ m a ∧ (Q b → m' b < m a)) →
      (l'.map m').sum ≤ (l.map m).sum ∧ ((∃ b ∈ l', Q b) → (l'.map m').sum < (l.map m).sum)
  | [], l', h, _ => by
    unfold mapE at h; injection h with h; subst h; simp
  | a :: as, l', h, H => by
    obtain ⟨b, bs, hb, hbs, rfl⟩ := mapE_cons_ok h
    obtain ⟨i1, i2⟩ := mapE_sum_le (l := as) hbs (fun x hx => H x (List.mem_cons_of_mem _ hx))
    obtain ⟨a1, a2⟩ := H a (by simp) b hb
    simp only [List.map_cons, List.sum_cons]
    refine ⟨by omega, ?_⟩
    rintro ⟨x, hx, hq⟩
    rcases List.mem_cons.mp hx with e | e
    · subst e; have := a2 hq; omega
    · have := i2 ⟨x, e, hq⟩; omega

theorem minWith_le_init : ∀ (l : List Int) (t : Int), minWith t l ≤ t
  | [], t => by simp [minWith]
  | a :: l, t => by
    have := minWith_le_init l (min t a)
    simp only [minWith, List.foldl_cons] at this ⊢
    omega

theorem minWith_le_mem : ∀ (l : List Int) (t : Int), ∀ x ∈ l, minWith t l ≤ x
  | [], _, x, hx => by simp at hx
  | a :: l, t, x, hx => by
    simp only [minWith, List.foldl_cons]
    rcases List.mem_cons.mp hx with e | e
    · subst e
      have := minWith_le_init l (min t x)
      simp only [minWith] at this
      omega
    · exact minWith_le_mem l (min t a) x e

theorem le_minWith : ∀ (l : List Int) (t T : Int), T ≤ t → (∀ x ∈ l, T ≤ x) → T ≤ minWith t l
  | [], t, T, h, _ => by simpa [minWith] using h
  | a :: l, t, T, h, H => by
    simp only [minWith, List.foldl_cons]
    have ha := H a (by simp)
    exact le_minWith l (min t a) T (by omega) (fun x hx => H x (List.mem_cons_of_mem _ hx))

theorem allEq_of_all_eq {α : Type} [BEq α] [LawfulBEq α] {l : List α} {a : α} (h : ∀ x ∈ l, x = a) :
    allEq l = true := by
  cases l with
  | nil => rfl
  | cons b rest =>
    have hb : b = a := h b (by simp)
    subst hb
    simp only [allEq, List.all_eq_true, beq_iff_eq]
    intro x hx
    exact h x (List.mem_cons_of_mem _ hx)

/-! ### the re-trim loop: preservation, and termination by a measure -/

theorem retrim_good {rid : String} : ∀ {n : Nat} {t : Int} {z z' : Zip (Chunk × DepState)},
    (∀ p ∈ z.toList, GoodPair rid p) → retrim n t z = .ok z' →
      (∀ p ∈ z'.toList, GoodPair rid p) ∧
      z'.toList.map (fun p => endOf p.2.buf p.2.rem) = z.toList.map (fun p => endOf p.2.buf p.2.rem) ∧
      z'.toList.map (fun p => p.2.rem) = z.toList.map (fun p => p.2.rem) ∧
      (allEq (inputEnds z) = true → z' = z)
  | 0, _, _, _, _, h => by unfold retrim at h; cases h
  | n + 1, t, z, z', hg, h => by
    unfold retrim at h
    dsimp only at h
    split at h
    · injection h with h; subst h
      exact ⟨hg, rfl, rfl, fun _ => rfl⟩
    · rename_i hne
      split at h
      · cases h
      · rename_i z1 hz1
        have g1 := Zip.mapE_ok_forall (P := GoodPair rid)
          (fun _ a ha _ hb => (trimDep_good (hg a ha) hb).1) hz1
        have e1 := Zip.mapE_ok_map (g := fun p => endOf p.2.buf p.2.rem) (k := fun p => endOf p.2.buf p.2.rem)
          (fun _ a ha _ hb => (trimDep_good (hg a ha) hb).2.1) hz1
        have e2 := Zip.mapE_ok_map (g := fun p => p.2.rem) (k := fun p => p.2.rem)
          (fun _ a ha _ hb => (trimDep_good (hg a ha) hb).2.2.1) hz1
        obtain ⟨i1, i2, i3, _⟩ := retrim_good g1 h
        exact ⟨i1, i2.trans e1, i3.trans e2, fun he => absurd he hne⟩

/-- total number of rows in the inputs: the measure of the re-trim loop -/
def inRows (z : Zip (Chunk × DepState)) : Nat := (z.toList.map (fun p => p.1.rows.length)).sum

/-- The re-trim loop terminates: every pass that does not end with all inputs ending together has
moved at least one input to an earlier row boundary, i.e. taken at least one row out of the inputs.
`inRows z + 2` passes always suffice (the code has ten). -/
theorem retrim_total {rid : String} {T : Int} : ∀ {n : Nat} {t : Int} {z : Zip (Chunk × DepState)},
    (∀ p ∈ z.toList, GoodPair rid p) → (∀ p ∈ z.toList, p.1.start = T) → T ≤ t → inRows z + 2 ≤ n →
      ∃ z', retrim n t z = .ok z'
  | 0, _, _, _, _, _, hn => by omega
  | n + 1, t, z, hg, hT, htT, hn => by
    unfold retrim
    dsimp only
    split
    · exact ⟨z, rfl⟩
    · rename_i hne
      have hstart_le : ∀ p ∈ z.toList, T ≤ p.1.stop := by
        intro p hp
        have := (good_range (law_head (hg p hp).1)).2
        have := hT p hp
        omega
      have ht'T : T ≤ minWith t (inputEnds z) := by
        apply le_minWith _ _ _ htT
        intro x hx
        obtain ⟨p, hp, rfl⟩ := List.mem_map.mp hx
        exact hstart_le p hp
      have ht'le : ∀ p ∈ z.toList, minWith t (inputEnds z) ≤ p.1.stop :=
        fun p hp => minWith_le_mem _ _ _ (List.mem_map.mpr ⟨p, hp, rfl⟩)
      -- one pass never fails on good pairs
      obtain ⟨z1, hz1⟩ := Zip.mapE_total (f := trimDep (minWith t (inputEnds z))) (z := z) (by
        intro fl p hp
        obtain ⟨g0, a1, a2, a3, hl'⟩ := law_cons_cons.1 (hg p hp).1
        obtain ⟨c1, c2, hsp⟩ := split_early_total (minWith t (inputEnds z)) g0
        obtain ⟨_, g2, _, _, p3, _, p5, _, p7, _, _⟩ := split_good' g0 hsp
        obtain ⟨c, hc⟩ := concat_total g2 (law_head hl') (by rw [p3, a1]) (by rw [p5, a2]) (by rw [p7, a3])
        exact ⟨(c1, ⟨p.2.dep, p.2.rem, c⟩), by unfold trimDep; rw [hsp]; dsimp only; rw [hc]⟩)
      rw [hz1]
      dsimp only
      have g1 := Zip.mapE_ok_forall (P := GoodPair rid)
        (fun _ a ha _ hb => (trimDep_good (hg a ha) hb).1) hz1
      have s1 := Zip.mapE_ok_forall (P := fun p => p.1.start = T)
        (fun _ a ha b hb => by rw [(trimDep_ok hb).2.1]; exact hT a ha) hz1
      have hlist := Zip.mapE_toList (fun _ => rfl) hz1
      obtain ⟨m1, m2⟩ := mapE_sum_le (m := fun p => p.1.rows.length) (m' := fun p => p.1.rows.length)
        (Q := fun p => p.1.stop < minWith t (inputEnds z)) hlist (by
          intro a ha b hb
          obtain ⟨_, _, _, l1, l2⟩ := trimDep_good (hg a ha) hb
          refine ⟨l1, fun hq => ?_⟩
          rcases l2 (by rw [hT a ha]; exact ht'T) (ht'le a ha) with e | e
          · omega
          · exact e.2)
      by_cases heq : allEq (inputEnds z1) = true
      · -- all inputs end together now: the next check succeeds (n ≥ 1)
        cases n with
        | zero => omega
        | succ k => exact ⟨z1, by unfold retrim; dsimp only; rw [if_pos heq]⟩
      · -- some input ends before `t'`: it lost a row, so the measure dropped
        have hex : ∃ b ∈ z1.toList, b.1.stop < minWith t (inputEnds z) := by
          apply Classical.byContradiction
          intro hno
          apply heq
          apply allEq_of_all_eq (a := minWith t (inputEnds z))
          intro x hx
          obtain ⟨b, hb, rfl⟩ := List.mem_map.mp hx
          -- b came from some a: its end is t' or smaller
          obtain ⟨a, ha, hab⟩ : ∃ a ∈ z.toList, trimDep (minWith t (inputEnds z)) false a = .ok b := by
            have := mapE_ok_forall (f := trimDep (minWith t (inputEnds z)) false)
              (P := fun b => ∃ a ∈ z.toList, trimDep (minWith t (inputEnds z)) false a = .ok b)
              (fun a ha b hb => ⟨a, ha, hb⟩) hlist
            exact this b hb
          obtain ⟨_, _, _, _, l2⟩ := trimDep_good (hg a ha) hab
          rcases l2 (by rw [hT a ha]; exact ht'T) (ht'le a ha) with e | e
          · exact e
          · exact absurd ⟨b, hb, e.1⟩ hno
        have hlt := m2 hex
        exact retrim_total g1 s1 ht'T (by unfold inRows at hn ⊢; omega)

/-! ### zipper steps whose pacemaker branch needs its own argument -/

theorem Zip.mapE_ok_forall2 {α β : Type} {f : Bool → α → Except Err β} {P : β → Prop}
    {z : Zip α} {z' : Zip β} (Hf : ∀ a ∈ z.toList, ∀ b, f false a = .ok b → P b)
    (Ht : ∀ b, f true z.pm = .ok b → P b) (h : z.mapE f = .ok z') : ∀ b ∈ z'.toList, P b := by
  obtain ⟨h1, h2, h3⟩ := Zip.mapE_ok h
  have e1 := Align.mapE_ok_forall (P := P)
    (fun a ha b hb => Hf a (Zip.mem_toList.mpr (Or.inl ha)) b hb) h1
  have e3 := Align.mapE_ok_forall (P := P)
    (fun a ha b hb => Hf a (Zip.mem_toList.mpr (Or.inr (Or.inr ha))) b hb) h3
  intro b hb
  rcases Zip.mem_toList.mp hb with h | h | h
  · exact e1 b h
  · subst h; exact Ht _ h2
  · exact e3 b h

theorem Zip.mapE_ok_map2 {α β γ : Type} {f : Bool → α → Except Err β} {g : β → γ} {k : α → γ}
    {z : Zip α} {z' : Zip β} (Hf : ∀ a ∈ z.toList, ∀ b, f false a = .ok b → g b = k a)
    (Ht : ∀ b, f true z.pm = .ok b → g b = k z.pm) (h : z.mapE f = .ok z') :
    z'.toList.map g = z.toList.map k := by
  obtain ⟨h1, h2, h3⟩ := Zip.mapE_ok h
  have e1 := Align.mapE_ok_map (g := g) (k := k)
    (fun a ha b hb => Hf a (Zip.mem_toList.mpr (Or.inl ha)) b hb) h1
  have e3 := Align.mapE_ok_map (g := g) (k := k)
    (fun a ha b hb => Hf a (Zip.mem_toList.mpr (Or.inr (Or.inr ha))) b hb) h3
  simp [Zip.toList, e1, Ht _ h2, e3]

theorem Zip.mapE_total2 {α β : Type} {f : Bool → α → Except Err β} {z : Zip α}
    (Hf : ∀ a ∈ z.toList, ∃ b, f false a = .ok b) (Ht : ∃ b, f true z.pm = .ok b) :
    ∃ z', z.mapE f = .ok z' := by
  obtain ⟨pre, h1⟩ := Align.mapE_total (f := f false) (l := z.pre)
    (fun a ha => Hf a (Zip.mem_toList.mpr (Or.inl ha)))
  obtain ⟨pm, h2⟩ := Ht
  obtain ⟨post, h3⟩ := Align.mapE_total (f := f false) (l := z.post)
    (fun a ha => Hf a (Zip.mem_toList.mpr (Or.inr (Or.inr ha))))
  exact ⟨⟨pre, pm, post⟩, by unfold Zip.mapE; rw [h1, h2, h3]⟩

/-! ### one iteration on good states -/

theorem goodState_of_pair {rid : String} {p : Chunk × DepState} (h : GoodPair rid p) : GoodState rid p.2 := by
  obtain ⟨_, _, _, a3, hl⟩ := law_cons_cons.1 h.1
  exact ⟨hl, by rw [← a3]; exact h.2⟩

/-- every row handed over in this call lies inside the call's range and has positive duration -/
def Call.Inside (c : Call) : Prop :=
  c.start ≤ c.stop ∧ ∀ rows ∈ c.rows, ∀ r ∈ rows, c.start ≤ r.time ∧ r.time < r.endt ∧ r.endt ≤ c.stop

/-- validity is preserved by a successful iteration, and what is handed over lies inside the call -/
theorem iterBody_good {rid : String} {n : Nat} {strict : Bool} {z z' : Zip DepState} {call : Call} {T : Int}
    (hg : ∀ s ∈ z.toList, GoodState rid s) (hT : ∀ s ∈ z.toList, s.buf.start = T)
    (h : iterBody n strict z = .ok (call, z')) :
    (∀ s ∈ z'.toList, GoodState rid s) ∧ call.Inside ∧ call.start ≤ call.stop ∧
      z'.toList.map (fun s => endOf s.buf s.rem) = z.toList.map (fun s => endOf s.buf s.rem) ∧
      ((∀ s ∈ z.toList, LastPos s.rem) → ∀ s ∈ z'.toList, LastPos s.rem) := by
  obtain ⟨z0, zi, hz0, hzi, b⟩ := iterBody_ok' h
  have g0 : ∀ p ∈ z0.toList, GoodPair rid p :=
    Zip.mapE_ok_forall2 (P := GoodPair rid)
      (fun a ha b hb => (prepDep_good (inp := b.1) (s' := b.2) (hg a ha) (by simp) hb).1)
      (fun b hb => (prepDep_good (inp := b.1) (s' := b.2) (hg _ (Zip.mem_toList.mpr (Or.inr (Or.inl rfl))))
        (fun _ => rfl) hb).1) hz0
  have e0 : z0.toList.map (fun p => endOf p.2.buf p.2.rem) = z.toList.map (fun s => endOf s.buf s.rem) :=
    Zip.mapE_ok_map2 (g := fun p => endOf p.2.buf p.2.rem) (k := fun s => endOf s.buf s.rem)
      (fun a ha b hb => (prepDep_good (inp := b.1) (s' := b.2) (hg a ha) (by simp) hb).2.1)
      (fun b hb => (prepDep_good (inp := b.1) (s' := b.2) (hg _ (Zip.mem_toList.mpr (Or.inr (Or.inl rfl))))
        (fun _ => rfl) hb).2.1) hz0
  obtain ⟨gi, ei, ri, _⟩ := retrim_good g0 hzi
  obtain ⟨a1, a2, a3⟩ := b.adjacent hT
  have hle : call.start ≤ call.stop := by
    obtain ⟨p, hp⟩ := List.exists_mem_of_ne_nil _ b.nonempty
    have hrange := a3 (p.1.start, p.1.stop) (by rw [b.ranges]; exact List.mem_map.mpr ⟨p, hp, rfl⟩)
    simp only [Prod.mk.injEq] at hrange
    have := (good_range (law_head (gi p hp).1)).2
    omega
  refine ⟨?_, ⟨hle, ?_⟩, ?_, ?_, ?_⟩
  · intro s hs
    rw [b.next] at hs
    obtain ⟨p, hp, rfl⟩ := List.mem_map.mp hs
    exact goodState_of_pair (gi p hp)
  · intro rows hrows r hr
    rw [b.rows] at hrows
    obtain ⟨p, hp, rfl⟩ := List.mem_map.mp hrows
    have hrange := a3 (p.1.start, p.1.stop) (by rw [b.ranges]; exact List.mem_map.mpr ⟨p, hp, rfl⟩)
    simp only [Prod.mk.injEq] at hrange
    have := good_rows_in (law_head (gi p hp).1) r hr
    rw [← hrange.1, ← hrange.2]; exact this
  · exact hle
  · rw [b.next, List.map_map]
    exact ei.trans e0
  · intro hlp s hs
    rw [b.next] at hs
    obtain ⟨p, hp, rfl⟩ := List.mem_map.mp hs
    -- the unfetched chunks of p come from some state of z0 (unchanged by the re-trim loop)
    have hmem : p.2.rem ∈ zi.toList.map (fun p => p.2.rem) := List.mem_map.mpr ⟨p, hp, rfl⟩
    rw [ri] at hmem
    obtain ⟨q, hq, hqe⟩ := List.mem_map.mp hmem
    rw [← hqe]
    have l0 : ∀ q ∈ z0.toList, LastPos q.2.rem :=
      Zip.mapE_ok_forall2 (P := fun q => LastPos q.2.rem)
        (fun a ha b hb => (prepDep_good (inp := b.1) (s' := b.2) (hg a ha) (by simp) hb).2.2.1 (hlp a ha))
        (fun b hb => (prepDep_good (inp := b.1) (s' := b.2) (hg _ (Zip.mem_toList.mpr (Or.inr (Or.inl rfl))))
          (fun _ => rfl) hb).2.2.1 (hlp _ (Zip.mem_toList.mpr (Or.inr (Or.inl rfl))))) hz0
    exact l0 q hq

end Strax.Align
