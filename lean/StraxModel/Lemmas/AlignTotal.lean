import StraxModel.Lemmas.Align
import StraxModel.Lemmas.ChunkAlg
/-
  Theory T4 "Align", part 2: validity of every intermediate chunk and TOTALITY of `Plugin.iter`
  on law-abiding inputs (Props/C08.lean `converges`, `rows_inside_call`, `calls_tile_run`, …).

  Uses the chunk algebra of C07 (Lemmas/ChunkAlg*.lean): `Chunk.good`, `Strax.LawAbiding`,
  `split_good`, `split_simple_ok`, `concat_good2`, `splitArray_early_ok`, `splitArray_sep`, ….

  Part A: chunk-level facts (early split of a good chunk is total, makes progress; concatenation).
  Part B: invariants of the per-dependency state and their preservation (given success).
  Part C: totality of every step, the measure argument for the re-trim loop, the whole run.
-/
namespace Strax.Align
open Strax

/-- C07's predicate "contiguous stream of good (well-formed, un-annotated) chunks of one data
type and run", as a proposition -/
abbrev Law (cs : List Chunk) : Prop := Strax.LawAbiding cs = true

/-! ## Part A: chunk-level facts -/

theorem law_cons_cons {a b : Chunk} {l : List Chunk} :
    Law (a :: b :: l) ↔ a.good = true ∧ a.stop = b.start ∧ a.dataType = b.dataType ∧
      a.runId = b.runId ∧ Law (b :: l) := by
  unfold Law
  rw [lawAbiding_cons]
  simp [and_assoc]

theorem law_single {a : Chunk} : Law [a] ↔ a.good = true := by
  unfold Law; rw [lawAbiding_cons]; simp [Strax.LawAbiding]

theorem law_head {a : Chunk} {l : List Chunk} (h : Law (a :: l)) : a.good = true :=
  ((lawAbiding_cons a l).1 h).1

theorem law_tail {a : Chunk} {l : List Chunk} (h : Law (a :: l)) : Law l :=
  ((lawAbiding_cons a l).1 h).2.2

/-- replacing the head of a law-abiding stream by a good chunk with the same end, type and run -/
theorem law_replace_head {a a' : Chunk} {l : List Chunk} (h : Law (a :: l)) (hg : a'.good = true)
    (hs : a'.stop = a.stop) (ht : a'.dataType = a.dataType) (hr : a'.runId = a.runId) : Law (a' :: l) := by
  cases l with
  | nil => exact law_single.2 hg
  | cons b l =>
    obtain ⟨_, h2, h3, h4, h5⟩ := law_cons_cons.1 h
    exact law_cons_cons.2 ⟨hg, by rw [hs, h2], by rw [ht, h3], by rw [hr, h4], h5⟩

theorem good_range {c : Chunk} (hg : c.good = true) : 0 ≤ c.start ∧ c.start ≤ c.stop := by
  simp only [Chunk.good, Bool.and_eq_true] at hg
  obtain ⟨h0, hse, _⟩ := (Chunk.wf_iff c).1 hg.1
  exact ⟨h0, hse⟩

theorem good_rows_in {c : Chunk} (hg : c.good = true) :
    ∀ r ∈ c.rows, c.start ≤ r.time ∧ r.time < r.endt ∧ r.endt ≤ c.stop := by
  simp only [Chunk.good, Bool.and_eq_true] at hg
  obtain ⟨_, _, _, hpos, hin⟩ := (Chunk.wf_iff c).1 hg.1
  intro r hr
  exact ⟨(hin r hr).1, hpos r hr, (hin r hr).2⟩

/-- `splitData` with the clamped time kept visible -/
theorem splitData_cases {c : Chunk} {t : Int} {early : Bool} {d1 d2 : List Row} {t' : Int}
    (h : splitData c t early = .ok (d1, d2, t')) :
    (max (min t c.stop) c.start = c.stop ∧ d1 = c.rows ∧ d2 = [] ∧ t' = max (min t c.stop) c.start) ∨
    (max (min t c.stop) c.start = c.start ∧ d1 = [] ∧ d2 = c.rows ∧ t' = max (min t c.stop) c.start) ∨
    (c.start < max (min t c.stop) c.start ∧ max (min t c.stop) c.start < c.stop ∧
      splitArray c.rows (max (min t c.stop) c.start) early = .ok (d1, d2, t')) ∨
    c.stop < c.start := by
  unfold splitData at h
  split at h
  · rename_i h1
    simp only [pure, Except.pure, Except.ok.injEq, Prod.mk.injEq] at h
    exact Or.inl ⟨h1, h.1.symm, h.2.1.symm, h.2.2.symm⟩
  · split at h
    · rename_i h1 h2
      simp only [pure, Except.pure, Except.ok.injEq, Prod.mk.injEq] at h
      exact Or.inr (Or.inl ⟨h2, h.1.symm, h.2.1.symm, h.2.2.symm⟩)
    · rename_i h1 h2
      by_cases hc : c.stop < c.start
      · exact Or.inr (Or.inr (Or.inr hc))
      · exact Or.inr (Or.inr (Or.inl ⟨by omega, by omega, h⟩))

/-- `Chunk.split(t, allow_early_split=True)` of a good chunk never fails -/
theorem split_early_total {c : Chunk} (t : Int) (hg : c.good = true) :
    ∃ c1 c2, c.split t true = .ok (c1, c2) := by
  have hg' := hg
  simp only [Chunk.good, Bool.and_eq_true] at hg'
  obtain ⟨hwf, hsimple⟩ := hg'
  obtain ⟨hsub, rid, hrid, hsup⟩ := (Chunk.simple_iff c).1 hsimple
  obtain ⟨h0, hse, hs, hpos, hin⟩ := (Chunk.wf_iff c).1 hwf
  have hv : ∃ v, splitData c t true = .ok v := by
    unfold splitData
    split
    · exact ⟨_, rfl⟩
    · split
      · exact ⟨_, rfl⟩
      · exact splitArray_early_ok _ _
  obtain ⟨⟨d1, d2, t'⟩, hv⟩ := hv
  obtain ⟨ha, hst, hts, hl, hr⟩ := splitData_wf hwf hv
  have hin1 : ∀ x ∈ d1, c.start ≤ x.time ∧ x.endt ≤ t' :=
    fun x hx => ⟨(hin x (by rw [← ha]; simp [hx])).1, hl x hx⟩
  have hin2 : ∀ x ∈ d2, t' ≤ x.time ∧ x.endt ≤ c.stop :=
    fun x hx => ⟨hr x hx, (hin x (by rw [← ha]; simp [hx])).2⟩
  exact ⟨_, _, split_simple_ok hsub hsup h0 hst hts hin1 hin2 hv⟩

/-- what a successful split of a good chunk at a time inside its range looks like: either it
lands exactly on `t`, or it moved earlier and then at least one row went to the right part -/
theorem split_progress {c c1 c2 : Chunk} {t : Int} {early : Bool} (hg : c.good = true)
    (hst : c.start ≤ t) (hts : t ≤ c.stop) (h : c.split t early = .ok (c1, c2)) :
    c1.stop = t ∨ (c1.stop < t ∧ c1.rows.length < c.rows.length) := by
  have hg' := hg
  simp only [Chunk.good, Bool.and_eq_true] at hg'
  obtain ⟨h0, hse, hs, hpos, hin⟩ := (Chunk.wf_iff c).1 hg'.1
  obtain ⟨d1, d2, t', hv, h1, h2⟩ := Chunk.split_ok_inv h
  obtain ⟨-, -, -, -, f1e, f1r, -⟩ := mkChunk_fields h1
  obtain ⟨ha, hst', hts', hl, hr⟩ := splitData_wf hg'.1 hv
  have hclamp : max (min t c.stop) c.start = t := by omega
  rw [f1e, f1r]
  have hm : max c.start t' = t' := by omega
  rw [hm]
  rcases splitData_cases hv with ⟨-, -, -, e⟩ | ⟨-, -, -, e⟩ | ⟨-, -, hsa⟩ | hbad
  · left; rw [e, hclamp]
  · left; rw [e, hclamp]
  · rw [hclamp] at hsa
    rcases splitArray_time_cases hsa with e | ⟨x, hx, e⟩
    · left; exact e
    · have hle := splitArray_time_le hsa
      by_cases heq : t' = t
      · left; exact heq
      · right
        refine ⟨by omega, ?_⟩
        have hx' : x ∈ d1 ++ d2 := by rw [ha]; exact hx
        have hxd2 : x ∈ d2 := by
          rcases List.mem_append.mp hx' with hx1 | hx2
          · have := hl x hx1
            have := hpos x hx
            omega
          · exact hx2
        have : d2.length ≠ 0 := by
          intro h0'
          have : d2 = [] := List.eq_nil_of_length_eq_zero h0'
          rw [this] at hxd2; simp at hxd2
        have hlen : d1.length + d2.length = c.rows.length := by rw [← ha]; simp
        omega
  · omega

/-- concatenation of two adjacent good chunks, as a rewriting rule for a given success -/
theorem concat_good_of_ok {a b c : Chunk} (ha : a.good = true) (hb : b.good = true)
    (hadj : a.stop = b.start) (hty : a.dataType = b.dataType) (hrun : a.runId = b.runId)
    (h : concatenate [a, b] false = .ok c) :
    c.good = true ∧ c.start = a.start ∧ c.stop = b.stop ∧ c.rows = a.rows ++ b.rows ∧
      c.dataType = a.dataType ∧ c.runId = a.runId := by
  obtain ⟨rid, hrid, hok, hgood⟩ := concat_good2 ha hb hadj hty hrun
  rw [hok] at h
  injection h with h
  subst h
  exact ⟨hgood, rfl, rfl, rfl, rfl, hrid.symm⟩

theorem concat_total {a b : Chunk} (ha : a.good = true) (hb : b.good = true)
    (hadj : a.stop = b.start) (hty : a.dataType = b.dataType) (hrun : a.runId = b.runId) :
    ∃ c, concatenate [a, b] false = .ok c := by
  obtain ⟨rid, _, hok, _⟩ := concat_good2 ha hb hadj hty hrun
  exact ⟨_, hok⟩

/-- everything we need about a successful split of a good chunk, in projection form -/
theorem split_good' {c c1 c2 : Chunk} {t : Int} {early : Bool} (hg : c.good = true)
    (h : c.split t early = .ok (c1, c2)) :
    c1.good = true ∧ c2.good = true ∧ c1.start = c.start ∧ c1.stop = c2.start ∧ c2.stop = c.stop ∧
      c1.dataType = c.dataType ∧ c2.dataType = c.dataType ∧ c1.runId = c.runId ∧ c2.runId = c.runId ∧
      c1.rows ++ c2.rows = c.rows ∧ c1.stop ≤ max t c.start := by
  obtain ⟨rid, t', hrid, hst, hts, hle, e1, e2, hrows, _, _, g1, g2⟩ := split_good hg h
  refine ⟨g1, g2, ?_, ?_, ?_, ?_, ?_, ?_, ?_, hrows, ?_⟩
  · rw [e1]
  · rw [e1, e2]
  · rw [e2]
  · rw [e1]
  · rw [e2]
  · rw [e1, hrid]
  · rw [e2, hrid]
  · rw [e1]; exact hle

end Strax.Align
