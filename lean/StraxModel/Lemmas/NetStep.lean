import StraxModel.Model.Net
/-
  `step` of Model/Net.lean, taken apart: lookup lemmas for the state updates and one characterisation lemma
  (`step_cases`) that lists what a step can be.  Used by the invariants of Lemmas/NetTree.lean.
-/
namespace Strax.Net
open Strax

/-! ### lookups after an update -/

@[simp] theorem setThr_mbs (s : NState) (t : Nat) (ts : TSt) : (s.setThr t ts).mbs = s.mbs := rfl
@[simp] theorem setThr_outcome (s : NState) (t : Nat) (ts : TSt) : (s.setThr t ts).outcome = s.outcome := rfl
@[simp] theorem setThr_thr_length (s : NState) (t : Nat) (ts : TSt) : (s.setThr t ts).thr.length = s.thr.length := by
  simp [NState.setThr]

theorem setThr_thr (s : NState) (t : Nat) (ts : TSt) (u : Nat) :
    (s.setThr t ts).thr[u]? = if t = u then (if u < s.thr.length then some ts else none) else s.thr[u]? := by
  simp only [NState.setThr, List.getElem?_set]
  split
  · rename_i h; subst h; split <;> simp_all
  · rfl

theorem setThr_thr_self (s : NState) (t : Nat) (ts ts0 : TSt) (h : s.thr[t]? = some ts0) : (s.setThr t ts).thr[t]? = some ts := by
  have : t < s.thr.length := (List.getElem?_eq_some_iff.mp h).1
  rw [setThr_thr]; simp [this]

theorem setThr_thr_ne (s : NState) (t u : Nat) (ts : TSt) (h : t ≠ u) : (s.setThr t ts).thr[u]? = s.thr[u]? := by
  simp [setThr_thr, h]

@[simp] theorem modMB_outcome (s : NState) (m : Nat) (f : AMB → AMB) : (s.modMB m f).outcome = s.outcome := by
  unfold NState.modMB; split <;> rfl

@[simp] theorem modMB_thr' (s : NState) (m : Nat) (f : AMB → AMB) : (s.modMB m f).thr = s.thr := by
  unfold NState.modMB; split <;> rfl

@[simp] theorem modMB_mbs_length (s : NState) (m : Nat) (f : AMB → AMB) : (s.modMB m f).mbs.length = s.mbs.length := by
  unfold NState.modMB; split <;> simp

theorem modMB_mbs (s : NState) (m : Nat) (f : AMB → AMB) (k : Nat) :
    (s.modMB m f).mbs[k]? = if m = k then (s.mbs[k]?).map f else s.mbs[k]? := by
  unfold NState.modMB
  cases hm : s.mbs[m]? with
  | none =>
    simp only
    split
    · rename_i h; subst h; simp [hm]
    · rfl
  | some a =>
    simp only [List.getElem?_set]
    split
    · rename_i h; subst h
      obtain ⟨hlt, he⟩ := List.getElem?_eq_some_iff.mp hm
      simp [hlt, he]
    · rfl

theorem modMB_mbs_self (s : NState) (m : Nat) (f : AMB → AMB) (a : AMB) (h : s.mbs[m]? = some a) :
    (s.modMB m f).mbs[m]? = some (f a) := by simp [modMB_mbs, h]

theorem modMB_mbs_ne (s : NState) (m k : Nat) (f : AMB → AMB) (h : m ≠ k) : (s.modMB m f).mbs[k]? = s.mbs[k]? := by
  simp [modMB_mbs, h]

@[simp] theorem modSub_fields (a : AMB) (i : Nat) (f : ASub → ASub) :
    (a.modSub i f).nSent = a.nSent ∧ (a.modSub i f).closed = a.closed ∧ (a.modSub i f).killed = a.killed ∧
    (a.modSub i f).reason = a.reason ∧ (a.modSub i f).subs.length = a.subs.length := by
  unfold AMB.modSub; split <;> simp

theorem modSub_subs (a : AMB) (i : Nat) (f : ASub → ASub) (k : Nat) :
    (a.modSub i f).subs[k]? = if i = k then (a.subs[k]?).map f else a.subs[k]? := by
  unfold AMB.modSub
  cases hi : a.subs[i]? with
  | none =>
    simp only
    split
    · rename_i h; subst h; simp [hi]
    · rfl
  | some sb =>
    simp only [List.getElem?_set]
    split
    · rename_i h; subst h
      obtain ⟨hlt, he⟩ := List.getElem?_eq_some_iff.mp hi
      simp [hlt, he]
    · rfl

/-! ### what a step can be -/

/-- the effect of one step of thread `t` whose state is `ts` with `ts.prog = i :: rest` -/
inductive Effect (net : Net) (s : NState) (t : Nat) (ts : TSt) : Instr → NState → Prop
  /-- only the program counter moves: a gate that is open, a join of an ended thread, a kill instruction without a
  matching exception, or an instruction that names a mailbox / subscriber that does not exist -/
  | advance (i : Instr)
      (hr : ∀ m k, i = .read m k → s.mbs[m]? = none ∨ ∃ a, s.mbs[m]? = some a ∧ a.subs[k]? = none)
      (hs : ∀ m, (i = .send m ∨ i = .close m) → net.mbs[m]? = none ∨ s.mbs[m]? = none)
      (hk1 : ∀ m, i = .killIfExc m → ts.exc = none)
      (hk2 : ∀ m, i = .killIfOwn m → ∀ r, ts.exc ≠ some (true, r))
      (hj : ∀ u, i = .join u → ∀ tu, s.thr[u]? = some tu → tu.prog = [])
      (hn : (∀ e, i ≠ .fail e ∧ i ≠ .die e) ∧ (∀ sv, i ≠ .finish sv) ∧ i ≠ .dropEpi ∧ ∀ l, i ≠ .setEpi l) :
      Effect net s t ts i (s.setThr t ts.advance)
  | readPop (m k : Nat) (a : AMB) (sb : ASub) : s.mbs[m]? = some a → a.subs[k]? = some sb → 0 < sb.buffered →
      Effect net s t ts (.read m k)
        ((s.modMB m fun a => a.modSub k fun sb => { sb with buffered := sb.buffered - 1 }).setThr t ts.advance)
  | readKilled (m k : Nat) (a : AMB) (sb : ASub) : s.mbs[m]? = some a → a.subs[k]? = some sb → sb.buffered = 0 →
      a.killed = true →
      Effect net s t ts (.read m k)
        ((s.modMB m fun a => a.modSub k fun sb => { sb with waiting := none }).setThr t
          (ts.raise false (a.reason.getD .alreadyClosed)))
  | readTake (m k : Nat) (a : AMB) (sb : ASub) : s.mbs[m]? = some a → a.subs[k]? = some sb → sb.buffered = 0 →
      a.killed = false → sb.next < a.nSent →
      Effect net s t ts (.read m k)
        ((s.modMB m fun a => a.modSub k fun sb =>
          { sb with buffered := a.nSent - sb.next - 1, next := a.nSent, waiting := none }).setThr t ts.advance)
  | readWait (m k : Nat) (a : AMB) (sb : ASub) : s.mbs[m]? = some a → a.subs[k]? = some sb → sb.buffered = 0 →
      a.killed = false → ¬ sb.next < a.nSent → sb.waiting = none →
      Effect net s t ts (.read m k) (s.modMB m fun a => a.modSub k fun sb => { sb with waiting := some sb.next })
  | sendOk (m : Nat) (sp : MBSpec) (a : AMB) : net.mbs[m]? = some sp → s.mbs[m]? = some a → a.closed = false →
      a.killed = false → a.heapLen < sp.cap →
      Effect net s t ts (.send m) ((s.modMB m fun a => { a with nSent := a.nSent + 1 }).setThr t ts.advance)
  | closeOk (m : Nat) (sp : MBSpec) (a : AMB) : net.mbs[m]? = some sp → s.mbs[m]? = some a → a.closed = false →
      a.killed = false → a.heapLen < sp.cap →
      Effect net s t ts (.close m)
        ((s.modMB m fun a => { a with nSent := a.nSent + 1, closed := true }).setThr t ts.advance)
  | outClosed (i : Instr) (m : Nat) (a : AMB) : (i = .send m ∨ i = .close m) → s.mbs[m]? = some a → a.closed = true →
      Effect net s t ts i (s.setThr t (ts.raise true .alreadyClosed))
  | outKilled (i : Instr) (m : Nat) (a : AMB) : (i = .send m ∨ i = .close m) → s.mbs[m]? = some a → a.closed = false →
      a.killed = true → Effect net s t ts i (s.setThr t (ts.raise false (a.reason.getD .alreadyClosed)))
  | fail (e : Nat) : Effect net s t ts (.fail e) (s.setThr t (ts.raise true (.inj e)))
  | die (e : Nat) : Effect net s t ts (.die e)
      (s.setThr t { ts with prog := [], exc := (match ts.exc with
        | some x => some x
        | none => some (true, .inj e)) })
  | kill (i : Instr) (m : Nat) (own : Bool) (r : Exc) : ts.exc = some (own, r) →
      (i = .killIfExc m ∨ (i = .killIfOwn m ∧ own = true)) →
      Effect net s t ts i ((s.modMB m fun a => a.kill r).setThr t ts.advance)
  | finish (sv : List Nat) (out : Outcome) :
      out = (match ts.exc with
        | some (_, e) => Outcome.raised e
        | none =>
          match firstSaverExc s.thr sv with
          | some e => .raised e
          | none => .returned) →
      Effect net s t ts (.finish sv) ({ s with outcome := some out }.setThr t ts.advance)
  | dropEpi : Effect net s t ts .dropEpi (s.setThr t { ts.advance with epi := [] })
  | setEpi (ms : List Nat) : Effect net s t ts (.setEpi ms) (s.setThr t { ts.advance with epi := ms.map Instr.killIfExc })

theorem step_cases {net : Net} {s s' : NState} {t : Nat} (h : step net s t = some s') :
    ∃ ts i rest, s.thr[t]? = some ts ∧ ts.prog = i :: rest ∧ Effect net s t ts i s' := by
  unfold step at h
  cases hts : s.thr[t]? with
  | none => simp [hts] at h
  | some ts =>
    simp only [hts] at h
    cases hp : ts.prog with
    | nil => simp [hp] at h
    | cons i rest =>
      refine ⟨ts, i, rest, rfl, hp, ?_⟩
      simp only [hp] at h
      cases i with
      | gate m =>
        have adv : Effect net s t ts (.gate m) (s.setThr t ts.advance) :=
          .advance _ (by simp) (by simp) (by simp) (by simp) (by simp) (by simp)
        simp only at h
        split at h
        · split at h
          · simp only [Option.some.injEq] at h; subst h; exact adv
          · simp at h
        · simp only [Option.some.injEq] at h; subst h; exact adv
      | read m k =>
        simp only at h
        cases hm : s.mbs[m]? with
        | none =>
          simp only [hm, Option.some.injEq] at h; subst h
          exact .advance _ (by intro m' k' he; cases he; exact Or.inl hm) (by simp) (by simp) (by simp) (by simp) (by simp)
        | some a =>
          simp only [hm] at h
          cases hs : a.subs[k]? with
          | none =>
            simp only [hs, Option.some.injEq] at h; subst h
            exact .advance _ (by intro m' k' he; cases he; exact Or.inr ⟨a, hm, hs⟩) (by simp) (by simp) (by simp) (by simp) (by simp)
          | some sb =>
            simp only [hs] at h
            split at h
            · rename_i hb
              simp only [Option.some.injEq] at h; subst h; exact .readPop m k a sb hm hs hb
            · rename_i hb
              have hb0 : sb.buffered = 0 := by omega
              split at h
              · rename_i hk
                simp only [Option.some.injEq] at h; subst h; exact .readKilled m k a sb hm hs hb0 hk
              · rename_i hk
                have hk' : a.killed = false := by simpa using hk
                split at h
                · rename_i hn
                  simp only [Option.some.injEq] at h; subst h; exact .readTake m k a sb hm hs hb0 hk' hn
                · rename_i hn
                  split at h
                  · rename_i hw
                    simp only [Option.some.injEq] at h; subst h
                    exact .readWait m k a sb hm hs hb0 hk' hn (by simpa using hw)
                  · simp at h
      | send m =>
        simp only at h
        split at h
        · rename_i sp a hsp hm
          split at h
          · rename_i hc
            simp only [Option.some.injEq] at h; subst h; exact .outClosed _ m a (Or.inl rfl) hm hc
          · rename_i hc
            have hc' : a.closed = false := by simpa using hc
            split at h
            · rename_i hk
              simp only [Option.some.injEq] at h; subst h; exact .outKilled _ m a (Or.inl rfl) hm hc' hk
            · rename_i hk
              split at h
              · rename_i hl
                simp only [Option.some.injEq] at h; subst h; exact .sendOk m sp a hsp hm hc' (by simpa using hk) hl
              · simp at h
        · rename_i hnone
          simp only [Option.some.injEq] at h; subst h
          refine .advance _ (by simp) ?_ (by simp) (by simp) (by simp) (by simp)
          intro m' he
          rcases he with he | he <;> cases he
          cases h1 : net.mbs[m]? with
          | none => exact Or.inl rfl
          | some sp =>
            cases h2 : s.mbs[m]? with
            | none => exact Or.inr rfl
            | some a => exact (hnone sp a h1 h2).elim
      | close m =>
        simp only at h
        split at h
        · rename_i sp a hsp hm
          split at h
          · rename_i hc
            simp only [Option.some.injEq] at h; subst h; exact .outClosed _ m a (Or.inr rfl) hm hc
          · rename_i hc
            have hc' : a.closed = false := by simpa using hc
            split at h
            · rename_i hk
              simp only [Option.some.injEq] at h; subst h; exact .outKilled _ m a (Or.inr rfl) hm hc' hk
            · rename_i hk
              split at h
              · rename_i hl
                simp only [Option.some.injEq] at h; subst h; exact .closeOk m sp a hsp hm hc' (by simpa using hk) hl
              · simp at h
        · rename_i hnone
          simp only [Option.some.injEq] at h; subst h
          refine .advance _ (by simp) ?_ (by simp) (by simp) (by simp) (by simp)
          intro m' he
          rcases he with he | he <;> cases he
          cases h1 : net.mbs[m]? with
          | none => exact Or.inl rfl
          | some sp =>
            cases h2 : s.mbs[m]? with
            | none => exact Or.inr rfl
            | some a => exact (hnone sp a h1 h2).elim
      | fail e => simp only [Option.some.injEq] at h; subst h; exact .fail e
      | die e => simp only [Option.some.injEq] at h; subst h; exact .die e
      | killIfExc m =>
        simp only at h
        split at h
        · rename_i own r he
          simp only [Option.some.injEq] at h; subst h; exact .kill _ m own r he (Or.inl rfl)
        · rename_i hne
          simp only [Option.some.injEq] at h; subst h
          refine .advance _ (by simp) (by simp) ?_ (by simp) (by simp) (by simp)
          intro m' he; cases he
          exact hne
      | killIfOwn m =>
        simp only at h
        split at h
        · rename_i r he
          simp only [Option.some.injEq] at h; subst h; exact .kill _ m true r he (Or.inr ⟨rfl, rfl⟩)
        · rename_i hne
          simp only [Option.some.injEq] at h; subst h
          refine .advance _ (by simp) (by simp) (by simp) ?_ (by simp) (by simp)
          intro m' he r hx; cases he
          exact hne r hx
      | join u =>
        simp only at h
        split at h
        · rename_i tu htu
          split at h
          · rename_i hend
            simp only [Option.some.injEq] at h; subst h
            refine .advance _ (by simp) (by simp) (by simp) (by simp) ?_ (by simp)
            intro u' he tu' htu'; cases he
            rw [htu] at htu'; cases htu'
            simpa [TSt.ended] using hend
          · simp at h
        · rename_i hnone
          simp only [Option.some.injEq] at h; subst h
          refine .advance _ (by simp) (by simp) (by simp) (by simp) ?_ (by simp)
          intro u' he tu' htu'; cases he
          rw [hnone] at htu'; cases htu'
      | finish sv => simp only [Option.some.injEq] at h; subst h; exact .finish sv _ rfl
      | dropEpi => simp only [Option.some.injEq] at h; subst h; exact .dropEpi
      | setEpi l => simp only [Option.some.injEq] at h; subst h; exact .setEpi l

end Strax.Net
