import StraxModel.Lemmas.PipelineKernels
import StraxModel.Props.C05
/-
  Helper lemmas for property C01, part 9: a mailbox edge (the labelled transition system of C05, any capacity,
  lazy or eager, any number of subscribers, EVERY schedule) realises the identity transport: a producer that sends
  the chunks of a stream in order (plain messages or futures, numbered by `_send_from`) — every subscriber, in every
  final reachable state, has been handed exactly that stream.  Uses C05 `delivery_exact`.  Core Lean only.
-/
namespace Strax.Pipeline
open Strax Strax.Mailbox

/-- the program of a producer that sends chunk number `i` as message payload `i`; `fut i = true`: as a future -/
def streamProg (fut : Nat → Bool) (n : Nat) : List SrcItem :=
  (List.range n).map fun i => .item none (if fut i then .fut i i else .plain i)

/-- what a consumer makes of the messages handed to it: payload `i` is chunk `i` of the sent stream -/
def decodeMsgs (s : List Chunk) (got : List Msg) : List Chunk :=
  got.filterMap fun m => match m with
    | .plain v => s[v]?
    | .fut _ v => s[v]?
    | .stop => none

theorem numbered_streamProg (fut : Nat → Bool) : ∀ (n p : Nat),
    numbered ((List.range' p n).map fun i => SrcItem.item none (if fut i then Msg.fut i i else Msg.plain i)) p =
      (List.range' p n).map fun i => (i, if fut i then Msg.fut i i else Msg.plain i)
  | 0, _ => rfl
  | n + 1, p => by
    simp only [List.range'_succ, List.map_cons, numbered]
    rw [numbered_streamProg fut n (p + 1)]

theorem getMsg_range' (f : Nat → Msg) : ∀ (n p k : Nat), p ≤ k → k < p + n →
    getMsg ((List.range' p n).map fun i => (i, f i)) k = some (f k)
  | 0, p, k, h1, h2 => by omega
  | n + 1, p, k, h1, h2 => by
    simp only [List.range'_succ, List.map_cons, getMsg]
    by_cases hk : p = k
    · subst hk; simp
    · simp only [hk, if_false]
      exact getMsg_range' f n (p + 1) k (by omega) (by omega)

theorem inOrder_range (f : Nat → Msg) (n : Nat) : ∀ k, k ≤ n →
    inOrder ((List.range' 0 n).map fun i => (i, f i)) k = (List.range k).map f
  | 0, _ => rfl
  | k + 1, hk => by
    simp only [inOrder, List.range_succ, List.map_append, List.map_cons, List.map_nil]
    rw [inOrder_range f n k (by omega), getMsg_range' f n 0 k (by omega) (by omega)]
    rfl

theorem decode_range (s : List Chunk) (fut : Nat → Bool) : ∀ k, k ≤ s.length →
    decodeMsgs s ((List.range k).map fun i => if fut i then Msg.fut i i else Msg.plain i) = s.take k
  | 0, _ => by simp [decodeMsgs]
  | k + 1, hk => by
    have ih := decode_range s fut k (by omega)
    simp only [decodeMsgs] at ih ⊢
    rw [List.range_succ, List.map_append, List.filterMap_append, ih]
    have hk' : k < s.length := by omega
    have : s.take (k + 1) = s.take k ++ [s[k]] := by
      rw [List.take_add_one, List.getElem?_eq_getElem hk']; rfl
    rw [this]
    congr 1
    by_cases hf : fut k = true <;> simp [hf, List.getElem?_eq_getElem hk']

/-- **A mailbox edge is the identity transport, for every schedule** (C05 `delivery_exact`). -/
theorem mailbox_delivers (s : List Chunk) (fut : Nat → Bool) (c : Config)
    (hprog : c.prog = streamProg fut s.length) (hv : c.valid = true)
    (st : Sys) (hreach : Reachable c st) (hfin : st.final = true) (i : Nat) (r : Reader) (hr : st.readers[i]? = some r) :
    Transport.ident.run s = .ok (decodeMsgs s r.got) := by
  obtain ⟨hgot, -⟩ := C05.delivery_exact c hv st hreach hfin i r hr
  have hlen : c.prog.length = s.length := by simp [hprog, streamProg]
  rw [hgot, hlen, hprog]
  have hn : numbered (streamProg fut s.length) 0 =
      (List.range' 0 s.length).map fun i => (i, if fut i then Msg.fut i i else Msg.plain i) := by
    have := numbered_streamProg fut s.length 0
    simpa [streamProg, List.range_eq_range'] using this
  rw [hn, inOrder_range _ s.length s.length (Nat.le_refl _), decode_range s fut s.length (Nat.le_refl _)]
  simp [Transport.ident, idRun]

end Strax.Pipeline
