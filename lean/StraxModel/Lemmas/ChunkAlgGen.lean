import StraxModel.Generated.SplitArray
import StraxModel.Lemmas.ChunkAlgSplit
import StraxModel.Model.Chunk
/-
  The translated numba kernel `split_array` (Generated/SplitArray.lean: step function of the loop, regenerated from
  the Python AST on every run) computes the same function as the hand-written model `Strax.splitArray`.
  Core Lean only.
-/
namespace Strax
open Strax.Generated

/-- the model's scan result in the vocabulary of the generated loop (`i_first_beyond = -1` for "none") -/
def encScan (r : ScanRes) : SplitArray.St × Bool :=
  (⟨r.latest, (r.splitI : Int), match r.beyond with | some b => (b : Int) | none => -1⟩, r.broke)

/-- the generated loop, started in a state where `i_first_beyond` is still `-1`, is the model's `scan` -/
theorem genLoop_eq_scan (t : Int) (rows : List Row) (i : Nat) (latest : Int) (splitI : Nat) :
    SplitArray.loop t rows (i : Int) ⟨latest, (splitI : Int), -1⟩ = encScan (scan t rows i latest splitI) := by
  induction rows generalizing i latest splitI with
  | nil => simp [SplitArray.loop, scan, encScan]
  | cons d rest ih =>
    have ih1 := ih (i + 1)
    simp only [Int.natCast_add, Int.cast_ofNat_Int] at ih1
    simp only [SplitArray.loop, SplitArray.step, scan]
    by_cases h1 : d.time ≥ latest <;> by_cases h2 : d.time ≥ t <;>
      by_cases h3 : max latest d.endt > t <;> simp [h1, h2, h3, encScan, ih1]

/-- the generated `split_array` is the model's `splitArray` -/
theorem genSplitArray_eq (data : List Row) (t : Int) (early : Bool) :
    SplitArray.splitArray data t early = splitArray data t early := by
  cases data with
  | nil => simp [SplitArray.splitArray, splitArray, pure, Except.pure]
  | cons d0 tl =>
    have hl := genLoop_eq_scan t (d0 :: tl) 0 (-1) 0
    simp only [Int.cast_ofNat_Int] at hl
    have hlt := scan_splitI_lt t (d0 :: tl) 0 (-1) 0 (d0 :: tl).length (by simp) (by simp)
    by_cases h0 : d0.time ≥ t
    · simp [SplitArray.splitArray, splitArray, pure, Except.pure, h0]
    · simp only [SplitArray.splitArray, splitArray, h0, hl, encScan]
      generalize hs : scan t (d0 :: tl) 0 (-1) 0 = s at hlt
      obtain ⟨si, bey, lat, br⟩ := s
      cases br <;> cases bey <;> cases early <;>
        simp [pure, Except.pure, throw, throwThe, MonadExceptOf.throw] <;> grind
/-- `Chunk.split` (for a chunk whose `is_superrun` does not raise) written with the translated scalar pieces of the
source: the clamp of `t`, the translated `split_array`, the four boundaries of the halves -/
theorem splitCore_eq_generated (c : Chunk) (t : Int) (early : Bool) :
    c.splitCore t early = (do
      let t := SplitArray.splitClamp t c.start c.stop
      let (d1, d2, t) ←
        if t = c.stop then pure (c.rows, [], t)
        else if t = c.start then pure ([], c.rows, t)
        else SplitArray.splitArray c.rows t early
      let (sub1, sub2) := if c.promisedContinuity then splitRuns c.subruns t else (c.subruns, c.subruns)
      let (sup1, sup2) := splitRuns (some c.superrun) t
      let single (s : Option Runs) : Bool := match s with
        | none => true
        | some l => l.length == 1
      let run1 := if single sup1 then c.superrun.head?.map (·.id) else c.runId
      let run2 := if single sup2 then c.superrun.getLast?.map (·.id) else c.runId
      let c1 ← mkChunk c.dataType c.kind run1 (SplitArray.leftStart t c.start c.stop) (SplitArray.leftStop t c.start c.stop)
        d1 sub1 sup1 c.target
      let c2 ← mkChunk c.dataType c.kind run2 (SplitArray.rightStart t c.start c.stop) (SplitArray.rightStop t c.start c.stop)
        d2 sub2 sup2 c.target
      pure (c1, c2)) := by
  have e : SplitArray.splitArray = splitArray := funext fun d => funext fun t => funext fun e => genSplitArray_eq d t e
  rw [e]
  rfl

/-- the two edge tests of `Chunk.split` that bypass `split_array`, as they are in the source -/
theorem genSplit_edge_tests (t start stop : Int) :
    SplitArray.splitAtStop t start stop = decide (t = stop) ∧ SplitArray.splitAtStart t start stop = decide (t = start) :=
  ⟨rfl, rfl⟩

end Strax
