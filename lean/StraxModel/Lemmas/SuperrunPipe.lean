import StraxModel.Lemmas.SuperrunCont
/-
  Property C14, part 5: the whole `superGet` for the basic superrun pipeline (concat loader at the source level,
  one superrun-capable plugin above it, computed on the fly): totality and the exact chunks yielded.
-/
namespace Strax.Superrun
open Strax

/-- the chunk a loader of ordinary run `rid` yields for source chunk `c` -/
def loaderOf (l0 : Level) (rid : String) (c : RawC) : Chunk :=
  ⟨l0.dataType, KIND, some rid, c.start, c.stop, c.rows, none, [⟨rid, c.start, c.stop⟩], l0.target⟩

def rawOf (w : World) (rid : String) : List RawC := (w.src.lookup rid).getD []

/-- what the concat loader at the source level yields, as a plain function of the world -/
def loaderStream (w : World) (l0 : Level) (spec : List String) : List Chunk :=
  spec.flatMap fun rid => (rawOf w rid).map (loaderOf l0 rid)

/-- a source chunk the constructor accepts -/
def RawOK (c : RawC) : Prop := 0 ≤ c.start ∧ c.start ≤ c.stop ∧ RowsIn c.start c.stop c.rows

theorem mapM_mk_loader {l0 : Level} {rid : String} : ∀ (raw : List RawC), (∀ c ∈ raw, RawOK c) →
    raw.mapM (fun c => mkChunk l0.dataType KIND (some rid) c.start c.stop c.rows none none l0.target)
      = .ok (raw.map (loaderOf l0 rid)) := by
  intro raw h
  apply mapM_ok_of_forall
  intro c hc
  obtain ⟨h0, h1, hin⟩ := h c hc
  exact mkChunk_ok_own h0 h1 hin (by intro y hy; cases hy)

theorem reload_loaderOf {l0 : Level} {rid : String} {c : RawC} (hrid : isSuperId rid = false) (hc : RawOK c) :
    reload (loaderOf l0 rid c) = .ok (loaderOf l0 rid c) := by
  obtain ⟨h0, h1, hin⟩ := hc
  unfold reload
  simp only [loaderOf, hrid, Bool.false_and, Bool.false_eq_true, if_false, Option.map_none]
  exact mkChunk_ok_own h0 h1 hin (by intro y hy; cases hy)

/-- an ordinary run at the source level (no rechunking saver): stored and loaded chunks are the source's chunks -/
theorem subrunStored_source {w : World} {l0 : Level} {rest : List Level} {rid : String} {raw : List RawC}
    (hl : w.levels = l0 :: rest) (hre : l0.rechunk = false) (hsrc : w.src.lookup rid = some raw) (hne : raw ≠ [])
    (hrid : isSuperId rid = false) (hok : ∀ c ∈ raw, RawOK c) :
    subrunStored w rid 0 = .ok (raw.map (loaderOf l0 rid)) := by
  unfold subrunStored
  have ht : w.levels.take (0 + 1) = [l0] := by rw [hl]; rfl
  simp only [hsrc, ht]
  rw [mapM_mk_loader raw hok]
  have hne' : (raw.map (loaderOf l0 rid)).isEmpty = false := by cases raw <;> simp_all
  simp only [bind, Except.bind, hne', Bool.false_eq_true, if_false, List.foldlM_nil, pure, Except.pure, save,
    List.getLast?_singleton, Option.getD_some, hre]
  have := mapM_ok_of_forall reload id (raw.map (loaderOf l0 rid)) (by
    intro x hx
    obtain ⟨c, hc, rfl⟩ := List.mem_map.mp hx
    exact reload_loaderOf hrid (hok c hc))
  simpa using this

/-- hypotheses on the world for the basic pipeline -/
structure WorldOK (w : World) (l0 l1 : Level) (spec : List String) : Prop where
  hlevels : w.levels = [l0, l1]
  hre : l0.rechunk = false
  hsrc : l0.allow = false
  hallow : l1.allow = true
  hsup : isSuperId w.superName = true
  hruns : ∀ rid ∈ spec, ∃ raw, w.src.lookup rid = some raw ∧ raw ≠ [] ∧ isSuperId rid = false ∧ ∀ c ∈ raw, RawOK c
  hspec : spec ≠ []
  hstream : LoaderStream l0.dataType w.superName none (loaderStream w l0 spec)

theorem concatLoader_source' {w : World} {l0 : Level} {rest : List Level} {spec : List String}
    (hl : w.levels = l0 :: rest) (hre : l0.rechunk = false)
    (hruns : ∀ rid ∈ spec, ∃ raw, w.src.lookup rid = some raw ∧ raw ≠ [] ∧ isSuperId rid = false ∧ ∀ c ∈ raw, RawOK c) :
    concatLoader w spec [] 0 = .ok (loaderStream w l0 spec) := by
  unfold concatLoader
  have : spec.mapM (fun rid => subrunLoaded w [] rid 0) = .ok (spec.map fun rid => (rawOf w rid).map (loaderOf l0 rid)) := by
    apply mapM_ok_of_forall
    intro rid hr
    obtain ⟨raw, hs, hne, hid, hok⟩ := hruns rid hr
    simp only [subrunLoaded, List.lookup_nil]
    rw [subrunStored_source hl hre hs hne hid hok]
    simp [rawOf, hs]
  rw [this]
  simp [bind, Except.bind, pure, Except.pure, loaderStream, List.flatMap]

theorem concatLoader_source {w : World} {l0 l1 : Level} {spec : List String} (h : WorldOK w l0 l1 spec) :
    concatLoader w spec [] 0 = .ok (loaderStream w l0 spec) :=
  concatLoader_source' h.hlevels h.hre h.hruns

theorem loaderStream_ne {w : World} {l0 l1 : Level} {spec : List String} (h : WorldOK w l0 l1 spec) :
    loaderStream w l0 spec ≠ [] := by
  obtain ⟨rid, rest, hsp⟩ := List.exists_cons_of_ne_nil h.hspec
  obtain ⟨raw, hs, hne, _, _⟩ := h.hruns rid (by rw [hsp]; simp)
  obtain ⟨c, tl, hraw⟩ := List.exists_cons_of_ne_nil hne
  simp [loaderStream, hsp, rawOf, hs, hraw]

/-- **The basic superrun pipeline is total and explicit**: concat loader at the source, one superrun-capable
plugin, nothing stored, nothing written — `get_iter` does not raise and yields `expected`. -/
theorem superGet_basic {κ : Type} [DecidableEq κ] (H : List (String × Option (Int × Int)) → Bool → κ) {w : World} {l0 l1 : Level}
    {spec : List String} (h : WorldOK w l0 l1 spec) :
    superGet H w spec [] [] 1 false false = .ok (expected l1 w.superName none (loaderStream w l0 spec), []) := by
  unfold superGet
  have h1 : w.levels[1]? = some l1 := by rw [h.hlevels]; rfl
  have hal : (!l1.allow) = false := by rw [h.hallow]; rfl
  have ht : (w.levels.take (1 + 1)).reverse = [l1, l0] := by rw [h.hlevels]; rfl
  simp only [h1, hal, Bool.false_eq_true, if_false, ht]
  have hd : descend w spec [] (superrunKey H w.superName spec [] false) ([] : Store κ) false [l1, l0]
      = .ok (loaderStream w l0 spec, [l1]) := by
    simp [descend, hal, h.hsrc, concatLoader_source h, bind, Except.bind, pure, Except.pure]
  have hr : runLevels w.superName [l1] (loaderStream w l0 spec)
      = .ok [(l1, expected l1 w.superName none (loaderStream w l0 spec))] := by
    simp [runLevels, pluginRun_loader h.hallow h.hsup (loaderStream_ne h) h.hstream, bind, Except.bind, pure, Except.pure]
  simp only [hd, bind, Except.bind, hr, topOutput, List.getLast?_singleton, continuity_expected l1 w.superName h.hsup,
    storeAfter, Bool.false_eq_true, if_false, pure, Except.pure]

end Strax.Superrun
