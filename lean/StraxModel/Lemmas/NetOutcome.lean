import StraxModel.Lemmas.NetLive
/-
  What the consumer's `iter()` ends with: exceptions are never invented (every exception / kill reason in the system is
  one injected by a `fail` / `die` instruction), a kill always has a culprit, and the outcome is set by the final
  `finish` from the consumer's own exception or the savers' `got_exception`.
-/
namespace Strax.Net
open Strax

/-- exception identities that occur in the net's programs -/
def Injected (net : Net) (id : Nat) : Prop :=
  ∃ (t : Nat) (th : Thread), net.threads[t]? = some th ∧ (Instr.fail id ∈ th.body ∨ Instr.die id ∈ th.body)

/-! ### what one step does to exceptions and kill flags -/

/-- how the exception state of the stepping thread changes -/
inductive ExcChange (s : NState) (ts ts' : TSt) (i : Instr) : Prop
  | quiet : ts'.exc = ts.exc → ts'.inEpi = ts.inEpi → ExcChange s ts ts' i
  | own (id : Nat) : i = .fail id → ts.inEpi = false → ts'.exc = some (true, .inj id) → ts'.inEpi = true → ExcChange s ts ts' i
  | killed (m : Nat) (a : AMB) : s.mbs[m]? = some a → a.killed = true → ts.inEpi = false →
      ts'.exc = some (false, a.reason.getD .alreadyClosed) → ts'.inEpi = true → ExcChange s ts ts' i
  | closed (m : Nat) (a : AMB) : (i = .send m ∨ i = .close m) → s.mbs[m]? = some a → a.closed = true → ExcChange s ts ts' i
  | die (id : Nat) : i = .die id → ts'.inEpi = ts.inEpi → ts'.prog = [] →
      ts'.exc = (match ts.exc with
        | some x => some x
        | none => some (true, .inj id)) → ExcChange s ts ts' i

theorem raise_fields (ts : TSt) (own : Bool) (e : Exc) (h : ts.inEpi = false) :
    (ts.raise own e).exc = some (own, e) ∧ (ts.raise own e).inEpi = true := by
  simp [TSt.raise, h]

theorem effect_thread {net : Net} {s s' : NState} {t : Nat} {ts : TSt} {i : Instr} (hts : s.thr[t]? = some ts)
    (hbody : (∀ m k, i = .read m k → ts.inEpi = false) ∧ (∀ m, (i = .send m ∨ i = .close m) → ts.inEpi = false) ∧
      (∀ e, i = .fail e → ts.inEpi = false))
    (heff : Effect net s t ts i s') :
    (∀ u, u ≠ t → s'.thr[u]? = s.thr[u]?) ∧ ∃ ts', s'.thr[t]? = some ts' ∧ ExcChange s ts ts' i := by
  have hlt : t < s.thr.length := (List.getElem?_eq_some_iff.mp hts).1
  have key : ∀ (s0 : NState) (x : TSt), s0.thr = s.thr →
      (∀ u, u ≠ t → (s0.setThr t x).thr[u]? = s.thr[u]?) ∧ (s0.setThr t x).thr[t]? = some x := by
    intro s0 x h0
    constructor
    · intro u hu; rw [setThr_thr, h0]; simp [Ne.symm hu]
    · rw [setThr_thr, h0]; simp [hlt]
  cases heff with
  | advance _ _ _ _ _ _ _ => exact ⟨(key s _ rfl).1, _, (key s _ rfl).2, .quiet rfl rfl⟩
  | readPop m k a sb _ _ _ =>
    exact ⟨(key _ _ (by simp)).1, _, (key _ _ (by simp)).2, .quiet rfl rfl⟩
  | readKilled m k a sb hm _ _ hk =>
    have hin := hbody.1 m k rfl
    obtain ⟨h1, h2⟩ := raise_fields ts false (a.reason.getD .alreadyClosed) hin
    exact ⟨(key _ _ (by simp)).1, _, (key _ _ (by simp)).2, .killed m a hm hk hin h1 h2⟩
  | readTake m k a sb _ _ _ _ _ =>
    exact ⟨(key _ _ (by simp)).1, _, (key _ _ (by simp)).2, .quiet rfl rfl⟩
  | readWait m k a sb _ _ _ _ _ _ =>
    refine ⟨fun u _ => by simp, ts, by simpa using hts, .quiet rfl rfl⟩
  | sendOk m sp a _ _ _ _ _ => exact ⟨(key _ _ (by simp)).1, _, (key _ _ (by simp)).2, .quiet rfl rfl⟩
  | closeOk m sp a _ _ _ _ _ => exact ⟨(key _ _ (by simp)).1, _, (key _ _ (by simp)).2, .quiet rfl rfl⟩
  | outClosed _ m a hi hm hc => exact ⟨(key s _ rfl).1, _, (key s _ rfl).2, .closed m a hi hm hc⟩
  | outKilled _ m a hi hm _ hk =>
    have hin := hbody.2.1 m hi
    obtain ⟨h1, h2⟩ := raise_fields ts false (a.reason.getD .alreadyClosed) hin
    exact ⟨(key s _ rfl).1, _, (key s _ rfl).2, .killed m a hm hk hin h1 h2⟩
  | fail e =>
    have hin := hbody.2.2 e rfl
    obtain ⟨h1, h2⟩ := raise_fields ts true (.inj e) hin
    exact ⟨(key s _ rfl).1, _, (key s _ rfl).2, .own e rfl hin h1 h2⟩
  | die e => exact ⟨(key s _ rfl).1, _, (key s _ rfl).2, .die e rfl rfl rfl rfl⟩
  | kill _ m own r _ _ => exact ⟨(key _ _ (by simp)).1, _, (key _ _ (by simp)).2, .quiet rfl rfl⟩
  | finish sv out _ =>
    exact ⟨(key { s with outcome := some out } _ rfl).1, _, (key { s with outcome := some out } _ rfl).2, .quiet rfl rfl⟩
  | dropEpi => exact ⟨(key s _ rfl).1, _, (key s _ rfl).2, .quiet rfl rfl⟩
  | setEpi ms => exact ⟨(key s _ rfl).1, _, (key s _ rfl).2, .quiet rfl rfl⟩

/-- how the kill flag / reason of mailbox `m` changes in a step of a thread with state `ts` and head instruction `i` -/
def MbStep (s s' : NState) (ts : TSt) (i : Instr) (m : Nat) : Prop :=
  (∀ (a' : AMB), s'.mbs[m]? = some a' → ∃ (a : AMB), s.mbs[m]? = some a ∧
    ((a'.killed = a.killed ∧ a'.reason = a.reason) ∨
     (a.killed = false ∧ a'.killed = true ∧ ∃ (own : Bool) (r : Exc), ts.exc = some (own, r) ∧ a'.reason = some r ∧
        (i = .killIfExc m ∨ (i = .killIfOwn m ∧ own = true))))) ∧
  (∀ (a : AMB), s.mbs[m]? = some a → ∃ (a' : AMB), s'.mbs[m]? = some a')

theorem MbStep.same {s s' : NState} {ts : TSt} {i : Instr} {m : Nat} (h : s'.mbs = s.mbs) : MbStep s s' ts i m := by
  unfold MbStep; rw [h]
  exact ⟨fun a' ha' => ⟨a', ha', Or.inl ⟨rfl, rfl⟩⟩, fun a ha => ⟨a, ha⟩⟩

theorem MbStep.mod {s s' : NState} {ts : TSt} {i : Instr} {m m0 : Nat} {f : AMB → AMB} (h : s'.mbs = (s.modMB m0 f).mbs)
    (hf : ∀ (a : AMB), (f a).killed = a.killed ∧ (f a).reason = a.reason) : MbStep s s' ts i m := by
  unfold MbStep; rw [h]
  simp only [modMB_mbs]
  by_cases hmm : m0 = m
  · subst hmm; simp only [if_true]
    constructor
    · intro a' ha'
      cases ha : s.mbs[m0]? with
      | none => simp [ha] at ha'
      | some a => simp [ha] at ha'; subst ha'; exact ⟨a, rfl, Or.inl (hf a)⟩
    · intro a ha; exact ⟨f a, by simp [ha]⟩
  · simp only [hmm, if_false]
    exact ⟨fun a' ha' => ⟨a', ha', Or.inl ⟨rfl, rfl⟩⟩, fun a ha => ⟨a, ha⟩⟩

theorem effect_mbs {net : Net} {s s' : NState} {t : Nat} {ts : TSt} {i : Instr} (heff : Effect net s t ts i s') (m : Nat) :
    MbStep s s' ts i m := by
  have sub : ∀ (k : Nat) (g : ASub → ASub) (a : AMB), (a.modSub k g).killed = a.killed ∧ (a.modSub k g).reason = a.reason :=
    fun k g a => ⟨(modSub_fields a k g).2.2.1, (modSub_fields a k g).2.2.2.1⟩
  cases heff with
  | advance _ _ _ _ _ _ _ => exact .same rfl
  | readPop m0 k a sb _ _ _ => exact .mod (m0 := m0) rfl (fun a => sub k _ a)
  | readKilled m0 k a sb _ _ _ _ => exact .mod (m0 := m0) rfl (fun a => sub k _ a)
  | readTake m0 k a sb _ _ _ _ _ => exact .mod (m0 := m0) rfl (fun a => sub k _ a)
  | readWait m0 k a sb _ _ _ _ _ _ => exact .mod (m0 := m0) rfl (fun a => sub k _ a)
  | sendOk m0 sp a _ _ _ _ _ => exact .mod (m0 := m0) rfl (fun a => ⟨rfl, rfl⟩)
  | closeOk m0 sp a _ _ _ _ _ => exact .mod (m0 := m0) rfl (fun a => ⟨rfl, rfl⟩)
  | outClosed _ _ _ _ _ _ => exact .same rfl
  | outKilled _ _ _ _ _ _ _ => exact .same rfl
  | fail _ => exact .same rfl
  | die _ => exact .same rfl
  | kill _ m0 own r hexc hi =>
    unfold MbStep
    simp only [setThr_mbs, modMB_mbs]
    by_cases hmm : m0 = m
    · subst hmm; simp only [if_true]
      constructor
      · intro a' ha'
        cases ha : s.mbs[m0]? with
        | none => simp [ha] at ha'
        | some a =>
          simp [ha] at ha'; subst ha'
          refine ⟨a, rfl, ?_⟩
          by_cases hk : a.killed = true
          · left
            have : a.kill r = a := by simp [AMB.kill, hk]
            rw [this]; exact ⟨rfl, rfl⟩
          · right
            have hk' : a.killed = false := by simpa using hk
            have : a.kill r = { a with killed := true, reason := some r } := by simp [AMB.kill, hk']
            rw [this]
            exact ⟨hk', rfl, own, r, hexc, rfl, hi⟩
      · intro a ha; exact ⟨a.kill r, by simp [ha]⟩
    · simp only [hmm, if_false]
      exact ⟨fun a' ha' => ⟨a', ha', Or.inl ⟨rfl, rfl⟩⟩, fun a ha => ⟨a, ha⟩⟩
  | finish sv out _ => exact .same rfl
  | dropEpi => exact .same rfl
  | setEpi ms => exact .same rfl

/-! ### the invariant about exceptions and kills -/

structure OInv (net : Net) (s : NState) : Prop where
  /-- every exception a thread holds was injected somewhere; the thread is in its epilogue (or ended by `die`) -/
  excIn : ∀ (t : Nat) (th : Thread) (ts : TSt) (own : Bool) (e : Exc), net.threads[t]? = some th → s.thr[t]? = some ts →
    ts.exc = some (own, e) →
    (∃ id, e = .inj id ∧ Injected net id) ∧ (ts.inEpi = true ∨ (own = true ∧ ts.prog = [] ∧ ∃ id, Instr.die id ∈ th.body))
  /-- a killed mailbox was killed by a thread that holds the reason as its exception and whose epilogue kills it -/
  reasonIn : ∀ (m : Nat) (a : AMB), s.mbs[m]? = some a → a.killed = true →
    ∃ (t : Nat) (th : Thread) (ts : TSt) (own : Bool) (e : Exc), net.threads[t]? = some th ∧ s.thr[t]? = some ts ∧
      ts.exc = some (own, e) ∧ a.reason = some e ∧ (Instr.killIfExc m ∈ th.epi ∨ (own = true ∧ Instr.killIfOwn m ∈ th.epi))
  /-- `MailboxKilled(reason)` comes from a killed mailbox with that reason -/
  killedBy : ∀ (t : Nat) (ts : TSt) (r : Exc), s.thr[t]? = some ts → ts.exc = some (false, r) →
    ∃ (m : Nat) (a : AMB), s.mbs[m]? = some a ∧ a.killed = true ∧ a.reason = some r

section
variable {net : Net} {c : Cert} {s : NState}

theorem OInv.init : OInv net (init net) := by
  refine ⟨?_, ?_, ?_⟩
  · intro t th ts own e hth hts hexc
    rw [init_thr, hth] at hts; simp at hts; subst hts; simp at hexc
  · intro m a ha hk
    cases hsp : net.mbs[m]? with
    | none => rw [init_mbs, hsp] at ha; simp at ha
    | some sp => rw [init_mbs, hsp] at ha; simp at ha; subst ha; simp at hk
  · intro t ts r hts hexc
    cases hth : net.threads[t]? with
    | none => rw [init_thr, hth] at hts; simp at hts
    | some th => rw [init_thr, hth] at hts; simp at hts; subst hts; simp at hexc

theorem killed_transfer {s' : NState} {ts : TSt} {i : Instr} (hmb : ∀ m, MbStep s s' ts i m) {m : Nat} {a : AMB} {r : Exc}
    (ha : s.mbs[m]? = some a) (hk : a.killed = true) (hr : a.reason = some r) :
    ∃ a', s'.mbs[m]? = some a' ∧ a'.killed = true ∧ a'.reason = some r := by
  obtain ⟨a', ha'⟩ := (hmb m).2 a ha
  obtain ⟨a0, ha0, hrel⟩ := (hmb m).1 a' ha'
  rw [ha] at ha0; cases ha0
  rcases hrel with ⟨h1, h2⟩ | ⟨h1, _⟩
  · exact ⟨a', ha', by rw [h1]; exact hk, by rw [h2]; exact hr⟩
  · rw [hk] at h1; cases h1

theorem OInv.step (hT : TreeNet net c) (hinv : TInv net c s) (ho : OInv net s) {t : Nat} {s' : NState}
    (hs : step net s t = some s') : OInv net s' := by
  obtain ⟨ts, i, rest, hts, hp, heff⟩ := step_cases hs
  obtain ⟨th, hth⟩ := hinv.thread hts
  have hbody : (∀ m k, i = .read m k → ts.inEpi = false) ∧ (∀ m, (i = .send m ∨ i = .close m) → ts.inEpi = false) ∧
      (∀ e, i = .fail e → ts.inEpi = false) := by
    refine ⟨?_, ?_, ?_⟩
    · intro m k he; subst he; exact (hinv.inBody hT hth hts hp ⟨by simp, by simp, by simp, by simp⟩).1
    · intro m he
      exact (hinv.inBody hT hth hts hp (by rcases he with rfl | rfl <;> exact ⟨by simp, by simp, by simp, by simp⟩)).1
    · intro e he; subst he; exact (hinv.inBody hT hth hts hp ⟨by simp, by simp, by simp, by simp⟩).1
  obtain ⟨hothers, ts', hts', hchg⟩ := effect_thread hts hbody heff
  have hmb := effect_mbs heff
  -- a stepping thread that already holds an exception is in its epilogue
  have hinEpi : ∀ own e, ts.exc = some (own, e) → ts.inEpi = true := by
    intro own e he
    rcases (ho.excIn t th ts own e hth hts he).2 with h1 | ⟨_, h1, _⟩
    · exact h1
    · rw [hp] at h1; cases h1
  -- `send`/`close` on a closed mailbox does not happen
  have hnoclosed : ∀ m a, (i = .send m ∨ i = .close m) → s.mbs[m]? = some a → a.closed = true → False := by
    intro m a hi ha hc
    obtain ⟨_, _, _, hsd, hmlt, _, _, _, _, _⟩ := head_out (m := m) hT hinv hth hts hp (hi.elim (fun x => Or.inr (Or.inl x)) (fun x => Or.inr (Or.inr x)))
    have := ((hinv.snd m a hmlt ha).2.2 ts (by rw [hsd]; exact hts)).2 hc
    rw [hp] at this; cases this.1
  -- … and keeps it
  have hkeep : ∀ own e, ts.exc = some (own, e) → ts'.exc = some (own, e) ∧ ts'.inEpi = true := by
    intro own e he
    have hin := hinEpi own e he
    cases hchg with
    | quiet h1 h2 => exact ⟨by rw [h1]; exact he, by rw [h2]; exact hin⟩
    | own id hi hf _ _ => rw [hf] at hin; cases hin
    | killed m a _ _ hf _ _ => rw [hf] at hin; cases hin
    | closed m a hi ha hc => exact (hnoclosed m a hi ha hc).elim
    | die id hi _ _ _ =>
      have := (hinv.inBody hT hth hts hp (by subst hi; exact ⟨by simp, by simp, by simp, by simp⟩)).1
      rw [this] at hin; cases hin
  have hthr : ∀ u tsu, s'.thr[u]? = some tsu → (u = t ∧ tsu = ts') ∨ (u ≠ t ∧ s.thr[u]? = some tsu) := by
    intro u tsu hu
    by_cases hut : u = t
    · subst hut; rw [hts'] at hu; cases hu; exact Or.inl ⟨rfl, rfl⟩
    · rw [hothers u hut] at hu; exact Or.inr ⟨hut, hu⟩
  -- an old witness (a thread holding an exception) is still one
  have hwit : ∀ (u : Nat) (tsu : TSt) (own : Bool) (e : Exc), s.thr[u]? = some tsu → tsu.exc = some (own, e) →
      ∃ tsu', s'.thr[u]? = some tsu' ∧ tsu'.exc = some (own, e) := by
    intro u tsu own e hu he
    by_cases hut : u = t
    · subst hut; rw [hts] at hu; cases hu
      exact ⟨ts', hts', (hkeep own e he).1⟩
    · exact ⟨tsu, by rw [hothers u hut]; exact hu, he⟩
  have hreason : ∀ (m : Nat) (a : AMB), s.mbs[m]? = some a → a.killed = true → ∃ id, a.reason = some (.inj id) ∧ Injected net id := by
    intro m a ha hk
    obtain ⟨t2, th2, ts2, own2, e2, hth2, hts2, he2, hr2, _⟩ := ho.reasonIn m a ha hk
    obtain ⟨⟨id, hid, hinj⟩, _⟩ := ho.excIn t2 th2 ts2 own2 e2 hth2 hts2 he2
    exact ⟨id, by rw [hr2, hid], hinj⟩
  refine ⟨?_, ?_, ?_⟩
  · -- excIn
    intro u thu tsu own e hthu htsu hexc
    rcases hthr u tsu htsu with ⟨rfl, rfl⟩ | ⟨_, hold⟩
    · rw [hth] at hthu; cases hthu
      cases hchg with
      | quiet h1 h2 =>
        rw [h1] at hexc
        exact ⟨(ho.excIn u th ts own e hth hts hexc).1, Or.inl (by rw [h2]; exact hinEpi own e hexc)⟩
      | own id hi _ h1 h2 =>
        rw [h1] at hexc; simp only [Option.some.injEq, Prod.mk.injEq] at hexc
        obtain ⟨_, rfl⟩ := hexc
        subst hi
        have hsuf := (hinv.inBody hT hth hts hp ⟨by simp, by simp, by simp, by simp⟩).2
        exact ⟨⟨id, rfl, u, th, hth, Or.inl (suffix_head_mem hsuf)⟩, Or.inl h2⟩
      | killed m a ha hk _ h1 h2 =>
        rw [h1] at hexc; simp only [Option.some.injEq, Prod.mk.injEq] at hexc
        obtain ⟨_, rfl⟩ := hexc
        obtain ⟨id, hr, hinj⟩ := hreason m a ha hk
        exact ⟨⟨id, by rw [hr]; rfl, hinj⟩, Or.inl h2⟩
      | closed m a hi ha hc => exact (hnoclosed m a hi ha hc).elim
      | die id hi h1 h2 h3 =>
        subst hi
        obtain ⟨hin, hsuf⟩ := hinv.inBody hT hth hts hp ⟨by simp, by simp, by simp, by simp⟩
        cases hx : ts.exc with
        | some x =>
          obtain ⟨o2, e2⟩ := x
          have := hinEpi o2 e2 hx
          rw [hin] at this; cases this
        | none =>
          rw [h3, hx] at hexc; simp only [Option.some.injEq, Prod.mk.injEq] at hexc
          obtain ⟨rfl, rfl⟩ := hexc
          have hmem := suffix_head_mem hsuf
          exact ⟨⟨id, rfl, u, th, hth, Or.inr hmem⟩, Or.inr ⟨rfl, h2, id, hmem⟩⟩
    · exact ho.excIn u thu tsu own e hthu hold hexc
  · -- reasonIn
    intro m a' ha' hk'
    obtain ⟨a, ha, hrel⟩ := (hmb m).1 a' ha'
    rcases hrel with ⟨h1, h2⟩ | ⟨_, _, own, r, hexc, hr, hi⟩
    · obtain ⟨t2, th2, ts2, own2, e2, hth2, hts2, he2, hr2, hk2⟩ := ho.reasonIn m a ha (by rw [← h1]; exact hk')
      obtain ⟨ts2', hts2', he2'⟩ := hwit t2 ts2 own2 e2 hts2 he2
      exact ⟨t2, th2, ts2', own2, e2, hth2, hts2', he2', by rw [h2]; exact hr2, hk2⟩
    · obtain ⟨he', _⟩ := hkeep own r hexc
      have hin := hinEpi own r hexc
      have hmem : i ∈ th.epi := by
        rcases hinv.headMem hth hts hp with ⟨hf, _⟩ | ⟨_, hs⟩
        · rw [hf] at hin; cases hin
        · exact suffix_head_mem hs
      refine ⟨t, th, ts', own, r, hth, hts', he', hr, ?_⟩
      rcases hi with hi | ⟨hi, ho'⟩
      · exact Or.inl (by rw [← hi]; exact hmem)
      · exact Or.inr ⟨ho', by rw [← hi]; exact hmem⟩
  · -- killedBy
    intro u tsu r htsu hexc
    have old : ∀ (tso : TSt), s.thr[u]? = some tso → tso.exc = some (false, r) →
        ∃ (m : Nat) (a : AMB), s'.mbs[m]? = some a ∧ a.killed = true ∧ a.reason = some r := by
      intro tso h1 h2
      obtain ⟨m, a, ha, hk, hr⟩ := ho.killedBy u tso r h1 h2
      obtain ⟨a', ha', hk', hr'⟩ := killed_transfer hmb ha hk hr
      exact ⟨m, a', ha', hk', hr'⟩
    rcases hthr u tsu htsu with ⟨rfl, rfl⟩ | ⟨_, hold⟩
    · cases hchg with
      | quiet h1 _ => rw [h1] at hexc; exact old ts hts hexc
      | own id _ _ h1 _ => rw [h1] at hexc; simp at hexc
      | killed m a ha hk _ h1 _ =>
        rw [h1] at hexc; simp only [Option.some.injEq, Prod.mk.injEq] at hexc
        obtain ⟨id, hr, _⟩ := hreason m a ha hk
        obtain ⟨a', ha', hk', hr'⟩ := killed_transfer hmb ha hk hr
        refine ⟨m, a', ha', hk', ?_⟩
        rw [hr', ← hexc.2, hr]; rfl
      | closed m a hi ha hc => exact (hnoclosed m a hi ha hc).elim
      | die id _ _ _ h3 =>
        cases hx : ts.exc with
        | some x => rw [h3, hx] at hexc; exact old ts hts (by rw [hx]; exact hexc)
        | none => rw [h3, hx] at hexc; simp at hexc
    · exact old tsu hold hexc

theorem OInv.reachable (hT : TreeNet net c) {s : NState} (h : Reachable net s) : OInv net s := by
  induction h with
  | init => exact OInv.init
  | step hr hs ih => exact ih.step hT (TInv.reachable hT hr) hs

end

/-! ### the outcome set by `finish` -/

def outcomeOf (exc : Option (Bool × Exc)) (sav : Option Exc) : Outcome :=
  match exc with
  | some (_, e) => .raised e
  | none =>
    match sav with
    | some e => .raised e
    | none => .returned

structure OutInv (net : Net) (s : NState) : Prop where
  set : ∀ (out : Outcome), s.outcome = some out → (∀ (t : Nat) (ts : TSt), s.thr[t]? = some ts → ts.prog = []) ∧
    ∃ (thm : Thread) (tsm : TSt) (sv : List Nat), net.threads[net.threads.length - 1]? = some thm ∧
      s.thr[net.threads.length - 1]? = some tsm ∧ Instr.finish sv ∈ thm.epi ∧ out = outcomeOf tsm.exc (firstSaverExc s.thr sv)
  fin : ∀ (tsm : TSt), s.thr[net.threads.length - 1]? = some tsm → tsm.prog = [] → s.outcome.isSome = true

theorem firstSaverExc_congr (l1 l2 : List TSt)
    (h : ∀ (k : Nat), (l1[k]?).map (fun (x : TSt) => x.exc) = (l2[k]?).map (fun (x : TSt) => x.exc)) (sv : List Nat) :
    firstSaverExc l1 sv = firstSaverExc l2 sv := by
  induction sv with
  | nil => rfl
  | cons k r ih =>
    simp only [firstSaverExc]
    have := h k
    cases h1 : l1[k]? with
    | none =>
      cases h2 : l2[k]? with
      | none => simpa using ih
      | some y => rw [h1, h2] at this; simp at this
    | some x =>
      cases h2 : l2[k]? with
      | none => rw [h1, h2] at this; simp at this
      | some y =>
        rw [h1, h2] at this; simp at this
        simp only [this, ih]

theorem firstSaverExc_none {l : List TSt} {sv : List Nat} (h : firstSaverExc l sv = none) :
    ∀ k ∈ sv, ∀ (ts : TSt), l[k]? = some ts → ∀ e, ts.exc ≠ some (true, e) := by
  induction sv with
  | nil => intro k hk; cases hk
  | cons k0 r ih =>
    intro k hk ts hts e he
    simp only [firstSaverExc] at h
    rcases List.mem_cons.mp hk with rfl | hk
    · rw [hts] at h; simp only [he] at h; cases h
    · cases h0 : l[k0]? with
      | none => rw [h0] at h; exact ih h k hk ts hts e he
      | some t0 =>
        rw [h0] at h
        cases hx : t0.exc with
        | none => simp only [hx] at h; exact ih h k hk ts hts e he
        | some x =>
          obtain ⟨o, e'⟩ := x
          cases o with
          | true => simp only [hx] at h; cases h
          | false => simp only [hx] at h; exact ih h k hk ts hts e he

theorem firstSaverExc_some {l : List TSt} {sv : List Nat} {e : Exc} (h : firstSaverExc l sv = some e) :
    ∃ (k : Nat) (ts : TSt), l[k]? = some ts ∧ ts.exc = some (true, e) := by
  induction sv with
  | nil => simp [firstSaverExc] at h
  | cons k0 r ih =>
    simp only [firstSaverExc] at h
    cases h0 : l[k0]? with
    | none => rw [h0] at h; exact ih h
    | some t0 =>
      rw [h0] at h
      cases hx : t0.exc with
      | none => simp only [hx] at h; exact ih h
      | some x =>
        obtain ⟨o, e'⟩ := x
        cases o with
        | true => simp only [hx, Option.some.injEq] at h; subst h; exact ⟨k0, t0, h0, hx⟩
        | false => simp only [hx] at h; exact ih h

section
variable {net : Net} {c : Cert} {s : NState}

theorem OutInv.init (hT : TreeNet net c) : OutInv net (init net) := by
  refine ⟨by intro out h; simp [Net.init] at h, ?_⟩
  intro tsm htsm hp
  exfalso
  have hlt : net.threads.length - 1 < net.threads.length := by have := hT.1; omega
  have hth : net.threads[net.threads.length - 1]? = some (net.threads[net.threads.length - 1]'hlt) := List.getElem?_eq_getElem hlt
  rw [init_thr, hth] at htsm; simp at htsm; subst htsm
  simp only at hp
  have := main_join_mem hT hth (u := 0)
  cases hT.kind hth with
  | main _ hok =>
    obtain ⟨sv, he⟩ := hok.epi_eq
    have hb := hok.2.2.2.2.1
    rw [hp, he] at hb
    simp at hb
  | sender m hne _ _ => exact hne rfl
  | sink hne _ _ _ => exact hne rfl

/-- the head `finish` belongs to the consumer and is its last instruction -/
theorem head_finish (hT : TreeNet net c) (hinv : TInv net c s) {t : Nat} {th : Thread} {ts : TSt} {sv : List Nat} {rest : List Instr}
    (hth : net.threads[t]? = some th) (hts : s.thr[t]? = some ts) (hp : ts.prog = .finish sv :: rest) :
    t = net.threads.length - 1 ∧ rest = [] ∧ Instr.finish sv ∈ th.epi := by
  have hmem := hinv.headMem hth hts hp
  cases hT.kind hth with
  | main hmain hok =>
    obtain ⟨sv', he⟩ := hok.epi_eq
    have hfin : Instr.finish sv ∈ th.epi := by
      rcases hmem with ⟨_, hs⟩ | ⟨_, hs⟩
      · rcases hok.body_mem (suffix_head_mem hs) with h1 | h1 | h1
        · cases h1
        · simp [Instr.isFail] at h1
        · exact h1
      · exact suffix_head_mem hs
    have hsv : sv' = sv := by
      rw [he] at hfin
      simp only [List.mem_append, List.mem_cons, List.mem_map, List.mem_range, List.not_mem_nil,
        or_false] at hfin
      rcases hfin with ((h3 | ⟨_, _, h3⟩) | ⟨_, _, h3⟩) | h3
      · cases h3
      · cases h3
      · cases h3
      · cases h3; rfl
    subst hsv
    refine ⟨hmain, ?_, hfin⟩
    have hnot : Instr.finish sv' ∉ (Instr.killIfExc (c.src (net.threads.length - 1)).1 ::
        (List.range net.mbs.length).map Instr.killIfExc) ++ (List.range (net.threads.length - 1)).map Instr.join := by
      simp only [List.mem_append, List.mem_cons, List.mem_map, List.mem_range]
      rintro ((h3 | ⟨_, _, h3⟩) | ⟨_, _, h3⟩) <;> cases h3
    obtain ⟨reads, hbody, hreads⟩ : ∃ reads, th.body = reads ++ th.epi ∧
        ∀ i ∈ reads, i = Instr.read (c.src (net.threads.length - 1)).1 (c.src (net.threads.length - 1)).2 ∨ i.isFail = true :=
      ⟨_, hok.2.2.2.2.1, hok.2.2.2.2.2.1⟩
    rcases hmem with ⟨_, hs⟩ | ⟨_, hs⟩
    · rw [hbody, he, ← List.append_assoc] at hs
      have hnot' : Instr.finish sv' ∉ reads ++
          ((Instr.killIfExc (c.src (net.threads.length - 1)).1 :: (List.range net.mbs.length).map Instr.killIfExc) ++
            (List.range (net.threads.length - 1)).map Instr.join) := by
        intro hm
        rcases List.mem_append.mp hm with hm | hm
        · rcases hreads _ hm with h3 | h3
          · cases h3
          · simp [Instr.isFail] at h3
        · exact hnot hm
      exact suffix_last_eq hs hnot'
    · rw [he] at hs
      exact suffix_last_eq hs hnot
  | sender m _ _ hok =>
    rcases hmem with ⟨_, hs⟩ | ⟨_, hs⟩
    · rcases hok.mem (suffix_head_mem hs) with h1 | h1
      · cases h1
      · simp [senderInstrOk] at h1
    · have := suffix_head_mem hs; rw [hok.2.2.1] at this; simp at this
  | sink _ _ hok _ =>
    rcases hmem with ⟨_, hs⟩ | ⟨_, hs⟩
    · rcases hok.2.2.2.1 _ (suffix_head_mem hs) with h1 | h1 | h1
      · cases h1
      · simp [Instr.isFail] at h1
      · simp [Instr.isDie] at h1
    · have := suffix_head_mem hs; rw [hok.2.2.2.2.2] at this; simp at this

end

/-- what a step does to the program of the stepping thread and to the outcome -/
theorem effect_prog {net : Net} {s s' : NState} {t : Nat} {ts : TSt} {i : Instr} {rest : List Instr} (hts : s.thr[t]? = some ts)
    (hp : ts.prog = i :: rest) (heff : Effect net s t ts i s') :
    (∃ ts', s'.thr[t]? = some ts' ∧
      (ts'.prog = rest ∨ (ts.inEpi = false ∧ ts'.prog = ts.epi) ∨ ts'.prog = i :: rest ∨ ∃ e, i = .die e)) ∧
    (s'.outcome = s.outcome ∨ ∃ sv, i = .finish sv) := by
  have hlt : t < s.thr.length := (List.getElem?_eq_some_iff.mp hts).1
  have key : ∀ (s0 : NState) (x : TSt), s0.thr = s.thr → (s0.setThr t x).thr[t]? = some x := by
    intro s0 x h0; rw [setThr_thr, h0]; simp [hlt]
  have hadv : ts.advance.prog = rest := by simp [TSt.advance, hp]
  have hraise : ∀ own e, (ts.raise own e).prog = rest ∨ (ts.inEpi = false ∧ (ts.raise own e).prog = ts.epi) := by
    intro own e
    unfold TSt.raise
    cases hin : ts.inEpi with
    | true => left; simp [hp]
    | false => right; simp
  cases heff with
  | advance _ _ _ _ _ _ _ => exact ⟨⟨_, key s _ rfl, Or.inl hadv⟩, Or.inl rfl⟩
  | readPop m k a sb _ _ _ => exact ⟨⟨_, key _ _ (by simp), Or.inl hadv⟩, Or.inl (by simp)⟩
  | readKilled m k a sb _ _ _ _ =>
    refine ⟨⟨_, key _ _ (by simp), ?_⟩, Or.inl (by simp)⟩
    rcases hraise false (a.reason.getD .alreadyClosed) with h | h
    · exact Or.inl h
    · exact Or.inr (Or.inl h)
  | readTake m k a sb _ _ _ _ _ => exact ⟨⟨_, key _ _ (by simp), Or.inl hadv⟩, Or.inl (by simp)⟩
  | readWait m k a sb _ _ _ _ _ _ => exact ⟨⟨ts, by simpa using hts, Or.inr (Or.inr (Or.inl hp))⟩, Or.inl (by simp)⟩
  | sendOk m sp a _ _ _ _ _ => exact ⟨⟨_, key _ _ (by simp), Or.inl hadv⟩, Or.inl (by simp)⟩
  | closeOk m sp a _ _ _ _ _ => exact ⟨⟨_, key _ _ (by simp), Or.inl hadv⟩, Or.inl (by simp)⟩
  | outClosed _ m a _ _ _ =>
    refine ⟨⟨_, key s _ rfl, ?_⟩, Or.inl rfl⟩
    rcases hraise true .alreadyClosed with h | h
    · exact Or.inl h
    · exact Or.inr (Or.inl h)
  | outKilled _ m a _ _ _ _ =>
    refine ⟨⟨_, key s _ rfl, ?_⟩, Or.inl rfl⟩
    rcases hraise false (a.reason.getD .alreadyClosed) with h | h
    · exact Or.inl h
    · exact Or.inr (Or.inl h)
  | fail e =>
    refine ⟨⟨_, key s _ rfl, ?_⟩, Or.inl rfl⟩
    rcases hraise true (.inj e) with h | h
    · exact Or.inl h
    · exact Or.inr (Or.inl h)
  | die e => exact ⟨⟨_, key s _ rfl, Or.inr (Or.inr (Or.inr ⟨e, rfl⟩))⟩, Or.inl rfl⟩
  | kill _ m own r _ _ => exact ⟨⟨_, key _ _ (by simp), Or.inl hadv⟩, Or.inl (by simp)⟩
  | finish sv out _ => exact ⟨⟨_, key { s with outcome := some out } _ rfl, Or.inl hadv⟩, Or.inr ⟨sv, rfl⟩⟩
  | dropEpi => exact ⟨⟨_, key s _ rfl, Or.inl (by simp [TSt.advance, hp])⟩, Or.inl rfl⟩
  | setEpi ms => exact ⟨⟨_, key s _ rfl, Or.inl (by simp [TSt.advance, hp])⟩, Or.inl rfl⟩

section
variable {net : Net} {c : Cert} {s : NState}

theorem OutInv.step (hT : TreeNet net c) (hinv : TInv net c s) (ho : OutInv net s) {t : Nat} {s' : NState}
    (hs : step net s t = some s') : OutInv net s' := by
  obtain ⟨ts, i, rest, hts, hp, heff⟩ := step_cases hs
  obtain ⟨th, hth⟩ := hinv.thread hts
  have hnone : s.outcome = none := by
    cases hout : s.outcome with
    | none => rfl
    | some out =>
      have := (ho.set out hout).1 t ts hts
      rw [hp] at this; cases this
  have hlt : t < s.thr.length := (List.getElem?_eq_some_iff.mp hts).1
  by_cases hfin : ∃ sv, i = .finish sv
  · obtain ⟨sv, rfl⟩ := hfin
    obtain ⟨hmain, hrest, hmem⟩ := head_finish hT hinv hth hts hp
    subst hrest
    cases heff with
    | advance _ _ _ _ _ _ hn => exact absurd rfl (hn.2.1 sv)
    | outClosed _ _ _ hi _ _ => rcases hi with hi | hi <;> cases hi
    | outKilled _ _ _ hi _ _ _ => rcases hi with hi | hi <;> cases hi
    | kill _ _ _ _ _ hi => rcases hi with hi | ⟨hi, _⟩ <;> cases hi
    | finish _ out hout =>
      have hthr' : ∀ u, (({ s with outcome := some out } : NState).setThr t ts.advance).thr[u]? =
          if t = u then some ts.advance else s.thr[u]? := by
        intro u; rw [setThr_thr]; split
        · rename_i hu; subst hu; simp [hlt]
        · rfl
      refine ⟨?_, fun _ _ _ => rfl⟩
      intro out' hout'
      simp only [setThr_outcome, Option.some.injEq] at hout'
      subst hout'
      constructor
      · intro u tsu hu
        rw [hthr'] at hu
        by_cases hut : t = u
        · simp [hut] at hu; subst hu; simp [TSt.advance, hp]
        · simp [hut] at hu
          have hu' : u < net.threads.length - 1 := by
            have : u < s.thr.length := (List.getElem?_eq_some_iff.mp hu).1
            rw [hinv.lenT] at this; omega
          rcases hinv.joins u ts hu' (by rw [← hmain]; exact hts) with ⟨tu, htu, hpu⟩ | hj
          · rw [hu] at htu; cases htu; exact hpu
          · rw [hp] at hj; simp at hj
      · refine ⟨th, ts.advance, sv, by rw [← hmain]; exact hth, by rw [← hmain, hthr']; simp, hmem, ?_⟩
        have hcongr : firstSaverExc (({ s with outcome := some out } : NState).setThr t ts.advance).thr sv = firstSaverExc s.thr sv := by
          apply firstSaverExc_congr
          intro k
          rw [hthr']
          by_cases hk : t = k
          · subst hk; simp [hts, TSt.advance]
          · simp [hk]
        rw [hcongr, hout]
        simp only [TSt.advance, outcomeOf]
        cases ts.exc with
        | none => rfl
        | some x => rfl
  · obtain ⟨⟨ts', hts', hprog⟩, hout⟩ := effect_prog hts hp heff
    have hout' : s'.outcome = none := by
      rcases hout with h | ⟨sv, h⟩
      · rw [h]; exact hnone
      · exact absurd ⟨sv, h⟩ hfin
    refine ⟨(by intro out h; rw [hout'] at h; cases h), ?_⟩
    intro tsm htsm hpm
    exfalso
    by_cases hmain : t = net.threads.length - 1
    · subst hmain
      rw [hts'] at htsm; cases htsm
      obtain ⟨q0, q1, q2⟩ := hinv.pc _ th ts hth hts
      have hepi_ne : th.epi ≠ [] := by
        cases hT.kind hth with
        | main _ hok => obtain ⟨sv, he⟩ := hok.epi_eq; rw [he]; simp
        | sender m hne _ _ => exact absurd rfl hne
        | sink hne _ _ _ => exact absurd rfl hne
      rcases hprog with h | ⟨_, h⟩ | h | ⟨e, h⟩
      · -- the program became empty by consuming its last instruction, which is `finish`
        rw [hpm] at h
        subst h
        have hlast : ∃ sv, i = .finish sv := by
          cases hT.kind hth with
          | main _ hok =>
            obtain ⟨sv, he⟩ := hok.epi_eq
            have hsuf : [i] <:+ th.body ∨ [i] <:+ th.epi := by
              rcases hinv.headMem hth hts hp with ⟨_, hs⟩ | ⟨_, hs⟩
              · exact Or.inl hs
              · exact Or.inr hs
            have hbody : th.body = th.body.take (th.body.length - th.epi.length) ++ th.epi := hok.2.2.2.2.1
            have : [i] <:+ th.epi := by
              rcases hsuf with h1 | h1
              · rw [hbody] at h1
                rcases suffix_append_cases h1 with h2 | ⟨a', hne, _, he'⟩
                · exact h2
                · exfalso
                  have hl := congrArg List.length he'
                  simp only [List.length_cons, List.length_nil, List.length_append] at hl
                  have : a'.length ≠ 0 := fun h0 => hne (List.length_eq_zero_iff.mp h0)
                  have : th.epi.length ≠ 0 := fun h0 => hepi_ne (List.length_eq_zero_iff.mp h0)
                  omega
              · exact h1
            rw [he] at this
            obtain ⟨p, hp'⟩ := this
            have hl : (p ++ [i]).getLast? = (((Instr.killIfExc (c.src (net.threads.length - 1)).1 ::
                (List.range net.mbs.length).map Instr.killIfExc) ++
                (List.range (net.threads.length - 1)).map Instr.join) ++ [Instr.finish sv]).getLast? := by rw [hp']
            simp only [List.getLast?_append, List.getLast?_singleton, Option.some_or] at hl
            exact ⟨sv, by simpa using hl⟩
          | sender m hne _ _ => exact absurd rfl hne
          | sink hne _ _ _ => exact absurd rfl hne
        exact hfin hlast
      · rw [hpm] at h; rw [q0] at h; exact hepi_ne h.symm
      · rw [hpm] at h; cases h
      · -- `die` is not an instruction of the consumer
        subst h
        have hmem : Instr.die e ∈ th.body ∨ Instr.die e ∈ th.epi := by
          rcases hinv.headMem hth hts hp with ⟨_, hs⟩ | ⟨_, hs⟩
          · exact Or.inl (suffix_head_mem hs)
          · exact Or.inr (suffix_head_mem hs)
        cases hT.kind hth with
        | main _ hok =>
          have : Instr.die e ∈ th.epi := by
            rcases hmem with hm | hm
            · rcases hok.body_mem hm with h1 | h1 | h1
              · cases h1
              · simp [Instr.isFail] at h1
              · exact h1
            · exact hm
          rcases hok.epi_mem this with ⟨_, _, h2⟩ | ⟨_, _, h2⟩ | ⟨_, h2⟩ <;> cases h2
        | sender m hne _ _ => exact absurd rfl hne
        | sink hne _ _ _ => exact absurd rfl hne
    · -- another thread moved: the consumer's state is the old one
      have hother := (effect_thread (i := i) hts ?_ heff).1 (net.threads.length - 1) (Ne.symm hmain)
      · rw [hother] at htsm
        have := ho.fin tsm htsm hpm
        rw [hnone] at this; cases this
      · refine ⟨?_, ?_, ?_⟩
        · intro m k he; subst he; exact (hinv.inBody hT hth hts hp ⟨by simp, by simp, by simp, by simp⟩).1
        · intro m he
          exact (hinv.inBody hT hth hts hp (by rcases he with rfl | rfl <;> exact ⟨by simp, by simp, by simp, by simp⟩)).1
        · intro e he; subst he; exact (hinv.inBody hT hth hts hp ⟨by simp, by simp, by simp, by simp⟩).1

theorem OutInv.reachable (hT : TreeNet net c) {s : NState} (h : Reachable net s) : OutInv net s := by
  induction h with
  | init => exact OutInv.init hT
  | step hr hs ih => exact ih.step hT (TInv.reachable hT hr) hs

end

/-! ### what the consumer ends with -/

/-- every sink thread is one of the saver threads whose `got_exception` the final check of `iter()` looks at -/
def SinksListed (net : Net) (c : Cert) : Prop :=
  match net.threads[net.threads.length - 1]? with
  | none => False
  | some thm =>
    match thm.epi.getLast? with
    | some (.finish sv) => ∀ t, t < net.threads.length - 1 → c.out t = none → t ∈ sv
    | _ => False

instance (net : Net) (c : Cert) : Decidable (SinksListed net c) := by
  unfold SinksListed
  cases net.threads[net.threads.length - 1]? with
  | none => exact isFalse id
  | some thm =>
    simp only
    cases thm.epi.getLast? with
    | none => exact isFalse id
    | some i => cases i <;> simp only <;> infer_instance

section
variable {net : Net} {c : Cert} {s : NState}

theorem step_none_of_ended {t : Nat} (h : ∀ ts, s.thr[t]? = some ts → ts.prog = []) : step net s t = none := by
  unfold step
  cases hts : s.thr[t]? with
  | none => rfl
  | some ts => simp [h ts hts]

/-- in a terminal state of a tree-shaped net the consumer's `iter()` has ended with an outcome -/
theorem final_outcome (hT : TreeNet net c) (hr : Reachable net s) (hterm : ∀ t, step net s t = none) :
    (∀ (t : Nat) (ts : TSt), s.thr[t]? = some ts → ts.prog = []) ∧ ∃ out, s.outcome = some out := by
  have x : Term net c s := ⟨hT, TInv.reachable hT hr, hterm⟩
  refine ⟨x.all_ended, ?_⟩
  obtain ⟨_, tsm, _, htsm, _⟩ := x.main_thread
  have := (OutInv.reachable hT hr).fin tsm htsm (x.all_ended _ tsm htsm)
  cases ho : s.outcome with
  | none => rw [ho] at this; cases this
  | some out => exact ⟨out, rfl⟩

/-- whatever the consumer raises was injected by a `fail` / `die` instruction of some thread: never a timeout, never
`MailBoxAlreadyClosed`, never an exception made up on the way -/
theorem raised_is_injected (hT : TreeNet net c) (hr : Reachable net s) {e : Exc} (ho : s.outcome = some (.raised e)) :
    ∃ id, e = .inj id ∧ Injected net id := by
  have hinv := TInv.reachable hT hr
  have hoi := OInv.reachable hT hr
  obtain ⟨_, thm, tsm, sv, hthm, htsm, _, hout⟩ := (OutInv.reachable hT hr).set _ ho
  unfold outcomeOf at hout
  cases hx : tsm.exc with
  | some x =>
    obtain ⟨o, e'⟩ := x
    rw [hx] at hout; simp only [Outcome.raised.injEq] at hout; subst hout
    exact (hoi.excIn _ thm tsm o e hthm htsm hx).1
  | none =>
    rw [hx] at hout
    cases hf : firstSaverExc s.thr sv with
    | none => rw [hf] at hout; cases hout
    | some e' =>
      rw [hf] at hout; simp only [Outcome.raised.injEq] at hout; subst hout
      obtain ⟨k, ts, hk, hexc⟩ := firstSaverExc_some hf
      obtain ⟨th, hth⟩ := hinv.thread hk
      exact (hoi.excIn k th ts true e hth hk hexc).1

/-- the consumer returns normally only if NO thread ever raised anything — no plugin, loader, saver; and then it has
taken every message of the target including the end marker: never silently truncated data -/
theorem returned_means_clean (hT : TreeNet net c) (hSL : SinksListed net c) (hr : Reachable net s)
    (ho : s.outcome = some .returned) :
    (∀ (t : Nat) (ts : TSt), s.thr[t]? = some ts → ts.exc = none) ∧
    ∃ (a : AMB) (sb : ASub), s.mbs[(c.src (net.threads.length - 1)).1]? = some a ∧
      a.subs[(c.src (net.threads.length - 1)).2]? = some sb ∧ a.closed = true ∧
      sb.next - sb.buffered = tot net c (c.src (net.threads.length - 1)).1 ∧ a.nSent = tot net c (c.src (net.threads.length - 1)).1 := by
  have hinv := TInv.reachable hT hr
  have hoi := OInv.reachable hT hr
  obtain ⟨hended, thm, tsm, sv, hthm, htsm, hfinmem, hout⟩ := (OutInv.reachable hT hr).set _ ho
  have x : Term net c s := ⟨hT, hinv, fun t => step_none_of_ended (fun ts hts => hended t ts hts)⟩
  -- the consumer holds no exception and no listed saver has one of its own
  have hmexc : tsm.exc = none := by
    unfold outcomeOf at hout
    cases hx : tsm.exc with
    | none => rfl
    | some x => rw [hx] at hout; cases hout
  have hfse : firstSaverExc s.thr sv = none := by
    unfold outcomeOf at hout
    rw [hmexc] at hout
    cases hf : firstSaverExc s.thr sv with
    | none => rfl
    | some e => rw [hf] at hout; cases hout
  obtain ⟨q0, q1, q2⟩ := hinv.pc _ thm tsm hthm htsm
  have hmin : tsm.inEpi = false := by
    cases hin : tsm.inEpi with
    | false => rfl
    | true => have := (q2 hin).2; rw [hmexc] at this; cases this
  have hmd : MainDone net s := ⟨tsm, htsm, hmin, by intro m k hm; rw [hended _ tsm htsm] at hm; cases hm⟩
  have hmainOk : MainOk c net.mbs.length net.threads.length thm := by
    cases hT.kind hthm with
    | main _ hok => exact hok
    | sender m hne _ _ => exact absurd rfl hne
    | sink hne _ _ _ => exact absurd rfl hne
  -- the saver list of `finish`
  have hlisted : ∀ t, t < net.threads.length - 1 → c.out t = none → t ∈ sv := by
    obtain ⟨sv0, he⟩ := hmainOk.epi_eq
    have hsv : sv = sv0 := by
      rw [he] at hfinmem
      simp only [List.mem_append, List.mem_cons, List.mem_map, List.mem_range, List.not_mem_nil,
        or_false] at hfinmem
      rcases hfinmem with ((h3 | ⟨_, _, h3⟩) | ⟨_, _, h3⟩) | h3
      · cases h3
      · cases h3
      · cases h3
      · cases h3; rfl
    unfold SinksListed at hSL
    rw [hthm] at hSL; simp only at hSL
    have hl : thm.epi.getLast? = some (.finish sv0) := by
      rw [he, List.getLast?_append]; simp
    rw [hl] at hSL; simp only at hSL
    rw [hsv]; exact hSL
  -- (B) no sender holds an exception
  have hsender : ∀ (t : Nat) (th : Thread) (ts : TSt) (m : Nat), net.threads[t]? = some th → s.thr[t]? = some ts →
      SenderOk c net.mbs.length t m th → ts.exc = none := by
    intro t th ts m hth hts hok
    obtain ⟨tsv, _, htsv, _, hinv', _⟩ := x.senders_done hmd _ m rfl hok.1
    rw [hok.2.1, hts] at htsv; cases htsv
    cases hx : ts.exc with
    | none => rfl
    | some e =>
      obtain ⟨o, e'⟩ := e
      rcases (hoi.excIn t th ts o e' hth hts hx).2 with h1 | ⟨_, _, id, hdie⟩
      · rw [hinv'] at h1; cases h1
      · rcases hok.mem hdie with h2 | h2
        · cases h2
        · simp [senderInstrOk] at h2
  -- (C) no sink holds an exception of its own
  have hsinkOwn : ∀ (t : Nat) (ts : TSt) (e : Exc), t < net.threads.length - 1 → c.out t = none → s.thr[t]? = some ts →
      ts.exc ≠ some (true, e) := by
    intro t ts e ht hnone hts
    exact firstSaverExc_none hfse t (hlisted t ht hnone) ts hts e
  constructor
  · intro t ts hts
    obtain ⟨th, hth⟩ := hinv.thread hts
    cases hx : ts.exc with
    | none => rfl
    | some e =>
      exfalso
      obtain ⟨own, e'⟩ := e
      cases hT.kind hth with
      | main hmain _ => subst hmain; rw [htsm] at hts; cases hts; rw [hmexc] at hx; cases hx
      | sender m _ _ hok => rw [hsender t th ts m hth hts hok] at hx; cases hx
      | sink hne hnone hok _ =>
        have htlt : t < net.threads.length - 1 := by
          have : t < net.threads.length := (List.getElem?_eq_some_iff.mp hth).1
          omega
        cases own with
        | true => exact hsinkOwn t ts e' htlt hnone hts hx
        | false =>
          obtain ⟨m, a, ha, hk, hr'⟩ := hoi.killedBy t ts e' hts hx
          obtain ⟨t2, th2, ts2, own2, e2, hth2, hts2, he2, _, hkill⟩ := hoi.reasonIn m a ha hk
          cases hT.kind hth2 with
          | main hmain2 hok2 =>
            subst hmain2; rw [htsm] at hts2; cases hts2; rw [hmexc] at he2; cases he2
          | sender m2 _ _ hok2 => rw [hsender t2 th2 ts2 m2 hth2 hts2 hok2] at he2; cases he2
          | sink hne2 hnone2 hok2 _ =>
            have ht2lt : t2 < net.threads.length - 1 := by
              have : t2 < net.threads.length := (List.getElem?_eq_some_iff.mp hth2).1
              omega
            rcases hkill with hk1 | ⟨ho2, _⟩
            · unfold SinkOk at hok2; rw [hok2.2.2.2.2.2] at hk1; simp at hk1
            · subst ho2; exact hsinkOwn t2 ts2 e2 ht2lt hnone2 hts2 he2
  · -- the consumer took everything
    obtain ⟨_, a, _, _, _, ha, hcl, hns⟩ := x.senders_done hmd _ (c.src (net.threads.length - 1)).1 rfl hmainOk.1
    obtain ⟨sp, hsp, _, hpl, _⟩ := hT.mailbox hmainOk.1
    rw [hmainOk.2.2.1] at hpl
    obtain ⟨sb, hsb⟩ := hinv.subscriber hsp ha hpl
    have := hinv.rd _ a _ sb tsm ha hsb (by rw [hmainOk.2.1]; exact htsm) hmin
    rw [hended _ tsm htsm] at this
    exact ⟨a, sb, ha, hsb, hcl, by simpa using this, hns⟩

end

end Strax.Net
