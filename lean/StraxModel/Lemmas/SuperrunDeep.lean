import StraxModel.Lemmas.SuperrunPipe
/-
  Property C14, part 6: superrun levels ABOVE the first one, for subruns that are adjacent in time.  Every further
  superrun-capable plugin reproduces the chunk boundaries, rows and `subruns` of the first level — so the level at
  which superrun processing starts does not matter for what a chunk records.
-/
namespace Strax.Superrun
open Strax

/-- a chunk of the superrun that records one subrun span equal to its own range (what the first superrun level
yields when the subruns are adjacent in time) -/
structure SuperChunk (dt sup : String) (c : Chunk) : Prop where
  hdt : c.dataType = dt
  hrun : c.runId = some sup
  hsub : ∃ rid, c.subruns = some [⟨rid, c.start, c.stop⟩]
  hsup : c.superrun = [⟨sup, c.start, c.stop⟩]
  h0 : 0 ≤ c.start
  hpos : c.start < c.stop
  hin : RowsIn c.start c.stop c.rows

/-- the same chunk as the next plugin level re-emits it -/
def retag (lv : Level) (c : Chunk) : Chunk :=
  ⟨lv.dataType, KIND, c.runId, c.start, c.stop, c.rows, c.subruns, c.superrun, lv.target⟩

theorem retag_super {lv : Level} {dt sup : String} {c : Chunk} (h : SuperChunk dt sup c) :
    SuperChunk lv.dataType sup (retag lv c) :=
  ⟨rfl, h.hrun, h.hsub, h.hsup, h.h0, h.hpos, h.hin⟩

theorem super_isSuperrun {dt sup : String} {c : Chunk} (hsupid : isSuperId sup = true) (h : SuperChunk dt sup c) :
    c.isSuperrun = true := by
  obtain ⟨rid, hs⟩ := h.hsub
  simpa [Chunk.isSuperrun, hs, h.hrun, isSuperId] using hsupid

theorem super_promised {dt sup : String} {c : Chunk} (hsupid : isSuperId sup = true) (h : SuperChunk dt sup c) :
    c.promisedContinuity = true := by
  obtain ⟨rid, hs⟩ := h.hsub
  simp [Chunk.promisedContinuity, super_isSuperrun hsupid h, hs]

theorem splitRuns_at_stop (r : Run) (h : r.start < r.stop) : splitRuns (some [r]) r.stop = (some [r], none) := by
  have a1 : ¬ r.stop ≤ r.start := by omega
  have a2 : ¬ r.start = r.stop := by omega
  simp [splitRuns, splitRunsList, popEmpty, a1, a2]

/-- cutting a superrun chunk at its end -/
theorem split_super {dt sup : String} {c : Chunk} (hsupid : isSuperId sup = true) (hc : SuperChunk dt sup c) :
    c.split c.stop true = .ok (c, remOf c sup c.target) := by
  obtain ⟨rid, hs⟩ := hc.hsub
  have hpos := hc.hpos
  rw [Chunk.split_eq (Chunk.not_bad_of_runId hc.hrun)]
  have hv : splitData c c.stop true = .ok (c.rows, [], c.stop) := by
    have : max c.stop c.start = c.stop := by omega
    simp [splitData, this, pure, Except.pure]
  have hss : splitSub c c.stop = (some [⟨rid, c.start, c.stop⟩], none) := by
    unfold splitSub
    rw [super_promised hsupid hc, hs]
    exact splitRuns_at_stop ⟨rid, c.start, c.stop⟩ hpos
  have hsr : splitRuns (some c.superrun) c.stop = (some [⟨sup, c.start, c.stop⟩], none) := by
    rw [hc.hsup]; exact splitRuns_at_stop ⟨sup, c.start, c.stop⟩ hpos
  have hr1 : splitRun1 c c.stop = some sup := by
    unfold splitRun1; simp only [hsr]; simp [runSingle, hc.hsup]
  have hr2 : splitRun2 c c.stop = some sup := by
    unfold splitRun2; simp only [hsr]; simp [runSingle, hc.hsup]
  simp only [hv, bind, Except.bind, hr1, hr2, hss, hsr]
  have hm1 : max c.start c.stop = c.stop := by omega
  have hm2 : max c.stop c.stop = c.stop := Int.max_self _
  simp only [hm1, hm2]
  rw [mkChunk_ok_gen hc.h0 (by omega) hc.hin
    (by intro y hy; cases hy; exact ⟨sortRuns_singleton _, by simp [runsOverlap]⟩)
    (by simp) (by simp) (sortRuns_singleton _) (by simp [runsOverlap])]
  simp only
  rw [mkChunk_ok_own (s := c.stop) (e := c.stop) (by have := hc.h0; omega) (by omega) (by intro x hx; simp at hx)
    (by intro y hy; cases hy)]
  have e1 : c = ⟨c.dataType, c.kind, some sup, c.start, c.stop, c.rows, some [⟨rid, c.start, c.stop⟩],
      [⟨sup, c.start, c.stop⟩], c.target⟩ := by
    have h1 := hc.hrun; have h3 := hc.hsup
    cases c; simp_all
  rw [← e1]; rfl

/-- `compute` on a chunk that already belongs to the superrun: `subruns` and `superrun` are inherited -/
theorem compute_super {lv : Level} {dt sup : String} {c : Chunk} (hc : SuperChunk dt sup c) :
    compute lv sup c = .ok (retag lv c) := by
  obtain ⟨rid, hs⟩ := hc.hsub
  unfold compute
  have hcond : (isSuperId sup && !(c.superrun.any (·.id == sup))) = false := by simp [hc.hsup]
  rw [hcond]
  simp only [Bool.false_eq_true, if_false, hc.hsup, List.length_singleton, hs]
  have hlt : ¬ (1 : Nat) > 1 := by omega
  simp only [hlt, if_false]
  rw [mkChunk_ok_gen hc.h0 (by have := hc.hpos; omega) hc.hin
    (by intro y hy; cases hy; exact ⟨sortRuns_singleton _, by simp [runsOverlap]⟩)
    (by simp) (by simp) (sortRuns_singleton _) (by simp [runsOverlap])]
  simp [retag, hc.hrun, hs, hc.hsup]

theorem concat_super {dt sup : String} {k c : Chunk} {a : Bool} (hk : RemChunk dt sup c.start k) (hc : SuperChunk dt sup c) :
    concatenate [k, c] a = .ok ⟨k.dataType, k.kind, some sup, c.start, c.stop, c.rows, c.subruns,
      [⟨sup, c.start, c.stop⟩], max k.target c.target⟩ := by
  obtain ⟨rid, hs⟩ := hc.hsub
  rw [concatenate_eq]
  have h1 : allEq (List.map (fun x => x.dataType) [k, c]) = true := by simp [allEq, hk.hdt, hc.hdt]
  have h2 : allEq (List.map (fun x => x.runId) [k, c]) = true := by simp [allEq, hk.hrun, hc.hrun]
  have h3 : concatRun [k, c] k = .ok (some sup, none) := by
    simp only [concatRun]; rw [h2]; simp [hk.hrun, pure, Except.pure]
  have h4 : concatSub [k, c] = .ok (some [⟨rid, c.start, c.stop⟩]) := by
    have : mergeSubruns [k, c] false = .ok (some [⟨rid, c.start, c.stop⟩]) := by
      unfold mergeSubruns
      have hcr : collectRuns (List.map (fun x => x.subruns) [k, c]) = ([⟨rid, c.start, c.stop⟩] : Runs).map single := by
        simp [collectRuns, hk.hsub, hs, addRun, single]
      rw [hcr, mergable_singles]
      rfl
    simp [concatSub, this, pure, Except.pure]
  have h5 : outOfOrder 0 [k, c] = false := by
    have := hk.hs; have := hk.he; have := hk.h0
    simp [outOfOrder]; omega
  simp only [h1, h2, h3, h4, h5, bind, Except.bind]
  simp only [Bool.not_true, Bool.false_and, Bool.false_eq_true, if_false, hk.hs]
  have hrows : List.flatMap (fun x => x.rows) [k, c] = c.rows := by simp [hk.hrows]
  have htg : List.foldl max 0 (List.map (fun x => x.target) [k, c]) = max k.target c.target := by
    simp [List.foldl]
  have hlast : ([k, c].getLast?.getD k).stop = c.stop := by simp
  rw [hrows, htg, hlast, hs]
  exact mkChunk_ok_own hc.h0 (by have := hc.hpos; omega) hc.hin
    (by intro y hy; cases hy; exact ⟨sortRuns_singleton _, by simp [runsOverlap]⟩)

theorem iterStep_super_first {lv : Level} {dt sup : String} {c : Chunk} (hsupid : isSuperId sup = true)
    (hc : SuperChunk dt sup c) : iterStep lv sup none c = .ok (retag lv c, remOf c sup c.target) := by
  rw [iterStep_eq]
  simp only [pure, Except.pure, bind, Except.bind, split_super hsupid hc, compute_super hc]

theorem iterStep_super_next {lv : Level} {dt sup : String} {k c : Chunk} (hsupid : isSuperId sup = true)
    (hk : RemChunk dt sup c.start k) (hc : SuperChunk dt sup c) :
    ∃ rem, iterStep lv sup (some k) c = .ok (retag lv c, rem) ∧ RemChunk dt sup c.stop rem := by
  obtain ⟨rid, hs⟩ := hc.hsub
  let b : Chunk := ⟨k.dataType, k.kind, some sup, c.start, c.stop, c.rows, c.subruns, [⟨sup, c.start, c.stop⟩], max k.target c.target⟩
  have hb : SuperChunk dt sup b := ⟨hk.hdt, rfl, ⟨rid, hs⟩, rfl, hc.h0, hc.hpos, hc.hin⟩
  refine ⟨remOf b sup b.target, ?_, remOf_rem (c := b) hk.hdt (by have := hc.h0; have := hc.hpos; show 0 ≤ c.stop; omega)⟩
  rw [iterStep_eq]
  simp only [concat_super hk hc, bind, Except.bind]
  have hsp := split_super hsupid hb
  have hcp := compute_super (lv := lv) hb
  simp only [b] at hsp hcp
  simp only [hsp, hcp, pure, Except.pure]
  have hrt : retag lv (⟨k.dataType, k.kind, some sup, c.start, c.stop, c.rows, c.subruns, [⟨sup, c.start, c.stop⟩],
      max k.target c.target⟩ : Chunk) = retag lv c := by
    simp [retag, hc.hrun, hc.hsup]
  rw [hrt]

/-- a contiguous stream of superrun chunks; `prev` = end of the previous chunk -/
def SuperStream (dt sup : String) : Option Int → List Chunk → Prop
  | _, [] => True
  | prev, c :: cs => SuperChunk dt sup c ∧ (∀ p, prev = some p → p = c.start) ∧ SuperStream dt sup (some c.stop) cs

theorem pluginIter_super {lv : Level} {dt sup : String} (hsupid : isSuperId sup = true) :
    ∀ (cs : List Chunk) (prev : Option Int) (buf : Option Chunk), SuperStream dt sup prev cs →
      (match prev with
        | none => buf = none
        | some p => ∃ k, buf = some k ∧ RemChunk dt sup p k) →
      pluginIter lv sup buf cs = .ok (cs.map (retag lv))
  | [], prev, buf, _, hb => by
    unfold pluginIter
    cases prev with
    | none => subst hb; rfl
    | some p =>
      obtain ⟨k, rfl, hk⟩ := hb
      simp [hk.hrows, pure, Except.pure]
  | c :: cs, prev, buf, hs, hb => by
    obtain ⟨hc, hprev, hrest⟩ := hs
    unfold pluginIter
    have key : ∃ rem, iterStep lv sup buf c = .ok (retag lv c, rem) ∧ RemChunk dt sup c.stop rem := by
      cases prev with
      | none =>
        subst hb
        exact ⟨_, iterStep_super_first hsupid hc, remOf_rem hc.hdt (by have := hc.h0; have := hc.hpos; omega)⟩
      | some p =>
        obtain ⟨k, rfl, hk⟩ := hb
        have := hprev p rfl
        subst this
        exact iterStep_super_next hsupid hk hc
    obtain ⟨rem, hstep, hrem⟩ := key
    have ih := pluginIter_super (lv := lv) hsupid cs (some c.stop) (some rem) hrest ⟨rem, rfl, hrem⟩
    simp only [hstep, bind, Except.bind, ih, pure, Except.pure, List.map_cons]

/-- **A further superrun level reproduces the stream**: same boundaries, rows, `subruns`, `superrun`. -/
theorem pluginRun_super {lv : Level} {dt sup : String} {cs : List Chunk} (hsupid : isSuperId sup = true)
    (hne : cs ≠ []) (hs : SuperStream dt sup none cs) : pluginRun lv sup cs = .ok (cs.map (retag lv)) := by
  unfold pluginRun
  cases cs with
  | nil => exact absurd rfl hne
  | cons c cs => exact pluginIter_super hsupid (c :: cs) none none hs rfl

theorem superStream_retag {lv : Level} {dt sup : String} : ∀ (cs : List Chunk) (prev : Option Int),
    SuperStream dt sup prev cs → SuperStream lv.dataType sup prev (cs.map (retag lv))
  | [], _, _ => trivial
  | c :: cs, _, h => ⟨retag_super h.1, h.2.1, superStream_retag cs (some c.stop) h.2.2⟩

theorem retag_retag (lv lv' : Level) (c : Chunk) : retag lv' (retag lv c) = retag lv' c := rfl

/-- **All further superrun levels reproduce the stream.** -/
theorem runLevels_super {sup : String} (hsupid : isSuperId sup = true) :
    ∀ (ls : List Level) (dt : String) (cs : List Chunk), cs ≠ [] → SuperStream dt sup none cs →
      runLevels sup ls cs = .ok (ls.map fun lv => (lv, cs.map (retag lv)))
  | [], _, _, _, _ => rfl
  | lv :: ls, dt, cs, hne, hs => by
    unfold runLevels
    rw [pluginRun_super hsupid hne hs]
    have hne' : cs.map (retag lv) ≠ [] := by cases cs <;> simp_all
    have ih := runLevels_super hsupid ls lv.dataType (cs.map (retag lv)) hne' (superStream_retag cs none hs)
    simp only [bind, Except.bind, ih, pure, Except.pure, List.map_cons, List.map_map]
    congr 2

/-- the concat loader's stream when consecutive subruns are ADJACENT in time: every chunk starts where the previous
one ended, also across subrun borders -/
def AdjStream (dt sup : String) : Option (String × Int) → List Chunk → Prop
  | _, [] => True
  | prev, c :: cs => ∃ rid, LoaderChunk dt rid c ∧ rid ≠ sup ∧
      (∀ r' p, prev = some (r', p) → p = c.start) ∧ AdjStream dt sup (some (rid, c.stop)) cs

theorem AdjStream.loader {dt sup : String} : ∀ (cs : List Chunk) (prev : Option (String × Int)),
    AdjStream dt sup prev cs → LoaderStream dt sup prev cs
  | [], _, _ => trivial
  | c :: cs, prev, ⟨rid, hc, hne, hp, hrest⟩ => by
    refine ⟨rid, hc, hne, ?_, AdjStream.loader cs _ hrest⟩
    cases prev with
    | none => trivial
    | some rp =>
      obtain ⟨r', p⟩ := rp
      have := hp r' p rfl
      exact ⟨by omega, fun _ => this⟩

theorem expected_superStream {lv : Level} {dt sup : String} : ∀ (cs : List Chunk) (prev : Option (String × Int)),
    AdjStream dt sup prev cs → SuperStream lv.dataType sup (prev.map (·.2)) (expected lv sup (prev.map (·.2)) cs)
  | [], _, _ => trivial
  | c :: cs, prev, ⟨rid, hc, hne, hp, hrest⟩ => by
    have hstart : (prev.map (·.2)).getD c.start = c.start := by
      cases prev with
      | none => rfl
      | some rp => obtain ⟨r', p⟩ := rp; exact hp r' p rfl
    have hrid : ridOf c = rid := by simp [ridOf, hc.hrun]
    simp only [expected, hstart, hrid]
    refine ⟨⟨rfl, rfl, ⟨rid, rfl⟩, rfl, hc.h0, hc.hpos, hc.hin⟩, ?_, expected_superStream cs (some (rid, c.stop)) hrest⟩
    intro p hpp
    cases prev with
    | none => cases hpp
    | some rp =>
      obtain ⟨r', p'⟩ := rp
      simp at hpp
      subst hpp
      exact hp r' p' rfl

/-- **Adjacent subruns, any number of superrun levels.**  Every computed level yields the chunks of the first one
(re-tagged with its own data type / target size): same boundaries, same rows, same `subruns`. -/
theorem runLevels_adjacent {lv1 : Level} {dt sup : String} {cs : List Chunk} (ls : List Level) (hallow : lv1.allow = true)
    (hsupid : isSuperId sup = true) (hne : cs ≠ []) (hs : AdjStream dt sup none cs) :
    runLevels sup (lv1 :: ls) cs = .ok ((lv1 :: ls).map fun lv => (lv, (expected lv1 sup none cs).map (retag lv))) := by
  unfold runLevels
  rw [pluginRun_loader hallow hsupid hne (AdjStream.loader cs none hs)]
  have hE : expected lv1 sup none cs ≠ [] := by cases cs <;> simp_all [expected]
  have hss := expected_superStream (lv := lv1) cs none hs
  have ih := runLevels_super hsupid ls lv1.dataType (expected lv1 sup none cs) hE hss
  simp only [bind, Except.bind, ih, pure, Except.pure, List.map_cons]
  have hself : (expected lv1 sup none cs).map (retag lv1) = expected lv1 sup none cs := by
    have : ∀ (cs : List Chunk) (prev : Option Int), (expected lv1 sup prev cs).map (retag lv1) = expected lv1 sup prev cs := by
      intro cs
      induction cs with
      | nil => intro prev; rfl
      | cons c cs ih => intro prev; simp only [expected, List.map_cons, ih]; rfl
    exact this cs none
  rw [hself]

/-! ### stored without rechunking and re-read -/

theorem reload_super {dt sup : String} {c : Chunk} (hc : SuperChunk dt sup c) : reload c = .ok c := by
  obtain ⟨rid, hs⟩ := hc.hsub
  unfold reload
  simp only [hc.hrun, hs, Option.isNone_some, Bool.and_false, Bool.false_eq_true, if_false, Option.map_some]
  have hsb : sortById [⟨rid, c.start, c.stop⟩] = [⟨rid, c.start, c.stop⟩] := by simp [sortById]
  rw [hsb, mkChunk_ok_own hc.h0 (by have := hc.hpos; omega) hc.hin
    (by intro y hy; cases hy; exact ⟨sortRuns_singleton _, by simp [runsOverlap]⟩)]
  have h1 := hc.hrun; have h3 := hc.hsup
  cases c; simp_all

/-- a level saved without rechunking is stored and re-read chunk for chunk, annotations included -/
theorem save_reload_super {a : Int} {lv : Level} {dt sup : String} (hre : lv.rechunk = false) :
    ∀ (cs : List Chunk) (prev : Option Int), SuperStream dt sup prev cs →
      save a lv sup cs = .ok cs ∧ cs.mapM reload = .ok cs := by
  intro cs prev hs
  refine ⟨by simp [save, hre, pure, Except.pure], ?_⟩
  have : ∀ (cs : List Chunk) (prev : Option Int), SuperStream dt sup prev cs → ∀ x ∈ cs, reload x = .ok (id x) := by
    intro cs
    induction cs with
    | nil => intro _ _ x hx; simp at hx
    | cons c cs ih =>
      intro prev h x hx
      simp only [List.mem_cons] at hx
      rcases hx with rfl | hx
      · exact reload_super h.1
      · exact ih (some c.stop) h.2.2 x hx
  simpa using mapM_ok_of_forall reload id cs (this cs prev hs)

/-! ### per-subrun time windows only ever drop rows -/

theorem applyTimeRange1_sublist {tr : Int × Int} {c c' : Chunk} (h : applyTimeRange1 tr c = .ok c') :
    List.Sublist c'.rows c.rows := by
  unfold applyTimeRange1 at h
  obtain ⟨c1, h1, h⟩ := bind_ok h
  have hs1 : List.Sublist c1.rows c.rows := by
    unfold trimStart at h1
    split at h1
    · obtain ⟨⟨l, r⟩, hsp, h1⟩ := bind_ok h1
      simp only [pure, Except.pure, Except.ok.injEq] at h1
      subst h1
      rw [← split_rows hsp]
      exact List.sublist_append_right _ _
    · simp only [pure, Except.pure, Except.ok.injEq] at h1
      subst h1; exact List.Sublist.refl _
  unfold trimEnd at h
  split at h
  · split at h
    · rename_i p hsp
      obtain ⟨l, r⟩ := p
      simp only [pure, Except.pure, Except.ok.injEq] at h
      subst h
      refine List.Sublist.trans ?_ hs1
      rw [← split_rows hsp]
      exact List.sublist_append_left _ _
    · simp only [pure, Except.pure, Except.ok.injEq] at h
      subst h; exact hs1
    · cases h
  · simp only [pure, Except.pure, Except.ok.injEq] at h
    subst h; exact hs1

/-- a loader with a time window yields a sublist (in order, nothing duplicated) of the full run's rows -/
theorem applyTimeRange_sublist (tr : Int × Int) : ∀ (cs out : List Chunk), applyTimeRange tr cs = .ok out →
    List.Sublist (rowsOf out) (rowsOf cs)
  | [], out, h => by
    simp only [applyTimeRange, pure, Except.pure, Except.ok.injEq] at h; subst h; exact List.Sublist.refl _
  | c :: cs, out, h => by
    unfold applyTimeRange at h
    split at h
    · rw [rowsOf_cons]
      exact List.Sublist.trans (applyTimeRange_sublist tr cs out h) (List.sublist_append_right _ _)
    · obtain ⟨c', h1, h⟩ := bind_ok h
      obtain ⟨rest, h2, h⟩ := bind_ok h
      simp only [pure, Except.pure, Except.ok.injEq] at h
      subst h
      rw [rowsOf_cons, rowsOf_cons]
      exact List.Sublist.append (applyTimeRange1_sublist h1) (applyTimeRange_sublist tr cs rest h2)

/-! ### the whole `superGet` for adjacent subruns and any number of superrun-capable levels -/

/-- hypotheses on the world: source plugin `l0` (saved without rechunking), superrun-capable plugins `l1 :: ls`
above it, every listed subrun with ≥ 1 accepted source chunk, the concat loader's stream adjacent in time -/
structure WorldAdj (w : World) (l0 l1 : Level) (ls : List Level) (spec : List String) : Prop where
  hlevels : w.levels = l0 :: l1 :: ls
  hre : l0.rechunk = false
  hsrc : l0.allow = false
  hallow : ∀ lv ∈ l1 :: ls, lv.allow = true
  hsup : isSuperId w.superName = true
  hruns : ∀ rid ∈ spec, ∃ raw, w.src.lookup rid = some raw ∧ raw ≠ [] ∧ isSuperId rid = false ∧ ∀ c ∈ raw, RawOK c
  hspec : spec ≠ []
  hstream : AdjStream l0.dataType w.superName none (loaderStream w l0 spec)

theorem contStep_retag (lv : Level) (st : ContState) (c : Chunk) : contStep st (retag lv c) = contStep st c := rfl

theorem continuity_retag (lv : Level) (cs : List Chunk) :
    Superrun.continuityCheck (cs.map (retag lv)) = Superrun.continuityCheck cs := by
  unfold Superrun.continuityCheck
  have : ∀ (cs : List Chunk) (st : ContState), (cs.map (retag lv)).foldlM contStep st = cs.foldlM contStep st := by
    intro cs
    induction cs with
    | nil => intro st; rfl
    | cons c cs ih =>
      intro st
      simp only [List.map_cons, List.foldlM_cons, contStep_retag]
      cases contStep st c with
      | error e => rfl
      | ok st' => exact ih st'
  rw [this]

theorem descend_allow {κ : Type} [DecidableEq κ] {w : World} {spec : List String} {key : Key κ} {l0 : Level}
    {base : List Chunk} (hsrc : l0.allow = false) (hcl : concatLoader w spec [] 0 = .ok base) :
    ∀ (rev : List Level), (∀ lv ∈ rev, lv.allow = true) →
      descend w spec [] key ([] : Store κ) false (rev ++ [l0]) = .ok (base, rev.reverse)
  | [], _ => by simp [descend, hsrc, hcl, bind, Except.bind, pure, Except.pure]
  | lv :: rev, h => by
    have ih := descend_allow (key := key) hsrc hcl rev (fun x hx => h x (by simp [hx]))
    have hal : lv.allow = true := h lv (by simp)
    simp [descend, hal, ih, bind, Except.bind, pure, Except.pure]

/-- **Totality for adjacent subruns, any depth**: `get_iter` of the superrun at the topmost of any number of
superrun-capable levels (nothing stored, nothing written) does not raise, passes `continuity_check` and yields the
first level's chunks re-tagged. -/
theorem superGet_adjacent {κ : Type} [DecidableEq κ] (H : List (String × Option (Int × Int)) → Bool → κ) {w : World}
    {l0 l1 top : Level} {ls : List Level} {spec : List String} (h : WorldAdj w l0 l1 ls spec)
    (htop : (l1 :: ls).getLast? = some top) :
    superGet H w spec [] [] (ls.length + 1) false false
      = .ok ((expected l1 w.superName none (loaderStream w l0 spec)).map (retag top), []) := by
  have hcl := concatLoader_source' (spec := spec) h.hlevels h.hre h.hruns
  have hne : loaderStream w l0 spec ≠ [] := by
    obtain ⟨rid, rest, hsp⟩ := List.exists_cons_of_ne_nil h.hspec
    obtain ⟨raw, hs, hne, _, _⟩ := h.hruns rid (by rw [hsp]; simp)
    obtain ⟨c, tl, hraw⟩ := List.exists_cons_of_ne_nil hne
    simp [loaderStream, hsp, rawOf, hs, hraw]
  unfold superGet
  have h1 : w.levels[ls.length + 1]? = some top := by
    rw [h.hlevels]
    rw [List.getLast?_eq_getElem?] at htop
    simpa using htop
  have hal : (!top.allow) = false := by
    have : top ∈ l1 :: ls := List.mem_of_getLast? htop
    rw [h.hallow top this]; rfl
  have ht : (w.levels.take (ls.length + 1 + 1)).reverse = (l1 :: ls).reverse ++ [l0] := by
    rw [h.hlevels]
    have : List.take (ls.length + 1 + 1) (l0 :: l1 :: ls) = l0 :: l1 :: ls := List.take_of_length_le (by simp)
    rw [this]; simp
  simp only [h1, hal, Bool.false_eq_true, if_false, ht]
  rw [descend_allow h.hsrc hcl (l1 :: ls).reverse (by intro lv hlv; exact h.hallow lv (List.mem_reverse.mp hlv))]
  simp only [bind, Except.bind, List.reverse_reverse]
  rw [runLevels_adjacent ls (h.hallow l1 (by simp)) h.hsup hne h.hstream]
  have hlast : (List.map (fun lv => (lv, (expected l1 w.superName none (loaderStream w l0 spec)).map (retag lv))) (l1 :: ls)).getLast?
      = some (top, (expected l1 w.superName none (loaderStream w l0 spec)).map (retag top)) := by
    rw [List.getLast?_map, htop]; rfl
  simp only [topOutput, hlast, continuity_retag, continuity_expected l1 w.superName h.hsup, storeAfter,
    Bool.false_eq_true, if_false, pure, Except.pure]

end Strax.Superrun
