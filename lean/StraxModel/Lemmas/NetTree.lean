import StraxModel.Lemmas.NetStep
/-
  Tree-shaped nets (Model/Net.lean): every mailbox has exactly one reader that is itself a sender or the consumer
  (its "pipe" reader); all its other readers are sinks (savers, discarders) that only read that one mailbox; every
  sender thread feeds exactly one mailbox and reads only mailboxes of lower rank.  Chains and trees of single-output
  plugins and loaders with any number of savers are of this shape.

  This file: the static description (`TreeNet`, decidable), the inductive invariant (`TInv`) and its preservation.
-/
namespace Strax.Net
open Strax

/-- number of messages (the final `StopIteration` included) a program still sends into mailbox `m` -/
def countOut (m : Nat) (l : List Instr) : Nat := l.count (.send m) + l.count (.close m)

/-- certificate of the tree shape -/
structure Cert where
  rank : Nat → Nat            -- mailbox ↦ rank (inputs of a stage have lower rank than its output)
  sender : Nat → Nat          -- mailbox ↦ the thread that sends into it
  reader : Nat → Nat → Nat    -- mailbox, subscriber ↦ the thread that reads it
  pipe : Nat → Nat            -- mailbox ↦ subscriber index of its one non-sink reader
  out : Nat → Option Nat      -- thread ↦ the mailbox it feeds (`none`: a sink or the consumer)
  src : Nat → Nat × Nat       -- sink / consumer thread ↦ its one subscription

def Instr.isFail : Instr → Bool
  | .fail _ => true
  | _ => false

def Instr.isDie : Instr → Bool
  | .die _ => true
  | _ => false

/-- `die` only as the very last instruction -/
def dieOnlyLast : List Instr → Bool
  | [] => true
  | [_] => true
  | i :: j :: r => !i.isDie && dieOnlyLast (j :: r)

/-- instructions a sender of mailbox `m` (thread `t`) may execute before its final `close m` -/
def senderInstrOk (c : Cert) (nm t m : Nat) : Instr → Prop
  | .gate k => k = m
  | .send k => k = m
  | .read m' k' => m' < nm ∧ c.reader m' k' = t ∧ c.pipe m' = k' ∧ c.rank m' < c.rank m
  | .fail _ => True
  | _ => False

instance (c : Cert) (nm t m : Nat) (i : Instr) : Decidable (senderInstrOk c nm t m i) := by
  cases i <;> simp only [senderInstrOk] <;> infer_instance

def SenderOk (c : Cert) (nm t m : Nat) (th : Thread) : Prop :=
  m < nm ∧ c.sender m = t ∧ th.epi = [.killIfExc m] ∧ th.body.getLast? = some (.close m) ∧
  ∀ i ∈ th.body.dropLast, senderInstrOk c nm t m i

def SinkOk (c : Cert) (nm t : Nat) (th : Thread) : Prop :=
  (c.src t).1 < nm ∧ c.reader (c.src t).1 (c.src t).2 = t ∧ (c.src t).2 ≠ c.pipe (c.src t).1 ∧
  (∀ i ∈ th.body, i = .read (c.src t).1 (c.src t).2 ∨ i.isFail = true ∨ i.isDie = true) ∧ dieOnlyLast th.body = true ∧
  (th.epi = [.killIfOwn (c.src t).1] ∨ (th.epi = [] ∧ ∀ i ∈ th.body, i.isFail = false))

/-- the consumer: `reads ++ epilogue`, epilogue = kill every mailbox, join every other thread, finish -/
def MainOk (c : Cert) (nm n : Nat) (th : Thread) : Prop :=
  (c.src (n - 1)).1 < nm ∧ c.reader (c.src (n - 1)).1 (c.src (n - 1)).2 = n - 1 ∧
  c.pipe (c.src (n - 1)).1 = (c.src (n - 1)).2 ∧ c.out (n - 1) = none ∧
  th.body = th.body.take (th.body.length - th.epi.length) ++ th.epi ∧
  (∀ i ∈ th.body.take (th.body.length - th.epi.length),
    i = .read (c.src (n - 1)).1 (c.src (n - 1)).2 ∨ i.isFail = true) ∧
  (match th.epi.getLast? with
   | some (.finish sv) => th.epi = (List.range nm).map Instr.killIfExc ++ (List.range (n - 1)).map Instr.join ++ [.finish sv]
   | _ => False)

def ThreadOk (net : Net) (c : Cert) (t : Nat) : Prop :=
  match net.threads[t]? with
  | none => False
  | some th =>
    if t = net.threads.length - 1 then MainOk c net.mbs.length net.threads.length th
    else match c.out t with
      | some m => SenderOk c net.mbs.length t m th
      | none => SinkOk c net.mbs.length t th

/-- total number of messages (with the final `StopIteration`) the sender of `m` sends -/
def tot (net : Net) (c : Cert) (m : Nat) : Nat :=
  match net.threads[c.sender m]? with
  | some th => countOut m th.body
  | none => 0

def ReaderOk (net : Net) (c : Cert) (m k : Nat) : Prop :=
  c.reader m k < net.threads.length ∧
  (match net.threads[c.reader m k]? with
   | some th => th.body.count (.read m k) = tot net c m
   | none => False) ∧
  (k ≠ c.pipe m → c.reader m k ≠ net.threads.length - 1 ∧ c.out (c.reader m k) = none ∧ c.src (c.reader m k) = (m, k)) ∧
  (k = c.pipe m → c.reader m k = net.threads.length - 1 ∨ (c.out (c.reader m k)).isSome)

def MailboxOk (net : Net) (c : Cert) (m : Nat) : Prop :=
  match net.mbs[m]? with
  | none => False
  | some sp =>
    1 ≤ sp.cap ∧ c.pipe m < sp.drive.length ∧ sp.drive[c.pipe m]? = some true ∧
    c.sender m < net.threads.length - 1 ∧ c.out (c.sender m) = some m ∧
    ∀ k, k < sp.drive.length → ReaderOk net c m k

/-- the static shape -/
def TreeNet (net : Net) (c : Cert) : Prop :=
  1 ≤ net.threads.length ∧ (∀ m, m < net.mbs.length → MailboxOk net c m) ∧ (∀ t, t < net.threads.length → ThreadOk net c t)

instance (c : Cert) (nm t m : Nat) (th : Thread) : Decidable (SenderOk c nm t m th) := by unfold SenderOk; infer_instance
instance (c : Cert) (nm t : Nat) (th : Thread) : Decidable (SinkOk c nm t th) := by unfold SinkOk; infer_instance
instance (c : Cert) (nm n : Nat) (th : Thread) : Decidable (MainOk c nm n th) := by
  unfold MainOk
  cases th.epi.getLast? with
  | none => simp only; infer_instance
  | some i => cases i <;> simp only <;> infer_instance
instance (net : Net) (c : Cert) (t : Nat) : Decidable (ThreadOk net c t) := by
  unfold ThreadOk
  cases net.threads[t]? with
  | none => exact isFalse id
  | some th =>
    simp only
    by_cases h : t = net.threads.length - 1
    · simp only [h, if_true]; infer_instance
    · simp only [h, if_false]
      cases c.out t <;> simp only <;> infer_instance
instance (net : Net) (c : Cert) (m k : Nat) : Decidable (ReaderOk net c m k) := by
  unfold ReaderOk
  cases net.threads[c.reader m k]? <;> simp only <;> infer_instance
instance (net : Net) (c : Cert) (m : Nat) : Decidable (MailboxOk net c m) := by
  unfold MailboxOk
  cases net.mbs[m]? <;> simp only <;> infer_instance
instance (net : Net) (c : Cert) : Decidable (TreeNet net c) := by unfold TreeNet; infer_instance

/-! ### the certificate of a wired net, computed -/

def Instr.outMb : Instr → Option Nat
  | .gate m => some m
  | .send m => some m
  | .close m => some m
  | _ => none

def Instr.readSub : Instr → Option (Nat × Nat)
  | .read m k => some (m, k)
  | _ => none

def outOfThread (th : Thread) : Option Nat := th.body.findSome? Instr.outMb

def senderIdx (net : Net) (m : Nat) : Nat :=
  (net.threads.findIdx? fun th => outOfThread th == some m).getD 0

def readerIdx (net : Net) (m k : Nat) : Nat :=
  (net.threads.findIdx? fun th => th.body.contains (.read m k)).getD 0

/-- rank by iteration: one more than the largest rank among the inputs of the sender -/
def rankIter (net : Net) : Nat → Nat → Nat
  | 0, _ => 0
  | f + 1, m =>
    match net.threads[senderIdx net m]? with
    | none => 0
    | some th => (th.body.filterMap Instr.readSub).foldl (fun acc x => max acc (rankIter net f x.1 + 1)) 0

def certOf (net : Net) : Cert :=
  let n := net.threads.length
  { rank := rankIter net net.mbs.length,
    sender := senderIdx net,
    reader := readerIdx net,
    pipe := fun m =>
      let nk := (net.mbs[m]?.map (·.drive.length)).getD 0
      ((List.range nk).find? fun k =>
        let r := readerIdx net m k
        r == n - 1 || ((net.threads[r]?.bind outOfThread).isSome)).getD 0,
    out := fun t => if t = n - 1 then none else net.threads[t]?.bind outOfThread,
    src := fun t => ((net.threads[t]?.bind fun th => th.body.findSome? Instr.readSub)).getD (0, 0) }

end Strax.Net
