import StraxModel.Lemmas.NetStep
/-
  Tree-shaped nets (Model/Net.lean): every mailbox has exactly one reader that is itself a sender or the consumer
  (its "pipe" reader); all its other readers are sinks (savers, discarders) that only read that one mailbox; every
  sender thread feeds exactly one mailbox and reads only mailboxes of lower rank.  Chains and trees of single-output
  plugins and loaders with any number of savers are of this shape.

  This file: the static description (`TreeNet`, decidable), the inductive invariant (`TInv`) and its preservation.
-/
namespace Strax.Net
open Strax

/-- number of messages (the final `StopIteration` included) a program still sends into mailbox `m` -/
def countOut (m : Nat) (l : List Instr) : Nat := l.count (.send m) + l.count (.close m)

/-- certificate of the tree shape -/
structure Cert where
  rank : Nat → Nat            -- mailbox ↦ rank (inputs of a stage have lower rank than its output)
  sender : Nat → Nat          -- mailbox ↦ the thread that sends into it
  reader : Nat → Nat → Nat    -- mailbox, subscriber ↦ the thread that reads it
  pipe : Nat → Nat            -- mailbox ↦ subscriber index of its one non-sink reader
  out : Nat → Option Nat      -- thread ↦ the mailbox it feeds (`none`: a sink or the consumer)
  src : Nat → Nat × Nat       -- sink / consumer thread ↦ its one subscription

def Instr.isFail : Instr → Bool
  | .fail _ => true
  | _ => false

def Instr.isDie : Instr → Bool
  | .die _ => true
  | _ => false

/-- `die` only as the very last instruction -/
def dieOnlyLast : List Instr → Bool
  | [] => true
  | [_] => true
  | i :: j :: r => !i.isDie && dieOnlyLast (j :: r)

/-- instructions a sender of mailbox `m` (thread `t`) may execute before its final `close m` -/
def senderInstrOk (c : Cert) (nm t m : Nat) : Instr → Prop
  | .gate k => k = m
  | .send k => k = m
  | .read m' k' => m' < nm ∧ c.reader m' k' = t ∧ c.pipe m' = k' ∧ c.rank m' < c.rank m
  | .fail _ => True
  | _ => False

instance (c : Cert) (nm t m : Nat) (i : Instr) : Decidable (senderInstrOk c nm t m i) := by
  cases i <;> simp only [senderInstrOk] <;> infer_instance

def SenderOk (c : Cert) (nm t m : Nat) (th : Thread) : Prop :=
  m < nm ∧ c.sender m = t ∧ th.epi = [.killIfExc m] ∧ th.body.getLast? = some (.close m) ∧
  ∀ i ∈ th.body.dropLast, senderInstrOk c nm t m i

def SinkOk (c : Cert) (nm t : Nat) (th : Thread) : Prop :=
  (c.src t).1 < nm ∧ c.reader (c.src t).1 (c.src t).2 = t ∧ (c.src t).2 ≠ c.pipe (c.src t).1 ∧
  (∀ i ∈ th.body, i = .read (c.src t).1 (c.src t).2 ∨ i.isFail = true ∨ i.isDie = true) ∧ dieOnlyLast th.body = true ∧
  th.epi = [.killIfOwn (c.src t).1]

/-- the consumer: `reads ++ epilogue`, epilogue = kill every mailbox, join every other thread, finish -/
def MainOk (c : Cert) (nm n : Nat) (th : Thread) : Prop :=
  (c.src (n - 1)).1 < nm ∧ c.reader (c.src (n - 1)).1 (c.src (n - 1)).2 = n - 1 ∧
  c.pipe (c.src (n - 1)).1 = (c.src (n - 1)).2 ∧ c.out (n - 1) = none ∧
  th.body = th.body.take (th.body.length - th.epi.length) ++ th.epi ∧
  (∀ i ∈ th.body.take (th.body.length - th.epi.length),
    i = .read (c.src (n - 1)).1 (c.src (n - 1)).2 ∨ i.isFail = true) ∧
  (match th.epi.getLast? with
   | some (.finish sv) => th.epi = (Instr.killIfExc (c.src (n - 1)).1 :: (List.range nm).map Instr.killIfExc) ++
       (List.range (n - 1)).map Instr.join ++ [.finish sv]
   | _ => False)

def ThreadOk (net : Net) (c : Cert) (t : Nat) : Prop :=
  match net.threads[t]? with
  | none => False
  | some th =>
    if t = net.threads.length - 1 then MainOk c net.mbs.length net.threads.length th
    else match c.out t with
      | some m => SenderOk c net.mbs.length t m th
      | none => SinkOk c net.mbs.length t th ∧
          (match net.mbs[(c.src t).1]? with
           | some sp => (c.src t).2 < sp.drive.length
           | none => False)

/-- total number of messages (with the final `StopIteration`) the sender of `m` sends -/
def tot (net : Net) (c : Cert) (m : Nat) : Nat :=
  match net.threads[c.sender m]? with
  | some th => countOut m th.body
  | none => 0

def ReaderOk (net : Net) (c : Cert) (m k : Nat) : Prop :=
  c.reader m k < net.threads.length ∧
  (match net.threads[c.reader m k]? with
   | some th => th.body.count (.read m k) = tot net c m
   | none => False) ∧
  (k ≠ c.pipe m → c.reader m k ≠ net.threads.length - 1 ∧ c.out (c.reader m k) = none ∧ c.src (c.reader m k) = (m, k)) ∧
  (k = c.pipe m → c.reader m k = net.threads.length - 1 ∨ (c.out (c.reader m k)).isSome)

def MailboxOk (net : Net) (c : Cert) (m : Nat) : Prop :=
  match net.mbs[m]? with
  | none => False
  | some sp =>
    1 ≤ sp.cap ∧ c.pipe m < sp.drive.length ∧ sp.drive[c.pipe m]? = some true ∧
    c.sender m < net.threads.length - 1 ∧ c.out (c.sender m) = some m ∧
    ∀ k, k < sp.drive.length → ReaderOk net c m k

/-- the static shape the net-level `_partial` theorems are proved for.  What it EXCLUDES (all of it inside the property's
quantifier, so for these there is no theorem, only the sampled checks):
* multi-output plugins (`divide_outputs`) and every reconvergent graph, also a lag-free diamond: each mailbox has exactly
  ONE reader that is a stage or the consumer (`c.pipe m`), all its other readers are savers (`ReaderOk`, third clause);
* readers that stop early: `ReaderOk` demands `body.count (read m k) = tot net c m`, i.e. every stage, saver and the
  consumer is programmed to read each of its inputs to exhaustion (all messages and the end marker) unless an exception
  ends it first — a stage that returns without draining an input (in the real code: its upstream sender hangs until the
  mailbox timeout) is outside;
* mailboxes whose pipe reader does not drive (`MailboxOk`: `drive[c.pipe m] = true`), capacity 0;
* savers that `die` anywhere but in their last instruction (`close()` in the `finally` of `save_from`).
`wire` of a chain / tree of single-output plugins and loaders satisfies it: proved for finite families
(`C06.wire_treeNet_partial`, `C06.wire_treeNet_merge_partial`), evaluated by the driver on the wiring of every real run of
the check (`c06.run`, field `tree=`); there is no general lemma `tree-shaped components ⇒ TreeNet (wire …)`. -/
def TreeNet (net : Net) (c : Cert) : Prop :=
  1 ≤ net.threads.length ∧ (∀ m, m < net.mbs.length → MailboxOk net c m) ∧ (∀ t, t < net.threads.length → ThreadOk net c t)

instance (c : Cert) (nm t m : Nat) (th : Thread) : Decidable (SenderOk c nm t m th) := by unfold SenderOk; infer_instance
instance (c : Cert) (nm t : Nat) (th : Thread) : Decidable (SinkOk c nm t th) := by unfold SinkOk; infer_instance
instance (c : Cert) (nm n : Nat) (th : Thread) : Decidable (MainOk c nm n th) := by
  unfold MainOk
  cases th.epi.getLast? with
  | none => simp only; infer_instance
  | some i => cases i <;> simp only <;> infer_instance
instance (net : Net) (c : Cert) (t : Nat) : Decidable (ThreadOk net c t) := by
  unfold ThreadOk
  cases net.threads[t]? with
  | none => exact isFalse id
  | some th =>
    simp only
    by_cases h : t = net.threads.length - 1
    · simp only [h, if_true]; infer_instance
    · simp only [h, if_false]
      cases c.out t with
      | some m => simp only; infer_instance
      | none =>
        simp only
        cases net.mbs[(c.src t).1]? <;> simp only <;> infer_instance
instance (net : Net) (c : Cert) (m k : Nat) : Decidable (ReaderOk net c m k) := by
  unfold ReaderOk
  cases net.threads[c.reader m k]? <;> simp only <;> infer_instance
instance (net : Net) (c : Cert) (m : Nat) : Decidable (MailboxOk net c m) := by
  unfold MailboxOk
  cases net.mbs[m]? <;> simp only <;> infer_instance
instance (net : Net) (c : Cert) : Decidable (TreeNet net c) := by unfold TreeNet; infer_instance

/-! ### consequences of the static shape -/

theorem TreeNet.mailbox {net : Net} {c : Cert} (h : TreeNet net c) {m : Nat} (hm : m < net.mbs.length) :
    ∃ sp, net.mbs[m]? = some sp ∧ 1 ≤ sp.cap ∧ c.pipe m < sp.drive.length ∧ sp.drive[c.pipe m]? = some true ∧
      c.sender m < net.threads.length - 1 ∧ c.out (c.sender m) = some m ∧ ∀ k, k < sp.drive.length → ReaderOk net c m k := by
  have := h.2.1 m hm
  unfold MailboxOk at this
  cases hsp : net.mbs[m]? with
  | none => simp [hsp] at this
  | some sp => simp only [hsp] at this; exact ⟨sp, rfl, this⟩

inductive Kind (net : Net) (c : Cert) (t : Nat) (th : Thread) : Prop
  | main : t = net.threads.length - 1 → MainOk c net.mbs.length net.threads.length th → Kind net c t th
  | sender (m : Nat) : t ≠ net.threads.length - 1 → c.out t = some m → SenderOk c net.mbs.length t m th → Kind net c t th
  | sink : t ≠ net.threads.length - 1 → c.out t = none → SinkOk c net.mbs.length t th →
      (∃ sp, net.mbs[(c.src t).1]? = some sp ∧ (c.src t).2 < sp.drive.length) → Kind net c t th

theorem TreeNet.kind {net : Net} {c : Cert} (h : TreeNet net c) {t : Nat} {th : Thread} (ht : net.threads[t]? = some th) :
    Kind net c t th := by
  have hlt : t < net.threads.length := (List.getElem?_eq_some_iff.mp ht).1
  have := h.2.2 t hlt
  unfold ThreadOk at this
  simp only [ht] at this
  by_cases hm : t = net.threads.length - 1
  · simp only [hm, if_true] at this; exact .main hm (by simpa [hm] using this)
  · simp only [hm, if_false] at this
    cases ho : c.out t with
    | some m => simp only [ho] at this; exact .sender m hm ho this
    | none =>
      simp only [ho] at this
      refine .sink hm ho this.1 ?_
      cases hsp : net.mbs[(c.src t).1]? with
      | none => simp [hsp] at this
      | some sp => simp only [hsp] at this; exact ⟨sp, rfl, this.2⟩

theorem dropLast_getLast? {α} (l : List α) (a : α) (h : l.getLast? = some a) : l = l.dropLast ++ [a] := by
  induction l with
  | nil => simp at h
  | cons x r ih =>
    cases r with
    | nil => simp at h; subst h; simp
    | cons y r' =>
      have : (y :: r').getLast? = some a := by simpa [List.getLast?_cons_cons] using h
      have := ih this
      simp only [List.dropLast_cons_cons, List.cons_append]
      rw [← this]

/-- the body of a sender is `pre ++ [close m]` -/
theorem SenderOk.body {c : Cert} {nm t m : Nat} {th : Thread} (h : SenderOk c nm t m th) :
    th.body = th.body.dropLast ++ [.close m] := by
  have := h.2.2.2.1
  exact dropLast_getLast? _ _ this

theorem SenderOk.mem {c : Cert} {nm t m : Nat} {th : Thread} (h : SenderOk c nm t m th) {i : Instr} (hi : i ∈ th.body) :
    i = .close m ∨ senderInstrOk c nm t m i := by
  rw [h.body] at hi
  rcases List.mem_append.mp hi with hi | hi
  · exact Or.inr (h.2.2.2.2 i hi)
  · simp at hi; exact Or.inl hi

theorem MainOk.epi_eq {c : Cert} {nm n : Nat} {th : Thread} (h : MainOk c nm n th) :
    ∃ sv, th.epi = (Instr.killIfExc (c.src (n - 1)).1 :: (List.range nm).map Instr.killIfExc) ++
      (List.range (n - 1)).map Instr.join ++ [.finish sv] := by
  have := h.2.2.2.2.2.2
  split at this
  · rename_i sv _; exact ⟨sv, this⟩
  · exact this.elim

theorem MainOk.epi_mem {c : Cert} {nm n : Nat} {th : Thread} (h : MainOk c nm n th) {i : Instr} (hi : i ∈ th.epi) :
    (∃ m, m < nm ∧ i = .killIfExc m) ∨ (∃ u, u < n - 1 ∧ i = .join u) ∨ ∃ sv, i = .finish sv := by
  obtain ⟨sv, he⟩ := h.epi_eq
  rw [he] at hi
  simp only [List.mem_append, List.mem_cons, List.mem_map, List.mem_range, List.not_mem_nil,
    or_false] at hi
  rcases hi with ((rfl | ⟨m, hm, rfl⟩) | ⟨u, hu, rfl⟩) | rfl
  · exact Or.inl ⟨_, h.1, rfl⟩
  · exact Or.inl ⟨m, hm, rfl⟩
  · exact Or.inr (Or.inl ⟨u, hu, rfl⟩)
  · exact Or.inr (Or.inr ⟨sv, rfl⟩)

theorem MainOk.body_mem {c : Cert} {nm n : Nat} {th : Thread} (h : MainOk c nm n th) {i : Instr} (hi : i ∈ th.body) :
    i = .read (c.src (n - 1)).1 (c.src (n - 1)).2 ∨ i.isFail = true ∨ i ∈ th.epi := by
  rw [h.2.2.2.2.1] at hi
  rcases List.mem_append.mp hi with hi | hi
  · rcases h.2.2.2.2.2.1 i hi with h1 | h1
    · exact Or.inl h1
    · exact Or.inr (Or.inl h1)
  · exact Or.inr (Or.inr hi)

/-- whoever has `read m k` in its body is the registered reader of that subscription, and the subscription exists -/
theorem read_owner {net : Net} {c : Cert} (h : TreeNet net c) {t : Nat} {th : Thread} (ht : net.threads[t]? = some th)
    {m k : Nat} (hi : Instr.read m k ∈ th.body) :
    c.reader m k = t ∧ ∃ sp, net.mbs[m]? = some sp ∧ k < sp.drive.length := by
  cases h.kind ht with
  | main hm hok =>
    rcases hok.body_mem hi with h1 | h1 | h1
    · cases h1
      obtain ⟨sp, hsp, _, hp, _⟩ := h.mailbox hok.1
      refine ⟨by rw [hok.2.1, hm], sp, hsp, ?_⟩
      rw [← hok.2.2.1]; exact hp
    · simp [Instr.isFail] at h1
    · rcases hok.epi_mem h1 with ⟨_, _, h2⟩ | ⟨_, _, h2⟩ | ⟨_, h2⟩ <;> cases h2
  | sender mo hm ho hok =>
    rcases hok.mem hi with h1 | h1
    · cases h1
    · simp only [senderInstrOk] at h1
      obtain ⟨sp, hsp, _, hp, _⟩ := h.mailbox h1.1
      exact ⟨h1.2.1, sp, hsp, by rw [← h1.2.2.1]; exact hp⟩
  | sink hm ho hok hv =>
    rcases hok.2.2.2.1 _ hi with h1 | h1 | h1
    · cases h1; exact ⟨hok.2.1, hv⟩
    · simp [Instr.isFail] at h1
    · simp [Instr.isDie] at h1

/-- whoever has `gate m`, `send m` or `close m` in its body is the sender of `m` -/
theorem out_owner {net : Net} {c : Cert} (h : TreeNet net c) {t : Nat} {th : Thread} (ht : net.threads[t]? = some th)
    {i : Instr} {m : Nat} (hi : i ∈ th.body) (hm : i = .gate m ∨ i = .send m ∨ i = .close m) :
    c.out t = some m ∧ c.sender m = t ∧ m < net.mbs.length ∧ SenderOk c net.mbs.length t m th := by
  cases h.kind ht with
  | main hmain hok =>
    rcases hok.body_mem hi with h1 | h1 | h1
    · rcases hm with rfl | rfl | rfl <;> cases h1
    · rcases hm with rfl | rfl | rfl <;> simp [Instr.isFail] at h1
    · rcases hok.epi_mem h1 with ⟨_, _, h2⟩ | ⟨_, _, h2⟩ | ⟨_, h2⟩ <;> rcases hm with rfl | rfl | rfl <;> cases h2
  | sender mo hne ho hok =>
    have : m = mo := by
      rcases hok.mem hi with h1 | h1
      · rcases hm with rfl | rfl | rfl <;> cases h1; rfl
      · rcases hm with rfl | rfl | rfl <;> simp only [senderInstrOk] at h1
        · exact h1
        · exact h1
    subst this
    exact ⟨ho, hok.2.1, hok.1, hok⟩
  | sink hne ho hok hv =>
    rcases hok.2.2.2.1 _ hi with h1 | h1 | h1
    · rcases hm with rfl | rfl | rfl <;> cases h1
    · rcases hm with rfl | rfl | rfl <;> simp [Instr.isFail] at h1
    · rcases hm with rfl | rfl | rfl <;> simp [Instr.isDie] at h1

/-- the sender thread of a mailbox -/
theorem sender_thread {net : Net} {c : Cert} (h : TreeNet net c) {m : Nat} (hm : m < net.mbs.length) :
    ∃ th, net.threads[c.sender m]? = some th ∧ c.sender m ≠ net.threads.length - 1 ∧ SenderOk c net.mbs.length (c.sender m) m th := by
  obtain ⟨sp, hsp, _, _, _, hlt, hout, _⟩ := h.mailbox hm
  have hlt' : c.sender m < net.threads.length := by omega
  have hth : net.threads[c.sender m]? = some (net.threads[c.sender m]'hlt') := List.getElem?_eq_getElem hlt'
  refine ⟨_, hth, by omega, ?_⟩
  cases h.kind hth with
  | main hmain _ => omega
  | sender mo _ ho hok => rw [hout] at ho; cases ho; exact hok
  | sink _ ho _ _ => rw [hout] at ho; cases ho

theorem tot_pos {net : Net} {c : Cert} (h : TreeNet net c) {m : Nat} (hm : m < net.mbs.length) : 1 ≤ tot net c m := by
  obtain ⟨th, hth, _, hok⟩ := sender_thread h hm
  unfold tot; simp only [hth]
  have : Instr.close m ∈ th.body := by rw [hok.body]; simp
  have := List.count_pos_iff.mpr this
  unfold countOut; omega

/-- a valid subscription is read by a thread that has the `read` in its body -/
theorem reader_has_read {net : Net} {c : Cert} (h : TreeNet net c) {m k : Nat} {sp : MBSpec} (hsp : net.mbs[m]? = some sp)
    (hk : k < sp.drive.length) : ∃ th, net.threads[c.reader m k]? = some th ∧ Instr.read m k ∈ th.body := by
  have hm : m < net.mbs.length := (List.getElem?_eq_some_iff.mp hsp).1
  obtain ⟨sp', hsp', _, _, _, _, _, hr⟩ := h.mailbox hm
  rw [hsp] at hsp'; cases hsp'
  obtain ⟨hlt, hcnt, _, _⟩ := hr k hk
  have hth : net.threads[c.reader m k]? = some (net.threads[c.reader m k]'hlt) := List.getElem?_eq_getElem hlt
  refine ⟨_, hth, ?_⟩
  simp only [hth] at hcnt
  have := tot_pos h hm
  exact List.count_pos_iff.mp (by omega)

/-- the reader of a subscription of `m` is not the sender of `m` -/
theorem reader_not_sender {net : Net} {c : Cert} (h : TreeNet net c) {m k : Nat} {sp : MBSpec} (hsp : net.mbs[m]? = some sp)
    (hk : k < sp.drive.length) : c.reader m k ≠ c.sender m := by
  intro heq
  have hm : m < net.mbs.length := (List.getElem?_eq_some_iff.mp hsp).1
  obtain ⟨th, hth, hmem⟩ := reader_has_read h hsp hk
  obtain ⟨th', hth', _, hok⟩ := sender_thread h hm
  rw [heq, hth'] at hth; cases hth
  rcases hok.mem hmem with h1 | h1
  · cases h1
  · simp only [senderInstrOk] at h1; omega

/-- a thread reads at most one subscriber slot of a mailbox -/
theorem reader_inj {net : Net} {c : Cert} (h : TreeNet net c) {m k k2 : Nat} {sp : MBSpec} (hsp : net.mbs[m]? = some sp)
    (hk : k < sp.drive.length) (hk2 : k2 < sp.drive.length) (heq : c.reader m k = c.reader m k2) : k = k2 := by
  have hm : m < net.mbs.length := (List.getElem?_eq_some_iff.mp hsp).1
  obtain ⟨sp', hsp', _, _, _, _, _, hr⟩ := h.mailbox hm
  rw [hsp] at hsp'; cases hsp'
  obtain ⟨_, _, h1, h2⟩ := hr k hk
  obtain ⟨_, _, h1', h2'⟩ := hr k2 hk2
  by_cases hp : k = c.pipe m
  · by_cases hp2 : k2 = c.pipe m
    · rw [hp, hp2]
    · obtain ⟨ha, hb, _⟩ := h1' hp2
      rcases h2 hp with hc | hc
      · rw [heq] at hc; exact absurd hc ha
      · rw [heq, hb] at hc; simp at hc
  · by_cases hp2 : k2 = c.pipe m
    · obtain ⟨ha, hb, _⟩ := h1 hp
      rcases h2' hp2 with hc | hc
      · rw [← heq] at hc; exact absurd hc ha
      · rw [← heq, hb] at hc; simp at hc
    · obtain ⟨_, _, hs⟩ := h1 hp
      obtain ⟨_, _, hs'⟩ := h1' hp2
      rw [heq, hs'] at hs
      simp only [Prod.mk.injEq] at hs
      exact hs.2.symm

/-! ### the certificate of a wired net, computed -/

def Instr.outMb : Instr → Option Nat
  | .gate m => some m
  | .send m => some m
  | .close m => some m
  | _ => none

def Instr.readSub : Instr → Option (Nat × Nat)
  | .read m k => some (m, k)
  | _ => none

def outOfThread (th : Thread) : Option Nat := th.body.findSome? Instr.outMb

def senderIdx (net : Net) (m : Nat) : Nat :=
  (net.threads.findIdx? fun th => outOfThread th == some m).getD 0

def readerIdx (net : Net) (m k : Nat) : Nat :=
  (net.threads.findIdx? fun th => th.body.contains (.read m k)).getD 0

/-- rank by iteration: one more than the largest rank among the inputs of the sender -/
def rankIter (net : Net) : Nat → Nat → Nat
  | 0, _ => 0
  | f + 1, m =>
    match net.threads[senderIdx net m]? with
    | none => 0
    | some th => (th.body.filterMap Instr.readSub).foldl (fun acc x => max acc (rankIter net f x.1 + 1)) 0

def certOf (net : Net) : Cert :=
  let n := net.threads.length
  { rank := rankIter net net.mbs.length,
    sender := senderIdx net,
    reader := readerIdx net,
    pipe := fun m =>
      let nk := (net.mbs[m]?.map (·.drive.length)).getD 0
      ((List.range nk).find? fun k =>
        let r := readerIdx net m k
        r == n - 1 || ((net.threads[r]?.bind outOfThread).isSome)).getD 0,
    out := fun t => if t = n - 1 then none else net.threads[t]?.bind outOfThread,
    src := fun t => ((net.threads[t]?.bind fun th => th.body.findSome? Instr.readSub)).getD (0, 0) }

end Strax.Net
