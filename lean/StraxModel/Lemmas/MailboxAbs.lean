import StraxModel.Generated.MailboxGates
/-
  Helper lemmas for Props/C05Gates.lean and Props/C13Gates.lean: the predicates re-generated from strax/mailbox.py
  (Generated/MailboxGates.lean, over `MailboxAbs.St`) against the definitions the mailbox model uses (Model/Mailbox.lean).
-/
namespace Strax.MailboxAbs
open Strax Strax.Mailbox
open Strax.Generated.MailboxGates

theorem lowest?_eq_none {l : List Nat} : lowest? l = none ↔ l = [] := by
  cases l with
  | nil => simp [lowest?]
  | cons a r => simp only [lowest?]; split <;> simp

theorem lowest?_mem : ∀ {l : List Nat} {m : Nat}, lowest? l = some m → m ∈ l
  | [], m, h => by simp [lowest?] at h
  | a :: r, m, h => by
    simp only [lowest?] at h
    split at h
    · simp only [Option.some.injEq] at h; subst h; simp
    · rename_i b hb
      have hm := lowest?_mem hb
      simp only [Option.some.injEq] at h
      have : m = a ∨ m = b := by omega
      rcases this with rfl | rfl
      · simp
      · simp [hm]

theorem lowest?_le : ∀ {l : List Nat} {m : Nat}, lowest? l = some m → ∀ x ∈ l, m ≤ x
  | [], _, _, _, hx => by simp at hx
  | a :: r, m, h, x, hx => by
    simp only [lowest?] at h
    split at h
    · rename_i hn
      have hr : r = [] := lowest?_eq_none.1 hn
      subst hr
      simp only [Option.some.injEq] at h
      simp only [List.mem_cons, List.not_mem_nil, or_false] at hx
      omega
    · rename_i b hb
      simp only [Option.some.injEq] at h
      simp only [List.mem_cons] at hx
      rcases hx with rfl | hx
      · omega
      · have := lowest?_le hb x hx; omega

theorem filter_erase_of_not (p : Nat → Bool) (m : Nat) (h : p m = false) :
    ∀ l : List Nat, (l.erase m).filter p = l.filter p
  | [] => rfl
  | a :: r => by
    by_cases ham : a = m
    · subst ham; simp [h]
    · rw [List.erase_cons_tail (by simpa using ham)]
      simp [List.filter_cons, filter_erase_of_not p m h r]

/-- a pop-the-smallest loop whose test is "the smallest number is below `k`" removes exactly the numbers below `k` -/
theorem popWhile_eq_filter (test : List Nat → Option Bool) (k : Nat)
    (ht : ∀ h, test h = some (match lowest? h with | none => false | some l => decide (l < k))) :
    ∀ (fuel : Nat) (l : List Nat), l.length ≤ fuel → popWhile test fuel l = l.filter (fun x => decide (k ≤ x)) := by
  intro fuel
  induction fuel with
  | zero =>
    intro l hl
    have : l = [] := List.length_eq_zero_iff.1 (by omega)
    subst this; rfl
  | succ fuel ih =>
    intro l hl
    simp only [popWhile, ht l]
    cases hlow : lowest? l with
    | none =>
      have : l = [] := lowest?_eq_none.1 hlow
      subst this; rfl
    | some m =>
      have hmem := lowest?_mem hlow
      by_cases hmk : m < k
      · simp only [hmk, decide_true]
        have hpop : heappop l = l.erase m := by simp [heappop, hlow]
        rw [hpop, ih (l.erase m) (by rw [List.length_erase_of_mem hmem]; omega)]
        exact filter_erase_of_not _ m (by simp; omega) l
      · simp only [hmk, decide_false]
        symm
        apply List.filter_eq_self.2
        intro x hx
        have := lowest?_le hlow x hx
        simp; omega

/-- `min(have_read)` of the abstraction is `minNext - 1` -/
theorem pyMin?_haveRead : ∀ (subs : List Sub), subs ≠ [] →
    pyMin? (subs.map fun sub => (sub.next : Int) - 1) = some ((minNext subs : Int) - 1)
  | [], h => absurd rfl h
  | [a], _ => by simp [pyMin?, minNext]
  | a :: b :: r, _ => by
    have ih := pyMin?_haveRead (b :: r) (by simp)
    simp only [List.map_cons] at ih
    simp only [List.map_cons, pyMin?, minNext]
    simp only [pyMin?] at ih
    rw [ih]
    simp only [Option.some.injEq]
    omega

theorem pyMinD_haveRead (subs : List Sub) :
    pyMinD (-1) (subs.map fun sub => (sub.next : Int) - 1) = (minNext subs : Int) - 1 := by
  cases subs with
  | nil => simp [pyMinD, pyMin?, minNext]
  | cons a r =>
    unfold pyMinD
    rw [pyMin?_haveRead (a :: r) (by simp)]
    rfl

theorem any_zip_map {α β γ : Type} (f : α → β) (g : α → γ) (p : β × γ → Bool) :
    ∀ l : List α, (List.zip (l.map f) (l.map g)).any p = l.any (fun a => p (f a, g a))
  | [] => rfl
  | a :: r => by simp [List.zip_cons_cons, any_zip_map f g p r]

/-- `_has_msg` on a mailbox that is not killed is the model's `hasNum` -/
theorem hasMsg_some (mb : MB) (n : Nat) : hasMsg (absSt mb) (some n) = (mb.killed || hasNum mb.heap n) := by
  cases hk : mb.killed <;> simp [hasMsg, absSt, hasNum, hk, List.any_map, Function.comp_def]

theorem hasMsg_none (mb : MB) : hasMsg (absSt mb) none = mb.killed := by
  cases hk : mb.killed <;> simp [hasMsg, absSt, hk, List.any_map, Function.comp_def]

/-- one element of the first `any` of `_can_fetch` is the model's `staleTest` under the rule in force -/
theorem stale_elt (mb : MB) (hk : mb.killed = false) (w : Option Nat) :
    (w.isSome && hasMsg (absSt mb) w) = staleTest .hasMsg mb.heap w := by
  cases w with
  | none => simp [staleTest]
  | some x => simp [staleTest, hasMsg_some, hk]

theorem cleanupTest_eq (s : St) (k : Int) (h : pyMin? s.haveRead = some k) :
    cleanupTest s = some (match lowest? s.heap with | none => false | some l => decide ((l : Int) ≤ k)) := by
  cases hl : lowest? s.heap with
  | none =>
    have : s.heap = [] := lowest?_eq_none.1 hl
    simp [cleanupTest, this]
  | some l =>
    have hne : s.heap.length ≠ 0 := by
      intro h0
      have : s.heap = [] := List.length_eq_zero_iff.1 h0
      rw [this] at hl; simp [lowest?] at hl
    simp [cleanupTest, lowestMsgNumber, hl, h, hne]

end Strax.MailboxAbs
