import StraxModel.Lemmas.PipelineLaw
/-
  Helper lemmas for property C01, part 3: `ChunkHom` of the plugin kinds from first principles
  (row-wise / filter, same-kind merge, multi-output, loop, down-chunking, exhaust), the wrapper for
  stateful kernels that come with a layer theorem, and the transports / aligners that need none.
  Core Lean only.
-/
namespace Strax.Pipeline
open Strax

/-! ### small list facts -/

theorem length_two {α : Type} {l : List α} (h : l.length = 2) : ∃ a b, l = [a, b] := by
  match l, h with
  | [a, b], _ => exact ⟨a, b, rfl⟩

theorem streamsOK_single {R : Int × Int} {s : List Chunk} : StreamsOK R [s] ↔ LawAbiding s ∧ span s = some R := by
  simp [StreamsOK]

theorem aligned_single {R : Int × Int} {s : List Chunk} (h : LawAbiding s) (hs : span s = some R) : Aligned R [s] := by
  refine ⟨streamsOK_single.2 ⟨h, hs⟩, ?_⟩
  intro a ha b hb
  simp only [List.mem_singleton] at ha hb
  subst ha; subst hb; rfl

theorem adjacentB_of_bounds : ∀ {s t : List Chunk}, bounds s = bounds t → adjacentB s = adjacentB t
  | [], [], _ => rfl
  | [], _ :: _, h => by simp [bounds] at h
  | _ :: _, [], h => by simp [bounds] at h
  | [a], [b], _ => rfl
  | [_], _ :: _ :: _, h => by simp [bounds] at h
  | _ :: _ :: _, [_], h => by simp [bounds] at h
  | a :: a' :: s, b :: b' :: t, h => by
    simp only [bounds, List.map_cons, List.cons.injEq, Prod.mk.injEq] at h
    obtain ⟨⟨-, h1⟩, ⟨h2, h2'⟩, h3⟩ := h
    have ih : adjacentB (a' :: s) = adjacentB (b' :: t) :=
      adjacentB_of_bounds (by simp [bounds, h2, h2', h3])
    simp only [adjacentB, h1, h2, ih]

theorem lastStop_of_bounds : ∀ {s t : List Chunk} (d : Int), bounds s = bounds t → lastStop d s = lastStop d t
  | [], [], _, _ => rfl
  | [], _ :: _, _, h => by simp [bounds] at h
  | _ :: _, [], _, h => by simp [bounds] at h
  | a :: s, b :: t, _, h => by
    simp only [bounds, List.map_cons, List.cons.injEq, Prod.mk.injEq] at h
    simp only [lastStop, h.1.2]
    exact lastStop_of_bounds _ (by simp [bounds, h.2])

theorem span_of_bounds {s t : List Chunk} (h : bounds s = bounds t) : span s = span t := by
  match s, t, h with
  | [], [], _ => rfl
  | [], _ :: _, h => simp [bounds] at h
  | _ :: _, [], h => simp [bounds] at h
  | a :: s, b :: t, h =>
    simp only [bounds, List.map_cons, List.cons.injEq, Prod.mk.injEq] at h
    simp only [span, h.1.1, h.1.2]
    rw [lastStop_of_bounds _ (show bounds s = bounds t by simp [bounds, h.2])]

theorem lawAbiding_of {s : List Chunk} (h1 : ∀ c ∈ s, chunkOKB c = true) (h2 : adjacentB s = true) : LawAbiding s := by
  simp only [LawAbiding, lawAbidingB, Bool.and_eq_true, List.all_eq_true]
  exact ⟨h1, h2⟩

theorem LawAbiding.adjacent {s : List Chunk} (h : LawAbiding s) : adjacentB s = true := by
  simp only [LawAbiding, lawAbidingB, Bool.and_eq_true] at h
  exact h.2

/-! ### row-wise and filtering plugins -/

theorem mapKernel_hom {g : Row → Option Row} (hg : IntervalPreserving g) (out : String) :
    ChunkHom (mapKernel g out) := by
  intro R ins outs hl hal h
  obtain ⟨s, rfl⟩ := List.length_eq_one_iff.mp hl
  simp only [mapKernel, Except.ok.injEq] at h
  subst h
  obtain ⟨hs, hsp⟩ := streamsOK_single.1 hal.1
  refine ⟨rfl, streamsOK_single.2 ⟨?_, ?_⟩, ?_⟩
  · exact lawAbiding_perChunk (fun c hc => chunkOK_filterMap hg out c hc) hs
  · rw [span_perChunk]; exact hsp
  · simp only [mapKernel, List.map_cons, List.map_nil, List.cons.injEq, and_true]
    rw [rows_perChunk, rows_eq_flatten, ← flatMap_filterMap, List.flatMap_map]

/-! ### same-kind merge -/

theorem zipWith_interval {h : Row → Row → Row} (hh : KeepsFirstInterval h) :
    ∀ (xs ys : List Row), ∀ r ∈ List.zipWith h xs ys, ∃ x ∈ xs, r.time = x.time ∧ r.endt = x.endt
  | [], _, r, hr => by simp at hr
  | _ :: _, [], r, hr => by simp at hr
  | x :: xs, y :: ys, r, hr => by
    simp only [List.zipWith_cons_cons, List.mem_cons] at hr
    rcases hr with rfl | hr
    · exact ⟨x, by simp, hh x y⟩
    · obtain ⟨x', hx', e⟩ := zipWith_interval hh xs ys r hr
      exact ⟨x', by simp [hx'], e⟩

theorem zipWith_sorted {h : Row → Row → Row} (hh : KeepsFirstInterval h) :
    ∀ (xs ys : List Row), SortedByTime xs → SortedByTime (List.zipWith h xs ys)
  | [], _, _ => by simp [SortedByTime]
  | _ :: _, [], _ => by simp [SortedByTime]
  | x :: xs, y :: ys, hs => by
    rw [sortedByTime_iff_pairwise] at hs ⊢
    simp only [List.zipWith_cons_cons]
    obtain ⟨h1, h2⟩ := List.pairwise_cons.1 hs
    refine List.pairwise_cons.2 ⟨?_, ?_⟩
    · intro r hr
      obtain ⟨x', hx', e, -⟩ := zipWith_interval hh xs ys r hr
      have := h1 x' hx'
      have := (hh x y).1
      omega
    · have := zipWith_sorted hh xs ys ((sortedByTime_iff_pairwise xs).2 h2)
      exact (sortedByTime_iff_pairwise _).1 this

theorem chunkOK_zipWith {h : Row → Row → Row} (hh : KeepsFirstInterval h) (out : String) (x : Chunk) (ys : List Row)
    (hx : chunkOKB x = true) : chunkOKB (setRows out x (List.zipWith h x.rows ys)) = true := by
  obtain ⟨h1, h2, h3⟩ := (chunkOKB_iff x).1 hx
  refine (chunkOKB_iff _).2 ⟨h1, ?_, zipWith_sorted hh _ _ h3⟩
  intro r hr
  obtain ⟨x', hx', e1, e2⟩ := zipWith_interval hh _ _ r hr
  have := h2 x' hx'
  simp only [setRows]
  omega

theorem zipChunks_spec {h : Row → Row → Row} (hh : KeepsFirstInterval h) (out : String) :
    ∀ {a b r : List Chunk}, (∀ c ∈ a, chunkOKB c = true) → zipChunks h out a b = .ok r →
      bounds r = bounds a ∧ rows r = List.zipWith h (rows a) (rows b) ∧ ∀ c ∈ r, chunkOKB c = true
  | [], [], r, _, hz => by
    simp only [zipChunks, Except.ok.injEq] at hz; subst hz; simp [bounds]
  | [], _ :: _, r, _, hz => by simp [zipChunks] at hz
  | _ :: _, [], r, _, hz => by simp [zipChunks] at hz
  | x :: as, y :: bs, r, hok, hz => by
    simp only [zipChunks] at hz
    split at hz
    · rename_i hc
      cases hrec : zipChunks h out as bs with
      | error e => simp [hrec] at hz
      | ok r' =>
        simp only [hrec, Except.ok.injEq] at hz
        subst hz
        obtain ⟨i1, i2, i3⟩ := zipChunks_spec hh out (fun c hc' => hok c (by simp [hc'])) hrec
        refine ⟨?_, ?_, ?_⟩
        · simp only [bounds, List.map_cons, setRows] at i1 ⊢; rw [i1]
        · simp only [rows_cons, setRows, i2]
          rw [List.zipWith_append hc.1]
        · intro c hc'
          simp only [List.mem_cons] at hc'
          rcases hc' with rfl | hc'
          · exact chunkOK_zipWith hh out x y.rows (hok x (by simp))
          · exact i3 c hc'
    · cases hz

theorem mergeKernel_hom {h : Row → Row → Row} (hh : KeepsFirstInterval h) (out : String) :
    ChunkHom (mergeKernel h out) := by
  intro R ins outs hl hal hc
  obtain ⟨a, b, rfl⟩ := length_two hl
  simp only [mergeKernel] at hc
  cases hz : zipChunks h out a b with
  | error e => simp [hz] at hc
  | ok r =>
    simp only [hz, Except.ok.injEq] at hc
    subst hc
    obtain ⟨ha, hsa⟩ := hal.1 a (by simp)
    obtain ⟨z1, z2, z3⟩ := zipChunks_spec hh out ha.all_ok hz
    refine ⟨rfl, streamsOK_single.2 ⟨?_, ?_⟩, by simp [mergeKernel, z2]⟩
    · exact lawAbiding_of z3 (by rw [adjacentB_of_bounds z1]; exact ha.adjacent)
    · rw [span_of_bounds z1]; exact hsa

/-- a two-kind plugin that computes row-wise on its first dependency (`pairfirst` of the harness; the
second dependency only takes part in the alignment) -/
def firstKernel (g : Row → Option Row) (out : String) : Kernel where
  nIn := 2
  nOut := 1
  chunked
    | [a, _] => .ok [perChunk (List.filterMap g) out a]
    | _ => .error .other
  whole
    | [r, _] => [r.filterMap g]
    | _ => []

theorem firstKernel_hom {g : Row → Option Row} (hg : IntervalPreserving g) (out : String) :
    ChunkHom (firstKernel g out) := by
  intro R ins outs hl hal h
  obtain ⟨a, b, rfl⟩ := length_two hl
  simp only [firstKernel, Except.ok.injEq] at h
  subst h
  obtain ⟨hs, hsp⟩ := hal.1 a (by simp)
  refine ⟨rfl, streamsOK_single.2 ⟨?_, ?_⟩, ?_⟩
  · exact lawAbiding_perChunk (fun c hc => chunkOK_filterMap hg out c hc) hs
  · rw [span_perChunk]; exact hsp
  · simp only [firstKernel, List.map_cons, List.map_nil, List.cons.injEq, and_true]
    rw [rows_perChunk, rows_eq_flatten, ← flatMap_filterMap, List.flatMap_map]

/-! ### multi-output -/

theorem streamsOK_append {R : Int × Int} {a b : List (List Chunk)} (ha : StreamsOK R a) (hb : StreamsOK R b) :
    StreamsOK R (a ++ b) := by
  intro s hs
  simp only [List.mem_append] at hs
  rcases hs with hs | hs
  · exact ha s hs
  · exact hb s hs

theorem pairKernel_hom {k1 k2 : Kernel} (h1 : ChunkHom k1) (h2 : ChunkHom k2) (hn : k2.nIn = k1.nIn) :
    ChunkHom (pairKernel k1 k2) := by
  intro R ins outs hl hal hc
  simp only [pairKernel] at hc hl
  cases e1 : k1.chunked ins with
  | error e => simp [e1] at hc
  | ok o1 =>
    cases e2 : k2.chunked ins with
    | error e => simp [e1, e2] at hc
    | ok o2 =>
      simp only [e1, e2, Except.ok.injEq] at hc
      subst hc
      obtain ⟨a1, a2, a3⟩ := h1 R ins o1 hl hal e1
      obtain ⟨b1, b2, b3⟩ := h2 R ins o2 (by omega) hal e2
      refine ⟨by simp [pairKernel, a1, b1], streamsOK_append a2 b2, by simp [pairKernel, a3, b3]⟩

/-! ### loop over the things inside the bases -/

theorem loopRows_append (F : Row → List Row → Row) (a b things : List Row) :
    loopRows F (a ++ b) things = loopRows F a things ++ loopRows F b things := by
  simp [loopRows]

theorem chunkOK_loop {F : Row → List Row → Row} (hF : KeepsBaseInterval F) (out : String) (x : Chunk) (things : List Row)
    (hx : chunkOKB x = true) : chunkOKB (setRows out x (loopRows F x.rows things)) = true := by
  obtain ⟨h1, h2, h3⟩ := (chunkOKB_iff x).1 hx
  refine (chunkOKB_iff _).2 ⟨h1, ?_, ?_⟩
  · intro r hr
    simp only [setRows, loopRows, List.mem_map] at hr
    obtain ⟨b, hb, rfl⟩ := hr
    have := h2 b hb
    have := hF b (things.filter (containedIn b))
    simp only [setRows]
    omega
  · simp only [setRows, loopRows]
    rw [sortedByTime_iff_pairwise] at h3 ⊢
    rw [List.pairwise_map]
    refine h3.imp ?_
    intro a b hab
    have := (hF a (things.filter (containedIn a))).1
    have := (hF b (things.filter (containedIn b))).1
    omega

/-- inside a base row that lies in `[a, b)`, the things contained in the base are the same whether one
looks at the whole run or only at the things that start in `[a, b)` -/
theorem loopRows_local (F : Row → List Row → Row) {a b : Int} {bases T : List Row}
    (hb : ∀ r ∈ bases, a ≤ r.time ∧ r.endt ≤ b) (hT : ∀ t ∈ T, t.time < t.endt) :
    loopRows F bases (inBounds a b T) = loopRows F bases T := by
  unfold loopRows
  apply List.map_congr_left
  intro base hbase
  congr 1
  unfold inBounds
  rw [List.filter_filter]
  apply List.filter_congr
  intro t ht
  have := hb base hbase
  have := hT t ht
  by_cases hc : containedIn base t = true
  · simp only [hc, Bool.true_and]
    simp only [containedIn, Bool.and_eq_true, decide_eq_true_eq] at hc
    simp only [Bool.and_eq_true, decide_eq_true_eq]
    omega
  · simp only [Bool.not_eq_true] at hc
    simp [hc]

theorem loopChunks_spec {F : Row → List Row → Row} (hF : KeepsBaseInterval F) (out : String) (T : List Row)
    (hT : ∀ t ∈ T, t.time < t.endt) :
    ∀ {a b r : List Chunk}, (∀ c ∈ a, chunkOKB c = true) → bounds a = bounds b →
      (b.map (·.rows) = b.map fun c => inBounds c.start c.stop T) → loopChunks F out a b = .ok r →
      bounds r = bounds a ∧ rows r = loopRows F (rows a) T ∧ ∀ c ∈ r, chunkOKB c = true
  | [], [], r, _, _, _, hz => by
    simp only [loopChunks, Except.ok.injEq] at hz; subst hz; simp [bounds, loopRows]
  | [], _ :: _, r, _, hb, _, _ => by simp [bounds] at hb
  | _ :: _, [], r, _, hb, _, _ => by simp [bounds] at hb
  | x :: as, y :: bs, r, hok, hb, hcan, hz => by
    simp only [loopChunks] at hz
    cases hrec : loopChunks F out as bs with
    | error e => simp [hrec] at hz
    | ok r' =>
      simp only [hrec, Except.ok.injEq] at hz
      subst hz
      simp only [bounds, List.map_cons, List.cons.injEq, Prod.mk.injEq] at hb
      simp only [List.map_cons, List.cons.injEq] at hcan
      obtain ⟨i1, i2, i3⟩ := loopChunks_spec hF out T hT (fun c hc' => hok c (by simp [hc']))
        (show bounds as = bounds bs by simp [bounds, hb.2]) hcan.2 hrec
      obtain ⟨x1, x2, -⟩ := (chunkOKB_iff x).1 (hok x (by simp))
      refine ⟨?_, ?_, ?_⟩
      · simp only [bounds, List.map_cons, setRows] at i1 ⊢; rw [i1]
      · simp only [rows_cons, setRows, i2, loopRows_append]
        rw [hcan.1, ← hb.1.1, ← hb.1.2]
        rw [loopRows_local F (fun r hr => by have := x2 r hr; omega) hT]
      · intro c hc'
        simp only [List.mem_cons] at hc'
        rcases hc' with rfl | hc'
        · exact chunkOK_loop hF out x y.rows (hok x (by simp))
        · exact i3 c hc'

theorem loopKernel_hom {F : Row → List Row → Row} (hF : KeepsBaseInterval F) (out : String) :
    ChunkHom (loopKernel F out) := by
  intro R ins outs hl hal hc
  obtain ⟨a, b, rfl⟩ := length_two hl
  simp only [loopKernel] at hc
  cases hz : loopChunks F out a b with
  | error e => simp [hz] at hc
  | ok r =>
    simp only [hz, Except.ok.injEq] at hc
    subst hc
    obtain ⟨ha, hsa⟩ := hal.1 a (by simp)
    obtain ⟨hb, hsb⟩ := hal.1 b (by simp)
    have hbd : bounds a = bounds b := hal.2 a (by simp) b (by simp)
    have hT : ∀ t ∈ rows b, t.time < t.endt := fun t ht => ((hb.rows_in_span hsb).2 t ht).2.1
    obtain ⟨z1, z2, z3⟩ := loopChunks_spec hF out (rows b) hT ha.all_ok hbd hb.canonical' hz
    refine ⟨rfl, streamsOK_single.2 ⟨?_, ?_⟩, by simp [loopKernel, z2]⟩
    · exact lawAbiding_of z3 (by rw [adjacentB_of_bounds z1]; exact ha.adjacent)
    · rw [span_of_bounds z1]; exact hsa

/-! ### down-chunking -/

theorem lawAbiding_append {a b : List Chunk} {Ra Rb : Int × Int} (ha : LawAbiding a) (hb : LawAbiding b)
    (hsa : span a = some Ra) (hsb : span b = some Rb) (hj : Ra.2 = Rb.1) :
    LawAbiding (a ++ b) ∧ span (a ++ b) = some (Ra.1, Rb.2) := by
  obtain ⟨x, xs, rfl, rfl⟩ := span_eq_some hsa
  obtain ⟨y, ys, rfl, rfl⟩ := span_eq_some hsb
  simp only at hj
  induction xs generalizing x with
  | nil =>
    simp only [lastStop] at hj
    refine ⟨(lawAbiding_cons_cons _ _ _).2 ⟨ha.head, hj, hb⟩, by simp [span, lastStop]⟩
  | cons x' xs ih =>
    obtain ⟨h1, h2, h3⟩ := (lawAbiding_cons_cons x x' xs).1 ha
    simp only [lastStop] at hj
    obtain ⟨i1, i2⟩ := ih x' h3 rfl hj
    refine ⟨?_, ?_⟩
    · simp only [List.cons_append] at i1 ⊢
      exact (lawAbiding_cons_cons _ _ _).2 ⟨h1, h2, i1⟩
    · simp only [List.cons_append, span, lastStop] at i2 ⊢
      simp only [Option.some.injEq, Prod.mk.injEq] at i2 ⊢
      exact ⟨trivial, i2.2⟩

theorem downKernel_spec {sub : Chunk → List Chunk} {g : Row → Option Row} (hs : SubOK sub g) :
    ∀ {s : List Chunk} {R : Int × Int}, LawAbiding s → span s = some R →
      LawAbiding (s.flatMap sub) ∧ span (s.flatMap sub) = some R ∧ rows (s.flatMap sub) = (rows s).filterMap g
  | [], R, _, hsp => by simp [span] at hsp
  | [c], R, h, hsp => by
    obtain ⟨s1, s2, s3⟩ := hs c h.head
    simp only [span, lastStop, Option.some.injEq] at hsp
    subst hsp
    simp only [List.flatMap_cons, List.flatMap_nil, List.append_nil, rows_cons, rows_nil]
    exact ⟨s1, s2, s3⟩
  | c :: d :: rest, R, h, hsp => by
    obtain ⟨hc, hadj, htl⟩ := (lawAbiding_cons_cons c d rest).1 h
    obtain ⟨s1, s2, s3⟩ := hs c hc
    obtain ⟨i1, i2, i3⟩ := downKernel_spec hs htl (R := (d.start, lastStop d.stop rest)) rfl
    obtain ⟨a1, a2⟩ := lawAbiding_append s1 i1 s2 i2 hadj
    simp only [span, lastStop, Option.some.injEq] at hsp
    subst hsp
    rw [List.flatMap_cons]
    refine ⟨a1, a2, ?_⟩
    rw [rows_append, s3, i3, rows_cons (c := c), List.filterMap_append]

theorem downKernel_hom {sub : Chunk → List Chunk} {g : Row → Option Row} (hs : SubOK sub g) :
    ChunkHom (downKernel sub g) := by
  intro R ins outs hl hal hc
  obtain ⟨s, rfl⟩ := List.length_eq_one_iff.mp hl
  simp only [downKernel, Except.ok.injEq] at hc
  subst hc
  obtain ⟨h, hsp⟩ := streamsOK_single.1 hal.1
  obtain ⟨d1, d2, d3⟩ := downKernel_spec hs h hsp
  exact ⟨rfl, streamsOK_single.2 ⟨d1, d2⟩, by simp [downKernel, d3]⟩

/-! ### exhaust -/

theorem exhaustKernel_hom {w : List Row → List Row} (hw : RangeLaw w) (out : String) :
    ChunkHom (exhaustKernel w out) := by
  intro R ins outs hl hal hc
  obtain ⟨s, rfl⟩ := List.length_eq_one_iff.mp hl
  obtain ⟨h, hsp⟩ := streamsOK_single.1 hal.1
  match s, hc with
  | [c], hc =>
    simp only [exhaustKernel, Except.ok.injEq] at hc
    subst hc
    have hcok := (lawAbiding_single c).1 h
    simp only [chunkOKB, Bool.and_eq_true, decide_eq_true_eq] at hcok
    obtain ⟨w1, w2⟩ := hw c.start c.stop c.rows hcok.1.2 hcok.2
    refine ⟨rfl, streamsOK_single.2 ⟨?_, by simpa [span, setRows] using hsp⟩, by simp [exhaustKernel, setRows]⟩
    refine (lawAbiding_single _).2 ?_
    simp only [chunkOKB, setRows, Bool.and_eq_true]
    exact ⟨⟨decide_eq_true hcok.1.1, w1⟩, w2⟩

/-! ### kernels that come with their own layer theorem -/

theorem streamKernel_hom {ov : List Chunk → Except Err (List Chunk)} {w : List Row → List Row}
    (hspec : StreamSpec ov w) : ChunkHom (streamKernel ov w) := by
  intro R ins outs hl hal hc
  obtain ⟨s, rfl⟩ := List.length_eq_one_iff.mp hl
  obtain ⟨h, hsp⟩ := streamsOK_single.1 hal.1
  simp only [streamKernel] at hc
  cases ho : ov s with
  | error e => simp [ho] at hc
  | ok o =>
    simp only [ho, Except.ok.injEq] at hc
    subst hc
    obtain ⟨s1, s2, s3⟩ := hspec R s o h hsp ho
    exact ⟨rfl, streamsOK_single.2 ⟨s1, s2⟩, by simp [streamKernel, s3]⟩

/-! ### transports and aligners that need no layer theorem -/

/-- delivery that hands over the very same stream (what C05 `delivery_exact` and T7
`postoffice_delivery` prove of a mailbox / the post office) -/
def Transport.ident : Transport where
  run := idRun
  content := by intro inp out _ h; simp only [idRun, Except.ok.injEq] at h; rw [h]
  law := by intro inp out hl h; simp only [idRun, Except.ok.injEq] at h; rw [← h]; exact hl
  range := by intro inp out _ h; simp only [idRun, Except.ok.injEq] at h; rw [h]

/-- composition of transports (save, then rechunk, then load, then a mailbox, …) -/
def Transport.comp (t1 t2 : Transport) : Transport where
  run s :=
    match t1.run s with
    | .error e => .error e
    | .ok m => t2.run m
  content := by
    intro inp out hl h
    cases h1 : t1.run inp with
    | error e => simp [h1] at h
    | ok m =>
      simp only [h1] at h
      rw [t2.content (t1.law hl h1) h, t1.content hl h1]
  law := by
    intro inp out hl h
    cases h1 : t1.run inp with
    | error e => simp [h1] at h
    | ok m =>
      simp only [h1] at h
      exact t2.law (t1.law hl h1) h
  range := by
    intro inp out hl h
    cases h1 : t1.run inp with
    | error e => simp [h1] at h
    | ok m =>
      simp only [h1] at h
      rw [t2.range (t1.law hl h1) h, t1.range hl h1]

/-- a re-partitioning (`rechunkAll`, save ∘ load, …) is a transport as soon as its layer theorem
says it keeps content, laws and range -/
def Transport.ofSpec (f : List Chunk → Except Err (List Chunk))
    (h : ∀ inp out, LawAbiding inp → f inp = .ok out → rows out = rows inp ∧ LawAbiding out ∧ span out = span inp) :
    Transport where
  run := f
  content := fun hl hf => (h _ _ hl hf).1
  law := fun hl hf => (h _ _ hl hf).2.1
  range := fun hl hf => (h _ _ hl hf).2.2

/-- the coarsest re-partitioning: one chunk for the whole run -/
def Transport.concat : Transport where
  run s := .ok (concatAll s)
  content := by intro inp out hl h; simp only [Except.ok.injEq] at h; rw [← h]; exact (lawAbiding_concatAll hl).2.2
  law := by intro inp out hl h; simp only [Except.ok.injEq] at h; rw [← h]; exact (lawAbiding_concatAll hl).1
  range := by intro inp out hl h; simp only [Except.ok.injEq] at h; rw [← h]; exact (lawAbiding_concatAll hl).2.1

theorem Transport.ident_total : Transport.ident.Total := fun inp _ => ⟨inp, rfl⟩
theorem Transport.concat_total : Transport.concat.Total := fun _ _ => ⟨_, rfl⟩
theorem Transport.comp_total {t1 t2 : Transport} (h1 : t1.Total) (h2 : t2.Total) : (t1.comp t2).Total := by
  intro inp hl
  obtain ⟨m, hm⟩ := h1 inp hl
  obtain ⟨o, ho⟩ := h2 m (t1.law hl hm)
  exact ⟨o, by simp [Transport.comp, hm, ho]⟩

/-- a plugin with one dependency: `Plugin.iter` hands every chunk over as it comes -/
def Aligner.single : Aligner where
  run := singleRun
  spec := by
    intro R ins out _ hok h
    match ins, h with
    | [s], h =>
      simp only [singleRun, Except.ok.injEq] at h
      subst h
      obtain ⟨h1, h2⟩ := streamsOK_single.1 hok
      exact ⟨aligned_single h1 h2, rfl⟩

/-- `ExhaustPlugin._fetch_chunk`: everything is concatenated before the single call -/
def Aligner.exhaust : Aligner where
  run := exhaustRun
  spec := by
    intro R ins out _ hok h
    match ins, h with
    | [s], h =>
      simp only [exhaustRun, Except.ok.injEq] at h
      subst h
      obtain ⟨h1, h2⟩ := streamsOK_single.1 hok
      obtain ⟨c1, c2, c3⟩ := lawAbiding_concatAll h1
      exact ⟨aligned_single c1 (by rw [c2]; exact h2), by simp [c3]⟩

/-- an alignment function with its layer theorem (C08 for `Plugin.iter`) is an aligner -/
def Aligner.ofSpec (f : List (List Chunk) → Except Err (List (List Chunk)))
    (h : ∀ R ins out, ins ≠ [] → StreamsOK R ins → f ins = .ok out → Aligned R out ∧ out.map rows = ins.map rows) :
    Aligner where
  run := f
  spec := fun hne hok hf => h _ _ _ hne hok hf

end Strax.Pipeline
