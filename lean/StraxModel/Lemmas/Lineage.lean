import StraxModel.Model.Lineage
/-
  Helper lemmas for theory T8 (property C02), part 1: association lists as Python dicts,
  `hashablize` (`canon`) is insensitive to insertion order, and the lookup semantics of
  `canon (.dict d)`.
-/
namespace Strax.Lineage
open Strax

/-! ### association lists -/

def keys (l : List (String × α)) : List String := l.map (·.1)

/-- the association list is a Python dict: no key occurs twice -/
def NodupKeys (l : List (String × α)) : Prop := (keys l).Nodup

instance (l : List (String × α)) : Decidable (NodupKeys l) := by unfold NodupKeys; infer_instance

@[simp] theorem keys_nil : keys ([] : List (String × α)) = [] := rfl
@[simp] theorem keys_cons (a : String × α) (l : List (String × α)) : keys (a :: l) = a.1 :: keys l := rfl
@[simp] theorem keys_append (a b : List (String × α)) : keys (a ++ b) = keys a ++ keys b := by
  simp [keys]

theorem mem_keys {l : List (String × α)} {k : String} : k ∈ keys l ↔ ∃ v, (k, v) ∈ l := by
  simp [keys]

theorem lookup_cons' (k k' : String) (v : α) (l : List (String × α)) :
    List.lookup k ((k', v) :: l) = if k = k' then some v else List.lookup k l := by
  simp only [List.lookup_cons]
  by_cases h : k = k'
  · simp [h]
  · have : (k == k') = false := by simp [h]
    simp [this, h]

theorem lookup_eq_none_iff {l : List (String × α)} {k : String} : l.lookup k = none ↔ k ∉ keys l := by
  induction l with
  | nil => simp
  | cons a l ih =>
    obtain ⟨k', v⟩ := a
    rw [lookup_cons']
    by_cases h : k = k'
    · simp [h]
    · simp [h, ih]

theorem lookup_isSome_iff {l : List (String × α)} {k : String} : (l.lookup k).isSome ↔ k ∈ keys l := by
  by_cases h : k ∈ keys l
  · have h1 : l.lookup k ≠ none := fun e => (lookup_eq_none_iff.mp e) h
    cases h' : l.lookup k with
    | none => exact absurd h' h1
    | some v => simp [h]
  · have := lookup_eq_none_iff.mpr h
    simp [this, h]

theorem hasKey_eq (l : List (String × α)) (k : String) : hasKey l k = (l.lookup k).isSome := by
  induction l with
  | nil => rfl
  | cons a l ih =>
    obtain ⟨k', v⟩ := a
    rw [lookup_cons']
    unfold hasKey at *
    by_cases h : k = k'
    · simp [h]
    · have h' : ¬ k' = k := fun e => h e.symm
      simp [h, h', ih]

theorem hasKey_iff {l : List (String × α)} {k : String} : hasKey l k = true ↔ k ∈ keys l := by
  rw [hasKey_eq, lookup_isSome_iff]

theorem lookup_mem {l : List (String × α)} {k : String} {v : α} (h : l.lookup k = some v) : (k, v) ∈ l := by
  induction l with
  | nil => simp at h
  | cons a l ih =>
    obtain ⟨k', v'⟩ := a
    rw [lookup_cons'] at h
    by_cases e : k = k'
    · simp [e] at h; simp [e, h]
    · simp [e] at h; exact List.mem_cons_of_mem _ (ih h)

theorem mem_lookup {l : List (String × α)} {k : String} {v : α} (hn : NodupKeys l) (h : (k, v) ∈ l) :
    l.lookup k = some v := by
  induction l with
  | nil => simp at h
  | cons a l ih =>
    obtain ⟨k', v'⟩ := a
    rw [lookup_cons']
    simp only [NodupKeys, keys_cons, List.nodup_cons] at hn
    rcases List.mem_cons.mp h with e | e
    · simp at e; simp [e.1, e.2]
    · have : k ≠ k' := by
        intro e'; subst e'
        exact hn.1 (mem_keys.mpr ⟨v, e⟩)
      simp [this]; exact ih hn.2 e

theorem lookup_eq_some_iff {l : List (String × α)} {k : String} {v : α} (hn : NodupKeys l) :
    l.lookup k = some v ↔ (k, v) ∈ l := ⟨lookup_mem, mem_lookup hn⟩

theorem eq_of_mem_of_key_eq {l : List (String × α)} (hn : NodupKeys l) {a b : String × α}
    (ha : a ∈ l) (hb : b ∈ l) (h : a.1 = b.1) : a = b := by
  obtain ⟨k, v⟩ := a
  obtain ⟨k', v'⟩ := b
  simp at h; subst h
  have h1 := mem_lookup hn ha
  have h2 := mem_lookup hn hb
  simp [h1] at h2; simp [h2]

theorem nodup_of_nodupKeys {l : List (String × α)} (hn : NodupKeys l) : l.Nodup := by
  unfold NodupKeys keys at hn
  exact List.Pairwise.of_map (fun kv => kv.1) (fun a b h e => h (e ▸ rfl)) hn

theorem NodupKeys.perm {l₁ l₂ : List (String × α)} (hp : l₁.Perm l₂) (hn : NodupKeys l₁) : NodupKeys l₂ := by
  unfold NodupKeys keys at *
  exact (hp.map _).nodup_iff.mp hn

theorem lookup_perm {l₁ l₂ : List (String × α)} (hp : l₁.Perm l₂) (hn : NodupKeys l₁) (k : String) :
    l₁.lookup k = l₂.lookup k := by
  have hn2 := hn.perm hp
  cases h : l₁.lookup k with
  | none =>
    symm; rw [lookup_eq_none_iff]; rw [lookup_eq_none_iff] at h
    intro hk; apply h
    unfold keys at *; exact (hp.map _).mem_iff.mpr hk
  | some v =>
    symm; rw [lookup_eq_some_iff hn2]; rw [lookup_eq_some_iff hn] at h
    exact hp.mem_iff.mp h

theorem perm_of_lookup_eq {l₁ l₂ : List (String × α)} (h1 : NodupKeys l₁) (h2 : NodupKeys l₂)
    (h : ∀ k, l₁.lookup k = l₂.lookup k) : l₁.Perm l₂ := by
  apply (List.perm_ext_iff_of_nodup (nodup_of_nodupKeys h1) (nodup_of_nodupKeys h2)).mpr
  intro ⟨k, v⟩
  rw [← lookup_eq_some_iff h1, ← lookup_eq_some_iff h2, h k]

theorem lookup_map_val (f : α → β) (l : List (String × α)) (k : String) :
    (l.map fun kv => (kv.1, f kv.2)).lookup k = (l.lookup k).map f := by
  induction l with
  | nil => rfl
  | cons a l ih =>
    obtain ⟨k', v⟩ := a
    simp only [List.map_cons, lookup_cons']
    by_cases h : k = k' <;> simp [h, ih]

theorem keys_map_val (f : α → β) (l : List (String × α)) : keys (l.map fun kv => (kv.1, f kv.2)) = keys l := by
  simp [keys, Function.comp_def]

theorem lookup_filter_key (p : String → Bool) (l : List (String × α)) (k : String) :
    (l.filter fun kv => p kv.1).lookup k = if p k then l.lookup k else none := by
  induction l with
  | nil => simp
  | cons a l ih =>
    obtain ⟨k', v⟩ := a
    by_cases hp : p k' = true
    · simp only [List.filter_cons, hp, if_true, lookup_cons']
      by_cases h : k = k'
      · subst h; simp [hp]
      · simp [h, ih]
    · simp only [List.filter_cons, hp, lookup_cons']
      by_cases h : k = k'
      · subst h; simp [hp, ih]
      · simp [h, ih]

theorem NodupKeys.filter {l : List (String × α)} (hn : NodupKeys l) (p : String × α → Bool) : NodupKeys (l.filter p) := by
  unfold NodupKeys keys at *
  exact (List.filter_sublist.map _).nodup hn

theorem lookup_append (a b : List (String × α)) (k : String) :
    (a ++ b).lookup k = match a.lookup k with
      | some v => some v
      | none => b.lookup k := by
  induction a with
  | nil => simp
  | cons x a ih =>
    obtain ⟨k', v⟩ := x
    simp only [List.cons_append, lookup_cons']
    by_cases h : k = k' <;> simp [h, ih]

/-! ### `dictSet`, `dictUpdate` -/

theorem lookup_dictSet (l : List (String × α)) (k : String) (v : α) (k' : String) :
    (dictSet l k v).lookup k' = if k' = k then some v else l.lookup k' := by
  induction l with
  | nil => simp [dictSet, lookup_cons']
  | cons a l ih =>
    obtain ⟨k₀, v₀⟩ := a
    simp only [dictSet]
    split
    · rename_i h
      have h := beq_iff_eq.mp h
      subst h
      simp only [lookup_cons']
      by_cases h' : k' = k₀ <;> simp [h']
    · rename_i h
      have h : ¬ k₀ = k := fun e => h (beq_iff_eq.mpr e)
      simp only [lookup_cons', ih]
      by_cases h' : k' = k₀
      · subst h'; simp [h]
      · simp [h']

theorem keys_dictSet (l : List (String × α)) (k : String) (v : α) :
    keys (dictSet l k v) = if k ∈ keys l then keys l else keys l ++ [k] := by
  induction l with
  | nil => simp [dictSet]
  | cons a l ih =>
    obtain ⟨k₀, v₀⟩ := a
    simp only [dictSet]
    split
    · rename_i h
      have h := beq_iff_eq.mp h
      subst h; simp
    · rename_i h
      have h : ¬ k₀ = k := fun e => h (beq_iff_eq.mpr e)
      have h' : ¬ k = k₀ := fun e => h e.symm
      simp only [keys_cons, ih, List.mem_cons, h', false_or]
      split <;> simp

theorem NodupKeys.dictSet {l : List (String × α)} (hn : NodupKeys l) (k : String) (v : α) :
    NodupKeys (dictSet l k v) := by
  unfold NodupKeys at *
  rw [keys_dictSet]
  split
  · exact hn
  · rename_i h
    rw [List.nodup_append]
    refine ⟨hn, by simp, ?_⟩
    intro a ha b hb
    simp at hb; subst hb
    intro e; subst e; exact h ha

theorem NodupKeys.dictUpdate {d : List (String × α)} (hn : NodupKeys d) (e : List (String × α)) :
    NodupKeys (dictUpdate d e) := by
  unfold Strax.Lineage.dictUpdate
  induction e generalizing d with
  | nil => exact hn
  | cons a e ih => exact ih (hn.dictSet a.1 a.2)

theorem dictUpdate_cons (d : List (String × α)) (a : String × α) (e : List (String × α)) :
    dictUpdate d (a :: e) = dictUpdate (dictSet d a.1 a.2) e := rfl

theorem lookup_dictUpdate (d e : List (String × α)) (he : NodupKeys e) (k : String) :
    (dictUpdate d e).lookup k = match e.lookup k with
      | some v => some v
      | none => d.lookup k := by
  induction e generalizing d with
  | nil => rfl
  | cons a e ih =>
    obtain ⟨k₁, v₁⟩ := a
    simp only [NodupKeys, keys_cons, List.nodup_cons] at he
    rw [dictUpdate_cons, ih _ he.2, lookup_cons', lookup_dictSet]
    by_cases h : k = k₁
    · subst h
      have : e.lookup k = none := lookup_eq_none_iff.mpr he.1
      simp [this]
    · simp [h]

theorem keys_dictUpdate_subset (d e : List (String × α)) (k : String) :
    k ∈ keys (dictUpdate d e) ↔ k ∈ keys d ∨ k ∈ keys e := by
  induction e generalizing d with
  | nil => simp [Strax.Lineage.dictUpdate]
  | cons a e ih =>
    rw [dictUpdate_cons, ih, keys_dictSet]
    by_cases h : a.1 ∈ keys d
    · simp only [h, if_true, keys_cons, List.mem_cons]; grind
    · simp only [h, if_false, keys_cons, List.mem_cons, List.mem_append]; grind

/-! ### sorting by key -/

theorem insertKV_perm (k : String) (c : α) (l : List (String × α)) : (insertKV k c l).Perm ((k, c) :: l) := by
  induction l with
  | nil => exact List.Perm.refl _
  | cons a l ih =>
    obtain ⟨k', c'⟩ := a
    unfold insertKV
    split
    · exact List.Perm.refl _
    · exact (List.Perm.cons _ ih).trans (List.Perm.swap _ _ _)

theorem sortKV_perm (l : List (String × α)) : (sortKV l).Perm l := by
  induction l with
  | nil => exact List.Perm.refl _
  | cons a l ih =>
    obtain ⟨k, c⟩ := a
    unfold sortKV
    exact (insertKV_perm k c _).trans (List.Perm.cons _ ih)

def KeyLE (a b : String × α) : Prop := a.1 ≤ b.1

theorem insertKV_sorted (k : String) (c : α) (l : List (String × α)) (h : l.Pairwise KeyLE) :
    (insertKV k c l).Pairwise KeyLE := by
  induction l with
  | nil => simp [insertKV]
  | cons a l ih =>
    obtain ⟨k', c'⟩ := a
    unfold insertKV
    rw [List.pairwise_cons] at h
    split
    · rename_i hle
      rw [List.pairwise_cons]
      refine ⟨?_, List.pairwise_cons.mpr h⟩
      intro b hb
      rcases List.mem_cons.mp hb with e | e
      · subst e; exact hle
      · exact String.le_trans hle (h.1 b e)
    · rename_i hle
      rw [List.pairwise_cons]
      refine ⟨?_, ih h.2⟩
      intro b hb
      have := (insertKV_perm k c l).mem_iff.mp hb
      rcases List.mem_cons.mp this with e | e
      · subst e
        rcases String.le_total k k' with h' | h'
        · exact absurd h' hle
        · exact h'
      · exact h.1 b e

theorem sortKV_sorted (l : List (String × α)) : (sortKV l).Pairwise KeyLE := by
  induction l with
  | nil => simp [sortKV]
  | cons a l ih =>
    obtain ⟨k, c⟩ := a
    unfold sortKV
    exact insertKV_sorted k c _ ih

theorem sortKV_eq_of_perm {l₁ l₂ : List (String × α)} (hp : l₁.Perm l₂) (hn : NodupKeys l₁) :
    sortKV l₁ = sortKV l₂ := by
  have p1 := sortKV_perm l₁
  have p2 := sortKV_perm l₂
  apply List.Perm.eq_of_pairwise (le := KeyLE) _ (sortKV_sorted l₁) (sortKV_sorted l₂)
  · exact p1.trans (hp.trans p2.symm)
  · intro a b ha hb hab hba
    have ha' : a ∈ l₁ := p1.mem_iff.mp ha
    have hb' : b ∈ l₁ := hp.mem_iff.mpr (p2.mem_iff.mp hb)
    exact eq_of_mem_of_key_eq hn ha' hb' (String.le_antisymm hab hba)

theorem keys_sortKV_perm (l : List (String × α)) : (keys (sortKV l)).Perm (keys l) := by
  unfold keys; exact (sortKV_perm l).map _

theorem insertS_perm (k : String) (l : List String) : (insertS k l).Perm (k :: l) := by
  induction l with
  | nil => exact List.Perm.refl _
  | cons a l ih =>
    unfold insertS
    split
    · exact List.Perm.refl _
    · exact (List.Perm.cons _ ih).trans (List.Perm.swap _ _ _)

theorem sortS_perm (l : List String) : (sortS l).Perm l := by
  induction l with
  | nil => exact List.Perm.refl _
  | cons a l ih =>
    unfold sortS
    exact (insertS_perm a _).trans (List.Perm.cons _ ih)

theorem insertS_sorted (k : String) (l : List String) (h : l.Pairwise (· ≤ ·)) :
    (insertS k l).Pairwise (· ≤ ·) := by
  induction l with
  | nil => simp [insertS]
  | cons a l ih =>
    unfold insertS
    rw [List.pairwise_cons] at h
    split
    · rename_i hle
      rw [List.pairwise_cons]
      refine ⟨?_, List.pairwise_cons.mpr h⟩
      intro b hb
      rcases List.mem_cons.mp hb with e | e
      · subst e; exact hle
      · exact String.le_trans hle (h.1 b e)
    · rename_i hle
      rw [List.pairwise_cons]
      refine ⟨?_, ih h.2⟩
      intro b hb
      have := (insertS_perm k l).mem_iff.mp hb
      rcases List.mem_cons.mp this with e | e
      · rw [e]
        rcases String.le_total k a with h' | h'
        · exact absurd h' hle
        · exact h'
      · exact h.1 b e

theorem sortS_sorted (l : List String) : (sortS l).Pairwise (· ≤ ·) := by
  induction l with
  | nil => simp [sortS]
  | cons a l ih =>
    unfold sortS
    exact insertS_sorted a _ ih

/-- sorting forgets the iteration order of a set -/
theorem sortS_eq_of_perm {l₁ l₂ : List String} (hp : l₁.Perm l₂) : sortS l₁ = sortS l₂ := by
  apply List.Perm.eq_of_pairwise (le := (· ≤ ·)) _ (sortS_sorted l₁) (sortS_sorted l₂)
  · exact (sortS_perm l₁).trans (hp.trans (sortS_perm l₂).symm)
  · intro a b _ _ hab hba
    exact String.le_antisymm hab hba

/-! ### `canon` -/

theorem canonPairsWith_eq_map (s : Bool) (d : List (String × Val)) :
    canonPairsWith s d = d.map fun kv => (kv.1, canonWith s kv.2) := by
  induction d with
  | nil => rfl
  | cons a d ih => obtain ⟨k, v⟩ := a; simp [canonPairsWith, ih]

theorem canonListWith_eq_map (s : Bool) (l : List Val) : canonListWith s l = l.map (canonWith s) := by
  induction l with
  | nil => rfl
  | cons a l ih => simp [canonListWith, ih]

theorem keys_canonPairs (d : List (String × Val)) : keys (canonPairs d) = keys d := by
  unfold canonPairs
  rw [canonPairsWith_eq_map]; exact keys_map_val _ _

theorem lookup_canonPairs (d : List (String × Val)) (k : String) :
    (canonPairs d).lookup k = (d.lookup k).map canon := by
  unfold canonPairs
  rw [canonPairsWith_eq_map]; exact lookup_map_val _ _ _

theorem pairCanon_injective : Function.Injective pairCanon := by
  intro ⟨k, c⟩ ⟨k', c'⟩ h
  simp [pairCanon] at h
  simp [h]

theorem canon_dict (d : List (String × Val)) :
    canon (.dict d) = .list ((sortKV (canonPairs d)).map pairCanon) := by
  simp [canon, canonWith, canonPairs]

/-- `hashablize` does not see the insertion order of a dict -/
theorem canon_dict_perm {d₁ d₂ : List (String × Val)} (hp : d₁.Perm d₂) (hn : NodupKeys d₁) :
    canon (.dict d₁) = canon (.dict d₂) := by
  rw [canon_dict, canon_dict]
  congr 2
  apply sortKV_eq_of_perm
  · unfold canonPairs; rw [canonPairsWith_eq_map, canonPairsWith_eq_map]; exact hp.map _
  · unfold NodupKeys; rw [keys_canonPairs]; exact hn

/-- two dicts hash alike iff they have the same keys and, key by key, values that hash alike -/
theorem canon_dict_eq_iff {d₁ d₂ : List (String × Val)} (h1 : NodupKeys d₁) (h2 : NodupKeys d₂) :
    canon (.dict d₁) = canon (.dict d₂) ↔ ∀ k, (d₁.lookup k).map canon = (d₂.lookup k).map canon := by
  have n1 : NodupKeys (canonPairs d₁) := by unfold NodupKeys; rw [keys_canonPairs]; exact h1
  have n2 : NodupKeys (canonPairs d₂) := by unfold NodupKeys; rw [keys_canonPairs]; exact h2
  rw [canon_dict, canon_dict]
  constructor
  · intro h k
    have h' : sortKV (canonPairs d₁) = sortKV (canonPairs d₂) := by
      have := Canon.list.inj h
      exact (List.map_inj_right (fun x y e => pairCanon_injective e)).mp this
    rw [← lookup_canonPairs, ← lookup_canonPairs]
    have p : (canonPairs d₁).Perm (canonPairs d₂) := by
      have a := sortKV_perm (canonPairs d₁)
      have b := sortKV_perm (canonPairs d₂)
      rw [h'] at a
      exact a.symm.trans b
    exact lookup_perm p n1 k
  · intro h
    congr 2
    apply sortKV_eq_of_perm _ n1
    apply perm_of_lookup_eq n1 n2
    intro k
    rw [lookup_canonPairs, lookup_canonPairs]; exact h k

end Strax.Lineage
