import StraxModel.Lemmas.Overlap
/-
  Helper lemmas for property C09, part 3: multi-output overlap-window plugins whose outputs are all
  per-row window-local.  Every output then carries the intervals of the input rows, so every
  output is split at the same times as the input itself (`split_map`), `cache_beyond` agrees on a
  common split time in its first trial, and each output is what the single-output plugin yields.
-/
namespace Strax.Overlap
open Strax

/-! ## splitting commutes with interval-preserving maps -/

/-- interval-preserving row map -/
def KeepsRow (h : Row → Row) : Prop := ∀ r, (h r).time = r.time ∧ (h r).endt = r.endt

theorem scan_map {h : Row → Row} (hh : KeepsRow h) (t : Int) :
    ∀ (rows : List Row) (i : Nat) (latest : Int) (s : Nat), scan t (rows.map h) i latest s = scan t rows i latest s := by
  intro rows
  induction rows with
  | nil => intro i latest s; rfl
  | cons d rest ih =>
    intro i latest s
    simp only [List.map_cons, scan, (hh d).1, (hh d).2, ih]

theorem splitArray_map {h : Row → Row} (hh : KeepsRow h) (rows : List Row) (t : Int) (early : Bool) :
    splitArray (rows.map h) t early =
      match splitArray rows t early with
      | .ok (l, r, t') => .ok (l.map h, r.map h, t')
      | .error e => .error e := by
  cases rows with
  | nil => rfl
  | cons d0 tl =>
    have hs := scan_map hh t (d0 :: tl) 0 (-1) 0
    simp only [List.map_cons] at hs
    simp only [List.map_cons, splitArray, (hh d0).1, hs]
    split
    · rfl
    · split
      · simp
      · split
        · split
          · rfl
          · rw [← List.map_cons, List.getElem?_map]
            cases hget : (d0 :: tl)[(scan t (d0 :: tl) 0 (-1) 0).splitI]? with
            | none => rfl
            | some r => simp [List.map_take, List.map_drop, (hh r).1]
        · simp [← List.map_cons, List.map_take, List.map_drop]

/-- an ordinary chunk -/
def plainChunk (dt k rid : String) (a e : Int) (rows : List Row) (tg : Nat) : Chunk :=
  ⟨dt, k, some rid, a, e, rows, none, [⟨rid, a, e⟩], tg⟩

theorem splitData_map {h : Row → Row} (hh : KeepsRow h) {c c' : Chunk} (hs : c'.start = c.start) (he : c'.stop = c.stop)
    (hr : c'.rows = c.rows.map h) {t : Int} {early : Bool} {d1 d2 : List Row} {t' : Int}
    (hv : splitData c t early = .ok (d1, d2, t')) : splitData c' t early = .ok (d1.map h, d2.map h, t') := by
  unfold splitData at hv ⊢
  rw [hs, he, hr]
  split at hv
  · rename_i hc
    rw [if_pos hc]
    simp only [pure, Except.pure, Except.ok.injEq, Prod.mk.injEq] at hv ⊢
    obtain ⟨rfl, rfl, rfl⟩ := hv
    exact ⟨rfl, rfl, rfl⟩
  · rename_i hc
    rw [if_neg hc]
    split at hv
    · rename_i hc2
      rw [if_pos hc2]
      simp only [pure, Except.pure, Except.ok.injEq, Prod.mk.injEq] at hv ⊢
      obtain ⟨rfl, rfl, rfl⟩ := hv
      exact ⟨rfl, rfl, rfl⟩
    · rename_i hc2
      rw [if_neg hc2, splitArray_map hh, hv]

/-- splitting a chunk whose rows are an interval-preserving image of the rows of a good chunk `c`
over the same range: same split time, the images of the two halves -/
theorem split_map {h : Row → Row} (hh : KeepsRow h) {c c1 c2 : Chunk} {t : Int} {early : Bool}
    (hg : c.good = true) (hsp : c.split t early = .ok (c1, c2)) (dt k : String) (tg : Nat) :
    ∃ rid, c.runId = some rid ∧
      (plainChunk dt k rid c.start c.stop (c.rows.map h) tg).split t early =
        .ok (plainChunk dt k rid c.start c1.stop (c1.rows.map h) tg, plainChunk dt k rid c1.stop c.stop (c2.rows.map h) tg) := by
  have hg' := hg
  simp only [Chunk.good, Bool.and_eq_true] at hg'
  obtain ⟨hwf, hsimple⟩ := hg'
  obtain ⟨hsub, rid, hrid, hsup⟩ := (Chunk.simple_iff c).1 hsimple
  obtain ⟨h0, hse, hs, hpos, hin⟩ := (Chunk.wf_iff c).1 hwf
  obtain ⟨d1, d2, t', hv, h1, h2⟩ := Chunk.split_ok_inv hsp
  obtain ⟨ha, hst, hts, hl, hr⟩ := splitData_wf hwf hv
  obtain ⟨-, -, -, -, f1e, f1r, -⟩ := mkChunk_fields h1
  obtain ⟨-, -, -, -, -, f2r, -⟩ := mkChunk_fields h2
  have e1 : c1.stop = t' := by rw [f1e]; omega
  refine ⟨rid, hrid, ?_⟩
  have hv' := splitData_map hh (c := c) (c' := plainChunk dt k rid c.start c.stop (c.rows.map h) tg) rfl rfl rfl hv
  have := split_simple_ok (c := plainChunk dt k rid c.start c.stop (c.rows.map h) tg) (rid := rid) rfl rfl h0 hst hts
    (by
      intro x hx
      simp only [List.mem_map] at hx
      obtain ⟨r, hr', rfl⟩ := hx
      rw [(hh r).1, (hh r).2]
      exact ⟨(hin r (by rw [← ha]; simp [hr'])).1, hl r hr'⟩)
    (by
      intro x hx
      simp only [List.mem_map] at hx
      obtain ⟨r, hr', rfl⟩ := hx
      rw [(hh r).1, (hh r).2]
      exact ⟨hr r hr', (hin r (by rw [← ha]; simp [hr'])).2⟩)
    hv'
  rw [this, e1, f1r, f2r]
  rfl

/-! ## an admissible split time is a fixed point of the early split -/

theorem splitArray_early_of_strict {data : List Row} {t : Int} {v : List Row × List Row × Int}
    (h : splitArray data t false = .ok v) : splitArray data t true = .ok v := by
  cases data with
  | nil => exact h
  | cons d0 tl =>
    simp only [splitArray] at h ⊢
    by_cases hc : d0.time ≥ t
    · rw [if_pos hc] at h ⊢; exact h
    · rw [if_neg hc] at h ⊢
      by_cases hc2 : (!(scan t (d0 :: tl) 0 (-1) 0).broke && decide ((scan t (d0 :: tl) 0 (-1) 0).latest ≤ t)) = true
      · rw [if_pos hc2] at h ⊢; exact h
      · rw [if_neg hc2] at h ⊢
        by_cases hc3 : ((scan t (d0 :: tl) 0 (-1) 0).beyond != some (scan t (d0 :: tl) 0 (-1) 0).splitI ||
            decide ((scan t (d0 :: tl) 0 (-1) 0).latest > t)) = true
        · rw [if_pos hc3] at h
          simp at h
        · rw [if_neg hc3] at h ⊢; exact h

theorem split_early_of_strict {c c1 c2 : Chunk} {t : Int} (h : c.split t false = .ok (c1, c2)) :
    c.split t true = .ok (c1, c2) := by
  obtain ⟨hnb, h⟩ := Chunk.split_ok_core h
  rw [Chunk.split_of_not_bad hnb]
  rw [Chunk.splitCore_eq] at h ⊢
  obtain ⟨v, hv, h⟩ := bind_eq_ok.1 h
  have hv' : splitData c t true = .ok v := by
    unfold splitData at hv ⊢
    split at hv
    · rename_i hc; rw [if_pos hc]; exact hv
    · rename_i hc; rw [if_neg hc]
      split at hv
      · rename_i hc2; rw [if_pos hc2]; exact hv
      · rename_i hc2; rw [if_neg hc2]; exact splitArray_early_of_strict hv
  rw [hv']
  exact h

/-- a good chunk is determined by its identity fields, range and rows -/
theorem good_ext {c d : Chunk} (hc : c.good = true) (hd : d.good = true) (h1 : c.dataType = d.dataType)
    (h2 : c.kind = d.kind) (h3 : c.runId = d.runId) (h4 : c.start = d.start) (h5 : c.stop = d.stop)
    (h6 : c.rows = d.rows) (h7 : c.target = d.target) : c = d := by
  simp only [Chunk.good, Bool.and_eq_true] at hc hd
  obtain ⟨s1, r1, e1, u1⟩ := (Chunk.simple_iff c).1 hc.2
  obtain ⟨s2, r2, e2, u2⟩ := (Chunk.simple_iff d).1 hd.2
  cases c; cases d
  simp only at *
  subst h1 h2 h3 h4 h5 h6 h7 s1 s2
  rw [e1] at e2
  simp only [Option.some.injEq] at e2
  subst e2
  simp [u1, u2]

/-- splitting once more at the time an early split chose gives the same two halves -/
theorem split_idem {c c1 c2 : Chunk} {t : Int} (hg : c.good = true) (h : c.split t true = .ok (c1, c2)) :
    c.split c2.start true = .ok (c1, c2) := by
  obtain ⟨t', hst, hts, -, -, e1s, e1e, e2s, e2e, d1, d2, r1, r2, hrows, hl, hr, g1, g2⟩ := split_good' hg h
  have hg' := hg
  simp only [Chunk.good, Bool.and_eq_true] at hg'
  obtain ⟨-, -, -, hpos, -⟩ := (Chunk.wf_iff c).1 hg'.1
  have hns : ¬ ∃ r ∈ c.rows, r.straddles t' := by
    rintro ⟨r, hr', h1, h2⟩
    rw [← hrows] at hr'
    rcases List.mem_append.1 hr' with hm | hm
    · have := hl r hm; omega
    · have := hr r hm; omega
  obtain ⟨b1, b2, hb⟩ := split_good_strict_ok hg t' hns
  obtain ⟨t'', -, -, -, hstrict, f1s, f1e, f2s, f2e, k1, k2, q1, q2, hrows', hl', hr', gb1, gb2⟩ := split_good' hg hb
  have ht'' : t'' = t' := by rw [hstrict rfl]; omega
  subst ht''
  obtain ⟨ra, rb⟩ := sep_unique (t := t'') (by rw [hrows']; exact hpos) (hrows'.trans hrows.symm) hl' hr' hr hl
  have hb1 : b1 = c1 := good_ext gb1 g1 (by rw [k1, d1]) (by
      obtain ⟨rid, _, _, _, _, _, hc1, _⟩ := split_good hg hb
      obtain ⟨rid', _, _, _, _, _, hc1', _⟩ := split_good hg h
      rw [hc1, hc1']) (by rw [q1, r1]) (by rw [f1s, e1s]) (by rw [f1e, e1e]) ra (by
      obtain ⟨rid, _, _, _, _, _, hc1, _⟩ := split_good hg hb
      obtain ⟨rid', _, _, _, _, _, hc1', _⟩ := split_good hg h
      rw [hc1, hc1'])
  have hb2 : b2 = c2 := good_ext gb2 g2 (by rw [k2, d2]) (by
      obtain ⟨rid, _, _, _, _, _, _, hc2, _⟩ := split_good hg hb
      obtain ⟨rid', _, _, _, _, _, _, hc2', _⟩ := split_good hg h
      rw [hc2, hc2']) (by rw [q2, r2]) (by rw [f2s, e2s]) (by rw [f2e, e2e]) rb (by
      obtain ⟨rid, _, _, _, _, _, _, hc2, _⟩ := split_good hg hb
      obtain ⟨rid', _, _, _, _, _, _, hc2', _⟩ := split_good hg h
      rw [hc2, hc2'])
  rw [e2s]
  rw [← hb1, ← hb2]
  exact split_early_of_strict hb

/-! ## forward lemmas about the dict loops -/

theorem mapE_map_ok {α β γ : Type} {f : β → Except Err γ} {π : α → β} {F : α → γ} :
    ∀ {l : List α}, (∀ a ∈ l, f (π a) = .ok (F a)) → mapE f (l.map π) = .ok (l.map F) := by
  intro l
  induction l with
  | nil => intro _; rfl
  | cons a l ih =>
    intro h
    simp only [List.map_cons, mapE, h a (by simp), ih (fun b hb => h b (by simp [hb]))]

theorem uniqueB_of_all_eq {l : List Int} {a : Int} (hne : l ≠ []) (h : ∀ x ∈ l, x = a) : uniqueB l = true := by
  cases l with
  | nil => exact absurd rfl hne
  | cons x xs =>
    simp only [uniqueB, List.all_eq_true, beq_iff_eq]
    intro y hy
    rw [h y (by simp [hy]), h x (by simp)]

/-- one pass of `cache_beyond` when every chunk splits, at the requested time and at the agreed
time `τ` alike, into a right half `V key` starting at `τ` -/
theorem cachePass_ok (V : String → Chunk) (τ : Int) : ∀ (io : Dict Chunk) (t0 : Int) (cached : Dict Chunk),
    (∀ kc ∈ io, (∃ c1, kc.2.split t0 true = .ok (c1, V kc.1)) ∧ (∃ c1, kc.2.split τ true = .ok (c1, V kc.1)) ∧
      (V kc.1).start = τ) →
    (keys io).Nodup → (keys cached).Nodup →
    ∃ cached', cachePass io t0 cached = .ok ((if io = [] then t0 else τ), cached') ∧ (keys cached').Nodup ∧
      (∀ x ∈ keys cached', x ∈ keys cached ∨ x ∈ keys io) ∧
      (∀ k ∈ keys io, dictGet cached' k = some (V k)) ∧ (∀ k, k ∉ keys io → dictGet cached' k = dictGet cached k) := by
  intro io
  induction io with
  | nil =>
    intro t0 cached _ _ hc
    exact ⟨cached, rfl, hc, fun x hx => Or.inl hx, by simp [keys], fun _ _ => rfl⟩
  | cons p rest ih =>
    intro t0 cached h hnd hc
    obtain ⟨k0, c0⟩ := p
    obtain ⟨⟨c1, hs0⟩, hτ, hst⟩ := h (k0, c0) (by simp)
    rw [keys_cons, List.nodup_cons] at hnd
    obtain ⟨cached', hrec, i1, i2, i3, i4⟩ := ih τ (dictSet cached k0 (V k0))
      (fun kc hkc => ⟨(h kc (by simp [hkc])).2.1, (h kc (by simp [hkc])).2.1, (h kc (by simp [hkc])).2.2⟩)
      hnd.2 (keys_dictSet_nodup k0 (V k0) hc)
    refine ⟨cached', ?_, i1, ?_, ?_, ?_⟩
    · simp only [cachePass, hs0, hst, hrec]
      cases rest <;> simp
    · intro x hx
      rcases i2 x hx with h' | h'
      · rw [keys_dictSet] at h'
        split at h'
        · exact Or.inl h'
        · simp at h'
          rcases h' with h' | rfl
          · exact Or.inl (by simpa [keys] using h')
          · exact Or.inr (by simp [keys_cons])
      · exact Or.inr (by simp [keys_cons, h'])
    · intro k hk
      rw [keys_cons, List.mem_cons] at hk
      rcases hk with rfl | hk
      · rw [i4 k hnd.1, dictGet_dictSet]; simp
      · exact i3 k hk
    · intro k hk
      rw [keys_cons, List.mem_cons, not_or] at hk
      rw [i4 k hk.2, dictGet_dictSet, if_neg hk.1]

/-- `result[dt], cached[dt] = result[dt].split(t, True)` for all `dt`, when every split succeeds -/
theorem splitAll_ok (O V : String → Chunk) (t : Int) : ∀ (result cached : Dict Chunk),
    (∀ kc ∈ result, kc.2.split t true = .ok (O kc.1, V kc.1)) → (keys result).Nodup → (keys cached).Nodup →
    ∃ cached', splitAll t result cached = .ok (result.map (fun kc => (kc.1, O kc.1)), cached') ∧ (keys cached').Nodup ∧
      (∀ x ∈ keys cached', x ∈ keys cached ∨ x ∈ keys result) ∧
      (∀ k ∈ keys result, dictGet cached' k = some (V k)) ∧ (∀ k, k ∉ keys result → dictGet cached' k = dictGet cached k) := by
  intro result
  induction result with
  | nil =>
    intro cached _ _ hc
    exact ⟨cached, rfl, hc, fun x hx => Or.inl hx, by simp [keys], fun _ _ => rfl⟩
  | cons p rest ih =>
    intro cached h hnd hc
    obtain ⟨k0, c0⟩ := p
    have hs0 := h (k0, c0) (by simp)
    rw [keys_cons, List.nodup_cons] at hnd
    obtain ⟨cached', hrec, i1, i2, i3, i4⟩ := ih (dictSet cached k0 (V k0))
      (fun kc hkc => h kc (by simp [hkc])) hnd.2 (keys_dictSet_nodup k0 (V k0) hc)
    refine ⟨cached', ?_, i1, ?_, ?_, ?_⟩
    · simp only [splitAll, hs0, hrec, List.map_cons]
    · intro x hx
      rcases i2 x hx with h' | h'
      · rw [keys_dictSet] at h'
        split at h'
        · exact Or.inl h'
        · simp at h'
          rcases h' with h' | rfl
          · exact Or.inl (by simpa [keys] using h')
          · exact Or.inr (by simp [keys_cons])
      · exact Or.inr (by simp [keys_cons, h'])
    · intro k hk
      rw [keys_cons, List.mem_cons] at hk
      rcases hk with rfl | hk
      · rw [i4 k hnd.1, dictGet_dictSet]; simp
      · exact i3 k hk
    · intro k hk
      rw [keys_cons, List.mem_cons, not_or] at hk
      rw [i4 k hk.2, dictGet_dictSet, if_neg hk.1]

/-- if every key of the dict is one of `io`'s and every value for such a key starts at `τ`, the
starts are unique -/
theorem uniqueB_starts {d : Dict Chunk} {V : String → Chunk} {τ : Int} {ks : List String} (hne : d ≠ [])
    (hnd : (keys d).Nodup) (hsub : ∀ x ∈ keys d, x ∈ ks) (hget : ∀ k ∈ ks, k ∈ keys d → dictGet d k = some (V k))
    (hst : ∀ k ∈ ks, (V k).start = τ) : uniqueB (d.map (·.2.start)) = true := by
  apply uniqueB_of_all_eq (a := τ)
  · simpa using hne
  · intro x hx
    simp only [List.mem_map] at hx
    obtain ⟨p, hp, rfl⟩ := hx
    have hk : p.1 ∈ keys d := List.mem_map.2 ⟨p, hp, rfl⟩
    have h1 := dictGet_of_mem hnd (show (p.1, p.2) ∈ d from hp)
    rw [hget p.1 (hsub _ hk) hk] at h1
    simp only [Option.some.injEq] at h1
    rw [← h1]; exact hst _ (hsub _ hk)

/-! ## the multi-output branch of `do_compute`, given the splits of every output -/

theorem keys_map_names (names : List String) (C : String → Chunk) : keys (names.map (fun k => (k, C k))) = names := by
  simp [keys, List.map_map, Function.comp_def]

/-- everything `do_compute` does after `Plugin.do_compute` in the multi-output branch, when every
output `k` splits (strictly at `s`) into `Z k | C1 k`, and `C1 k` splits — at `invalid_beyond` and at
the agreed time `τ` alike — into `O k | V k` with `V k` starting at `τ` -/
theorem multi_tail {names : List String} (hne : names ≠ []) (hnd : names.Nodup) {C0 C1 Z O V : String → Chunk}
    {s ib τ : Int} {crd : Dict Chunk}
    (ha : ∀ k ∈ names, (C0 k).split s false = .ok (Z k, C1 k))
    (hb : ∀ k ∈ names, (C1 k).split ib true = .ok (O k, V k))
    (hc : ∀ k ∈ names, (C1 k).split τ true = .ok (O k, V k))
    (hd : ∀ k ∈ names, (V k).start = τ)
    (hcrd : (keys crd).Nodup ∧ ∀ x ∈ keys crd, x ∈ names) :
    dropSent s (names.map (fun k => (k, C0 k))) = .ok (names.map (fun k => (k, C1 k))) ∧
    ∃ cached1 cached2,
      cacheBeyond maxTrials (names.map (fun k => (k, C1 k))) ib crd = .ok (τ, cached1) ∧
      splitAll τ (names.map (fun k => (k, C1 k))) cached1 = .ok (names.map (fun k => (k, O k)), cached2) ∧
      uniqueB (cached2.map (·.2.start)) = true ∧
      (keys cached2).Nodup ∧ (∀ x ∈ keys cached2, x ∈ names) ∧ (∀ k ∈ names, dictGet cached2 k = some (V k)) := by
  constructor
  · unfold dropSent
    apply mapE_map_ok (π := fun k => (k, C0 k)) (F := fun k => (k, C1 k))
    intro k hk
    simp only [ha k hk]
  · have hkeys := keys_map_names names C1
    obtain ⟨cached1, hp, n1, s1, g1, -⟩ := cachePass_ok V τ (names.map (fun k => (k, C1 k))) ib crd
      (by
        intro kc hkc
        simp only [List.mem_map] at hkc
        obtain ⟨k, hk, rfl⟩ := hkc
        exact ⟨⟨O k, hb k hk⟩, ⟨O k, hc k hk⟩, hd k hk⟩)
      (by rw [hkeys]; exact hnd) hcrd.1
    rw [hkeys] at s1 g1
    have hmapne : names.map (fun k => (k, C1 k)) ≠ [] := by simpa using hne
    rw [if_neg hmapne] at hp
    have hsub1 : ∀ x ∈ keys cached1, x ∈ names := by
      intro x hx
      rcases s1 x hx with h | h
      · exact hcrd.2 x h
      · exact h
    have hne1 : cached1 ≠ [] := by
      obtain ⟨k, hk⟩ := List.exists_mem_of_ne_nil names hne
      have := mem_of_dictGet (g1 k hk)
      intro h; rw [h] at this; simp at this
    have hu1 : uniqueB (cached1.map (·.2.start)) = true :=
      uniqueB_starts (V := V) (τ := τ) (ks := names) hne1 n1 hsub1 (fun k hk _ => g1 k hk) hd
    obtain ⟨cached2, hsa, n2, s2, g2, -⟩ := splitAll_ok O V τ (names.map (fun k => (k, C1 k))) cached1
      (by
        intro kc hkc
        simp only [List.mem_map] at hkc
        obtain ⟨k, hk, rfl⟩ := hkc
        exact hc k hk)
      (by rw [hkeys]; exact hnd) n1
    rw [hkeys] at s2 g2
    have hsub2 : ∀ x ∈ keys cached2, x ∈ names := by
      intro x hx
      rcases s2 x hx with h | h
      · exact hsub1 x h
      · exact h
    have hne2 : cached2 ≠ [] := by
      obtain ⟨k, hk⟩ := List.exists_mem_of_ne_nil names hne
      have := mem_of_dictGet (g2 k hk)
      intro h; rw [h] at this; simp at this
    refine ⟨cached1, cached2, ?_, ?_, uniqueB_starts (V := V) (τ := τ) (ks := names) hne2 n2 hsub2 (fun k hk _ => g2 k hk) hd,
      n2, hsub2, g2⟩
    · show cacheBeyond (9 + 1) _ _ _ = _
      simp only [cacheBeyond, hp, hu1, if_true]
    · rw [hsa]
      simp [List.map_map, Function.comp_def]

/-! ## the call of a multi-output plugin with per-row window-local outputs -/

/-- data kind of the output called `k` -/
def kindOf (fs : List (String × String × (List Row → List Row))) (k : String) : String :=
  match fs.find? (fun q => q.1 == k) with
  | some q => q.2.1
  | none => ""

theorem find_name {fs : List (String × String × (List Row → List Row))} (hnd : (fs.map (·.1)).Nodup)
    {p : String × String × (List Row → List Row)} (hp : p ∈ fs) : fs.find? (fun q => q.1 == p.1) = some p := by
  induction fs with
  | nil => simp at hp
  | cons q fs ih =>
    simp only [List.map_cons, List.nodup_cons] at hnd
    rcases List.mem_cons.1 hp with rfl | hp'
    · simp
    · have hne : ¬ q.1 = p.1 := by
        intro e
        exact hnd.1 (e ▸ List.mem_map.2 ⟨p, hp', rfl⟩)
      have : (q.1 == p.1) = false := by simpa using hne
      simp only [List.find?_cons, this]
      exact ih hnd.2 hp'

theorem kindOf_mem {fs : List (String × String × (List Row → List Row))} (hnd : (fs.map (·.1)).Nodup)
    {p : String × String × (List Row → List Row)} (hp : p ∈ fs) : kindOf fs p.1 = p.2.1 := by
  simp only [kindOf, find_name hnd hp]

theorem dictGet_map_name {α : Type} {fs : List (String × String × (List Row → List Row))} (hnd : (fs.map (·.1)).Nodup)
    (F : String × String × (List Row → List Row) → α) {p : String × String × (List Row → List Row)} (hp : p ∈ fs) :
    dictGet (fs.map (fun q => (q.1, F q))) p.1 = some (F p) := by
  apply dictGet_of_mem
  · simpa [keys, List.map_map, Function.comp_def] using hnd
  · exact List.mem_map.2 ⟨p, hp, rfl⟩

theorem prepend_single (kind : String) (old : Option Chunk) (X : Chunk) :
    prepend (optDict kind old) [(kind, X)] =
      match (match old with
         | none => Except.ok X
         | some o => concatenate [o, X] false) with
      | .error e => .error e
      | .ok I => .ok [(kind, I)] := by
  cases old with
  | none => simp [optDict, prepend]
  | some o =>
    simp only [optDict, prepend, dictGet, List.isEmpty_cons, Bool.false_eq_true, if_false, beq_self_eq_true, if_true]
    cases concatenate [o, X] false <;> rfl

theorem ctxMap_idK (wl wr : Int) (ctx l : List Row) : ctxMap wl wr (fun r _ => r) ctx l = l := by
  simp [ctxMap]

/-- `Plugin.do_compute` of the multi-output plugin on a good input chunk -/
theorem baseCompute_specN {fs : List (String × String × (List Row → List Row))} {G : String → Row → List Row → Row}
    {wl wr : Int} {rid kind : String} {I : Chunk}
    (hnd : (fs.map (·.1)).Nodup)
    (hG : ∀ p ∈ fs, Keeps (G p.1) ∧ ∀ rows, PositiveRows rows → p.2.2 rows = perRow wl wr (G p.1) rows)
    (hIg : I.good = true) (hIsub : I.subruns = none) (hIsup : I.superrun = [⟨rid, I.start, I.stop⟩]) :
    baseCompute (specN fs (wl, wr) rid) [(kind, I)] =
      .ok ((fs.map (·.1)).map (fun k => (k, plainChunk k (kindOf fs k) rid I.start I.stop
        (I.rows.map (fun r => G k r (I.rows.filter (near wl wr r)))) 1000))) := by
  have hIg' := hIg
  simp only [Chunk.good, Bool.and_eq_true] at hIg'
  obtain ⟨hI0, hIse, -, hIpos, hIin⟩ := (Chunk.wf_iff I).1 hIg'.1
  simp only [baseCompute, List.map, uniqueB_single, Bool.not_true, Bool.false_and, Bool.false_eq_true, if_false, if_true]
  rw [List.map_map]
  have hprov : (specN fs (wl, wr) rid).provides = fs.map (fun p => (p.1, p.2.1)) := rfl
  rw [hprov]
  apply mapE_map_ok (π := fun p : String × String × (List Row → List Row) => (p.1, p.2.1))
  intro p hp
  obtain ⟨hk, hf⟩ := hG p hp
  simp only [Function.comp_def, fixOutput]
  have hres : dictGet ((specN fs (wl, wr) rid).compute [(kind, I.rows)]) p.1 = some (p.2.2 I.rows) :=
    dictGet_map_name hnd (fun q => q.2.2 I.rows) hp
  rw [hres]
  simp only [hIsup, hIsub, List.length_singleton, Nat.lt_irrefl, gt_iff_lt, if_false]
  have hrows : p.2.2 I.rows = I.rows.map (fun r => G p.1 r (I.rows.filter (near wl wr r))) := hf I.rows hIpos
  rw [hrows, kindOf_mem hnd hp]
  have hin : ∀ x ∈ I.rows.map (fun r => G p.1 r (I.rows.filter (near wl wr r))), I.start ≤ x.time ∧ x.endt ≤ I.stop := by
    intro x hx
    simp only [List.mem_map] at hx
    obtain ⟨r, hr, rfl⟩ := hx
    rw [(hk r _).1, (hk r _).2]
    exact hIin r hr
  have := mkChunk_plain (dt := p.1) (k := p.2.1) (rid := rid) (tg := 1000)
    (sup := some [⟨rid, I.start, I.stop⟩]) hI0 hIse hin (Or.inr rfl)
  rw [show (specN fs (wl, wr) rid).runId = rid from rfl, show (specN fs (wl, wr) rid).target = 1000 from rfl, this]
  rfl

/-- One call of a multi-output plugin all of whose outputs are per-row window-local (kernel
`G name`), on good chunks: the call succeeds; with `P ++ X.rows = Qo ++ Qc` as in the single-output
step, output `k` sends `G k` over `Qo` and withholds `G k` over `Qc`, all computed in the batch
`S2 ++ P ++ X.rows`; the bookkeeping of the input cache is that of the single-output step. -/
theorem doCompute_multi_good {fs : List (String × String × (List Row → List Row))} {G : String → Row → List Row → Row}
    {wl wr : Int} (hne : fs ≠ []) (hnd : (fs.map (·.1)).Nodup)
    (hG : ∀ p ∈ fs, Keeps (G p.1) ∧ ∀ rows, PositiveRows rows → p.2.2 rows = perRow wl wr (G p.1) rows)
    (hwl : 0 ≤ wl) (hwr : 0 ≤ wr)
    {rid kind : String} {old : Option Chunk} {s : Int} {X : Chunk} {S2 P : List Row} {crd : Dict Chunk}
    (hX : X.good = true) (hXr : X.runId = some rid)
    (hold : (old = none ∧ S2 = [] ∧ P = [] ∧ s ≤ X.start) ∨
      (∃ o, old = some o ∧ o.good = true ∧ o.dataType = X.dataType ∧ o.runId = some rid ∧ o.stop = X.start ∧
        o.rows = S2 ++ P ∧ o.start ≤ s ∧ s ≤ o.stop))
    (hS2 : ∀ r ∈ S2, r.endt ≤ s) (hP : ∀ r ∈ P, s ≤ r.time)
    (hcrd : (keys crd).Nodup ∧ ∀ x ∈ keys crd, x ∈ fs.map (·.1)) :
    ∃ (outD crD : Dict Chunk) (ci : Chunk) (s' : Int) (Qo Qc D2 S2' : List Row),
      doCompute (specN fs (wl, wr) rid) ⟨optDict kind old, crd, s⟩ [(kind, X)] = .ok (outD, ⟨[(kind, ci)], crD, s'⟩) ∧
      keys outD = fs.map (·.1) ∧
      (∀ k ∈ fs.map (·.1), ∃ c, dictGet outD k = some c ∧ c.rows = ctxMap wl wr (G k) (S2 ++ P ++ X.rows) Qo ∧
        (∀ a, ((old = none ∧ a = X.start) ∨ (old ≠ none ∧ a = s)) → c.start = a) ∧ c.stop = s' ∧ c.start ≤ c.stop) ∧
      (keys crD).Nodup ∧ (∀ x ∈ keys crD, x ∈ fs.map (·.1)) ∧
      (∀ k ∈ fs.map (·.1), ∃ c, dictGet crD k = some c ∧ c.rows = ctxMap wl wr (G k) (S2 ++ P ++ X.rows) Qc ∧
        c.start = s' ∧ c.stop = X.stop ∧ c.start ≤ c.stop) ∧
      P ++ X.rows = Qo ++ Qc ∧
      (∀ r ∈ Qo, r.endt ≤ X.stop - 2 * wr - 1) ∧ (∀ r ∈ Qo ++ Qc, s ≤ r.time) ∧
      ci.good = true ∧ ci.dataType = X.dataType ∧ ci.runId = some rid ∧ ci.stop = X.stop ∧
      ci.start ≤ s' ∧ s' ≤ ci.stop ∧ s ≤ s' ∧
      S2 ++ Qo = D2 ++ S2' ∧ ci.rows = S2' ++ Qc ∧
      (∀ n ∈ D2, n.endt ≤ s' - 2 * wl - 1) ∧ (∀ r ∈ S2', r.endt ≤ s') ∧ (∀ r ∈ Qc, s' ≤ r.time) := by
  -- the splits of the input itself: the single-output step of the identity
  obtain ⟨out, cr, ci, Qo, Qc, D2, S2', hstepId, hQ, hout, hcr, hQof, hQs, hcig, hcid, hcir, hcie, hci1, hci2, hss,
    hK1, hK2, hD2, hS2', hQc, I, r0, R', i0, hI, hIg, hIrows, hIrid, hIsub, hIsup, hRg, hs1, hR'g, hs2, hs3⟩ :=
    step1_good_ex (g := fun r _ => r) (f := fIdent) (wl := wl) (wr := wr) (fun _ _ => ⟨rfl, rfl⟩)
      (fun rows _ => by simp [fIdent, perRow]) hwl hwr hX hXr hold hS2 hP
  rw [ctxMap_idK] at hout hcr
  have hpid : perRow wl wr (fun r _ => r) I.rows = I.rows := by simp [perRow]
  rw [hpid] at hRg hs1
  -- facts about the halves
  obtain ⟨t1, -, -, -, -, -, hr0e, hR's, hR'e, -, -, -, hR'rid, -⟩ := split_good' hRg hs1
  obtain ⟨t2, ht2a, ht2b, -, -, hos, hoe, hcs, hce, -⟩ := split_good' hR'g hs2
  simp only at hR'e hR'rid
  have hidem := split_idem hR'g hs2
  -- the output families
  let hk : String → Row → Row := fun k r => G k r (I.rows.filter (near wl wr r))
  have hkeeps : ∀ k ∈ fs.map (·.1), KeepsRow (hk k) := by
    intro k hkm r
    simp only [List.mem_map] at hkm
    obtain ⟨p, hp, rfl⟩ := hkm
    exact (hG p hp).1 r _
  let C0 : String → Chunk := fun k => plainChunk k (kindOf fs k) rid I.start I.stop (I.rows.map (hk k)) 1000
  let Z : String → Chunk := fun k => plainChunk k (kindOf fs k) rid I.start r0.stop (r0.rows.map (hk k)) 1000
  let C1 : String → Chunk := fun k => plainChunk k (kindOf fs k) rid R'.start R'.stop (R'.rows.map (hk k)) 1000
  let O : String → Chunk := fun k => plainChunk k (kindOf fs k) rid R'.start out.stop (out.rows.map (hk k)) 1000
  let V : String → Chunk := fun k => plainChunk k (kindOf fs k) rid out.stop R'.stop (cr.rows.map (hk k)) 1000
  have ha : ∀ k ∈ fs.map (·.1), (C0 k).split s false = .ok (Z k, C1 k) := by
    intro k hkm
    obtain ⟨rid', hr', hsm⟩ := split_map (hkeeps k hkm) hRg hs1 k (kindOf fs k) 1000
    simp only [Option.some.injEq] at hr'
    subst hr'
    simp only at hsm
    have e : R'.start = r0.stop := by rw [hR's, hr0e]
    simp only [C0, Z, C1, e, hR'e]
    exact hsm
  have hb : ∀ k ∈ fs.map (·.1), (C1 k).split (I.stop - 2 * wr - 1) true = .ok (O k, V k) := by
    intro k hkm
    obtain ⟨rid', hr', hsm⟩ := split_map (hkeeps k hkm) hR'g hs2 k (kindOf fs k) 1000
    rw [hR'rid] at hr'
    simp only [Option.some.injEq] at hr'
    subst hr'
    exact hsm
  have hc : ∀ k ∈ fs.map (·.1), (C1 k).split cr.start true = .ok (O k, V k) := by
    intro k hkm
    obtain ⟨rid', hr', hsm⟩ := split_map (hkeeps k hkm) hR'g hidem k (kindOf fs k) 1000
    rw [hR'rid] at hr'
    simp only [Option.some.injEq] at hr'
    subst hr'
    exact hsm
  have hd : ∀ k ∈ fs.map (·.1), (V k).start = cr.start := by
    intro k _
    simp only [V, plainChunk, hoe, hcs]
  have hnames_ne : fs.map (·.1) ≠ [] := by simpa using hne
  obtain ⟨hdrop, cached1, cached2, hcb, hsa, hu, n2, sub2, g2⟩ :=
    multi_tail hnames_ne hnd ha hb hc hd hcrd
  refine ⟨(fs.map (·.1)).map (fun k => (k, O k)), cached2, ci, cr.start, Qo, Qc, D2, S2', ?_, keys_map_names _ _, ?_,
    n2, sub2, ?_, hQ, hQof, hQs, hcig, hcid, hcir, hcie, hci1, hci2, hss, hK1, hK2, hD2, hS2', hQc⟩
  · -- the computation
    unfold doCompute
    have hpre : prepend (optDict kind old) [(kind, X)] = .ok [(kind, I)] := by
      rw [prepend_single]
      cases old with
      | none =>
        simp only [Except.ok.injEq] at hI
        subst hI; rfl
      | some o =>
        simp only at hI
        simp only [hI]
    simp only [List.isEmpty_cons, Bool.false_eq_true, if_false, hpre]
    simp only [List.map, uniqueB_single, Bool.not_true, Bool.false_eq_true, if_false]
    rw [show (specN fs (wl, wr) rid).wl = wl from rfl, show (specN fs (wl, wr) rid).wr = wr from rfl,
      show (specN fs (wl, wr) rid).multi = true from rfl, show (specN fs (wl, wr) rid).declOK = true from rfl,
      show (specN fs (wl, wr) rid).signCheck = true from rfl]
    simp only [Bool.not_true, Bool.false_or, Bool.true_and]
    have hw : ¬ ((decide (wl < 0) || decide (wr < 0)) = true) := by
      simp only [Bool.or_eq_true, decide_eq_true_eq, not_or, Int.not_lt]; exact ⟨hwl, hwr⟩
    rw [if_neg hw, baseCompute_specN hnd hG hIg hIsub hIsup]
    simp only [if_true]
    have hdrop' : dropSent s (List.map (fun k => (k, C0 k)) (fs.map (·.1))) = _ := hdrop
    rw [hdrop']
    simp only
    rw [hcb]
    simp only
    rw [hsa]
    simp only [hu, Bool.not_true, Bool.false_eq_true, if_false]
    show (match cacheBeyond (9 + 1) [(kind, I)] (cr.start - 2 * wl - 1) (optDict kind old) with
      | Except.error e => Except.error e
      | Except.ok (_, cachedIn) => Except.ok _) = _
    rw [cacheBeyond_single 9 kind I _ _ (by cases old <;> simp [optDict]), hs3]
  · intro k hkm
    refine ⟨O k, ?_, ?_, ?_, ?_, ?_⟩
    · apply dictGet_of_mem
      · rw [keys_map_names]; exact hnd
      · exact List.mem_map.2 ⟨k, hkm, rfl⟩
    · simp only [O, plainChunk, hout, ctxMap, hIrows, hk]
    · intro a ha
      have hXse : X.start ≤ X.stop := by
        have hX' := hX
        simp only [Chunk.good, Bool.and_eq_true] at hX'
        exact ((Chunk.wf_iff X).1 hX'.1).2.1
      have hpre : (old = none ∧ s ≤ X.start ∧ a = X.start) ∨ (∃ o, old = some o ∧ o.start ≤ s ∧ s ≤ o.stop ∧ a = s) := by
        rcases hold with ⟨h1, -, -, h4⟩ | ⟨o, h1, -, -, -, -, -, h7, h8⟩
        · rcases ha with ⟨-, ha⟩ | ⟨hne', -⟩
          · exact Or.inl ⟨h1, h4, ha⟩
          · exact absurd h1 hne'
        · rcases ha with ⟨hn, -⟩ | ⟨-, ha⟩
          · rw [h1] at hn; cases hn
          · exact Or.inr ⟨o, h1, h7, h8, ha⟩
      obtain ⟨r1, -⟩ := step1_ranges hXse hpre hstepId
      simp only [O, plainChunk]
      rw [← hos]; exact r1
    · simp only [O, plainChunk, hoe, hcs]
    · simp only [O, plainChunk]
      rw [hoe]; exact ht2a
  · intro k hkm
    refine ⟨V k, g2 k hkm, ?_, ?_, ?_, ?_⟩
    · simp only [V, plainChunk, hcr, ctxMap, hIrows, hk]
    · simp only [V, plainChunk, hoe, hcs]
    · simp only [V, plainChunk]
      obtain ⟨_, -, -, -, -, -, -, -, hie, -⟩ := split_good' hIg hs3
      rw [hR'e, ← hie, hcie]
    · simp only [V, plainChunk]
      rw [hoe]; exact ht2b

/-! ## the run of a multi-output plugin -/

theorem iterLoop_multi_whole {fs : List (String × String × (List Row → List Row))} {G : String → Row → List Row → Row}
    {wl wr : Int} (hne : fs ≠ []) (hnd : (fs.map (·.1)).Nodup)
    (hG : ∀ p ∈ fs, Keeps (G p.1) ∧ ∀ rows, PositiveRows rows → p.2.2 rows = perRow wl wr (G p.1) rows)
    (hwl : 0 ≤ wl) (hwr : 0 ≤ wr) (rid kind dt : String) (T : List Row) :
    ∀ (rest : List Chunk) (old : Option Chunk) (crd : Dict Chunk) (s : Int) (buf : Chunk) (Dtot S2 P : List Row),
    buf.good = true → buf.runId = some rid → buf.dataType = dt →
    (∀ c ∈ rest, c.good = true ∧ c.runId = some rid ∧ c.dataType = dt) →
    Chain buf.stop rest →
    ((old = none ∧ S2 = [] ∧ P = [] ∧ s ≤ buf.start) ∨
      (∃ o, old = some o ∧ o.good = true ∧ o.dataType = dt ∧ o.runId = some rid ∧ o.stop = buf.start ∧
        o.rows = S2 ++ P ∧ o.start ≤ s ∧ s ≤ o.stop)) →
    (∀ r ∈ S2, r.endt ≤ s) → (∀ r ∈ P, s ≤ r.time) →
    T = Dtot ++ (S2 ++ P ++ buf.rows) ++ allRows rest →
    (∀ n ∈ Dtot, n.endt ≤ s - 2 * wl - 1) →
    ((keys crd).Nodup ∧ ∀ x ∈ keys crd, x ∈ fs.map (·.1)) →
    ∀ a0 : Int, ((old = none ∧ a0 = buf.start) ∨ (old ≠ none ∧ a0 = s)) →
    ∃ outs st',
      iterLoop (specN fs (wl, wr) rid) kind ⟨optDict kind old, crd, s⟩ buf rest = .ok (outs, st') ∧
      outs.length = rest.length + 1 ∧
      ∀ k ∈ fs.map (·.1), ∃ cs cr, outs.map (fun d => dictGet d k) = cs.map some ∧
        dictGet st'.cachedResults k = some cr ∧
        allRows cs ++ cr.rows = ctxMap wl wr (G k) T (P ++ buf.rows ++ allRows rest) ∧
        Tiles a0 (lastStop buf rest) (cs ++ [cr]) := by
  intro rest
  induction rest with
  | nil =>
    intro old crd s buf Dtot S2 P hbg hbr hbd hrest hchain hold hS2 hP hT hD hcrd a0 ha0
    have hbg' := hbg
    simp only [Chunk.good, Bool.and_eq_true] at hbg'
    obtain ⟨-, bse, -, -, -⟩ := (Chunk.wf_iff buf).1 hbg'.1
    obtain ⟨inp, buf', hsp⟩ := split_good_early_ok hbg buf.stop
    obtain ⟨i1, i2, i3, b1, b2, b3, i4, b4⟩ := split_at_stop bse hsp
    obtain ⟨_, -, -, -, -, -, -, -, -, -, -, i5, b5, -, -, -, hig, hb'g⟩ := split_good' hbg hsp
    have hold' : (old = none ∧ S2 = [] ∧ P = [] ∧ s ≤ inp.start) ∨
      (∃ o, old = some o ∧ o.good = true ∧ o.dataType = inp.dataType ∧ o.runId = some rid ∧ o.stop = inp.start ∧
        o.rows = S2 ++ P ∧ o.start ≤ s ∧ s ≤ o.stop) := by
      rw [i1, i4, hbd]; exact hold
    obtain ⟨outD, crD, ci, s', Qo, Qc, D2, S2', hstep, hko, hout, hcn, hcs, hcr, hQ, hQof, hQs, -⟩ :=
      doCompute_multi_good hne hnd hG hwl hwr (kind := kind) hig (by rw [i5, hbr]) hold' hS2 hP hcrd
    rw [i3] at hQ hout hcr
    refine ⟨[outD], ⟨[(kind, ci)], crD, s'⟩, ?_, rfl, ?_⟩
    · unfold iterLoop
      simp only [hsp, hstep, b3]
      rfl
    · intro k hk
      obtain ⟨co, hco, hcor, hcoa, hcoe, hcole⟩ := hout k hk
      obtain ⟨cc, hcc, hccr, hccs, hcce, hccle⟩ := hcr k hk
      refine ⟨[co], cc, by simp [hco], hcc, ?_, ?_⟩
      rotate_left
      · simp only [List.cons_append, List.nil_append, Tiles, lastStop]
        exact ⟨hcoa a0 (by rw [i1]; exact ha0), hcole, by rw [hcoe, hccs], hccle, by rw [hcce, i2]⟩
      simp only [allRows, List.flatMap_cons, List.flatMap_nil, List.append_nil]
      rw [hcor, hccr, ← ctxMap_append, ← hQ]
      apply ctxMap_congr
      intro r hr
      rw [hT]
      simp only [allRows, List.flatMap_nil, List.append_nil]
      have := filter_near_ctx wl wr r Dtot (S2 ++ P ++ buf.rows) [] (by
        intro n hn
        have h1 := hD n hn
        have h2 := hQs r (by rw [← hQ]; exact hr)
        omega) (by simp)
      simpa using this.symm
  | cons c rest ih =>
    intro old crd s buf Dtot S2 P hbg hbr hbd hrest hchain hold hS2 hP hT hD hcrd a0 ha0
    have hbg' := hbg
    simp only [Chunk.good, Bool.and_eq_true] at hbg'
    obtain ⟨-, bse, -, -, -⟩ := (Chunk.wf_iff buf).1 hbg'.1
    obtain ⟨inp, buf', hsp⟩ := split_good_early_ok hbg buf.stop
    obtain ⟨i1, i2, i3, b1, b2, b3, i4, b4⟩ := split_at_stop bse hsp
    obtain ⟨_, -, -, -, -, -, -, -, -, -, -, i5, b5, -, -, -, hig, hb'g⟩ := split_good' hbg hsp
    have hold' : (old = none ∧ S2 = [] ∧ P = [] ∧ s ≤ inp.start) ∨
      (∃ o, old = some o ∧ o.good = true ∧ o.dataType = inp.dataType ∧ o.runId = some rid ∧ o.stop = inp.start ∧
        o.rows = S2 ++ P ∧ o.start ≤ s ∧ s ≤ o.stop) := by
      rw [i1, i4, hbd]; exact hold
    obtain ⟨outD, crD, ci, s', Qo, Qc, D2, S2', hstep, hko, hout, hcn, hcs, hcr, hQ, hQof, hQs, hcig, hcid, hcir, hcie,
      hci1, hci2, hss, hK1, hK2, hD2, hS2', hQc⟩ :=
      doCompute_multi_good hne hnd hG hwl hwr (kind := kind) hig (by rw [i5, hbr]) hold' hS2 hP hcrd
    rw [i3] at hQ hout hcr
    obtain ⟨hcg, hcr', hcd⟩ := hrest c (by simp)
    obtain ⟨hch1, hch2⟩ := hchain
    obtain ⟨rid', hr', hcat, hb2g⟩ := concat_good2 hb'g hcg (by rw [b2, hch1]) (by rw [b4, hbd, hcd]) (by rw [b5, hbr, hcr'])
    rw [b5, hbr] at hr'
    simp only [Option.some.injEq] at hr'
    subst hr'
    have hT' : T = (Dtot ++ D2) ++ (S2' ++ Qc ++ (buf'.rows ++ c.rows)) ++ allRows rest := by
      rw [hT, allRows_cons, b3]
      have e1 : S2 ++ P ++ buf.rows = S2 ++ (Qo ++ Qc) := by rw [List.append_assoc, hQ]
      rw [e1, ← List.append_assoc S2 Qo Qc, hK1]
      simp only [List.append_assoc, List.nil_append]
    obtain ⟨outs2, st2, hrec, hlen, hper⟩ := ih (some ci) crD s'
      ⟨buf'.dataType, buf'.kind, some rid, buf'.start, c.stop, buf'.rows ++ c.rows, none,
        [⟨rid, buf'.start, c.stop⟩], max buf'.target c.target⟩ (Dtot ++ D2) S2' Qc
      hb2g rfl (by simp only; rw [b4, hbd])
      (fun c' hc' => hrest c' (by simp [hc'])) hch2
      (Or.inr ⟨ci, rfl, hcig, by rw [hcid, i4, hbd], hcir, by rw [hcie, i2, b1], hK2, hci1, hci2⟩)
      hS2' hQc hT'
      (by
        intro n hn
        rcases List.mem_append.1 hn with h | h
        · have := hD n h; omega
        · exact hD2 n h)
      ⟨hcn, hcs⟩ s' (Or.inr ⟨by simp, rfl⟩)
    refine ⟨outD :: outs2, st2, ?_, by simp [hlen], ?_⟩
    · unfold iterLoop
      simp only [hsp, hstep, hcat]
      have hrec' : iterLoop (specN fs (wl, wr) rid) kind ⟨[(kind, ci)], crD, s'⟩ _ rest = .ok (outs2, st2) := hrec
      rw [hrec']
    · intro k hk
      obtain ⟨co, hco, hcor, hcoa, hcoe, hcole⟩ := hout k hk
      obtain ⟨cs2, crf, hcs2, hcrf, hrows, htiles⟩ := hper k hk
      refine ⟨co :: cs2, crf, by simp [hco, hcs2], hcrf, ?_, ?_⟩
      rotate_left
      · simp only [List.cons_append, Tiles, lastStop]
        refine ⟨hcoa a0 (by rw [i1]; exact ha0), hcole, ?_⟩
        rw [hcoe, lastStop_congr c _ rest (by rfl : c.stop = (⟨buf'.dataType, buf'.kind, some rid, buf'.start, c.stop,
          buf'.rows ++ c.rows, none, [⟨rid, buf'.start, c.stop⟩], max buf'.target c.target⟩ : Chunk).stop)]
        exact htiles
      rw [allRows_cons, List.append_assoc, hrows, b3, allRows_cons]
      simp only [List.nil_append]
      have hout' : co.rows = ctxMap wl wr (G k) T Qo := by
        rw [hcor]
        apply ctxMap_congr
        intro r hr
        rw [hT]
        have hlater := chain_rows_later (e := buf.stop) (rest := c :: rest) ⟨hch1, hch2⟩ (fun c' hc' => (hrest c' hc').1)
        exact (filter_near_ctx wl wr r Dtot (S2 ++ P ++ buf.rows) (allRows (c :: rest)) (by
          intro n hn
          have h1 := hD n hn
          have h2 := hQs r (by simp [hr])
          omega) (by
          intro n hn
          have h1 := hlater n hn
          have h2 := hQof r hr
          rw [i2] at h2
          omega)).symm
      rw [hout', ← ctxMap_append, ← List.append_assoc Qo, ← List.append_assoc Qo, ← hQ]
      simp only [List.append_assoc]

/-- all chunks a multi-output plugin yields under the name `k`, in order (final flush included) -/
def outputOf (k : String) (ds : List (Dict Chunk)) : List Chunk := ds.filterMap (fun d => dictGet d k)

/-- **Multi-output plugins, all outputs per-row window-local**: on a law-abiding chunking of a run of
disjoint rows the plugin does not fail (the first trial of `cache_beyond` succeeds, because every
output carries the intervals of the input), it yields one dict per input chunk plus the final
flush, and the chunks yielded under each name, concatenated, are that output's computation over
the whole run. -/
theorem runOverlapMulti_whole {fs : List (String × String × (List Row → List Row))} {G : String → Row → List Row → Row}
    {wl wr : Int} (hne : fs ≠ []) (hnd : (fs.map (·.1)).Nodup)
    (hG : ∀ p ∈ fs, Keeps (G p.1) ∧ ∀ rows, PositiveRows rows → p.2.2 rows = perRow wl wr (G p.1) rows)
    (hwl : 0 ≤ wl) (hwr : 0 ≤ wr) {cs : List Chunk} (hs : Stream cs) :
    ∃ ds, runOverlapMulti fs (wl, wr) cs = .ok ds ∧ ds.length = cs.length + 1 ∧
      ∀ p ∈ fs, (outputOf p.1 ds).length = ds.length ∧ allRows (outputOf p.1 ds) = p.2.2 (allRows cs) ∧
        ∃ c0 cl, cs.head? = some c0 ∧ cs.getLast? = some cl ∧ Tiles c0.start cl.stop (outputOf p.1 ds) := by
  obtain ⟨c, rest, rid, rfl, hrid, hall, hchain, h0⟩ := stream_parts hs
  obtain ⟨hcg, -, -⟩ := hall c (by simp)
  obtain ⟨outs, st', hloop, hlen, hper⟩ :=
    iterLoop_multi_whole hne hnd hG hwl hwr rid c.kind c.dataType (allRows (c :: rest)) rest none [] 0 c [] [] []
      hcg hrid rfl (fun c' hc' => hall c' (by simp [hc'])) hchain (Or.inl ⟨rfl, rfl, rfl, h0⟩)
      (by simp) (by simp) (by simp [allRows_cons]) (by simp) ⟨by simp [keys], by simp [keys]⟩ c.start (Or.inl ⟨rfl, rfl⟩)
  refine ⟨outs ++ [st'.cachedResults], ?_, by simp [hlen], ?_⟩
  · unfold runOverlapMulti
    simp only [hrid, runDicts]
    have hloop' : iterLoop (specN fs (wl, wr) rid) c.kind State.init c rest = .ok (outs, st') := hloop
    rw [hloop']
  · intro p hp
    obtain ⟨ocs, cr, h1, h2, hrows, htiles⟩ := hper p.1 (List.mem_map.2 ⟨p, hp, rfl⟩)
    have hfm : outputOf p.1 (outs ++ [st'.cachedResults]) = ocs ++ [cr] := by
      simp only [outputOf, List.filterMap_append, List.filterMap_cons, h2, List.filterMap_nil]
      congr 1
      have : outs.filterMap (fun d => dictGet d p.1) = (outs.map (fun d => dictGet d p.1)).filterMap id := by
        rw [List.filterMap_map]; rfl
      rw [this, h1]
      simp [List.filterMap_map]
    have hl : ocs.length = outs.length := by
      have := congrArg List.length h1
      simpa using this.symm
    have hposT : PositiveRows (allRows (c :: rest)) := by
      intro r hr
      simp only [allRows, List.mem_flatMap] at hr
      obtain ⟨c', hc', hr'⟩ := hr
      have hg' := (hall c' hc').1
      simp only [Chunk.good, Bool.and_eq_true] at hg'
      exact ((Chunk.wf_iff c').1 hg'.1).2.2.2.1 r hr'
    obtain ⟨cl, hcl⟩ : ∃ cl, (c :: rest).getLast? = some cl := by
      cases hl' : (c :: rest).getLast? with
      | none => simp at hl'
      | some cl => exact ⟨cl, rfl⟩
    refine ⟨by rw [hfm]; simp [hl], ?_, c, cl, rfl, hcl, ?_⟩
    · rw [hfm]
      have : allRows (ocs ++ [cr]) = allRows ocs ++ cr.rows := by simp [allRows]
      rw [this, hrows, (hG p hp).2 _ hposT, perRow_eq_ctxMap, allRows_cons]
      simp
    · rw [hfm, ← lastStop_spec c rest cl hcl]; exact htiles

/-- kernels for all outputs at once, indexed by the output's name -/
theorem kernels_by_name {fs : List (String × String × (List Row → List Row))} {wl wr : Int}
    (hnd : (fs.map (·.1)).Nodup)
    (h : ∀ p ∈ fs, ∃ g : Row → List Row → Row, Keeps g ∧ ∀ rows, PositiveRows rows → p.2.2 rows = perRow wl wr g rows) :
    ∃ G : String → Row → List Row → Row,
      ∀ p ∈ fs, Keeps (G p.1) ∧ ∀ rows, PositiveRows rows → p.2.2 rows = perRow wl wr (G p.1) rows := by
  induction fs with
  | nil => exact ⟨fun _ r _ => r, by simp⟩
  | cons p fs ih =>
    simp only [List.map_cons, List.nodup_cons] at hnd
    obtain ⟨G', hG'⟩ := ih hnd.2 (fun q hq => h q (by simp [hq]))
    obtain ⟨g, hg⟩ := h p (by simp)
    refine ⟨fun k => if k = p.1 then g else G' k, ?_⟩
    intro q hq
    rcases List.mem_cons.1 hq with rfl | hq'
    · simp only [if_true]; exact hg
    · have hne : ¬ q.1 = p.1 := by
        intro e
        exact hnd.1 (e ▸ List.mem_map.2 ⟨q, hq', rfl⟩)
      simp only [hne, if_false]
      exact hG' q hq'

/-! ## translation of a run in time -/

def shiftRow (d : Int) (r : Row) : Row := { r with time := r.time + d, endt := r.endt + d }

def shiftChunk (d : Int) (c : Chunk) : Chunk :=
  { c with start := c.start + d, stop := c.stop + d, rows := c.rows.map (shiftRow d),
           superrun := c.superrun.map fun r => { r with start := r.start + d, stop := r.stop + d } }

theorem disjointB_shift (d : Int) : ∀ l : List Row, disjointB (l.map (shiftRow d)) = disjointB l
  | [] => rfl
  | [_] => rfl
  | a :: b :: l => by
    have ih := disjointB_shift d (b :: l)
    simp only [List.map_cons] at ih ⊢
    rw [disjointB_cons_cons, disjointB_cons_cons, ih]
    congr 1
    apply decide_eq_decide.2
    simp only [shiftRow]
    omega

theorem adjacentB_shift (d : Int) : ∀ l : List Chunk, adjacentB (l.map (shiftChunk d)) = adjacentB l
  | [] => rfl
  | [_] => rfl
  | a :: b :: l => by
    have ih := adjacentB_shift d (b :: l)
    simp only [List.map_cons] at ih ⊢
    simp only [adjacentB, ih]
    congr 1
    apply decide_eq_decide.2
    simp only [shiftChunk]
    omega

/-- a law-abiding chunking stays one when the whole run is moved to a later time -/
theorem stream_shift {cs : List Chunk} {d : Int} (hd : 0 ≤ d) (hs : Stream cs) : Stream (cs.map (shiftChunk d)) := by
  unfold Stream streamB at hs ⊢
  cases cs with
  | nil => simp at hs
  | cons c rest =>
    simp only [List.map_cons] at ⊢
    simp only at hs
    cases hrid : c.runId with
    | none => simp [hrid] at hs
    | some rid =>
      simp only [hrid] at hs
      have hr' : (shiftChunk d c).runId = some rid := hrid
      simp only [hr']
      simp only [Bool.and_eq_true, List.all_eq_true] at hs
      obtain ⟨⟨hall, hadj⟩, hdis⟩ := hs
      simp only [Bool.and_eq_true, List.all_eq_true]
      refine ⟨⟨?_, ?_⟩, ?_⟩
      · intro x hx
        rw [← List.map_cons, List.mem_map] at hx
        obtain ⟨y, hy, rfl⟩ := hx
        have := hall y hy
        simp only [plainB, Bool.and_eq_true, beq_iff_eq, decide_eq_true_eq, List.all_eq_true,
          Option.isNone_iff_eq_none] at this ⊢
        obtain ⟨⟨⟨⟨⟨⟨⟨h1, h2⟩, h3⟩, h4⟩, h5⟩, h6⟩, h7⟩, h8⟩ := this
        refine ⟨⟨⟨⟨⟨⟨⟨h1, h2⟩, h3⟩, h4⟩, ?_⟩, ?_⟩, ?_⟩, ?_⟩
        · simp only [shiftChunk, h5, List.map_cons, List.map_nil]
        · simp only [shiftChunk]; omega
        · simp only [shiftChunk]; omega
        · intro r hr
          simp only [shiftChunk, List.mem_map] at hr
          obtain ⟨r0, hr0, rfl⟩ := hr
          have := h8 r0 hr0
          simp only [shiftChunk, shiftRow]
          omega
      · rw [← List.map_cons, adjacentB_shift]; exact hadj
      · have : ((shiftChunk d c :: rest.map (shiftChunk d)).flatMap (·.rows)) =
            ((c :: rest).flatMap (·.rows)).map (shiftRow d) := by
          rw [← List.map_cons, List.flatMap_map, List.map_flatMap]
          rfl
        rw [this, disjointB_shift]; exact hdis

theorem allRows_shift (d : Int) (cs : List Chunk) : allRows (cs.map (shiftChunk d)) = (allRows cs).map (shiftRow d) := by
  simp only [allRows, List.flatMap_map, List.map_flatMap]
  rfl

end Strax.Overlap
