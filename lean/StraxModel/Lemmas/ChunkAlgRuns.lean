import StraxModel.Lemmas.ChunkAlgChunk
/-
  Helper lemmas for property C07, part 4: chunks WITH sub-run annotations (superrun chunks).
  Shape covered (`Chunk.annotated`): well-formed rows, `run_id = some rid`, default super-run entry
  `superrun = [(rid, start, stop)]`, `subruns = some subs` with `subs` non-empty and *tiled*
  (pairwise `a.stop ≤ b.start` in list order, distinct ids, every span non-empty) and
  `promisedContinuity = true` (for a real superrun chunk, `rid` starting with "_": first sub-run
  starts at `start` and last one stops at `stop`; for any other run id this holds trivially).
-/
namespace Strax

/-- spans in order, non-overlapping, non-empty, distinct ids -/
def Tiled (rs : Runs) : Prop :=
  rs.Pairwise (fun a b => a.stop ≤ b.start) ∧ (rs.map (·.id)).Nodup ∧ ∀ r ∈ rs, r.start < r.stop

def tiledB : Runs → Bool
  | [] => true
  | r :: rest => rest.all (fun b => decide (r.stop ≤ b.start) && (b.id != r.id)) && decide (r.start < r.stop)
      && tiledB rest

theorem tiledB_iff (rs : Runs) : tiledB rs = true ↔ Tiled rs := by
  induction rs with
  | nil => simp [tiledB, Tiled]
  | cons r rest ih =>
    simp only [tiledB, Bool.and_eq_true, List.all_eq_true, decide_eq_true_eq, ih, Tiled, List.pairwise_cons,
      List.map_cons, List.nodup_cons, List.mem_map, List.mem_cons, forall_eq_or_imp, bne_iff_ne, ne_eq]
    constructor
    · rintro ⟨⟨h1, h2⟩, h3, h4, h5⟩
      exact ⟨⟨fun b hb => (h1 b hb).1, h3⟩, ⟨by rintro ⟨b, hb, e⟩; exact (h1 b hb).2 e, h4⟩, h2, h5⟩
    · rintro ⟨⟨h1, h3⟩, ⟨hn, h4⟩, h2, h5⟩
      exact ⟨⟨fun b hb => ⟨h1 b hb, fun e => hn ⟨b, hb, e⟩⟩, h2⟩, h3, h4, h5⟩

instance (rs : Runs) : Decidable (Tiled rs) := decidable_of_iff _ (tiledB_iff rs)

theorem Tiled.sorted {rs : Runs} (h : Tiled rs) : rs.Pairwise (fun a b => a.start ≤ b.start) := by
  obtain ⟨hp, -, hpos⟩ := h
  induction rs with
  | nil => simp
  | cons r rest ih =>
    have hp' := List.pairwise_cons.1 hp
    refine List.pairwise_cons.2 ⟨?_, ih hp'.2 (fun x hx => hpos x (by simp [hx]))⟩
    intro b hb
    have := hp'.1 b hb
    have := hpos r (by simp)
    omega

theorem sortRuns_tiled {rs : Runs} (h : Tiled rs) : sortRuns rs = rs := by
  unfold sortRuns
  apply List.mergeSort_of_pairwise
  exact h.sorted.imp (by intro a b hab; simpa using hab)

theorem runsOverlap_tiled {rs : Runs} (h : Tiled rs) : runsOverlap rs = false := by
  obtain ⟨hp, -, -⟩ := h
  induction rs with
  | nil => rfl
  | cons a rest ih =>
    cases rest with
    | nil => rfl
    | cons b rest' =>
      have hp' := List.pairwise_cons.1 hp
      have := hp'.1 b (by simp)
      simp only [runsOverlap, Bool.or_eq_false_iff, decide_eq_false_iff_not]
      exact ⟨by omega, ih hp'.2⟩

theorem splitRunsList_bounds (t : Int) (rs : Runs) (hpos : ∀ r ∈ rs, r.start < r.stop) :
    (∀ x ∈ (splitRunsList t rs).1, x.start < x.stop ∧ ∃ y ∈ rs, x.start = y.start ∧ x.stop ≤ y.stop) ∧
    (∀ x ∈ (splitRunsList t rs).2, x.start < x.stop ∧ ∃ y ∈ rs, y.start ≤ x.start ∧ x.stop = y.stop) := by
  induction rs with
  | nil => simp [splitRunsList]
  | cons r rest ih =>
    have ih' := ih (fun x hx => hpos x (by simp [hx]))
    have hr := hpos r (by simp)
    rw [splitRunsList_cons]
    have lift1 : ∀ x : Run, (∃ y ∈ rest, x.start = y.start ∧ x.stop ≤ y.stop) →
        ∃ y ∈ r :: rest, x.start = y.start ∧ x.stop ≤ y.stop := by
      rintro x ⟨y, hy, e⟩; exact ⟨y, by simp [hy], e⟩
    have lift2 : ∀ x : Run, (∃ y ∈ rest, y.start ≤ x.start ∧ x.stop = y.stop) →
        ∃ y ∈ r :: rest, y.start ≤ x.start ∧ x.stop = y.stop := by
      rintro x ⟨y, hy, e⟩; exact ⟨y, by simp [hy], e⟩
    split
    · refine ⟨fun x hx => ⟨(ih'.1 x hx).1, lift1 x (ih'.1 x hx).2⟩, ?_⟩
      intro x hx
      simp only [List.mem_cons] at hx
      rcases hx with rfl | hx
      · exact ⟨hr, x, by simp, by omega, rfl⟩
      · exact ⟨(ih'.2 x hx).1, lift2 x (ih'.2 x hx).2⟩
    · split
      · constructor
        · intro x hx
          simp only [List.mem_cons] at hx
          rcases hx with rfl | hx
          · exact ⟨by simp only; omega, r, by simp, rfl, by simp only; omega⟩
          · exact ⟨(ih'.1 x hx).1, lift1 x (ih'.1 x hx).2⟩
        · intro x hx
          simp only [List.mem_cons] at hx
          rcases hx with rfl | hx
          · exact ⟨by simp only; omega, r, by simp, by simp only; omega, rfl⟩
          · exact ⟨(ih'.2 x hx).1, lift2 x (ih'.2 x hx).2⟩
      · refine ⟨?_, fun x hx => ⟨(ih'.2 x hx).1, lift2 x (ih'.2 x hx).2⟩⟩
        intro x hx
        simp only [List.mem_cons] at hx
        rcases hx with rfl | hx
        · exact ⟨hr, x, by simp, rfl, by omega⟩
        · exact ⟨(ih'.1 x hx).1, lift1 x (ih'.1 x hx).2⟩

theorem splitRunsList_ids_sublist (t : Int) (rs : Runs) :
    ((splitRunsList t rs).1.map (·.id)).Sublist (rs.map (·.id)) ∧
    ((splitRunsList t rs).2.map (·.id)).Sublist (rs.map (·.id)) := by
  induction rs with
  | nil => simp [splitRunsList]
  | cons r rest ih =>
    rw [splitRunsList_cons]
    split
    · exact ⟨ih.1.cons _, by simpa using ih.2.cons₂ r.id⟩
    · split
      · exact ⟨by simpa using ih.1.cons₂ r.id, by simpa using ih.2.cons₂ r.id⟩
      · exact ⟨by simpa using ih.1.cons₂ r.id, ih.2.cons _⟩

/-- both sides of a split of tiled spans are tiled -/
theorem tiled_split (t : Int) {rs : Runs} (h : Tiled rs) :
    Tiled (splitRunsList t rs).1 ∧ Tiled (splitRunsList t rs).2 := by
  obtain ⟨hp, hnd, hpos⟩ := h
  have hb := splitRunsList_bounds t rs hpos
  have hs := splitRunsList_ids_sublist t rs
  refine ⟨⟨?_, hnd.sublist hs.1, fun x hx => (hb.1 x hx).1⟩, ⟨?_, hnd.sublist hs.2, fun x hx => (hb.2 x hx).1⟩⟩
  · clear hb hs hnd
    induction rs with
    | nil => simp [splitRunsList]
    | cons r rest ih =>
      have hp' := List.pairwise_cons.1 hp
      have hpos' : ∀ x ∈ rest, x.start < x.stop := fun x hx => hpos x (by simp [hx])
      have ih' := ih hp'.2 hpos'
      have hb := (splitRunsList_bounds t rest hpos').1
      rw [splitRunsList_cons]
      split
      · exact ih'
      · split
        · refine List.pairwise_cons.2 ⟨?_, ih'⟩
          intro x hx
          obtain ⟨-, y, hy, e1, -⟩ := hb x hx
          have := hp'.1 y hy
          simp only; omega
        · refine List.pairwise_cons.2 ⟨?_, ih'⟩
          intro x hx
          obtain ⟨-, y, hy, e1, -⟩ := hb x hx
          have := hp'.1 y hy
          omega
  · clear hb hs hnd
    induction rs with
    | nil => simp [splitRunsList]
    | cons r rest ih =>
      have hp' := List.pairwise_cons.1 hp
      have hpos' : ∀ x ∈ rest, x.start < x.stop := fun x hx => hpos x (by simp [hx])
      have ih' := ih hp'.2 hpos'
      have hb := (splitRunsList_bounds t rest hpos').2
      rw [splitRunsList_cons]
      split
      · refine List.pairwise_cons.2 ⟨?_, ih'⟩
        intro x hx
        obtain ⟨-, y, hy, e1, -⟩ := hb x hx
        have := hp'.1 y hy
        omega
      · split
        · refine List.pairwise_cons.2 ⟨?_, ih'⟩
          intro x hx
          obtain ⟨-, y, hy, e1, -⟩ := hb x hx
          have := hp'.1 y hy
          simp only; omega
        · exact ih'

theorem popEmpty_tiled {l : Runs} (h : Tiled l) : ∀ x, popEmpty l = some x → Tiled x := by
  intro x hx
  rw [popEmpty_of_pos l h.2.2] at hx
  split at hx
  · simp at hx
  · simp at hx; subst hx; exact h

/-- success of the constructor with tiled (or no) sub-runs and the default super-run entry -/
theorem mkChunk_ann {dt k rid : String} {s e : Int} {rows : List Row} {tg : Nat} {sub sup : Option Runs}
    (h0 : 0 ≤ s) (h1 : s ≤ e) (hin : ∀ x ∈ rows, s ≤ x.time ∧ x.endt ≤ e)
    (hsub : ∀ x, sub = some x → Tiled x)
    (hsup : sup = none ∨ sup = some [⟨rid, s, e⟩]) :
    mkChunk dt k (some rid) s e rows sub sup tg = .ok ⟨dt, k, some rid, s, e, rows, sub, [⟨rid, s, e⟩], tg⟩ := by
  have key : ∀ subruns : Option Runs, mkStage2 dt k (some rid) s e rows tg sup subruns
      = .ok ⟨dt, k, some rid, s, e, rows, subruns, [⟨rid, s, e⟩], tg⟩ := by
    intro subruns
    have h3 : mkStage3 dt k (some rid) s e rows tg sup subruns
        = .ok ⟨dt, k, some rid, s, e, rows, subruns, [⟨rid, s, e⟩], tg⟩ := by
      rcases hsup with rfl | rfl <;> simp [mkStage3, mkStage4, sortRuns_singleton, runsOverlap]
    simp only [mkStage2]
    have hs0 : ¬ s < 0 := by omega
    have hse : ¬ s > e := by omega
    simp only [hs0, hse, if_false]
    cases rows with
    | nil => exact h3
    | cons r0 tl =>
      have hr0 := hin r0 (by simp)
      have : ¬ r0.time < s := by omega
      simp only [this, if_false]
      have hle := lastEndMax_le (B := e) (fun x hx => (hin x hx).2)
      split
      · rename_i m hm
        have := hle m hm
        have : ¬ m > e := by omega
        simp only [this, if_false]
        exact h3
      · exact h3
  rw [mkChunk_eq]
  cases sub with
  | none => exact key none
  | some x =>
    have ht := hsub x rfl
    simp only [sortRuns_tiled ht, runsOverlap_tiled ht, Bool.false_eq_true, if_false]
    exact key (some x)

end Strax
