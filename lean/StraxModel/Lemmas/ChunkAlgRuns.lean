import StraxModel.Lemmas.ChunkAlgChunk
import StraxModel.Lemmas.RunOrder
/-
  Helper lemmas for property C07, part 4: chunks WITH sub-run annotations (superrun chunks).
  Shape covered (`Chunk.annotated`): well-formed rows, `run_id = some rid`, default super-run entry
  `superrun = [(rid, start, stop)]`, `subruns = some subs` with `subs` non-empty and *tiled*
  (pairwise `a.stop ≤ b.start` in list order, distinct ids, every span non-empty) and
  `promisedContinuity = true` (for a real superrun chunk, `rid` starting with "_": first sub-run
  starts at `start` and last one stops at `stop`; for any other run id this holds trivially).
-/
namespace Strax

/-- spans in order, non-overlapping, non-empty, distinct ids -/
def Tiled (rs : Runs) : Prop :=
  rs.Pairwise (fun a b => a.stop ≤ b.start) ∧ (rs.map (·.id)).Nodup ∧ ∀ r ∈ rs, r.start < r.stop

def tiledB : Runs → Bool
  | [] => true
  | r :: rest => rest.all (fun b => decide (r.stop ≤ b.start) && (b.id != r.id)) && decide (r.start < r.stop)
      && tiledB rest

theorem tiledB_iff (rs : Runs) : tiledB rs = true ↔ Tiled rs := by
  induction rs with
  | nil => simp [tiledB, Tiled]
  | cons r rest ih =>
    simp only [tiledB, Bool.and_eq_true, List.all_eq_true, decide_eq_true_eq, ih, Tiled, List.pairwise_cons,
      List.map_cons, List.nodup_cons, List.mem_map, List.mem_cons, forall_eq_or_imp, bne_iff_ne, ne_eq]
    constructor
    · rintro ⟨⟨h1, h2⟩, h3, h4, h5⟩
      exact ⟨⟨fun b hb => (h1 b hb).1, h3⟩, ⟨by rintro ⟨b, hb, e⟩; exact (h1 b hb).2 e, h4⟩, h2, h5⟩
    · rintro ⟨⟨h1, h3⟩, ⟨hn, h4⟩, h2, h5⟩
      exact ⟨⟨fun b hb => ⟨h1 b hb, fun e => hn ⟨b, hb, e⟩⟩, h2⟩, h3, h4, h5⟩

instance (rs : Runs) : Decidable (Tiled rs) := decidable_of_iff _ (tiledB_iff rs)

theorem Tiled.sorted {rs : Runs} (h : Tiled rs) : rs.Pairwise (fun a b => a.start ≤ b.start) := by
  obtain ⟨hp, -, hpos⟩ := h
  induction rs with
  | nil => simp
  | cons r rest ih =>
    have hp' := List.pairwise_cons.1 hp
    refine List.pairwise_cons.2 ⟨?_, ih hp'.2 (fun x hx => hpos x (by simp [hx]))⟩
    intro b hb
    have := hp'.1 b hb
    have := hpos r (by simp)
    omega

theorem sortRuns_tiled {rs : Runs} (h : Tiled rs) : sortRuns rs = rs :=
  sortRuns_of_sortedLex h.1 h.2.2

theorem runsOverlap_tiled {rs : Runs} (h : Tiled rs) : runsOverlap rs = false := by
  obtain ⟨hp, -, -⟩ := h
  induction rs with
  | nil => rfl
  | cons a rest ih =>
    cases rest with
    | nil => rfl
    | cons b rest' =>
      have hp' := List.pairwise_cons.1 hp
      have := hp'.1 b (by simp)
      simp only [runsOverlap, Bool.or_eq_false_iff, decide_eq_false_iff_not]
      exact ⟨by omega, ih hp'.2⟩

theorem splitRunsList_bounds (t : Int) (rs : Runs) (hpos : ∀ r ∈ rs, r.start < r.stop) :
    (∀ x ∈ (splitRunsList t rs).1, x.start < x.stop ∧ ∃ y ∈ rs, x.start = y.start ∧ x.stop ≤ y.stop) ∧
    (∀ x ∈ (splitRunsList t rs).2, x.start < x.stop ∧ ∃ y ∈ rs, y.start ≤ x.start ∧ x.stop = y.stop) := by
  induction rs with
  | nil => simp [splitRunsList]
  | cons r rest ih =>
    have ih' := ih (fun x hx => hpos x (by simp [hx]))
    have hr := hpos r (by simp)
    rw [splitRunsList_cons]
    have lift1 : ∀ x : Run, (∃ y ∈ rest, x.start = y.start ∧ x.stop ≤ y.stop) →
        ∃ y ∈ r :: rest, x.start = y.start ∧ x.stop ≤ y.stop := by
      rintro x ⟨y, hy, e⟩; exact ⟨y, by simp [hy], e⟩
    have lift2 : ∀ x : Run, (∃ y ∈ rest, y.start ≤ x.start ∧ x.stop = y.stop) →
        ∃ y ∈ r :: rest, y.start ≤ x.start ∧ x.stop = y.stop := by
      rintro x ⟨y, hy, e⟩; exact ⟨y, by simp [hy], e⟩
    split
    · refine ⟨fun x hx => ⟨(ih'.1 x hx).1, lift1 x (ih'.1 x hx).2⟩, ?_⟩
      intro x hx
      simp only [List.mem_cons] at hx
      rcases hx with rfl | hx
      · exact ⟨hr, x, by simp, by omega, rfl⟩
      · exact ⟨(ih'.2 x hx).1, lift2 x (ih'.2 x hx).2⟩
    · split
      · constructor
        · intro x hx
          simp only [List.mem_cons] at hx
          rcases hx with rfl | hx
          · exact ⟨by simp only; omega, r, by simp, rfl, by simp only; omega⟩
          · exact ⟨(ih'.1 x hx).1, lift1 x (ih'.1 x hx).2⟩
        · intro x hx
          simp only [List.mem_cons] at hx
          rcases hx with rfl | hx
          · exact ⟨by simp only; omega, r, by simp, by simp only; omega, rfl⟩
          · exact ⟨(ih'.2 x hx).1, lift2 x (ih'.2 x hx).2⟩
      · refine ⟨?_, fun x hx => ⟨(ih'.2 x hx).1, lift2 x (ih'.2 x hx).2⟩⟩
        intro x hx
        simp only [List.mem_cons] at hx
        rcases hx with rfl | hx
        · exact ⟨hr, x, by simp, rfl, by omega⟩
        · exact ⟨(ih'.1 x hx).1, lift1 x (ih'.1 x hx).2⟩

theorem splitRunsList_ids_sublist (t : Int) (rs : Runs) :
    ((splitRunsList t rs).1.map (·.id)).Sublist (rs.map (·.id)) ∧
    ((splitRunsList t rs).2.map (·.id)).Sublist (rs.map (·.id)) := by
  induction rs with
  | nil => simp [splitRunsList]
  | cons r rest ih =>
    rw [splitRunsList_cons]
    split
    · exact ⟨ih.1.cons _, by simpa using ih.2.cons_cons r.id⟩
    · split
      · exact ⟨by simpa using ih.1.cons_cons r.id, by simpa using ih.2.cons_cons r.id⟩
      · exact ⟨by simpa using ih.1.cons_cons r.id, ih.2.cons _⟩

/-- both sides of a split of tiled spans are tiled -/
theorem tiled_split (t : Int) {rs : Runs} (h : Tiled rs) :
    Tiled (splitRunsList t rs).1 ∧ Tiled (splitRunsList t rs).2 := by
  obtain ⟨hp, hnd, hpos⟩ := h
  have hb := splitRunsList_bounds t rs hpos
  have hs := splitRunsList_ids_sublist t rs
  refine ⟨⟨?_, hnd.sublist hs.1, fun x hx => (hb.1 x hx).1⟩, ⟨?_, hnd.sublist hs.2, fun x hx => (hb.2 x hx).1⟩⟩
  · clear hb hs hnd
    induction rs with
    | nil => simp [splitRunsList]
    | cons r rest ih =>
      have hp' := List.pairwise_cons.1 hp
      have hpos' : ∀ x ∈ rest, x.start < x.stop := fun x hx => hpos x (by simp [hx])
      have ih' := ih hp'.2 hpos'
      have hb := (splitRunsList_bounds t rest hpos').1
      rw [splitRunsList_cons]
      split
      · exact ih'
      · split
        · refine List.pairwise_cons.2 ⟨?_, ih'⟩
          intro x hx
          obtain ⟨-, y, hy, e1, -⟩ := hb x hx
          have := hp'.1 y hy
          simp only; omega
        · refine List.pairwise_cons.2 ⟨?_, ih'⟩
          intro x hx
          obtain ⟨-, y, hy, e1, -⟩ := hb x hx
          have := hp'.1 y hy
          omega
  · clear hb hs hnd
    induction rs with
    | nil => simp [splitRunsList]
    | cons r rest ih =>
      have hp' := List.pairwise_cons.1 hp
      have hpos' : ∀ x ∈ rest, x.start < x.stop := fun x hx => hpos x (by simp [hx])
      have ih' := ih hp'.2 hpos'
      have hb := (splitRunsList_bounds t rest hpos').2
      rw [splitRunsList_cons]
      split
      · refine List.pairwise_cons.2 ⟨?_, ih'⟩
        intro x hx
        obtain ⟨-, y, hy, e1, -⟩ := hb x hx
        have := hp'.1 y hy
        omega
      · split
        · refine List.pairwise_cons.2 ⟨?_, ih'⟩
          intro x hx
          obtain ⟨-, y, hy, e1, -⟩ := hb x hx
          have := hp'.1 y hy
          simp only; omega
        · exact ih'

theorem popEmpty_tiled {l : Runs} (h : Tiled l) : ∀ x, popEmpty l = some x → Tiled x := by
  intro x hx
  rw [popEmpty_of_pos l h.2.2] at hx
  split at hx
  · simp at hx
  · simp at hx; subst hx; exact h

/-- success of the constructor with tiled (or no) sub-runs and the default super-run entry -/
theorem mkChunk_ann {dt k rid : String} {s e : Int} {rows : List Row} {tg : Nat} {sub sup : Option Runs}
    (h0 : 0 ≤ s) (h1 : s ≤ e) (hin : ∀ x ∈ rows, s ≤ x.time ∧ x.endt ≤ e)
    (hsub : ∀ x, sub = some x → Tiled x)
    (hsup : sup = none ∨ sup = some [⟨rid, s, e⟩]) :
    mkChunk dt k (some rid) s e rows sub sup tg = .ok ⟨dt, k, some rid, s, e, rows, sub, [⟨rid, s, e⟩], tg⟩ := by
  have key : ∀ subruns : Option Runs, mkStage2 dt k (some rid) s e rows tg sup subruns
      = .ok ⟨dt, k, some rid, s, e, rows, subruns, [⟨rid, s, e⟩], tg⟩ := by
    intro subruns
    have h3 : mkStage3 dt k (some rid) s e rows tg sup subruns
        = .ok ⟨dt, k, some rid, s, e, rows, subruns, [⟨rid, s, e⟩], tg⟩ := by
      rcases hsup with rfl | rfl <;> simp [mkStage3, mkStage4, sortRuns_singleton, runsOverlap]
    simp only [mkStage2]
    have hs0 : ¬ s < 0 := by omega
    have hse : ¬ s > e := by omega
    simp only [hs0, hse, if_false]
    cases rows with
    | nil => exact h3
    | cons r0 tl =>
      have hr0 := hin r0 (by simp)
      have : ¬ r0.time < s := by omega
      simp only [this, if_false]
      have hle := lastEndMax_le (B := e) (fun x hx => (hin x hx).2)
      split
      · rename_i m hm
        have := hle m hm
        have : ¬ m > e := by omega
        simp only [this, if_false]
        exact h3
      · exact h3
  rw [mkChunk_eq]
  cases sub with
  | none => exact key none
  | some x =>
    have ht := hsub x rfl
    simp only [sortRuns_tiled ht, runsOverlap_tiled ht, Bool.false_eq_true, if_false]
    exact key (some x)

/-! ### split / concatenate of annotated chunks -/

/-- the annotation shape covered by the C07 theorems about superrun chunks -/
def Chunk.annotated (c : Chunk) : Bool :=
  c.wf &&
    (match c.runId, c.subruns with
     | some rid, some (s0 :: ss) =>
       (c.superrun == [⟨rid, c.start, c.stop⟩]) && tiledB (s0 :: ss) && c.promisedContinuity
     | _, _ => false)

theorem Chunk.annotated_iff (c : Chunk) : c.annotated = true ↔
    c.wf = true ∧ ∃ rid subs, c.runId = some rid ∧ c.subruns = some subs ∧ subs ≠ [] ∧
      c.superrun = [⟨rid, c.start, c.stop⟩] ∧ Tiled subs ∧ c.promisedContinuity = true := by
  unfold Chunk.annotated
  cases h1 : c.runId with
  | none => simp
  | some rid =>
    cases h2 : c.subruns with
    | none => simp
    | some subs =>
      cases subs with
      | nil => simp
      | cons s0 ss => simp [tiledB_iff, and_assoc]

/-- explicit result of `split` when the super-run entry is the default one and the split sub-run
annotations are tiled -/
theorem split_ann_ok {c : Chunk} {rid : String} {t : Int} {early : Bool} {d1 d2 : List Row} {t' : Int}
    (hbad : c.isSuperrunBad = false) (hsup : c.superrun = [⟨rid, c.start, c.stop⟩])
    (hs1 : ∀ x, (splitSub c t').1 = some x → Tiled x) (hs2 : ∀ x, (splitSub c t').2 = some x → Tiled x)
    (h0 : 0 ≤ c.start) (hst : c.start ≤ t') (hts : t' ≤ c.stop)
    (hin1 : ∀ x ∈ d1, c.start ≤ x.time ∧ x.endt ≤ t') (hin2 : ∀ x ∈ d2, t' ≤ x.time ∧ x.endt ≤ c.stop)
    (hv : splitData c t early = .ok (d1, d2, t')) :
    c.split t early = .ok
      (⟨c.dataType, c.kind, some rid, c.start, t', d1, (splitSub c t').1, [⟨rid, c.start, t'⟩], c.target⟩,
       ⟨c.dataType, c.kind, some rid, t', c.stop, d2, (splitSub c t').2, [⟨rid, t', c.stop⟩], c.target⟩) := by
  have hsr := splitRuns_single rid c.start c.stop t' hst hts
  have hm1 : max c.start t' = t' := by omega
  have hm2 : max t' c.stop = c.stop := by omega
  have hr1 : splitRun1 c t' = some rid := by
    unfold splitRun1; rw [hsup, runSingle_of hsr.1]; rfl
  have hr2 : splitRun2 c t' = some rid := by
    unfold splitRun2; rw [hsup, runSingle_of hsr.2]; rfl
  rw [Chunk.split_of_not_bad hbad, Chunk.splitCore_eq, hv]
  simp only [bind, Except.bind, hr1, hr2, hm1, hm2, hsup]
  rw [mkChunk_ann h0 hst hin1 hs1 hsr.1]
  simp only
  rw [mkChunk_ann (by omega) hts hin2 hs2 hsr.2]
  rfl

theorem chunk_eta_ann (c : Chunk) (rid : String) (subs : Runs) (hsub : c.subruns = some subs)
    (hrid : c.runId = some rid) (hsup : c.superrun = [⟨rid, c.start, c.stop⟩]) :
    (⟨c.dataType, c.kind, some rid, c.start, c.stop, c.rows, some subs, [⟨rid, c.start, c.stop⟩], c.target⟩ : Chunk) = c := by
  cases c
  simp_all

/-- `split` of an annotated chunk, if it succeeds, gives two well-formed adjacent chunks whose
sub-run annotations are the two sides of `_split_runs_in_chunk` -/
theorem split_annotated {c : Chunk} {t : Int} {early : Bool} {c1 c2 : Chunk}
    (ha : c.annotated = true) (h : c.split t early = .ok (c1, c2)) :
    ∃ rid subs t', c.runId = some rid ∧ c.subruns = some subs ∧ c.start ≤ t' ∧ t' ≤ c.stop ∧
      c1 = ⟨c.dataType, c.kind, some rid, c.start, t', c1.rows, (splitRuns (some subs) t').1,
        [⟨rid, c.start, t'⟩], c.target⟩ ∧
      c2 = ⟨c.dataType, c.kind, some rid, t', c.stop, c2.rows, (splitRuns (some subs) t').2,
        [⟨rid, t', c.stop⟩], c.target⟩ ∧
      c1.rows ++ c2.rows = c.rows ∧ c1.wf = true ∧ c2.wf = true := by
  obtain ⟨hwf, rid, subs, hrid, hsub, hne, hsup, htl, hpc⟩ := (Chunk.annotated_iff c).1 ha
  obtain ⟨h0, hse, hs, hpos, hin⟩ := (Chunk.wf_iff c).1 hwf
  obtain ⟨d1, d2, t', hv, -, -⟩ := Chunk.split_ok_inv h
  obtain ⟨hcat, hst, hts, hl, hr⟩ := splitData_wf hwf hv
  have hin1 : ∀ x ∈ d1, c.start ≤ x.time ∧ x.endt ≤ t' :=
    fun x hx => ⟨(hin x (by rw [← hcat]; simp [hx])).1, hl x hx⟩
  have hin2 : ∀ x ∈ d2, t' ≤ x.time ∧ x.endt ≤ c.stop :=
    fun x hx => ⟨hr x hx, (hin x (by rw [← hcat]; simp [hx])).2⟩
  have hss : splitSub c t' = splitRuns (some subs) t' := by
    unfold splitSub; rw [hpc, hsub]; rfl
  have htsp := tiled_split t' htl
  have hs1 : ∀ x, (splitSub c t').1 = some x → Tiled x := by
    rw [hss]; exact popEmpty_tiled htsp.1
  have hs2 : ∀ x, (splitSub c t').2 = some x → Tiled x := by
    rw [hss]; exact popEmpty_tiled htsp.2
  have hres := split_ann_ok (Chunk.not_bad_of_runId hrid) hsup hs1 hs2 h0 hst hts hin1 hin2 hv
  rw [h, hss] at hres
  simp only [Except.ok.injEq, Prod.mk.injEq] at hres
  obtain ⟨rfl, rfl⟩ := hres
  rw [← hcat] at hs hpos
  refine ⟨rid, subs, t', hrid, hsub, hst, hts, rfl, rfl, hcat, ?_, ?_⟩
  · exact (Chunk.wf_iff _).2 ⟨h0, hst, hs.append_left, hpos.of_append.1, hin1⟩
  · exact (Chunk.wf_iff _).2 ⟨(show (0:Int) ≤ t' by omega), hts, hs.append_right, hpos.of_append.2, hin2⟩

/-- split then concatenate restores an annotated chunk, including `subruns` and `superrun` -/
theorem concat_inverse_ann {c : Chunk} {t : Int} {early : Bool} {c1 c2 : Chunk}
    (ha : c.annotated = true) (h : c.split t early = .ok (c1, c2)) :
    concatenate [c1, c2] false = .ok c := by
  obtain ⟨hwf, rid', subs', hrid', hsub', hne, hsup, htl, hpc⟩ := (Chunk.annotated_iff c).1 ha
  obtain ⟨rid, subs, t', hrid, hsub, hst, hts, hc1, hc2, hcat, hw1, hw2⟩ := split_annotated ha h
  have e1 : rid' = rid := by rw [hrid] at hrid'; simpa using hrid'.symm
  have e2 : subs' = subs := by rw [hsub] at hsub'; simpa using hsub'.symm
  subst e1 e2
  obtain ⟨h0, hse, -, -, hin⟩ := (Chunk.wf_iff c).1 hwf
  rw [concatenate_eq]
  have f1 : c1.dataType = c.dataType := by rw [hc1]
  have f2 : c2.dataType = c.dataType := by rw [hc2]
  have f3 : c1.runId = some rid' := by rw [hc1]
  have f4 : c2.runId = some rid' := by rw [hc2]
  have f5 : c1.subruns = (splitRuns (some subs') t').1 := by rw [hc1]
  have f6 : c2.subruns = (splitRuns (some subs') t').2 := by rw [hc2]
  have f7 : c1.start = c.start := by rw [hc1]
  have f8 : c1.stop = t' := by rw [hc1]
  have f9 : c2.start = t' := by rw [hc2]
  have f10 : c2.stop = c.stop := by rw [hc2]
  have f11 : c1.kind = c.kind := by rw [hc1]
  have f12 : c1.target = c.target := by rw [hc1]
  have f13 : c2.target = c.target := by rw [hc2]
  have h1 : allEq (List.map (fun x => x.dataType) [c1, c2]) = true := by simp [allEq, f1, f2]
  have h2 : allEq (List.map (fun x => x.runId) [c1, c2]) = true := by simp [allEq, f3, f4]
  have h3 : concatRun [c1, c2] c1 = .ok (some rid', none) := by
    simp only [concatRun]; rw [h2]; simp [f3, pure, Except.pure]
  have hm := split_merge_runs' t' subs' htl.sorted htl.2.1 htl.2.2
  have h4 : concatSub [c1, c2] = .ok (some subs') := by
    have : mergeSubruns [c1, c2] false = .ok (some subs') := by
      simp only [mergeSubruns, List.map_cons, List.map_nil, f5, f6, hm, bind, Except.bind, pure, Except.pure]
      cases subs' with
      | nil => exact absurd rfl hne
      | cons a l => rfl
    simp only [concatSub, this, pure, Except.pure]
  have h5 : outOfOrder 0 [c1, c2] = false := by
    simp [outOfOrder, f7, f8, f9]; omega
  simp only [h1, h2, h3, h4, h5, bind, Except.bind]
  simp only [Bool.not_true, Bool.false_eq_true, if_false, Bool.false_and, List.getLast?_cons_cons,
    List.getLast?_singleton, Option.getD_some, List.flatMap_cons, List.flatMap_nil, List.append_nil,
    List.map_cons, List.map_nil, List.foldl_cons, List.foldl_nil]
  rw [f1, f11, f7, f10, hcat, f12, f13]
  have hin' : ∀ x ∈ c.rows, c.start ≤ x.time ∧ x.endt ≤ c.stop := hin
  have := mkChunk_ann (dt := c.dataType) (k := c.kind) (rid := rid') (tg := max (max 0 c.target) c.target)
    (sub := some subs') (sup := none) h0 hse hin' (by intro x hx; simp at hx; subst hx; exact htl) (Or.inl rfl)
  rw [this]
  have e : max (max 0 c.target) c.target = c.target := by omega
  rw [e, chunk_eta_ann c rid' subs' hsub hrid hsup]

/-- a strict split of an annotated chunk at a time no row straddles succeeds -/
theorem split_ann_total {c : Chunk} {t : Int} (ha : c.annotated = true)
    (hno : ¬ ∃ r ∈ c.rows, r.straddles t) : ∃ c1 c2, c.split t false = .ok (c1, c2) := by
  obtain ⟨hwf, rid, subs, hrid, hsub, hne, hsup, htl, hpc⟩ := (Chunk.annotated_iff c).1 ha
  obtain ⟨h0, hse, hs, hpos, hin⟩ := (Chunk.wf_iff c).1 hwf
  have hnn : ∀ r ∈ c.rows, 0 ≤ r.time := by intro r hr; have := hin r hr; omega
  cases hv : splitData c t false with
  | error e =>
    obtain ⟨-, -, hsa⟩ := splitData_error hv
    have := splitArray_strict_error hsa
    subst this
    exact absurd (straddler_of_splitArray_refuses hnn hsa) hno
  | ok v =>
    obtain ⟨d1, d2, t'⟩ := v
    obtain ⟨hcat, hst, hts, hl, hr⟩ := splitData_wf hwf hv
    have hin1 : ∀ x ∈ d1, c.start ≤ x.time ∧ x.endt ≤ t' :=
      fun x hx => ⟨(hin x (by rw [← hcat]; simp [hx])).1, hl x hx⟩
    have hin2 : ∀ x ∈ d2, t' ≤ x.time ∧ x.endt ≤ c.stop :=
      fun x hx => ⟨hr x hx, (hin x (by rw [← hcat]; simp [hx])).2⟩
    have hss : splitSub c t' = splitRuns (some subs) t' := by
      unfold splitSub; rw [hpc, hsub]; rfl
    have htsp := tiled_split t' htl
    have hs1 : ∀ x, (splitSub c t').1 = some x → Tiled x := by
      rw [hss]; exact popEmpty_tiled htsp.1
    have hs2 : ∀ x, (splitSub c t').2 = some x → Tiled x := by
      rw [hss]; exact popEmpty_tiled htsp.2
    exact ⟨_, _, split_ann_ok (Chunk.not_bad_of_runId hrid) hsup hs1 hs2 h0 hst hts hin1 hin2 hv⟩

/-! ### `merge` is total on chunks that agree (incl. identical run annotations) -/

def replEntry (n : Nat) (r : Run) : String × List (Int × Int) := (r.id, List.replicate n (r.start, r.stop))

theorem foldl_addRun_same (subs : Runs) (hnd : (subs.map (·.id)).Nodup) (k : Nat) :
    subs.foldl addRun (subs.map (replEntry k)) = subs.map (replEntry (k+1)) := by
  induction subs with
  | nil => rfl
  | cons r rest ih =>
    simp only [List.map_cons, List.nodup_cons, List.mem_map, not_exists, not_and] at hnd
    have hfresh : ∀ x ∈ rest, x.id ≠ r.id := fun x hx e => hnd.1 x hx e
    simp only [List.map_cons, List.foldl_cons]
    have e : addRun (replEntry k r :: rest.map (replEntry k)) r
        = (r.id, List.replicate k (r.start, r.stop) ++ [(r.start, r.stop)]) :: rest.map (replEntry k) := by
      simp [replEntry, addRun]
    rw [e, foldl_addRun_fresh _ _ _ _ hfresh, ih hnd.2]
    simp [replEntry, List.replicate_succ']

theorem foldl_addRun_first (subs : Runs) (hnd : (subs.map (·.id)).Nodup) :
    subs.foldl addRun [] = subs.map (replEntry 1) := by
  induction subs with
  | nil => rfl
  | cons r rest ih =>
    simp only [List.map_cons, List.nodup_cons, List.mem_map, not_exists, not_and] at hnd
    have hfresh : ∀ x ∈ rest, x.id ≠ r.id := fun x hx e => hnd.1 x hx e
    simp only [List.foldl_cons, addRun, List.map_cons]
    rw [foldl_addRun_fresh _ _ _ _ hfresh, ih hnd.2]
    rfl

theorem foldl_step_replicate (f : List (String × List (Int × Int)) → Option Runs → List (String × List (Int × Int)))
    (hf : ∀ acc l, f acc (some l) = l.foldl addRun acc)
    (subs : Runs) (hnd : (subs.map (·.id)).Nodup) :
    ∀ m k, (List.replicate m (some subs)).foldl f (subs.map (replEntry k)) = subs.map (replEntry (k+m)) := by
  intro m
  induction m with
  | zero => intro k; rfl
  | succ m ih =>
    intro k
    simp only [List.replicate_succ, List.foldl_cons, hf]
    rw [foldl_addRun_same subs hnd k, ih (k+1)]
    congr 2; omega

theorem collectRuns_replicate (subs : Runs) (hnd : (subs.map (·.id)).Nodup) (n : Nat) :
    collectRuns (List.replicate (n+1) (some subs)) = subs.map (replEntry (n+1)) := by
  unfold collectRuns
  simp only [List.replicate_succ, List.foldl_cons]
  rw [foldl_addRun_first subs hnd, foldl_step_replicate _ (fun _ _ => rfl) subs hnd n 1]
  congr 2; omega

theorem collectRuns_nones (n : Nat) : collectRuns (List.replicate n (none : Option Runs)) = [] := by
  unfold collectRuns
  induction n with
  | zero => rfl
  | succ n ih => simpa [List.replicate_succ] using ih

theorem mergableCheck_repl (subs : Runs) (n : Nat) :
    mergableCheck true (subs.map (replEntry (n+1))) = .ok subs := by
  unfold mergableCheck
  induction subs with
  | nil => rfl
  | cons r rest ih =>
    rw [List.map_cons, List.mapM_cons, ih]
    have hsort : (List.replicate (n+1) (r.start, r.stop)).mergeSort (fun a b => decide (a.1 ≤ b.1))
        = List.replicate (n+1) (r.start, r.stop) := by
      apply List.mergeSort_of_pairwise
      rw [List.pairwise_replicate]
      right; simp
    simp only [replEntry, hsort]
    simp [List.replicate_succ, bind, Except.bind, pure, Except.pure]
    have hl : (((r.start, r.stop) :: List.replicate n (r.start, r.stop)).getLast?.getD (r.start, r.stop))
        = (r.start, r.stop) := by
      cases h : ((r.start, r.stop) :: List.replicate n (r.start, r.stop)).getLast? with
      | none => rfl
      | some y =>
        have hm := List.mem_of_getLast? h
        simp only [List.mem_cons, List.mem_replicate] at hm
        rcases hm with rfl | ⟨-, rfl⟩ <;> rfl
    rw [hl]

theorem mem_zipRows {a b : List Row} {x : Row} (h : x ∈ zipRows a b) :
    ∃ y ∈ b, x.time = y.time ∧ x.endt = y.endt := by
  induction a generalizing b with
  | nil => simp [zipRows] at h
  | cons p ps ih =>
    cases b with
    | nil => simp [zipRows] at h
    | cons q qs =>
      simp only [zipRows, List.mem_cons] at h
      rcases h with rfl | h
      · exact ⟨q, by simp, rfl, rfl⟩
      · obtain ⟨y, hy, e⟩ := ih h
        exact ⟨y, by simp [hy], e⟩

theorem eq_replicate_of_all {α} {l : List α} {a : α} (h : ∀ x ∈ l, x = a) : l = List.replicate l.length a :=
  List.eq_replicate_iff.2 ⟨rfl, h⟩

/-- `Chunk.merge` is total on ≥ 1 well-formed chunks that agree on kind, run id, number of rows,
range AND run annotations, the annotations being the default super-run entry and no or tiled
sub-runs (explicit side conditions: `superrun = [(run_id, start, stop)]`, `subruns` none or tiled) -/
theorem merge_total_fields {c0 : Chunk} {rest : List Chunk} {dt rid : String}
    (hwf : ∀ c ∈ c0 :: rest, c.wf = true)
    (hagree : ∀ c ∈ rest, c.kind = c0.kind ∧ c.runId = c0.runId ∧ c.rows.length = c0.rows.length ∧
      c.start = c0.start ∧ c.stop = c0.stop ∧ c.subruns = c0.subruns ∧ c.superrun = c0.superrun)
    (hrid : c0.runId = some rid) (hsup : c0.superrun = [⟨rid, c0.start, c0.stop⟩])
    (hsub : ∀ x, c0.subruns = some x → Tiled x) :
    ∃ c, mergeChunks (c0 :: rest) dt = .ok c ∧ c.start = c0.start ∧ c.stop = c0.stop ∧ c.runId = c0.runId ∧
      c.superrun = [⟨rid, c0.start, c0.stop⟩] ∧ (c0.subruns = none → c.subruns = none) := by
  cases rest with
  | nil => exact ⟨c0, rfl, rfl, rfl, rfl, hsup, id⟩
  | cons c1 rest' =>
    rw [mergeChunks_eq]
    have hk : allEq ((c0 :: c1 :: rest').map (·.kind)) = true := by
      rw [allEq_map_iff]; intro x hx
      simp only [List.mem_cons] at hx
      rcases hx with rfl | hx
      · rfl
      · exact (hagree x (by simpa using hx)).1
    have hr : allEq ((c0 :: c1 :: rest').map (·.runId)) = true := by
      rw [allEq_map_iff]; intro x hx
      simp only [List.mem_cons] at hx
      rcases hx with rfl | hx
      · rfl
      · exact (hagree x (by simpa using hx)).2.1
    have hl : allEq ((c0 :: c1 :: rest').map (·.rows.length)) = true := by
      rw [allEq_map_iff]; intro x hx
      simp only [List.mem_cons] at hx
      rcases hx with rfl | hx
      · rfl
      · exact (hagree x (by simpa using hx)).2.2.1
    have hrg : allEq ((c0 :: c1 :: rest').map (fun c => (c.start, c.stop))) = true := by
      rw [allEq_map_iff]; intro x hx
      simp only [List.mem_cons] at hx
      rcases hx with rfl | hx
      · rfl
      · have := hagree x (by simpa using hx)
        simp [this.2.2.2.1, this.2.2.2.2.1]
    simp only [hk, hr, hl, hrg, Bool.not_true, Bool.false_eq_true, if_false]
    -- run annotations
    have hsubs : (c0 :: c1 :: rest').map (·.subruns) = List.replicate (rest'.length + 1 + 1) c0.subruns := by
      have := eq_replicate_of_all (l := (c0 :: c1 :: rest').map (·.subruns)) (a := c0.subruns) (by
        intro x hx
        simp only [List.mem_map] at hx
        obtain ⟨y, hy, rfl⟩ := hx
        simp only [List.mem_cons] at hy
        rcases hy with rfl | hy
        · rfl
        · exact (hagree y (by simpa using hy)).2.2.2.2.2.1)
      simpa using this
    have hsups : (c0 :: c1 :: rest').map (fun c => some c.superrun)
        = List.replicate (rest'.length + 1 + 1) (some [⟨rid, c0.start, c0.stop⟩]) := by
      have := eq_replicate_of_all (l := (c0 :: c1 :: rest').map (fun c => some c.superrun))
        (a := some [⟨rid, c0.start, c0.stop⟩]) (by
        intro x hx
        simp only [List.mem_map] at hx
        obtain ⟨y, hy, rfl⟩ := hx
        simp only [List.mem_cons] at hy
        rcases hy with rfl | hy
        · rw [hsup]
        · rw [(hagree y (by simpa using hy)).2.2.2.2.2.2, hsup])
      simpa using this
    have hmsup : mergeSuperrun (c0 :: c1 :: rest') true = .ok [⟨rid, c0.start, c0.stop⟩] := by
      unfold mergeSuperrun
      rw [hsups, collectRuns_replicate _ (by simp), mergableCheck_repl]
    have hmsub : ∃ sub, mergeSubruns (c0 :: c1 :: rest') true = .ok sub ∧ (∀ x, sub = some x → Tiled x) ∧
        (c0.subruns = none → sub = none) := by
      unfold mergeSubruns
      rw [hsubs]
      cases hs : c0.subruns with
      | none =>
        rw [collectRuns_nones]
        exact ⟨none, rfl, by simp, fun _ => rfl⟩
      | some subs =>
        have ht := hsub subs hs
        rw [collectRuns_replicate _ ht.2.1, mergableCheck_repl]
        refine ⟨_, rfl, ?_, fun h => by cases h⟩
        intro x hx
        split at hx
        · simp at hx
        · simp at hx; subst hx; exact ht
    obtain ⟨sub, hsubeq, hsubt, hsubn⟩ := hmsub
    simp only [hsubeq, hmsup, bind, Except.bind]
    obtain ⟨h0, hse, -, -, -⟩ := (Chunk.wf_iff c0).1 (hwf c0 (by simp))
    -- rows of the merged chunk carry the intervals of the last chunk, which is well-formed
    obtain ⟨cl, hcl⟩ : ∃ cl, (c0 :: c1 :: rest').getLast? = some cl := by
      cases hx : (c0 :: c1 :: rest').getLast? with
      | none => simp at hx
      | some cl => exact ⟨cl, rfl⟩
    have hclm : cl ∈ c0 :: c1 :: rest' := List.mem_of_getLast? hcl
    obtain ⟨-, -, -, -, hincl⟩ := (Chunk.wf_iff cl).1 (hwf cl hclm)
    have hclrange : cl.start = c0.start ∧ cl.stop = c0.stop := by
      simp only [List.mem_cons] at hclm
      rcases hclm with rfl | hclm
      · exact ⟨rfl, rfl⟩
      · have := hagree cl (by simpa using hclm)
        exact ⟨this.2.2.2.1, this.2.2.2.2.1⟩
    rw [hcl]
    simp only [Option.getD_some]
    rw [hrid]
    have hin : ∀ x ∈ zipRows c0.rows cl.rows, c0.start ≤ x.time ∧ x.endt ≤ c0.stop := by
      intro x hx
      obtain ⟨y, hy, e1, e2⟩ := mem_zipRows hx
      have := hincl y hy
      omega
    exact ⟨_, mkChunk_ann h0 hse hin hsubt (Or.inr rfl), rfl, rfl, rfl, rfl, hsubn⟩

/-- (existence only; `merge_total_fields` also exposes range, run id and annotations of the result)
`Chunk.merge` is total on ≥ 1 well-formed chunks that agree on kind, run id, number of rows,
range AND run annotations, the annotations being the default super-run entry and no or tiled
sub-runs (explicit side conditions: `superrun = [(run_id, start, stop)]`, `subruns` none or tiled) -/
theorem merge_total' {c0 : Chunk} {rest : List Chunk} {dt rid : String}
    (hwf : ∀ c ∈ c0 :: rest, c.wf = true)
    (hagree : ∀ c ∈ rest, c.kind = c0.kind ∧ c.runId = c0.runId ∧ c.rows.length = c0.rows.length ∧
      c.start = c0.start ∧ c.stop = c0.stop ∧ c.subruns = c0.subruns ∧ c.superrun = c0.superrun)
    (hrid : c0.runId = some rid) (hsup : c0.superrun = [⟨rid, c0.start, c0.stop⟩])
    (hsub : ∀ x, c0.subruns = some x → Tiled x) :
    ∃ c, mergeChunks (c0 :: rest) dt = .ok c := by
  obtain ⟨c, h, -⟩ := merge_total_fields (dt := dt) hwf hagree hrid hsup hsub
  exact ⟨c, h⟩

end Strax
