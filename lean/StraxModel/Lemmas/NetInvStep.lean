import StraxModel.Lemmas.NetInv
/-
  `TInv` is preserved by every step of a tree-shaped net, and holds initially.
-/
namespace Strax.Net
open Strax

/-! ### small list facts -/

theorem suffix_tail {α} {i : α} {r b : List α} (h : (i :: r) <:+ b) : r <:+ b :=
  List.IsSuffix.trans (List.suffix_cons i r) h

theorem suffix_head_mem {α} {i : α} {r b : List α} (h : (i :: r) <:+ b) : i ∈ b :=
  h.subset (by simp)

theorem suffix_mem {α} {x : α} {l b : List α} (h : l <:+ b) (hx : x ∈ l) : x ∈ b := h.subset hx

theorem count_cons_ne {i a : Instr} {r : List Instr} (h : i ≠ a) : (i :: r).count a = r.count a := by
  simp [h]

theorem count_cons_self {a : Instr} {r : List Instr} : (a :: r).count a = r.count a + 1 := by
  simp

theorem countOut_cons_other {i : Instr} {m : Nat} {r : List Instr} (h1 : i ≠ .send m) (h2 : i ≠ .close m) :
    countOut m (i :: r) = countOut m r := by
  simp [countOut, h1, h2]

/-- a suffix of `pre ++ [x]` that starts with something else than `x` (and `x ∉ pre`) still contains `x` further on -/
theorem suffix_last {α} [DecidableEq α] {i x : α} {r pre : List α} (h : (i :: r) <:+ pre ++ [x]) (hne : i ≠ x) : x ∈ r := by
  obtain ⟨p, hp⟩ := h
  have hl : (p ++ i :: r).getLast? = (pre ++ [x]).getLast? := by rw [hp]
  simp only [List.getLast?_append, List.getLast?_singleton] at hl
  cases r with
  | nil => simp at hl; exact absurd hl hne
  | cons y r' =>
    have : (y :: r').getLast? = some x := by
      simpa [List.getLast?_cons_cons] using hl
    exact List.mem_of_getLast? this

/-- … and one that starts with `x` (with `x ∉ pre`) is exactly `[x]` -/
theorem suffix_last_eq {α} {x : α} {r pre : List α} (h : (x :: r) <:+ pre ++ [x]) (hx : x ∉ pre) : r = [] := by
  obtain ⟨p, hp⟩ := h
  cases r with
  | nil => rfl
  | cons y r' =>
    exfalso
    -- x occurs in `pre ++ [x]` at a position that is not the last one
    have hlen : (p ++ x :: y :: r').length = (pre ++ [x]).length := by rw [hp]
    have hx' : x ∈ pre := by
      have : (p ++ x :: y :: r').dropLast = (pre ++ [x]).dropLast := by rw [hp]
      rw [List.dropLast_concat] at this
      rw [← this]
      have : (p ++ x :: y :: r').dropLast = p ++ (x :: y :: r').dropLast := by
        rw [List.dropLast_append_of_ne_nil]; simp
      rw [this]
      simp [List.dropLast_cons_cons]
    exact hx hx'

theorem dieOnlyLast_suffix {b : List Instr} (hb : dieOnlyLast b = true) {e : Nat} {r : List Instr} (h : (Instr.die e :: r) <:+ b) :
    r = [] := by
  induction b with
  | nil => simp at h
  | cons x b' ih =>
    rcases List.suffix_cons_iff.mp h with h1 | h1
    · cases h1
      cases r with
      | nil => rfl
      | cons y b'' => simp [dieOnlyLast, Instr.isDie] at hb
    · cases b' with
      | nil => simp at h1
      | cons y b'' =>
        simp only [dieOnlyLast, Bool.and_eq_true] at hb
        exact ih hb.2 h1

/-! ### where a stepping thread is -/

section
variable {net : Net} {c : Cert} {s : NState}

theorem TInv.thread (h : TInv net c s) {t : Nat} {ts : TSt} (hts : s.thr[t]? = some ts) :
    ∃ th, net.threads[t]? = some th := by
  have hlt : t < s.thr.length := (List.getElem?_eq_some_iff.mp hts).1
  rw [h.lenT] at hlt
  exact ⟨_, List.getElem?_eq_getElem hlt⟩

theorem TInv.mailbox (h : TInv net c s) {m : Nat} (hm : m < net.mbs.length) : ∃ a, s.mbs[m]? = some a := by
  rw [← h.lenM] at hm
  exact ⟨_, List.getElem?_eq_getElem hm⟩

theorem TInv.subscriber (h : TInv net c s) {m : Nat} {sp : MBSpec} {a : AMB} {k : Nat} (hsp : net.mbs[m]? = some sp)
    (ha : s.mbs[m]? = some a) (hk : k < sp.drive.length) : ∃ sb, a.subs[k]? = some sb := by
  rw [← h.lenS m sp a hsp ha] at hk
  exact ⟨_, List.getElem?_eq_getElem hk⟩

theorem epi_kinds (hT : TreeNet net c) {t : Nat} {th : Thread} (hth : net.threads[t]? = some th) {i : Instr} (hi : i ∈ th.epi) :
    (∃ m, i = .killIfExc m) ∨ (∃ m, i = .killIfOwn m) ∨ (∃ u, i = .join u) ∨ ∃ sv, i = .finish sv := by
  cases hT.kind hth with
  | main _ hok =>
    rcases hok.epi_mem hi with ⟨m, _, rfl⟩ | ⟨u, _, rfl⟩ | ⟨sv, rfl⟩
    · exact Or.inl ⟨m, rfl⟩
    · exact Or.inr (Or.inr (Or.inl ⟨u, rfl⟩))
    · exact Or.inr (Or.inr (Or.inr ⟨sv, rfl⟩))
  | sender m _ _ hok => rw [hok.2.2.1] at hi; simp at hi; exact Or.inl ⟨m, hi⟩
  | sink _ _ hok _ =>
    rcases hok.2.2.2.2.2 with he | ⟨he, _⟩
    · rw [he] at hi; simp at hi; exact Or.inr (Or.inl ⟨_, hi⟩)
    · rw [he] at hi; simp at hi

/-- an instruction that is not one of the epilogue kinds is executed in the body -/
theorem TInv.inBody (hT : TreeNet net c) (h : TInv net c s) {t : Nat} {th : Thread} {ts : TSt} {i : Instr} {rest : List Instr}
    (hth : net.threads[t]? = some th) (hts : s.thr[t]? = some ts) (hp : ts.prog = i :: rest)
    (hk : (∀ m, i ≠ .killIfExc m) ∧ (∀ m, i ≠ .killIfOwn m) ∧ (∀ u, i ≠ .join u) ∧ ∀ sv, i ≠ .finish sv) :
    ts.inEpi = false ∧ (i :: rest) <:+ th.body := by
  obtain ⟨_, h1, h2⟩ := h.pc t th ts hth hts
  cases hin : ts.inEpi with
  | false => exact ⟨rfl, by rw [← hp]; exact h1 hin⟩
  | true =>
    have hmem : i ∈ th.epi := suffix_head_mem (by rw [← hp]; exact (h2 hin).1)
    rcases epi_kinds hT hth hmem with ⟨m, rfl⟩ | ⟨m, rfl⟩ | ⟨u, rfl⟩ | ⟨sv, rfl⟩
    · exact absurd rfl (hk.1 m)
    · exact absurd rfl (hk.2.1 m)
    · exact absurd rfl (hk.2.2.1 u)
    · exact absurd rfl (hk.2.2.2 sv)

/-- the head instruction belongs to the thread's static program -/
theorem TInv.headMem (h : TInv net c s) {t : Nat} {th : Thread} {ts : TSt} {i : Instr} {rest : List Instr}
    (hth : net.threads[t]? = some th) (hts : s.thr[t]? = some ts) (hp : ts.prog = i :: rest) :
    (ts.inEpi = false ∧ (i :: rest) <:+ th.body) ∨ (ts.inEpi = true ∧ (i :: rest) <:+ th.epi) := by
  obtain ⟨_, h1, h2⟩ := h.pc t th ts hth hts
  cases hin : ts.inEpi with
  | false => exact Or.inl ⟨rfl, by rw [← hp]; exact h1 hin⟩
  | true => exact Or.inr ⟨rfl, by rw [← hp]; exact (h2 hin).1⟩

theorem advance_pc (h : TInv net c s) {t : Nat} {th : Thread} {ts : TSt} {i : Instr} {rest : List Instr}
    (hth : net.threads[t]? = some th) (hts : s.thr[t]? = some ts) (hp : ts.prog = i :: rest) :
    ts.advance.epi = th.epi ∧ (ts.advance.inEpi = false → ts.advance.prog <:+ th.body) ∧
    (ts.advance.inEpi = true → ts.advance.prog <:+ th.epi ∧ ts.advance.exc.isSome = true) := by
  obtain ⟨h0, h1, h2⟩ := h.pc t th ts hth hts
  simp only [TSt.advance, hp, List.tail_cons]
  refine ⟨h0, fun hin => suffix_tail (by rw [← hp]; exact h1 hin), fun hin => ⟨suffix_tail (by rw [← hp]; exact (h2 hin).1), (h2 hin).2⟩⟩

/-- obligations of a plain advance over an instruction that touches no mailbox -/
theorem ThrObl.advance (hT : TreeNet net c) (h : TInv net c s) {t : Nat} {th : Thread} {ts : TSt} {i : Instr} {rest : List Instr}
    (hth : net.threads[t]? = some th) (hts : s.thr[t]? = some ts) (hp : ts.prog = i :: rest)
    (excl : Nat → Prop) (K : Nat → Prop) (hK : ∀ m, s.killedMb m → K m)
    (hr : ∀ m k, i = .read m k → excl m) (hs : ∀ m, (i = .send m ∨ i = .close m) → excl m)
    (hk1 : ∀ m, i = .killIfExc m → ts.exc = none ∨ K m)
    (hk2 : ∀ m, i = .killIfOwn m → (∀ r, ts.exc ≠ some (true, r)) ∨ K m)
    (hj : ∀ u, i = .join u → s.endedThr u) : ThrObl net c s excl K t th ts ts.advance := by
  have hprog : ts.advance.prog = rest := by simp [TSt.advance, hp]
  refine ⟨advance_pc h hth hts hp, ?_, ?_, ?_, ?_, ?_, ?_, ?_⟩
  · -- wait: a waiting subscriber of t would have `read` as head
    intro m a k sb x hne hm hk hw hrd
    obtain ⟨_, _, tsr, rest', hr1, hr2⟩ := h.wait m a k sb x hm hk hw
    rw [hrd, hts] at hr1; cases hr1
    rw [hp] at hr2; cases hr2
    exact absurd (hr m k rfl) hne
  · intro m a k sb hne hm hk hrd hin
    have := h.rd m a k sb ts hm hk (by rw [hrd]; exact hts) (by simpa [TSt.advance] using hin)
    rw [hp, count_cons_ne (fun he => hne (hr m k he))] at this
    rw [hprog]; exact this
  · intro m a hne hmlt hm hsd
    obtain ⟨_, _, h3⟩ := h.snd m a hmlt hm
    obtain ⟨h4, h5⟩ := h3 ts (by rw [hsd]; exact hts)
    constructor
    · intro hin
      have := h4 (by simpa [TSt.advance] using hin)
      rw [hp, countOut_cons_other (fun he => hne (hs m (Or.inl he))) (fun he => hne (hs m (Or.inr he)))] at this
      rw [hprog]; exact this
    · intro hc; have := (h5 hc).1; rw [hp] at this; cases this
  · intro own r hin hexc
    have hin' : ts.inEpi = true := by simpa [TSt.advance] using hin
    have hexc' : ts.exc = some (own, r) := by simpa [TSt.advance] using hexc
    obtain ⟨k1, k2⟩ := h.kills t th ts own r hth hts hin' hexc'
    rw [hprog]
    constructor
    · intro m hm
      rcases k1 m hm with hk | hk
      · rw [hp] at hk
        rcases List.mem_cons.mp hk with hk | hk
        · rcases hk1 m hk.symm with this | this
          · rw [hexc'] at this; cases this
          · exact Or.inr this
        · exact Or.inl hk
      · exact Or.inr (hK m hk)
    · intro ho m hm
      rcases k2 ho m hm with hk | hk
      · rw [hp] at hk
        rcases List.mem_cons.mp hk with hk | hk
        · subst ho
          rcases hk2 m hk.symm with this | this
          · exact absurd hexc' (this r)
          · exact Or.inr this
        · exact Or.inl hk
      · exact Or.inr (hK m hk)
  · intro r h1 h2 hexc
    exact hK _ (h.sinkK t ts r h1 h2 hts (by simpa [TSt.advance] using hexc))
  · intro hmain u hu
    rw [hprog]
    rcases h.joins u ts hu (by rw [← hmain]; exact hts) with hj' | hj'
    · exact Or.inl hj'
    · rw [hp] at hj'
      rcases List.mem_cons.mp hj' with hj' | hj'
      · exact Or.inl (hj u hj'.symm)
      · exact Or.inr hj'
  · intro hnil; rw [hp] at hnil; cases hnil

end

section
variable {net : Net} {c : Cert} {s : NState}

theorem main_join_mem (hT : TreeNet net c) {th : Thread} (hth : net.threads[net.threads.length - 1]? = some th)
    {u : Nat} (hu : u < net.threads.length - 1) : Instr.join u ∈ th.epi := by
  cases hT.kind hth with
  | main _ hok =>
    obtain ⟨sv, he⟩ := hok.epi_eq
    rw [he]; simp only [List.mem_append, List.mem_map, List.mem_range]
    exact Or.inl (Or.inr ⟨u, hu, rfl⟩)
  | sender m hne _ _ => exact absurd rfl hne
  | sink hne _ _ _ => exact absurd rfl hne

/-- obligations of a jump to the epilogue (an exception raised by a body instruction) -/
theorem ThrObl.raise (hT : TreeNet net c) (h : TInv net c s) {t : Nat} {th : Thread} {ts : TSt} {i : Instr} {rest : List Instr}
    (hth : net.threads[t]? = some th) (hts : s.thr[t]? = some ts) (hp : ts.prog = i :: rest)
    (excl : Nat → Prop) (K : Nat → Prop) (hbody : ts.inEpi = false) (own : Bool) (e : Exc)
    (hw : ∀ m k, i = .read m k → excl m)
    (hsink : own = false → t < net.threads.length - 1 → c.out t = none → K (c.src t).1) :
    ThrObl net c s excl K t th ts (ts.raise own e) := by
  obtain ⟨h0, _, _⟩ := h.pc t th ts hth hts
  have hr : ts.raise own e = { ts with prog := ts.epi, inEpi := true, exc := some (own, e) } := by
    simp [TSt.raise, hbody]
  rw [hr]
  refine ⟨⟨h0, by simp, fun _ => ⟨by rw [h0]; exact List.suffix_refl _, rfl⟩⟩, ?_, ?_, ?_, ?_, ?_, ?_, ?_⟩
  · intro m a k sb x hne hm hk hwt hrd
    obtain ⟨_, _, tsr, rest', hr1, hr2⟩ := h.wait m a k sb x hm hk hwt
    rw [hrd, hts] at hr1; cases hr1
    rw [hp] at hr2; cases hr2
    exact absurd (hw m k rfl) hne
  · intro m a k sb _ _ _ _ hin; simp at hin
  · intro m a _ hmlt hm hsd
    obtain ⟨_, _, h3⟩ := h.snd m a hmlt hm
    obtain ⟨_, h5⟩ := h3 ts (by rw [hsd]; exact hts)
    exact ⟨by intro hin; simp at hin, by intro hc; have := (h5 hc).1; rw [hp] at this; cases this⟩
  · intro own' r _ hexc
    simp only [Option.some.injEq, Prod.mk.injEq] at hexc
    exact ⟨fun m hm => Or.inl (by rw [h0]; exact hm), fun _ m hm => Or.inl (by rw [h0]; exact hm)⟩
  · intro r h1 h2 hexc
    simp only [Option.some.injEq, Prod.mk.injEq] at hexc
    exact hsink hexc.1 h1 h2
  · intro hmain u hu
    subst hmain
    exact Or.inr (by simp only; rw [h0]; exact main_join_mem hT hth hu)
  · intro hnil; rw [hp] at hnil; cases hnil

end

section
variable {net : Net} {c : Cert} {s : NState}

theorem head_read (hT : TreeNet net c) (h : TInv net c s) {t : Nat} {th : Thread} {ts : TSt} {m k : Nat} {rest : List Instr}
    (hth : net.threads[t]? = some th) (hts : s.thr[t]? = some ts) (hp : ts.prog = .read m k :: rest) :
    ts.inEpi = false ∧ (Instr.read m k :: rest) <:+ th.body ∧ c.reader m k = t ∧
    ∃ sp a sb, net.mbs[m]? = some sp ∧ s.mbs[m]? = some a ∧ a.subs[k]? = some sb := by
  obtain ⟨hin, hsuf⟩ := h.inBody hT hth hts hp ⟨by simp, by simp, by simp, by simp⟩
  obtain ⟨hrd, sp, hsp, hk⟩ := read_owner hT hth (suffix_head_mem hsuf)
  have hmlt : m < net.mbs.length := (List.getElem?_eq_some_iff.mp hsp).1
  obtain ⟨a, ha⟩ := h.mailbox hmlt
  obtain ⟨sb, hsb⟩ := h.subscriber hsp ha hk
  exact ⟨hin, hsuf, hrd, sp, a, sb, hsp, ha, hsb⟩

theorem head_out (hT : TreeNet net c) (h : TInv net c s) {t : Nat} {th : Thread} {ts : TSt} {i : Instr} {m : Nat} {rest : List Instr}
    (hth : net.threads[t]? = some th) (hts : s.thr[t]? = some ts) (hp : ts.prog = i :: rest)
    (hi : i = .gate m ∨ i = .send m ∨ i = .close m) :
    ts.inEpi = false ∧ (i :: rest) <:+ th.body ∧ c.out t = some m ∧ c.sender m = t ∧ m < net.mbs.length ∧
    SenderOk c net.mbs.length t m th ∧ ∃ sp a, net.mbs[m]? = some sp ∧ s.mbs[m]? = some a := by
  obtain ⟨hin, hsuf⟩ := h.inBody hT hth hts hp (by rcases hi with rfl | rfl | rfl <;> exact ⟨by simp, by simp, by simp, by simp⟩)
  obtain ⟨ho, hsd, hmlt, hok⟩ := out_owner hT hth (suffix_head_mem hsuf) hi
  obtain ⟨a, ha⟩ := h.mailbox hmlt
  exact ⟨hin, hsuf, ho, hsd, hmlt, hok, _, a, List.getElem?_eq_getElem hmlt, ha⟩

theorem head_join (hT : TreeNet net c) (h : TInv net c s) {t : Nat} {th : Thread} {ts : TSt} {u : Nat} {rest : List Instr}
    (hth : net.threads[t]? = some th) (hts : s.thr[t]? = some ts) (hp : ts.prog = .join u :: rest) :
    u < net.threads.length - 1 := by
  have hmem : Instr.join u ∈ th.body ∨ Instr.join u ∈ th.epi := by
    rcases h.headMem hth hts hp with ⟨_, hs⟩ | ⟨_, hs⟩
    · exact Or.inl (suffix_head_mem hs)
    · exact Or.inr (suffix_head_mem hs)
  cases hT.kind hth with
  | main _ hok =>
    have : Instr.join u ∈ th.epi := by
      rcases hmem with hm | hm
      · rcases hok.body_mem hm with h1 | h1 | h1
        · cases h1
        · simp [Instr.isFail] at h1
        · exact h1
      · exact hm
    rcases hok.epi_mem this with ⟨_, _, h2⟩ | ⟨u', hu', h2⟩ | ⟨_, h2⟩
    · cases h2
    · cases h2; exact hu'
    · cases h2
  | sender m _ _ hok =>
    rcases hmem with hm | hm
    · rcases hok.mem hm with h1 | h1
      · cases h1
      · simp [senderInstrOk] at h1
    · rw [hok.2.2.1] at hm; simp at hm
  | sink _ _ hok _ =>
    rcases hmem with hm | hm
    · rcases hok.2.2.2.1 _ hm with h1 | h1 | h1
      · cases h1
      · simp [Instr.isFail] at h1
      · simp [Instr.isDie] at h1
    · rcases hok.2.2.2.2.2 with he | ⟨he, _⟩ <;> rw [he] at hm <;> simp at hm

/-- `dropEpi` occurs in no program of a tree-shaped net -/
theorem head_not_dropEpi (hT : TreeNet net c) (h : TInv net c s) {t : Nat} {th : Thread} {ts : TSt} {rest : List Instr}
    (hth : net.threads[t]? = some th) (hts : s.thr[t]? = some ts) (hp : ts.prog = .dropEpi :: rest) : False := by
  obtain ⟨_, hsuf⟩ := h.inBody hT hth hts hp ⟨by simp, by simp, by simp, by simp⟩
  have hm := suffix_head_mem hsuf
  cases hT.kind hth with
  | main _ hok =>
    rcases hok.body_mem hm with h1 | h1 | h1
    · cases h1
    · simp [Instr.isFail] at h1
    · rcases hok.epi_mem h1 with ⟨_, _, h2⟩ | ⟨_, _, h2⟩ | ⟨_, h2⟩ <;> cases h2
  | sender m _ _ hok =>
    rcases hok.mem hm with h1 | h1
    · cases h1
    · simp [senderInstrOk] at h1
  | sink _ _ hok _ =>
    rcases hok.2.2.2.1 _ hm with h1 | h1 | h1
    · cases h1
    · simp [Instr.isFail] at h1
    · simp [Instr.isDie] at h1

/-- the state with only the outcome changed satisfies the same invariant -/
theorem TInv.withOutcome (h : TInv net c s) (o : Option Outcome) : TInv net c { s with outcome := o } :=
  ⟨h.lenT, h.lenM, h.lenS, h.pc, h.sub, h.wait, h.rd, h.snd, h.kills, h.sinkK, h.joins⟩

end

section
variable {net : Net} {c : Cert} {s : NState}

/-- mailbox-local obligations when thread `t` (the reader of subscriber `k` of `m`) updates only that subscriber entry -/
theorem BothObl.subUpd (hT : TreeNet net c) (h : TInv net c s) {t : Nat} {th : Thread} {ts ts' : TSt} {m k : Nat}
    {sp : MBSpec} {a : AMB} {sb : ASub} (g : ASub → ASub)
    (hsp : net.mbs[m]? = some sp) (hm : s.mbs[m]? = some a) (hk : a.subs[k]? = some sb) (hrd : c.reader m k = t)
    (o : ThrObl net c s (fun x => x = m) (killedNew s m (a.modSub k g)) t th ts ts')
    (hb : (g sb).buffered ≤ (g sb).next ∧ (g sb).next ≤ a.nSent)
    (hwt : ∀ x, (g sb).waiting = some x → x = (g sb).next ∧ (g sb).buffered = 0 ∧ ∃ rest, ts'.prog = .read m k :: rest)
    (hrk : ts'.inEpi = false → ts'.prog.count (.read m k) + ((g sb).next - (g sb).buffered) = tot net c m) :
    BothObl net c s t th ts ts' m a (a.modSub k g) := by
  have hf := modSub_fields a k g
  have hlenS := h.lenS m sp a hsp hm
  have hklt : k < sp.drive.length := by rw [← hlenS]; exact (List.getElem?_eq_some_iff.mp hk).1
  have hother : ∀ k2 sb2, k ≠ k2 → a.subs[k2]? = some sb2 → c.reader m k2 ≠ t := by
    intro k2 sb2 hne hk2 heq
    have hk2lt : k2 < sp.drive.length := by rw [← hlenS]; exact (List.getElem?_eq_some_iff.mp hk2).1
    exact hne (reader_inj hT hsp hklt hk2lt (by rw [hrd, heq]))
  have hmlt : m < net.mbs.length := (List.getElem?_eq_some_iff.mp hsp).1
  have hns : c.sender m ≠ t := by rw [← hrd]; exact (reader_not_sender hT hsp hklt).symm
  apply BothObl.of hm o
  · intro hkl; rw [hf.2.2.1]; exact hkl
  · exact hf.2.2.2.2
  · intro k2 sb' h2
    rw [modSub_subs] at h2
    by_cases hkk : k = k2
    · subst hkk; simp [hk] at h2; subst h2; rw [hf.1]; exact hb
    · simp [hkk] at h2; rw [hf.1]; exact h.sub m a k2 sb' hm h2
  · intro k2 sb' x h2 hw
    rw [modSub_subs] at h2
    by_cases hkk : k = k2
    · subst hkk; simp [hk] at h2; subst h2
      obtain ⟨h1, h2', h3⟩ := hwt x hw
      exact ⟨h1, h2', by simp only [hrd, if_true]; exact h3⟩
    · simp [hkk] at h2
      obtain ⟨h1, h2', h3⟩ := h.wait m a k2 sb' x hm h2 hw
      exact ⟨h1, h2', by simp only [hother k2 sb' hkk h2, if_false]; exact h3⟩
  · intro k2 sb' h2
    rw [modSub_subs] at h2
    by_cases hkk : k = k2
    · subst hkk; simp [hk] at h2; subst h2
      simp only [hrd, if_true]; exact hrk
    · simp [hkk] at h2
      simp only [hother k2 sb' hkk h2, if_false]
      intro tsr hr hin; exact h.rd m a k2 sb' tsr hm h2 hr hin
  · intro _
    obtain ⟨h1, h2, h3⟩ := h.snd m a hmlt hm
    rw [hf.1, hf.2.1]
    refine ⟨h1, h2, ?_⟩
    simp only [hns, if_false]
    exact h3

end

section
variable {net : Net} {c : Cert} {s : NState}

theorem setThr_same (s : NState) (t : Nat) (ts : TSt) (h : s.thr[t]? = some ts) : s.setThr t ts = s := by
  obtain ⟨hlt, he⟩ := List.getElem?_eq_some_iff.mp h
  simp only [NState.setThr]
  have : s.thr.set t ts = s.thr := by rw [← he]; exact List.set_getElem_self hlt
  rw [this]

theorem TInv.step_read (hT : TreeNet net c) (h : TInv net c s) {t : Nat} {th : Thread} {ts : TSt} {m k : Nat} {rest : List Instr}
    {s' : NState} (hth : net.threads[t]? = some th) (hts : s.thr[t]? = some ts) (hp : ts.prog = .read m k :: rest)
    (heff : Effect net s t ts (.read m k) s') : TInv net c s' := by
  obtain ⟨hin, hsuf, hrd, sp, a0, sb0, hsp, ha0, hsb0⟩ := head_read hT h hth hts hp
  have hbuf := h.sub m a0 k sb0 ha0 hsb0
  have hrd0 := h.rd m a0 k sb0 ts ha0 hsb0 (by rw [hrd]; exact hts) hin
  rw [hp, count_cons_self] at hrd0
  have hK : ∀ (a' : AMB), (a0.killed = true → a'.killed = true) → ∀ m', s.killedMb m' → killedNew s m a' m' :=
    fun a' hmono m' => killedNew_of_old ha0 hmono m'
  cases heff with
  | advance _ hr _ _ _ _ _ =>
    rcases hr m k rfl with h1 | ⟨a', h1, h2⟩
    · rw [ha0] at h1; cases h1
    · rw [ha0] at h1; cases h1; rw [hsb0] at h2; cases h2
  | readPop _ _ a sb hm hk hb =>
    rw [ha0] at hm; cases hm; rw [hsb0] at hk; cases hk
    apply h.both hth hts ha0
    have hf := modSub_fields a0 k (fun sb => { sb with buffered := sb.buffered - 1 })
    apply BothObl.subUpd hT h _ hsp ha0 hsb0 hrd
    · exact ThrObl.advance hT h hth hts hp _ _ (hK _ (by intro x; rw [hf.2.2.1]; exact x))
        (by intro m' k' he; cases he; rfl) (by intro m' he; rcases he with he | he <;> cases he)
        (by intro m' he; cases he) (by intro m' he; cases he) (by intro u he; cases he)
    · simp only; omega
    · intro x hw
      simp only at hw
      have := (h.wait m a0 k sb0 x ha0 hsb0 hw).2.1
      omega
    · intro _
      simp only [TSt.advance, hp, List.tail_cons]
      omega
  | readKilled _ _ a sb hm hk hb hkill =>
    rw [ha0] at hm; cases hm; rw [hsb0] at hk; cases hk
    apply h.both hth hts ha0
    have hf := modSub_fields a0 k (fun sb => { sb with waiting := none })
    have hkn : killedNew s m (a0.modSub k fun sb => { sb with waiting := none }) m := by
      unfold killedNew; simp only [if_true]; rw [hf.2.2.1]; exact hkill
    apply BothObl.subUpd hT h _ hsp ha0 hsb0 hrd
    · apply ThrObl.raise hT h hth hts hp _ _ hin
      · intro m' k' he; cases he; rfl
      · intro _ hlt hout
        -- a sink reads only its own mailbox
        cases hT.kind hth with
        | main hmain _ => omega
        | sender mo _ ho _ => rw [hout] at ho; cases ho
        | sink _ _ hok _ =>
          rcases hok.2.2.2.1 _ (suffix_head_mem hsuf) with h1 | h1 | h1
          · cases h1; exact hkn
          · simp [Instr.isFail] at h1
          · simp [Instr.isDie] at h1
    · simp only; exact hbuf
    · intro x hw; simp at hw
    · intro hin'; simp [TSt.raise, hin] at hin'
  | readTake _ _ a sb hm hk hb hkill hlt =>
    rw [ha0] at hm; cases hm; rw [hsb0] at hk; cases hk
    apply h.both hth hts ha0
    have hf := modSub_fields a0 k (fun sb => { sb with buffered := a0.nSent - sb.next - 1, next := a0.nSent, waiting := none })
    apply BothObl.subUpd hT h _ hsp ha0 hsb0 hrd
    · exact ThrObl.advance hT h hth hts hp _ _ (hK _ (by intro x; rw [hf.2.2.1]; exact x))
        (by intro m' k' he; cases he; rfl) (by intro m' he; rcases he with he | he <;> cases he)
        (by intro m' he; cases he) (by intro m' he; cases he) (by intro u he; cases he)
    · simp only; omega
    · intro x hw; simp at hw
    · intro _
      simp only [TSt.advance, hp, List.tail_cons]
      omega
  | readWait _ _ a sb hm hk hb hkill hlt hw =>
    rw [ha0] at hm; cases hm; rw [hsb0] at hk; cases hk
    have hf := modSub_fields a0 k (fun sb => { sb with waiting := some sb.next })
    have : TInv net c ((s.modMB m fun a => a.modSub k fun sb => { sb with waiting := some sb.next }).setThr t ts) := by
      apply h.both hth hts ha0
      apply BothObl.subUpd hT h _ hsp ha0 hsb0 hrd
      · -- the thread does not move
        obtain ⟨p0, p1, p2⟩ := h.pc t th ts hth hts
        refine ⟨⟨p0, p1, p2⟩, ?_, ?_, ?_, ?_, ?_, ?_, fun x => x⟩
        · intro m2 a2 k2 sb2 x hne hm2 hk2 hw2 hr2
          obtain ⟨_, _, tsr, rest', hr1, hr2'⟩ := h.wait m2 a2 k2 sb2 x hm2 hk2 hw2
          rw [hr2, hts] at hr1; cases hr1; exact ⟨rest', hr2'⟩
        · intro m2 a2 k2 sb2 _ hm2 hk2 hr2 hin2
          exact h.rd m2 a2 k2 sb2 ts hm2 hk2 (by rw [hr2]; exact hts) hin2
        · intro m2 a2 _ hm2lt hm2 hs2
          exact (h.snd m2 a2 hm2lt hm2).2.2 ts (by rw [hs2]; exact hts)
        · intro own r hin2 hexc
          obtain ⟨k1, k2⟩ := h.kills t th ts own r hth hts hin2 hexc
          have hmono := hK (a0.modSub k fun sb => { sb with waiting := some sb.next }) (by intro x; rw [hf.2.2.1]; exact x)
          exact ⟨fun m' hm' => (k1 m' hm').imp id (hmono m'), fun ho m' hm' => (k2 ho m' hm').imp id (hmono m')⟩
        · intro r h1 h2 hexc
          exact hK _ (by intro x; rw [hf.2.2.1]; exact x) _ (h.sinkK t ts r h1 h2 hts hexc)
        · intro hmain u hu
          exact h.joins u ts hu (by rw [← hmain]; exact hts)
      · simp only; exact hbuf
      · intro x hwx
        simp only [Option.some.injEq] at hwx
        exact ⟨hwx.symm, hb, rest, hp⟩
      · intro _
        simp only
        have := h.rd m a0 k sb0 ts ha0 hsb0 (by rw [hrd]; exact hts) hin
        exact this
    rw [setThr_same _ _ _ (by simpa using hts)] at this
    exact this

end

end Strax.Net
