import StraxModel.Lemmas.NetInv
/-
  `TInv` is preserved by every step of a tree-shaped net, and holds initially.
-/
namespace Strax.Net
open Strax

/-! ### small list facts -/

theorem suffix_tail {α} {i : α} {r b : List α} (h : (i :: r) <:+ b) : r <:+ b :=
  List.IsSuffix.trans (List.suffix_cons i r) h

theorem suffix_head_mem {α} {i : α} {r b : List α} (h : (i :: r) <:+ b) : i ∈ b :=
  h.subset (by simp)

theorem suffix_mem {α} {x : α} {l b : List α} (h : l <:+ b) (hx : x ∈ l) : x ∈ b := h.subset hx

theorem count_cons_ne {i a : Instr} {r : List Instr} (h : i ≠ a) : (i :: r).count a = r.count a := by
  simp [h]

theorem count_cons_self {a : Instr} {r : List Instr} : (a :: r).count a = r.count a + 1 := by
  simp

theorem countOut_cons_other {i : Instr} {m : Nat} {r : List Instr} (h1 : i ≠ .send m) (h2 : i ≠ .close m) :
    countOut m (i :: r) = countOut m r := by
  simp [countOut, h1, h2]

/-- a suffix of `pre ++ [x]` that starts with something else than `x` (and `x ∉ pre`) still contains `x` further on -/
theorem suffix_last {α} [DecidableEq α] {i x : α} {r pre : List α} (h : (i :: r) <:+ pre ++ [x]) (hne : i ≠ x) : x ∈ r := by
  obtain ⟨p, hp⟩ := h
  have hl : (p ++ i :: r).getLast? = (pre ++ [x]).getLast? := by rw [hp]
  simp only [List.getLast?_append, List.getLast?_singleton] at hl
  cases r with
  | nil => simp at hl; exact absurd hl hne
  | cons y r' =>
    have : (y :: r').getLast? = some x := by
      simpa [List.getLast?_cons_cons] using hl
    exact List.mem_of_getLast? this

/-- … and one that starts with `x` (with `x ∉ pre`) is exactly `[x]` -/
theorem suffix_last_eq {α} {x : α} {r pre : List α} (h : (x :: r) <:+ pre ++ [x]) (hx : x ∉ pre) : r = [] := by
  obtain ⟨p, hp⟩ := h
  cases r with
  | nil => rfl
  | cons y r' =>
    exfalso
    -- x occurs in `pre ++ [x]` at a position that is not the last one
    have hlen : (p ++ x :: y :: r').length = (pre ++ [x]).length := by rw [hp]
    have hx' : x ∈ pre := by
      have : (p ++ x :: y :: r').dropLast = (pre ++ [x]).dropLast := by rw [hp]
      rw [List.dropLast_concat] at this
      rw [← this]
      have : (p ++ x :: y :: r').dropLast = p ++ (x :: y :: r').dropLast := by
        rw [List.dropLast_append_of_ne_nil]; simp
      rw [this]
      simp [List.dropLast_cons_cons]
    exact hx hx'

theorem dieOnlyLast_suffix {b : List Instr} (hb : dieOnlyLast b = true) {e : Nat} {r : List Instr} (h : (Instr.die e :: r) <:+ b) :
    r = [] := by
  induction b with
  | nil => simp at h
  | cons x b' ih =>
    rcases List.suffix_cons_iff.mp h with h1 | h1
    · cases h1
      cases r with
      | nil => rfl
      | cons y b'' => simp [dieOnlyLast, Instr.isDie] at hb
    · cases b' with
      | nil => simp at h1
      | cons y b'' =>
        simp only [dieOnlyLast, Bool.and_eq_true] at hb
        exact ih hb.2 h1

/-! ### where a stepping thread is -/

section
variable {net : Net} {c : Cert} {s : NState}

theorem TInv.thread (h : TInv net c s) {t : Nat} {ts : TSt} (hts : s.thr[t]? = some ts) :
    ∃ th, net.threads[t]? = some th := by
  have hlt : t < s.thr.length := (List.getElem?_eq_some_iff.mp hts).1
  rw [h.lenT] at hlt
  exact ⟨_, List.getElem?_eq_getElem hlt⟩

theorem TInv.mailbox (h : TInv net c s) {m : Nat} (hm : m < net.mbs.length) : ∃ a, s.mbs[m]? = some a := by
  rw [← h.lenM] at hm
  exact ⟨_, List.getElem?_eq_getElem hm⟩

theorem TInv.subscriber (h : TInv net c s) {m : Nat} {sp : MBSpec} {a : AMB} {k : Nat} (hsp : net.mbs[m]? = some sp)
    (ha : s.mbs[m]? = some a) (hk : k < sp.drive.length) : ∃ sb, a.subs[k]? = some sb := by
  rw [← h.lenS m sp a hsp ha] at hk
  exact ⟨_, List.getElem?_eq_getElem hk⟩

theorem epi_kinds (hT : TreeNet net c) {t : Nat} {th : Thread} (hth : net.threads[t]? = some th) {i : Instr} (hi : i ∈ th.epi) :
    (∃ m, i = .killIfExc m) ∨ (∃ m, i = .killIfOwn m) ∨ (∃ u, i = .join u) ∨ ∃ sv, i = .finish sv := by
  cases hT.kind hth with
  | main _ hok =>
    rcases hok.epi_mem hi with ⟨m, _, rfl⟩ | ⟨u, _, rfl⟩ | ⟨sv, rfl⟩
    · exact Or.inl ⟨m, rfl⟩
    · exact Or.inr (Or.inr (Or.inl ⟨u, rfl⟩))
    · exact Or.inr (Or.inr (Or.inr ⟨sv, rfl⟩))
  | sender m _ _ hok => rw [hok.2.2.1] at hi; simp at hi; exact Or.inl ⟨m, hi⟩
  | sink _ _ hok _ =>
    rw [hok.2.2.2.2.2] at hi; simp at hi; exact Or.inr (Or.inl ⟨_, hi⟩)

/-- an instruction that is not one of the epilogue kinds is executed in the body -/
theorem TInv.inBody (hT : TreeNet net c) (h : TInv net c s) {t : Nat} {th : Thread} {ts : TSt} {i : Instr} {rest : List Instr}
    (hth : net.threads[t]? = some th) (hts : s.thr[t]? = some ts) (hp : ts.prog = i :: rest)
    (hk : (∀ m, i ≠ .killIfExc m) ∧ (∀ m, i ≠ .killIfOwn m) ∧ (∀ u, i ≠ .join u) ∧ ∀ sv, i ≠ .finish sv) :
    ts.inEpi = false ∧ (i :: rest) <:+ th.body := by
  obtain ⟨_, h1, h2⟩ := h.pc t th ts hth hts
  cases hin : ts.inEpi with
  | false => exact ⟨rfl, by rw [← hp]; exact h1 hin⟩
  | true =>
    have hmem : i ∈ th.epi := suffix_head_mem (by rw [← hp]; exact (h2 hin).1)
    rcases epi_kinds hT hth hmem with ⟨m, rfl⟩ | ⟨m, rfl⟩ | ⟨u, rfl⟩ | ⟨sv, rfl⟩
    · exact absurd rfl (hk.1 m)
    · exact absurd rfl (hk.2.1 m)
    · exact absurd rfl (hk.2.2.1 u)
    · exact absurd rfl (hk.2.2.2 sv)

/-- the head instruction belongs to the thread's static program -/
theorem TInv.headMem (h : TInv net c s) {t : Nat} {th : Thread} {ts : TSt} {i : Instr} {rest : List Instr}
    (hth : net.threads[t]? = some th) (hts : s.thr[t]? = some ts) (hp : ts.prog = i :: rest) :
    (ts.inEpi = false ∧ (i :: rest) <:+ th.body) ∨ (ts.inEpi = true ∧ (i :: rest) <:+ th.epi) := by
  obtain ⟨_, h1, h2⟩ := h.pc t th ts hth hts
  cases hin : ts.inEpi with
  | false => exact Or.inl ⟨rfl, by rw [← hp]; exact h1 hin⟩
  | true => exact Or.inr ⟨rfl, by rw [← hp]; exact (h2 hin).1⟩

theorem advance_pc (h : TInv net c s) {t : Nat} {th : Thread} {ts : TSt} {i : Instr} {rest : List Instr}
    (hth : net.threads[t]? = some th) (hts : s.thr[t]? = some ts) (hp : ts.prog = i :: rest) :
    ts.advance.epi = th.epi ∧ (ts.advance.inEpi = false → ts.advance.prog <:+ th.body) ∧
    (ts.advance.inEpi = true → ts.advance.prog <:+ th.epi ∧ ts.advance.exc.isSome = true) := by
  obtain ⟨h0, h1, h2⟩ := h.pc t th ts hth hts
  simp only [TSt.advance, hp, List.tail_cons]
  refine ⟨h0, fun hin => suffix_tail (by rw [← hp]; exact h1 hin), fun hin => ⟨suffix_tail (by rw [← hp]; exact (h2 hin).1), (h2 hin).2⟩⟩

/-- obligations of a plain advance over an instruction that touches no mailbox -/
theorem ThrObl.advance (hT : TreeNet net c) (h : TInv net c s) {t : Nat} {th : Thread} {ts : TSt} {i : Instr} {rest : List Instr}
    (hth : net.threads[t]? = some th) (hts : s.thr[t]? = some ts) (hp : ts.prog = i :: rest)
    (excl : Nat → Prop) (K : Nat → Prop) (hK : ∀ m, s.killedMb m → K m)
    (hr : ∀ m k, i = .read m k → excl m) (hs : ∀ m, (i = .send m ∨ i = .close m) → excl m)
    (hk1 : ∀ m, i = .killIfExc m → ts.exc = none ∨ K m)
    (hk2 : ∀ m, i = .killIfOwn m → (∀ r, ts.exc ≠ some (true, r)) ∨ K m)
    (hj : ∀ u, i = .join u → s.endedThr u) : ThrObl net c s excl K t th ts ts.advance := by
  have hprog : ts.advance.prog = rest := by simp [TSt.advance, hp]
  refine ⟨advance_pc h hth hts hp, ?_, ?_, ?_, ?_, ?_, ?_, ?_⟩
  · -- wait: a waiting subscriber of t would have `read` as head
    intro m a k sb x hne hm hk hw hrd
    obtain ⟨_, _, tsr, rest', hr1, hr2⟩ := h.wait m a k sb x hm hk hw
    rw [hrd, hts] at hr1; cases hr1
    rw [hp] at hr2; cases hr2
    exact absurd (hr m k rfl) hne
  · intro m a k sb hne hm hk hrd hin
    have := h.rd m a k sb ts hm hk (by rw [hrd]; exact hts) (by simpa [TSt.advance] using hin)
    rw [hp, count_cons_ne (fun he => hne (hr m k he))] at this
    rw [hprog]; exact this
  · intro m a hne hmlt hm hsd
    obtain ⟨_, _, h3⟩ := h.snd m a hmlt hm
    obtain ⟨h4, h5⟩ := h3 ts (by rw [hsd]; exact hts)
    constructor
    · intro hin
      have := h4 (by simpa [TSt.advance] using hin)
      rw [hp, countOut_cons_other (fun he => hne (hs m (Or.inl he))) (fun he => hne (hs m (Or.inr he)))] at this
      rw [hprog]; exact this
    · intro hc; have := (h5 hc).1; rw [hp] at this; cases this
  · intro own r hin hexc
    have hin' : ts.inEpi = true := by simpa [TSt.advance] using hin
    have hexc' : ts.exc = some (own, r) := by simpa [TSt.advance] using hexc
    obtain ⟨k1, k2⟩ := h.kills t th ts own r hth hts hin' hexc'
    rw [hprog]
    constructor
    · intro m hm
      rcases k1 m hm with hk | hk
      · rw [hp] at hk
        rcases List.mem_cons.mp hk with hk | hk
        · rcases hk1 m hk.symm with this | this
          · rw [hexc'] at this; cases this
          · exact Or.inr this
        · exact Or.inl hk
      · exact Or.inr (hK m hk)
    · intro ho m hm
      rcases k2 ho m hm with hk | hk
      · rw [hp] at hk
        rcases List.mem_cons.mp hk with hk | hk
        · subst ho
          rcases hk2 m hk.symm with this | this
          · exact absurd hexc' (this r)
          · exact Or.inr this
        · exact Or.inl hk
      · exact Or.inr (hK m hk)
  · intro r h1 h2 hexc
    exact hK _ (h.sinkK t ts r h1 h2 hts (by simpa [TSt.advance] using hexc))
  · intro hmain u hu
    rw [hprog]
    rcases h.joins u ts hu (by rw [← hmain]; exact hts) with hj' | hj'
    · exact Or.inl hj'
    · rw [hp] at hj'
      rcases List.mem_cons.mp hj' with hj' | hj'
      · exact Or.inl (hj u hj'.symm)
      · exact Or.inr hj'
  · intro hnil; rw [hp] at hnil; cases hnil

end

section
variable {net : Net} {c : Cert} {s : NState}

theorem main_join_mem (hT : TreeNet net c) {th : Thread} (hth : net.threads[net.threads.length - 1]? = some th)
    {u : Nat} (hu : u < net.threads.length - 1) : Instr.join u ∈ th.epi := by
  cases hT.kind hth with
  | main _ hok =>
    obtain ⟨sv, he⟩ := hok.epi_eq
    rw [he]; simp only [List.mem_append, List.mem_map, List.mem_range]
    exact Or.inl (Or.inr ⟨u, hu, rfl⟩)
  | sender m hne _ _ => exact absurd rfl hne
  | sink hne _ _ _ => exact absurd rfl hne

/-- obligations of a jump to the epilogue (an exception raised by a body instruction) -/
theorem ThrObl.raise (hT : TreeNet net c) (h : TInv net c s) {t : Nat} {th : Thread} {ts : TSt} {i : Instr} {rest : List Instr}
    (hth : net.threads[t]? = some th) (hts : s.thr[t]? = some ts) (hp : ts.prog = i :: rest)
    (excl : Nat → Prop) (K : Nat → Prop) (hbody : ts.inEpi = false) (own : Bool) (e : Exc)
    (hw : ∀ m k, i = .read m k → excl m)
    (hsink : own = false → t < net.threads.length - 1 → c.out t = none → K (c.src t).1) :
    ThrObl net c s excl K t th ts (ts.raise own e) := by
  obtain ⟨h0, _, _⟩ := h.pc t th ts hth hts
  have hr : ts.raise own e = { ts with prog := ts.epi, inEpi := true, exc := some (own, e) } := by
    simp [TSt.raise, hbody]
  rw [hr]
  refine ⟨⟨h0, by simp, fun _ => ⟨by rw [h0]; exact List.suffix_refl _, rfl⟩⟩, ?_, ?_, ?_, ?_, ?_, ?_, ?_⟩
  · intro m a k sb x hne hm hk hwt hrd
    obtain ⟨_, _, tsr, rest', hr1, hr2⟩ := h.wait m a k sb x hm hk hwt
    rw [hrd, hts] at hr1; cases hr1
    rw [hp] at hr2; cases hr2
    exact absurd (hw m k rfl) hne
  · intro m a k sb _ _ _ _ hin; simp at hin
  · intro m a _ hmlt hm hsd
    obtain ⟨_, _, h3⟩ := h.snd m a hmlt hm
    obtain ⟨_, h5⟩ := h3 ts (by rw [hsd]; exact hts)
    exact ⟨by intro hin; simp at hin, by intro hc; have := (h5 hc).1; rw [hp] at this; cases this⟩
  · intro own' r _ hexc
    simp only [Option.some.injEq, Prod.mk.injEq] at hexc
    exact ⟨fun m hm => Or.inl (by rw [h0]; exact hm), fun _ m hm => Or.inl (by rw [h0]; exact hm)⟩
  · intro r h1 h2 hexc
    simp only [Option.some.injEq, Prod.mk.injEq] at hexc
    exact hsink hexc.1 h1 h2
  · intro hmain u hu
    subst hmain
    exact Or.inr (by simp only; rw [h0]; exact main_join_mem hT hth hu)
  · intro hnil; rw [hp] at hnil; cases hnil

end

section
variable {net : Net} {c : Cert} {s : NState}

theorem head_read (hT : TreeNet net c) (h : TInv net c s) {t : Nat} {th : Thread} {ts : TSt} {m k : Nat} {rest : List Instr}
    (hth : net.threads[t]? = some th) (hts : s.thr[t]? = some ts) (hp : ts.prog = .read m k :: rest) :
    ts.inEpi = false ∧ (Instr.read m k :: rest) <:+ th.body ∧ c.reader m k = t ∧
    ∃ sp a sb, net.mbs[m]? = some sp ∧ s.mbs[m]? = some a ∧ a.subs[k]? = some sb := by
  obtain ⟨hin, hsuf⟩ := h.inBody hT hth hts hp ⟨by simp, by simp, by simp, by simp⟩
  obtain ⟨hrd, sp, hsp, hk⟩ := read_owner hT hth (suffix_head_mem hsuf)
  have hmlt : m < net.mbs.length := (List.getElem?_eq_some_iff.mp hsp).1
  obtain ⟨a, ha⟩ := h.mailbox hmlt
  obtain ⟨sb, hsb⟩ := h.subscriber hsp ha hk
  exact ⟨hin, hsuf, hrd, sp, a, sb, hsp, ha, hsb⟩

theorem head_out (hT : TreeNet net c) (h : TInv net c s) {t : Nat} {th : Thread} {ts : TSt} {i : Instr} {m : Nat} {rest : List Instr}
    (hth : net.threads[t]? = some th) (hts : s.thr[t]? = some ts) (hp : ts.prog = i :: rest)
    (hi : i = .gate m ∨ i = .send m ∨ i = .close m) :
    ts.inEpi = false ∧ (i :: rest) <:+ th.body ∧ c.out t = some m ∧ c.sender m = t ∧ m < net.mbs.length ∧
    SenderOk c net.mbs.length t m th ∧ ∃ sp a, net.mbs[m]? = some sp ∧ s.mbs[m]? = some a := by
  obtain ⟨hin, hsuf⟩ := h.inBody hT hth hts hp (by rcases hi with rfl | rfl | rfl <;> exact ⟨by simp, by simp, by simp, by simp⟩)
  obtain ⟨ho, hsd, hmlt, hok⟩ := out_owner hT hth (suffix_head_mem hsuf) hi
  obtain ⟨a, ha⟩ := h.mailbox hmlt
  exact ⟨hin, hsuf, ho, hsd, hmlt, hok, _, a, List.getElem?_eq_getElem hmlt, ha⟩

theorem head_join (hT : TreeNet net c) (h : TInv net c s) {t : Nat} {th : Thread} {ts : TSt} {u : Nat} {rest : List Instr}
    (hth : net.threads[t]? = some th) (hts : s.thr[t]? = some ts) (hp : ts.prog = .join u :: rest) :
    u < net.threads.length - 1 := by
  have hmem : Instr.join u ∈ th.body ∨ Instr.join u ∈ th.epi := by
    rcases h.headMem hth hts hp with ⟨_, hs⟩ | ⟨_, hs⟩
    · exact Or.inl (suffix_head_mem hs)
    · exact Or.inr (suffix_head_mem hs)
  cases hT.kind hth with
  | main _ hok =>
    have : Instr.join u ∈ th.epi := by
      rcases hmem with hm | hm
      · rcases hok.body_mem hm with h1 | h1 | h1
        · cases h1
        · simp [Instr.isFail] at h1
        · exact h1
      · exact hm
    rcases hok.epi_mem this with ⟨_, _, h2⟩ | ⟨u', hu', h2⟩ | ⟨_, h2⟩
    · cases h2
    · cases h2; exact hu'
    · cases h2
  | sender m _ _ hok =>
    rcases hmem with hm | hm
    · rcases hok.mem hm with h1 | h1
      · cases h1
      · simp [senderInstrOk] at h1
    · rw [hok.2.2.1] at hm; simp at hm
  | sink _ _ hok _ =>
    rcases hmem with hm | hm
    · rcases hok.2.2.2.1 _ hm with h1 | h1 | h1
      · cases h1
      · simp [Instr.isFail] at h1
      · simp [Instr.isDie] at h1
    · rw [hok.2.2.2.2.2] at hm; simp at hm

/-- `dropEpi` occurs in no program of a tree-shaped net -/
theorem head_not_dropEpi (hT : TreeNet net c) (h : TInv net c s) {t : Nat} {th : Thread} {ts : TSt} {rest : List Instr}
    {i : Instr} (hi : i = .dropEpi ∨ ∃ ms, i = .setEpi ms)
    (hth : net.threads[t]? = some th) (hts : s.thr[t]? = some ts) (hp : ts.prog = i :: rest) : False := by
  obtain ⟨_, hsuf⟩ := h.inBody hT hth hts hp (by rcases hi with rfl | ⟨ms, rfl⟩ <;> exact ⟨by simp, by simp, by simp, by simp⟩)
  have hm := suffix_head_mem hsuf
  cases hT.kind hth with
  | main _ hok =>
    rcases hok.body_mem hm with h1 | h1 | h1
    · rcases hi with rfl | ⟨ms, rfl⟩ <;> cases h1
    · rcases hi with rfl | ⟨ms, rfl⟩ <;> simp [Instr.isFail] at h1
    · rcases hok.epi_mem h1 with ⟨_, _, h2⟩ | ⟨_, _, h2⟩ | ⟨_, h2⟩ <;> rcases hi with rfl | ⟨ms, rfl⟩ <;> cases h2
  | sender m _ _ hok =>
    rcases hok.mem hm with h1 | h1
    · rcases hi with rfl | ⟨ms, rfl⟩ <;> cases h1
    · rcases hi with rfl | ⟨ms, rfl⟩ <;> simp [senderInstrOk] at h1
  | sink _ _ hok _ =>
    rcases hok.2.2.2.1 _ hm with h1 | h1 | h1
    · rcases hi with rfl | ⟨ms, rfl⟩ <;> cases h1
    · rcases hi with rfl | ⟨ms, rfl⟩ <;> simp [Instr.isFail] at h1
    · rcases hi with rfl | ⟨ms, rfl⟩ <;> simp [Instr.isDie] at h1

/-- the state with only the outcome changed satisfies the same invariant -/
theorem TInv.withOutcome (h : TInv net c s) (o : Option Outcome) : TInv net c { s with outcome := o } :=
  ⟨h.lenT, h.lenM, h.lenS, h.pc, h.sub, h.wait, h.rd, h.snd, h.kills, h.sinkK, h.joins⟩

end

section
variable {net : Net} {c : Cert} {s : NState}

/-- mailbox-local obligations when thread `t` (the reader of subscriber `k` of `m`) updates only that subscriber entry -/
theorem BothObl.subUpd (hT : TreeNet net c) (h : TInv net c s) {t : Nat} {th : Thread} {ts ts' : TSt} {m k : Nat}
    {sp : MBSpec} {a : AMB} {sb : ASub} (g : ASub → ASub)
    (hsp : net.mbs[m]? = some sp) (hm : s.mbs[m]? = some a) (hk : a.subs[k]? = some sb) (hrd : c.reader m k = t)
    (o : ThrObl net c s (fun x => x = m) (killedNew s m (a.modSub k g)) t th ts ts')
    (hb : (g sb).buffered ≤ (g sb).next ∧ (g sb).next ≤ a.nSent)
    (hwt : ∀ x, (g sb).waiting = some x → x = (g sb).next ∧ (g sb).buffered = 0 ∧ ∃ rest, ts'.prog = .read m k :: rest)
    (hrk : ts'.inEpi = false → ts'.prog.count (.read m k) + ((g sb).next - (g sb).buffered) = tot net c m) :
    BothObl net c s t th ts ts' m a (a.modSub k g) := by
  have hf := modSub_fields a k g
  have hlenS := h.lenS m sp a hsp hm
  have hklt : k < sp.drive.length := by rw [← hlenS]; exact (List.getElem?_eq_some_iff.mp hk).1
  have hother : ∀ k2 sb2, k ≠ k2 → a.subs[k2]? = some sb2 → c.reader m k2 ≠ t := by
    intro k2 sb2 hne hk2 heq
    have hk2lt : k2 < sp.drive.length := by rw [← hlenS]; exact (List.getElem?_eq_some_iff.mp hk2).1
    exact hne (reader_inj hT hsp hklt hk2lt (by rw [hrd, heq]))
  have hmlt : m < net.mbs.length := (List.getElem?_eq_some_iff.mp hsp).1
  have hns : c.sender m ≠ t := by rw [← hrd]; exact (reader_not_sender hT hsp hklt).symm
  apply BothObl.of hm o
  · intro hkl; rw [hf.2.2.1]; exact hkl
  · exact hf.2.2.2.2
  · intro k2 sb' h2
    rw [modSub_subs] at h2
    by_cases hkk : k = k2
    · subst hkk; simp [hk] at h2; subst h2; rw [hf.1]; exact hb
    · simp [hkk] at h2; rw [hf.1]; exact h.sub m a k2 sb' hm h2
  · intro k2 sb' x h2 hw
    rw [modSub_subs] at h2
    by_cases hkk : k = k2
    · subst hkk; simp [hk] at h2; subst h2
      obtain ⟨h1, h2', h3⟩ := hwt x hw
      exact ⟨h1, h2', by simp only [hrd, if_true]; exact h3⟩
    · simp [hkk] at h2
      obtain ⟨h1, h2', h3⟩ := h.wait m a k2 sb' x hm h2 hw
      exact ⟨h1, h2', by simp only [hother k2 sb' hkk h2, if_false]; exact h3⟩
  · intro k2 sb' h2
    rw [modSub_subs] at h2
    by_cases hkk : k = k2
    · subst hkk; simp [hk] at h2; subst h2
      simp only [hrd, if_true]; exact hrk
    · simp [hkk] at h2
      simp only [hother k2 sb' hkk h2, if_false]
      intro tsr hr hin; exact h.rd m a k2 sb' tsr hm h2 hr hin
  · intro _
    obtain ⟨h1, h2, h3⟩ := h.snd m a hmlt hm
    rw [hf.1, hf.2.1]
    refine ⟨h1, h2, ?_⟩
    simp only [hns, if_false]
    exact h3

end

section
variable {net : Net} {c : Cert} {s : NState}

theorem setThr_same (s : NState) (t : Nat) (ts : TSt) (h : s.thr[t]? = some ts) : s.setThr t ts = s := by
  obtain ⟨hlt, he⟩ := List.getElem?_eq_some_iff.mp h
  simp only [NState.setThr]
  have : s.thr.set t ts = s.thr := by rw [← he]; exact List.set_getElem_self hlt
  rw [this]

theorem TInv.step_read (hT : TreeNet net c) (h : TInv net c s) {t : Nat} {th : Thread} {ts : TSt} {m k : Nat} {rest : List Instr}
    {s' : NState} (hth : net.threads[t]? = some th) (hts : s.thr[t]? = some ts) (hp : ts.prog = .read m k :: rest)
    (heff : Effect net s t ts (.read m k) s') : TInv net c s' := by
  obtain ⟨hin, hsuf, hrd, sp, a0, sb0, hsp, ha0, hsb0⟩ := head_read hT h hth hts hp
  have hbuf := h.sub m a0 k sb0 ha0 hsb0
  have hrd0 := h.rd m a0 k sb0 ts ha0 hsb0 (by rw [hrd]; exact hts) hin
  rw [hp, count_cons_self] at hrd0
  have hK : ∀ (a' : AMB), (a0.killed = true → a'.killed = true) → ∀ m', s.killedMb m' → killedNew s m a' m' :=
    fun a' hmono m' => killedNew_of_old ha0 hmono m'
  cases heff with
  | advance _ hr _ _ _ _ _ =>
    rcases hr m k rfl with h1 | ⟨a', h1, h2⟩
    · rw [ha0] at h1; cases h1
    · rw [ha0] at h1; cases h1; rw [hsb0] at h2; cases h2
  | readPop _ _ a sb hm hk hb =>
    rw [ha0] at hm; cases hm; rw [hsb0] at hk; cases hk
    apply h.both hth hts ha0
    have hf := modSub_fields a0 k (fun sb => { sb with buffered := sb.buffered - 1 })
    apply BothObl.subUpd hT h _ hsp ha0 hsb0 hrd
    · exact ThrObl.advance hT h hth hts hp _ _ (hK _ (by intro x; rw [hf.2.2.1]; exact x))
        (by intro m' k' he; cases he; rfl) (by intro m' he; rcases he with he | he <;> cases he)
        (by intro m' he; cases he) (by intro m' he; cases he) (by intro u he; cases he)
    · simp only; omega
    · intro x hw
      simp only at hw
      have := (h.wait m a0 k sb0 x ha0 hsb0 hw).2.1
      omega
    · intro _
      simp only [TSt.advance, hp, List.tail_cons]
      omega
  | readKilled _ _ a sb hm hk hb hkill =>
    rw [ha0] at hm; cases hm; rw [hsb0] at hk; cases hk
    apply h.both hth hts ha0
    have hf := modSub_fields a0 k (fun sb => { sb with waiting := none })
    have hkn : killedNew s m (a0.modSub k fun sb => { sb with waiting := none }) m := by
      unfold killedNew; simp only [if_true]; rw [hf.2.2.1]; exact hkill
    apply BothObl.subUpd hT h _ hsp ha0 hsb0 hrd
    · apply ThrObl.raise hT h hth hts hp _ _ hin
      · intro m' k' he; cases he; rfl
      · intro _ hlt hout
        -- a sink reads only its own mailbox
        cases hT.kind hth with
        | main hmain _ => omega
        | sender mo _ ho _ => rw [hout] at ho; cases ho
        | sink _ _ hok _ =>
          rcases hok.2.2.2.1 _ (suffix_head_mem hsuf) with h1 | h1 | h1
          · cases h1; exact hkn
          · simp [Instr.isFail] at h1
          · simp [Instr.isDie] at h1
    · simp only; exact hbuf
    · intro x hw; simp at hw
    · intro hin'; simp [TSt.raise, hin] at hin'
  | readTake _ _ a sb hm hk hb hkill hlt =>
    rw [ha0] at hm; cases hm; rw [hsb0] at hk; cases hk
    apply h.both hth hts ha0
    have hf := modSub_fields a0 k (fun sb => { sb with buffered := a0.nSent - sb.next - 1, next := a0.nSent, waiting := none })
    apply BothObl.subUpd hT h _ hsp ha0 hsb0 hrd
    · exact ThrObl.advance hT h hth hts hp _ _ (hK _ (by intro x; rw [hf.2.2.1]; exact x))
        (by intro m' k' he; cases he; rfl) (by intro m' he; rcases he with he | he <;> cases he)
        (by intro m' he; cases he) (by intro m' he; cases he) (by intro u he; cases he)
    · simp only; omega
    · intro x hw; simp at hw
    · intro _
      simp only [TSt.advance, hp, List.tail_cons]
      omega
  | readWait _ _ a sb hm hk hb hkill hlt hw =>
    rw [ha0] at hm; cases hm; rw [hsb0] at hk; cases hk
    have hf := modSub_fields a0 k (fun sb => { sb with waiting := some sb.next })
    have : TInv net c ((s.modMB m fun a => a.modSub k fun sb => { sb with waiting := some sb.next }).setThr t ts) := by
      apply h.both hth hts ha0
      apply BothObl.subUpd hT h _ hsp ha0 hsb0 hrd
      · -- the thread does not move
        obtain ⟨p0, p1, p2⟩ := h.pc t th ts hth hts
        refine ⟨⟨p0, p1, p2⟩, ?_, ?_, ?_, ?_, ?_, ?_, fun x => x⟩
        · intro m2 a2 k2 sb2 x hne hm2 hk2 hw2 hr2
          obtain ⟨_, _, tsr, rest', hr1, hr2'⟩ := h.wait m2 a2 k2 sb2 x hm2 hk2 hw2
          rw [hr2, hts] at hr1; cases hr1; exact ⟨rest', hr2'⟩
        · intro m2 a2 k2 sb2 _ hm2 hk2 hr2 hin2
          exact h.rd m2 a2 k2 sb2 ts hm2 hk2 (by rw [hr2]; exact hts) hin2
        · intro m2 a2 _ hm2lt hm2 hs2
          exact (h.snd m2 a2 hm2lt hm2).2.2 ts (by rw [hs2]; exact hts)
        · intro own r hin2 hexc
          obtain ⟨k1, k2⟩ := h.kills t th ts own r hth hts hin2 hexc
          have hmono := hK (a0.modSub k fun sb => { sb with waiting := some sb.next }) (by intro x; rw [hf.2.2.1]; exact x)
          exact ⟨fun m' hm' => (k1 m' hm').imp id (hmono m'), fun ho m' hm' => (k2 ho m' hm').imp id (hmono m')⟩
        · intro r h1 h2 hexc
          exact hK _ (by intro x; rw [hf.2.2.1]; exact x) _ (h.sinkK t ts r h1 h2 hts hexc)
        · intro hmain u hu
          exact h.joins u ts hu (by rw [← hmain]; exact hts)
      · simp only; exact hbuf
      · intro x hwx
        simp only [Option.some.injEq] at hwx
        exact ⟨hwx.symm, hb, rest, hp⟩
      · intro _
        simp only
        have := h.rd m a0 k sb0 ts ha0 hsb0 (by rw [hrd]; exact hts) hin
        exact this
    rw [setThr_same _ _ _ (by simpa using hts)] at this
    exact this
  | outClosed _ m' a' hi _ _ => rcases hi with hi | hi <;> cases hi
  | outKilled _ m' a' hi _ _ _ => rcases hi with hi | hi <;> cases hi
  | kill _ m' own r _ hi => rcases hi with hi | ⟨hi, _⟩ <;> cases hi

end

section
variable {net : Net} {c : Cert} {s : NState}

theorem countOut_cons_send {m : Nat} {r : List Instr} : countOut m (.send m :: r) = countOut m r + 1 := by
  simp [countOut]; omega

theorem countOut_cons_close {m : Nat} {r : List Instr} : countOut m (.close m :: r) = countOut m r + 1 := by
  simp [countOut]; omega

theorem countOut_pos_of_close {m : Nat} {r : List Instr} (h : Instr.close m ∈ r) : 1 ≤ countOut m r := by
  have := List.count_pos_iff.mpr h
  unfold countOut; omega

/-- `send m` / `close m` executed by the sender of `m` -/
theorem TInv.step_out (hT : TreeNet net c) (h : TInv net c s) {t : Nat} {th : Thread} {ts : TSt} {i : Instr} {m : Nat}
    {rest : List Instr} {s' : NState} (hth : net.threads[t]? = some th) (hts : s.thr[t]? = some ts) (hp : ts.prog = i :: rest)
    (hi : i = .send m ∨ i = .close m) (heff : Effect net s t ts i s') : TInv net c s' := by
  obtain ⟨hin, hsuf, hout, hsd, hmlt, hok, sp, a0, hsp, ha0⟩ := head_out (m := m) hT h hth hts hp
    (hi.elim (fun x => Or.inr (Or.inl x)) (fun x => Or.inr (Or.inr x)))
  obtain ⟨hs1, hs2, hs3⟩ := h.snd m a0 hmlt ha0
  obtain ⟨hs4, hs5⟩ := hs3 ts (by rw [hsd]; exact hts)
  have hcnt := hs4 hin
  have hncl : a0.closed = false := by
    cases hc : a0.closed with
    | false => rfl
    | true => have := (hs5 hc).1; rw [hp] at this; cases this
  rw [hok.body] at hsuf
  have hnotclose : Instr.close m ∉ th.body.dropLast := by
    intro hmem; have := hok.2.2.2.2 _ hmem; simp [senderInstrOk] at this
  -- the generic part: every sub-entry is untouched, the thread advances
  have generic : ∀ (a' : AMB), a'.subs = a0.subs → a'.killed = a0.killed → a'.nSent = a0.nSent + 1 →
      (a'.nSent ≤ tot net c m ∧ (a'.closed = true ↔ a'.nSent = tot net c m) ∧
        (ts.advance.inEpi = false → countOut m ts.advance.prog + a'.nSent = tot net c m) ∧
        (a'.closed = true → ts.advance.prog = [] ∧ ts.advance.inEpi = false)) →
      BothObl net c s t th ts ts.advance m a0 a' := by
    intro a' hsubs hkil hns hsnd
    apply BothObl.of ha0
    · exact ThrObl.advance hT h hth hts hp _ _ (killedNew_of_old ha0 (by rw [hkil]; exact id))
        (by intro m' k' he; rcases hi with hi | hi <;> rw [hi] at he <;> cases he)
        (by intro m' he; rcases hi with hi | hi <;> rw [hi] at he <;> rcases he with he | he <;> cases he <;> rfl)
        (by intro m' he; rcases hi with hi | hi <;> rw [hi] at he <;> cases he)
        (by intro m' he; rcases hi with hi | hi <;> rw [hi] at he <;> cases he)
        (by intro u he; rcases hi with hi | hi <;> rw [hi] at he <;> cases he)
    · rw [hkil]; exact id
    · rw [hsubs]
    · intro k2 sb' h2
      rw [hsubs] at h2
      have := h.sub m a0 k2 sb' ha0 h2
      rw [hns]; omega
    · intro k2 sb' x h2 hw
      rw [hsubs] at h2
      obtain ⟨h1, h2', tsr, rest', hr1, hr2⟩ := h.wait m a0 k2 sb' x ha0 h2 hw
      refine ⟨h1, h2', ?_⟩
      have hne : c.reader m k2 ≠ t := by
        intro heq; rw [heq, hts] at hr1; cases hr1; rw [hp] at hr2
        rcases hi with hi | hi <;> rw [hi] at hr2 <;> cases hr2
      simp only [hne, if_false]; exact ⟨tsr, rest', hr1, hr2⟩
    · intro k2 sb' h2
      rw [hsubs] at h2
      by_cases hr : c.reader m k2 = t
      · simp only [hr, if_true]
        intro hin'
        have := h.rd m a0 k2 sb' ts ha0 h2 (by rw [hr]; exact hts) hin
        rw [hp, count_cons_ne (by rcases hi with hi | hi <;> rw [hi] <;> simp)] at this
        simpa [TSt.advance, hp] using this
      · simp only [hr, if_false]
        intro tsr hr1 hin'; exact h.rd m a0 k2 sb' tsr ha0 h2 hr1 hin'
    · intro _
      obtain ⟨g1, g2, g3, g4⟩ := hsnd
      refine ⟨g1, g2, ?_⟩
      simp only [hsd, if_true]; exact ⟨g3, g4⟩
  rcases hi with rfl | rfl
  · -- send m
    cases heff with
    | advance _ _ hs' _ _ _ _ =>
      rcases hs' m (Or.inl rfl) with h1 | h1
      · rw [hsp] at h1; cases h1
      · rw [ha0] at h1; cases h1
    | sendOk _ sp' a hsp' hm hcl hkl hcap =>
      rw [ha0] at hm; cases hm
      apply h.both hth hts ha0
      rw [hp, countOut_cons_send] at hcnt
      have hclose : Instr.close m ∈ rest := suffix_last hsuf (by simp)
      have := countOut_pos_of_close hclose
      refine generic ({ a0 with nSent := a0.nSent + 1 } : AMB) rfl rfl rfl ?_
      refine ⟨by simp only; omega, ?_, ?_, ?_⟩
      · simp only [hncl]; constructor
        · intro hx; cases hx
        · intro hx; omega
      · intro _; simp only [TSt.advance, hp, List.tail_cons]; omega
      · simp only [hncl]; intro hx; cases hx
    | outClosed _ m' a hi' hm hcl =>
      have : m' = m := by rcases hi' with hi' | hi' <;> cases hi'; rfl
      subst this
      rw [ha0] at hm; cases hm; rw [hncl] at hcl; cases hcl
    | outKilled _ m' a hi' hm hcl hkl =>
      apply h.thrOnly hth hts
      apply ThrObl.raise hT h hth hts hp _ _ hin
      · intro m2 k2 he; cases he
      · intro _ _ hnone; rw [hout] at hnone; cases hnone
    | kill _ m' own r _ hi' => rcases hi' with hi' | ⟨hi', _⟩ <;> cases hi'
  · -- close m
    cases heff with
    | advance _ _ hs' _ _ _ _ =>
      rcases hs' m (Or.inr rfl) with h1 | h1
      · rw [hsp] at h1; cases h1
      · rw [ha0] at h1; cases h1
    | closeOk _ sp' a hsp' hm hcl hkl hcap =>
      rw [ha0] at hm; cases hm
      apply h.both hth hts ha0
      rw [hp, countOut_cons_close] at hcnt
      have hrest : rest = [] := suffix_last_eq hsuf hnotclose
      subst hrest
      refine generic ({ a0 with nSent := a0.nSent + 1, closed := true } : AMB) rfl rfl rfl ?_
      refine ⟨by simp only; simp [countOut] at hcnt; omega, ?_, ?_, ?_⟩
      · simp only; simp [countOut] at hcnt; constructor
        · intro _; omega
        · intro _; trivial
      · intro _; simp only [TSt.advance, hp, List.tail_cons]; simp [countOut] at hcnt ⊢; omega
      · intro _; simp [TSt.advance, hp, hin]
    | outClosed _ m' a hi' hm hcl =>
      have : m' = m := by rcases hi' with hi' | hi' <;> cases hi'; rfl
      subst this
      rw [ha0] at hm; cases hm; rw [hncl] at hcl; cases hcl
    | outKilled _ m' a hi' hm hcl hkl =>
      apply h.thrOnly hth hts
      apply ThrObl.raise hT h hth hts hp _ _ hin
      · intro m2 k2 he; cases he
      · intro _ _ hnone; rw [hout] at hnone; cases hnone
    | kill _ m' own r _ hi' => rcases hi' with hi' | ⟨hi', _⟩ <;> cases hi'

end

section
variable {net : Net} {c : Cert} {s : NState}

/-- a kill instruction at the head of a program names an existing mailbox -/
theorem head_kill_valid (hT : TreeNet net c) (h : TInv net c s) {t : Nat} {th : Thread} {ts : TSt} {i : Instr} {m : Nat}
    {rest : List Instr} (hth : net.threads[t]? = some th) (hts : s.thr[t]? = some ts) (hp : ts.prog = i :: rest)
    (hi : i = .killIfExc m ∨ i = .killIfOwn m) : m < net.mbs.length := by
  have hmem : i ∈ th.body ∨ i ∈ th.epi := by
    rcases h.headMem hth hts hp with ⟨_, hs⟩ | ⟨_, hs⟩
    · exact Or.inl (suffix_head_mem hs)
    · exact Or.inr (suffix_head_mem hs)
  cases hT.kind hth with
  | main _ hok =>
    have : i ∈ th.epi := by
      rcases hmem with hm | hm
      · rcases hok.body_mem hm with h1 | h1 | h1
        · rcases hi with rfl | rfl <;> cases h1
        · rcases hi with rfl | rfl <;> simp [Instr.isFail] at h1
        · exact h1
      · exact hm
    rcases hok.epi_mem this with ⟨m', hm', h2⟩ | ⟨_, _, h2⟩ | ⟨_, h2⟩
    · rcases hi with rfl | rfl <;> cases h2; exact hm'
    · rcases hi with rfl | rfl <;> cases h2
    · rcases hi with rfl | rfl <;> cases h2
  | sender mo _ _ hok =>
    rcases hmem with hm | hm
    · rcases hok.mem hm with h1 | h1
      · rcases hi with rfl | rfl <;> cases h1
      · rcases hi with rfl | rfl <;> simp [senderInstrOk] at h1
    · rw [hok.2.2.1] at hm; simp at hm
      rcases hi with rfl | rfl <;> cases hm; exact hok.1
  | sink _ _ hok _ =>
    rcases hmem with hm | hm
    · rcases hok.2.2.2.1 _ hm with h1 | h1 | h1
      · rcases hi with rfl | rfl <;> cases h1
      · rcases hi with rfl | rfl <;> simp [Instr.isFail] at h1
      · rcases hi with rfl | rfl <;> simp [Instr.isDie] at h1
    · rw [hok.2.2.2.2.2] at hm; simp at hm
      rcases hi with rfl | rfl <;> cases hm; exact hok.1

theorem kill_fields (a : AMB) (r : Exc) :
    (a.kill r).subs = a.subs ∧ (a.kill r).nSent = a.nSent ∧ (a.kill r).closed = a.closed ∧ (a.kill r).killed = true := by
  unfold AMB.kill; split
  · rename_i hk; exact ⟨rfl, rfl, rfl, hk⟩
  · exact ⟨rfl, rfl, rfl, rfl⟩

/-- every step of a tree-shaped net preserves the invariant -/
theorem TInv.step (hT : TreeNet net c) (h : TInv net c s) {t : Nat} {s' : NState} (hs : step net s t = some s') :
    TInv net c s' := by
  obtain ⟨ts, i, rest, hts, hp, heff⟩ := step_cases hs
  obtain ⟨th, hth⟩ := h.thread hts
  -- instruction kinds with their own lemma
  by_cases hread : ∃ m k, i = .read m k
  · obtain ⟨m, k, rfl⟩ := hread; exact h.step_read hT hth hts hp heff
  by_cases hout : ∃ m, i = .send m ∨ i = .close m
  · obtain ⟨m, hi⟩ := hout; exact h.step_out hT hth hts hp hi heff
  have hnr : ∀ m k, i ≠ .read m k := fun m k he => hread ⟨m, k, he⟩
  have hns : ∀ m, ¬ (i = .send m ∨ i = .close m) := fun m he => hout ⟨m, he⟩
  cases heff with
  | advance _ hr hs' hk1 hk2 hj hn =>
    apply h.thrOnly hth hts
    apply ThrObl.advance hT h hth hts hp _ _ (fun _ x => x)
    · intro m k he; exact absurd he (hnr m k)
    · intro m he; exact absurd he (hns m)
    · intro m he; exact Or.inl (hk1 m he)
    · intro m he; exact Or.inl (hk2 m he)
    · intro u he; subst he
      have hu := head_join hT h hth hts hp
      have hu' : u < s.thr.length := by rw [h.lenT]; omega
      exact ⟨s.thr[u]'hu', List.getElem?_eq_getElem hu', hj u rfl _ (List.getElem?_eq_getElem hu')⟩
  | readPop m k _ _ _ _ _ => exact absurd rfl (hnr m k)
  | readKilled m k _ _ _ _ _ _ => exact absurd rfl (hnr m k)
  | readTake m k _ _ _ _ _ _ _ => exact absurd rfl (hnr m k)
  | readWait m k _ _ _ _ _ _ _ _ => exact absurd rfl (hnr m k)
  | sendOk m _ _ _ _ _ _ _ => exact absurd (Or.inl rfl) (hns m)
  | closeOk m _ _ _ _ _ _ _ => exact absurd (Or.inr rfl) (hns m)
  | outClosed _ m _ hi _ _ => exact absurd hi (hns m)
  | outKilled _ m _ hi _ _ _ => exact absurd hi (hns m)
  | fail e =>
    obtain ⟨hin, _⟩ := h.inBody hT hth hts hp ⟨by simp, by simp, by simp, by simp⟩
    apply h.thrOnly hth hts
    apply ThrObl.raise hT h hth hts hp _ _ hin
    · intro m k he; cases he
    · intro hx; cases hx
  | die e =>
    obtain ⟨hin, hsuf⟩ := h.inBody hT hth hts hp ⟨by simp, by simp, by simp, by simp⟩
    obtain ⟨p0, _, _⟩ := h.pc t th ts hth hts
    -- `die` only occurs in sinks, as the last instruction
    have hsink : t ≠ net.threads.length - 1 ∧ dieOnlyLast th.body = true := by
      have hm := suffix_head_mem hsuf
      cases hT.kind hth with
      | main _ hok =>
        rcases hok.body_mem hm with h1 | h1 | h1
        · cases h1
        · simp [Instr.isFail] at h1
        · rcases hok.epi_mem h1 with ⟨_, _, h2⟩ | ⟨_, _, h2⟩ | ⟨_, h2⟩ <;> cases h2
      | sender mo _ _ hok =>
        rcases hok.mem hm with h1 | h1
        · cases h1
        · simp [senderInstrOk] at h1
      | sink hne _ hok _ => exact ⟨hne, hok.2.2.2.2.1⟩
    have hrest : rest = [] := dieOnlyLast_suffix hsink.2 hsuf
    subst hrest
    apply h.thrOnly hth hts
    refine ⟨⟨p0, fun _ => List.nil_suffix, fun hx => by simp [hin] at hx⟩, ?_, ?_, ?_, ?_, ?_, ?_, ?_⟩
    · intro m a k sb x _ hm hk hw hrd
      obtain ⟨_, _, tsr, rest', hr1, hr2⟩ := h.wait m a k sb x hm hk hw
      rw [hrd, hts] at hr1; cases hr1
      rw [hp] at hr2; cases hr2
    · intro m a k sb _ hm hk hrd _
      have := h.rd m a k sb ts hm hk (by rw [hrd]; exact hts) hin
      rw [hp] at this; simpa using this
    · intro m a _ hmlt hm hsd
      obtain ⟨_, _, h3⟩ := h.snd m a hmlt hm
      obtain ⟨h4, h5⟩ := h3 ts (by rw [hsd]; exact hts)
      constructor
      · intro _
        have := h4 hin
        rw [hp] at this; simpa [countOut] using this
      · intro hc; have := (h5 hc).1; rw [hp] at this; cases this
    · intro own r hx; simp [hin] at hx
    · intro r h1 h2 hexc
      cases hx : ts.exc with
      | none => simp [hx] at hexc
      | some x => simp [hx] at hexc; exact h.sinkK t ts r h1 h2 hts (by rw [hx, hexc])
    · intro hmain; exact absurd hmain hsink.1
    · intro hnil; rw [hp] at hnil
  | kill _ m own r hexc hi =>
    have hi' : i = .killIfExc m ∨ i = .killIfOwn m := hi.imp id (fun x => x.1)
    have hmlt := head_kill_valid hT h hth hts hp hi'
    obtain ⟨a, ha⟩ := h.mailbox hmlt
    obtain ⟨kf1, kf2, kf3, kf4⟩ := kill_fields a r
    apply h.both hth hts ha
    have hkn : killedNew s m (a.kill r) m := by unfold killedNew; simp only [if_true]; exact kf4
    apply BothObl.of ha
    · apply ThrObl.advance hT h hth hts hp _ _ (killedNew_of_old ha (fun _ => kf4))
      · intro m' k' he; exact absurd he (hnr m' k')
      · intro m' he; exact absurd he (hns m')
      · intro m' he
        rcases hi with hi | ⟨hi, _⟩
        · rw [hi] at he; cases he; exact Or.inr hkn
        · rw [hi] at he; cases he
      · intro m' he
        rcases hi with hi | ⟨hi, _⟩
        · rw [hi] at he; cases he
        · rw [hi] at he; cases he; exact Or.inr hkn
      · intro u he; rcases hi with hi | ⟨hi, _⟩ <;> rw [hi] at he <;> cases he
    · intro _; exact kf4
    · rw [kf1]
    · intro k2 sb' h2; rw [kf1] at h2; rw [kf2]; exact h.sub m a k2 sb' ha h2
    · intro k2 sb' x h2 hw
      rw [kf1] at h2
      obtain ⟨h1, h2', tsr, rest', hr1, hr2⟩ := h.wait m a k2 sb' x ha h2 hw
      refine ⟨h1, h2', ?_⟩
      have hne : c.reader m k2 ≠ t := by
        intro heq; rw [heq, hts] at hr1; cases hr1; rw [hp] at hr2; cases hr2
        exact absurd rfl (hnr m k2)
      simp only [hne, if_false]; exact ⟨tsr, rest', hr1, hr2⟩
    · intro k2 sb' h2
      rw [kf1] at h2
      by_cases hr : c.reader m k2 = t
      · simp only [hr, if_true]
        intro hin'
        have hin : ts.inEpi = false := by simpa [TSt.advance] using hin'
        have := h.rd m a k2 sb' ts ha h2 (by rw [hr]; exact hts) hin
        rw [hp, count_cons_ne (hnr m k2)] at this
        simpa [TSt.advance, hp] using this
      · simp only [hr, if_false]
        intro tsr hr1 hin'; exact h.rd m a k2 sb' tsr ha h2 hr1 hin'
    · intro _
      obtain ⟨g1, g2, g3⟩ := h.snd m a hmlt ha
      rw [kf2, kf3]
      refine ⟨g1, g2, ?_⟩
      by_cases hsd : c.sender m = t
      · simp only [hsd, if_true]
        obtain ⟨g4, g5⟩ := g3 ts (by rw [hsd]; exact hts)
        constructor
        · intro hin'
          have := g4 (by simpa [TSt.advance] using hin')
          rw [hp, countOut_cons_other (fun he => hns m (Or.inl he)) (fun he => hns m (Or.inr he))] at this
          simpa [TSt.advance, hp] using this
        · intro hc; have := (g5 hc).1; rw [hp] at this; cases this
      · simp only [hsd, if_false]; exact g3
  | finish sv out _ =>
    have h' := h.withOutcome (some out)
    exact h'.thrOnly hth hts (ThrObl.advance hT h' hth hts hp _ _ (fun _ x => x)
      (by intro m k he; cases he) (by intro m he; rcases he with he | he <;> cases he)
      (by intro m he; cases he) (by intro m he; cases he) (by intro u he; cases he))
  | dropEpi => exact (head_not_dropEpi hT h (Or.inl rfl) hth hts hp).elim
  | setEpi ms => exact (head_not_dropEpi hT h (Or.inr ⟨ms, rfl⟩) hth hts hp).elim

end

section
variable {net : Net} {c : Cert}

theorem init_thr (net : Net) (t : Nat) : (init net).thr[t]? = (net.threads[t]?).map fun th => ({ prog := th.body, epi := th.epi } : TSt) := by
  simp [init, List.getElem?_map]

theorem init_mbs (net : Net) (m : Nat) :
    (init net).mbs[m]? = (net.mbs[m]?).map fun sp => ({ subs := sp.drive.map fun _ => {} } : AMB) := by
  simp [init, List.getElem?_map]

theorem TInv.init (hT : TreeNet net c) : TInv net c (init net) := by
  refine ⟨by simp [Net.init], by simp [Net.init], ?_, ?_, ?_, ?_, ?_, ?_, ?_, ?_, ?_⟩
  · intro m sp a hsp ha
    rw [init_mbs, hsp] at ha; simp at ha; subst ha; simp
  · intro t th ts hth hts
    rw [init_thr, hth] at hts; simp at hts; subst hts
    exact ⟨rfl, fun _ => List.suffix_refl _, fun hx => by simp at hx⟩
  · intro m a k sb ha hk
    cases hsp : net.mbs[m]? with
    | none => rw [init_mbs, hsp] at ha; simp at ha
    | some sp =>
      rw [init_mbs, hsp] at ha; simp at ha; subst ha
      simp only [List.getElem?_map] at hk
      cases hd : sp.drive[k]? with
      | none => simp [hd] at hk
      | some d => simp [hd] at hk; subst hk; simp
  · intro m a k sb x ha hk hw
    cases hsp : net.mbs[m]? with
    | none => rw [init_mbs, hsp] at ha; simp at ha
    | some sp =>
      rw [init_mbs, hsp] at ha; simp at ha; subst ha
      simp only [List.getElem?_map] at hk
      cases hd : sp.drive[k]? with
      | none => simp [hd] at hk
      | some d => simp [hd] at hk; subst hk; simp at hw
  · intro m a k sb ts ha hk hts hin
    cases hsp : net.mbs[m]? with
    | none => rw [init_mbs, hsp] at ha; simp at ha
    | some sp =>
      rw [init_mbs, hsp] at ha; simp at ha; subst ha
      simp only [List.getElem?_map] at hk
      cases hd : sp.drive[k]? with
      | none => simp [hd] at hk
      | some d =>
      simp [hd] at hk; subst hk
      have hklt : k < sp.drive.length := (List.getElem?_eq_some_iff.mp hd).1
      have hmlt : m < net.mbs.length := (List.getElem?_eq_some_iff.mp hsp).1
      obtain ⟨sp', hsp', _, _, _, _, _, hr⟩ := hT.mailbox hmlt
      rw [hsp] at hsp'; cases hsp'
      obtain ⟨_, hcnt, _, _⟩ := hr k hklt
      cases hth : net.threads[c.reader m k]? with
      | none => simp [hth] at hcnt
      | some th =>
        simp only [hth] at hcnt
        rw [init_thr, hth] at hts; simp at hts; subst hts
        simpa using hcnt
  · intro m a hmlt ha
    obtain ⟨sp, hsp, _⟩ := hT.mailbox hmlt
    rw [init_mbs, hsp] at ha; simp at ha; subst ha
    have hpos := tot_pos hT hmlt
    refine ⟨by simp, by simp; omega, ?_⟩
    intro ts hts
    obtain ⟨th, hth, _, _⟩ := sender_thread hT hmlt
    rw [init_thr, hth] at hts; simp at hts; subst hts
    refine ⟨fun _ => ?_, fun hx => by simp at hx⟩
    simp [tot, hth]
  · intro t th ts own r hth hts hin
    rw [init_thr, hth] at hts; simp at hts; subst hts; simp at hin
  · intro t ts r _ _ hts hexc
    cases hth : net.threads[t]? with
    | none => rw [init_thr, hth] at hts; simp at hts
    | some th => rw [init_thr, hth] at hts; simp at hts; subst hts; simp at hexc
  · intro u tm hu htm
    have hlt : net.threads.length - 1 < net.threads.length := by have := hT.1; omega
    have hth : net.threads[net.threads.length - 1]? = some (net.threads[net.threads.length - 1]'hlt) :=
      List.getElem?_eq_getElem hlt
    rw [init_thr, hth] at htm; simp at htm; subst htm
    right
    cases hT.kind hth with
    | main _ hok =>
      simp only
      rw [hok.2.2.2.2.1]
      exact List.mem_append_right _ (main_join_mem hT hth hu)
    | sender m hne _ _ => exact absurd rfl hne
    | sink hne _ _ _ => exact absurd rfl hne

theorem TInv.reachable (hT : TreeNet net c) {s : NState} (h : Reachable net s) : TInv net c s := by
  induction h with
  | init => exact TInv.init hT
  | step _ hs ih => exact ih.step hT hs

end

end Strax.Net
