import StraxModel.Model.PostOffice
/-
  Lemmas about the PostOffice pull machine (Model/PostOffice.lean): what every operation does to the ghost log of
  raised exceptions, and what `kill_spies` does to the spies.  Property theorems are in Props/C06.lean.
-/
namespace Strax.PostOffice
open Strax

/-- the exception a result carries -/
def Res.exc : Res → Option Exc
  | .raised e => some e
  | _ => none

/-- effect of a call on the exception log: exactly the exception it returns was raised, or nothing was -/
def LogRel (po po' : PO) : Option Exc → Prop
  | some e => po'.log = po.log ++ [e]
  | none => po'.log = po.log

theorem LogRel.trans {a b c : PO} {x : Option Exc} (h1 : LogRel a b none) (h2 : LogRel b c x) : LogRel a c x := by
  cases x with
  | none => simp only [LogRel] at *; rw [h2, h1]
  | some e => simp only [LogRel] at *; rw [h2, h1]

theorem LogRel.of_eq {a b : PO} (h : b.log = a.log) : LogRel a b none := h

@[simp] theorem modTopic_log (po : PO) (t : Nat) (f : Topic → Topic) : (po.modTopic t f).log = po.log := rfl
@[simp] theorem setProducer_log (po : PO) (p : Nat) (pr : Producer) : (po.setProducer p pr).log = po.log := rfl
@[simp] theorem setGen_log (po : PO) (g : Nat) (gn : Gen) : (po.setGen g gn).log = po.log := rfl
@[simp] theorem raise_log (po : PO) (e : Exc) : (po.raise e).log = po.log ++ [e] := rfl

theorem ackProduced_log {po po' : PO} {t : Nat} {e : Option Exc} (h : po.ackProduced t = (po', e)) : LogRel po po' e := by
  unfold PO.ackProduced at h
  split at h
  · simp only [Prod.mk.injEq] at h; obtain ⟨rfl, rfl⟩ := h; simp [LogRel]
  · split at h
    · simp only [Prod.mk.injEq] at h; obtain ⟨rfl, rfl⟩ := h; simp [LogRel]
    · simp only at h
      split at h <;> (simp only [Prod.mk.injEq] at h; obtain ⟨rfl, rfl⟩ := h; simp [LogRel])

theorem ackExhausted_log {po po' : PO} {t : Nat} {e : Option Exc} (h : po.ackExhausted t = (po', e)) : LogRel po po' e := by
  unfold PO.ackExhausted at h
  split at h
  · simp only [Prod.mk.injEq] at h; obtain ⟨rfl, rfl⟩ := h; simp [LogRel]
  · split at h <;> (simp only [Prod.mk.injEq] at h; obtain ⟨rfl, rfl⟩ := h; simp [LogRel])

theorem ackExhaustedAll_log {po po' : PO} {ts : List Nat} {e : Option Exc} (h : po.ackExhaustedAll ts = (po', e)) :
    LogRel po po' e := by
  induction ts generalizing po with
  | nil => simp only [PO.ackExhaustedAll, Prod.mk.injEq] at h; obtain ⟨rfl, rfl⟩ := h; rfl
  | cons t rest ih =>
    simp only [PO.ackExhaustedAll] at h
    split at h
    · rename_i po1 e1 h1
      simp only [Prod.mk.injEq] at h; obtain ⟨rfl, rfl⟩ := h
      exact ackExhausted_log h1
    · rename_i po1 h1
      exact (ackExhausted_log h1).trans (ih h)

theorem ackSubs_log {po po' : PO} {ts : List Nat} {e : Option Exc} (h : ackSubs po ts = (po', e)) : LogRel po po' e := by
  induction ts generalizing po with
  | nil => simp only [ackSubs, Prod.mk.injEq] at h; obtain ⟨rfl, rfl⟩ := h; rfl
  | cons t rest ih =>
    simp only [ackSubs] at h
    split at h
    · split at h
      · split at h
        · rename_i po1 e1 h1
          simp only [Prod.mk.injEq] at h; obtain ⟨rfl, rfl⟩ := h
          exact ackProduced_log h1
        · rename_i po1 h1
          exact (ackProduced_log h1).trans (ih h)
      · exact ih h
    · exact ih h

theorem ackReceived_log {po po' : PO} {t r n : Nat} {e : Option Exc} (h : po.ackReceived t r n = (po', e)) :
    LogRel po po' e := by
  unfold PO.ackReceived at h
  split at h
  · simp only [Prod.mk.injEq] at h; obtain ⟨rfl, rfl⟩ := h; simp [LogRel]
  · split at h
    · simp only [Prod.mk.injEq] at h; obtain ⟨rfl, rfl⟩ := h; simp [LogRel]
    · split at h <;> (simp only [Prod.mk.injEq] at h; obtain ⟨rfl, rfl⟩ := h; simp [LogRel])

theorem readerDone_log {po po' : PO} {t r : Nat} {e : Option Exc} (h : po.readerDone t r = (po', e)) : LogRel po po' e := by
  unfold PO.readerDone at h
  split at h
  · simp only [Prod.mk.injEq] at h; obtain ⟨rfl, rfl⟩ := h; simp [LogRel]
  · simp only at h
    split at h <;> (simp only [Prod.mk.injEq] at h; obtain ⟨rfl, rfl⟩ := h; simp [LogRel])

/-- the three mutually recursive functions of the pull machine, at every fuel -/
theorem pull_log (f : Nat) :
    (∀ (po : PO) (p : Nat) (po' : PO) (r : Res), runProducer f po p = (po', r) → LogRel po po' r.exc) ∧
    (∀ (po : PO) (t : Nat) (po' : PO) (r : Res), fetchNew f po t = (po', r) → LogRel po po' r.exc) ∧
    (∀ (po : PO) (g : Nat) (po' : PO) (r : Res), readNext f po g = (po', r) → LogRel po po' r.exc) := by
  induction f with
  | zero =>
    refine ⟨?_, ?_, ?_⟩ <;> intro po x po' r h
    · simp only [runProducer, Prod.mk.injEq] at h; obtain ⟨rfl, rfl⟩ := h; rfl
    · simp only [fetchNew, Prod.mk.injEq] at h; obtain ⟨rfl, rfl⟩ := h; rfl
    · simp only [readNext, Prod.mk.injEq] at h; obtain ⟨rfl, rfl⟩ := h; rfl
  | succ f ih =>
    obtain ⟨ihP, ihF, ihR⟩ := ih
    refine ⟨?_, ?_, ?_⟩
    · -- runProducer
      intro po p po' r h
      simp only [runProducer] at h
      split at h
      · simp only [Prod.mk.injEq] at h; obtain ⟨rfl, rfl⟩ := h; rfl
      · split at h
        · simp only [Prod.mk.injEq] at h; obtain ⟨rfl, rfl⟩ := h; rfl
        · split at h
          · simp only [Prod.mk.injEq] at h; obtain ⟨rfl, rfl⟩ := h; rfl
          · simp only [Prod.mk.injEq] at h; obtain ⟨rfl, rfl⟩ := h; rfl
          · simp only [Prod.mk.injEq] at h; obtain ⟨rfl, rfl⟩ := h; simp [LogRel, Res.exc]
          · split at h
            · rename_i po1 e h1
              have := ihR _ _ _ _ h1
              simp only [Prod.mk.injEq] at h; obtain ⟨rfl, rfl⟩ := h
              simp only [Res.exc, LogRel] at this ⊢
              split <;> simpa using this
            · rename_i po1 h1
              have := ihR _ _ _ _ h1
              simp only [Prod.mk.injEq] at h; obtain ⟨rfl, rfl⟩ := h
              simpa [Res.exc, LogRel] using this
            · rename_i po1 r1 hne1 hne2 h1
              have h1' := ihR _ _ _ _ h1
              have hn : r1.exc = none := by
                cases r1 with
                | raised e => exact absurd rfl (hne1 e)
                | _ => rfl
              rw [hn] at h1'
              have h1'' : LogRel po po1 none := by simpa [LogRel] using h1'
              exact h1''.trans (ihP _ _ _ _ h)
    · -- fetchNew
      intro po t po' r h
      simp only [fetchNew] at h
      split at h
      · simp only [Prod.mk.injEq] at h; obtain ⟨rfl, rfl⟩ := h; simp [LogRel, Res.exc]
      · split at h
        · simp only [Prod.mk.injEq] at h; obtain ⟨rfl, rfl⟩ := h; simp [LogRel, Res.exc]
        · split at h
          · rename_i po1 h1
            have h1' : LogRel po po1 none := by simpa [Res.exc] using ihP _ _ _ _ h1
            split at h
            · rename_i po2 e h2
              simp only [Prod.mk.injEq] at h; obtain ⟨rfl, rfl⟩ := h
              exact h1'.trans (ackExhaustedAll_log h2)
            · rename_i po2 h2
              simp only [Prod.mk.injEq] at h; obtain ⟨rfl, rfl⟩ := h
              exact h1'.trans (ackExhaustedAll_log h2)
          · rename_i po1 v h1
            have h1' : LogRel po po1 none := by simpa [Res.exc] using ihP _ _ _ _ h1
            split at h
            · split at h
              · rename_i po2 e h2
                simp only [Prod.mk.injEq] at h; obtain ⟨rfl, rfl⟩ := h
                exact h1'.trans (ackProduced_log h2)
              · rename_i po2 h2
                simp only [Prod.mk.injEq] at h; obtain ⟨rfl, rfl⟩ := h
                exact h1'.trans (ackProduced_log h2)
            · split at h
              · rename_i po2 e h2
                simp only [Prod.mk.injEq] at h; obtain ⟨rfl, rfl⟩ := h
                exact h1'.trans (ackSubs_log h2)
              · rename_i po2 h2
                simp only [Prod.mk.injEq] at h; obtain ⟨rfl, rfl⟩ := h
                exact h1'.trans (ackSubs_log h2)
          · rename_i po1 r1 _ _ h1
            simp only [Prod.mk.injEq] at h; obtain ⟨rfl, rfl⟩ := h
            exact ihP _ _ _ _ h1
    · -- readNext
      intro po g po' r h
      simp only [readNext] at h
      split at h
      · simp only [Prod.mk.injEq] at h; obtain ⟨rfl, rfl⟩ := h; rfl
      · rename_i gn hg
        split at h
        · simp only [Prod.mk.injEq] at h; obtain ⟨rfl, rfl⟩ := h; rfl
        · have hfin : ∀ (q q' : PO) (r : Res),
              (match (q.setGen g { gn with finished := true }).readerDone gn.topic gn.reader with
               | (po1, some e) => (po1, Res.raised e)
               | (po1, none) => (po1, Res.stop)) = (q', r) → LogRel q q' r.exc := by
            intro q q' r hq
            split at hq
            · rename_i po1 e h1
              simp only [Prod.mk.injEq] at hq; obtain ⟨rfl, rfl⟩ := hq
              have := readerDone_log h1
              simpa [LogRel, Res.exc] using this
            · rename_i po1 h1
              simp only [Prod.mk.injEq] at hq; obtain ⟨rfl, rfl⟩ := hq
              have := readerDone_log h1
              simpa [LogRel, Res.exc] using this
          have hgot : ∀ (q q' : PO) (v : Nat) (r : Res),
              (match q.ackReceived gn.topic gn.reader gn.next with
               | (po1, some e) => (po1.setGen g { gn with finished := true }, Res.raised e)
               | (po1, none) => (po1.setGen g { gn with next := gn.next + 1 }, Res.msg v)) = (q', r) → LogRel q q' r.exc := by
            intro q q' v r hq
            split at hq
            · rename_i po1 e h1
              simp only [Prod.mk.injEq] at hq; obtain ⟨rfl, rfl⟩ := hq
              have := ackReceived_log h1
              simpa [LogRel, Res.exc] using this
            · rename_i po1 h1
              simp only [Prod.mk.injEq] at hq; obtain ⟨rfl, rfl⟩ := hq
              have := ackReceived_log h1
              simpa [LogRel, Res.exc] using this
          split at h
          · simp only [Prod.mk.injEq] at h; obtain ⟨rfl, rfl⟩ := h; rfl
          · split at h
            · exact hfin _ _ _ h
            · split at h
              · exact hgot _ _ _ _ h
              · split at h
                · rename_i po1 h1
                  have h1' : LogRel po po1 none := by simpa [Res.exc] using ihF _ _ _ _ h1
                  exact h1'.trans (hfin _ _ _ h)
                · rename_i po1 v h1
                  have h1' : LogRel po po1 none := by simpa [Res.exc] using ihF _ _ _ _ h1
                  exact h1'.trans (hgot _ _ _ _ h)
                · rename_i po1 e h1
                  have h1' := ihF _ _ _ _ h1
                  simp only [Prod.mk.injEq] at h; obtain ⟨rfl, rfl⟩ := h
                  simpa [LogRel, Res.exc] using h1'
                · rename_i po1 h1
                  have h1' := ihF _ _ _ _ h1
                  simp only [Prod.mk.injEq] at h; obtain ⟨rfl, rfl⟩ := h
                  simpa [LogRel, Res.exc] using h1'

/-! ### `kill_spies` -/

theorem closeAll_closed {spies spies' : List Spy} (h : closeAll spies = (spies', none)) : ∀ s ∈ spies', s.closed = true := by
  induction spies generalizing spies' with
  | nil => simp only [closeAll, Prod.mk.injEq] at h; obtain ⟨rfl, _⟩ := h; simp
  | cons a r ih =>
    simp only [closeAll] at h
    split at h
    · simp at h
    · rename_i a' ha
      cases hr : closeAll r with
      | mk r' e =>
        simp only [hr, Prod.mk.injEq] at h
        obtain ⟨rfl, rfl⟩ := h
        intro s hs
        rcases List.mem_cons.mp hs with rfl | hs
        · unfold Spy.close at ha
          split at ha
          · simp at ha
          · split at ha <;> (simp only [Prod.mk.injEq] at ha; obtain ⟨rfl, _⟩ := ha; rfl)
        · exact ih hr s hs

theorem killTopics_closed {ts ts' : List Topic} (h : killTopics ts = (ts', none)) : ∀ t ∈ ts', ∀ s ∈ t.spies, s.closed = true := by
  induction ts generalizing ts' with
  | nil => simp only [killTopics, Prod.mk.injEq] at h; obtain ⟨rfl, _⟩ := h; simp
  | cons a r ih =>
    simp only [killTopics] at h
    split at h
    · simp at h
    · rename_i sp hsp
      cases hr : killTopics r with
      | mk r' e =>
        simp only [hr, Prod.mk.injEq] at h
        obtain ⟨rfl, rfl⟩ := h
        intro t ht
        rcases List.mem_cons.mp ht with rfl | ht
        · exact closeAll_closed hsp
        · exact ih hr t ht

/-- a healthy open spy closes without an exception -/
theorem closeAll_ok {spies : List Spy} (h : ∀ s ∈ spies, s.closed = false ∧ s.failClose = false) :
    (closeAll spies).2 = none := by
  induction spies with
  | nil => rfl
  | cons a r ih =>
    have ha := h a (by simp)
    simp only [closeAll, Spy.close, ha.1, ha.2, Bool.false_eq_true, if_false]
    exact ih (fun s hs => h s (List.mem_cons_of_mem _ hs))

theorem killTopics_ok {ts : List Topic} (h : ∀ t ∈ ts, ∀ s ∈ t.spies, s.closed = false ∧ s.failClose = false) :
    (killTopics ts).2 = none := by
  induction ts with
  | nil => rfl
  | cons a r ih =>
    have ha := closeAll_ok (h a (by simp))
    simp only [killTopics]
    cases hc : closeAll a.spies with
    | mk sp e =>
      rw [hc] at ha; simp only at ha; subst ha
      simp only
      exact ih (fun t ht => h t (List.mem_cons_of_mem _ ht))

end Strax.PostOffice
