import StraxModel.Lemmas.Pipeline
/-
  Helper lemmas for property C01, part 2: the laws of chunking on streams (`LawAbiding`, `span`,
  `rows`), the local/global form of sortedness, the canonical form of a partition (the rows of a
  chunk are the rows of the stream that start inside it), streams built chunk by chunk.
  Core Lean only.
-/
namespace Strax.Pipeline
open Strax

/-! ### Prop forms of the Boolean predicates -/

theorem rowInB_iff {a b : Int} {r : Row} : rowInB a b r = true ↔ a ≤ r.time ∧ r.time < r.endt ∧ r.endt ≤ b := by
  simp [rowInB, and_assoc]

theorem chunkOKB_iff (c : Chunk) : chunkOKB c = true ↔
    c.start ≤ c.stop ∧ (∀ r ∈ c.rows, c.start ≤ r.time ∧ r.time < r.endt ∧ r.endt ≤ c.stop) ∧ SortedByTime c.rows := by
  simp [chunkOKB, rowInB_iff, sortedByTimeB_iff, and_assoc]

theorem lawAbiding_nil : LawAbiding [] := by simp [LawAbiding, lawAbidingB, adjacentB]

theorem lawAbiding_single (c : Chunk) : LawAbiding [c] ↔ chunkOKB c = true := by
  simp [LawAbiding, lawAbidingB, adjacentB]

theorem lawAbiding_cons_cons (a b : Chunk) (rest : List Chunk) :
    LawAbiding (a :: b :: rest) ↔ chunkOKB a = true ∧ a.stop = b.start ∧ LawAbiding (b :: rest) := by
  simp only [LawAbiding, lawAbidingB, adjacentB, List.all_cons, Bool.and_eq_true, decide_eq_true_eq]
  constructor
  · rintro ⟨⟨h1, h2, h3⟩, h4, h5⟩; exact ⟨h1, h4, ⟨h2, h3⟩, h5⟩
  · rintro ⟨h1, h4, ⟨h2, h3⟩, h5⟩; exact ⟨⟨h1, h2, h3⟩, h4, h5⟩

theorem LawAbiding.head {c : Chunk} {cs : List Chunk} (h : LawAbiding (c :: cs)) : chunkOKB c = true := by
  cases cs with
  | nil => exact (lawAbiding_single c).1 h
  | cons d rest => exact ((lawAbiding_cons_cons c d rest).1 h).1

theorem LawAbiding.tail {c : Chunk} {cs : List Chunk} (h : LawAbiding (c :: cs)) : LawAbiding cs := by
  cases cs with
  | nil => exact lawAbiding_nil
  | cons d rest => exact ((lawAbiding_cons_cons c d rest).1 h).2.2

theorem LawAbiding.all_ok {cs : List Chunk} (h : LawAbiding cs) : ∀ c ∈ cs, chunkOKB c = true := by
  simp only [LawAbiding, lawAbidingB, Bool.and_eq_true, List.all_eq_true] at h
  exact h.1

/-! ### `rows`, `span`, `lastStop` -/

@[simp] theorem rows_nil : rows [] = [] := rfl
@[simp] theorem rows_cons (c : Chunk) (cs : List Chunk) : rows (c :: cs) = c.rows ++ rows cs := by
  simp [rows]
theorem rows_append (a b : List Chunk) : rows (a ++ b) = rows a ++ rows b := by simp [rows]

theorem lastStop_append (d : Int) (a : List Chunk) (c : Chunk) (b : List Chunk) :
    lastStop d (a ++ c :: b) = lastStop c.stop b := by
  induction a generalizing d with
  | nil => rfl
  | cons x a ih => simp [lastStop, ih]

theorem lastStop_append_nil (d : Int) (a : List Chunk) : lastStop d (a ++ []) = lastStop d a := by simp

theorem span_eq_some {cs : List Chunk} {R : Int × Int} (h : span cs = some R) :
    ∃ c rest, cs = c :: rest ∧ R = (c.start, lastStop c.stop rest) := by
  cases cs with
  | nil => simp [span] at h
  | cons c rest => simp only [span, Option.some.injEq] at h; exact ⟨c, rest, rfl, h.symm⟩

/-- chunk starts never decrease along a law-abiding stream: everything after `c` starts at or after
`c.stop`, and the stream ends at or after it -/
theorem LawAbiding.after {c : Chunk} {cs : List Chunk} (h : LawAbiding (c :: cs)) :
    c.stop ≤ lastStop c.stop cs ∧ (∀ d ∈ cs, c.stop ≤ d.start) ∧ ∀ r ∈ rows cs, c.stop ≤ r.time := by
  induction cs generalizing c with
  | nil => simp [lastStop]
  | cons d rest ih =>
    obtain ⟨-, hadj, htl⟩ := (lawAbiding_cons_cons c d rest).1 h
    obtain ⟨i1, i2, i3⟩ := ih htl
    obtain ⟨hd1, hd2, -⟩ := (chunkOKB_iff d).1 htl.head
    refine ⟨by simp only [lastStop]; omega, ?_, ?_⟩
    · intro x hx
      simp only [List.mem_cons] at hx
      rcases hx with rfl | hx
      · omega
      · have := i2 x hx; omega
    · intro r hr
      simp only [rows_cons, List.mem_append] at hr
      rcases hr with hr | hr
      · have := hd2 r hr; omega
      · have := i3 r hr; omega

/-- every row of a law-abiding stream lies inside the stream's span -/
theorem LawAbiding.rows_in_span {cs : List Chunk} {R : Int × Int} (h : LawAbiding cs) (hs : span cs = some R) :
    R.1 ≤ R.2 ∧ ∀ r ∈ rows cs, R.1 ≤ r.time ∧ r.time < r.endt ∧ r.endt ≤ R.2 := by
  obtain ⟨c, rest, rfl, rfl⟩ := span_eq_some hs
  simp only
  induction rest generalizing c with
  | nil =>
    obtain ⟨h1, h2, -⟩ := (chunkOKB_iff c).1 h.head
    simp only [lastStop, rows_cons, rows_nil, List.append_nil]
    exact ⟨h1, h2⟩
  | cons d rest ih =>
    obtain ⟨hc, hadj, htl⟩ := (lawAbiding_cons_cons c d rest).1 h
    obtain ⟨h1, h2, -⟩ := (chunkOKB_iff c).1 hc
    obtain ⟨i1, i2⟩ := ih d htl (by simp [span])
    have hafter := htl.after.1
    simp only [lastStop] at i1 i2 ⊢
    refine ⟨by omega, ?_⟩
    intro r hr
    rw [rows_cons] at hr
    simp only [List.mem_append] at hr
    rcases hr with hr | hr
    · have := h2 r hr; omega
    · have := i2 r hr; omega

/-! ### local sortedness is global sortedness -/

theorem sorted_append_of {a b : List Row} (ha : SortedByTime a) (hb : SortedByTime b)
    (hab : ∀ x ∈ a, ∀ y ∈ b, x.time ≤ y.time) : SortedByTime (a ++ b) := by
  rw [sortedByTime_iff_pairwise] at *
  exact List.pairwise_append.2 ⟨ha, hb, hab⟩

theorem LawAbiding.rows_sorted {cs : List Chunk} (h : LawAbiding cs) : SortedByTime (rows cs) := by
  induction cs with
  | nil => simp [SortedByTime]
  | cons c rest ih =>
    obtain ⟨-, h2, h3⟩ := (chunkOKB_iff c).1 h.head
    rw [rows_cons]
    refine sorted_append_of h3 (ih h.tail) ?_
    intro x hx y hy
    have := h2 x hx
    have := h.after.2.2 y hy
    omega

/-- the chunk-local form of the laws used here is the form worded in DESIGN §6 -/
theorem lawAbiding_iff_global (cs : List Chunk) : lawAbidingB cs = lawAbidingGlobalB cs := by
  rw [Bool.eq_iff_iff]
  constructor
  · intro h
    have hs := LawAbiding.rows_sorted h
    simp only [lawAbidingB, Bool.and_eq_true, List.all_eq_true] at h
    simp only [lawAbidingGlobalB, Bool.and_eq_true, List.all_eq_true, decide_eq_true_eq]
    refine ⟨⟨?_, h.2⟩, (sortedByTimeB_iff _).2 hs⟩
    intro c hc
    have := h.1 c hc
    simp only [chunkOKB, Bool.and_eq_true, decide_eq_true_eq] at this
    exact ⟨this.1.1, List.all_eq_true.1 this.1.2⟩
  · intro h
    simp only [lawAbidingGlobalB, Bool.and_eq_true, List.all_eq_true, decide_eq_true_eq] at h
    obtain ⟨⟨h1, h2⟩, h3⟩ := h
    simp only [lawAbidingB, Bool.and_eq_true, List.all_eq_true]
    refine ⟨?_, h2⟩
    intro c hc
    obtain ⟨hse, hin⟩ := h1 c hc
    simp only [chunkOKB, Bool.and_eq_true, decide_eq_true_eq]
    refine ⟨⟨hse, List.all_eq_true.2 hin⟩, ?_⟩
    -- a sublist of a sorted list is sorted
    have hsub : c.rows.Sublist (rows cs) := by
      clear h1 h2 h3 hse hin
      induction cs with
      | nil => simp at hc
      | cons d rest ih =>
        rw [rows_cons]
        simp only [List.mem_cons] at hc
        rcases hc with rfl | hc
        · exact List.sublist_append_left _ _
        · exact (ih hc).trans (List.sublist_append_right _ _)
    rw [sortedByTimeB_iff] at h3 ⊢
    rw [sortedByTime_iff_pairwise] at h3 ⊢
    exact h3.sublist hsub

/-! ### streams built chunk by chunk (`perChunk`) -/

theorem span_perChunk (f : List Row → List Row) (out : String) (s : List Chunk) :
    span (perChunk f out s) = span s := by
  cases s with
  | nil => rfl
  | cons c rest =>
    simp only [perChunk, List.map_cons, span, setRows]
    congr 2
    generalize c.stop = d
    induction rest generalizing d with
    | nil => rfl
    | cons x rest ih => simp only [List.map_cons, lastStop]; exact ih x.stop

theorem rows_perChunk (f : List Row → List Row) (out : String) (s : List Chunk) :
    rows (perChunk f out s) = s.flatMap fun c => f c.rows := by
  induction s with
  | nil => rfl
  | cons c rest ih =>
    simp only [perChunk, List.map_cons, rows_cons, List.flatMap_cons, setRows] at ih ⊢
    rw [ih]

theorem bounds_perChunk (f : List Row → List Row) (out : String) (s : List Chunk) :
    bounds (perChunk f out s) = bounds s := by
  simp [bounds, perChunk, setRows]

/-- a per-chunk computation that keeps every chunk lawful keeps the stream lawful -/
theorem lawAbiding_perChunk {f : List Row → List Row} {out : String} {s : List Chunk}
    (hf : ∀ c, chunkOKB c = true → chunkOKB (setRows out c (f c.rows)) = true) (h : LawAbiding s) :
    LawAbiding (perChunk f out s) := by
  induction s with
  | nil => exact lawAbiding_nil
  | cons c rest ih =>
    cases rest with
    | nil =>
      simp only [perChunk, List.map_cons, List.map_nil]
      exact (lawAbiding_single _).2 (hf c h.head)
    | cons d rest =>
      obtain ⟨hc, hadj, htl⟩ := (lawAbiding_cons_cons c d rest).1 h
      have := ih htl
      simp only [perChunk, List.map_cons] at this ⊢
      exact (lawAbiding_cons_cons _ _ _).2 ⟨hf c hc, by simpa [setRows] using hadj, this⟩

theorem flatMap_filterMap {α β : Type} (g : α → Option β) (l : List (List α)) :
    (l.flatMap fun x => x.filterMap g) = l.flatten.filterMap g := by
  induction l with
  | nil => rfl
  | cons x l ih => simp [List.filterMap_append, ih]

theorem rows_eq_flatten (s : List Chunk) : rows s = (s.map (·.rows)).flatten := by
  simp [rows, List.flatMap_def]

/-- row-wise / filtering computation on a lawful chunk gives a lawful chunk -/
theorem chunkOK_filterMap {g : Row → Option Row} (hg : IntervalPreserving g) (out : String) (c : Chunk)
    (h : chunkOKB c = true) : chunkOKB (setRows out c (c.rows.filterMap g)) = true := by
  obtain ⟨h1, h2, h3⟩ := (chunkOKB_iff c).1 h
  refine (chunkOKB_iff _).2 ⟨h1, ?_, ?_⟩
  · intro r hr
    simp only [setRows, List.mem_filterMap] at hr
    obtain ⟨x, hx, hgx⟩ := hr
    obtain ⟨e1, e2⟩ := hg x r hgx
    have := h2 x hx
    simp only [setRows]
    omega
  · simp only [setRows]
    rw [sortedByTime_iff_pairwise] at h3 ⊢
    rw [List.pairwise_filterMap]
    refine h3.imp ?_
    intro a b hab a' ha' b' hb'
    have := (hg a a' ha').1
    have := (hg b b' hb').1
    omega

/-! ### the canonical form of a partition -/

/-- the rows of `rs` that start inside `[a, b)` -/
def inBounds (a b : Int) (rs : List Row) : List Row := rs.filter fun r => decide (a ≤ r.time) && decide (r.time < b)

theorem filter_eq_self_of {α : Type} {p : α → Bool} {l : List α} (h : ∀ x ∈ l, p x = true) : l.filter p = l :=
  List.filter_eq_self.2 h

theorem filter_eq_nil_of {α : Type} {p : α → Bool} {l : List α} (h : ∀ x ∈ l, p x = false) : l.filter p = [] := by
  rw [List.filter_eq_nil_iff]
  intro x hx; simp [h x hx]

/-- **Canonical form**: in a law-abiding stream the rows of every chunk are exactly the rows of the
whole stream that start inside the chunk; so a partition is determined by its boundaries. -/
theorem LawAbiding.canonical {s : List Chunk} (h : LawAbiding s) :
    ∀ (pre : List Row), (∀ c ∈ s, ∀ r ∈ pre, r.time < c.start) →
      s.map (·.rows) = s.map fun c => inBounds c.start c.stop (pre ++ rows s) := by
  induction s with
  | nil => intro _ _; rfl
  | cons c rest ih =>
    intro pre hpre
    obtain ⟨h1, h2, h3⟩ := (chunkOKB_iff c).1 h.head
    obtain ⟨a1, a2, a3⟩ := h.after
    simp only [List.map_cons, rows_cons, List.cons.injEq]
    constructor
    · -- the head chunk
      unfold inBounds
      rw [List.filter_append, List.filter_append]
      rw [filter_eq_nil_of (l := pre), filter_eq_self_of (l := c.rows), filter_eq_nil_of (l := rows rest)]
      · simp
      · intro r hr; have := a3 r hr; simp; omega
      · intro r hr; have := h2 r hr; simp; omega
      · intro r hr; have := hpre c (by simp) r hr; simp; omega
    · -- the tail: `pre ++ c.rows` all start before every later chunk
      have := ih h.tail (pre ++ c.rows) (by
        intro d hd r hr
        simp only [List.mem_append] at hr
        have hd' := a2 d hd
        rcases hr with hr | hr
        · have := hpre c (by simp) r hr; omega
        · have := h2 r hr; omega)
      simpa [List.append_assoc] using this

theorem LawAbiding.canonical' {s : List Chunk} (h : LawAbiding s) :
    s.map (·.rows) = s.map fun c => inBounds c.start c.stop (rows s) := by
  simpa using h.canonical [] (by simp)

/-- two law-abiding partitions of the same rows with the same boundaries are the same partition -/
theorem partition_unique {s t : List Chunk} (hs : LawAbiding s) (ht : LawAbiding t)
    (hb : bounds s = bounds t) (hr : rows s = rows t) : s.map (·.rows) = t.map (·.rows) := by
  rw [hs.canonical', ht.canonical', hr]
  have e1 : (s.map fun c => inBounds c.start c.stop (rows t)) = (bounds s).map fun p => inBounds p.1 p.2 (rows t) := by
    simp [bounds]
  have e2 : (t.map fun c => inBounds c.start c.stop (rows t)) = (bounds t).map fun p => inBounds p.1 p.2 (rows t) := by
    simp [bounds]
  rw [e1, e2, hb]

/-! ### concatenating everything -/

theorem lawAbiding_concatAll {s : List Chunk} (h : LawAbiding s) :
    LawAbiding (concatAll s) ∧ span (concatAll s) = span s ∧ rows (concatAll s) = rows s := by
  cases s with
  | nil => exact ⟨lawAbiding_nil, rfl, rfl⟩
  | cons c rest =>
    have hsp : span (c :: rest) = some (c.start, lastStop c.stop rest) := rfl
    obtain ⟨r1, r2⟩ := h.rows_in_span hsp
    refine ⟨?_, by simp [concatAll, span, lastStop], by simp [concatAll]⟩
    simp only [concatAll]
    refine (lawAbiding_single _).2 ((chunkOKB_iff _).2 ⟨r1, r2, h.rows_sorted⟩)

end Strax.Pipeline
