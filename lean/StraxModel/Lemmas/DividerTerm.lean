import StraxModel.Lemmas.DividerLive
/-
  Termination of the divider network: a measure that strictly decreases on every step of a valid, live run,
  and the explicit step bound.
-/
namespace Strax.Mailbox
open Strax

/-! ### termination of the divider network -/

def dstage (n : Nat) : DPc → Nat
  | .gate k => (n - k) + 1 + (n + 1)
  | .fetch => 1 + (n + 1)
  | .send k _ => (n - k) + (n + 1) + (n + 1)
  | .close k => (n - k) + 1
  | _ => 0

def dwork (s : DSys) : Nat := (2 * s.outs.length + 2) * s.prog.length + dstage s.outs.length s.dpc

def outMeasure (W B : Nat) (o : Out) : Nat := W * readersWork B o.mb.subs o.readers + o.mb.pot

def outsMeasure (W B : Nat) : List Out → Nat
  | [] => 0
  | o :: r => outMeasure W B o + outsMeasure W B r

def DConfig.weight (c : DConfig) : Nat := (c.outs.map (fun o => o.1.length)).sum + 6

def dmeasure (c : DConfig) (s : DSys) : Nat :=
  c.weight * (dwork s + workersWork s.workers) + outsMeasure c.weight (c.prog.length + 1) s.outs

theorem outsMeasure_set (W B : Nat) {outs : List Out} {k : Nat} {o o' : Out} (hk : outs[k]? = some o) :
    outsMeasure W B (outs.set k o') + outMeasure W B o = outsMeasure W B outs + outMeasure W B o' := by
  induction outs generalizing k with
  | nil => simp at hk
  | cons a r ih =>
    cases k with
    | zero => simp at hk; subst hk; simp only [List.set_cons_zero, outsMeasure]; omega
    | succ j => simp at hk; simp only [List.set_cons_succ, outsMeasure]; have := ih hk; omega

theorem le_sum_of_mem {l : List Nat} {a : Nat} (h : a ∈ l) : a ≤ l.sum := by
  induction l with
  | nil => cases h
  | cons b r ih =>
    simp only [List.mem_cons] at h
    simp only [List.sum_cons]
    rcases h with rfl | h
    · omega
    · have := ih h; omega

/-- the generic step: output `k` replaced, divider/worker work `w → w'` -/
theorem dmeasure_lt {W B w w' : Nat} {outs : List Out} {k : Nat} {o o' : Out} (hk : outs[k]? = some o)
    (h : W * w' + outMeasure W B o' < W * w + outMeasure W B o) :
    W * w' + outsMeasure W B (outs.set k o') < W * w + outsMeasure W B outs := by
  have := outsMeasure_set W B (o' := o') hk
  omega

theorem compOf_length_le (k : Nat) (P : List DItem) : (compOf k P).length ≤ P.length := by
  induction P with
  | nil => simp [compOf]
  | cons a r ih =>
    cases a with
    | raise => simp only [compOf, List.length_cons]; omega
    | item msgs =>
      simp only [compOf, List.length_append, List.length_cons]
      cases msgs[k]? <;> simp <;> omega

/-- no subscriber of an output gets beyond its end marker's number + 1 -/
theorem dnext_le_bound {c : DConfig} {s : DSys} (hv : c.valid = true) (h : DReachable c s) (k : Nat) (o : Out)
    (hk : s.outs[k]? = some o) (i : Nat) (sub : Sub) (hs : o.mb.subs[i]? = some sub) : sub.next ≤ c.prog.length + 1 := by
  have hoi := (DInv.reachable h).out k o hk
  have hop := (DProgInv.reachable hv h).out k o hk
  apply Classical.byContradiction
  intro hgt
  have hsome := hoi.mb.found i sub hs (c.prog.length + 1) (by omega)
  have hmem := getMsg_isSome_mem hsome
  rw [hop.sentEq] at hmem
  simp only [expectedSent, List.map_append, List.mem_append, numberFrom_fst] at hmem
  have h1 := compOf_length_le k (c.prog.take (sentCount c s k))
  have h2 := compOf_length_le k c.prog
  have h3 : (c.prog.take (sentCount c s k)).length ≤ c.prog.length := by simp; omega
  rcases hmem with hm | hm
  · simp at hm; omega
  · split at hm
    · simp at hm; omega
    · simp at hm


theorem dstage_loop_le (n : Nat) {pc : DPc} (h : pc.isLoop = true) : dstage n pc ≤ n + 1 + (n + 1) := by
  cases pc <;> simp [DPc.isLoop] at h <;> simp only [dstage] <;> omega

theorem subs_le_weight {c : DConfig} {k : Nat} {o : Out} (h : OutLive c k o) : o.mb.subs.length + 6 ≤ c.weight := by
  obtain ⟨co, h1, h2, _⟩ := h.stat
  have e4 : o.mb.subs.map (fun x => x.canDrive) = co.1 := congrArg (fun x => x.2.2.2) h2
  have : o.mb.subs.length = co.1.length := by rw [← e4]; simp
  have hm : co.1.length ∈ c.outs.map (fun o => o.1.length) := List.mem_map_of_mem (List.mem_of_getElem? h1)
  have := le_sum_of_mem hm
  simp only [DConfig.weight]; omega

theorem outMeasure_lt_work {W B : Nat} {o o' : Out} (hw : readersWork B o'.mb.subs o'.readers + 1 ≤ readersWork B o.mb.subs o.readers)
    (hp : o'.mb.pot < o.mb.pot + W) : outMeasure W B o' < outMeasure W B o := by
  unfold outMeasure; exact measure_lt_work hw hp

theorem dmeasure_decreases_divider {c : DConfig} {s s' : DSys} (hv : c.valid = true) (hl : c.live = true)
    (h : DReachable c s) (hs : stepDivider s = some s') : dmeasure c s' < dmeasure c s := by
  have hinv := DInv.reachable h
  have hp := DProgInv.reachable hv h
  have hli := DLiveInv.reachable hv hl h
  obtain ⟨hok, _, hne⟩ := dvalid_parts hv
  have hnpos : 0 < s.outs.length := by
    rw [hp.nOuts]; cases hc : c.outs with
    | nil => exact absurd hc hne
    | cons a r => simp
  have hemp : s.outs.isEmpty = false := by
    cases hso : s.outs with
    | nil => rw [hso] at hnpos; simp at hnpos
    | cons a r => rfl
  have hpos := hp.pos
  -- a step that only touches output k: same readers / subs up to notification, potential changes
  have one : ∀ (k : Nat) (o o' : Out), s.outs[k]? = some o → s'.outs = s.outs.set k o' → s'.workers = s.workers →
      s'.prog.length = s.prog.length ∨ True →
      readersWork (c.prog.length + 1) o'.mb.subs o'.readers = readersWork (c.prog.length + 1) o.mb.subs o.readers →
      ((dwork s' + 1 ≤ dwork s ∧ o'.mb.pot < o.mb.pot + c.weight) ∨ (dwork s' = dwork s ∧ o'.mb.pot < o.mb.pot)) →
      dmeasure c s' < dmeasure c s := by
    intro k o o' hk houts hw _ hrw hcase
    simp only [dmeasure, houts, hw]
    apply dmeasure_lt hk
    simp only [outMeasure, hrw]
    rcases hcase with ⟨h1, h2⟩ | ⟨h1, h2⟩
    · have := Nat.mul_le_mul_left c.weight (show dwork s' + workersWork s.workers + 1 ≤ dwork s + workersWork s.workers by omega)
      rw [Nat.mul_succ] at this
      omega
    · rw [h1]; omega
  unfold Mailbox.stepDivider at hs
  split at hs
  · -- gate k
    rename_i k hpc
    split at hs
    · simp at hs
    · rename_i o hk
      split at hs
      · simp at hs
      · rename_i ok mb hg
        simp only [Option.some.injEq] at hs
        have hklt : k < s.outs.length := (List.getElem?_eq_some_iff.mp hk).1
        have e_outs : s'.outs = s.outs.set k { o with mb := mb } := by rw [← hs]
        have e_prog : s'.prog = s.prog := by rw [← hs]
        have e_len : s'.outs.length = s.outs.length := by rw [e_outs]; simp
        obtain ⟨q1, q2⟩ := gateStep_eq hg
        have hwl := subs_le_weight (hli.out k o hk)
        refine one k o { o with mb := mb } hk e_outs (by rw [← hs]) (Or.inr trivial) (by simp only [q2]) ?_
        simp only [MB.gateStep] at hg
        split at hg
        · simp at hg
        · rename_i hff
          split at hg
          · simp only [Option.some.injEq, Prod.mk.injEq] at hg; obtain ⟨rfl, rfl⟩ := hg
            left
            constructor
            · have e_dpc : s'.dpc = ({ s with outs := s.outs.set k { o with mb := { o.mb with fetchFlag := none } } } : DSys).gateFrom (k + 1) := by
                rw [← hs]; rfl
              simp only [dwork, e_prog, e_len, e_dpc, hpc, dstage]
              unfold DSys.gateFrom
              cases hgn : nextGated (List.drop (k + 1) (s.outs.set k { o with mb := { o.mb with fetchFlag := none } })) (k + 1) with
              | none => simp only [dstage]; omega
              | some j =>
                obtain ⟨j1, j2, _⟩ := nextGated_spec hgn
                simp only [dstage]
                simp only [List.length_drop, List.length_set] at j2
                omega
            · simp only [MB.pot]
              have := flagPot_le (none : Option Bool)
              omega
          · simp only [Option.some.injEq, Prod.mk.injEq] at hg; obtain ⟨rfl, rfl⟩ := hg
            right
            constructor
            · have e_dpc : s'.dpc = .gate k := by rw [← hs]; rfl
              simp only [dwork, e_prog, e_len, e_dpc, hpc]
            · simp only [MB.pot]
              have := flagPot_pos (f := o.mb.fetchFlag) hff
              have e : flagPot (some false) = 0 := rfl
              omega
  · -- fetch
    rename_i hpc
    have hloop : s.dpc.isLoop = true := by rw [hpc]; rfl
    have hprog0 := (dpos_loop hloop).mp hpos
    have keep : s'.outs = s.outs → s'.workers = s.workers → dwork s' + 1 ≤ dwork s → dmeasure c s' < dmeasure c s := by
      intro h1 h2 h3
      simp only [dmeasure, h1, h2]
      have := Nat.mul_le_mul_left c.weight (show dwork s' + workersWork s.workers + 1 ≤ dwork s + workersWork s.workers by omega)
      rw [Nat.mul_succ] at this
      simp only [DConfig.weight] at this ⊢
      omega
    split at hs
    · rename_i hnil
      simp only [Option.some.injEq, hemp, Bool.false_eq_true, if_false] at hs
      have e_dpc : s'.dpc = .close 0 := by rw [← hs]
      have e_prog : s'.prog = s.prog := by rw [← hs]
      have e_outs : s'.outs = s.outs := by rw [← hs]
      refine keep e_outs (by rw [← hs]) ?_
      simp only [dwork, e_dpc, e_prog, e_outs, hpc, dstage, hnil, List.length_nil]; omega
    · rename_i msgs rest hcons
      simp only [Option.some.injEq, hemp, Bool.false_eq_true, if_false] at hs
      rw [hcons] at hprog0
      obtain ⟨hget, _⟩ := drop_eq_cons hprog0.symm
      have hmok : DItem.ok c.outs.length (.item msgs) = true := (List.all_eq_true.mp hok) _ (List.mem_of_getElem? hget)
      simp only [DItem.ok, Bool.and_eq_true, beq_iff_eq] at hmok
      have h0 : (msgs[0]?).isSome = true := by
        have : 0 < msgs.length := by rw [hmok.1, ← hp.nOuts]; exact hnpos
        simp [this]
      have e_dpc : s'.dpc = .send 0 msgs := by rw [← hs]; simp only [DSys.sendAt, h0, if_true]
      have e_prog : s'.prog = rest := by rw [← hs]
      have e_outs : s'.outs = s.outs := by rw [← hs]
      refine keep e_outs (by rw [← hs]) ?_
      simp only [dwork, e_dpc, e_prog, e_outs, hpc, dstage, hcons, List.length_cons]
      rw [Nat.mul_succ]; omega
    · rename_i rest hcons
      exfalso
      rw [hcons] at hprog0
      obtain ⟨hget, _⟩ := drop_eq_cons hprog0.symm
      have := (List.all_eq_true.mp hok) _ (List.mem_of_getElem? hget)
      simp [DItem.ok] at this
  · -- send k msgs
    rename_i k msgs hpc
    simp only [dpos, hpc] at hpos
    obtain ⟨hget, _⟩ := hpos
    have hmok : DItem.ok c.outs.length (.item msgs) = true := (List.all_eq_true.mp hok) _ (List.mem_of_getElem? hget)
    simp only [DItem.ok, Bool.and_eq_true, beq_iff_eq] at hmok
    split at hs
    · rename_i o m hk hm
      have hop := hp.out k o hk
      have hoi := hinv.out k o hk
      have hklt : k < s.outs.length := (List.getElem?_eq_some_iff.mp hk).1
      have hstop : stopSent s k = false := (ES_send (c := c) hpc k).2
      have hnot : ¬ o.mb.nSent < minNext o.mb.subs := le_minNext_of_not_sent hoi.mb (nSent_unsent hop hstop)
      have hwl := subs_le_weight (hli.out k o hk)
      have hwf : o.mb.writeFlag ≠ some false := by
        intro hx
        simp only [MB.sendStep, MB.sendCore, hx] at hs
        simp at hs
      split at hs
      · simp at hs
      · rename_i n mb hst
        simp only [Option.some.injEq] at hs
        simp only [MB.sendStep, resolveNum] at hst
        rcases sendCore_alive (hop.open_ hstop) hop.fkilled hop.killed hnot hst with ⟨hout, hmb, _⟩ | ⟨hout, _, _⟩
        · cases hout
          have e_outs : s'.outs = s.outs.set k { o with mb := mb, sent := o.sent ++ [(o.mb.nSent, m)] } := by rw [← hs]
          have e_prog : s'.prog = s.prog := by rw [← hs]
          have e_len : s'.outs.length = s.outs.length := by rw [e_outs]; simp
          have e_dpc0 : s'.dpc = s.afterSendAt k msgs := by rw [← hs]
          have hpot := push_pot o.mb o.mb.nSent m
          refine one k o _ hk e_outs (by rw [← hs]) (Or.inr trivial) (by rw [hmb]; exact readersWork_notify _ _ _) (Or.inl ⟨?_, by show mb.pot < o.mb.pot + c.weight; rw [hmb]; omega⟩)
          by_cases hlast : k + 1 < s.outs.length
          · have hk1 : (msgs[k + 1]?).isSome = true := by
              have : k + 1 < msgs.length := by rw [hmok.1, ← hp.nOuts]; exact hlast
              simp [this]
            have e_dpc : s'.dpc = .send (k + 1) msgs := by
              rw [e_dpc0]; simp only [DSys.afterSendAt, hlast, if_true, DSys.sendAt, hk1]
            simp only [dwork, e_dpc, e_prog, e_len, hpc, dstage]; omega
          · have e_dpc : s'.dpc = s.loopStart := by rw [e_dpc0]; simp only [DSys.afterSendAt, hlast, if_false]
            have hle := dstage_loop_le s.outs.length (loopStart_isLoop s)
            have e2 : dstage s.outs.length (DPc.send k msgs) = (s.outs.length - k) + (s.outs.length + 1) + (s.outs.length + 1) := rfl
            simp only [dwork, e_dpc, e_prog, e_len, hpc, e2]
            omega
        · cases hout
      · rename_i mb hst
        simp only [MB.sendStep, resolveNum] at hst
        rcases sendCore_alive (hop.open_ hstop) hop.fkilled hop.killed hnot hst with ⟨hout, _, _⟩ | ⟨hout, _, _⟩ <;> cases hout
      · rename_i n mb hst
        simp only [Option.some.injEq] at hs
        simp only [MB.sendStep, resolveNum] at hst
        rcases sendCore_alive (hop.open_ hstop) hop.fkilled hop.killed hnot hst with ⟨hout, _, _⟩ | ⟨hout, hmb, _⟩
        · cases hout
        · have e_outs : s'.outs = s.outs.set k { o with mb := mb } := by rw [← hs]
          have e_len : s'.outs.length = s.outs.length := by rw [e_outs]; simp
          refine one k o _ hk e_outs (by rw [← hs]) (Or.inr trivial) (by rw [hmb]) (Or.inr ⟨?_, ?_⟩)
          · have e_dpc : s'.dpc = s.dpc := by rw [← hs]
            have e_prog : s'.prog = s.prog := by rw [← hs]
            simp only [dwork, e_dpc, e_prog, e_len]
          · rw [hmb]; simp only [MB.pot]
            have := flagPot_pos hwf
            have e : flagPot (some false) = 0 := rfl
            omega
      · rename_i e mb hst
        simp only [MB.sendStep, resolveNum] at hst
        rcases sendCore_alive (hop.open_ hstop) hop.fkilled hop.killed hnot hst with ⟨hout, _, _⟩ | ⟨hout, _, _⟩ <;> cases hout
    · simp at hs
  · -- close k
    rename_i k hpc
    split at hs
    · simp at hs
    · rename_i o hk
      have hop := hp.out k o hk
      have hoi := hinv.out k o hk
      have hklt : k < s.outs.length := (List.getElem?_eq_some_iff.mp hk).1
      have hstop : stopSent s k = false := by rw [(ES_close (c := c) hpc k).2]; simp
      have hnot : ¬ o.mb.nSent < minNext o.mb.subs := le_minNext_of_not_sent hoi.mb (nSent_unsent hop hstop)
      have hwl := subs_le_weight (hli.out k o hk)
      have hwf : o.mb.writeFlag ≠ some false := by
        intro hx
        simp only [MB.sendStep, MB.sendCore, hx] at hs
        simp at hs
      split at hs
      · simp at hs
      · rename_i n mb hst
        simp only [Option.some.injEq] at hs
        simp only [MB.sendStep, resolveNum] at hst
        rcases sendCore_alive (hop.open_ hstop) hop.fkilled hop.killed hnot hst with ⟨hout, hmb, _⟩ | ⟨hout, _, _⟩
        · cases hout
          have e_outs : s'.outs = s.outs.set k { o with mb := { mb with closed := true }, sent := o.sent ++ [(o.mb.nSent, Msg.stop)] } := by rw [← hs]
          have e_prog : s'.prog = s.prog := by rw [← hs]
          have e_len : s'.outs.length = s.outs.length := by rw [e_outs]; simp
          have e_dpc0 : s'.dpc = s.afterClose k := by rw [← hs]
          have hpot := push_pot o.mb o.mb.nSent .stop
          refine one k o _ hk e_outs (by rw [← hs]) (Or.inr trivial) (by rw [hmb]; exact readersWork_notify _ _ _)
            (Or.inl ⟨?_, by show ({ mb with closed := true } : MB).pot < o.mb.pot + c.weight; rw [hmb]; simp only [MB.pot] at hpot ⊢; omega⟩)
          by_cases hlast : k + 1 < s.outs.length
          · have e_dpc : s'.dpc = .close (k + 1) := by rw [e_dpc0]; simp [DSys.afterClose, hlast]
            simp only [dwork, e_dpc, e_prog, e_len, hpc, dstage]; omega
          · have e_dpc : s'.dpc = .done := by rw [e_dpc0]; simp [DSys.afterClose, hlast]
            simp only [dwork, e_dpc, e_prog, e_len, hpc, dstage]; omega
        · cases hout
      · rename_i mb hst
        simp only [MB.sendStep, resolveNum] at hst
        rcases sendCore_alive (hop.open_ hstop) hop.fkilled hop.killed hnot hst with ⟨hout, _, _⟩ | ⟨hout, _, _⟩ <;> cases hout
      · rename_i n mb hst
        simp only [Option.some.injEq] at hs
        simp only [MB.sendStep, resolveNum] at hst
        rcases sendCore_alive (hop.open_ hstop) hop.fkilled hop.killed hnot hst with ⟨hout, _, _⟩ | ⟨hout, hmb, _⟩
        · cases hout
        · have e_outs : s'.outs = s.outs.set k { o with mb := mb } := by rw [← hs]
          have e_len : s'.outs.length = s.outs.length := by rw [e_outs]; simp
          refine one k o _ hk e_outs (by rw [← hs]) (Or.inr trivial) (by rw [hmb]) (Or.inr ⟨?_, ?_⟩)
          · have e_dpc : s'.dpc = s.dpc := by rw [← hs]
            have e_prog : s'.prog = s.prog := by rw [← hs]
            simp only [dwork, e_dpc, e_prog, e_len]
          · rw [hmb]; simp only [MB.pot]
            have := flagPot_pos hwf
            have e : flagPot (some false) = 0 := rfl
            omega
      · rename_i e mb hst
        simp only [MB.sendStep, resolveNum] at hst
        rcases sendCore_alive (hop.open_ hstop) hop.fkilled hop.killed hnot hst with ⟨hout, _, _⟩ | ⟨hout, _, _⟩ <;> cases hout
  · rename_i k e hpc; simp only [dpos, hpc] at hpos
  · simp at hs
  · simp at hs


theorem dmeasure_decreases {c : DConfig} {s s' : DSys} {t : DThread} (hv : c.valid = true) (hl : c.live = true)
    (h : DReachable c s) (hs : dstep s t = some s') : dmeasure c s' < dmeasure c s := by
  have hreach' : DReachable c s' := DReachable.step h hs
  have hinv := DInv.reachable h
  have hp := DProgInv.reachable hv h
  have hli := DLiveInv.reachable hv hl h
  cases t with
  | divider => exact dmeasure_decreases_divider hv hl h hs
  | reader k i =>
    simp only [dstep, stepDReader] at hs
    split at hs
    · simp at hs
    · rename_i o hk
      have hoi := hinv.out k o hk
      have hop := hp.out k o hk
      have hwl := subs_le_weight (hli.out k o hk)
      have fin : ∀ (o' : Out), s' = { s with outs := s.outs.set k o' } →
          outMeasure c.weight (c.prog.length + 1) o' < outMeasure c.weight (c.prog.length + 1) o → dmeasure c s' < dmeasure c s := by
        intro o' hs' hlt
        subst hs'
        simp only [dmeasure]
        have e : dwork ({ s with outs := s.outs.set k o' } : DSys) = dwork s := by simp [dwork]
        rw [e]
        exact dmeasure_lt hk (by omega)
      split at hs
      · simp at hs
      · rename_i r hr
        split at hs
        · rename_i hpc
          split at hs
          · simp at hs
          · rename_i mb hst
            simp only [Option.some.injEq] at hs
            have hpot := readStep_pot hst
            obtain ⟨_, _, _, _, sub, s2, hi, hsubs, _, hpost⟩ := hoi.mb.readStep hst
            simp only [ReadPost] at hpost
            simp only at hpot
            have hrw := readersWork_set (c.prog.length + 1) (s' := s2) (r' := r) hi hr
            rw [set_self hr] at hrw
            have e : readerWork (c.prog.length + 1) s2 r = readerWork (c.prog.length + 1) sub r := by
              simp only [readerWork, hpost.1]
            refine fin _ hs.symm ?_
            simp only [outMeasure, hsubs]
            apply measure_lt_pot
            · omega
            · omega
          · rename_i mb hst
            obtain ⟨_, _, _, _, _, _, sub, s2, _, _, _, hout⟩ := readStep_shape hst
            simp only at hout
            rw [hop.killed] at hout; cases hout
          · rename_i msgs mb hst
            simp only [Option.some.injEq] at hs
            have hpot := readStep_pot hst
            obtain ⟨_, _, _, _, sub, s2, hi, hsubs, _, hpost⟩ := hoi.mb.readStep hst
            simp only [ReadPost] at hpost
            obtain ⟨hn2, _, hne, _⟩ := hpost
            simp only at hpot
            have hrw := readersWork_set (c.prog.length + 1) (s' := s2) (r' := deliver s.futDone msgs r.got) hi hr
            have hlen : 1 ≤ msgs.length := by
              cases msgs with
              | nil => exact absurd rfl hne
              | cons a l => simp
            have hbound : s2.next ≤ c.prog.length + 1 := by
              have hilt : i < o.mb.subs.length := (List.getElem?_eq_some_iff.mp hi).1
              have hklt : k < s.outs.length := (List.getElem?_eq_some_iff.mp hk).1
              refine dnext_le_bound hv hreach' k { o with mb := mb, readers := o.readers.set i (deliver s.futDone msgs r.got) }
                (by rw [← hs]; simp [hklt]) i s2 (by simp only [hsubs]; simp [hilt])
            have htail := deliver_tail_le s.futDone msgs r.got
            have e : readerWork (c.prog.length + 1) s2 (deliver s.futDone msgs r.got) + 1 ≤ readerWork (c.prog.length + 1) sub r := by
              have ht : tailOf r.pc = [] := by rw [hpc]; rfl
              simp only [readerWork, ht, List.length_nil]
              omega
            refine fin _ hs.symm ?_
            simp only [outMeasure, hsubs]
            apply measure_lt_work
            · omega
            · omega
        · rename_i pend hpc
          split at hs
          · rename_i id v rest
            split at hs
            · rename_i hdone
              simp only [Option.some.injEq] at hs
              have hilt : i < o.mb.subs.length := by
                rw [← hoi.rd.len]; exact (List.getElem?_eq_some_iff.mp hr).1
              have hi : o.mb.subs[i]? = some o.mb.subs[i] := List.getElem?_eq_getElem hilt
              have hrw := readersWork_set (c.prog.length + 1) (s' := o.mb.subs[i])
                (r' := deliver s.futDone (Msg.fut id v :: rest) r.got) hi hr
              rw [set_self hi] at hrw
              have htail : (tailOf (deliver s.futDone (Msg.fut id v :: rest) r.got).pc).length ≤ rest.length := by
                simp only [deliver, hdone, if_true]
                exact deliver_tail_le _ _ _
              have e : readerWork (c.prog.length + 1) o.mb.subs[i] (deliver s.futDone (Msg.fut id v :: rest) r.got) + 1 ≤
                  readerWork (c.prog.length + 1) o.mb.subs[i] r := by
                have ht : tailOf r.pc = Msg.fut id v :: rest := by rw [hpc]; rfl
                simp only [readerWork, ht, List.length_cons]
                omega
              refine fin _ hs.symm ?_
              simp only [outMeasure]
              apply measure_lt_work
              · omega
              · omega
            · simp at hs
          · simp at hs
        · simp at hs
        · simp at hs
  | worker j =>
    simp only [dstep, stepDWorker] at hs
    split at hs
    · rename_i id rest hw
      simp only [Option.some.injEq] at hs; subst hs
      have := workersWork_set hw
      simp only [dmeasure]
      have e : dwork ({ s with futDone := id :: s.futDone, workers := s.workers.set j rest } : DSys) = dwork s := by simp [dwork]
      rw [e]
      have h2 := Nat.mul_le_mul_left c.weight (show dwork s + workersWork (s.workers.set j rest) + 1 ≤ dwork s + workersWork s.workers by omega)
      rw [Nat.mul_succ] at h2
      simp only [DConfig.weight] at h2 ⊢
      omega
    · simp at hs
  | killer q =>
    simp only [dstep, stepDKiller, hp.noKill] at hs
    simp at hs

theorem drun_length_le {c : DConfig} (hv : c.valid = true) (hl : c.live = true) (sched : List DThread) (s : DSys)
    (h : drun? (dinit c) sched = some s) : sched.length + dmeasure c s ≤ dmeasure c (dinit c) := by
  have gen : ∀ (s0 : DSys), DReachable c s0 → ∀ sched, drun? s0 sched = some s → sched.length + dmeasure c s ≤ dmeasure c s0 := by
    intro s0 h0 sched
    induction sched generalizing s0 with
    | nil => intro h; simp only [drun?, Option.some.injEq] at h; subst h; simp
    | cons t ts ih =>
      intro h
      simp only [drun?] at h
      split at h
      · rename_i s1 hs1
        have h1 := ih s1 (DReachable.step h0 hs1) h
        have h2 := dmeasure_decreases hv hl h0 hs1
        simp only [List.length_cons]; omega
      · cases h
  exact gen _ (DReachable.init (c := c)) sched h

theorem dreachable_run_from {c : DConfig} {s0 s : DSys} (h0 : DReachable c s0) (sched : List DThread)
    (h : drun? s0 sched = some s) : DReachable c s := by
  induction sched generalizing s0 with
  | nil => simp only [drun?, Option.some.injEq] at h; subst h; exact h0
  | cons t ts ih =>
    simp only [drun?] at h
    split at h
    · rename_i s1 hs1; exact ih (DReachable.step h0 hs1) h
    · cases h

theorem dexists_completion {c : DConfig} (hv : c.valid = true) (hl : c.live = true) :
    ∀ (n : Nat) (s : DSys), DReachable c s → dmeasure c s ≤ n →
      ∃ ext s', drun? s ext = some s' ∧ (∀ t, dstep s' t = none) := by
  intro n
  induction n with
  | zero =>
    intro s hr hm
    refine ⟨[], s, rfl, ?_⟩
    intro t
    cases hst : dstep s t with
    | none => rfl
    | some s1 => have := dmeasure_decreases hv hl hr hst; omega
  | succ k ih =>
    intro s hr hm
    by_cases hstuck : ∀ t, dstep s t = none
    · exact ⟨[], s, rfl, hstuck⟩
    · have : ∃ t s1, dstep s t = some s1 := by
        apply Classical.byContradiction
        intro hcon
        apply hstuck
        intro t
        cases hst : dstep s t with
        | none => rfl
        | some s1 => exact absurd ⟨t, s1, hst⟩ hcon
      obtain ⟨t, s1, hst⟩ := this
      have hlt := dmeasure_decreases hv hl hr hst
      obtain ⟨ext, s', hrun, hend⟩ := ih s1 (DReachable.step hr hst) (by omega)
      exact ⟨t :: ext, s', by simp [drun?, hst, hrun], hend⟩


def outsBound (W B : Nat) : List (List Bool × Bool) → Nat
  | [] => 0
  | o :: r => (W * (2 * o.1.length * B) + 2 * o.1.length + 4) + outsBound W B r

/-- an explicit bound on the number of steps of a divider network, a function of the configuration only:
with `W = (number of subscribers) + 6`, `n` outputs, `B = |prog| + 1`:
`W · ((2n+2)·|prog| + 2n + 2 + Σ|worker list|) + Σ_outputs (W · 2·n_k·B + 2·n_k + 4)` -/
def dstepBound (c : DConfig) : Nat :=
  c.weight * ((2 * c.outs.length + 2) * c.prog.length + (2 * c.outs.length + 2) + workersWork c.workers)
    + outsBound c.weight (c.prog.length + 1) c.outs

theorem init_outsMeasure (W B : Nat) (c : DConfig) (outs : List (List Bool × Bool)) :
    outsMeasure W B (outs.map fun o =>
        ({ mb := { cap := c.cap, lazy := c.lazy, gateRule := c.gateRule, heap := [],
                   subs := o.1.map fun d => { next := 0, waitingFor := none, canDrive := d, flag := none },
                   nSent := 0, closed := false, killed := false, forceKilled := false,
                   writeFlag := none, fetchFlag := none },
           readers := o.1.map fun _ => { pc := .read, got := [] },
           sent := [], free := o.2 } : Out)) = outsBound W B outs := by
  induction outs with
  | nil => rfl
  | cons a r ih =>
    simp only [List.map_cons, outsMeasure, outsBound, ih, outMeasure, MB.pot, init_readersWork, init_subsPot, flagPot]
    omega

theorem dmeasure_init_le (c : DConfig) : dmeasure c (dinit c) ≤ dstepBound c := by
  have hl : (dinit c).dpc.isLoop = true := loopStart_isLoop _
  have hst := dstage_loop_le (dinit c).outs.length hl
  have e1 : (dinit c).outs.length = c.outs.length := by simp [dinit]
  have e2 : (dinit c).prog = c.prog := rfl
  have e3 : (dinit c).workers = c.workers := rfl
  have e4 : outsMeasure c.weight (c.prog.length + 1) (dinit c).outs = outsBound c.weight (c.prog.length + 1) c.outs :=
    init_outsMeasure _ _ c c.outs
  simp only [dmeasure, dstepBound, dwork, e1, e2, e3, e4]
  rw [e1] at hst
  have := Nat.mul_le_mul_left c.weight
    (show (2 * c.outs.length + 2) * c.prog.length + dstage c.outs.length (dinit c).dpc + workersWork c.workers ≤
      (2 * c.outs.length + 2) * c.prog.length + (2 * c.outs.length + 2) + workersWork c.workers by omega)
  omega

end Strax.Mailbox
