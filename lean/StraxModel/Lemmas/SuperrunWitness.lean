import StraxModel.Model.Superrun
/-
  C14, round 5: closed worlds for the `decide +kernel` witnesses of the open findings C14c / C14e in Props/C14.lean
  (definitions only; the kernel evaluates the whole model pipeline `superGet` on them).
-/
namespace Strax.Superrun.Witness
open Strax Strax.Superrun

/-- the injective stand-in for the hash: pairing -/
abbrev K := List (String × Option (Int × Int)) × Bool
def H0 : List (String × Option (Int × Int)) → Bool → K := fun l b => (l, b)

def errOf {α : Type} : Except Err α → Option Err
  | .error e => some e
  | .ok _ => none

/-- `get_iter` twice on one context starting from the empty store: (error of the first call, error of the second) -/
def twice (w : World) (spec : List String) (n : Nat) (write : Bool) : Option Err × Option Err :=
  match superGet H0 w spec [] [] n false write with
  | .error e => (some e, none)
  | .ok (_, st) => (none, errOf (superGet H0 w spec [] st n false write))

/-- boundaries and recorded subruns of what the first `get_iter` yields -/
def yielded (w : World) (spec : List String) (n : Nat) (write : Bool) : Option (List (Int × Int × Option Runs)) :=
  (superGet H0 w spec [] [] n false write).toOption.map fun p => p.1.map fun c => (c.start, c.stop, c.subruns)

def src0 : Level := ⟨"l0", false, false, 5⟩

/-- C14c: ONE subrun with chunks `[0,10), [10,10), [10,20)`, two superrun levels -/
def zeroWorld : World := ⟨-1, "_s", [src0, ⟨"l1", true, false, 5⟩, ⟨"l2", true, false, 5⟩],
  [("a", [⟨0, 10, []⟩, ⟨10, 10, []⟩, ⟨10, 20, []⟩])]⟩
/-- the same without the zero-duration chunk -/
def noZeroWorld : World := ⟨-1, "_s", [src0, ⟨"l1", true, false, 5⟩, ⟨"l2", true, false, 5⟩],
  [("a", [⟨0, 10, []⟩, ⟨10, 20, []⟩])]⟩

/-- C14e: one subrun `[2,3) ++ [3,3)` (zero-duration chunk LAST), `l1` not superrun-capable, `l2`, `l3` superrun-capable -/
def zeroLastWorld : World := ⟨-1, "_s", [src0, ⟨"l1", false, false, 5⟩, ⟨"l2", true, false, 5⟩, ⟨"l3", true, false, 5⟩],
  [("a", [⟨2, 3, []⟩, ⟨3, 3, []⟩])]⟩

end Strax.Superrun.Witness
