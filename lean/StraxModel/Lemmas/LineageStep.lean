import StraxModel.Lemmas.LineageState
/-
  Helper lemmas for theory T8 (property C02), part 6: every operation of the state machine keeps
  the invariant, and `get` under the invariant returns what a brand-new context computes.
-/
namespace Strax.Lineage
open Strax

variable {K : Type} [DecidableEq K]
set_option linter.unusedSectionVars false

/-! ### unfolding `isStoredCore` and `getCore` -/

theorem isStoredCore_snd (rules : Rules) (H : String → K) (ctx : Ctx K) (s : List (Item K)) (d : String) :
    (isStoredCore rules H ctx s d).2 =
      (getPlugin ctx.registry ctx.config (contextHash rules H ctx.registry ctx.config) (fuelOf ctx.registry) d ctx.cache).2 := by
  cases hg : getPlugin ctx.registry ctx.config (contextHash rules H ctx.registry ctx.config) (fuelOf ctx.registry) d ctx.cache with
  | mk res cache =>
    simp only [isStoredCore, hg]
    cases res with
    | error e => rfl
    | ok inst =>
      simp only
      cases findOpts ctx.registry ctx.fuzzyFor <;> rfl

theorem isStoredCore_fst (rules : Rules) (H : String → K) (ctx : Ctx K) (s : List (Item K)) (d : String) :
    (isStoredCore rules H ctx s d).1 =
      match (getPlugin ctx.registry ctx.config (contextHash rules H ctx.registry ctx.config) (fuelOf ctx.registry) d ctx.cache).1 with
      | .error e => .error e
      | .ok inst =>
        match findOpts ctx.registry ctx.fuzzyFor with
        | .error e => .error e
        | .ok ff => .ok (findItem rules H s d inst.lineage ff ctx.fuzzyOpts).isSome := by
  cases hg : getPlugin ctx.registry ctx.config (contextHash rules H ctx.registry ctx.config) (fuelOf ctx.registry) d ctx.cache with
  | mk res cache =>
    simp only [isStoredCore, hg]
    cases res with
    | error e => rfl
    | ok inst =>
      simp only
      cases findOpts ctx.registry ctx.fuzzyFor <;> rfl

theorem getCore_eq (rules : Rules) (H : String → K) (ctx : Ctx K) (s : List (Item K)) (d : String) :
    getCore rules H ctx s d =
      match (isStoredCore rules H ctx s d).1 with
      | .error e => (.err e, (isStoredCore rules H ctx s d).2, s)
      | .ok _ =>
        match findOpts ctx.registry ctx.fuzzyFor, (isStoredCore rules H ctx s d).2 with
        | .ok ff, some (_, m) =>
          match components rules H m ctx.config s ff ctx.fuzzyOpts (fuelOf ctx.registry) d with
          | .error e => (.err e, (isStoredCore rules H ctx s d).2, s)
          | .ok (prov, new) => (.data prov ctx.fuzzy, (isStoredCore rules H ctx s d).2, addItems s new)
        | .error e, _ => (.err e, (isStoredCore rules H ctx s d).2, s)
        | _, none => (.err .other, (isStoredCore rules H ctx s d).2, s) := by
  unfold getCore
  cases isStoredCore rules H ctx s d with
  | mk res cache => cases res <;> rfl

theorem getCore_cache (rules : Rules) (H : String → K) (ctx : Ctx K) (s : List (Item K)) (d : String) :
    (getCore rules H ctx s d).2.1 = (isStoredCore rules H ctx s d).2 := by
  rw [getCore_eq]
  split
  · rfl
  · split
    · split
      · rfl
      · rfl
    · rfl
    · rfl

theorem fuzzy_false_iff {ctx : Ctx K} : ctx.fuzzy = false ↔ ctx.fuzzyFor = [] ∧ ctx.fuzzyOpts = [] := by
  unfold Ctx.fuzzy
  cases ctx.fuzzyFor <;> cases ctx.fuzzyOpts <;> simp

/-! ### the cache part of one `isStoredCore` -/

theorem isStoredCore_cacheStep {H : String → K} (hH : HashInj H) {ctx : Ctx K} (hi : CtxInv H ctx)
    (s : List (Item K)) (d : String) :
    CacheStep ctx.registry ctx.config (contextHash Rules.fixed H ctx.registry ctx.config) ctx.cache
      (isStoredCore Rules.fixed H ctx s d).2 := by
  rw [isStoredCore_snd]
  exact (getPlugin_spec hi.1 _ _ d ctx.cache (hi.goodCache hH)).toCacheStep

/-- if `isStoredCore` answers at all, the plugin of `d` is in the cache it returns -/
theorem isStoredCore_ok {H : String → K} (hH : HashInj H) {ctx : Ctx K} (hi : CtxInv H ctx)
    (s : List (Item K)) (d : String) (b : Bool) (h : (isStoredCore Rules.fixed H ctx s d).1 = .ok b) :
    ∃ m inst ff, (isStoredCore Rules.fixed H ctx s d).2 = some (contextHash Rules.fixed H ctx.registry ctx.config, m) ∧
      m.lookup d = some inst ∧ GoodMap ctx.registry ctx.config m ∧ findOpts ctx.registry ctx.fuzzyFor = .ok ff := by
  have hs := getPlugin_spec hi.1 (contextHash Rules.fixed H ctx.registry ctx.config) (fuelOf ctx.registry) d ctx.cache
    (hi.goodCache hH)
  rw [isStoredCore_fst] at h
  rw [isStoredCore_snd]
  split at h
  · simp at h
  · rename_i inst hres
    obtain ⟨m, hm, hl⟩ := hs.ok_mem inst hres
    split at h
    · simp at h
    · rename_i ff hff
      exact ⟨m, inst, ff, hm, hl, hs.good m hm, hff⟩

/-! ### one operation keeps the invariant -/

theorem getCore_inv {H : String → K} (hH : HashInj H) {ctx : Ctx K} (hi : CtxInv H ctx) {s : List (Item K)}
    (hs : StorageInv H s) (d : String) :
    CtxInv H { ctx with cache := (getCore Rules.fixed H ctx s d).2.1 } ∧
      StorageInv H (getCore Rules.fixed H ctx s d).2.2 := by
  refine ⟨by rw [getCore_cache]; exact hi.of_cacheStep (isStoredCore_cacheStep hH hi s d), ?_⟩
  rw [getCore_eq]
  split
  · exact hs
  · rename_i b hb
    obtain ⟨m, inst, ff, hm, _, hgood, hff⟩ := isStoredCore_ok hH hi s d b hb
    rw [hm, hff]
    simp only
    split
    · exact hs
    · rename_i prov new hc
      simp only
      apply addItems_inv hs
      by_cases hfz : (ff.isEmpty && ctx.fuzzyOpts.isEmpty) = true
      · have h1 : ff = [] := by
          have := Bool.and_eq_true_iff.mp hfz
          exact List.isEmpty_iff.mp this.1
        have h2 : ctx.fuzzyOpts = [] := by
          have := Bool.and_eq_true_iff.mp hfz
          exact List.isEmpty_iff.mp this.2
        rw [h1, h2] at hc
        exact (components_sound hH hgood hs _ _ _ _ hc).2.2
      · have := components_fuzzy_new (by simpa using hfz) _ _ _ _ hc
        subst this
        simp

theorem stepCtx_inv {H : String → K} (hH : HashInj H) {ctx : Ctx K} (hi : CtxInv H ctx) {s : List (Item K)}
    (hs : StorageInv H s) (op : CtxOp) :
    CtxInv H (stepCtx Rules.fixed H ctx s op).2.1 ∧ StorageInv H (stepCtx Rules.fixed H ctx s op).2.2 := by
  cases op with
  | setConfig kvs =>
    refine ⟨⟨hi.1, hi.2.1.dictUpdate kvs, ?_⟩, hs⟩
    intro h m hm
    exact hi.2.2 h m hm
  | register cls =>
    refine ⟨⟨Registry.set_wf hi.1 cls, hi.2.1, ?_⟩, hs⟩
    intro h m hm
    simp only [stepCtx, Rules.fixed, Bool.and_true] at hm
    cases hr : ctx.registry.replaces cls with
    | true => simp [hr] at hm
    | false =>
      simp only [hr, Bool.false_eq_true, if_false] at hm
      obtain ⟨r₀, c₀, a, b, g⟩ := hi.2.2 h m hm
      exact ⟨r₀, c₀, a, b, goodMap_ext (Registry.extends_set hr) g⟩
  | newContext =>
    refine ⟨⟨hi.1, hi.2.1, ?_⟩, hs⟩
    intro h m hm
    simp [stepCtx] at hm
  | setFuzzy ff ffo =>
    exact ⟨⟨hi.1, hi.2.1, fun h m hm => hi.2.2 h m hm⟩, hs⟩
  | lineage d =>
    have hsp := getPlugin_spec hi.1 (contextHash Rules.fixed H ctx.registry ctx.config) (fuelOf ctx.registry) d ctx.cache
      (hi.goodCache hH)
    have := hi.of_cacheStep hsp.toCacheStep
    simp only [stepCtx]
    cases hg : getPlugin ctx.registry ctx.config (contextHash Rules.fixed H ctx.registry ctx.config)
        (fuelOf ctx.registry) d ctx.cache with
    | mk res cache => rw [hg] at this; cases res <;> exact ⟨this, hs⟩
  | isStored d =>
    have := hi.of_cacheStep (isStoredCore_cacheStep hH hi s d)
    simp only [stepCtx]
    cases hg : isStoredCore Rules.fixed H ctx s d with
    | mk res cache => rw [hg] at this; cases res <;> exact ⟨this, hs⟩
  | make d =>
    have h1 := hi.of_cacheStep (isStoredCore_cacheStep hH hi s d)
    simp only [stepCtx]
    cases hst : isStoredCore Rules.fixed H ctx s d with
    | mk res cache =>
      rw [hst] at h1
      simp only at h1
      cases res with
      | error e => exact ⟨h1, hs⟩
      | ok b =>
        cases b with
        | true => exact ⟨h1, hs⟩
        | false =>
          simp only
          have h2 := getCore_inv hH h1 hs d
          cases hg : getCore Rules.fixed H { ctx with cache := cache } s d with
          | mk o rest =>
            obtain ⟨cache', s'⟩ := rest
            rw [hg] at h2
            cases o <;> exact h2
  | get d =>
    have h2 := getCore_inv hH hi hs d
    simp only [stepCtx]
    cases hg : getCore Rules.fixed H ctx s d with
    | mk o rest =>
      obtain ⟨cache', s'⟩ := rest
      rw [hg] at h2
      exact h2

/-- the invariant of the two-context state -/
def Inv (H : String → K) (s : State K) : Prop := CtxInv H s.main ∧ CtxInv H s.second ∧ StorageInv H s.storage

theorem inv_init (H : String → K) : Inv H (State.init : State K) := by
  refine ⟨⟨by simp [Ctx.empty, Registry.WF, State.init], by simp [Ctx.empty, NodupKeys, State.init], ?_⟩,
    ⟨by simp [Ctx.empty, Registry.WF, State.init], by simp [Ctx.empty, NodupKeys, State.init], ?_⟩, ?_⟩
  · intro h m hm; simp [State.init, Ctx.empty] at hm
  · intro h m hm; simp [State.init, Ctx.empty] at hm
  · intro it hit; simp [State.init] at hit

theorem step_inv {H : String → K} (hH : HashInj H) {s : State K} (hi : Inv H s) (o : Op) :
    Inv H (step Rules.fixed H s o).2 := by
  obtain ⟨h1, h2, h3⟩ := hi
  unfold step
  cases hw : o.second with
  | false =>
    have := stepCtx_inv hH (ctx := s.ctx false) (by simpa [State.ctx] using h1) h3 o.op
    cases hst : stepCtx Rules.fixed H (s.ctx false) s.storage o.op with
    | mk out rest =>
      obtain ⟨ctx', s'⟩ := rest
      rw [hst] at this
      simp only [Bool.false_eq_true, if_false]
      exact ⟨this.1, h2, this.2⟩
  | true =>
    have := stepCtx_inv hH (ctx := s.ctx true) (by simpa [State.ctx] using h2) h3 o.op
    cases hst : stepCtx Rules.fixed H (s.ctx true) s.storage o.op with
    | mk out rest =>
      obtain ⟨ctx', s'⟩ := rest
      rw [hst] at this
      simp only [if_true]
      exact ⟨h1, this.1, this.2⟩

theorem run_inv {H : String → K} (hH : HashInj H) {s : State K} (hi : Inv H s) (ops : List Op) :
    Inv H (run Rules.fixed H s ops).2 := by
  induction ops generalizing s with
  | nil => exact hi
  | cons o os ih =>
    unfold run
    have := step_inv hH hi o
    cases hst : step Rules.fixed H s o with
    | mk out s' =>
      rw [hst] at this
      simp only
      have h2 := ih this
      cases hr : run Rules.fixed H s' os with
      | mk outs s'' => rw [hr] at h2; exact h2

/-! ### no stale read, for one `get` -/

/-- the context a user would create from scratch with the same settings -/
def Ctx.fresh (ctx : Ctx K) : Ctx K := ⟨ctx.registry, ctx.config, [], [], none⟩

theorem Ctx.fresh_inv {H : String → K} {ctx : Ctx K} (hi : CtxInv H ctx) : CtxInv H ctx.fresh :=
  ⟨hi.1, hi.2.1, by intro h m hm; simp [Ctx.fresh] at hm⟩

theorem getCore_data {rules : Rules} {H : String → K} {ctx : Ctx K} {s : List (Item K)} {d : String}
    {p : Lineage} {fz : Bool} (h : (getCore rules H ctx s d).1 = .data p fz) :
    ∃ b ff hh m new, (isStoredCore rules H ctx s d).1 = .ok b ∧ findOpts ctx.registry ctx.fuzzyFor = .ok ff ∧
      (isStoredCore rules H ctx s d).2 = some (hh, m) ∧
      components rules H m ctx.config s ff ctx.fuzzyOpts (fuelOf ctx.registry) d = .ok (p, new) ∧
      fz = ctx.fuzzy := by
  rw [getCore_eq] at h
  split at h
  · simp at h
  · rename_i b hb
    split at h
    · rename_i ff hh m hff hcache
      split at h
      · simp at h
      · rename_i prov new hc
        simp at h
        exact ⟨b, ff, hh, m, new, hb, hff, hcache, by rw [← h.1]; exact hc, h.2.symm⟩
    · simp at h
    · simp at h

/-- `get_array` of a context that satisfies the invariant, has fuzzy matching off and shares a
sound directory returns rows of the same provenance as a brand-new context on an empty directory -/
theorem getCore_no_stale {H : String → K} (hH : HashInj H) {ctx : Ctx K} (hi : CtxInv H ctx)
    (hfz : ctx.fuzzy = false) {s : List (Item K)} (hs : StorageInv H s) (d : String) (p : Lineage) (fz : Bool)
    (hfresh : (getCore Rules.fixed H ctx.fresh ([] : List (Item K)) d).1 = .data p fz) :
    ∃ p', (getCore Rules.fixed H ctx s d).1 = .data p' false ∧ lineageCanon p' = lineageCanon p := by
  obtain ⟨hff, hffo⟩ := fuzzy_false_iff.mp hfz
  have hif := Ctx.fresh_inv hi
  have hempty : StorageInv H ([] : List (Item K)) := by intro it hit; simp at hit
  -- the fresh context
  obtain ⟨b₀, ff₀, hh₀, m₀, new₀, hb₀, hff₀, hc₀, hcomp₀, _⟩ := getCore_data hfresh
  obtain ⟨m₀', inst₀, _, hm₀, hl₀, hgood₀, _⟩ := isStoredCore_ok hH hif [] d b₀ hb₀
  rw [hm₀] at hc₀; cases hc₀
  have hff₀' : ff₀ = [] := by
    have : findOpts ctx.fresh.registry ctx.fresh.fuzzyFor = .ok [] := rfl
    rw [this] at hff₀; cases hff₀; rfl
  subst hff₀'
  have hfo : ctx.fresh.fuzzyOpts = [] := rfl
  rw [hfo] at hcomp₀
  have hreg : ctx.fresh.registry = ctx.registry := rfl
  have hcfg : ctx.fresh.config = ctx.config := rfl
  rw [hreg, hcfg] at hcomp₀ hgood₀
  obtain ⟨⟨n₀, L₀, hL₀, hlin₀⟩, hnod₀, _⟩ := components_sound hH hgood₀ hempty _ _ _ _ hcomp₀
  -- the lineage of `d` is defined, so the context in use finds the plugin
  obtain ⟨_, ⟨n₁, L₁, hL₁, _⟩, _, _⟩ := hgood₀ d inst₀ hl₀
  have hfuel := lineage_fuel hL₁
  have hsp := getPlugin_spec hi.1 (contextHash Rules.fixed H ctx.registry ctx.config) (fuelOf ctx.registry) d ctx.cache
    (hi.goodCache hH)
  obtain ⟨inst₁, hres₁⟩ := hsp.complete L₁ hfuel
  obtain ⟨m₁, hm₁, hl₁⟩ := hsp.ok_mem inst₁ hres₁
  have hgood₁ := hsp.good m₁ hm₁
  have hfo' : findOpts ctx.registry ctx.fuzzyFor = .ok [] := by rw [hff]; rfl
  have hst1 : (isStoredCore Rules.fixed H ctx s d).1 =
      .ok (findItem Rules.fixed H s d inst₁.lineage [] ctx.fuzzyOpts).isSome := by
    rw [isStoredCore_fst, hres₁, hfo']
  have hst2 : (isStoredCore Rules.fixed H ctx s d).2 =
      some (contextHash Rules.fixed H ctx.registry ctx.config, m₁) := by
    rw [isStoredCore_snd]; exact hm₁
  obtain ⟨res', hres'⟩ := components_complete (s := s) hgood₀ hgood₁ _ d _ hcomp₀ (by simp [hl₁])
  obtain ⟨p', new'⟩ := res'
  obtain ⟨⟨n₂, L₂, hL₂, hlin₂⟩, hnod₂, _⟩ := components_sound hH hgood₁ hs _ _ _ _ hres'
  have hLL : L₂ = L₀ := lineage_det hL₂ hL₀
  subst hLL
  refine ⟨p', ?_, (lineageCanon_eq_iff hnod₂ hnod₀).mpr (hlin₂.trans hlin₀.symm)⟩
  rw [getCore_eq, hst1]
  simp only
  rw [hst2, hfo', hffo]
  simp only
  rw [hres', hfz]

end Strax.Lineage
