import StraxModel.Lemmas.DividerProg
/-
  Deadlock freedom of the divider network (divide_outputs + its output mailboxes + their subscribers).
-/
namespace Strax.Mailbox
open Strax

/-! ### liveness of the divider network: extra invariants -/

/-- future ids in the dicts of a divider program -/
def msgFutIds : List Msg → List Nat
  | [] => []
  | .fut id _ :: r => id :: msgFutIds r
  | _ :: r => msgFutIds r

def dfutIds : List DItem → List Nat
  | [] => []
  | .item msgs :: r => msgFutIds msgs ++ dfutIds r
  | .raise :: r => dfutIds r

/-- decidable liveness side conditions of a divider configuration: `max_messages ≥ 1`, every output has a
subscriber, every future is completed by some worker, and in lazy mode every output whose gate the divider
passes (not in `flow_freely`) has a driving subscriber -/
def DConfig.live (c : DConfig) : Bool :=
  (c.cap != some 0) && c.outs.all (fun o => !o.1.isEmpty) &&
  (dfutIds c.prog).all (fun id => c.workers.any (fun w => w.contains id)) &&
  (!c.lazy || c.outs.all (fun o => o.2 || o.1.contains true))

theorem nextGated_spec {l : List Out} {k j : Nat} (h : nextGated l k = some j) :
    k ≤ j ∧ j < k + l.length ∧ ∃ o, l[j - k]? = some o ∧ o.free = false := by
  induction l generalizing k with
  | nil => simp [nextGated] at h
  | cons a r ih =>
    simp only [nextGated] at h
    split at h
    · obtain ⟨h1, h2, o, h3, h4⟩ := ih h
      refine ⟨by omega, by simp; omega, o, ?_, h4⟩
      have : j - k = (j - (k + 1)) + 1 := by omega
      rw [this]; simpa using h3
    · rename_i hf
      simp only [Option.some.injEq] at h; subst h
      exact ⟨Nat.le_refl _, by simp, a, by simp, by simpa using hf⟩

/-- where the divider stands is a real output (and, at a gate, one that is not in `flow_freely`) -/
def dpcOk (s : DSys) : Prop :=
  match s.dpc with
  | .gate k => ∃ o, s.outs[k]? = some o ∧ o.free = false
  | .send k msgs => k < s.outs.length ∧ (msgs[k]?).isSome = true
  | .close k => k < s.outs.length
  | .exc k _ => k < s.outs.length
  | _ => True

theorem gateFrom_ok (s : DSys) (k : Nat) (s' : DSys) (ho : s'.outs = s.outs) (hpc : s'.dpc = s.gateFrom k) : dpcOk s' := by
  unfold dpcOk
  rw [hpc]
  unfold DSys.gateFrom
  cases hg : nextGated (s.outs.drop k) k with
  | none => simp
  | some j =>
    simp only
    obtain ⟨h1, h2, o, h3, h4⟩ := nextGated_spec hg
    refine ⟨o, ?_, h4⟩
    rw [ho]
    rw [List.getElem?_drop] at h3
    have : k + (j - k) = j := by omega
    rw [this] at h3; exact h3

theorem loopStart_ok (s s' : DSys) (ho : s'.outs = s.outs) (hpc : s'.dpc = s.loopStart) : dpcOk s' := by
  unfold DSys.loopStart at hpc
  split at hpc
  · exact gateFrom_ok s 0 s' ho hpc
  · unfold dpcOk; rw [hpc]; trivial

structure OutLive (c : DConfig) (k : Nat) (o : Out) : Prop where
  heapSub : ∀ e ∈ o.mb.heap, e ∈ o.sent
  heapGe : ∀ e ∈ o.mb.heap, minNext o.mb.subs ≤ e.1
  futHead : ∀ r ∈ o.readers, ∀ p, r.pc = .futW p → ∃ id v rest, p = .fut id v :: rest
  stat : ∃ co, c.outs[k]? = some co ∧ o.mb.static = (c.cap, c.lazy, c.gateRule, co.1) ∧ o.free = co.2

structure DLiveInv (c : DConfig) (s : DSys) : Prop where
  out : ∀ (k : Nat) (o : Out), s.outs[k]? = some o → OutLive c k o
  futs : ∀ id, id ∈ dfutIds c.prog → id ∈ s.futDone ∨ ∃ w ∈ s.workers, id ∈ w
  pcOk : dpcOk s
  lazyEq : s.lazy = c.lazy

theorem DLiveInv.init {c : DConfig} (hl : c.live = true) : DLiveInv c (dinit c) := by
  refine ⟨?_, ?_, ?_, rfl⟩
  · intro k o hk
    simp only [dinit, List.getElem?_map] at hk
    cases hc : c.outs[k]? with
    | none => simp [hc] at hk
    | some p =>
      simp [hc] at hk; subst hk
      refine ⟨fun e he => by simp at he, fun e he => by simp at he, ?_, ⟨p, hc, ?_, rfl⟩⟩
      · intro r hr q hq
        simp only [List.mem_map] at hr
        obtain ⟨_, _, rfl⟩ := hr
        simp at hq
      · simp [MB.static, List.map_map, Function.comp_def]
  · intro id hid
    right
    simp only [DConfig.live, Bool.and_eq_true, List.all_eq_true, List.any_eq_true, List.contains_iff_mem] at hl
    obtain ⟨w, hw, hm⟩ := hl.1.2 id hid
    exact ⟨w, by simpa [dinit] using hw, by simpa using hm⟩
  · exact loopStart_ok _ (dinit c) rfl rfl


theorem dpcOk_set {s s' : DSys} {k : Nat} {o o' : Out} (h : dpcOk s) (hk : s.outs[k]? = some o)
    (houts : s'.outs = s.outs.set k o') (hpc : s'.dpc = s.dpc) (hfree : o'.free = o.free) : dpcOk s' := by
  have hklt : k < s.outs.length := (List.getElem?_eq_some_iff.mp hk).1
  unfold dpcOk at h ⊢
  rw [hpc]
  cases hp : s.dpc <;> simp only [hp] at h ⊢
  · rename_i j
    obtain ⟨oj, hj, hf⟩ := h
    rw [houts]
    by_cases hjk : j = k
    · subst hjk
      rw [hk] at hj; cases hj
      exact ⟨o', by simp [hklt], by rw [hfree]; exact hf⟩
    · exact ⟨oj, by rw [List.getElem?_set]; simp [Ne.symm hjk, hj], hf⟩
  · rw [houts, List.length_set]; exact h
  · rw [houts, List.length_set]; exact h
  · rw [houts, List.length_set]; exact h

theorem DLiveInv.update {c : DConfig} {s s' : DSys} {k : Nat} {o o' : Out} (h : DLiveInv c s)
    (hk : s.outs[k]? = some o) (houts : s'.outs = s.outs.set k o') (hlazy : s'.lazy = s.lazy)
    (hfd : s'.futDone = s.futDone) (hw : s'.workers = s.workers) (hpc : dpcOk s') (ho' : OutLive c k o') : DLiveInv c s' := by
  refine ⟨?_, by rw [hfd, hw]; exact h.futs, hpc, by rw [hlazy]; exact h.lazyEq⟩
  intro j oj hj
  rw [houts] at hj
  rcases getElem?_set_cases hj with ⟨rfl, rfl, _⟩ | ⟨_, hj⟩
  · exact ho'
  · exact h.out j oj hj

theorem OutLive.push {c : DConfig} {k : Nat} {o : Out} (h : OutLive c k o) (n : Nat) (m : Msg)
    (hn : ¬ n < minNext o.mb.subs) (closed : Bool) :
    OutLive c k { o with mb := { o.mb.push n m with closed := closed }, sent := o.sent ++ [(n, m)] } := by
  obtain ⟨co, h1, h2, h3⟩ := h.stat
  refine ⟨?_, ?_, h.futHead, co, h1, ?_, h3⟩
  · intro e he
    simp only [MB.push, MB.notifyRead, List.mem_append, List.mem_singleton] at he ⊢
    rcases he with he | he
    · exact Or.inl (h.heapSub e he)
    · exact Or.inr he
  · intro e he
    simp only [MB.push, MB.notifyRead, minNext_map_notify, List.mem_append, List.mem_singleton] at he ⊢
    rcases he with he | he
    · exact h.heapGe e he
    · subst he; simp only; omega
  · have := push_static o.mb n m
    simp only [MB.static] at this h2 ⊢
    rw [← h2, ← this]

theorem OutLive.setMB {c : DConfig} {k : Nat} {o : Out} (h : OutLive c k o) (mb : MB) (hh : mb.heap = o.mb.heap)
    (hs : mb.subs = o.mb.subs) (hst : mb.static = o.mb.static) : OutLive c k { o with mb := mb } := by
  obtain ⟨co, h1, h2, h3⟩ := h.stat
  exact ⟨by simp only [hh]; exact h.heapSub, by simp only [hh, hs]; exact h.heapGe, h.futHead, co, h1, by rw [hst]; exact h2, h3⟩


theorem gateStep_eq {mb mb' : MB} {ok : Bool} (hg : mb.gateStep = some (ok, mb')) :
    mb'.heap = mb.heap ∧ mb'.subs = mb.subs := by
  simp only [MB.gateStep] at hg
  split at hg
  · simp at hg
  · split at hg <;> (simp only [Option.some.injEq, Prod.mk.injEq] at hg; obtain ⟨_, rfl⟩ := hg; exact ⟨rfl, rfl⟩)

theorem DLiveInv.stepDivider {c : DConfig} {s s' : DSys} (hv : c.valid = true) (hinv : DInv s) (hp : DProgInv c s)
    (h : DLiveInv c s) (hs : stepDivider s = some s') : DLiveInv c s' := by
  obtain ⟨hok, _, hne⟩ := dvalid_parts hv
  have hnpos : 0 < s.outs.length := by
    rw [hp.nOuts]; cases hc : c.outs with
    | nil => exact absurd hc hne
    | cons a r => simp
  have hemp : s.outs.isEmpty = false := by
    cases hso : s.outs with
    | nil => rw [hso] at hnpos; simp at hnpos
    | cons a r => rfl
  have hpos := hp.pos
  have hpcok := h.pcOk
  unfold Mailbox.stepDivider at hs
  split at hs
  · -- gate k
    rename_i k hpc
    split at hs
    · simp at hs
    · rename_i o hk
      split at hs
      · simp at hs
      · rename_i ok mb hg
        simp only [Option.some.injEq] at hs
        have ho := h.out k o hk
        obtain ⟨e1, e2⟩ := gateStep_eq hg
        have hfree : o.free = false := by
          simp only [dpcOk, hpc] at hpcok
          obtain ⟨o2, h1, h2⟩ := hpcok
          rw [hk] at h1; cases h1; exact h2
        refine h.update hk (o' := { o with mb := mb }) (by rw [← hs]) (by rw [← hs]) (by rw [← hs]) (by rw [← hs]) ?_
          (ho.setMB mb e1 e2 (gateStep_static hg))
        cases ok with
        | true =>
          refine gateFrom_ok ({ s with outs := s.outs.set k { o with mb := mb } } : DSys) (k + 1) s' (by rw [← hs]) (by rw [← hs]; rfl)
        | false =>
          unfold dpcOk
          have e_dpc : s'.dpc = .gate k := by rw [← hs]; rfl
          have e_outs : s'.outs = s.outs.set k { o with mb := mb } := by rw [← hs]
          rw [e_dpc]
          simp only
          have hklt : k < s.outs.length := (List.getElem?_eq_some_iff.mp hk).1
          exact ⟨{ o with mb := mb }, by rw [e_outs]; simp [hklt], hfree⟩
  · -- fetch
    rename_i hpc
    have hloop : s.dpc.isLoop = true := by rw [hpc]; rfl
    have hprog0 := (dpos_loop hloop).mp hpos
    have keep : ∀ (s1 : DSys), s1.outs = s.outs → s1.lazy = s.lazy → s1.futDone = s.futDone → s1.workers = s.workers →
        dpcOk s1 → DLiveInv c s1 := by
      intro s1 h1 h2 h3 h4 h5
      exact ⟨by rw [h1]; exact h.out, by rw [h3, h4]; exact h.futs, h5, by rw [h2]; exact h.lazyEq⟩
    split at hs
    · simp only [Option.some.injEq, hemp, Bool.false_eq_true, if_false] at hs
      refine keep s' (by rw [← hs]) (by rw [← hs]) (by rw [← hs]) (by rw [← hs]) ?_
      have e_dpc : s'.dpc = .close 0 := by rw [← hs]
      have e_outs : s'.outs = s.outs := by rw [← hs]
      simp only [dpcOk, e_dpc, e_outs]; exact hnpos
    · rename_i msgs rest hcons
      simp only [Option.some.injEq, hemp, Bool.false_eq_true, if_false] at hs
      rw [hcons] at hprog0
      obtain ⟨hget, _⟩ := drop_eq_cons hprog0.symm
      have hmok : DItem.ok c.outs.length (.item msgs) = true := (List.all_eq_true.mp hok) _ (List.mem_of_getElem? hget)
      simp only [DItem.ok, Bool.and_eq_true, beq_iff_eq] at hmok
      have h0 : (msgs[0]?).isSome = true := by
        have : 0 < msgs.length := by rw [hmok.1, ← hp.nOuts]; exact hnpos
        simp [this]
      refine keep s' (by rw [← hs]) (by rw [← hs]) (by rw [← hs]) (by rw [← hs]) ?_
      have e_dpc : s'.dpc = .send 0 msgs := by rw [← hs]; simp only [DSys.sendAt, h0, if_true]
      have e_outs : s'.outs = s.outs := by rw [← hs]
      simp only [dpcOk, e_dpc, e_outs]; exact ⟨hnpos, h0⟩
    · rename_i rest hcons
      exfalso
      rw [hcons] at hprog0
      obtain ⟨hget, _⟩ := drop_eq_cons hprog0.symm
      have := (List.all_eq_true.mp hok) _ (List.mem_of_getElem? hget)
      simp [DItem.ok] at this
  · -- send k msgs
    rename_i k msgs hpc
    simp only [dpos, hpc] at hpos
    obtain ⟨hget, _⟩ := hpos
    have hmok : DItem.ok c.outs.length (.item msgs) = true := (List.all_eq_true.mp hok) _ (List.mem_of_getElem? hget)
    simp only [DItem.ok, Bool.and_eq_true, beq_iff_eq] at hmok
    split at hs
    · rename_i o m hk hm
      have ho := h.out k o hk
      have hop := hp.out k o hk
      have hoi := hinv.out k o hk
      have hklt : k < s.outs.length := (List.getElem?_eq_some_iff.mp hk).1
      have hstop : stopSent s k = false := (ES_send (c := c) hpc k).2
      have hnot : ¬ o.mb.nSent < minNext o.mb.subs := le_minNext_of_not_sent hoi.mb (nSent_unsent hop hstop)
      split at hs
      · simp at hs
      · rename_i n mb hst
        simp only [Option.some.injEq] at hs
        simp only [MB.sendStep, resolveNum] at hst
        rcases sendCore_alive (hop.open_ hstop) hop.fkilled hop.killed hnot hst with ⟨hout, hmb, _⟩ | ⟨hout, _, _⟩
        · cases hout
          have hol := ho.push o.mb.nSent m hnot o.mb.closed
          have e_o : ({ o with mb := mb, sent := o.sent ++ [(o.mb.nSent, m)] } : Out) =
              { o with mb := { o.mb.push o.mb.nSent m with closed := o.mb.closed }, sent := o.sent ++ [(o.mb.nSent, m)] } := by
            rw [hmb]; rfl
          refine h.update hk (o' := { o with mb := mb, sent := o.sent ++ [(o.mb.nSent, m)] }) (by rw [← hs]) (by rw [← hs])
            (by rw [← hs]) (by rw [← hs]) ?_ (by rw [e_o]; exact hol)
          have e_dpc0 : s'.dpc = s.afterSendAt k msgs := by rw [← hs]
          have e_outs : s'.outs = s.outs.set k { o with mb := mb, sent := o.sent ++ [(o.mb.nSent, m)] } := by rw [← hs]
          by_cases hlast : k + 1 < s.outs.length
          · have hk1 : (msgs[k + 1]?).isSome = true := by
              have : k + 1 < msgs.length := by rw [hmok.1, ← hp.nOuts]; exact hlast
              simp [this]
            have e_dpc : s'.dpc = .send (k + 1) msgs := by
              rw [e_dpc0]; simp only [DSys.afterSendAt, hlast, if_true, DSys.sendAt, hk1]
            simp only [dpcOk, e_dpc, e_outs, List.length_set]; exact ⟨hlast, hk1⟩
          · have e_dpc : s'.dpc = s.loopStart := by rw [e_dpc0]; simp only [DSys.afterSendAt, hlast, if_false]
            -- loopStart only looks at `lazy` and the `free` flags, which the update keeps
            have hls : s.loopStart = ({ s with outs := s'.outs } : DSys).loopStart := by
              simp only [DSys.loopStart, DSys.gateFrom, List.drop_zero]
              have : ∀ (l1 l2 : List Out) (q : Nat), l1.map (·.free) = l2.map (·.free) → nextGated l1 q = nextGated l2 q := by
                intro l1
                induction l1 with
                | nil => intro l2 q hq; cases l2 with
                  | nil => rfl
                  | cons b r => simp at hq
                | cons a r ih => intro l2 q hq; cases l2 with
                  | nil => simp at hq
                  | cons b r2 =>
                    simp only [List.map_cons, List.cons.injEq] at hq
                    simp only [nextGated, hq.1, ih r2 (q + 1) hq.2]
              have hfe : s.outs.map (·.free) = s'.outs.map (·.free) := by
                rw [e_outs]
                exact (map_set_same (fun x => x.free) s.outs k o { o with mb := mb, sent := o.sent ++ [(o.mb.nSent, m)] } hk rfl).symm
              rw [this s.outs s'.outs 0 hfe]
            rw [hls] at e_dpc
            exact loopStart_ok ({ s with outs := s'.outs } : DSys) s' rfl e_dpc
        · cases hout
      · rename_i mb hst
        simp only [MB.sendStep, resolveNum] at hst
        rcases sendCore_alive (hop.open_ hstop) hop.fkilled hop.killed hnot hst with ⟨hout, _, _⟩ | ⟨hout, _, _⟩ <;> cases hout
      · rename_i n mb hst
        simp only [Option.some.injEq] at hs
        simp only [MB.sendStep, resolveNum] at hst
        rcases sendCore_alive (hop.open_ hstop) hop.fkilled hop.killed hnot hst with ⟨hout, _, _⟩ | ⟨hout, hmb, _⟩
        · cases hout
        · refine h.update hk (o' := { o with mb := mb }) (by rw [← hs]) (by rw [← hs]) (by rw [← hs]) (by rw [← hs]) ?_
            (ho.setMB mb (by rw [hmb]) (by rw [hmb]) (by rw [hmb]; rfl))
          exact dpcOk_set (o' := { o with mb := mb }) hpcok hk (by rw [← hs]) (by rw [← hs]) rfl
      · rename_i e mb hst
        simp only [MB.sendStep, resolveNum] at hst
        rcases sendCore_alive (hop.open_ hstop) hop.fkilled hop.killed hnot hst with ⟨hout, _, _⟩ | ⟨hout, _, _⟩ <;> cases hout
    · simp at hs
  · -- close k
    rename_i k hpc
    split at hs
    · simp at hs
    · rename_i o hk
      have ho := h.out k o hk
      have hop := hp.out k o hk
      have hoi := hinv.out k o hk
      have hklt : k < s.outs.length := (List.getElem?_eq_some_iff.mp hk).1
      have hstop : stopSent s k = false := by rw [(ES_close (c := c) hpc k).2]; simp
      have hnot : ¬ o.mb.nSent < minNext o.mb.subs := le_minNext_of_not_sent hoi.mb (nSent_unsent hop hstop)
      split at hs
      · simp at hs
      · rename_i n mb hst
        simp only [Option.some.injEq] at hs
        simp only [MB.sendStep, resolveNum] at hst
        rcases sendCore_alive (hop.open_ hstop) hop.fkilled hop.killed hnot hst with ⟨hout, hmb, _⟩ | ⟨hout, _, _⟩
        · cases hout
          have hol := ho.push o.mb.nSent .stop hnot true
          have e_o : ({ o with mb := { mb with closed := true }, sent := o.sent ++ [(o.mb.nSent, Msg.stop)] } : Out) =
              { o with mb := { o.mb.push o.mb.nSent .stop with closed := true }, sent := o.sent ++ [(o.mb.nSent, Msg.stop)] } := by
            rw [hmb]
          refine h.update hk (o' := { o with mb := { mb with closed := true }, sent := o.sent ++ [(o.mb.nSent, Msg.stop)] })
            (by rw [← hs]) (by rw [← hs]) (by rw [← hs]) (by rw [← hs]) ?_ (by rw [e_o]; exact hol)
          have e_dpc0 : s'.dpc = s.afterClose k := by rw [← hs]
          have e_len : s'.outs.length = s.outs.length := by rw [← hs]; simp
          by_cases hlast : k + 1 < s.outs.length
          · have e_dpc : s'.dpc = .close (k + 1) := by rw [e_dpc0]; simp [DSys.afterClose, hlast]
            simp only [dpcOk, e_dpc, e_len]; exact hlast
          · have e_dpc : s'.dpc = .done := by rw [e_dpc0]; simp [DSys.afterClose, hlast]
            simp only [dpcOk, e_dpc]
        · cases hout
      · rename_i mb hst
        simp only [MB.sendStep, resolveNum] at hst
        rcases sendCore_alive (hop.open_ hstop) hop.fkilled hop.killed hnot hst with ⟨hout, _, _⟩ | ⟨hout, _, _⟩ <;> cases hout
      · rename_i n mb hst
        simp only [Option.some.injEq] at hs
        simp only [MB.sendStep, resolveNum] at hst
        rcases sendCore_alive (hop.open_ hstop) hop.fkilled hop.killed hnot hst with ⟨hout, _, _⟩ | ⟨hout, hmb, _⟩
        · cases hout
        · refine h.update hk (o' := { o with mb := mb }) (by rw [← hs]) (by rw [← hs]) (by rw [← hs]) (by rw [← hs]) ?_
            (ho.setMB mb (by rw [hmb]) (by rw [hmb]) (by rw [hmb]; rfl))
          exact dpcOk_set (o' := { o with mb := mb }) hpcok hk (by rw [← hs]) (by rw [← hs]) rfl
      · rename_i e mb hst
        simp only [MB.sendStep, resolveNum] at hst
        rcases sendCore_alive (hop.open_ hstop) hop.fkilled hop.killed hnot hst with ⟨hout, _, _⟩ | ⟨hout, _, _⟩ <;> cases hout
  · rename_i k e hpc; simp only [dpos, hpc] at hpos
  · simp at hs
  · simp at hs


theorem DLiveInv.step {c : DConfig} {s s' : DSys} {t : DThread} (hv : c.valid = true) (hinv : DInv s) (hp : DProgInv c s)
    (h : DLiveInv c s) (hs : dstep s t = some s') : DLiveInv c s' := by
  cases t with
  | divider => exact h.stepDivider hv hinv hp hs
  | reader k i =>
    simp only [dstep, stepDReader] at hs
    split at hs
    · simp at hs
    · rename_i o hk
      have ho := h.out k o hk
      obtain ⟨co, hc1, hc2, hc3⟩ := ho.stat
      have hset : ∀ (r' : Reader), (∀ p, r'.pc = .futW p → ∃ id v rest, p = .fut id v :: rest) →
          ∀ r ∈ o.readers.set i r', ∀ p, r.pc = .futW p → ∃ id v rest, p = .fut id v :: rest := by
        intro r' hr' r hr
        rcases List.mem_or_eq_of_mem_set hr with hm | rfl
        · exact ho.futHead r hm
        · exact hr'
      have hheap : ∀ (out : ReadOut) (mb : MB), o.mb.readStep i = some (out, mb) →
          (∀ e ∈ mb.heap, e ∈ o.sent) ∧ (∀ e ∈ mb.heap, minNext mb.subs ≤ e.1) ∧ mb.static = o.mb.static := by
        intro out mb hst
        refine ⟨?_, ?_, (readStep_shape hst).2.1⟩
        · rcases readStep_heap hst with ⟨h1, _⟩ | h1
          · rw [h1]; exact ho.heapSub
          · rw [h1]; intro e he; exact ho.heapSub e (List.mem_filter.mp he).1
        · rcases readStep_heap hst with ⟨h1, h2⟩ | h1
          · rw [h1, h2]; exact ho.heapGe
          · rw [h1]; intro e he; simpa using (List.mem_filter.mp he).2
      have fin : ∀ (o' : Out), s' = { s with outs := s.outs.set k o' } → o'.free = o.free → OutLive c k o' → DLiveInv c s' := by
        intro o' hs' hf hol
        subst hs'
        exact h.update hk rfl rfl rfl rfl (dpcOk_set h.pcOk hk rfl rfl hf) hol
      split at hs
      · simp at hs
      · rename_i r hr
        split at hs
        · split at hs
          · simp at hs
          · rename_i mb hst
            simp only [Option.some.injEq] at hs
            obtain ⟨a1, a2, a3⟩ := hheap _ _ hst
            exact fin _ hs.symm rfl ⟨a1, a2, ho.futHead, co, hc1, by rw [a3]; exact hc2, hc3⟩
          · rename_i mb hst
            simp only [Option.some.injEq] at hs
            obtain ⟨a1, a2, a3⟩ := hheap _ _ hst
            exact fin _ hs.symm rfl ⟨a1, a2, hset _ (by intro p hp'; simp at hp'), co, hc1, by rw [a3]; exact hc2, hc3⟩
          · rename_i msgs mb hst
            simp only [Option.some.injEq] at hs
            obtain ⟨a1, a2, a3⟩ := hheap _ _ hst
            exact fin _ hs.symm rfl ⟨a1, a2, hset _ (deliver_futHead _ _ _), co, hc1, by rw [a3]; exact hc2, hc3⟩
        · split at hs
          · split at hs
            · simp only [Option.some.injEq] at hs
              exact fin _ hs.symm rfl ⟨ho.heapSub, ho.heapGe, hset _ (deliver_futHead _ _ _), co, hc1, hc2, hc3⟩
            · simp at hs
          · simp at hs
        · simp at hs
        · simp at hs
  | worker j =>
    simp only [dstep, stepDWorker] at hs
    split at hs
    · rename_i id rest hw
      simp only [Option.some.injEq] at hs; subst hs
      refine ⟨h.out, ?_, h.pcOk, h.lazyEq⟩
      intro fid hfid
      rcases h.futs fid hfid with hd | ⟨w, hw', hm⟩
      · left; simp [hd]
      · by_cases hfe : fid = id
        · left; simp [hfe]
        · right
          obtain ⟨q, hq1, hq2⟩ := List.getElem_of_mem hw'
          by_cases hqj : q = j
          · subst hqj
            have : s.workers[q]? = some w := by rw [List.getElem?_eq_getElem hq1, hq2]
            rw [hw] at this; cases this
            refine ⟨rest, ?_, ?_⟩
            · exact List.mem_iff_getElem?.mpr ⟨q, by simp [hq1]⟩
            · simpa [hfe] using hm
          · refine ⟨w, ?_, hm⟩
            exact List.mem_iff_getElem?.mpr ⟨q, by rw [List.getElem?_set]; simp [Ne.symm hqj, hq1, hq2]⟩
    · simp at hs
  | killer q =>
    simp only [dstep, stepDKiller, hp.noKill] at hs
    simp at hs

theorem DLiveInv.reachable {c : DConfig} {s : DSys} (hv : c.valid = true) (hl : c.live = true) (h : DReachable c s) :
    DLiveInv c s := by
  induction h with
  | init => exact DLiveInv.init hl
  | step hr hs ih => exact ih.step hv (DInv.reachable hr) (DProgInv.reachable hv hr) hs


/-! ### deadlock freedom of the divider network -/

/-- if every subscriber of a mailbox fed in number order is blocked, nothing is buffered -/
theorem blocked_heap_empty {mb : MB} {sent : List (Nat × Msg)} (hmb : MBInv mb sent)
    (hsub : ∀ e ∈ mb.heap, e ∈ sent) (hge : ∀ e ∈ mb.heap, minNext mb.subs ≤ e.1)
    (hlt : ∀ e ∈ sent, e.1 < sent.length) (hfound : ∀ j, j < sent.length → (getMsg sent j).isSome)
    (hne : mb.subs ≠ []) (hblk : ∀ (i : Nat) (sub : Sub), mb.subs[i]? = some sub → sub.flag = some false) :
    mb.heap = [] := by
  cases hh : mb.heap with
  | nil => rfl
  | cons e t =>
    exfalso
    have he : e ∈ mb.heap := by rw [hh]; simp
    have h1 := hge e he
    have h2 := hlt e (hsub e he)
    obtain ⟨sub, hm, hmn⟩ := minNext_mem hne
    obtain ⟨i, hi1, hi2⟩ := List.getElem_of_mem hm
    have hi : mb.subs[i]? = some sub := by rw [List.getElem?_eq_getElem hi1, hi2]
    have hw := (hmb.wakeR i sub hi (hblk i sub hi)).1
    have hsome : (getMsg sent sub.next).isSome := hfound _ (by omega)
    rw [← hmb.heapEq sub.next (by omega), ← hasNum_iff_getMsg, hw] at hsome
    cases hsome

theorem numberFrom_facts (L : List Msg) :
    (∀ e ∈ numberFrom 0 L, e.1 < (numberFrom 0 L).length) ∧
    (∀ j, j < (numberFrom 0 L).length → (getMsg (numberFrom 0 L) j).isSome) := by
  constructor
  · intro e he
    have : e.1 ∈ (numberFrom 0 L).map (·.1) := List.mem_map_of_mem he
    rw [numberFrom_fst] at this
    rw [numberFrom_length]; simpa using this
  · intro j hj
    apply mem_getMsg_isSome
    rw [numberFrom_fst]; rw [numberFrom_length] at hj; simpa using hj

theorem compOf_mem {k : Nat} {P : List DItem} {m : Msg} (h : m ∈ compOf k P) : ∃ msgs, DItem.item msgs ∈ P ∧ m ∈ msgs := by
  induction P with
  | nil => simp [compOf] at h
  | cons a r ih =>
    cases a with
    | raise =>
      simp only [compOf] at h
      obtain ⟨msgs, h1, h2⟩ := ih h
      exact ⟨msgs, List.mem_cons_of_mem _ h1, h2⟩
    | item ms =>
      simp only [compOf, List.mem_append] at h
      rcases h with h | h
      · cases hg : ms[k]? with
        | none => simp [hg] at h
        | some x =>
          simp [hg] at h; subst h
          exact ⟨ms, by simp, List.mem_of_getElem? hg⟩
      · obtain ⟨msgs, h1, h2⟩ := ih h
        exact ⟨msgs, List.mem_cons_of_mem _ h1, h2⟩

theorem msgFutIds_mem {msgs : List Msg} {id v : Nat} (h : Msg.fut id v ∈ msgs) : id ∈ msgFutIds msgs := by
  induction msgs with
  | nil => cases h
  | cons a r ih =>
    simp only [List.mem_cons] at h
    rcases h with h | h
    · subst h; simp [msgFutIds]
    · cases a <;> simp only [msgFutIds] <;> first | exact ih h | exact List.mem_cons_of_mem _ (ih h)

theorem dfutIds_mem {P : List DItem} {msgs : List Msg} {id : Nat} (h1 : DItem.item msgs ∈ P) (h2 : id ∈ msgFutIds msgs) :
    id ∈ dfutIds P := by
  induction P with
  | nil => cases h1
  | cons a r ih =>
    simp only [List.mem_cons] at h1
    rcases h1 with h1 | h1
    · subst h1; simp [dfutIds, h2]
    · cases a <;> simp only [dfutIds] <;> first | exact ih h1 | exact List.mem_append_right _ (ih h1)

/-- every message in an output's log is a component of a dict of the program, or the end marker -/
theorem dsent_msgs {c : DConfig} {s : DSys} {k : Nat} {o : Out} (ho : OutProg c s k o) :
    ∀ e ∈ o.sent, e.2 = .stop ∨ ∃ msgs, DItem.item msgs ∈ c.prog ∧ e.2 ∈ msgs := by
  intro e he
  rw [ho.sentEq] at he
  simp only [expectedSent, List.mem_append] at he
  rcases he with he | he
  · right
    have := numberFrom_snd 0 _ e he
    obtain ⟨msgs, h1, h2⟩ := compOf_mem this
    exact ⟨msgs, List.mem_of_mem_take h1, h2⟩
  · left
    split at he
    · simp at he; rw [he]
    · cases he

theorem ddivider_stuck {s : DSys} (h : stepDivider s = none) (hok : dpcOk s) :
    match s.dpc with
    | .gate k => ∃ o, s.outs[k]? = some o ∧ o.mb.fetchFlag = some false
    | .fetch => False
    | .send k _ => ∃ o, s.outs[k]? = some o ∧ o.mb.writeFlag = some false
    | .close k => ∃ o, s.outs[k]? = some o ∧ o.mb.writeFlag = some false
    | .exc _ _ => False
    | .done => True
    | .dead _ => True := by
  have hsend : ∀ (mb : MB) num m, mb.writeFlag ≠ some false → ∃ out mb', mb.sendStep num m = some (out, mb') := by
    intro mb num m hw
    have := sendStep_isSome (mb := mb) num m hw
    cases hc : mb.sendStep num m with
    | none => rw [hc] at this; cases this
    | some p => exact ⟨p.1, p.2, rfl⟩
  cases hspc : s.dpc with
  | gate k =>
    simp only [dpcOk, hspc] at hok
    obtain ⟨o, hk, _⟩ := hok
    simp only [Mailbox.stepDivider, hspc, hk] at h ⊢
    refine ⟨o, rfl, ?_⟩
    cases hf : o.mb.fetchFlag with
    | some b =>
      cases b with
      | false => rfl
      | true =>
        simp only [MB.gateStep, hf] at h
        split at h
        · rename_i heq; split at heq <;> cases heq
        · simp at h
    | none =>
      simp only [MB.gateStep, hf] at h
      split at h
      · rename_i heq; split at heq <;> cases heq
      · simp at h
  | fetch =>
    simp only [Mailbox.stepDivider, hspc] at h
    split at h <;> simp at h
  | send k msgs =>
    simp only [dpcOk, hspc] at hok
    obtain ⟨hk, hm⟩ := hok
    have hko : s.outs[k]? = some s.outs[k] := List.getElem?_eq_getElem hk
    cases hmm : msgs[k]? with
    | none => simp [hmm] at hm
    | some m =>
      simp only [Mailbox.stepDivider, hspc, hko, hmm] at h ⊢
      refine ⟨_, rfl, ?_⟩
      cases hf : (s.outs[k]).mb.writeFlag with
      | some b =>
        cases b with
        | false => rfl
        | true =>
          obtain ⟨out, mb', hc⟩ := hsend (s.outs[k]).mb none m (by rw [hf]; simp)
          rw [hc] at h; cases out <;> simp at h
      | none =>
        obtain ⟨out, mb', hc⟩ := hsend (s.outs[k]).mb none m (by rw [hf]; simp)
        rw [hc] at h; cases out <;> simp at h
  | close k =>
    simp only [dpcOk, hspc] at hok
    have hko : s.outs[k]? = some s.outs[k] := List.getElem?_eq_getElem hok
    simp only [Mailbox.stepDivider, hspc, hko] at h ⊢
    refine ⟨_, rfl, ?_⟩
    cases hf : (s.outs[k]).mb.writeFlag with
    | some b =>
      cases b with
      | false => rfl
      | true =>
        obtain ⟨out, mb', hc⟩ := hsend (s.outs[k]).mb none .stop (by rw [hf]; simp)
        rw [hc] at h; cases out <;> simp at h
    | none =>
      obtain ⟨out, mb', hc⟩ := hsend (s.outs[k]).mb none .stop (by rw [hf]; simp)
      rw [hc] at h; cases out <;> simp at h
  | exc k e =>
    simp only [dpcOk, hspc] at hok
    have hko : s.outs[k]? = some s.outs[k] := List.getElem?_eq_getElem hok
    simp only [Mailbox.stepDivider, hspc, hko] at h
    simp at h
  | done => trivial
  | dead e => trivial

theorem dreader_stuck {s : DSys} {k i : Nat} {o : Out} {r : Reader} {sub : Sub} (h : stepDReader s k i = none)
    (hk : s.outs[k]? = some o) (hr : o.readers[i]? = some r) (hs : o.mb.subs[i]? = some sub) :
    (r.pc = .read → sub.flag = some false) ∧
    (∀ id v rest, r.pc = .futW (.fut id v :: rest) → s.futDone.contains id = false) := by
  constructor
  · intro hpc
    cases hf : sub.flag with
    | some b =>
      cases b with
      | false => rfl
      | true =>
        have := readStep_isSome hs (by rw [hf]; simp)
        simp only [stepDReader, hk, hr, hpc] at h
        cases hrs : o.mb.readStep i with
        | none => rw [hrs] at this; cases this
        | some p => obtain ⟨out, mb⟩ := p; rw [hrs] at h; cases out <;> simp at h
    | none =>
      have := readStep_isSome hs (by rw [hf]; simp)
      simp only [stepDReader, hk, hr, hpc] at h
      cases hrs : o.mb.readStep i with
      | none => rw [hrs] at this; cases this
      | some p => obtain ⟨out, mb⟩ := p; rw [hrs] at h; cases out <;> simp at h
  · intro id v rest hpc
    simp only [stepDReader, hk, hr, hpc] at h
    cases hc : s.futDone.contains id with
    | false => rfl
    | true => simp only [hc, if_true] at h; cases h


theorem dworker_stuck {s : DSys} {j : Nat} {w : List Nat} (h : dstep s (.worker j) = none) (hw : s.workers[j]? = some w) :
    w = [] := by
  cases w with
  | nil => rfl
  | cons id rest => simp [dstep, stepDWorker, hw] at h

theorem divide_deadlock_free_core {c : DConfig} {s : DSys} (hv : c.valid = true) (hl : c.live = true)
    (h : DReachable c s) (hstuck : ∀ t, dstep s t = none) : s.final = true := by
  have hinv := DInv.reachable h
  have hp := DProgInv.reachable hv h
  have hli := DLiveInv.reachable hv hl h
  obtain ⟨hok, _, _⟩ := dvalid_parts hv
  have hl' := hl
  simp only [DConfig.live, Bool.and_eq_true, bne_iff_ne, ne_eq, List.all_eq_true, Bool.not_eq_true', Bool.or_eq_true,
    List.isEmpty_eq_false_iff] at hl'
  obtain ⟨⟨⟨hcap, hsubs⟩, _⟩, hdrv⟩ := hl'
  -- workers have nothing left
  have hwork : ∀ w ∈ s.workers, w = [] := by
    intro w hw
    obtain ⟨j, hj1, hj2⟩ := List.getElem_of_mem hw
    exact dworker_stuck (hstuck (.worker j)) (by rw [List.getElem?_eq_getElem hj1, hj2])
  -- per output: static facts
  have hstat : ∀ (k : Nat) (o : Out), s.outs[k]? = some o →
      o.mb.cap = c.cap ∧ o.mb.subs ≠ [] ∧ (s.lazy = true → o.free = false → ∃ sub ∈ o.mb.subs, sub.canDrive = true) := by
    intro k o hk
    obtain ⟨co, h1, h2, h3⟩ := (hli.out k o hk).stat
    have e1 : o.mb.cap = c.cap := congrArg (fun x => x.1) h2
    have e4 : o.mb.subs.map (fun x => x.canDrive) = co.1 := congrArg (fun x => x.2.2.2) h2
    have hcm : co ∈ c.outs := List.mem_of_getElem? h1
    refine ⟨e1, ?_, ?_⟩
    · intro hnil; rw [hnil] at e4; exact hsubs co hcm e4.symm
    · intro hlz hfr
      rcases hdrv with hx | hx
      · rw [← hli.lazyEq, hlz] at hx; cases hx
      · rcases hx co hcm with hy | hy
        · rw [h3, hy] at hfr; cases hfr
        · rw [← e4] at hy
          simp only [List.contains_iff_mem, List.mem_map] at hy
          obtain ⟨sub, hm, hcd⟩ := hy
          exact ⟨sub, hm, hcd⟩
  -- readers: blocked in `_read` or finished
  have hreader : ∀ (k : Nat) (o : Out), s.outs[k]? = some o → ∀ (i : Nat) (r : Reader) (sub : Sub),
      o.readers[i]? = some r → o.mb.subs[i]? = some sub →
      (r.pc = .read ∧ sub.flag = some false) ∨ (∃ rest, r.pc = .done rest) := by
    intro k o hk i r sub hr hs
    obtain ⟨h1, h2⟩ := dreader_stuck (hstuck (.reader k i)) hk hr hs
    have hrm : r ∈ o.readers := List.mem_of_getElem? hr
    have hop := hp.out k o hk
    have hoi := hinv.out k o hk
    cases hpc : r.pc with
    | read => exact Or.inl ⟨rfl, h1 hpc⟩
    | done rest => exact Or.inr ⟨rest, rfl⟩
    | dead e => exact absurd hpc (hop.noDead r hrm e)
    | futW p =>
      exfalso
      obtain ⟨id, v, rest, rfl⟩ := (hli.out k o hk).futHead r hrm p hpc
      have hnd := h2 id v rest hpc
      obtain ⟨_, hd⟩ := hoi.rd.deliv i sub r hs hr
      rw [hpc] at hd
      simp only [tailOf] at hd
      have hmem : Msg.fut id v ∈ inOrder o.sent sub.next := by rw [← hd]; simp
      obtain ⟨j, hj⟩ := mem_inOrder hmem
      rcases dsent_msgs hop _ hj with hst | ⟨msgs, hm1, hm2⟩
      · cases hst
      · rcases hli.futs id (dfutIds_mem hm1 (msgFutIds_mem hm2)) with hdn | ⟨w, hw, hin⟩
        · have : s.futDone.contains id = true := by simpa using hdn
          rw [this] at hnd; cases hnd
        · rw [hwork w hw] at hin; cases hin
  -- an output that has not been closed yet: all its subscribers are blocked, so it buffers nothing
  have hempty : ∀ (k : Nat) (o : Out), s.outs[k]? = some o → stopSent s k = false → 
      (∀ (i : Nat) (sub : Sub), o.mb.subs[i]? = some sub → sub.flag = some false) ∧ o.mb.heap = [] := by
    intro k o hk hst
    have hop := hp.out k o hk
    have hoi := hinv.out k o hk
    have hol := hli.out k o hk
    have hsent : o.sent = numberFrom 0 (compOf k (c.prog.take (sentCount c s k))) := by
      rw [hop.sentEq]; simp [expectedSent, hst]
    have hblk : ∀ (i : Nat) (sub : Sub), o.mb.subs[i]? = some sub → sub.flag = some false := by
      intro i sub hs
      have hilt : i < o.readers.length := by rw [hoi.rd.len]; exact (List.getElem?_eq_some_iff.mp hs).1
      rcases hreader k o hk i _ sub (List.getElem?_eq_getElem hilt) hs with ⟨_, hb⟩ | ⟨rest, hpc⟩
      · exact hb
      · exfalso
        obtain ⟨_, hd⟩ := hoi.rd.deliv i sub _ hs (List.getElem?_eq_getElem hilt)
        rw [hpc] at hd
        simp only [tailOf] at hd
        have hmem : Msg.stop ∈ inOrder o.sent sub.next := by rw [← hd]; simp
        obtain ⟨j, hj⟩ := mem_inOrder hmem
        rw [hsent] at hj
        have := numberFrom_snd 0 _ _ hj
        exact compOf_no_stop k _ _ (by
          apply List.all_eq_true.mpr
          intro x hx
          exact (List.all_eq_true.mp hok) x (List.mem_of_mem_take hx)) this
    obtain ⟨f1, f2⟩ := numberFrom_facts (compOf k (c.prog.take (sentCount c s k)))
    refine ⟨hblk, blocked_heap_empty hoi.mb hol.heapSub hol.heapGe (by rw [hsent]; exact f1) (by rw [hsent]; exact f2)
      (hstat k o hk).2.1 hblk⟩
  have hwrite_contra : ∀ (k : Nat) (o : Out), s.outs[k]? = some o → stopSent s k = false → o.mb.writeFlag = some false → False := by
    intro k o hk hst hwf
    have hop := hp.out k o hk
    obtain ⟨_, hheap⟩ := hempty k o hk hst
    have hcw := (hinv.out k o hk).mb.wakeW hwf
    simp only [MB.canWrite, hheap, hop.killed, Bool.or_false, List.length_nil] at hcw
    cases hc : o.mb.cap with
    | none => simp [hc] at hcw
    | some cp =>
      simp only [hc, decide_eq_false_iff_not, Nat.not_lt, Nat.le_zero_eq] at hcw
      subst hcw; rw [(hstat k o hk).1] at hc; exact hcap hc
  have hdiv := ddivider_stuck (hstuck .divider) hli.pcOk
  simp only [DSys.final, Bool.and_eq_true, List.all_eq_true]
  cases hspc : s.dpc with
  | fetch => rw [hspc] at hdiv; exact absurd hdiv id
  | exc k e => rw [hspc] at hdiv; exact absurd hdiv id
  | dead e => have := hp.pos; simp [dpos, hspc] at this
  | send k msgs =>
    exfalso
    rw [hspc] at hdiv
    obtain ⟨o, hk, hwf⟩ := hdiv
    exact hwrite_contra k o hk (ES_send (c := c) hspc k).2 hwf
  | close k =>
    exfalso
    rw [hspc] at hdiv
    obtain ⟨o, hk, hwf⟩ := hdiv
    exact hwrite_contra k o hk (by rw [(ES_close (c := c) hspc k).2]; simp) hwf
  | gate k =>
    exfalso
    rw [hspc] at hdiv
    obtain ⟨o, hk, hff⟩ := hdiv
    have hst : stopSent s k = false := (ES_loop (c := c) (by rw [hspc]; rfl) k).2
    obtain ⟨hblk, hheap⟩ := hempty k o hk hst
    have hop := hp.out k o hk
    have hoi := hinv.out k o hk
    have hcf := hoi.mb.wakeF hff
    have hfree : o.free = false := by
      have := hli.pcOk
      simp only [dpcOk, hspc] at this
      obtain ⟨o2, h1, h2⟩ := this
      rw [hk] at h1; cases h1; exact h2
    obtain ⟨sub, hm, hcd⟩ := (hstat k o hk).2.2 (hinv.gateLazy k hspc) hfree
    have hdw : o.mb.driverWaits = true := by
      obtain ⟨i, hi1, hi2⟩ := List.getElem_of_mem hm
      have hi : o.mb.subs[i]? = some sub := by rw [List.getElem?_eq_getElem hi1, hi2]
      have hw := hoi.mb.waitFor i sub hi
      rw [hblk i sub hi] at hw
      simp only [MB.driverWaits, List.any_eq_true, Bool.and_eq_true]
      exact ⟨sub, hm, hcd, by rw [hw]; simp⟩
    have hsw : o.mb.staleWaiter = false := by
      simp only [MB.staleWaiter, hheap, List.any_eq_false]
      intro sub _
      cases sub.waitingFor with
      | none => simp [staleTest]
      | some x => cases o.mb.gateRule <;> simp [staleTest, hasNum]
    simp [MB.canFetch, hop.killed, hsw, hdw] at hcf
  | done =>
    refine ⟨⟨⟨by simp [DPc.finished], ?_⟩, ?_⟩, ?_⟩
    · intro o hom r hrm
      obtain ⟨k, hk1, hk2⟩ := List.getElem_of_mem hom
      have hk : s.outs[k]? = some o := by rw [List.getElem?_eq_getElem hk1, hk2]
      obtain ⟨i, hi1, hi2⟩ := List.getElem_of_mem hrm
      have hr : o.readers[i]? = some r := by rw [List.getElem?_eq_getElem hi1, hi2]
      have hop := hp.out k o hk
      have hoi := hinv.out k o hk
      have hilt : i < o.mb.subs.length := by rw [← hoi.rd.len]; exact hi1
      have hs : o.mb.subs[i]? = some o.mb.subs[i] := List.getElem?_eq_getElem hilt
      rcases hreader k o hk i r _ hr hs with ⟨hpc, hb⟩ | ⟨rest, hpc⟩
      · -- blocked although everything up to the end marker has been pushed: impossible
        exfalso
        generalize hsubeq : o.mb.subs[i] = sub at hs hb
        have hsent : o.sent = numberFrom 0 (compOf k c.prog) ++ [((compOf k c.prog).length, Msg.stop)] := by
          rw [hop.sentEq, (ES_done (c := c) hspc k).1]
        have hw := (hoi.mb.wakeR i sub hs hb).1
        obtain ⟨hns, hd⟩ := hoi.rd.deliv i sub r hs hr
        rw [hpc] at hd
        simp only [tailOf, List.append_nil] at hd
        have hall : ∀ j, j ≤ (compOf k c.prog).length → (getMsg o.sent j).isSome := by
          intro j hj
          apply mem_getMsg_isSome
          rw [hsent]
          simp only [List.map_append, List.map_cons, List.map_nil, List.mem_append, List.mem_singleton, numberFrom_fst]
          by_cases hjk : j = (compOf k c.prog).length
          · exact Or.inr hjk
          · left; simp; omega
        by_cases hnx : sub.next ≤ (compOf k c.prog).length
        · have hsome := hall _ hnx
          have hge : minNext o.mb.subs ≤ sub.next := minNext_le_of_mem (List.mem_of_getElem? hs)
          rw [← hoi.mb.heapEq sub.next hge, ← hasNum_iff_getMsg, hw] at hsome
          cases hsome
        · have hKnot : (compOf k c.prog).length ∉ (numberFrom 0 (compOf k c.prog)).map (·.1) := by
            rw [numberFrom_fst]; simp
          have hstop : getMsg o.sent (compOf k c.prog).length = some .stop := by
            rw [hsent, getMsg_append_right hKnot]; simp [getMsg]
          have : Msg.stop ∈ inOrder o.sent sub.next := by
            have hmono : ∀ n, (compOf k c.prog).length < n → Msg.stop ∈ inOrder o.sent n := by
              intro n hn
              induction n with
              | zero => omega
              | succ q ih =>
                simp only [inOrder, List.mem_append]
                by_cases hq : q = (compOf k c.prog).length
                · right; rw [hq, hstop]; simp
                · left; exact ih (by omega)
            exact hmono _ (by omega)
          rw [← hd] at this
          exact hns this
      · simp [hpc, RPc.finished]
    · intro w hw; simp [hwork w hw]
    · intro q hq; rw [hp.noKill] at hq; cases hq

end Strax.Mailbox
