import StraxModel.Lemmas.SuperrunRows
/-
  Property C14, part 3: the first superrun level, explicitly.  What `Plugin.iter` of a superrun-capable plugin makes
  of the concat loader's stream, chunk by chunk; the subruns every output chunk records; `continuity_check` on the
  result.  Uses the `mkChunk` / `split` / `concatenate` normal forms of Lemmas/ChunkAlgChunk.lean (C07).
-/
namespace Strax.Superrun
open Strax

/-! ## 10. the constructor on well-formed arguments -/

/-- rows lie inside `[s, e)`, which is what the constructor checks (on the first row and the last 500) -/
def RowsIn (s e : Int) (rows : List Row) : Prop := ∀ x ∈ rows, s ≤ x.time ∧ x.endt ≤ e

theorem mkStage2_rows {dt k : String} {rid : Option String} {s e : Int} {rows : List Row} {tg : Nat}
    {sup sub : Option Runs} (h0 : 0 ≤ s) (h1 : s ≤ e) (hin : RowsIn s e rows) :
    mkStage2 dt k rid s e rows tg sup sub = mkStage3 dt k rid s e rows tg sup sub := by
  simp only [mkStage2]
  have hs0 : ¬ s < 0 := by omega
  have hse : ¬ s > e := by omega
  simp only [hs0, hse, if_false]
  cases rows with
  | nil => rfl
  | cons r0 tl =>
    have hr0 := hin r0 (by simp)
    have : ¬ r0.time < s := by omega
    simp only [this, if_false]
    have hle := lastEndMax_le (B := e) (fun x hx => (hin x hx).2)
    split
    · rename_i m hm
      have := hle m hm
      have : ¬ m > e := by omega
      simp only [this, if_false]
    · rfl

/-- success of the constructor with an explicit `superrun` and optional `subruns`, both already in dict order -/
theorem mkChunk_ok_gen {dt k : String} {rid : Option String} {s e : Int} {rows : List Row} {tg : Nat}
    {sub : Option Runs} {x : Runs} (h0 : 0 ≤ s) (h1 : s ≤ e) (hin : RowsIn s e rows)
    (hsub : ∀ y, sub = some y → sortRuns y = y ∧ runsOverlap y = false)
    (hx1 : x ≠ []) (hx2 : x.length = 1 → rid.isSome = true) (hx3 : sortRuns x = x) (hx4 : runsOverlap x = false) :
    mkChunk dt k rid s e rows sub (some x) tg = .ok ⟨dt, k, rid, s, e, rows, sub, x, tg⟩ := by
  rw [mkChunk_eq]
  have h4 : ∀ sub', mkStage3 dt k rid s e rows tg (some x) sub' = .ok ⟨dt, k, rid, s, e, rows, sub', x, tg⟩ := by
    intro sub'
    simp only [mkStage3, mkStage4, hx3, hx4]
    have e1 : x.isEmpty = false := by cases x <;> simp_all
    have e2 : (x.length == 1 && rid.isNone) = false := by
      cases hl : (x.length == 1) <;> simp_all
    simp [e1, e2]
  cases sub with
  | none => simp only; rw [mkStage2_rows h0 h1 hin, h4]
  | some y =>
    obtain ⟨hy1, hy2⟩ := hsub y rfl
    simp only [hy1, hy2, Bool.false_eq_true, if_false]
    rw [mkStage2_rows h0 h1 hin, h4]

/-- … and with the default `superrun` of a chunk that names its run -/
theorem mkChunk_ok_own {dt k rid : String} {s e : Int} {rows : List Row} {tg : Nat}
    {sub : Option Runs} (h0 : 0 ≤ s) (h1 : s ≤ e) (hin : RowsIn s e rows)
    (hsub : ∀ y, sub = some y → sortRuns y = y ∧ runsOverlap y = false) :
    mkChunk dt k (some rid) s e rows sub none tg = .ok ⟨dt, k, some rid, s, e, rows, sub, [⟨rid, s, e⟩], tg⟩ := by
  have := mkChunk_ok_gen (dt := dt) (k := k) (rid := some rid) (tg := tg) (x := [⟨rid, s, e⟩]) h0 h1 hin hsub
    (by simp) (by simp) (sortRuns_singleton _) (by simp [runsOverlap])
  rw [← this, mkChunk_eq, mkChunk_eq]
  cases sub <;> simp [mkStage2, mkStage3]

theorem sortRuns_pair {a b : Run} (h : runLe a b = true) : sortRuns [a, b] = [a, b] :=
  List.mergeSort_of_pairwise (by simp [h])

/-! ## 11. one turn of `Plugin.iter` on a loader chunk -/

/-- a chunk as the loader of ordinary run `rid` yields it (positive duration) -/
structure LoaderChunk (dt rid : String) (c : Chunk) : Prop where
  hdt : c.dataType = dt
  hrun : c.runId = some rid
  hsub : c.subruns = none
  hsup : c.superrun = [⟨rid, c.start, c.stop⟩]
  h0 : 0 ≤ c.start
  hpos : c.start < c.stop
  hin : RowsIn c.start c.stop c.rows

/-- the empty remainder `[p, p)` of run `rid` left in the input buffer -/
structure RemChunk (dt rid : String) (p : Int) (k : Chunk) : Prop where
  hdt : k.dataType = dt
  hrun : k.runId = some rid
  hsub : k.subruns = none
  hsup : k.superrun = [⟨rid, p, p⟩]
  hs : k.start = p
  he : k.stop = p
  hrows : k.rows = []
  h0 : 0 ≤ p

/-- what the superrun level makes of loader chunk `c` of run `rid` when its output starts at `p` -/
def outChunk (lv : Level) (sup rid : String) (p : Int) (c : Chunk) : Chunk :=
  ⟨lv.dataType, KIND, some sup, p, c.stop, c.rows, some [⟨rid, c.start, c.stop⟩], [⟨sup, p, c.stop⟩], lv.target⟩

def remOf (c : Chunk) (rid : String) (tg : Nat) : Chunk :=
  ⟨c.dataType, c.kind, some rid, c.stop, c.stop, [], none, [⟨rid, c.stop, c.stop⟩], tg⟩

theorem remOf_rem {dt rid : String} {c : Chunk} {tg : Nat} (hdt : c.dataType = dt) (h0 : 0 ≤ c.stop) :
    RemChunk dt rid c.stop (remOf c rid tg) := ⟨hdt, rfl, rfl, rfl, rfl, rfl, rfl, h0⟩

/-- `compute` on an input that was built from one ordinary run `rid`: the run becomes the result's `subruns` -/
theorem compute_of_run {lv : Level} {sup rid : String} {inp : Chunk} {s e : Int}
    (hsupid : isSuperId sup = true) (hne : rid ≠ sup) (hsup : inp.superrun = [⟨rid, s, e⟩])
    (h0 : 0 ≤ inp.start) (h1 : inp.start ≤ inp.stop) (hin : RowsIn inp.start inp.stop inp.rows) :
    compute lv sup inp = .ok ⟨lv.dataType, KIND, some sup, inp.start, inp.stop, inp.rows, some [⟨rid, s, e⟩],
      [⟨sup, inp.start, inp.stop⟩], lv.target⟩ := by
  unfold compute
  have hcond : (isSuperId sup && !(inp.superrun.any (·.id == sup))) = true := by simp [hsupid, hsup, hne]
  rw [if_pos hcond, hsup]
  exact mkChunk_ok_own h0 h1 hin (by
    intro y hy
    have := Option.some.inj hy
    subst this
    exact ⟨sortRuns_singleton _, by simp [runsOverlap]⟩)

/-- first chunk of the stream, or next chunk of the same run (the buffer's remainder sits exactly at its start) -/
theorem split_loader {dt rid : String} {c : Chunk} (hc : LoaderChunk dt rid c) :
    c.split c.stop true = .ok (c, remOf c rid c.target) := by
  have hv : splitData c c.stop true = .ok (c.rows, [], c.stop) := by
    have : max c.stop c.start = c.stop := by have := hc.hpos; omega
    simp [splitData, this, pure, Except.pure]
  have := split_simple_ok (c := c) (rid := rid) (t := c.stop) (early := true) (d1 := c.rows) (d2 := []) (t' := c.stop)
    hc.hsub hc.hsup hc.h0 (by have := hc.hpos; omega) (by omega) hc.hin (by simp) hv
  rw [this]
  have e1 : c = ⟨c.dataType, c.kind, some rid, c.start, c.stop, c.rows, none, [⟨rid, c.start, c.stop⟩], c.target⟩ := by
    have h1 := hc.hrun; have h2 := hc.hsub; have h3 := hc.hsup
    cases c; simp_all
  rw [← e1]; rfl

theorem iterStep_first {lv : Level} {sup dt rid : String} {c : Chunk}
    (hsupid : isSuperId sup = true) (hne : rid ≠ sup) (hc : LoaderChunk dt rid c) :
    iterStep lv sup none c = .ok (outChunk lv sup rid c.start c, remOf c rid c.target) := by
  rw [iterStep_eq]
  simp only [pure, Except.pure, bind, Except.bind, split_loader hc]
  rw [compute_of_run hsupid hne hc.hsup hc.h0 (by have := hc.hpos; omega) hc.hin]
  rfl

theorem concatSub_none {k c : Chunk} (h1 : k.subruns = none) (h2 : c.subruns = none) : concatSub [k, c] = .ok none := by
  simp [concatSub, mergeSubruns, collectRuns, h1, h2, mergableCheck_nil, bind, Except.bind, pure, Except.pure]

/-- the buffer's remainder and the next chunk of the SAME run, adjacent: the concatenation is that chunk again -/
theorem concat_same {dt rid : String} {k c : Chunk} {a : Bool} (hk : RemChunk dt rid c.start k) (hc : LoaderChunk dt rid c) :
    concatenate [k, c] a = .ok ⟨k.dataType, k.kind, some rid, c.start, c.stop, c.rows, none,
      [⟨rid, c.start, c.stop⟩], max k.target c.target⟩ := by
  rw [concatenate_eq]
  have h1 : allEq (List.map (fun x => x.dataType) [k, c]) = true := by simp [allEq, hk.hdt, hc.hdt]
  have h2 : allEq (List.map (fun x => x.runId) [k, c]) = true := by simp [allEq, hk.hrun, hc.hrun]
  have h3 : concatRun [k, c] k = .ok (some rid, none) := by
    simp only [concatRun]; rw [h2]; simp [hk.hrun, pure, Except.pure]
  have h4 := concatSub_none hk.hsub hc.hsub
  have h5 : outOfOrder 0 [k, c] = false := by
    have := hk.hs; have := hk.he; have := hk.h0
    simp [outOfOrder]; omega
  simp only [h1, h2, h3, h4, h5, bind, Except.bind]
  simp only [Bool.not_true, Bool.false_and, Bool.false_eq_true, if_false, hk.hs]
  have hrows : List.flatMap (fun x => x.rows) [k, c] = c.rows := by simp [hk.hrows]
  have htg : List.foldl max 0 (List.map (fun x => x.target) [k, c]) = max k.target c.target := by
    simp [List.foldl]
  have hlast : ([k, c].getLast?.getD k).stop = c.stop := by simp
  rw [hrows, htg, hlast]
  exact mkChunk_ok_own hc.h0 (by have := hc.hpos; omega) hc.hin (by intro y hy; cases hy)

theorem iterStep_same {lv : Level} {sup dt rid : String} {k c : Chunk}
    (hsupid : isSuperId sup = true) (hne : rid ≠ sup) (hk : RemChunk dt rid c.start k) (hc : LoaderChunk dt rid c) :
    ∃ rem, iterStep lv sup (some k) c = .ok (outChunk lv sup rid c.start c, rem) ∧ RemChunk dt rid c.stop rem := by
  let b : Chunk := ⟨k.dataType, k.kind, some rid, c.start, c.stop, c.rows, none, [⟨rid, c.start, c.stop⟩], max k.target c.target⟩
  have hb : LoaderChunk dt rid b := ⟨hk.hdt, rfl, rfl, rfl, hc.h0, hc.hpos, hc.hin⟩
  refine ⟨remOf b rid b.target, ?_, remOf_rem (c := b) hk.hdt (by have := hc.h0; have := hc.hpos; show 0 ≤ c.stop; omega)⟩
  rw [iterStep_eq]
  simp only [concat_same hk hc, bind, Except.bind]
  have := split_loader hb
  simp only [b] at this
  simp only [this]
  have hcomp := compute_of_run (lv := lv) (inp := b) hsupid hne rfl hb.h0 (by have := hb.hpos; omega) hb.hin
  simp only [b] at hcomp
  rw [hcomp]
  rfl

/-- the buffer's remainder of run `rid'` and the first chunk of ANOTHER run `rid` (a subrun border): the result
belongs to no single run and spans from the previous subrun's end to the new chunk's end -/
theorem concat_border {dt rid' rid : String} {k c : Chunk} {p : Int} (hk : RemChunk dt rid' p k)
    (hc : LoaderChunk dt rid c) (hne : rid' ≠ rid) (hp : p ≤ c.start) :
    concatenate [k, c] true = .ok ⟨k.dataType, k.kind, none, p, c.stop, c.rows, none,
      [⟨rid', p, p⟩, ⟨rid, c.start, c.stop⟩], max k.target c.target⟩ := by
  rw [concatenate_eq]
  have h1 : allEq (List.map (fun x => x.dataType) [k, c]) = true := by simp [allEq, hk.hdt, hc.hdt]
  have h2 : allEq (List.map (fun x => x.runId) [k, c]) = false := by
    simp [allEq, hk.hrun, hc.hrun]; exact fun h => hne h.symm
  have hms : mergeSuperrun [k, c] false = .ok [⟨rid', p, p⟩, ⟨rid, c.start, c.stop⟩] := by
    unfold mergeSuperrun
    have : collectRuns (List.map (fun c => some c.superrun) [k, c])
        = ([⟨rid', p, p⟩, ⟨rid, c.start, c.stop⟩] : Runs).map single := by
      simp [collectRuns, hk.hsup, hc.hsup, addRun, single, hne]
    rw [this]
    exact mergable_singles false _
  have h3 : concatRun [k, c] k = .ok (none, some [⟨rid', p, p⟩, ⟨rid, c.start, c.stop⟩]) := by
    simp only [concatRun]; rw [h2, hms]; rfl
  have h4 := concatSub_none hk.hsub hc.hsub
  have h5 : outOfOrder 0 [k, c] = false := by
    have := hk.hs; have := hk.he; have := hk.h0
    simp [outOfOrder]; omega
  simp only [h1, h2, h3, h4, h5, bind, Except.bind]
  simp only [Bool.not_true, Bool.not_false, Bool.true_and, Bool.false_eq_true, if_false, hk.hs]
  have hrows : List.flatMap (fun x => x.rows) [k, c] = c.rows := by simp [hk.hrows]
  have htg : List.foldl max 0 (List.map (fun x => x.target) [k, c]) = max k.target c.target := by
    simp [List.foldl]
  have hlast : ([k, c].getLast?.getD k).stop = c.stop := by simp
  rw [hrows, htg, hlast]
  have hpos := hc.hpos
  exact mkChunk_ok_gen hk.h0 (by omega) (fun x hx => by have := hc.hin x hx; omega) (by intro y hy; cases hy)
    (by simp) (by simp) (sortRuns_pair (by simp only [runLe, decide_eq_true_eq]; omega)) (by simp [runsOverlap]; omega)

/-- cutting the border chunk at its end: the empty span of the previous run is dropped, the piece keeps the
previous run's id (first key of the `superrun` dict) but records only the new run -/
theorem split_border {dt kind rid' rid : String} {p s e : Int} {rows : List Row} {tg : Nat}
    (h0 : 0 ≤ p) (hp : p ≤ s) (hse : s < e) (hin : RowsIn s e rows) :
    (⟨dt, kind, none, p, e, rows, none, [⟨rid', p, p⟩, ⟨rid, s, e⟩], tg⟩ : Chunk).split e true = .ok
      (⟨dt, kind, some rid', p, e, rows, none, [⟨rid, s, e⟩], tg⟩,
       ⟨dt, kind, some rid, e, e, [], none, [⟨rid, e, e⟩], tg⟩) := by
  rw [Chunk.split_eq (Chunk.not_bad_of_subruns_none rfl)]
  have hv : splitData (⟨dt, kind, none, p, e, rows, none, [⟨rid', p, p⟩, ⟨rid, s, e⟩], tg⟩ : Chunk) e true
      = .ok (rows, [], e) := by
    have : max e p = e := by omega
    simp [splitData, this, pure, Except.pure]
  have hss : splitSub (⟨dt, kind, none, p, e, rows, none, [⟨rid', p, p⟩, ⟨rid, s, e⟩], tg⟩ : Chunk) e = (none, none) := by
    unfold splitSub; rw [promised_of_subruns_none rfl]; rfl
  have hsr : splitRuns (some [⟨rid', p, p⟩, ⟨rid, s, e⟩]) e = (some [⟨rid, s, e⟩], none) := by
    have a1 : ¬ e ≤ s := by omega
    have a2 : ¬ e ≤ p := by omega
    have a3 : ¬ e < p := by omega
    have a4 : ¬ s = e := by omega
    simp [splitRuns, splitRunsList, popEmpty, a1, a2, a3, a4]
  have hr1 : splitRun1 (⟨dt, kind, none, p, e, rows, none, [⟨rid', p, p⟩, ⟨rid, s, e⟩], tg⟩ : Chunk) e = some rid' := by
    unfold splitRun1; simp only [hsr]; simp [runSingle]
  have hr2 : splitRun2 (⟨dt, kind, none, p, e, rows, none, [⟨rid', p, p⟩, ⟨rid, s, e⟩], tg⟩ : Chunk) e = some rid := by
    unfold splitRun2; simp only [hsr]; simp [runSingle]
  simp only [hv, bind, Except.bind, hr1, hr2, hss, hsr]
  have hm1 : max p e = e := by omega
  have hm2 : max e e = e := by omega
  simp only [hm1, hm2]
  rw [mkChunk_ok_gen h0 (by omega) (fun x hx => by have := hin x hx; omega) (by intro y hy; cases hy)
    (by simp) (by simp) (sortRuns_singleton _) (by simp [runsOverlap])]
  simp only
  rw [mkChunk_ok_own (by omega) (by omega) (by intro x hx; simp at hx) (by intro y hy; cases hy)]
  rfl

theorem iterStep_border {lv : Level} {sup dt rid' rid : String} {k c : Chunk} {p : Int}
    (hallow : lv.allow = true) (hsupid : isSuperId sup = true) (hne : rid ≠ sup) (hk : RemChunk dt rid' p k)
    (hc : LoaderChunk dt rid c) (hdiff : rid' ≠ rid) (hp : p ≤ c.start) :
    ∃ rem, iterStep lv sup (some k) c = .ok (outChunk lv sup rid p c, rem) ∧ RemChunk dt rid c.stop rem := by
  refine ⟨⟨k.dataType, k.kind, some rid, c.stop, c.stop, [], none, [⟨rid, c.stop, c.stop⟩], max k.target c.target⟩, ?_,
    ⟨hk.hdt, rfl, rfl, rfl, rfl, rfl, rfl, by have := hc.h0; have := hc.hpos; omega⟩⟩
  rw [iterStep_eq, hallow]
  simp only [concat_border hk hc hdiff hp, bind, Except.bind]
  rw [split_border hk.h0 hp hc.hpos hc.hin]
  simp only
  have hcomp := compute_of_run (lv := lv) (s := c.start) (e := c.stop)
    (inp := ⟨k.dataType, k.kind, some rid', p, c.stop, c.rows, none, [⟨rid, c.start, c.stop⟩], max k.target c.target⟩)
    hsupid hne rfl hk.h0 (by have := hc.hpos; show p ≤ c.stop; omega)
    (fun x hx => by have := hc.hin x hx; show p ≤ x.time ∧ x.endt ≤ c.stop; omega)
  rw [hcomp]
  rfl

/-! ## 12. the whole first superrun level on the concat loader's stream -/

/-- the concat loader's stream: loader chunks of data type `dt`; a chunk of the same run as its predecessor starts
where that one ended (law-abiding subrun stream), a chunk of another run starts no earlier (subruns on increasing,
disjoint ranges).  `prev` = (run id, end) of the previous chunk. -/
def LoaderStream (dt sup : String) : Option (String × Int) → List Chunk → Prop
  | _, [] => True
  | prev, c :: cs => ∃ rid, LoaderChunk dt rid c ∧ rid ≠ sup ∧
      (match prev with
        | none => True
        | some (r', p) => p ≤ c.start ∧ (r' = rid → p = c.start)) ∧
      LoaderStream dt sup (some (rid, c.stop)) cs

def ridOf (c : Chunk) : String := c.runId.getD ""

/-- the output of the first superrun level, chunk by chunk: chunk `c` of subrun `rid` becomes a chunk of the
superrun that starts where the previous output ended, ends where `c` ends, holds `c`'s rows and records
`{rid: [c.start, c.stop)}` -/
def expected (lv : Level) (sup : String) : Option Int → List Chunk → List Chunk
  | _, [] => []
  | prev, c :: cs => outChunk lv sup (ridOf c) (prev.getD c.start) c :: expected lv sup (some c.stop) cs

theorem pluginIter_loader {lv : Level} {sup dt : String} (hallow : lv.allow = true) (hsupid : isSuperId sup = true) :
    ∀ (cs : List Chunk) (prev : Option (String × Int)) (buf : Option Chunk),
      LoaderStream dt sup prev cs →
      (match prev with
        | none => buf = none
        | some (r', p) => ∃ k, buf = some k ∧ RemChunk dt r' p k) →
      pluginIter lv sup buf cs = .ok (expected lv sup (prev.map (·.2)) cs)
  | [], prev, buf, _, hb => by
    unfold pluginIter
    cases prev with
    | none => subst hb; rfl
    | some rp =>
      obtain ⟨k, rfl, hk⟩ := hb
      simp [hk.hrows, expected, pure, Except.pure]
  | c :: cs, prev, buf, hs, hb => by
    obtain ⟨rid, hc, hne, hprev, hrest⟩ := hs
    have hrid : ridOf c = rid := by simp [ridOf, hc.hrun]
    unfold pluginIter
    have key : ∃ rem, iterStep lv sup buf c = .ok (outChunk lv sup rid ((prev.map (·.2)).getD c.start) c, rem) ∧
        RemChunk dt rid c.stop rem := by
      cases prev with
      | none =>
        subst hb
        exact ⟨_, iterStep_first hsupid hne hc, remOf_rem hc.hdt (by have := hc.h0; have := hc.hpos; omega)⟩
      | some rp =>
        obtain ⟨r', p⟩ := rp
        obtain ⟨k, rfl, hk⟩ := hb
        simp only at hprev
        by_cases hsame : r' = rid
        · subst hsame
          have hp := hprev.2 rfl
          subst hp
          simpa using iterStep_same hsupid hne hk hc
        · simpa using iterStep_border hallow hsupid hne hk hc hsame hprev.1
    obtain ⟨rem, hstep, hrem⟩ := key
    have ih := pluginIter_loader hallow hsupid cs (some (rid, c.stop)) (some rem) hrest ⟨rem, rfl, hrem⟩
    simp only [hstep, bind, Except.bind, ih, pure, Except.pure, expected, hrid]
    rfl

/-- **The first superrun level, explicitly** (totality + shape): on the concat loader's stream `Plugin.iter` of a
superrun-capable plugin does not raise and yields exactly `expected`. -/
theorem pluginRun_loader {lv : Level} {sup dt : String} {cs : List Chunk} (hallow : lv.allow = true)
    (hsupid : isSuperId sup = true) (hne : cs ≠ []) (hs : LoaderStream dt sup none cs) :
    pluginRun lv sup cs = .ok (expected lv sup none cs) := by
  unfold pluginRun
  cases cs with
  | nil => exact absurd rfl hne
  | cons c cs => exact pluginIter_loader hallow hsupid (c :: cs) none none hs rfl

theorem expected_subruns (lv : Level) (sup : String) : ∀ (cs : List Chunk) (prev : Option Int),
    (expected lv sup prev cs).map (·.subruns) = cs.map (fun c => some [⟨ridOf c, c.start, c.stop⟩])
  | [], _ => rfl
  | c :: cs, prev => by simp [expected, outChunk, expected_subruns lv sup cs]

theorem expected_rows (lv : Level) (sup : String) : ∀ (cs : List Chunk) (prev : Option Int),
    (expected lv sup prev cs).map (·.rows) = cs.map (·.rows)
  | [], _ => rfl
  | c :: cs, prev => by simp [expected, outChunk, expected_rows lv sup cs]

theorem expected_stops (lv : Level) (sup : String) : ∀ (cs : List Chunk) (prev : Option Int),
    (expected lv sup prev cs).map (·.stop) = cs.map (·.stop)
  | [], _ => rfl
  | c :: cs, prev => by simp [expected, outChunk, expected_stops lv sup cs]

/-- consecutive chunks are adjacent in time -/
def Contig : List Chunk → Prop
  | [] => True
  | [_] => True
  | a :: b :: rest => b.start = a.stop ∧ Contig (b :: rest)

/-- the outputs are contiguous: each starts where the previous one ended (also across subrun borders with a gap) -/
theorem expected_contig (lv : Level) (sup : String) : ∀ (cs : List Chunk) (prev : Option Int),
    Contig (expected lv sup prev cs)
  | [], _ => trivial
  | [c], _ => trivial
  | c :: c' :: cs, prev => by
    have ih := expected_contig lv sup (c' :: cs) (some c.stop)
    simp only [expected] at ih ⊢
    exact ⟨rfl, ih⟩

end Strax.Superrun
