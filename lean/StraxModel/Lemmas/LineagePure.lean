import StraxModel.Lemmas.LineageSem
/-
  Helper lemmas for theory T8 (property C02), part 3: the pure lineage function — fuel, dict-ness,
  dependence on the config only up to `hashablize`, registry extension, and its entries.
-/
namespace Strax.Lineage
open Strax

/-! ### `mapE` -/

theorem mapE_cons (f : α → Except Err β) (a : α) (l : List α) :
    mapE f (a :: l) = match f a with
      | .error e => .error e
      | .ok b =>
        match mapE f l with
        | .error e => .error e
        | .ok bs => .ok (b :: bs) := rfl

theorem mapE_cons_ok {f : α → Except Err β} {a : α} {l : List α} {bs : List β} :
    mapE f (a :: l) = .ok bs ↔ ∃ b bs', f a = .ok b ∧ mapE f l = .ok bs' ∧ bs = b :: bs' := by
  rw [mapE_cons]
  cases h1 : f a with
  | error e => simp
  | ok b =>
    cases h2 : mapE f l with
    | error e => simp
    | ok bs' =>
      simp only [Except.ok.injEq]
      constructor
      · intro h; exact ⟨b, bs', rfl, rfl, h.symm⟩
      · rintro ⟨b', bs'', hb, hbs, e⟩
        cases hb; cases hbs; exact e.symm

theorem mapE_ok_of_forall {f g : α → Except Err β} {l : List α} {bs : List β}
    (h : ∀ x ∈ l, ∀ b, f x = .ok b → g x = .ok b) (hm : mapE f l = .ok bs) : mapE g l = .ok bs := by
  induction l generalizing bs with
  | nil => simpa [mapE] using hm
  | cons a l ih =>
    obtain ⟨b, bs', h1, h2, e⟩ := mapE_cons_ok.mp hm
    exact mapE_cons_ok.mpr ⟨b, bs', h a (List.mem_cons_self ..) b h1,
      ih (fun x hx => h x (List.mem_cons_of_mem _ hx)) h2, e⟩

theorem mapE_ok_mem {f : α → Except Err β} {l : List α} {bs : List β} (hm : mapE f l = .ok bs) :
    ∀ x ∈ l, ∃ b, f x = .ok b ∧ b ∈ bs := by
  induction l generalizing bs with
  | nil => simp
  | cons a l ih =>
    obtain ⟨b, bs', h1, h2, e⟩ := mapE_cons_ok.mp hm
    subst e
    intro x hx
    rcases List.mem_cons.mp hx with e | e
    · subst e; exact ⟨b, h1, List.mem_cons_self ..⟩
    · obtain ⟨b', hb, hm'⟩ := ih h2 x e
      exact ⟨b', hb, List.mem_cons_of_mem _ hm'⟩

theorem mapE_ok_mem' {f : α → Except Err β} {l : List α} {bs : List β} (hm : mapE f l = .ok bs) :
    ∀ b ∈ bs, ∃ x ∈ l, f x = .ok b := by
  induction l generalizing bs with
  | nil => simp [mapE] at hm; subst hm; simp
  | cons a l ih =>
    obtain ⟨b, bs', h1, h2, e⟩ := mapE_cons_ok.mp hm
    subst e
    intro y hy
    rcases List.mem_cons.mp hy with e | e
    · subst e; exact ⟨a, List.mem_cons_self .., h1⟩
    · obtain ⟨x, hx, hb⟩ := ih h2 y e
      exact ⟨x, List.mem_cons_of_mem _ hx, hb⟩

theorem mapE_isOk_of_forall {f : α → Except Err β} {l : List α}
    (h : ∀ x ∈ l, ∃ b, f x = .ok b) : ∃ bs, mapE f l = .ok bs := by
  induction l with
  | nil => exact ⟨[], rfl⟩
  | cons a l ih =>
    obtain ⟨b, hb⟩ := h a (List.mem_cons_self ..)
    obtain ⟨bs, hbs⟩ := ih fun x hx => h x (List.mem_cons_of_mem _ hx)
    exact ⟨b :: bs, mapE_cons_ok.mpr ⟨b, bs, hb, hbs, rfl⟩⟩

/-- dependencies related one by one -/
theorem mapE_depsEq {f g : String → Except Err Lineage} {l : List String} {Ls : List Lineage}
    (h : ∀ x ∈ l, ∀ L, f x = .ok L → ∃ L', g x = .ok L' ∧ LinEq L L' ∧ NodupKeys L ∧ NodupKeys L')
    (hm : mapE f l = .ok Ls) : ∃ Ls', mapE g l = .ok Ls' ∧ DepsEq Ls Ls' := by
  induction l generalizing Ls with
  | nil => simp [mapE] at hm; subst hm; exact ⟨[], rfl, by simp [DepsEq]⟩
  | cons a l ih =>
    obtain ⟨b, bs', h1, h2, e⟩ := mapE_cons_ok.mp hm
    subst e
    obtain ⟨L', hg, hl⟩ := h a (List.mem_cons_self ..) b h1
    obtain ⟨Ls', hg', hd⟩ := ih (fun x hx => h x (List.mem_cons_of_mem _ hx)) h2
    exact ⟨L' :: Ls', mapE_cons_ok.mpr ⟨L', Ls', hg, hg', rfl⟩, by simp only [DepsEq]; exact ⟨hl, hd⟩⟩

/-! ### the shape of one `lineage` step -/

theorem lineage_zero (r : Registry) (c : Config) (d : String) : lineage r c 0 d = .error .runtimeError := rfl

theorem lineage_succ (r : Registry) (c : Config) (n : Nat) (d : String) :
    lineage r c (n + 1) d =
      match r.lookup d with
      | none => .error .keyError
      | some cls =>
        if dupDeps cls.dependsOn then .error .valueError else
        match pluginConfig cls c with
        | .error e => .error e
        | .ok pc =>
          match mapE (lineage r c n) cls.dependsOn with
          | .error e => .error e
          | .ok deps => .ok (mergeLineage (ownEntry cls pc) deps) := rfl

theorem lineage_succ_ok {r : Registry} {c : Config} {n : Nat} {d : String} {L : Lineage} :
    lineage r c (n + 1) d = .ok L ↔
      ∃ cls pc deps, r.lookup d = some cls ∧ dupDeps cls.dependsOn = false ∧ pluginConfig cls c = .ok pc ∧
        mapE (lineage r c n) cls.dependsOn = .ok deps ∧ L = mergeLineage (ownEntry cls pc) deps := by
  rw [lineage_succ]
  constructor
  · intro h
    split at h
    · simp at h
    · rename_i cls h1
      split at h
      · simp at h
      · rename_i h2
        split at h
        · simp at h
        · rename_i pc h3
          split at h
          · simp at h
          · rename_i deps h4
            exact ⟨cls, pc, deps, h1, by simpa using h2, h3, h4, (Except.ok.inj h).symm⟩
  · rintro ⟨cls, pc, deps, h1, h2, h3, h4, h5⟩
    simp [h1, h2, h3, h4, h5]

theorem Registry.lookup_provides {r : Registry} {d : String} {cls : PluginClass} (h : r.lookup d = some cls) :
    cls.provides = d ∧ cls ∈ r := by
  unfold Registry.lookup at h
  have h1 := List.find?_some h
  exact ⟨by simpa using h1, List.mem_of_find?_eq_some h⟩

/-! ### fuel -/

theorem lineage_mono {r : Registry} {c : Config} {n : Nat} {d : String} {L : Lineage}
    (h : lineage r c n d = .ok L) : lineage r c (n + 1) d = .ok L := by
  induction n generalizing d L with
  | zero => simp [lineage_zero] at h
  | succ n ih =>
    obtain ⟨cls, pc, deps, h1, h2, h3, h4, h5⟩ := lineage_succ_ok.mp h
    exact lineage_succ_ok.mpr ⟨cls, pc, deps, h1, h2, h3, mapE_ok_of_forall (fun x _ b hb => ih hb) h4, h5⟩

theorem lineage_mono_le {r : Registry} {c : Config} {n m : Nat} {d : String} {L : Lineage}
    (h : lineage r c n d = .ok L) (hm : n ≤ m) : lineage r c m d = .ok L := by
  induction hm with
  | refl => exact h
  | step _ ih => exact lineage_mono ih

/-- the result does not depend on how much fuel was spent -/
theorem lineage_det {r : Registry} {c : Config} {n m : Nat} {d : String} {L L' : Lineage}
    (h : lineage r c n d = .ok L) (h' : lineage r c m d = .ok L') : L = L' := by
  have a := lineage_mono_le h (Nat.le_max_left n m)
  have b := lineage_mono_le h' (Nat.le_max_right n m)
  rw [a] at b; exact Except.ok.inj b

/-! ### lineages are dicts -/

theorem lineage_nodupKeys {r : Registry} {c : Config} {n : Nat} {d : String} {L : Lineage}
    (h : lineage r c n d = .ok L) : NodupKeys L := by
  cases n with
  | zero => simp [lineage_zero] at h
  | succ n =>
    obtain ⟨cls, pc, deps, _, _, _, _, h5⟩ := lineage_succ_ok.mp h
    rw [h5]; exact mergeLineage_nodup (ownEntry_nodup cls pc) deps

/-! ### the config matters only up to `hashablize` -/

theorem lineage_congr_cfg {r : Registry} {c c' : Config} (hc : CfgEq c c') (hn : NodupKeys c) (hn' : NodupKeys c')
    {n : Nat} {d : String} {L : Lineage} (h : lineage r c n d = .ok L) :
    ∃ L', lineage r c' n d = .ok L' ∧ LinEq L L' := by
  induction n generalizing d L with
  | zero => simp [lineage_zero] at h
  | succ n ih =>
    obtain ⟨cls, pc, deps, h1, h2, h3, h4, h5⟩ := lineage_succ_ok.mp h
    have hp := pluginConfig_congr cls hc
    rw [h3] at hp
    cases h3' : pluginConfig cls c' with
    | error e => rw [h3'] at hp; simp [RelE] at hp
    | ok pc' =>
      rw [h3'] at hp
      have hpe : CfgEq pc pc' := hp
      obtain ⟨deps', hd1, hd2⟩ := mapE_depsEq (g := lineage r c' n) (fun x _ Lx hx => by
        obtain ⟨Lx', a, b⟩ := ih hx
        exact ⟨Lx', a, b, lineage_nodupKeys hx, lineage_nodupKeys a⟩) h4
      refine ⟨mergeLineage (ownEntry cls pc') deps', lineage_succ_ok.mpr ⟨cls, pc', deps', h1, h2, h3', hd1, rfl⟩, ?_⟩
      rw [h5]
      exact mergeLineage_congr (ownEntry_linEq cls hpe (pluginConfig_nodup hn h3) (pluginConfig_nodup hn' h3')) hd2

/-- the order in which options were put into the context config does not matter -/
theorem lineage_config_perm {r : Registry} {c c' : Config} (hp : c.Perm c') (hn : NodupKeys c)
    {n : Nat} {d : String} {L : Lineage} (h : lineage r c n d = .ok L) :
    ∃ L', lineage r c' n d = .ok L' ∧ lineageCanon L = lineageCanon L' := by
  obtain ⟨L', h1, h2⟩ := lineage_congr_cfg (CfgEq.of_perm hp hn) hn (hn.perm hp) h
  exact ⟨L', h1, (lineageCanon_eq_iff (lineage_nodupKeys h) (lineage_nodupKeys h1)).mpr h2⟩

/-! ### registering more types changes no existing lineage -/

def Registry.Extends (r r' : Registry) : Prop := ∀ x cls, r.lookup x = some cls → r'.lookup x = some cls

theorem lineage_ext {r r' : Registry} (hr : r.Extends r') {c : Config} {n : Nat} {d : String} {L : Lineage}
    (h : lineage r c n d = .ok L) : lineage r' c n d = .ok L := by
  induction n generalizing d L with
  | zero => simp [lineage_zero] at h
  | succ n ih =>
    obtain ⟨cls, pc, deps, h1, h2, h3, h4, h5⟩ := lineage_succ_ok.mp h
    exact lineage_succ_ok.mpr ⟨cls, pc, deps, hr _ _ h1, h2, h3, mapE_ok_of_forall (fun x _ b hb => ih hb) h4, h5⟩

/-! ### fuel `|registry| + 1` is enough (pigeonhole on the set of types whose lineage is defined) -/

def okAt (r : Registry) (c : Config) (n : Nat) (x : String) : Bool :=
  match lineage r c n x with
  | .ok _ => true
  | .error _ => false

theorem okAt_iff {r : Registry} {c : Config} {n : Nat} {x : String} :
    okAt r c n x = true ↔ ∃ L, lineage r c n x = .ok L := by
  unfold okAt
  cases lineage r c n x <;> simp

theorem okAt_mono {r : Registry} {c : Config} {n : Nat} {x : String} (h : okAt r c n x = true) :
    okAt r c (n + 1) x = true := by
  obtain ⟨L, hL⟩ := okAt_iff.mp h
  exact okAt_iff.mpr ⟨L, lineage_mono hL⟩

/-- no registered type becomes defined when going from fuel `k` to `k + 1` -/
def Stable (r : Registry) (c : Config) (k : Nat) : Prop :=
  ∀ cls ∈ r, okAt r c (k + 1) cls.provides = true → okAt r c k cls.provides = true

theorem stable_all {r : Registry} {c : Config} {k : Nat} (hs : Stable r c k) (x : String)
    (h : okAt r c (k + 1) x = true) : okAt r c k x = true := by
  obtain ⟨L, hL⟩ := okAt_iff.mp h
  obtain ⟨cls, _, _, h1, _⟩ := lineage_succ_ok.mp hL
  obtain ⟨hp, hm⟩ := Registry.lookup_provides h1
  have := hs cls hm (hp ▸ h)
  rwa [hp] at this

theorem stable_succ {r : Registry} {c : Config} {k : Nat} (hs : Stable r c k) : Stable r c (k + 1) := by
  intro cls _ h
  obtain ⟨L, hL⟩ := okAt_iff.mp h
  obtain ⟨cls', pc, deps, h1, h2, h3, h4, _⟩ := lineage_succ_ok.mp hL
  have hd : ∀ x ∈ cls'.dependsOn, ∃ b, lineage r c k x = .ok b := by
    intro x hx
    obtain ⟨b, hb, _⟩ := mapE_ok_mem h4 x hx
    exact okAt_iff.mp (stable_all hs x (okAt_iff.mpr ⟨b, hb⟩))
  obtain ⟨deps', hd'⟩ := mapE_isOk_of_forall hd
  exact okAt_iff.mpr ⟨_, lineage_succ_ok.mpr ⟨cls', pc, deps', h1, h2, h3, hd', rfl⟩⟩

theorem stable_le {r : Registry} {c : Config} {k m : Nat} (hs : Stable r c k) (hm : k ≤ m) : Stable r c m := by
  induction hm with
  | refl => exact hs
  | step _ ih => exact stable_succ ih

theorem okAt_of_stable {r : Registry} {c : Config} {k n : Nat} (hs : Stable r c k) (x : String)
    (h : okAt r c n x = true) : okAt r c k x = true := by
  induction n with
  | zero => simp [okAt, lineage_zero] at h
  | succ n ih =>
    by_cases hn : n < k
    · obtain ⟨L, hL⟩ := okAt_iff.mp h
      exact okAt_iff.mpr ⟨L, lineage_mono_le hL (by omega)⟩
    · exact ih (stable_all (stable_le hs (by omega)) x h)

def okCount (r : Registry) (c : Config) (k : Nat) : Nat := (r.filter fun cls => okAt r c k cls.provides).length

theorem filter_length_lt {l : List α} {p q : α → Bool} (hpq : ∀ a ∈ l, p a = true → q a = true)
    (hex : ∃ a ∈ l, q a = true ∧ p a = false) : (l.filter p).length < (l.filter q).length := by
  induction l with
  | nil => obtain ⟨a, ha, _⟩ := hex; simp at ha
  | cons b l ih =>
    have hle : (l.filter p).length ≤ (l.filter q).length := by
      clear ih hex
      induction l with
      | nil => simp
      | cons x l ih' =>
        have hx := hpq x (by simp)
        have := ih' (fun a ha => hpq a (by
          rcases List.mem_cons.mp ha with e | e
          · simp [e]
          · simp [e]))
        simp only [List.filter_cons]
        cases hp : p x <;> cases hq : q x <;> simp [hp, hq] at hx ⊢ <;> omega
    obtain ⟨a, ha, hqa, hpa⟩ := hex
    simp only [List.filter_cons]
    rcases List.mem_cons.mp ha with e | e
    · subst e
      simp [hqa, hpa]; omega
    · have := ih (fun a ha => hpq a (List.mem_cons_of_mem _ ha)) ⟨a, e, hqa, hpa⟩
      have hb := hpq b (List.mem_cons_self ..)
      cases hp : p b <;> cases hq : q b <;> simp [hp, hq] at hb ⊢ <;> omega

theorem okCount_lt_of_unstable {r : Registry} {c : Config} {k : Nat} (h : ¬ Stable r c k) :
    okCount r c k < okCount r c (k + 1) := by
  unfold Stable at h
  have : ∃ cls ∈ r, okAt r c (k + 1) cls.provides = true ∧ okAt r c k cls.provides = false := by
    apply Classical.byContradiction
    intro hn
    apply h
    intro cls hm h1
    cases h2 : okAt r c k cls.provides with
    | true => rfl
    | false => exact absurd ⟨cls, hm, h1, h2⟩ hn
  exact filter_length_lt (fun a _ ha => okAt_mono ha) this

theorem exists_stable (r : Registry) (c : Config) : ∃ k, k ≤ r.length ∧ Stable r c k := by
  apply Classical.byContradiction
  intro hn
  have hall : ∀ k, k ≤ r.length → ¬ Stable r c k := fun k hk hs => hn ⟨k, hk, hs⟩
  have hcount : ∀ k, k ≤ r.length + 1 → k ≤ okCount r c k := by
    intro k
    induction k with
    | zero => intro _; omega
    | succ k ih =>
      intro hk
      have := okCount_lt_of_unstable (hall k (by omega))
      have := ih (by omega)
      omega
  have h1 := hcount (r.length + 1) (by omega)
  have h2 : okCount r c (r.length + 1) ≤ r.length := List.length_filter_le _ _
  omega

/-- if a lineage is defined at all, the fuel the model uses (`fuelOf r = |r| + 1`) finds it -/
theorem lineage_fuel {r : Registry} {c : Config} {n : Nat} {d : String} {L : Lineage}
    (h : lineage r c n d = .ok L) : lineage r c (fuelOf r) d = .ok L := by
  obtain ⟨k, hk, hs⟩ := exists_stable r c
  have h1 := okAt_of_stable hs d (okAt_iff.mpr ⟨L, h⟩)
  obtain ⟨L', hL'⟩ := okAt_iff.mp h1
  have h2 : lineage r c (fuelOf r) d = .ok L' := lineage_mono_le hL' (by unfold fuelOf; omega)
  rw [h2, lineage_det hL' h]

/-! ### the entries of a lineage: one per ancestor, each determined by that ancestor alone -/

/-- the data types a lineage mentions: `d` and everything it (transitively) depends on -/
def ancestors (r : Registry) : Nat → String → List String
  | 0, _ => []
  | n + 1, d => d :: (match r.lookup d with
      | some cls => cls.dependsOn.flatMap (ancestors r n)
      | none => [])

/-- the lineage entry of data type `a` taken by itself: providing class, version, tracked config -/
def ownEntryOf (r : Registry) (c : Config) (a : String) : Option Entry :=
  match r.lookup a with
  | none => none
  | some cls =>
    match pluginConfig cls c with
    | .ok pc => some ⟨cls.name, cls.version, entryConfig cls pc⟩
    | .error _ => none

theorem lookup_mergeLineage_const {a : String} {v₀ : Option Entry} {own : Lineage} {deps : List Lineage}
    (hown : own.lookup a = none ∨ own.lookup a = v₀)
    (hdeps : ∀ d ∈ deps, (d.lookup a = none ∨ d.lookup a = v₀) ∧ NodupKeys d) :
    (mergeLineage own deps).lookup a =
      if (own.lookup a).isSome ∨ ∃ d ∈ deps, (d.lookup a).isSome then v₀ else none := by
  induction deps generalizing own with
  | nil =>
    simp only [mergeLineage, List.foldl_nil, List.not_mem_nil, false_and, exists_false, or_false]
    rcases hown with h | h
    · simp [h]
    · cases hv : own.lookup a with
      | none => simp
      | some v => simp [← h, hv]
  | cons d ds ih =>
    rw [mergeLineage_cons]
    have hd := hdeps d (List.mem_cons_self ..)
    have hl := lookup_dictUpdate own d hd.2 a
    rw [ih (own := dictUpdate own d) (by
        rw [hl]
        cases e : d.lookup a with
        | none => simpa using hown
        | some v => rcases hd.1 with h | h
                    · simp [e] at h
                    · right; simp [← h, e])
      (fun x hx => hdeps x (List.mem_cons_of_mem _ hx))]
    have : ((dictUpdate own d).lookup a).isSome = ((d.lookup a).isSome || (own.lookup a).isSome) := by
      rw [hl]; cases d.lookup a <;> simp
    simp only [this, List.mem_cons, exists_eq_or_imp, Bool.or_eq_true]
    congr 1
    apply propext
    constructor
    · rintro ((h | h) | h)
      · exact Or.inr (Or.inl h)
      · exact Or.inl h
      · exact Or.inr (Or.inr h)
    · rintro (h | h | h)
      · exact Or.inl (Or.inr h)
      · exact Or.inl (Or.inl h)
      · exact Or.inr h

theorem mem_ancestors_succ {r : Registry} {n : Nat} {d a : String} {cls : PluginClass} (h : r.lookup d = some cls) :
    a ∈ ancestors r (n + 1) d ↔ a = d ∨ ∃ x ∈ cls.dependsOn, a ∈ ancestors r n x := by
  simp [ancestors, h]

/-- every entry of a lineage is the entry its data type would get on its own -/
theorem lineage_lookup {r : Registry} {c : Config} {n : Nat} {d : String} {L : Lineage}
    (h : lineage r c n d = .ok L) (a : String) :
    L.lookup a = if a ∈ ancestors r n d then ownEntryOf r c a else none := by
  induction n generalizing d L with
  | zero => simp [lineage_zero] at h
  | succ n ih =>
    obtain ⟨cls, pc, deps, h1, h2, h3, h4, h5⟩ := lineage_succ_ok.mp h
    obtain ⟨hp, _⟩ := Registry.lookup_provides h1
    have hself : ownEntryOf r c d = some ⟨cls.name, cls.version, entryConfig cls pc⟩ := by
      simp [ownEntryOf, h1, h3]
    have hown : (ownEntry cls pc).lookup a = if a = d then ownEntryOf r c a else none := by
      simp only [ownEntry, lookup_cons', List.lookup_nil, hp]
      by_cases e : a = d
      · simp [e, hself]
      · simp [e]
    have hdep : ∀ Lx ∈ deps, ∃ x ∈ cls.dependsOn,
        Lx.lookup a = (if a ∈ ancestors r n x then ownEntryOf r c a else none) ∧ NodupKeys Lx := by
      intro Lx hLx
      obtain ⟨x, hx, hb⟩ := mapE_ok_mem' h4 Lx hLx
      exact ⟨x, hx, ih hb, lineage_nodupKeys hb⟩
    rw [h5, lookup_mergeLineage_const (v₀ := ownEntryOf r c a)]
    · cases hv : ownEntryOf r c a with
      | none => simp
      | some v =>
        have hiff : ((List.lookup a (ownEntry cls pc)).isSome = true ∨
            ∃ Lx, Lx ∈ deps ∧ (List.lookup a Lx).isSome = true) ↔ a ∈ ancestors r (n + 1) d := by
          rw [mem_ancestors_succ h1]
          constructor
          · rintro (hh | ⟨Lx, hLx, hs⟩)
            · rw [hown] at hh
              by_cases e : a = d
              · exact Or.inl e
              · simp [e] at hh
            · obtain ⟨x, hx, hl, _⟩ := hdep Lx hLx
              rw [hl] at hs
              by_cases e : a ∈ ancestors r n x
              · exact Or.inr ⟨x, hx, e⟩
              · simp [e] at hs
          · rintro (e | ⟨x, hx, hm⟩)
            · left; rw [hown, if_pos e, hv]; rfl
            · right
              obtain ⟨Lx, hb, hLx⟩ := mapE_ok_mem h4 x hx
              exact ⟨Lx, hLx, by rw [ih hb]; simp [hm, hv]⟩
        by_cases hq : a ∈ ancestors r (n + 1) d
        · rw [if_pos hq, if_pos (hiff.mpr hq)]
        · rw [if_neg hq, if_neg (fun hh => hq (hiff.mp hh))]
    · rw [hown]; by_cases e : a = d <;> simp [e]
    · intro Lx hLx
      obtain ⟨x, _, hl, hn⟩ := hdep Lx hLx
      refine ⟨?_, hn⟩
      rw [hl]; by_cases e : a ∈ ancestors r n x <;> simp [e]

/-- a type that occurs in a defined lineage has an entry of its own -/
theorem ownEntryOf_isSome_of_mem {r : Registry} {c : Config} {n : Nat} {d : String} {L : Lineage}
    (h : lineage r c n d = .ok L) {a : String} (ha : a ∈ ancestors r n d) : (ownEntryOf r c a).isSome := by
  induction n generalizing d L with
  | zero => simp [lineage_zero] at h
  | succ n ih =>
    obtain ⟨cls, pc, deps, h1, h2, h3, h4, h5⟩ := lineage_succ_ok.mp h
    rcases (mem_ancestors_succ h1).mp ha with e | ⟨x, hx, hm⟩
    · subst e; simp [ownEntryOf, h1, h3]
    · obtain ⟨Lx, hb, _⟩ := mapE_ok_mem h4 x hx
      exact ih hb hm

end Strax.Lineage
