import StraxModel.Lemmas.LineageSem
/-
  Helper lemmas for theory T8 (property C02), part 3: the pure lineage function — fuel, dict-ness,
  dependence on the config only up to `hashablize`, registry extension, and its entries.
-/
namespace Strax.Lineage
open Strax

/-! ### `mapE` -/

theorem mapE_cons (f : α → Except Err β) (a : α) (l : List α) :
    mapE f (a :: l) = match f a with
      | .error e => .error e
      | .ok b =>
        match mapE f l with
        | .error e => .error e
        | .ok bs => .ok (b :: bs) := rfl

theorem mapE_cons_ok {f : α → Except Err β} {a : α} {l : List α} {bs : List β} :
    mapE f (a :: l) = .ok bs ↔ ∃ b bs', f a = .ok b ∧ mapE f l = .ok bs' ∧ bs = b :: bs' := by
  rw [mapE_cons]
  cases h1 : f a with
  | error e => simp
  | ok b =>
    cases h2 : mapE f l with
    | error e => simp
    | ok bs' =>
      simp only [Except.ok.injEq]
      constructor
      · intro h; exact ⟨b, bs', rfl, rfl, h.symm⟩
      · rintro ⟨b', bs'', hb, hbs, e⟩
        cases hb; cases hbs; exact e.symm

theorem mapE_ok_of_forall {f g : α → Except Err β} {l : List α} {bs : List β}
    (h : ∀ x ∈ l, ∀ b, f x = .ok b → g x = .ok b) (hm : mapE f l = .ok bs) : mapE g l = .ok bs := by
  induction l generalizing bs with
  | nil => simpa [mapE] using hm
  | cons a l ih =>
    obtain ⟨b, bs', h1, h2, e⟩ := mapE_cons_ok.mp hm
    exact mapE_cons_ok.mpr ⟨b, bs', h a (List.mem_cons_self ..) b h1,
      ih (fun x hx => h x (List.mem_cons_of_mem _ hx)) h2, e⟩

theorem mapE_ok_mem {f : α → Except Err β} {l : List α} {bs : List β} (hm : mapE f l = .ok bs) :
    ∀ x ∈ l, ∃ b, f x = .ok b ∧ b ∈ bs := by
  induction l generalizing bs with
  | nil => simp
  | cons a l ih =>
    obtain ⟨b, bs', h1, h2, e⟩ := mapE_cons_ok.mp hm
    subst e
    intro x hx
    rcases List.mem_cons.mp hx with e | e
    · subst e; exact ⟨b, h1, List.mem_cons_self ..⟩
    · obtain ⟨b', hb, hm'⟩ := ih h2 x e
      exact ⟨b', hb, List.mem_cons_of_mem _ hm'⟩

theorem mapE_ok_mem' {f : α → Except Err β} {l : List α} {bs : List β} (hm : mapE f l = .ok bs) :
    ∀ b ∈ bs, ∃ x ∈ l, f x = .ok b := by
  induction l generalizing bs with
  | nil => simp [mapE] at hm; subst hm; simp
  | cons a l ih =>
    obtain ⟨b, bs', h1, h2, e⟩ := mapE_cons_ok.mp hm
    subst e
    intro y hy
    rcases List.mem_cons.mp hy with e | e
    · subst e; exact ⟨a, List.mem_cons_self .., h1⟩
    · obtain ⟨x, hx, hb⟩ := ih h2 y e
      exact ⟨x, List.mem_cons_of_mem _ hx, hb⟩

theorem mapE_isOk_of_forall {f : α → Except Err β} {l : List α}
    (h : ∀ x ∈ l, ∃ b, f x = .ok b) : ∃ bs, mapE f l = .ok bs := by
  induction l with
  | nil => exact ⟨[], rfl⟩
  | cons a l ih =>
    obtain ⟨b, hb⟩ := h a (List.mem_cons_self ..)
    obtain ⟨bs, hbs⟩ := ih fun x hx => h x (List.mem_cons_of_mem _ hx)
    exact ⟨b :: bs, mapE_cons_ok.mpr ⟨b, bs, hb, hbs, rfl⟩⟩

/-- dependencies related one by one -/
theorem mapE_depsEq {f g : String → Except Err Lineage} {l : List String} {Ls : List Lineage}
    (h : ∀ x ∈ l, ∀ L, f x = .ok L → ∃ L', g x = .ok L' ∧ LinEq L L' ∧ NodupKeys L ∧ NodupKeys L')
    (hm : mapE f l = .ok Ls) : ∃ Ls', mapE g l = .ok Ls' ∧ DepsEq Ls Ls' := by
  induction l generalizing Ls with
  | nil => simp [mapE] at hm; subst hm; exact ⟨[], rfl, by simp [DepsEq]⟩
  | cons a l ih =>
    obtain ⟨b, bs', h1, h2, e⟩ := mapE_cons_ok.mp hm
    subst e
    obtain ⟨L', hg, hl⟩ := h a (List.mem_cons_self ..) b h1
    obtain ⟨Ls', hg', hd⟩ := ih (fun x hx => h x (List.mem_cons_of_mem _ hx)) h2
    exact ⟨L' :: Ls', mapE_cons_ok.mpr ⟨L', Ls', hg, hg', rfl⟩, by simp only [DepsEq]; exact ⟨hl, hd⟩⟩

/-! ### the shape of one `lineage` step -/

theorem lineage_zero (r : Registry) (c : Config) (d : String) : lineage r c 0 d = .error .runtimeError := rfl

theorem lineage_succ (r : Registry) (c : Config) (n : Nat) (d : String) :
    lineage r c (n + 1) d =
      match r.lookup d with
      | none => .error .keyError
      | some cls =>
        if dupDeps cls.dependsOn then .error .valueError else
        match pluginConfig cls c with
        | .error e => .error e
        | .ok pc =>
          match mapE (lineage r c n) cls.dependsOn with
          | .error e => .error e
          | .ok deps => .ok (mergeLineage (ownEntry cls pc) deps) := rfl

theorem lineage_succ_ok {r : Registry} {c : Config} {n : Nat} {d : String} {L : Lineage} :
    lineage r c (n + 1) d = .ok L ↔
      ∃ cls pc deps, r.lookup d = some cls ∧ dupDeps cls.dependsOn = false ∧ pluginConfig cls c = .ok pc ∧
        mapE (lineage r c n) cls.dependsOn = .ok deps ∧ L = mergeLineage (ownEntry cls pc) deps := by
  rw [lineage_succ]
  constructor
  · intro h
    split at h
    · simp at h
    · rename_i cls h1
      split at h
      · simp at h
      · rename_i h2
        split at h
        · simp at h
        · rename_i pc h3
          split at h
          · simp at h
          · rename_i deps h4
            exact ⟨cls, pc, deps, h1, by simpa using h2, h3, h4, (Except.ok.inj h).symm⟩
  · rintro ⟨cls, pc, deps, h1, h2, h3, h4, h5⟩
    simp [h1, h2, h3, h4, h5]

theorem PluginClass.makes_iff (cls : PluginClass) (d : String) : cls.makes d = true ↔ d ∈ cls.outputs := by
  unfold PluginClass.makes PluginClass.outputs
  simp only [Bool.or_eq_true, beq_iff_eq, List.contains_iff_mem, List.mem_append, List.mem_singleton]
  constructor
  · rintro (h | h)
    · exact Or.inr h.symm
    · exact Or.inl h
  · rintro (h | h)
    · exact Or.inr h
    · exact Or.inl h.symm

theorem PluginClass.makes_provides (cls : PluginClass) : cls.makes cls.provides = true := by
  simp [PluginClass.makes]

theorem Registry.lookup_mem {r : Registry} {d : String} {cls : PluginClass} (h : r.lookup d = some cls) :
    cls.makes d = true ∧ cls ∈ r := by
  unfold Registry.lookup at h
  have h1 := List.find?_some h
  exact ⟨by simpa using h1, List.mem_of_find?_eq_some h⟩

/-- registered classes have pairwise disjoint outputs (what `register` maintains) -/
def Registry.WF (r : Registry) : Prop := r.Pairwise fun a b => a.overlaps b = false

instance (r : Registry) : Decidable r.WF := by unfold Registry.WF; infer_instance

theorem overlaps_of_makes {a b : PluginClass} {y : String} (ha : a.makes y = true) (hb : b.makes y = true) :
    a.overlaps b = true := by
  unfold PluginClass.overlaps
  rw [List.any_eq_true]
  exact ⟨y, (a.makes_iff y).mp ha, hb⟩

/-- in a well-formed registry every output of the class of `d` is mapped to that class -/
theorem Registry.lookup_output {r : Registry} (hw : r.WF) {d y : String} {cls : PluginClass}
    (h : r.lookup d = some cls) (hy : cls.makes y = true) : r.lookup y = some cls := by
  have hm := (Registry.lookup_mem h).2
  clear h
  induction r with
  | nil => simp at hm
  | cons c r ih =>
    unfold Registry.WF at hw
    rw [List.pairwise_cons] at hw
    unfold Registry.lookup
    rw [List.find?_cons]
    by_cases hc : c.makes y = true
    · rw [hc]
      rcases List.mem_cons.mp hm with e | e
      · rw [e]
      · have := hw.1 cls e
        rw [overlaps_of_makes hc hy] at this
        simp at this
    · have hc' : c.makes y = false := by simpa using hc
      rw [hc']
      rcases List.mem_cons.mp hm with e | e
      · rw [e] at hy; rw [hy] at hc'; simp at hc'
      · exact ih hw.2 e

theorem Registry.lookup_key {r : Registry} (hw : r.WF) {d : String} {cls : PluginClass}
    (h : r.lookup d = some cls) : r.lookup cls.provides = some cls :=
  Registry.lookup_output hw h cls.makes_provides

/-! ### fuel -/

theorem lineage_mono {r : Registry} {c : Config} {n : Nat} {d : String} {L : Lineage}
    (h : lineage r c n d = .ok L) : lineage r c (n + 1) d = .ok L := by
  induction n generalizing d L with
  | zero => simp [lineage_zero] at h
  | succ n ih =>
    obtain ⟨cls, pc, deps, h1, h2, h3, h4, h5⟩ := lineage_succ_ok.mp h
    exact lineage_succ_ok.mpr ⟨cls, pc, deps, h1, h2, h3, mapE_ok_of_forall (fun x _ b hb => ih hb) h4, h5⟩

theorem lineage_mono_le {r : Registry} {c : Config} {n m : Nat} {d : String} {L : Lineage}
    (h : lineage r c n d = .ok L) (hm : n ≤ m) : lineage r c m d = .ok L := by
  induction hm with
  | refl => exact h
  | step _ ih => exact lineage_mono ih

/-- the result does not depend on how much fuel was spent -/
theorem lineage_det {r : Registry} {c : Config} {n m : Nat} {d : String} {L L' : Lineage}
    (h : lineage r c n d = .ok L) (h' : lineage r c m d = .ok L') : L = L' := by
  have a := lineage_mono_le h (Nat.le_max_left n m)
  have b := lineage_mono_le h' (Nat.le_max_right n m)
  rw [a] at b; exact Except.ok.inj b

/-! ### lineages are dicts -/

theorem lineage_nodupKeys {r : Registry} {c : Config} {n : Nat} {d : String} {L : Lineage}
    (h : lineage r c n d = .ok L) : NodupKeys L := by
  cases n with
  | zero => simp [lineage_zero] at h
  | succ n =>
    obtain ⟨cls, pc, deps, _, _, _, _, h5⟩ := lineage_succ_ok.mp h
    rw [h5]; exact mergeLineage_nodup (ownEntry_nodup cls pc) deps

/-! ### the config matters only up to `hashablize` -/

theorem lineage_congr_cfg {r : Registry} {c c' : Config} (hc : CfgEq c c') (hn : NodupKeys c) (hn' : NodupKeys c')
    {n : Nat} {d : String} {L : Lineage} (h : lineage r c n d = .ok L) :
    ∃ L', lineage r c' n d = .ok L' ∧ LinEq L L' := by
  induction n generalizing d L with
  | zero => simp [lineage_zero] at h
  | succ n ih =>
    obtain ⟨cls, pc, deps, h1, h2, h3, h4, h5⟩ := lineage_succ_ok.mp h
    have hp := pluginConfig_congr cls hc
    rw [h3] at hp
    cases h3' : pluginConfig cls c' with
    | error e => rw [h3'] at hp; simp [RelE] at hp
    | ok pc' =>
      rw [h3'] at hp
      have hpe : CfgEq pc pc' := hp
      obtain ⟨deps', hd1, hd2⟩ := mapE_depsEq (g := lineage r c' n) (fun x _ Lx hx => by
        obtain ⟨Lx', a, b⟩ := ih hx
        exact ⟨Lx', a, b, lineage_nodupKeys hx, lineage_nodupKeys a⟩) h4
      refine ⟨mergeLineage (ownEntry cls pc') deps', lineage_succ_ok.mpr ⟨cls, pc', deps', h1, h2, h3', hd1, rfl⟩, ?_⟩
      rw [h5]
      exact mergeLineage_congr (ownEntry_linEq cls hpe (pluginConfig_nodup hn h3) (pluginConfig_nodup hn' h3')) hd2

/-- the order in which options were put into the context config does not matter -/
theorem lineage_config_perm {r : Registry} {c c' : Config} (hp : c.Perm c') (hn : NodupKeys c)
    {n : Nat} {d : String} {L : Lineage} (h : lineage r c n d = .ok L) :
    ∃ L', lineage r c' n d = .ok L' ∧ lineageCanon L = lineageCanon L' := by
  obtain ⟨L', h1, h2⟩ := lineage_congr_cfg (CfgEq.of_perm hp hn) hn (hn.perm hp) h
  exact ⟨L', h1, (lineageCanon_eq_iff (lineage_nodupKeys h) (lineage_nodupKeys h1)).mpr h2⟩

/-! ### registering more types changes no existing lineage -/

def Registry.Extends (r r' : Registry) : Prop := ∀ x cls, r.lookup x = some cls → r'.lookup x = some cls

theorem lineage_ext {r r' : Registry} (hr : r.Extends r') {c : Config} {n : Nat} {d : String} {L : Lineage}
    (h : lineage r c n d = .ok L) : lineage r' c n d = .ok L := by
  induction n generalizing d L with
  | zero => simp [lineage_zero] at h
  | succ n ih =>
    obtain ⟨cls, pc, deps, h1, h2, h3, h4, h5⟩ := lineage_succ_ok.mp h
    exact lineage_succ_ok.mpr ⟨cls, pc, deps, hr _ _ h1, h2, h3, mapE_ok_of_forall (fun x _ b hb => ih hb) h4, h5⟩

/-! ### fuel `|registry| + 1` is enough (pigeonhole on the set of classes whose lineage is defined) -/

/-- the lineage of (any output of) class `cls`, its dependencies resolved with fuel `n` -/
def lineageCls (r : Registry) (c : Config) (n : Nat) (cls : PluginClass) : Except Err Lineage :=
  if dupDeps cls.dependsOn then .error .valueError else
  match pluginConfig cls c with
  | .error e => .error e
  | .ok pc =>
    match mapE (lineage r c n) cls.dependsOn with
    | .error e => .error e
    | .ok deps => .ok (mergeLineage (ownEntry cls pc) deps)

theorem lineage_succ_cls (r : Registry) (c : Config) (n : Nat) (d : String) :
    lineage r c (n + 1) d = match r.lookup d with
      | none => .error .keyError
      | some cls => lineageCls r c n cls := rfl

def isOkE (x : Except Err Lineage) : Bool :=
  match x with
  | .ok _ => true
  | .error _ => false

theorem isOkE_iff {x : Except Err Lineage} : isOkE x = true ↔ ∃ L, x = .ok L := by
  cases x <;> simp [isOkE]

def okAt (r : Registry) (c : Config) (n : Nat) (x : String) : Bool := isOkE (lineage r c n x)
def okCls (r : Registry) (c : Config) (n : Nat) (cls : PluginClass) : Bool := isOkE (lineageCls r c n cls)

theorem okAt_iff {r : Registry} {c : Config} {n : Nat} {x : String} :
    okAt r c n x = true ↔ ∃ L, lineage r c n x = .ok L := isOkE_iff

theorem okAt_succ {r : Registry} {c : Config} {n : Nat} {x : String} :
    okAt r c (n + 1) x = true ↔ ∃ cls, r.lookup x = some cls ∧ okCls r c n cls = true := by
  unfold okAt okCls
  rw [lineage_succ_cls]
  cases r.lookup x with
  | none => simp [isOkE]
  | some cls => simp

theorem okCls_iff {r : Registry} {c : Config} {n : Nat} {cls : PluginClass} :
    okCls r c n cls = true ↔ dupDeps cls.dependsOn = false ∧ (∃ pc, pluginConfig cls c = .ok pc) ∧
      ∀ x ∈ cls.dependsOn, okAt r c n x = true := by
  unfold okCls lineageCls
  by_cases h2 : dupDeps cls.dependsOn = true
  · simp [h2, isOkE]
  · simp only [h2, Bool.false_eq_true, if_false]
    cases h3 : pluginConfig cls c with
    | error e => simp [isOkE]
    | ok pc =>
      simp only
      constructor
      · intro h
        cases h4 : mapE (lineage r c n) cls.dependsOn with
        | error e => simp [h4, isOkE] at h
        | ok deps =>
          refine ⟨by simpa using h2, ⟨pc, rfl⟩, fun x hx => ?_⟩
          obtain ⟨b, hb, _⟩ := mapE_ok_mem h4 x hx
          exact okAt_iff.mpr ⟨b, hb⟩
      · rintro ⟨_, _, h⟩
        obtain ⟨deps, hd⟩ := mapE_isOk_of_forall (f := lineage r c n) (l := cls.dependsOn)
          (fun x hx => okAt_iff.mp (h x hx))
        simp [hd, isOkE]

theorem okAt_mono {r : Registry} {c : Config} {n : Nat} {x : String} (h : okAt r c n x = true) :
    okAt r c (n + 1) x = true := by
  obtain ⟨L, hL⟩ := okAt_iff.mp h
  exact okAt_iff.mpr ⟨L, lineage_mono hL⟩

theorem okCls_mono {r : Registry} {c : Config} {n : Nat} {cls : PluginClass} (h : okCls r c n cls = true) :
    okCls r c (n + 1) cls = true := by
  rw [okCls_iff] at h ⊢
  exact ⟨h.1, h.2.1, fun x hx => okAt_mono (h.2.2 x hx)⟩

/-- no registered class becomes defined when going from fuel `k` to `k + 1` -/
def Stable (r : Registry) (c : Config) (k : Nat) : Prop :=
  ∀ cls ∈ r, okCls r c (k + 1) cls = true → okCls r c k cls = true

theorem stable_all {r : Registry} {c : Config} {k : Nat} (hs : Stable r c k) (x : String)
    (h : okAt r c (k + 2) x = true) : okAt r c (k + 1) x = true := by
  obtain ⟨cls, h1, h2⟩ := okAt_succ.mp h
  exact okAt_succ.mpr ⟨cls, h1, hs cls (Registry.lookup_mem h1).2 h2⟩

theorem stable_succ {r : Registry} {c : Config} {k : Nat} (hs : Stable r c k) : Stable r c (k + 1) := by
  intro cls _ h
  rw [okCls_iff] at h ⊢
  exact ⟨h.1, h.2.1, fun x hx => stable_all hs x (h.2.2 x hx)⟩

theorem stable_le {r : Registry} {c : Config} {k m : Nat} (hs : Stable r c k) (hm : k ≤ m) : Stable r c m := by
  induction hm with
  | refl => exact hs
  | step _ ih => exact stable_succ ih

theorem okAt_of_stable {r : Registry} {c : Config} {k n : Nat} (hs : Stable r c k) (x : String)
    (h : okAt r c n x = true) : okAt r c (k + 1) x = true := by
  induction n with
  | zero => simp [okAt, lineage_zero, isOkE] at h
  | succ n ih =>
    by_cases hn : n < k + 1
    · obtain ⟨L, hL⟩ := okAt_iff.mp h
      exact okAt_iff.mpr ⟨L, lineage_mono_le hL (by omega)⟩
    · have : ∃ j, n = j + 1 ∧ k ≤ j := ⟨n - 1, by omega, by omega⟩
      obtain ⟨j, hj, hkj⟩ := this
      subst hj
      exact ih (stable_all (stable_le hs hkj) x h)

def okCount (r : Registry) (c : Config) (k : Nat) : Nat := (r.filter fun cls => okCls r c k cls).length

theorem filter_length_lt {l : List α} {p q : α → Bool} (hpq : ∀ a ∈ l, p a = true → q a = true)
    (hex : ∃ a ∈ l, q a = true ∧ p a = false) : (l.filter p).length < (l.filter q).length := by
  induction l with
  | nil => obtain ⟨a, ha, _⟩ := hex; simp at ha
  | cons b l ih =>
    have hle : (l.filter p).length ≤ (l.filter q).length := by
      clear ih hex
      induction l with
      | nil => simp
      | cons x l ih' =>
        have hx := hpq x (by simp)
        have := ih' (fun a ha => hpq a (by
          rcases List.mem_cons.mp ha with e | e
          · simp [e]
          · simp [e]))
        simp only [List.filter_cons]
        cases hp : p x <;> cases hq : q x <;> simp [hp, hq] at hx ⊢ <;> omega
    obtain ⟨a, ha, hqa, hpa⟩ := hex
    simp only [List.filter_cons]
    rcases List.mem_cons.mp ha with e | e
    · subst e
      simp [hqa, hpa]; omega
    · have := ih (fun a ha => hpq a (List.mem_cons_of_mem _ ha)) ⟨a, e, hqa, hpa⟩
      have hb := hpq b (List.mem_cons_self ..)
      cases hp : p b <;> cases hq : q b <;> simp [hp, hq] at hb ⊢ <;> omega

theorem okCount_lt_of_unstable {r : Registry} {c : Config} {k : Nat} (h : ¬ Stable r c k) :
    okCount r c k < okCount r c (k + 1) := by
  unfold Stable at h
  have : ∃ cls ∈ r, okCls r c (k + 1) cls = true ∧ okCls r c k cls = false := by
    apply Classical.byContradiction
    intro hn
    apply h
    intro cls hm h1
    cases h2 : okCls r c k cls with
    | true => rfl
    | false => exact absurd ⟨cls, hm, h1, h2⟩ hn
  exact filter_length_lt (fun a _ ha => okCls_mono ha) this

theorem exists_stable (r : Registry) (c : Config) : ∃ k, k ≤ r.length ∧ Stable r c k := by
  apply Classical.byContradiction
  intro hn
  have hall : ∀ k, k ≤ r.length → ¬ Stable r c k := fun k hk hs => hn ⟨k, hk, hs⟩
  have hcount : ∀ k, k ≤ r.length + 1 → k ≤ okCount r c k := by
    intro k
    induction k with
    | zero => intro _; omega
    | succ k ih =>
      intro hk
      have := okCount_lt_of_unstable (hall k (by omega))
      have := ih (by omega)
      omega
  have h1 := hcount (r.length + 1) (by omega)
  have h2 : okCount r c (r.length + 1) ≤ r.length := List.length_filter_le _ _
  omega

/-- if a lineage is defined at all, the fuel the model uses (`fuelOf r = |r| + 1`) finds it -/
theorem lineage_fuel {r : Registry} {c : Config} {n : Nat} {d : String} {L : Lineage}
    (h : lineage r c n d = .ok L) : lineage r c (fuelOf r) d = .ok L := by
  obtain ⟨k, hk, hs⟩ := exists_stable r c
  have h1 := okAt_of_stable hs d (okAt_iff.mpr ⟨L, h⟩)
  obtain ⟨L', hL'⟩ := okAt_iff.mp h1
  have h2 : lineage r c (fuelOf r) d = .ok L' := lineage_mono_le hL' (by unfold fuelOf; omega)
  rw [h2, lineage_det hL' h]

/-! ### the entries of a lineage: one per ancestor, each determined by that ancestor alone -/

/-- the keys of a lineage: the lineage key (`provides[-1]`) of the plugin of `d` and of every
plugin it (transitively) depends on -/
def ancestors (r : Registry) : Nat → String → List String
  | 0, _ => []
  | n + 1, d => match r.lookup d with
      | some cls => cls.provides :: cls.dependsOn.flatMap (ancestors r n)
      | none => []

/-- the data types whose registration a lineage of `d` looks at -/
def visited (r : Registry) : Nat → String → List String
  | 0, _ => []
  | n + 1, d => d :: (match r.lookup d with
      | some cls => cls.dependsOn.flatMap (visited r n)
      | none => [])

/-- the lineage entry of data type `a` taken by itself: providing class, version, tracked config -/
def ownEntryOf (r : Registry) (c : Config) (a : String) : Option Entry :=
  match r.lookup a with
  | none => none
  | some cls =>
    match pluginConfig cls c with
    | .ok pc => some ⟨cls.name, cls.version, entryConfig cls pc⟩
    | .error _ => none

theorem lookup_mergeLineage_const {a : String} {v₀ : Option Entry} {own : Lineage} {deps : List Lineage}
    (hown : own.lookup a = none ∨ own.lookup a = v₀)
    (hdeps : ∀ d ∈ deps, (d.lookup a = none ∨ d.lookup a = v₀) ∧ NodupKeys d) :
    (mergeLineage own deps).lookup a =
      if (own.lookup a).isSome ∨ ∃ d ∈ deps, (d.lookup a).isSome then v₀ else none := by
  induction deps generalizing own with
  | nil =>
    simp only [mergeLineage, List.foldl_nil, List.not_mem_nil, false_and, exists_false, or_false]
    rcases hown with h | h
    · simp [h]
    · cases hv : own.lookup a with
      | none => simp
      | some v => simp [← h, hv]
  | cons d ds ih =>
    rw [mergeLineage_cons]
    have hd := hdeps d (List.mem_cons_self ..)
    have hl := lookup_dictUpdate own d hd.2 a
    rw [ih (own := dictUpdate own d) (by
        rw [hl]
        cases e : d.lookup a with
        | none => simpa using hown
        | some v => rcases hd.1 with h | h
                    · simp [e] at h
                    · right; simp [← h, e])
      (fun x hx => hdeps x (List.mem_cons_of_mem _ hx))]
    have : ((dictUpdate own d).lookup a).isSome = ((d.lookup a).isSome || (own.lookup a).isSome) := by
      rw [hl]; cases d.lookup a <;> simp
    simp only [this, List.mem_cons, exists_eq_or_imp, Bool.or_eq_true]
    congr 1
    apply propext
    constructor
    · rintro ((h | h) | h)
      · exact Or.inr (Or.inl h)
      · exact Or.inl h
      · exact Or.inr (Or.inr h)
    · rintro (h | h | h)
      · exact Or.inl (Or.inr h)
      · exact Or.inl (Or.inl h)
      · exact Or.inr h

theorem mem_ancestors_succ {r : Registry} {n : Nat} {d a : String} {cls : PluginClass} (h : r.lookup d = some cls) :
    a ∈ ancestors r (n + 1) d ↔ a = cls.provides ∨ ∃ x ∈ cls.dependsOn, a ∈ ancestors r n x := by
  simp [ancestors, h]

theorem mem_visited_succ {r : Registry} {n : Nat} {d a : String} {cls : PluginClass} (h : r.lookup d = some cls) :
    a ∈ visited r (n + 1) d ↔ a = d ∨ ∃ x ∈ cls.dependsOn, a ∈ visited r n x := by
  simp [visited, h]

/-- every entry of a lineage is the entry its data type would get on its own -/
theorem lineage_lookup {r : Registry} (hw : r.WF) {c : Config} {n : Nat} {d : String} {L : Lineage}
    (h : lineage r c n d = .ok L) (a : String) :
    L.lookup a = if a ∈ ancestors r n d then ownEntryOf r c a else none := by
  induction n generalizing d L with
  | zero => simp [lineage_zero] at h
  | succ n ih =>
    obtain ⟨cls, pc, deps, h1, h2, h3, h4, h5⟩ := lineage_succ_ok.mp h
    have hkey := Registry.lookup_key hw h1
    have hself : ownEntryOf r c cls.provides = some ⟨cls.name, cls.version, entryConfig cls pc⟩ := by
      simp [ownEntryOf, hkey, h3]
    have hown : (ownEntry cls pc).lookup a = if a = cls.provides then ownEntryOf r c a else none := by
      simp only [ownEntry, lookup_cons', List.lookup_nil]
      by_cases e : a = cls.provides
      · simp [e, hself]
      · simp [e]
    have hdep : ∀ Lx ∈ deps, ∃ x ∈ cls.dependsOn,
        Lx.lookup a = (if a ∈ ancestors r n x then ownEntryOf r c a else none) ∧ NodupKeys Lx := by
      intro Lx hLx
      obtain ⟨x, hx, hb⟩ := mapE_ok_mem' h4 Lx hLx
      exact ⟨x, hx, ih hb, lineage_nodupKeys hb⟩
    rw [h5, lookup_mergeLineage_const (v₀ := ownEntryOf r c a)]
    · cases hv : ownEntryOf r c a with
      | none => simp
      | some v =>
        have hiff : ((List.lookup a (ownEntry cls pc)).isSome = true ∨
            ∃ Lx, Lx ∈ deps ∧ (List.lookup a Lx).isSome = true) ↔ a ∈ ancestors r (n + 1) d := by
          rw [mem_ancestors_succ h1]
          constructor
          · rintro (hh | ⟨Lx, hLx, hs⟩)
            · rw [hown] at hh
              by_cases e : a = cls.provides
              · exact Or.inl e
              · simp [e] at hh
            · obtain ⟨x, hx, hl, _⟩ := hdep Lx hLx
              rw [hl] at hs
              by_cases e : a ∈ ancestors r n x
              · exact Or.inr ⟨x, hx, e⟩
              · simp [e] at hs
          · rintro (e | ⟨x, hx, hm⟩)
            · left; rw [hown, if_pos e, hv]; rfl
            · right
              obtain ⟨Lx, hb, hLx⟩ := mapE_ok_mem h4 x hx
              exact ⟨Lx, hLx, by rw [ih hb]; simp [hm, hv]⟩
        by_cases hq : a ∈ ancestors r (n + 1) d
        · rw [if_pos hq, if_pos (hiff.mpr hq)]
        · rw [if_neg hq, if_neg (fun hh => hq (hiff.mp hh))]
    · rw [hown]; by_cases e : a = cls.provides <;> simp [e]
    · intro Lx hLx
      obtain ⟨x, _, hl, hn⟩ := hdep Lx hLx
      refine ⟨?_, hn⟩
      rw [hl]; by_cases e : a ∈ ancestors r n x <;> simp [e]

/-- a type that occurs in a defined lineage has an entry of its own -/
theorem ownEntryOf_isSome_of_mem {r : Registry} (hw : r.WF) {c : Config} {n : Nat} {d : String} {L : Lineage}
    (h : lineage r c n d = .ok L) {a : String} (ha : a ∈ ancestors r n d) : (ownEntryOf r c a).isSome := by
  induction n generalizing d L with
  | zero => simp [lineage_zero] at h
  | succ n ih =>
    obtain ⟨cls, pc, deps, h1, h2, h3, h4, h5⟩ := lineage_succ_ok.mp h
    rcases (mem_ancestors_succ h1).mp ha with e | ⟨x, hx, hm⟩
    · subst e; simp [ownEntryOf, Registry.lookup_key hw h1, h3]
    · obtain ⟨Lx, hb, _⟩ := mapE_ok_mem h4 x hx
      exact ih hb hm

end Strax.Lineage
