import StraxModel.Lemmas.PulseLinks
/-
  Translation invariance in record time (theory T14, property C18): shifting every record time by `T` shifts the hit
  times and leaves the links unchanged.  The model uses unbounded `Int`, so this is what licenses running the
  correspondence at nanosecond-epoch times.  Core Lean only.
-/
namespace Strax.Pulse

/-! ### translation in record time -/

/-- the record with its time shifted by `T` -/
def Record.shift (T : Int) (r : Record) : Record := { r with time := r.time + T }

/-- a hit with `time` and `max_time` shifted by `T` -/
def Hit.shift (T : Int) (h : Hit) : Hit := { h with time := h.time + T, maxTime := h.maxTime + T }

theorem mkHit_shift (T : Int) (r : Record) (ri : Nat) (thr : Q) (s e : Nat) (a h m : Int) :
    mkHit (r.shift T) ri thr s e a h (m + T) = (mkHit r ri thr s e a h m).shift T := by
  simp only [mkHit, Record.shift, Hit.shift]
  congr 1
  omega

/-- the sample loop commutes with a shift of the record time (the carried `max_time` shifted along) -/
theorem scanRec_shift (T : Int) (r : Record) (ri : Nat) (thr : Q) (xs : List Int) : ∀ (i : Nat) (st : ScanSt),
    scanRec (r.shift T) ri thr xs i { st with maxTime := st.maxTime + T } =
      ((scanRec r ri thr xs i st).1.map (Hit.shift T), (scanRec r ri thr xs i st).2 + T) := by
  induction xs with
  | nil => intro i st; simp [scanRec]
  | cons x rest ih =>
    intro i st
    obtain ⟨start, area, height, mt⟩ := st
    have ht : ∀ (c : Prop) [Decidable c] (m : Int), (if c then (r.shift T).time + (i : Int) * (r.shift T).dt else m + T)
        = (if c then r.time + (i : Int) * r.dt else m) + T := by
      intro c _ m; split <;> simp [Record.shift] <;> omega
    cases hx : thr.leInt x <;> cases start <;>
      simp only [scanRec, hx, Option.isNone_none, Option.isNone_some, Bool.and_false, Bool.and_self, Bool.false_and,
        Bool.false_eq_true, ↓reduceIte, Bool.not_false, Bool.not_true]
    · exact ih (i + 1) ⟨none, area, height, mt⟩
    · have := ih (i + 1) ⟨none, 0, 0, mt⟩
      simp only at this
      rw [this, mkHit_shift]
      simp
    · rw [ht, ht]
      split
      · have := ih (i + 1) ⟨none, 0, 0, if x > max x height then r.time + (i : Int) * r.dt else if x > height then r.time + (i : Int) * r.dt else mt⟩
        simp only at this
        rw [this, mkHit_shift]
        simp
      · exact ih (i + 1) ⟨some i, area + x, max x (max x height), _⟩
    · rw [ht]
      split
      · have := ih (i + 1) ⟨none, 0, 0, if x > height then r.time + (i : Int) * r.dt else mt⟩
        simp only at this
        rw [this, mkHit_shift]
        simp
      · exact ih (i + 1) ⟨_, area + x, max x height, _⟩

theorem threshold_shift (T : Int) (a h : List Q) (r : Record) : threshold a h (r.shift T) = threshold a h r := rfl

theorem findHitsLoop_shift (T : Int) (a h : List Q) : ∀ (rs : List Record) (ri : Nat) (mt : Int),
    findHitsLoop a h (rs.map (Record.shift T)) ri (mt + T) =
      match findHitsLoop a h rs ri mt with
      | .ok hs => .ok (hs.map (Hit.shift T))
      | .error e => .error e := by
  intro rs
  induction rs with
  | nil => intro ri mt; simp [findHitsLoop]
  | cons r rs ih =>
    intro ri mt
    simp only [List.map_cons, findHitsLoop, recHits, threshold_shift]
    cases hthr : threshold a h r with
    | error e => simp
    | ok thr =>
      simp only
      simp only [show (r.shift T).length = r.length from rfl, show (r.shift T).data = r.data from rfl,
        show (r.shift T).samples = r.samples from rfl]
      by_cases hl : r.length > r.data.length
      · simp [hl]
      · simp only [hl, ↓reduceIte]
        have := scanRec_shift T r ri thr r.samples 0 ⟨none, 0, 0, mt⟩
        simp only at this
        rw [this]
        simp only
        rw [ih (ri + 1) _]
        cases findHitsLoop a h rs (ri + 1) (scanRec r ri thr r.samples 0 ⟨none, 0, 0, mt⟩).2 with
        | error e => simp
        | ok more => simp

theorem lastIn_shift (T : Int) (rs : List Record) (c : Int) (k j : Nat) :
    LastIn (rs.map (Record.shift T)) c k j ↔ LastIn rs c k j := by
  unfold LastIn
  simp only [List.getElem?_map]
  constructor
  · rintro ⟨h1, ⟨a, ha, hc⟩, h3⟩
    refine ⟨h1, ?_, ?_⟩
    · cases hj : rs[j]? with
      | none => simp [hj] at ha
      | some a0 => simp only [hj, Option.map_some, Option.some.injEq] at ha; subst ha; exact ⟨a0, rfl, hc⟩
    · intro j' b hj1 hj2 hb
      exact h3 j' (b.shift T) hj1 hj2 (by simp [hb])
  · rintro ⟨h1, ⟨a, ha, hc⟩, h3⟩
    refine ⟨h1, ⟨a.shift T, by simp [ha], hc⟩, ?_⟩
    intro j' b hj1 hj2 hb
    cases hj : rs[j']? with
    | none => simp [hj] at hb
    | some b0 => simp only [hj, Option.map_some, Option.some.injEq] at hb; subst hb; exact h3 j' b0 hj1 hj2 hj

/-- every continuing fragment is preceded by a record of its channel (no cut-away predecessors at the start of a channel) -/
def NoOrphans (rs : List Record) : Prop :=
  ∀ (i : Nat) (b : Record), rs[i]? = some b → b.recordI ≠ 0 → ∃ (j : Nat) (a : Record), j < i ∧ rs[j]? = some a ∧ a.channel = b.channel

/-- `record_links` does not depend on the origin of the time axis (when no continuing fragment opens a channel) -/
theorem recordLinks_shift (T : Int) (rs : List Record) (hno : NoOrphans rs) :
    recordLinks (rs.map (Record.shift T)) = recordLinks rs := by
  have hspr : samplesPerRecord (rs.map (Record.shift T)) = samplesPerRecord rs := by cases rs <;> rfl
  have hany : (rs.map (Record.shift T)).any (fun r => decide (r.channel < 0)) = rs.any (fun r => decide (r.channel < 0)) := by
    rw [List.any_map]; rfl
  have hdec : linkDecisions (samplesPerRecord rs) (rs.map (Record.shift T)) 0 LinkSt.init
      = linkDecisions (samplesPerRecord rs) rs 0 LinkSt.init := by
    apply List.ext_getElem?
    intro k
    rw [linkDecisions_get0, linkDecisions_get0, List.getElem?_map]
    cases hb : rs[k]? with
    | none => simp
    | some b =>
      simp only [Option.map_some, Option.some.injEq]
      have hk : k < rs.length := by
        rcases Nat.lt_or_ge k rs.length with h | h
        · exact h
        · simp [List.getElem?_eq_none h] at hb
      unfold linkDecision
      by_cases hri : b.recordI = 0
      · simp [Record.shift, hri]
      · have hri' : ¬ (b.shift T).recordI = 0 := hri
        simp only [hri, hri', ↓reduceIte]
        obtain ⟨j0, a0, hj0, ha0, hc0⟩ := hno k b hb hri
        have inv := stateAt_inv (samplesPerRecord rs) rs k (by omega) b.channel
        have inv' := stateAt_inv (samplesPerRecord rs) (rs.map (Record.shift T)) k (by simp; omega) b.channel
        rcases inv with ⟨-, -, h3⟩ | ⟨j, a, hl, ha, h1, h2⟩
        · exact absurd hc0 (h3 j0 a0 hj0 ha0)
        · rcases inv' with ⟨-, -, h3'⟩ | ⟨j', a', hl', ha', h1', h2'⟩
          · exact absurd hc0 (h3' j0 (a0.shift T) hj0 (by simp [ha0]))
          · have hjj : j' = j := ((lastIn_shift T rs b.channel k j').1 hl').unique hl
            subst hjj
            simp only [List.getElem?_map, ha, Option.map_some, Option.some.injEq] at ha'
            subst ha'
            have hc : (b.shift T).channel = b.channel := rfl
            have e1 : (b.shift T).time = b.time + T := rfl
            have e2 : (a.shift T).time = a.time + T := rfl
            have e3 : (a.shift T).dt = a.dt := rfl
            rw [hc, h1, h2, h1', h2', e1, e2, e3]
            by_cases ht : b.time = a.time + (samplesPerRecord rs : Int) * a.dt
            · have ht' : b.time + T = a.time + T + (samplesPerRecord rs : Int) * a.dt := by omega
              rw [if_pos ht, if_pos ht']
            · have ht' : ¬ b.time + T = a.time + T + (samplesPerRecord rs : Int) * a.dt := by omega
              rw [if_neg ht, if_neg ht']
  unfold recordLinks
  rw [hany, hspr, hdec]
  simp

theorem wf_noOrphans {rs : List Record} (h : wellFormedPulses rs = true) : NoOrphans rs := by
  obtain ⟨-, hwf⟩ := wellFormedPulses_spec h
  intro i b hb hri
  obtain ⟨-, -, -, hcase⟩ := hwf i b hb
  rcases hcase with ⟨h0, -⟩ | ⟨-, j, a, ⟨l1, ⟨a1, ha1, hc1⟩, -⟩, ha, -⟩
  · exact absurd h0 hri
  · exact ⟨j, a1, l1, ha1, hc1⟩

end Strax.Pulse
