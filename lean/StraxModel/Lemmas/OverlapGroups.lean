import StraxModel.Lemmas.Overlap
/-
  Helper lemmas for property C09, part 4: a group-forming computation — gap grouping (`fGap`).

  §1  the groups: `gapGroups g L` is THE partition of `L` into non-empty runs that are tight
      (consecutive gaps ≤ g) and separated (gap > g between runs)
  §2  `fGap` is additive over a separated cut, and what its rows look like
  §3  the step of the overlap-window plugin for `fGap`, on good chunks
  §4  the run: concatenated output = `fGap` over the whole run
-/
namespace Strax.Overlap
open Strax

/-! ## §1 groups -/

/-- every row starts at most `g` after its predecessor ends -/
def Tight (g : Int) : List Row → Prop
  | a :: b :: rest => b.time - a.endt ≤ g ∧ Tight g (b :: rest)
  | _ => True

/-- the first row of `B` starts more than `g` after the last row of `A` ends (nothing is said if
one of them is empty) -/
def GapOK (g : Int) (A B : List Row) : Prop :=
  ∀ a b, A.getLast? = some a → B.head? = some b → g < b.time - a.endt

/-- a list of groups: non-empty, tight, separated from what follows -/
def ValidG (g : Int) : List (List Row) → Prop
  | [] => True
  | grp :: gs => grp ≠ [] ∧ Tight g grp ∧ GapOK g grp gs.flatten ∧ ValidG g gs

theorem gapGroups_cons (g : Int) (r : Row) (rest : List Row) :
    gapGroups g (r :: rest) =
      match gapGroups g rest with
      | (n :: grp) :: gs => if n.time - r.endt ≤ g then (r :: n :: grp) :: gs else [r] :: (n :: grp) :: gs
      | gs => [r] :: gs := rfl

/-- shape of `gapGroups`: nothing for nothing; otherwise the first group starts with the first row -/
theorem gapGroups_head (g : Int) : ∀ (L : List Row),
    (L = [] → gapGroups g L = []) ∧
    (∀ r rest, L = r :: rest → ∃ grp gs, gapGroups g L = (r :: grp) :: gs) := by
  intro L
  induction L with
  | nil =>
    refine ⟨fun _ => rfl, ?_⟩
    intro r rest h
    cases h
  | cons r rest ih =>
    refine ⟨fun h => (by cases h), ?_⟩
    intro r' rest' h
    cases h
    rw [gapGroups_cons]
    cases rest with
    | nil => exact ⟨[], [], rfl⟩
    | cons n more =>
      obtain ⟨grp, gs, hg⟩ := ih.2 n more rfl
      rw [hg]
      simp only
      split
      · exact ⟨n :: grp, gs, rfl⟩
      · exact ⟨[], (n :: grp) :: gs, rfl⟩

theorem gapGroups_flatten (g : Int) : ∀ (L : List Row), (gapGroups g L).flatten = L := by
  intro L
  induction L with
  | nil => rfl
  | cons r rest ih =>
    rw [gapGroups_cons]
    cases rest with
    | nil => rfl
    | cons n more =>
      obtain ⟨grp, gs, hg⟩ := (gapGroups_head g (n :: more)).2 n more rfl
      rw [hg] at ih ⊢
      simp only
      split
      · simp only [List.flatten_cons, List.cons_append] at ih ⊢; rw [ih]
      · simp only [List.flatten_cons, List.cons_append, List.nil_append] at ih ⊢; rw [ih]

theorem gapOK_nil_right (g : Int) (A : List Row) : GapOK g A [] := by
  intro a b _ hb; simp at hb

theorem gapOK_nil_left (g : Int) (B : List Row) : GapOK g [] B := by
  intro a b ha _; simp at ha

theorem gapGroups_valid (g : Int) : ∀ (L : List Row), ValidG g (gapGroups g L) := by
  intro L
  induction L with
  | nil => trivial
  | cons r rest ih =>
    rw [gapGroups_cons]
    cases rest with
    | nil => exact ⟨by simp, trivial, gapOK_nil_right _ _, trivial⟩
    | cons n more =>
      obtain ⟨grp, gs, hg⟩ := (gapGroups_head g (n :: more)).2 n more rfl
      rw [hg] at ih ⊢
      obtain ⟨h1, h2, h3, h4⟩ := ih
      simp only
      split
      · rename_i hle
        refine ⟨by simp, ⟨hle, h2⟩, ?_, h4⟩
        intro a b ha hb
        exact h3 a b (by simpa [List.getLast?_cons_cons] using ha) hb
      · rename_i hgt
        refine ⟨by simp, trivial, ?_, h1, h2, h3, h4⟩
        intro a b ha hb
        simp only [List.getLast?_singleton, Option.some.injEq] at ha
        simp only [List.flatten_cons, List.cons_append, List.head?_cons, Option.some.injEq] at hb
        subst ha hb
        omega

/-- a valid list of groups is what `gapGroups` finds in its concatenation -/
theorem gapGroups_of_valid (g : Int) : ∀ (GL : List (List Row)), ValidG g GL → gapGroups g GL.flatten = GL := by
  intro GL
  induction GL with
  | nil => intro _; rfl
  | cons grp gs ih =>
    intro hv
    obtain ⟨hne, htight, hgap, hvs⟩ := hv
    have ihs := ih hvs
    -- inner induction over the group
    suffices h : ∀ (grp : List Row), grp ≠ [] → Tight g grp → GapOK g grp gs.flatten →
        gapGroups g (grp ++ gs.flatten) = grp :: gs by
      simpa using h grp hne htight hgap
    intro grp
    induction grp with
    | nil => intro h; exact absurd rfl h
    | cons r more ihg =>
      intro _ ht hg
      cases more with
      | nil =>
        simp only [List.cons_append, List.nil_append]
        rw [gapGroups_cons, ihs]
        cases gs with
        | nil => rfl
        | cons g1 gs' =>
          obtain ⟨hne1, -⟩ := hvs
          cases g1 with
          | nil => exact absurd rfl hne1
          | cons n grp' =>
            simp only
            have := hg r n (by simp) (by simp)
            rw [if_neg (by omega)]
      | cons r2 more' =>
        have hrec := ihg (by simp) ht.2 (by
          intro a b ha hb
          exact hg a b (by simpa [List.getLast?_cons_cons] using ha) hb)
        simp only [List.cons_append] at hrec ⊢
        rw [gapGroups_cons, hrec]
        simp only
        rw [if_pos ht.1]

theorem getLast?_flatten_append {A B : List (List Row)} (hB : B ≠ []) (hne : ∀ x ∈ B, x ≠ []) :
    (A ++ B).flatten.getLast? = B.flatten.getLast? := by
  rw [List.flatten_append]
  have hf : B.flatten ≠ [] := by
    obtain ⟨x, hx⟩ := List.exists_mem_of_ne_nil B hB
    intro h
    have := List.flatten_eq_nil_iff.1 h x hx
    exact hne x hx this
  rw [List.getLast?_append]
  cases hl : B.flatten.getLast? with
  | none => exact absurd (List.getLast?_eq_none_iff.1 hl) hf
  | some x => rfl

theorem validG_nonempty {g : Int} : ∀ {GL : List (List Row)}, ValidG g GL → ∀ x ∈ GL, x ≠ [] := by
  intro GL
  induction GL with
  | nil => intro _ x hx; simp at hx
  | cons grp gs ih =>
    intro hv x hx
    rcases List.mem_cons.1 hx with rfl | hx
    · exact hv.1
    · exact ih hv.2.2.2 x hx

theorem validG_split {g : Int} : ∀ {G1 G2 : List (List Row)}, ValidG g (G1 ++ G2) →
    ValidG g G1 ∧ ValidG g G2 ∧ GapOK g G1.flatten G2.flatten := by
  intro G1
  induction G1 with
  | nil => intro G2 h; exact ⟨trivial, h, gapOK_nil_left _ _⟩
  | cons grp gs ih =>
    intro G2 h
    obtain ⟨h1, h2, h3, h4⟩ := h
    change GapOK g grp (gs ++ G2).flatten at h3
    change ValidG g (gs ++ G2) at h4
    obtain ⟨i1, i2, i3⟩ := ih h4
    refine ⟨⟨h1, h2, ?_, i1⟩, i2, ?_⟩
    · intro a b ha hb
      apply h3 a b ha
      rw [List.flatten_append]
      cases hgs : gs.flatten with
      | nil => rw [hgs] at hb; simp at hb
      | cons x xs => rw [hgs] at hb; simpa using hb
    · intro a b ha hb
      by_cases hgs : gs = []
      · subst hgs
        simp only [List.flatten_cons, List.flatten_nil, List.append_nil] at ha
        exact h3 a b ha (by simpa using hb)
      · apply i3 a b _ hb
        have hne := validG_nonempty i1
        have := getLast?_flatten_append (A := [grp]) hgs hne
        simp only [List.singleton_append] at this
        rw [← this]; exact ha

theorem validG_append {g : Int} : ∀ {G1 G2 : List (List Row)}, ValidG g G1 → ValidG g G2 →
    GapOK g G1.flatten G2.flatten → ValidG g (G1 ++ G2) := by
  intro G1
  induction G1 with
  | nil => intro G2 _ h2 _; exact h2
  | cons grp gs ih =>
    intro G2 h1 h2 hg
    obtain ⟨a1, a2, a3, a4⟩ := h1
    refine ⟨a1, a2, ?_, ih a4 h2 ?_⟩
    · intro a b ha hb
      change (gs ++ G2).flatten.head? = some b at hb
      rw [List.flatten_append] at hb
      cases hgs : gs.flatten with
      | nil =>
        rw [hgs] at hb
        apply hg a b _ (by simpa using hb)
        simp only [List.flatten_cons, hgs, List.append_nil]; exact ha
      | cons x xs =>
        rw [hgs] at hb
        exact a3 a b ha (by rw [hgs]; simpa using hb)
    · intro a b ha hb
      apply hg a b _ hb
      by_cases hgs : gs = []
      · subst hgs; simp at ha
      · have hne := validG_nonempty a4
        have := getLast?_flatten_append (A := [grp]) hgs hne
        simp only [List.singleton_append] at this
        rw [this]; exact ha

/-! ## §2 `fGap` over a separated cut -/

theorem gapGroups_append {g : Int} {A B : List Row} (h : GapOK g A B) :
    gapGroups g (A ++ B) = gapGroups g A ++ gapGroups g B := by
  have hv := validG_append (gapGroups_valid g A) (gapGroups_valid g B)
    (by rw [gapGroups_flatten, gapGroups_flatten]; exact h)
  have := gapGroups_of_valid g _ hv
  rw [List.flatten_append, gapGroups_flatten, gapGroups_flatten] at this
  exact this

theorem fGap_append {g : Int} {A B : List Row} (h : GapOK g A B) : fGap g (A ++ B) = fGap g A ++ fGap g B := by
  simp only [fGap, gapGroups_append h, List.map_append]

theorem foldl_max_ge (rest : List Row) (acc : Int) :
    acc ≤ rest.foldl (fun m x => max m x.endt) acc ∧ ∀ x ∈ rest, x.endt ≤ rest.foldl (fun m x => max m x.endt) acc := by
  induction rest generalizing acc with
  | nil => simp
  | cons r rest ih =>
    simp only [List.foldl_cons]
    obtain ⟨h1, h2⟩ := ih (max acc r.endt)
    refine ⟨by omega, ?_⟩
    intro x hx
    rcases List.mem_cons.1 hx with rfl | hx
    · omega
    · exact h2 x hx

theorem foldl_max_le (rest : List Row) (acc hi : Int) (ha : acc ≤ hi) (h : ∀ x ∈ rest, x.endt ≤ hi) :
    rest.foldl (fun m x => max m x.endt) acc ≤ hi := by
  induction rest generalizing acc with
  | nil => simpa using ha
  | cons r rest ih =>
    simp only [List.foldl_cons]
    apply ih
    · have := h r (by simp); omega
    · intro x hx; exact h x (by simp [hx])

theorem summarize_cons (r : Row) (rest : List Row) :
    (summarize (r :: rest)).time = r.time ∧ r.endt ≤ (summarize (r :: rest)).endt ∧
      (∀ x ∈ r :: rest, x.endt ≤ (summarize (r :: rest)).endt) ∧
      (∀ hi, (∀ x ∈ r :: rest, x.endt ≤ hi) → (summarize (r :: rest)).endt ≤ hi) := by
  obtain ⟨h1, h2⟩ := foldl_max_ge rest r.endt
  refine ⟨rfl, h1, ?_, ?_⟩
  · intro x hx
    rcases List.mem_cons.1 hx with rfl | hx
    · exact h1
    · exact h2 x hx
  · intro hi h
    exact foldl_max_le rest r.endt hi (h r (by simp)) (fun x hx => h x (by simp [hx]))

theorem mem_group_mem {g : Int} {L grp : List Row} (hg : grp ∈ gapGroups g L) : ∀ x ∈ grp, x ∈ L := by
  intro x hx
  rw [← gapGroups_flatten g L]
  exact List.mem_flatten.2 ⟨grp, hg, hx⟩

theorem mem_fGap {g : Int} {L : List Row} {y : Row} (hy : y ∈ fGap g L) :
    ∃ r rest, (r :: rest) ∈ gapGroups g L ∧ y = summarize (r :: rest) ∧ ∀ x ∈ r :: rest, x ∈ L := by
  simp only [fGap, List.mem_map] at hy
  obtain ⟨grp, hg, rfl⟩ := hy
  have hne := validG_nonempty (gapGroups_valid g L) grp hg
  cases grp with
  | nil => exact absurd rfl hne
  | cons r rest => exact ⟨r, rest, hg, rfl, mem_group_mem hg⟩

theorem fGap_endt_le {g : Int} {L : List Row} {hi : Int} (h : ∀ x ∈ L, x.endt ≤ hi) : ∀ y ∈ fGap g L, y.endt ≤ hi := by
  intro y hy
  obtain ⟨r, rest, -, rfl, hm⟩ := mem_fGap hy
  exact (summarize_cons r rest).2.2.2 hi (fun x hx => h x (hm x hx))

theorem fGap_time_ge {g : Int} {L : List Row} {lo : Int} (h : ∀ x ∈ L, lo ≤ x.time) : ∀ y ∈ fGap g L, lo ≤ y.time := by
  intro y hy
  obtain ⟨r, rest, -, rfl, hm⟩ := mem_fGap hy
  rw [(summarize_cons r rest).1]
  exact h r (hm r (by simp))

theorem fGap_positive {g : Int} {L : List Row} (h : PositiveRows L) : PositiveRows (fGap g L) := by
  intro y hy
  obtain ⟨r, rest, -, rfl, hm⟩ := mem_fGap hy
  have := h r (hm r (by simp))
  have h1 := (summarize_cons r rest).1
  have h2 := (summarize_cons r rest).2.1
  omega

theorem fGap_sorted {g : Int} {L : List Row} (h : SortedByTime L) : SortedByTime (fGap g L) := by
  rw [sortedByTime_iff_pairwise] at h ⊢
  rw [← gapGroups_flatten g L, List.pairwise_flatten] at h
  simp only [fGap, List.pairwise_map]
  have hne := validG_nonempty (gapGroups_valid g L)
  refine (List.Pairwise.and_mem.1 h.2).imp ?_
  intro a b ⟨ha, hb, hab⟩
  have hane := hne a ha
  have hbne := hne b hb
  cases a with
  | nil => exact absurd rfl hane
  | cons r1 rest1 =>
    cases b with
    | nil => exact absurd rfl hbne
    | cons r2 rest2 =>
      rw [(summarize_cons r1 rest1).1, (summarize_cons r2 rest2).1]
      exact hab r1 (by simp) r2 (by simp)

/-- cutting the output of `fGap` cuts the input between two groups -/
theorem fGap_split {g : Int} {Q Ro Rc : List Row} (h : fGap g Q = Ro ++ Rc) :
    ∃ Qo Qc, Q = Qo ++ Qc ∧ Ro = fGap g Qo ∧ Rc = fGap g Qc ∧ GapOK g Qo Qc ∧
      (∀ r ∈ Qo, ∃ y ∈ Ro, r.endt ≤ y.endt) ∧
      (SortedByTime Q → ∀ r ∈ Qc, ∃ y ∈ Rc, y.time ≤ r.time) := by
  simp only [fGap] at h
  obtain ⟨G1, G2, hG, h1, h2⟩ := List.map_eq_append_iff.1 h
  have hv := gapGroups_valid g Q
  rw [hG] at hv
  obtain ⟨v1, v2, v3⟩ := validG_split hv
  have hQ : Q = G1.flatten ++ G2.flatten := by
    rw [← List.flatten_append, ← hG, gapGroups_flatten]
  refine ⟨G1.flatten, G2.flatten, hQ, ?_, ?_, v3, ?_, ?_⟩
  · simp only [fGap, gapGroups_of_valid g G1 v1]; exact h1.symm
  · simp only [fGap, gapGroups_of_valid g G2 v2]; exact h2.symm
  · intro r hr
    obtain ⟨grp, hg, hrg⟩ := List.mem_flatten.1 hr
    refine ⟨summarize grp, by rw [← h1]; exact List.mem_map.2 ⟨grp, hg, rfl⟩, ?_⟩
    cases grp with
    | nil => simp at hrg
    | cons r0 rest => exact (summarize_cons r0 rest).2.2.1 r hrg
  · intro hs r hr
    obtain ⟨grp, hg, hrg⟩ := List.mem_flatten.1 hr
    refine ⟨summarize grp, by rw [← h2]; exact List.mem_map.2 ⟨grp, hg, rfl⟩, ?_⟩
    cases grp with
    | nil => simp at hrg
    | cons r0 rest =>
      rw [(summarize_cons r0 rest).1]
      rcases List.mem_cons.1 hrg with rfl | hrest
      · exact Int.le_refl _
      · -- the group is a contiguous part of the sorted list
        rw [sortedByTime_iff_pairwise, hQ, List.pairwise_append] at hs
        have hp := hs.2.1
        rw [List.pairwise_flatten] at hp
        have := hp.1 (r0 :: rest) hg
        rw [List.pairwise_cons] at this
        exact this.1 r hrest

/-! ## §2b window-local group-forming computations -/

/-- `f` is a group-forming computation that is local within `w`: there is a notion of *cut* between a
list of rows and the rows that follow it — decided by the last row before and the first row after,
and granted whenever these two are more than `w` apart — such that `f` treats the two sides of a
cut independently (`additive`), every cut of `f`'s output between two of its rows comes from a cut
of the input (`split`: no output row, i.e. no group, straddles it), and the output rows stay within
the time bounds of the input rows, are of positive duration and sorted. -/
structure GroupLocal (f : List Row → List Row) (w : Int) where
  Cut : List Row → List Row → Prop
  congr : ∀ {A A' B B' : List Row}, A.getLast? = A'.getLast? → B.head? = B'.head? → Cut A B → Cut A' B'
  far : ∀ {A B : List Row}, GapOK w A B → Cut A B
  additive : ∀ {A B : List Row}, Cut A B → f (A ++ B) = f A ++ f B
  split : ∀ {Q Ro Rc : List Row}, f Q = Ro ++ Rc →
    ∃ Qo Qc, Q = Qo ++ Qc ∧ Ro = f Qo ∧ Rc = f Qc ∧ Cut Qo Qc ∧
      (∀ r ∈ Qo, ∃ y ∈ Ro, r.endt ≤ y.endt) ∧ (SortedByTime Q → ∀ r ∈ Qc, ∃ y ∈ Rc, y.time ≤ r.time)
  time_ge : ∀ {L : List Row} {lo : Int}, (∀ x ∈ L, lo ≤ x.time) → ∀ y ∈ f L, lo ≤ y.time
  endt_le : ∀ {L : List Row} {hi : Int}, (∀ x ∈ L, x.endt ≤ hi) → ∀ y ∈ f L, y.endt ≤ hi
  positive : ∀ {L : List Row}, PositiveRows L → PositiveRows (f L)
  sorted : ∀ {L : List Row}, SortedByTime L → SortedByTime (f L)

/-- gap grouping with gap `g` is local within `g` -/
def fGap_groupLocal (g : Int) : GroupLocal (fGap g) g where
  Cut := GapOK g
  congr := by
    intro A A' B B' h1 h2 h a b ha hb
    exact h a b (h1 ▸ ha) (h2 ▸ hb)
  far := fun h => h
  additive := fGap_append
  split := fGap_split
  time_ge := fGap_time_ge
  endt_le := fGap_endt_le
  positive := fGap_positive
  sorted := fGap_sorted

/-! ## §3 the step for a window-local group-forming computation -/

theorem getLast?_append_right {α : Type} {A B : List α} (hB : B ≠ []) : (A ++ B).getLast? = B.getLast? := by
  rw [List.getLast?_append]
  cases hl : B.getLast? with
  | none => exact absurd (List.getLast?_eq_none_iff.1 hl) hB
  | some x => rfl

/-- One call for a group-forming `f`, local within `w ≤ 2·wr`, on good chunks.  On top of the bookkeeping of the per-row step: the rows
whose results were sent (`S2`) ended at least `2·wr + 1` before the new chunk starts, and
`sent_until` is a cut (`GL.Cut S2 P`).  Then the call succeeds, sends `f Qo`, withholds `f Qc`,
cuts between groups again, and the new cache keeps the cut. -/
theorem step1_gap {f : List Row → List Row} {g wl wr : Int} (GL : GroupLocal f g) (hwl : 0 ≤ wl) (hwr : 0 ≤ wr)
    (hg2 : g ≤ 2 * wr) {rid : String} {old : Option Chunk} {s : Int} {X : Chunk} {S2 P : List Row}
    (hX : X.good = true) (hXr : X.runId = some rid)
    (hold : (old = none ∧ S2 = [] ∧ P = [] ∧ s ≤ X.start) ∨
      (∃ o, old = some o ∧ o.good = true ∧ o.dataType = X.dataType ∧ o.runId = some rid ∧ o.stop = X.start ∧
        o.rows = S2 ++ P ∧ o.start ≤ s ∧ s ≤ o.stop))
    (hS2 : ∀ r ∈ S2, r.endt ≤ s) (hP : ∀ r ∈ P, s ≤ r.time)
    (hG3 : ∀ r ∈ S2, r.endt ≤ X.start - 2 * wr - 1) (hG4 : GL.Cut S2 P) :
    ∃ out cr ci Qo Qc D2 S2',
      step1 f (wl, wr) rid old s X = .ok (out, cr, ci) ∧
      P ++ X.rows = Qo ++ Qc ∧ out.rows = f Qo ∧ cr.rows = f Qc ∧ GL.Cut Qo Qc ∧
      (∀ r ∈ Qo, r.endt ≤ X.stop - 2 * wr - 1) ∧
      ci.good = true ∧ ci.dataType = X.dataType ∧ ci.runId = some rid ∧ ci.stop = X.stop ∧
      ci.start ≤ cr.start ∧ cr.start ≤ ci.stop ∧
      S2 ++ Qo = D2 ++ S2' ∧ ci.rows = S2' ++ Qc ∧ (∀ r ∈ S2', r.endt ≤ cr.start) ∧
      (∀ r ∈ Qc, cr.start ≤ r.time) ∧ GL.Cut S2' Qc := by
  obtain ⟨I, a, hI, hIg, hIrows, hIstop, hIrid, hIdt, ha, hsa, hIa, haI, hXa, hPa⟩ := input_good hX hXr hold
  have hIg' := hIg
  simp only [Chunk.good, Bool.and_eq_true] at hIg'
  obtain ⟨hIwf, hIsimple⟩ := hIg'
  obtain ⟨hIsub, rid', hrid', hIsup⟩ := (Chunk.simple_iff I).1 hIsimple
  rw [hIrid] at hrid'; simp only [Option.some.injEq] at hrid'; subst hrid'
  obtain ⟨hI0, hIse, hIsorted, hIpos, hIin⟩ := (Chunk.wf_iff I).1 hIwf
  have hX' := hX
  simp only [Chunk.good, Bool.and_eq_true] at hX'
  obtain ⟨-, xse, -, -, xin⟩ := (Chunk.wf_iff X).1 hX'.1
  have hPa' : ∀ r ∈ P, a ≤ r.time := by
    intro r hr
    have : P ≠ [] := by intro h; rw [h] at hr; simp at hr
    rw [hPa this]; exact hP r hr
  have hQa : ∀ r ∈ P ++ X.rows, a ≤ r.time := by
    intro r hr
    rcases List.mem_append.1 hr with h | h
    · exact hPa' r h
    · exact hXa r h
  -- `sent_until` is a group cut of the batch
  have hS2X : GL.Cut S2 (P ++ X.rows) := by
    cases hPe : P with
    | nil =>
      apply GL.far
      intro x y hx hy
      rw [List.nil_append] at hy
      have hy' : y ∈ X.rows := List.mem_of_mem_head? hy
      have h1 := (xin y hy').1
      have h2 := hG3 x (List.mem_of_mem_getLast? hx)
      omega
    | cons p ps =>
      rw [hPe] at hG4
      exact GL.congr rfl (by simp) hG4
  have hIrows' : I.rows = S2 ++ (P ++ X.rows) := by rw [hIrows, List.append_assoc]
  have hsortedQ : SortedByTime (P ++ X.rows) := by
    rw [hIrows'] at hIsorted; exact hIsorted.append_right
  -- the result chunk
  have hRrows : f I.rows = f S2 ++ f (P ++ X.rows) := by rw [hIrows', GL.additive hS2X]
  have hRin : ∀ x ∈ f I.rows, I.start ≤ x.time ∧ x.endt ≤ I.stop := fun x hx =>
    ⟨GL.time_ge (fun r hr => (hIin r hr).1) x hx, GL.endt_le (fun r hr => (hIin r hr).2) x hx⟩
  have hR := mkChunk_plain (dt := outType) (k := outKind) (rid := rid) (tg := 1000)
    (sup := some [⟨rid, I.start, I.stop⟩]) hI0 hIse hRin (Or.inr rfl)
  have hRpos : PositiveRows (f I.rows) := GL.positive hIpos
  have hRg : (Chunk.good ⟨outType, outKind, some rid, I.start, I.stop, f I.rows, none,
      [⟨rid, I.start, I.stop⟩], 1000⟩) = true := by
    simp only [Chunk.good, Bool.and_eq_true]
    exact ⟨(Chunk.wf_iff _).2 ⟨hI0, hIse, GL.sorted hIsorted, hRpos, hRin⟩, (Chunk.simple_iff _).2 ⟨rfl, rid, rfl, rfl⟩⟩
  -- drop what has been sent
  have hns : ¬ ∃ r ∈ f I.rows, r.straddles s := by
    rintro ⟨y, hy, hy1, hy2⟩
    rw [hRrows] at hy
    rcases List.mem_append.1 hy with h | h
    · have := GL.endt_le hS2 y h; omega
    · have := GL.time_ge hQa y h; omega
  obtain ⟨r0, R', hs1⟩ := split_good_strict_ok hRg s hns
  obtain ⟨t1, -, -, -, ht1, -, -, hR's, hR'e, -, -, -, -, hrows1, hl1, hr1, -, hR'g⟩ := split_good' hRg hs1
  have ht1 : t1 = a := by rw [ht1 rfl, ha]
  subst ht1
  have hR'rows : R'.rows = f (P ++ X.rows) := by
    have := sep_unique (t := t1) (by rw [hrows1]; exact hRpos) (hrows1.trans hRrows) hl1 hr1
      (fun y hy => GL.time_ge hQa y hy)
      (fun y hy => by have := GL.endt_le hS2 y hy; omega)
    exact this.2
  -- send what is final, keep the rest
  obtain ⟨out, cr, hs2⟩ := split_good_early_ok hR'g (I.stop - 2 * wr - 1)
  obtain ⟨t2, ht2a, ht2b, ht2c, -, hos, hoe, hcs, hce, -, -, -, -, hrows2, hl2, hr2, hog, hcg⟩ := split_good' hR'g hs2
  rw [hR's] at ht2a ht2c hos
  rw [hR'e] at ht2b hce
  obtain ⟨Qo, Qc, hQ, hQo, hQc, hcut, hQoy, hQcy⟩ := GL.split (hR'rows.symm.trans hrows2.symm)
  have hQo_end : ∀ r ∈ Qo, r.endt ≤ t2 := by
    intro r hr
    obtain ⟨y, hy, hle⟩ := hQoy r hr
    have := hl2 y hy; omega
  have hQc_start : ∀ r ∈ Qc, t2 ≤ r.time := by
    intro r hr
    obtain ⟨y, hy, hle⟩ := hQcy hsortedQ r hr
    have := hr2 y hy; omega
  have hog' := hog
  simp only [Chunk.good, Bool.and_eq_true] at hog'
  obtain ⟨-, -, -, hopos, hoin⟩ := (Chunk.wf_iff out).1 hog'.1
  have hQo_final : ∀ r ∈ Qo, r.endt ≤ X.stop - 2 * wr - 1 := by
    intro r hr
    obtain ⟨y, hy, hle⟩ := hQoy r hr
    have h1 := hoin y hy
    have h2 := hopos y hy
    rw [hos, hoe] at h1
    rw [← hIstop]
    omega
  -- cache the input
  obtain ⟨i0, ci, hs3⟩ := split_good_early_ok hIg (cr.start - 2 * wl - 1)
  obtain ⟨t3, ht3a, ht3b, ht3c, -, -, -, his, hie, -, hidt, -, hirid, hrows3, hl3, hr3, -, hig⟩ := split_good' hIg hs3
  rw [hcs] at ht3c
  have hD2 : ∀ n ∈ i0.rows, n.endt ≤ t2 - 2 * wl - 1 := by
    intro n hn
    have h1 := hl3 n hn
    have hn' : n ∈ I.rows := by rw [← hrows3]; simp [hn]
    have h2 := hIin n hn'
    have h3 := hIpos n hn'
    omega
  have hsplit : (S2 ++ Qo) ++ Qc = i0.rows ++ ci.rows := by
    rw [hrows3, hIrows, List.append_assoc, List.append_assoc, hQ]
  obtain ⟨S2', hK1, hK2⟩ := append_split_sep (t := t2 - 2 * wl - 1) (t' := t2)
    (by rw [hsplit, hrows3]; exact hIpos) hsplit hD2 hQc_start (by omega)
  -- the cut survives
  have hcut2 : GL.Cut (S2 ++ Qo) Qc := by
    cases hQe : Qo with
    | nil =>
      rw [hQe, List.nil_append] at hQ
      rw [List.append_nil, ← hQ]
      exact hS2X
    | cons q qs =>
      rw [hQe] at hcut
      exact GL.congr (getLast?_append_right (by simp)).symm rfl hcut
  have hcut3 : GL.Cut S2' Qc := by
    by_cases hS2'e : S2' = []
    · rw [hS2'e]
      exact GL.far (gapOK_nil_left _ _)
    · refine GL.congr ?_ rfl hcut2
      rw [hK1, getLast?_append_right hS2'e]
  refine ⟨out, cr, ci, Qo, Qc, i0.rows, S2', ?_, hQ, hQo, hQc, hcut, hQo_final, hig, by rw [hidt, hIdt], by rw [hirid, hIrid],
    by rw [hie, hIstop], by rw [his, hcs]; omega, by rw [hcs, hie]; exact ht2b, hK1, hK2, ?_,
    by rw [hcs]; exact hQc_start, hcut3⟩
  · unfold step1
    simp only [hI]
    have hw : ¬ ((decide ((wl, wr).1 < 0) || decide ((wl, wr).2 < 0)) = true) := by
      simp only [Bool.or_eq_true, decide_eq_true_eq, not_or, Int.not_lt]; exact ⟨hwl, hwr⟩
    rw [if_neg hw]
    have hlen : ¬ (I.superrun.length > 1) := by rw [hIsup]; simp
    rw [if_neg hlen, hIsub, hIsup, hR]
    simp only [hs1, hs2, hs3]
  · intro r hr
    have hr' : r ∈ S2 ++ Qo := by rw [hK1]; simp [hr]
    rw [hcs]
    rcases List.mem_append.1 hr' with h | h
    · have := hS2 r h; omega
    · exact hQo_end r h

/-! ## §4 the run -/

theorem iterLoop_gap {f : List Row → List Row} {g wl wr : Int} (GL : GroupLocal f g) (hwl : 0 ≤ wl) (hwr : 0 ≤ wr)
    (hg2 : g ≤ 2 * wr) (rid kind dt : String) :
    ∀ (rest : List Chunk) (old : Option Chunk) (crd : Dict Chunk) (s : Int) (buf : Chunk) (S2 P : List Row),
    buf.good = true → buf.runId = some rid → buf.dataType = dt →
    (∀ c ∈ rest, c.good = true ∧ c.runId = some rid ∧ c.dataType = dt) →
    Chain buf.stop rest →
    ((old = none ∧ S2 = [] ∧ P = [] ∧ s ≤ buf.start) ∨
      (∃ o, old = some o ∧ o.good = true ∧ o.dataType = dt ∧ o.runId = some rid ∧ o.stop = buf.start ∧
        o.rows = S2 ++ P ∧ o.start ≤ s ∧ s ≤ o.stop)) →
    (∀ r ∈ S2, r.endt ≤ s) → (∀ r ∈ P, s ≤ r.time) →
    (∀ r ∈ S2, r.endt ≤ buf.start - 2 * wr - 1) → GL.Cut S2 P →
    ∃ outs st' cs cr,
      iterLoop (spec1 f (wl, wr) rid) kind ⟨optDict kind old, crd, s⟩ buf rest = .ok (outs, st') ∧
      outs = cs.map (fun c => [(outType, c)]) ∧ st'.cachedResults = [(outType, cr)] ∧
      allRows cs ++ cr.rows = f (P ++ buf.rows ++ allRows rest) := by
  intro rest
  induction rest with
  | nil =>
    intro old crd s buf S2 P hbg hbr hbd hrest hchain hold hS2 hP hG3 hG4
    have hbg' := hbg
    simp only [Chunk.good, Bool.and_eq_true] at hbg'
    obtain ⟨-, bse, -, -, -⟩ := (Chunk.wf_iff buf).1 hbg'.1
    obtain ⟨inp, buf', hsp⟩ := split_good_early_ok hbg buf.stop
    obtain ⟨i1, i2, i3, b1, b2, b3, i4, b4⟩ := split_at_stop bse hsp
    obtain ⟨_, -, -, -, -, -, -, -, -, -, -, i5, b5, -, -, -, hig, hb'g⟩ := split_good' hbg hsp
    have hold' : (old = none ∧ S2 = [] ∧ P = [] ∧ s ≤ inp.start) ∨
      (∃ o, old = some o ∧ o.good = true ∧ o.dataType = inp.dataType ∧ o.runId = some rid ∧ o.stop = inp.start ∧
        o.rows = S2 ++ P ∧ o.start ≤ s ∧ s ≤ o.stop) := by
      rw [i1, i4, hbd]; exact hold
    obtain ⟨out, cr, ci, Qo, Qc, D2, S2', hstep, hQ, hout, hcr, hcut, -⟩ :=
      step1_gap GL hwl hwr hg2 hig (by rw [i5, hbr]) hold' hS2 hP (by rw [i1]; exact hG3) hG4
    rw [i3] at hQ
    refine ⟨[[(outType, out)]], ⟨[(kind, ci)], [(outType, cr)], cr.start⟩, [out], cr, ?_, rfl, rfl, ?_⟩
    · unfold iterLoop
      simp only [hsp, doCompute_spec1, hstep, b3]
      rfl
    · simp only [allRows, List.flatMap_cons, List.flatMap_nil, List.append_nil]
      rw [hout, hcr, ← GL.additive hcut, ← hQ]
  | cons c rest ih =>
    intro old crd s buf S2 P hbg hbr hbd hrest hchain hold hS2 hP hG3 hG4
    have hbg' := hbg
    simp only [Chunk.good, Bool.and_eq_true] at hbg'
    obtain ⟨-, bse, -, -, -⟩ := (Chunk.wf_iff buf).1 hbg'.1
    obtain ⟨inp, buf', hsp⟩ := split_good_early_ok hbg buf.stop
    obtain ⟨i1, i2, i3, b1, b2, b3, i4, b4⟩ := split_at_stop bse hsp
    obtain ⟨_, -, -, -, -, -, -, -, -, -, -, i5, b5, -, -, -, hig, hb'g⟩ := split_good' hbg hsp
    have hold' : (old = none ∧ S2 = [] ∧ P = [] ∧ s ≤ inp.start) ∨
      (∃ o, old = some o ∧ o.good = true ∧ o.dataType = inp.dataType ∧ o.runId = some rid ∧ o.stop = inp.start ∧
        o.rows = S2 ++ P ∧ o.start ≤ s ∧ s ≤ o.stop) := by
      rw [i1, i4, hbd]; exact hold
    obtain ⟨out, cr, ci, Qo, Qc, D2, S2', hstep, hQ, hout, hcr, hcut, hQof, hcig, hcid, hcir, hcie, hci1, hci2,
      hK1, hK2, hS2', hQc, hcut3⟩ :=
      step1_gap GL hwl hwr hg2 hig (by rw [i5, hbr]) hold' hS2 hP (by rw [i1]; exact hG3) hG4
    rw [i3] at hQ
    rw [i2] at hQof
    obtain ⟨hcg, hcr', hcd⟩ := hrest c (by simp)
    obtain ⟨hch1, hch2⟩ := hchain
    obtain ⟨rid', hr', hcat, hb2g⟩ := concat_good2 hb'g hcg (by rw [b2, hch1]) (by rw [b4, hbd, hcd]) (by rw [b5, hbr, hcr'])
    rw [b5, hbr] at hr'
    simp only [Option.some.injEq] at hr'
    subst hr'
    have hG3' : ∀ r ∈ S2', r.endt ≤ buf'.start - 2 * wr - 1 := by
      intro r hr
      have hr' : r ∈ S2 ++ Qo := by rw [hK1]; simp [hr]
      rw [b1]
      rcases List.mem_append.1 hr' with h | h
      · have := hG3 r h; omega
      · exact hQof r h
    obtain ⟨outs2, st2, cs2, crf, hrec, hcs2, hcrf, hrows⟩ := ih (some ci) [(outType, cr)] cr.start
      ⟨buf'.dataType, buf'.kind, some rid, buf'.start, c.stop, buf'.rows ++ c.rows, none,
        [⟨rid, buf'.start, c.stop⟩], max buf'.target c.target⟩ S2' Qc
      hb2g rfl (by simp only; rw [b4, hbd])
      (fun c' hc' => hrest c' (by simp [hc'])) hch2
      (Or.inr ⟨ci, rfl, hcig, by rw [hcid, i4, hbd], hcir, by rw [hcie, i2, b1], hK2, hci1, hci2⟩)
      hS2' hQc hG3' hcut3
    refine ⟨[(outType, out)] :: outs2, st2, out :: cs2, crf, ?_, by rw [hcs2]; rfl, hcrf, ?_⟩
    · unfold iterLoop
      simp only [hsp, doCompute_spec1, hstep, hcat]
      have hrec' : iterLoop (spec1 f (wl, wr) rid) kind
          ⟨[(kind, ci)], [(outType, cr)], cr.start⟩ _ rest = .ok (outs2, st2) := hrec
      rw [hrec']
    · rw [allRows_cons, List.append_assoc, hrows, b3, hout]
      simp only [List.nil_append]
      -- the cut between what was sent now and everything that follows is a group cut of the run
      have hlater := chain_rows_later (e := buf.stop) (rest := c :: rest) ⟨hch1, hch2⟩ (fun c' hc' => (hrest c' hc').1)
      have hcutF : GL.Cut Qo (Qc ++ c.rows ++ allRows rest) := by
        cases hQe : Qc with
        | nil =>
          apply GL.far
          intro x y hx hy
          rw [List.nil_append] at hy
          have hy' : y ∈ allRows (c :: rest) := by rw [allRows_cons]; exact List.mem_of_mem_head? hy
          have h1 := hlater y hy'
          have h2 := hQof x (List.mem_of_mem_getLast? hx)
          omega
        | cons q qs =>
          rw [hQe] at hcut
          exact GL.congr rfl (by simp) hcut
      rw [← GL.additive hcutF, allRows_cons]
      congr 1
      rw [← List.append_assoc Qo, ← List.append_assoc Qo, ← hQ]
      simp only [List.append_assoc]

/-- **Window-local group-forming computations are chunking independent.**  For `f` local within
`w ≤ 2·wr` (in particular `w` at most the look-ahead window), any look-back window `wl ≥ 0`: on a
law-abiding chunking of a run of disjoint rows the plugin computing `f` does not fail, and what it
yields, concatenated, is `f` of the whole run. -/
theorem runOverlap_group_whole {f : List Row → List Row} {g wl wr : Int} (GL : GroupLocal f g)
    (hwl : 0 ≤ wl) (hwr : 0 ≤ wr) (hg2 : g ≤ 2 * wr) {cs : List Chunk} (hs : Stream cs) :
    ∃ outs, runOverlap f (wl, wr) cs = .ok outs ∧ allRows outs = f (allRows cs) := by
  obtain ⟨c, rest, rid, rfl, hrid, hall, hchain, h0⟩ := stream_parts hs
  obtain ⟨hcg, -, -⟩ := hall c (by simp)
  obtain ⟨outs, st', ocs, cr, hloop, houts, hcr, hrows⟩ :=
    iterLoop_gap GL hwl hwr hg2 rid c.kind c.dataType rest none [] 0 c [] []
      hcg hrid rfl (fun c' hc' => hall c' (by simp [hc'])) hchain (Or.inl ⟨rfl, rfl, rfl, h0⟩)
      (by simp) (by simp) (by simp) (GL.far (gapOK_nil_left _ _))
  refine ⟨ocs ++ [cr], ?_, ?_⟩
  · unfold runOverlap
    simp only [hrid, runDicts]
    have hloop' : iterLoop (spec1 f (wl, wr) rid) c.kind State.init c rest = .ok (outs, st') := hloop
    rw [hloop']
    simp only [houts, hcr, mapE_single_append]
  · have : allRows (ocs ++ [cr]) = allRows ocs ++ cr.rows := by simp [allRows]
    rw [this, hrows, allRows_cons]
    simp

/-- the instance used by the harness: gap grouping -/
theorem runOverlap_gap_whole {g wl wr : Int} (hwl : 0 ≤ wl) (hwr : 0 ≤ wr) (hg2 : g ≤ 2 * wr)
    {cs : List Chunk} (hs : Stream cs) :
    ∃ outs, runOverlap (fGap g) (wl, wr) cs = .ok outs ∧ allRows outs = fGap g (allRows cs) :=
  runOverlap_group_whole (fGap_groupLocal g) hwl hwr hg2 hs

end Strax.Overlap
