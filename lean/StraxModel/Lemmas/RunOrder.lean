import StraxModel.Model.Chunk
/-
  Shared facts about the order `runLe` (by `(start, end)`, D31) used by the `subruns` / `superrun`
  setters (`sortRuns`).  Import-light (Model/Chunk only) so that C03 / C07 / C14 lemma files can reuse it.
-/
namespace Strax

theorem runLe_iff (a b : Run) :
    runLe a b = true ↔ a.start < b.start ∨ (a.start = b.start ∧ a.stop ≤ b.stop) := by
  simp [runLe]

theorem runLe_of_start_lt {a b : Run} (h : a.start < b.start) : runLe a b = true :=
  (runLe_iff a b).2 (Or.inl h)

theorem runLe_start_le {a b : Run} (h : runLe a b = true) : a.start ≤ b.start := by
  rcases (runLe_iff a b).1 h with h | h <;> omega

theorem runLe_refl (a : Run) : runLe a a = true := (runLe_iff a a).2 (Or.inr ⟨rfl, Int.le_refl _⟩)

theorem runLe_trans {a b c : Run} (h1 : runLe a b = true) (h2 : runLe b c = true) : runLe a c = true := by
  rw [runLe_iff] at *
  omega

theorem runLe_total (a b : Run) : (runLe a b || runLe b a) = true := by
  simp only [Bool.or_eq_true, runLe_iff]
  omega

/-- the setter's sort leaves a list that is already in `runLe` order untouched -/
theorem sortRuns_of_pairwise {rs : Runs} (h : rs.Pairwise (fun a b => runLe a b = true)) : sortRuns rs = rs :=
  List.mergeSort_of_pairwise h

/-- the result of the setter's sort is in `runLe` order, hence sorted by start -/
theorem sortRuns_pairwise (rs : Runs) : (sortRuns rs).Pairwise (fun a b => runLe a b = true) :=
  List.pairwise_mergeSort (le := runLe) (fun _ _ _ h1 h2 => runLe_trans h1 h2) runLe_total rs

theorem sortRuns_sorted_start (rs : Runs) : (sortRuns rs).Pairwise (fun a b => a.start ≤ b.start) :=
  (sortRuns_pairwise rs).imp runLe_start_le

theorem sortRuns_perm (rs : Runs) : (sortRuns rs).Perm rs := List.mergeSort_perm rs _

theorem mem_sortRuns {r : Run} {rs : Runs} : r ∈ sortRuns rs ↔ r ∈ rs := List.mem_mergeSort

theorem length_sortRuns (rs : Runs) : (sortRuns rs).length = rs.length := List.length_mergeSort rs

/-- consecutive non-overlap (`_sorted_subruns_check` passes) with non-negative spans is pairwise non-overlap -/
theorem pairwise_stop_le_of_noOverlap {rs : Runs} (h : runsOverlap rs = false) (hnn : ∀ r ∈ rs, r.start ≤ r.stop) :
    rs.Pairwise (fun a b => a.stop ≤ b.start) := by
  induction rs with
  | nil => simp
  | cons a rest ih =>
    cases rest with
    | nil => simp
    | cons b rest' =>
      simp only [runsOverlap, Bool.or_eq_false_iff, decide_eq_false_iff_not] at h
      have ih' := ih h.2 (fun r hr => hnn r (by simp [hr]))
      refine List.pairwise_cons.2 ⟨?_, ih'⟩
      intro x hx
      simp only [List.mem_cons] at hx
      rcases hx with rfl | hx
      · omega
      · have := (List.pairwise_cons.1 ih').1 x hx
        have := hnn b (by simp)
        omega

/-- in-order, pairwise non-overlapping, strictly positive spans are in `runLe` order (old and new key agree) -/
theorem pairwise_runLe_of_chain {rs : Runs} (h : rs.Pairwise (fun a b => a.stop ≤ b.start))
    (hpos : ∀ r ∈ rs, r.start < r.stop) : rs.Pairwise (fun a b => runLe a b = true) := by
  induction rs with
  | nil => simp
  | cons a rest ih =>
    have h' := List.pairwise_cons.1 h
    refine List.pairwise_cons.2 ⟨?_, ih h'.2 (fun r hr => hpos r (by simp [hr]))⟩
    intro b hb
    have := h'.1 b hb
    have := hpos a (by simp)
    exact runLe_of_start_lt (by omega)

/-- lists sorted by start with positive, non-overlapping spans are fixed by the setter's sort -/
theorem sortRuns_of_sortedLex {rs : Runs} (h : rs.Pairwise (fun a b => a.stop ≤ b.start))
    (hpos : ∀ r ∈ rs, r.start < r.stop) : sortRuns rs = rs :=
  sortRuns_of_pairwise (pairwise_runLe_of_chain h hpos)

end Strax
