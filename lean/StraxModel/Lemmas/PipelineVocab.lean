import StraxModel.Lemmas.PipelineBridge
/-
  Helper lemmas for property C01, part 6: the harness vocabulary (`Pipeline.Vocab`, evaluated by the
  driver op `c01.whole`) as a graph of the stream theory: every vocabulary kind has a kernel whose
  whole-run meaning is `Vocab.wholeOf`, and — except for the overlap window, which brings its own
  layer theorem — a `ChunkHom` proof from first principles.  Core Lean only.
-/
namespace Strax.Pipeline
open Strax

/-- a down-chunking `compute` that yields its result in one piece -/
def onePiece (g : Row → Option Row) (out : String) (c : Chunk) : List Chunk := [setRows out c (c.rows.filterMap g)]

theorem subOK_onePiece {g : Row → Option Row} (hg : IntervalPreserving g) (out : String) : SubOK (onePiece g out) g := by
  intro c hc
  refine ⟨(lawAbiding_single _).2 (chunkOK_filterMap hg out c hc), by simp [onePiece, span, lastStop, setRows], ?_⟩
  simp [onePiece, setRows]

/-- a whole-run computation that rewrites every row in place (with a look at all rows) obeys `RangeLaw` -/
theorem rangeLaw_of_map {f : List Row → Row → Row} (hf : ∀ all r, (f all r).time = r.time ∧ (f all r).endt = r.endt) :
    RangeLaw (fun rs => rs.map (f rs)) := by
  intro a b rs hin hs
  constructor
  · simp only [List.all_eq_true, List.mem_map, forall_exists_index, and_imp, forall_apply_eq_imp_iff₂] at hin ⊢
    intro r hr
    have := rowInB_iff.1 (hin r hr)
    obtain ⟨e1, e2⟩ := hf rs r
    exact rowInB_iff.2 ⟨by omega, by omega, by omega⟩
  · rw [sortedByTimeB_iff] at hs ⊢
    rw [sortedByTime_iff_pairwise] at hs ⊢
    rw [List.pairwise_map]
    refine hs.imp ?_
    intro x y hxy
    have := (hf rs x).1
    have := (hf rs y).1
    omega

/-- a plugin stamps its own data type and the data kind of its input on what it emits (the overlap-window model of
C09 labels its output `out` / `outk`) -/
def restampChunk (out kind : String) (c : Chunk) : Chunk := { c with dataType := out, kind := kind }

def kindOfIns : List (List Chunk) → String
  | (c :: _) :: _ => c.kind
  | _ => ""

/-- stamp the output streams: data type and kind per output (`none`: the kind of the first input) -/
def stampAll (kin : String) : List (String × Option String) → List (List Chunk) → List (List Chunk)
  | _, [] => []
  | [], s :: rest => s :: stampAll kin [] rest
  | (n, k) :: ps, s :: rest => s.map (restampChunk n (k.getD kin)) :: stampAll kin ps rest

def restamp (labels : List (String × Option String)) (k : Kernel) : Kernel :=
  { k with chunked := fun ins =>
      match k.chunked ins with
      | .error e => .error e
      | .ok outs => .ok (stampAll (kindOfIns ins) labels outs) }

theorem restamp_stream (out kind : String) : ∀ (s : List Chunk),
    rows (s.map (restampChunk out kind)) = rows s ∧ bounds (s.map (restampChunk out kind)) = bounds s ∧
      ((∀ c ∈ s, chunkOKB c = true) → ∀ c ∈ s.map (restampChunk out kind), chunkOKB c = true)
  | [] => ⟨rfl, rfl, fun _ c hc => by simp at hc⟩
  | c :: s => by
    obtain ⟨i1, i2, i3⟩ := restamp_stream out kind s
    refine ⟨by simp only [List.map_cons, rows_cons, i1]; rfl, ?_, ?_⟩
    · simp only [bounds, List.map_cons] at i2 ⊢; rw [i2]; rfl
    · intro h x hx
      simp only [List.map_cons, List.mem_cons] at hx
      rcases hx with rfl | hx
      · have := h c (by simp)
        simp only [chunkOKB, restampChunk] at this ⊢
        exact this
      · exact i3 (fun y hy => h y (by simp [hy])) x hx

theorem stampAll_spec (kin : String) (R : Int × Int) :
    ∀ (ps : List (String × Option String)) (ss : List (List Chunk)), StreamsOK R ss →
      (stampAll kin ps ss).length = ss.length ∧ (stampAll kin ps ss).map rows = ss.map rows ∧
        StreamsOK R (stampAll kin ps ss)
  | _, [], _ => ⟨rfl, rfl, fun s hs => by simp [stampAll] at hs⟩
  | [], s :: rest, h => by
    obtain ⟨i1, i2, i3⟩ := stampAll_spec kin R [] rest (fun x hx => h x (by simp [hx]))
    refine ⟨by simp [stampAll, i1], by simp [stampAll, i2], ?_⟩
    intro x hx
    simp only [stampAll, List.mem_cons] at hx
    rcases hx with rfl | hx
    · exact h _ (by simp)
    · exact i3 x hx
  | (n, k) :: ps, s :: rest, h => by
    obtain ⟨i1, i2, i3⟩ := stampAll_spec kin R ps rest (fun x hx => h x (by simp [hx]))
    obtain ⟨r1, r2, r3⟩ := restamp_stream n (k.getD kin) s
    obtain ⟨hl0, hsp0⟩ := h s (by simp)
    refine ⟨by simp [stampAll, i1], by simp [stampAll, i2, r1], ?_⟩
    intro x hx
    simp only [stampAll, List.mem_cons] at hx
    rcases hx with rfl | hx
    · exact ⟨lawAbiding_of (r3 hl0.all_ok) (by rw [adjacentB_of_bounds r2]; exact hl0.adjacent),
        by rw [span_of_bounds r2]; exact hsp0⟩
    · exact i3 x hx

theorem restamp_hom {k : Kernel} (labels : List (String × Option String)) (h : ChunkHom k) : ChunkHom (restamp labels k) := by
  intro R ins outs hl hal hc
  simp only [restamp] at hc hl
  cases hk : k.chunked ins with
  | error e => simp [hk] at hc
  | ok o =>
    simp only [hk, Except.ok.injEq] at hc
    subst hc
    obtain ⟨h1, h2, h3⟩ := h R ins o hl hal hk
    obtain ⟨s1, s2, s3⟩ := stampAll_spec (kindOfIns ins) R labels o h2
    exact ⟨by simpa [restamp, s1] using h1, s3, by rw [s2, h3]; rfl⟩

namespace Vocab

def gMap (c : Nat) : Row → Option Row := fun r => some (mapId c r)
def gFilter (m r : Nat) : Row → Option Row := fun x => if keepB m r x then some x else none
def overlapWhole (w : Nat) : List Row → List Row := fun x => x.map (overlapId w x)
def overlapWhole2 (wl wr : Nat) : List Row → List Row := fun x => x.map (overlapId2 wl wr x)
def exhaustWhole (c : Nat) : List Row → List Row := fun x => x.map (exhaustId c x.length)

theorem gMap_ip (c : Nat) : IntervalPreserving (gMap c) := by
  intro r r' h; simp only [gMap, Option.some.injEq] at h; subst h; simp [mapId]

theorem gFilter_ip (m r : Nat) : IntervalPreserving (gFilter m r) := by
  intro x x' h
  simp only [gFilter] at h
  split at h
  · cases h; exact ⟨rfl, rfl⟩
  · cases h

theorem mergeId_kfi : KeepsFirstInterval mergeId := fun x y => by simp [mergeId]
theorem loopId_kbi : KeepsBaseInterval loopId := fun b ts => by simp [loopId]

theorem filterMap_gMap (c : Nat) (x : List Row) : x.filterMap (gMap c) = x.map (mapId c) := by
  induction x with
  | nil => rfl
  | cons a t ih => simp only [List.filterMap_cons, gMap, List.map_cons] at ih ⊢; rw [ih]

theorem filterMap_gFilter (m r : Nat) (x : List Row) : x.filterMap (gFilter m r) = x.filter (keepB m r) := by
  induction x with
  | nil => rfl
  | cons a t ih =>
    simp only [List.filterMap_cons, List.filter_cons, gFilter]
    by_cases h : keepB m r a = true
    · simp only [h, if_true]; rw [← ih]
    · simp only [h]; rw [← ih]; simp

def out0 (outs : List String) : String := match outs with | o :: _ => o | [] => ""
def out1 (outs : List String) : String := match outs with | _ :: o :: _ => o | _ => ""

/-- the kernel of one vocabulary kind, before the plugin stamps data type and kind on its output -/
def rawKernelOf : VKind → List String → Kernel
  | .map c, outs => mapKernel (gMap c) (out0 outs)
  | .filter m r, outs => mapKernel (gFilter m r) (out0 outs)
  | .merge, outs => mergeKernel mergeId (out0 outs)
  | .multi c m r, outs => pairKernel (mapKernel (gMap c) (out0 outs)) (mapKernel (gFilter m r) (out1 outs))
  | .pairfirst c, outs => firstKernel (gMap c) (out0 outs)
  | .loop, outs => loopKernel loopId (out0 outs)
  | .overlap w, _ => overlapKernel (overlapWhole w) (w, w)
  | .overlap2 wl wr, _ => overlapKernel (overlapWhole2 wl wr) (wl, wr)
  | .downchunk c, outs => downKernel (onePiece (gMap c) (out0 outs)) (gMap c)
  | .exhaust c, outs => exhaustKernel (exhaustWhole c) (out0 outs)

/-- data type and data kind of the outputs: a filter defines a new kind (named after its output), everything else
keeps the kind of its first dependency -/
def labelsOf : VKind → List String → List (String × Option String)
  | .filter _ _, outs => [(out0 outs, some (out0 outs))]
  | .multi _ _ _, outs => [(out0 outs, none), (out1 outs, some (out1 outs))]
  | _, outs => [(out0 outs, none)]

/-- the kernel of one vocabulary kind -/
def kernelOf (k : VKind) (outs : List String) : Kernel := restamp (labelsOf k outs) (rawKernelOf k outs)

def isOverlap : VKind → Bool
  | .overlap _ => true
  | .overlap2 _ _ => true
  | _ => false

theorem rawKernelOf_hom (k : VKind) (outs : List String) (h : isOverlap k = false) : ChunkHom (rawKernelOf k outs) := by
  cases k with
  | map c => exact mapKernel_hom (gMap_ip c) _
  | filter m r => exact mapKernel_hom (gFilter_ip m r) _
  | merge => exact mergeKernel_hom mergeId_kfi _
  | multi c m r => exact pairKernel_hom (mapKernel_hom (gMap_ip c) _) (mapKernel_hom (gFilter_ip m r) _) rfl
  | pairfirst c => exact firstKernel_hom (gMap_ip c) _
  | loop => exact loopKernel_hom loopId_kbi _
  | overlap w => simp [isOverlap] at h
  | overlap2 wl wr => simp [isOverlap] at h
  | downchunk c => exact downKernel_hom (subOK_onePiece (gMap_ip c) _)
  | exhaust c =>
    exact exhaustKernel_hom (rangeLaw_of_map (f := fun all r => exhaustId c all.length r)
      (fun all r => by simp [exhaustId])) _

/-- every vocabulary kind except the overlap window is a chunk homomorphism, from first principles -/
theorem kernelOf_hom (k : VKind) (outs : List String) (h : isOverlap k = false) : ChunkHom (kernelOf k outs) :=
  restamp_hom _ (rawKernelOf_hom k outs h)

/-- the overlap window is one as soon as C09's theorem holds of its state machine -/
theorem kernelOf_hom_overlap (w : Nat) (outs : List String)
    (h : StreamSpec (Overlap.runOverlap (overlapWhole w) (w, w)) (overlapWhole w)) :
    ChunkHom (kernelOf (.overlap w) outs) := restamp_hom _ (streamKernel_hom h)

theorem kernelOf_hom_overlap2 (wl wr : Nat) (outs : List String)
    (h : StreamSpec (Overlap.runOverlap (overlapWhole2 wl wr) (wl, wr)) (overlapWhole2 wl wr)) :
    ChunkHom (kernelOf (.overlap2 wl wr) outs) := restamp_hom _ (streamKernel_hom h)

/-- the whole-run meaning of the kernels is the function the driver evaluates -/
theorem kernelOf_whole (k : VKind) (outs : List String) (ins : List (List Row)) :
    (kernelOf k outs).whole ins = match wholeOf k ins with
      | some r => r
      | none => [] := by
  cases k with
  | map c =>
    match ins with
    | [x] => simp [kernelOf, rawKernelOf, restamp, mapKernel, wholeOf, filterMap_gMap]
    | [] => rfl
    | _ :: _ :: _ => rfl
  | filter m r =>
    match ins with
    | [x] => simp [kernelOf, rawKernelOf, restamp, mapKernel, wholeOf, filterMap_gFilter]
    | [] => rfl
    | _ :: _ :: _ => rfl
  | merge =>
    match ins with
    | [x, y] => rfl
    | [] => rfl
    | [_] => rfl
    | _ :: _ :: _ :: _ => rfl
  | multi c m r =>
    match ins with
    | [x] => simp [kernelOf, rawKernelOf, restamp, pairKernel, mapKernel, wholeOf, filterMap_gMap, filterMap_gFilter]
    | [] => rfl
    | _ :: _ :: _ => rfl
  | pairfirst c =>
    match ins with
    | [x, y] => simp [kernelOf, rawKernelOf, restamp, firstKernel, wholeOf, filterMap_gMap]
    | [] => rfl
    | [_] => rfl
    | _ :: _ :: _ :: _ => rfl
  | loop =>
    match ins with
    | [x, y] => rfl
    | [] => rfl
    | [_] => rfl
    | _ :: _ :: _ :: _ => rfl
  | overlap w =>
    match ins with
    | [x] => rfl
    | [] => rfl
    | _ :: _ :: _ => rfl
  | overlap2 wl wr =>
    match ins with
    | [x] => rfl
    | [] => rfl
    | _ :: _ :: _ => rfl
  | downchunk c =>
    match ins with
    | [x] => simp [kernelOf, rawKernelOf, restamp, downKernel, wholeOf, filterMap_gMap]
    | [] => rfl
    | _ :: _ :: _ => rfl
  | exhaust c =>
    match ins with
    | [x] => rfl
    | [] => rfl
    | _ :: _ :: _ => rfl

/-- which aligner a vocabulary node uses: a single dependency needs none, the exhaust plugin
concatenates, anything with two dependencies goes through `Plugin.iter` (`a2 n`, which may depend on the
node: its dependency kinds and save policy) -/
def alignerOf (a2 : VNode → Aligner) (n : VNode) : Aligner :=
  match n.kind with
  | .merge => a2 n
  | .pairfirst _ => a2 n
  | .loop => a2 n
  | .exhaust _ => Aligner.exhaust
  | _ => Aligner.single

def toNode (a2 : VNode → Aligner) (n : VNode) : Node :=
  { name := out0 n.outs, deps := n.deps, provides := n.outs, aligner := alignerOf a2 n,
    kernel := kernelOf n.kind n.outs }

/-- `whole` of the theory, on a vocabulary graph, is the driver's `wholeV` -/
theorem whole_eq_wholeV (a2 : VNode → Aligner) :
    ∀ (g : List VNode) (w : WEnv), (∀ n ∈ g, n.outs ≠ []) → whole (g.map (toNode a2)) w = wholeV g w
  | [], _, _ => rfl
  | n :: g, w, hne => by
    have hn := hne n (by simp)
    simp only [List.map_cons, whole, wholeV, wholeNode, toNode]
    cases hm : mapE (lookupW w) n.deps with
    | error e => rfl
    | ok ins =>
      simp only []
      rw [kernelOf_whole]
      cases hw : wholeOf n.kind ins with
      | none =>
        have h0 : ¬ (0 = n.outs.length) := by
          intro h; exact hn (List.length_eq_zero_iff.mp h.symm)
        simp [h0]
      | some outs =>
        by_cases hl : outs.length = n.outs.length
        · simp only [hl, if_true]
          exact whole_eq_wholeV a2 g _ (fun m hm' => hne m (by simp [hm']))
        · simp [hl]

end Vocab
end Strax.Pipeline
