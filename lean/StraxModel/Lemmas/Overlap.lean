import StraxModel.Model.Overlap
import StraxModel.Lemmas.ChunkAlg
/-
  Helper lemmas for property C09 (theory T5 "Overlap").

  §1  the single-kind / single-output step of `doCompute` written out (`step1`) and proved equal
  §2  facts about `split` / `concatenate` that need no hypothesis on the chunk
  §3  contiguity of the outputs for ALL inputs
  §4  lists of disjoint rows: decompositions at a time are unique
  §5  the step on good chunks: existence of the result and its description
  §6  the main induction: output = the window-local computation over the whole run
  §7  multi-output plugins: the chunks of one result are aligned
-/
namespace Strax.Overlap
open Strax

/-! ## §1 the single-kind single-output step -/

/-- `OverlapWindowPlugin.do_compute` for one input kind and one output, `old` = cached input,
`s` = `sent_until`; returns (result to send, cached result, cached input) -/
def step1 (f : List Row → List Row) (w : Int × Int) (rid : String) (old : Option Chunk) (s : Int) (X : Chunk) :
    Except Err (Chunk × Chunk × Chunk) :=
  match (match old with
         | none => Except.ok X
         | some o => concatenate [o, X] false) with
  | .error e => .error e
  | .ok I =>
    if w.1 < 0 || w.2 < 0 then .error .valueError
    else if I.superrun.length > 1 then .error .valueError
    else
      match mkChunk outType outKind (some rid) I.start I.stop (f I.rows) I.subruns (some I.superrun) 1000 with
      | .error e => .error e
      | .ok R =>
        match R.split s false with
        | .error e => .error e
        | .ok (_, R') =>
          match R'.split (I.stop - 2 * w.2 - 1) true with
          | .error e => .error e
          | .ok (out, cr) =>
            match I.split (cr.start - 2 * w.1 - 1) true with
            | .error e => .error e
            | .ok (_, ci) => .ok (out, cr, ci)

def optDict (kind : String) : Option Chunk → Dict Chunk
  | none => []
  | some o => [(kind, o)]

theorem uniqueB_single {α} [BEq α] (a : α) : uniqueB [a] = true := rfl

/-- with one entry in `io` and at most that entry in `cached`, `cache_beyond` succeeds in its
first trial -/
theorem cacheBeyond_single (n : Nat) (kind : String) (I : Chunk) (prev : Int) (cached : Dict Chunk)
    (h : cached = [] ∨ ∃ o, cached = [(kind, o)]) :
    cacheBeyond (n + 1) [(kind, I)] prev cached =
      match I.split prev true with
      | .error e => .error e
      | .ok (_, c2) => .ok (c2.start, [(kind, c2)]) := by
  unfold cacheBeyond
  simp only [cachePass]
  cases hs : I.split prev true with
  | error e => rfl
  | ok v =>
    obtain ⟨c1, c2⟩ := v
    rcases h with rfl | ⟨o, rfl⟩
    · simp [dictSet, uniqueB]
    · simp [dictSet, uniqueB]

theorem doCompute_spec1 (f : List Row → List Row) (w : Int × Int) (rid kind : String) (old : Option Chunk)
    (crd : Dict Chunk) (s : Int) (X : Chunk) :
    doCompute (spec1 f w rid) ⟨optDict kind old, crd, s⟩ [(kind, X)] =
      match step1 f w rid old s X with
      | .error e => .error e
      | .ok (out, cr, ci) => .ok ([(outType, out)], ⟨[(kind, ci)], [(outType, cr)], cr.start⟩) := by
  have hpre : prepend (optDict kind old) [(kind, X)] =
      match (match old with
         | none => Except.ok X
         | some o => concatenate [o, X] false) with
      | .error e => .error e
      | .ok I => .ok [(kind, I)] := by
    cases old with
    | none => simp [optDict, prepend]
    | some o =>
      simp only [optDict, prepend, dictGet, List.isEmpty_cons, Bool.false_eq_true, if_false, beq_self_eq_true, if_true]
      cases concatenate [o, X] false <;> rfl
  unfold doCompute step1
  simp only [List.isEmpty_cons, Bool.false_eq_true, if_false, hpre]
  cases (match old with
         | none => Except.ok X
         | some o => concatenate [o, X] false) with
  | error e => rfl
  | ok I =>
    simp only [List.map, uniqueB_single, Bool.not_true, Bool.false_eq_true, if_false]
    rw [show (spec1 f w rid).wl = w.1 from rfl, show (spec1 f w rid).wr = w.2 from rfl,
      show (spec1 f w rid).multi = false from rfl]
    by_cases hw : (decide (w.1 < 0) || decide (w.2 < 0)) = true
    · simp only [hw, ↓reduceIte]
    · simp only [hw, Bool.false_eq_true, ↓reduceIte]
      simp only [spec1, baseCompute, List.map, uniqueB_single, Bool.not_true, Bool.false_and, Bool.false_eq_true,
        if_false, if_true, mapE, fixOutput, dictGet, beq_self_eq_true]
      by_cases hl : I.superrun.length > 1
      · simp only [hl, ↓reduceIte]
      · simp only [hl, ↓reduceIte]
        cases mkChunk outType outKind (some rid) I.start I.stop (f I.rows) I.subruns (some I.superrun) 1000 with
        | error e => rfl
        | ok R =>
          simp only [dropSent, mapE]
          cases R.split s false with
          | error e => rfl
          | ok v =>
            obtain ⟨r0, R'⟩ := v
            simp only
            cases R'.split (I.stop - 2 * w.2 - 1) true with
            | error e => rfl
            | ok v2 =>
              obtain ⟨out, cr⟩ := v2
              simp only [maxTrials]
              rw [cacheBeyond_single 9 kind I _ _ (by cases old <;> simp [optDict])]
              cases I.split (cr.start - 2 * w.1 - 1) true with
              | error e => rfl
              | ok v3 => rfl

/-- inversion of a successful `step1` -/
theorem step1_inv {f : List Row → List Row} {w : Int × Int} {rid : String} {old : Option Chunk} {s : Int}
    {X out cr ci : Chunk} (h : step1 f w rid old s X = .ok (out, cr, ci)) :
    ∃ I R r0 R' i0,
      (match old with
         | none => Except.ok X
         | some o => concatenate [o, X] false) = .ok I ∧
      0 ≤ w.1 ∧ 0 ≤ w.2 ∧
      mkChunk outType outKind (some rid) I.start I.stop (f I.rows) I.subruns (some I.superrun) 1000 = .ok R ∧
      R.split s false = .ok (r0, R') ∧
      R'.split (I.stop - 2 * w.2 - 1) true = .ok (out, cr) ∧
      I.split (cr.start - 2 * w.1 - 1) true = .ok (i0, ci) := by
  unfold step1 at h
  split at h; · cases h
  rename_i I hI
  split at h; · cases h
  rename_i hw
  split at h; · cases h
  split at h; · cases h
  rename_i R hR
  split at h; · cases h
  rename_i r0 R' hs1
  split at h; · cases h
  rename_i out' cr' hs2
  split at h; · cases h
  rename_i i0 ci' hs3
  simp only [Except.ok.injEq, Prod.mk.injEq] at h
  obtain ⟨rfl, rfl, rfl⟩ := h
  simp only [Bool.or_eq_true, decide_eq_true_eq, not_or, Int.not_lt] at hw
  exact ⟨I, R, r0, R', i0, hI, hw.1, hw.2, hR, hs1, hs2, hs3⟩

/-! ## §2 `split` and `concatenate` without hypotheses on the chunk -/

theorem splitData_strict_time {c : Chunk} {t : Int} {d1 d2 : List Row} {t' : Int}
    (hv : splitData c t false = .ok (d1, d2, t')) : t' = max (min t c.stop) c.start := by
  unfold splitData at hv
  split at hv
  · simp [pure, Except.pure] at hv; omega
  · split at hv
    · simp [pure, Except.pure] at hv; omega
    · exact splitArray_strict hv

/-- the ranges of the two halves of any successful split -/
theorem split_ranges {c : Chunk} {t : Int} {early : Bool} {c1 c2 : Chunk} (h : c.split t early = .ok (c1, c2)) :
    ∃ t', t' ≤ max (min t c.stop) c.start ∧ (early = false → t' = max (min t c.stop) c.start) ∧
      c1.start = c.start ∧ c1.stop = max c.start t' ∧ c2.start = max c.start t' ∧ c2.stop = max t' c.stop ∧
      0 ≤ c.start ∧ c2.start ≤ c2.stop := by
  obtain ⟨d1, d2, t', hv, h1, h2⟩ := Chunk.split_ok_inv h
  obtain ⟨-, -, -, f1s, f1e, -, -, f10, -, -⟩ := mkChunk_fields h1
  obtain ⟨-, -, -, f2s, f2e, -, -, -, f2le, -⟩ := mkChunk_fields h2
  refine ⟨t', splitData_time_le hv, ?_, f1s, f1e, f2s, f2e, f10, by rw [f2s, f2e]; exact f2le⟩
  intro he; subst he
  exact splitData_strict_time hv

/-- `Chunk.concatenate([a, b])` whenever it succeeds -/
theorem concat2_inv {a b c : Chunk} (h : concatenate [a, b] false = .ok c) :
    c.start = a.start ∧ c.stop = b.stop ∧ c.rows = a.rows ++ b.rows ∧ a.stop ≤ b.start ∧
      0 ≤ c.start ∧ c.start ≤ c.stop := by
  rw [concatenate_eq] at h
  split at h; · cases h
  split at h; · cases h
  obtain ⟨p, -, h⟩ := bind_eq_ok.1 h
  obtain ⟨sub, -, h⟩ := bind_eq_ok.1 h
  split at h; · cases h
  rename_i hoo
  obtain ⟨-, -, -, fs, fe, fr, -, f0, fle, -⟩ := mkChunk_fields h
  simp only [outOfOrder, Bool.or_false, Bool.or_eq_true, decide_eq_true_eq, not_or, Int.not_lt] at hoo
  refine ⟨fs, by rw [fe]; simp, by rw [fr]; simp, hoo.2, by rw [fs]; exact f0, by rw [fs, fe]; exact fle⟩

/-! ## §3 contiguity of the outputs, for all inputs -/

/-- output chunks tile `[a, b)`: the first starts at `a`, each starts where its predecessor ended,
the last ends at `b` -/
def Tiles (a b : Int) : List Chunk → Prop
  | [] => a = b
  | c :: rest => c.start = a ∧ c.start ≤ c.stop ∧ Tiles c.stop b rest

/-- one step: the result starts where the previous one ended (`a`), the cached result takes over
where the result ends and reaches the end of the input -/
theorem step1_ranges {f : List Row → List Row} {w : Int × Int} {rid : String} {old : Option Chunk} {s a : Int}
    {X out cr ci : Chunk} (hX : X.start ≤ X.stop)
    (hpre : (old = none ∧ s ≤ X.start ∧ a = X.start) ∨ (∃ o, old = some o ∧ o.start ≤ s ∧ s ≤ o.stop ∧ a = s))
    (h : step1 f w rid old s X = .ok (out, cr, ci)) :
    out.start = a ∧ out.stop = cr.start ∧ out.start ≤ out.stop ∧ cr.stop = X.stop ∧ cr.start ≤ cr.stop ∧
      ci.start ≤ cr.start ∧ cr.start ≤ ci.stop ∧ ci.stop = X.stop := by
  obtain ⟨I, R, r0, R', i0, hI, hwl, hwr, hR, hs1, hs2, hs3⟩ := step1_inv h
  -- the input of this call
  have hIr : I.start ≤ a ∧ a ≤ I.stop ∧ I.stop = X.stop ∧ max (min s I.stop) I.start = a ∧ I.start ≤ I.stop := by
    rcases hpre with ⟨rfl, hs, rfl⟩ | ⟨o, rfl, ho1, ho2, rfl⟩
    · simp only [Except.ok.injEq] at hI; subst hI
      exact ⟨Int.le_refl _, hX, rfl, by omega, hX⟩
    · obtain ⟨c1, c2, -, c4, -, c6⟩ := concat2_inv hI
      exact ⟨by omega, by omega, c2, by omega, c6⟩
  obtain ⟨hIa, haI, hIX, hclamp, hIle⟩ := hIr
  obtain ⟨-, -, -, hRs, hRe, -⟩ := mkChunk_fields hR
  obtain ⟨t1, -, ht1, -, -, hR's, hR'e, -, -⟩ := split_ranges hs1
  have ht1 := ht1 rfl
  rw [hRs, hRe, hclamp] at ht1
  rw [hRs, ht1] at hR's
  rw [hRe, ht1] at hR'e
  obtain ⟨t2, ht2, -, hos, hoe, hcs, hce, -, hcle⟩ := split_ranges hs2
  obtain ⟨t3, ht3, -, -, -, his, hie, -, -⟩ := split_ranges hs3
  refine ⟨by omega, by omega, by omega, by omega, hcle, by omega, by omega, by omega⟩

/-- splitting a chunk at its own end (what `Plugin.iter` does with a single dependency) -/
theorem split_at_stop {c c1 c2 : Chunk} {early : Bool} (hc : c.start ≤ c.stop)
    (h : c.split c.stop early = .ok (c1, c2)) :
    c1.start = c.start ∧ c1.stop = c.stop ∧ c1.rows = c.rows ∧ c2.start = c.stop ∧ c2.stop = c.stop ∧ c2.rows = [] ∧
      c1.dataType = c.dataType ∧ c2.dataType = c.dataType := by
  obtain ⟨d1, d2, t', hv, h1, h2⟩ := Chunk.split_ok_inv h
  have hm : max (min c.stop c.stop) c.start = c.stop := by omega
  unfold splitData at hv
  rw [if_pos hm] at hv
  simp only [pure, Except.pure, Except.ok.injEq, Prod.mk.injEq] at hv
  obtain ⟨rfl, rfl, rfl⟩ := hv
  obtain ⟨f1d, -, -, f1s, f1e, f1r, -⟩ := mkChunk_fields h1
  obtain ⟨f2d, -, -, f2s, f2e, f2r, -⟩ := mkChunk_fields h2
  rw [hm] at f1e f2s f2e
  exact ⟨f1s, by omega, f1r, by omega, by omega, f2r, f1d, f2d⟩

def lastStop : Chunk → List Chunk → Int
  | b, [] => b.stop
  | _, c :: rest => lastStop c rest

theorem lastStop_spec (b : Chunk) (rest : List Chunk) (cl : Chunk) (h : (b :: rest).getLast? = some cl) :
    lastStop b rest = cl.stop := by
  induction rest generalizing b with
  | nil => simp at h; subst h; rfl
  | cons c rest ih =>
    rw [List.getLast?_cons_cons] at h
    exact ih c h

theorem lastStop_congr (b b' : Chunk) (rest : List Chunk) (h : b.stop = b'.stop) : lastStop b rest = lastStop b' rest := by
  cases rest <;> simp [lastStop, h]

theorem Tiles_cons {a b : Int} {c : Chunk} {rest : List Chunk} :
    Tiles a b (c :: rest) ↔ c.start = a ∧ c.start ≤ c.stop ∧ Tiles c.stop b rest := Iff.rfl

/-- the outputs of the single-dependency loop tile the span from the expected start to the end
of the last chunk -/
theorem iterLoop_tiles (f : List Row → List Row) (w : Int × Int) (rid kind : String) :
    ∀ (rest : List Chunk) (old : Option Chunk) (crd : Dict Chunk) (s a : Int) (buf : Chunk)
      (outs : List (Dict Chunk)) (st' : State),
    buf.start ≤ buf.stop →
    ((old = none ∧ s ≤ 0 ∧ a = buf.start) ∨ (∃ o, old = some o ∧ o.start ≤ s ∧ s ≤ o.stop ∧ a = s)) →
    iterLoop (spec1 f w rid) kind ⟨optDict kind old, crd, s⟩ buf rest = .ok (outs, st') →
    ∃ (cs : List Chunk) (cr : Chunk), outs = cs.map (fun c => [(outType, c)]) ∧
      st'.cachedResults = [(outType, cr)] ∧ Tiles a (lastStop buf rest) (cs ++ [cr]) ∧
      cs.length = rest.length + 1 := by
  intro rest
  induction rest with
  | nil =>
    intro old crd s a buf outs st' hb hpre h
    unfold iterLoop at h
    split at h; · cases h
    rename_i inp buf' hsp
    rw [doCompute_spec1] at h
    split at h; · cases h
    rename_i out st1 hdc
    split at hdc; · cases hdc
    rename_i o cr ci hst
    simp only [Except.ok.injEq, Prod.mk.injEq] at hdc
    obtain ⟨rfl, rfl⟩ := hdc
    simp only at h
    by_cases hstrict : ((spec1 f w rid).strict && !buf'.rows.isEmpty) = true
    · rw [if_pos hstrict] at h; cases h
    rw [if_neg hstrict] at h
    simp only [Except.ok.injEq, Prod.mk.injEq] at h
    obtain ⟨rfl, rfl⟩ := h
    obtain ⟨i1, i2, -⟩ := split_at_stop hb hsp
    have hpre' : (old = none ∧ s ≤ inp.start ∧ a = inp.start) ∨ (∃ o, old = some o ∧ o.start ≤ s ∧ s ≤ o.stop ∧ a = s) := by
      obtain ⟨_, -, -, -, -, -, -, h0, -⟩ := split_ranges hsp
      rw [i1]
      rcases hpre with ⟨p1, p2, p3⟩ | hp
      · exact Or.inl ⟨p1, by omega, p3⟩
      · exact Or.inr hp
    obtain ⟨r1, r2, r3, r4, r5, -⟩ := step1_ranges (by omega) hpre' hst
    refine ⟨[o], cr, rfl, rfl, ?_, rfl⟩
    simp only [List.cons_append, List.nil_append, Tiles, lastStop]
    exact ⟨r1, r3, r2.symm, r5, by omega⟩
  | cons c rest ih =>
    intro old crd s a buf outs st' hb hpre h
    unfold iterLoop at h
    split at h; · cases h
    rename_i inp buf' hsp
    rw [doCompute_spec1] at h
    split at h; · cases h
    rename_i out st1 hdc
    split at hdc; · cases hdc
    rename_i o cr ci hst
    simp only [Except.ok.injEq, Prod.mk.injEq] at hdc
    obtain ⟨rfl, rfl⟩ := hdc
    simp only at h
    split at h; · cases h
    rename_i buf2 hcat
    split at h; · cases h
    rename_i outs2 st2 hrec
    simp only [Except.ok.injEq, Prod.mk.injEq] at h
    obtain ⟨rfl, rfl⟩ := h
    obtain ⟨i1, i2, -, b1, b2, -⟩ := split_at_stop hb hsp
    have hpre' : (old = none ∧ s ≤ inp.start ∧ a = inp.start) ∨ (∃ o, old = some o ∧ o.start ≤ s ∧ s ≤ o.stop ∧ a = s) := by
      obtain ⟨_, -, -, -, -, -, -, h0, -⟩ := split_ranges hsp
      rw [i1]
      rcases hpre with ⟨p1, p2, p3⟩ | hp
      · exact Or.inl ⟨p1, by omega, p3⟩
      · exact Or.inr hp
    obtain ⟨r1, r2, r3, r4, r5, r6, r7, r8⟩ := step1_ranges (by omega) hpre' hst
    obtain ⟨c1, c2, -, -, -, c6⟩ := concat2_inv hcat
    have hrec' : iterLoop (spec1 f w rid) kind ⟨optDict kind (some ci), [(outType, cr)], cr.start⟩ buf2 rest
        = .ok (outs2, st2) := hrec
    obtain ⟨cs, crf, hcs, hcrf, ht, hlen⟩ := ih (some ci) _ cr.start cr.start buf2 outs2 st2 c6
      (Or.inr ⟨ci, rfl, r6, r7, rfl⟩) hrec'
    refine ⟨o :: cs, crf, by rw [hcs]; rfl, hcrf, ?_, by simp [hlen]⟩
    simp only [List.cons_append, Tiles, lastStop]
    refine ⟨r1, r3, ?_⟩
    rw [r2, lastStop_congr c buf2 rest c2.symm]
    exact ht

theorem mapE_single (cs : List Chunk) :
    mapE single (cs.map (fun c => [(outType, c)])) = .ok cs := by
  induction cs with
  | nil => rfl
  | cons c cs ih => simp only [List.map, mapE, single, ih]

theorem mapE_single_append (cs : List Chunk) (cr : Chunk) :
    mapE single (cs.map (fun c => [(outType, c)]) ++ [[(outType, cr)]]) = .ok (cs ++ [cr]) := by
  have := mapE_single (cs ++ [cr])
  simpa using this

/-- contiguity of everything a single-output plugin yields, for all inputs -/
theorem runOverlap_tiles {f : List Row → List Row} {w : Int × Int} {cs outs : List Chunk}
    (hr : ∀ c ∈ cs, c.start ≤ c.stop) (h : runOverlap f w cs = .ok outs) :
    ∃ c0 cl, cs.head? = some c0 ∧ cs.getLast? = some cl ∧ Tiles c0.start cl.stop outs ∧
      outs.length = cs.length + 1 := by
  unfold runOverlap at h
  split at h; · cases h
  rename_i c rest
  split at h; · cases h
  rename_i rid hrid
  split at h; · cases h
  rename_i ds hds
  simp only [runDicts] at hds
  split at hds; · cases hds
  rename_i outs1 st1 hloop
  simp only [Except.ok.injEq] at hds
  subst hds
  have hloop' : iterLoop (spec1 f w rid) c.kind ⟨optDict c.kind none, [], 0⟩ c rest = .ok (outs1, st1) := hloop
  obtain ⟨ocs, cr, h1, h2, h3, h4⟩ := iterLoop_tiles f w rid c.kind rest none [] 0 c.start c outs1 st1
    (hr c (by simp)) (Or.inl ⟨rfl, Int.le_refl 0, rfl⟩) hloop'
  rw [h1, h2, mapE_single_append] at h
  simp only [Except.ok.injEq] at h
  subst h
  obtain ⟨cl, hcl⟩ : ∃ cl, (c :: rest).getLast? = some cl := by
    cases hl : (c :: rest).getLast? with
    | none => simp at hl
    | some cl => exact ⟨cl, rfl⟩
  refine ⟨c, cl, rfl, hcl, ?_, ?_⟩
  · rw [← lastStop_spec c rest cl hcl]; exact h3
  · simp [h4]

end Strax.Overlap
