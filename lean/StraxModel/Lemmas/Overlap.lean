import StraxModel.Model.Overlap
import StraxModel.Lemmas.ChunkAlg
/-
  Helper lemmas for property C09 (theory T5 "Overlap").

  §1  the single-kind / single-output step of `doCompute` written out (`step1`) and proved equal
  §2  facts about `split` / `concatenate` that need no hypothesis on the chunk
  §3  contiguity of the outputs for ALL inputs
  §4  lists of disjoint rows: decompositions at a time are unique
  §5  the step on good chunks: existence of the result and its description
  §6  the main induction: output = the window-local computation over the whole run
  §7  multi-output plugins: the chunks of one result are aligned
-/
namespace Strax.Overlap
open Strax

/-! ## §1 the single-kind single-output step -/

/-- `OverlapWindowPlugin.do_compute` for one input kind and one output, `old` = cached input,
`s` = `sent_until`; returns (result to send, cached result, cached input) -/
def step1 (f : List Row → List Row) (w : Int × Int) (rid : String) (old : Option Chunk) (s : Int) (X : Chunk) :
    Except Err (Chunk × Chunk × Chunk) :=
  match (match old with
         | none => Except.ok X
         | some o => concatenate [o, X] false) with
  | .error e => .error e
  | .ok I =>
    if w.1 < 0 || w.2 < 0 then .error .valueError
    else if I.superrun.length > 1 then .error .valueError
    else
      match mkChunk outType outKind (some rid) I.start I.stop (f I.rows) I.subruns (some I.superrun) 1000 with
      | .error e => .error e
      | .ok R =>
        match R.split s false with
        | .error e => .error e
        | .ok (_, R') =>
          match R'.split (I.stop - 2 * w.2 - 1) true with
          | .error e => .error e
          | .ok (out, cr) =>
            match I.split (cr.start - 2 * w.1 - 1) true with
            | .error e => .error e
            | .ok (_, ci) => .ok (out, cr, ci)

def optDict (kind : String) : Option Chunk → Dict Chunk
  | none => []
  | some o => [(kind, o)]

theorem uniqueB_single {α} [BEq α] (a : α) : uniqueB [a] = true := rfl

/-- with one entry in `io` and at most that entry in `cached`, `cache_beyond` succeeds in its
first trial -/
theorem cacheBeyond_single (n : Nat) (kind : String) (I : Chunk) (prev : Int) (cached : Dict Chunk)
    (h : cached = [] ∨ ∃ o, cached = [(kind, o)]) :
    cacheBeyond (n + 1) [(kind, I)] prev cached =
      match I.split prev true with
      | .error e => .error e
      | .ok (_, c2) => .ok (c2.start, [(kind, c2)]) := by
  unfold cacheBeyond
  simp only [cachePass]
  cases hs : I.split prev true with
  | error e => rfl
  | ok v =>
    obtain ⟨c1, c2⟩ := v
    rcases h with rfl | ⟨o, rfl⟩
    · simp [dictSet, uniqueB]
    · simp [dictSet, uniqueB]

theorem doCompute_spec1 (f : List Row → List Row) (w : Int × Int) (rid kind : String) (old : Option Chunk)
    (crd : Dict Chunk) (s : Int) (X : Chunk) :
    doCompute (spec1 f w rid) ⟨optDict kind old, crd, s⟩ [(kind, X)] =
      match step1 f w rid old s X with
      | .error e => .error e
      | .ok (out, cr, ci) => .ok ([(outType, out)], ⟨[(kind, ci)], [(outType, cr)], cr.start⟩) := by
  have hpre : prepend (optDict kind old) [(kind, X)] =
      match (match old with
         | none => Except.ok X
         | some o => concatenate [o, X] false) with
      | .error e => .error e
      | .ok I => .ok [(kind, I)] := by
    cases old with
    | none => simp [optDict, prepend]
    | some o =>
      simp only [optDict, prepend, dictGet, List.isEmpty_cons, Bool.false_eq_true, if_false, beq_self_eq_true, if_true]
      cases concatenate [o, X] false <;> rfl
  unfold doCompute step1
  simp only [List.isEmpty_cons, Bool.false_eq_true, if_false, hpre]
  cases (match old with
         | none => Except.ok X
         | some o => concatenate [o, X] false) with
  | error e => rfl
  | ok I =>
    simp only [List.map, uniqueB_single, Bool.not_true, Bool.false_eq_true, if_false]
    rw [show (spec1 f w rid).wl = w.1 from rfl, show (spec1 f w rid).wr = w.2 from rfl,
      show (spec1 f w rid).multi = false from rfl, show (spec1 f w rid).declOK = true from rfl,
      show (spec1 f w rid).signCheck = true from rfl]
    simp only [Bool.not_true, Bool.false_or, Bool.true_and]
    by_cases hw : (decide (w.1 < 0) || decide (w.2 < 0)) = true
    · simp only [hw, ↓reduceIte]
    · simp only [hw, Bool.false_eq_true, ↓reduceIte]
      simp only [spec1, baseCompute, List.map, uniqueB_single, Bool.not_true, Bool.false_and, Bool.false_eq_true,
        if_false, if_true, mapE, fixOutput, dictGet, beq_self_eq_true]
      by_cases hl : I.superrun.length > 1
      · simp only [hl, ↓reduceIte]
      · simp only [hl, ↓reduceIte]
        cases mkChunk outType outKind (some rid) I.start I.stop (f I.rows) I.subruns (some I.superrun) 1000 with
        | error e => rfl
        | ok R =>
          simp only [dropSent, mapE]
          cases R.split s false with
          | error e => rfl
          | ok v =>
            obtain ⟨r0, R'⟩ := v
            simp only
            cases R'.split (I.stop - 2 * w.2 - 1) true with
            | error e => rfl
            | ok v2 =>
              obtain ⟨out, cr⟩ := v2
              simp only [maxTrials]
              rw [cacheBeyond_single 9 kind I _ _ (by cases old <;> simp [optDict])]
              cases I.split (cr.start - 2 * w.1 - 1) true with
              | error e => rfl
              | ok v3 => rfl

/-- inversion of a successful `step1` -/
theorem step1_inv {f : List Row → List Row} {w : Int × Int} {rid : String} {old : Option Chunk} {s : Int}
    {X out cr ci : Chunk} (h : step1 f w rid old s X = .ok (out, cr, ci)) :
    ∃ I R r0 R' i0,
      (match old with
         | none => Except.ok X
         | some o => concatenate [o, X] false) = .ok I ∧
      0 ≤ w.1 ∧ 0 ≤ w.2 ∧
      mkChunk outType outKind (some rid) I.start I.stop (f I.rows) I.subruns (some I.superrun) 1000 = .ok R ∧
      R.split s false = .ok (r0, R') ∧
      R'.split (I.stop - 2 * w.2 - 1) true = .ok (out, cr) ∧
      I.split (cr.start - 2 * w.1 - 1) true = .ok (i0, ci) := by
  unfold step1 at h
  split at h; · cases h
  rename_i I hI
  split at h; · cases h
  rename_i hw
  split at h; · cases h
  split at h; · cases h
  rename_i R hR
  split at h; · cases h
  rename_i r0 R' hs1
  split at h; · cases h
  rename_i out' cr' hs2
  split at h; · cases h
  rename_i i0 ci' hs3
  simp only [Except.ok.injEq, Prod.mk.injEq] at h
  obtain ⟨rfl, rfl, rfl⟩ := h
  simp only [Bool.or_eq_true, decide_eq_true_eq, not_or, Int.not_lt] at hw
  exact ⟨I, R, r0, R', i0, hI, hw.1, hw.2, hR, hs1, hs2, hs3⟩

/-! ## §2 `split` and `concatenate` without hypotheses on the chunk -/

theorem splitData_strict_time {c : Chunk} {t : Int} {d1 d2 : List Row} {t' : Int}
    (hv : splitData c t false = .ok (d1, d2, t')) : t' = max (min t c.stop) c.start := by
  unfold splitData at hv
  split at hv
  · simp [pure, Except.pure] at hv; omega
  · split at hv
    · simp [pure, Except.pure] at hv; omega
    · exact splitArray_strict hv

/-- the ranges of the two halves of any successful split -/
theorem split_ranges {c : Chunk} {t : Int} {early : Bool} {c1 c2 : Chunk} (h : c.split t early = .ok (c1, c2)) :
    ∃ t', t' ≤ max (min t c.stop) c.start ∧ (early = false → t' = max (min t c.stop) c.start) ∧
      c1.start = c.start ∧ c1.stop = max c.start t' ∧ c2.start = max c.start t' ∧ c2.stop = max t' c.stop ∧
      0 ≤ c.start ∧ c2.start ≤ c2.stop := by
  obtain ⟨d1, d2, t', hv, h1, h2⟩ := Chunk.split_ok_inv h
  obtain ⟨-, -, -, f1s, f1e, -, -, f10, -, -⟩ := mkChunk_fields h1
  obtain ⟨-, -, -, f2s, f2e, -, -, -, f2le, -⟩ := mkChunk_fields h2
  refine ⟨t', splitData_time_le hv, ?_, f1s, f1e, f2s, f2e, f10, by rw [f2s, f2e]; exact f2le⟩
  intro he; subst he
  exact splitData_strict_time hv

/-- `Chunk.concatenate([a, b])` whenever it succeeds -/
theorem concat2_inv {a b c : Chunk} (h : concatenate [a, b] false = .ok c) :
    c.start = a.start ∧ c.stop = b.stop ∧ c.rows = a.rows ++ b.rows ∧ a.stop ≤ b.start ∧
      0 ≤ c.start ∧ c.start ≤ c.stop := by
  rw [concatenate_eq] at h
  split at h; · cases h
  split at h; · cases h
  obtain ⟨p, -, h⟩ := bind_eq_ok.1 h
  obtain ⟨sub, -, h⟩ := bind_eq_ok.1 h
  split at h; · cases h
  rename_i hoo
  obtain ⟨-, -, -, fs, fe, fr, -, f0, fle, -⟩ := mkChunk_fields h
  simp only [outOfOrder, Bool.or_false, Bool.or_eq_true, decide_eq_true_eq, not_or, Int.not_lt] at hoo
  refine ⟨fs, by rw [fe]; simp, by rw [fr]; simp, hoo.2, by rw [fs]; exact f0, by rw [fs, fe]; exact fle⟩

/-! ## §3 contiguity of the outputs, for all inputs -/

/-- output chunks tile `[a, b)`: the first starts at `a`, each starts where its predecessor ended,
the last ends at `b` -/
def Tiles (a b : Int) : List Chunk → Prop
  | [] => a = b
  | c :: rest => c.start = a ∧ c.start ≤ c.stop ∧ Tiles c.stop b rest

/-- one step: the result starts where the previous one ended (`a`), the cached result takes over
where the result ends and reaches the end of the input -/
theorem step1_ranges {f : List Row → List Row} {w : Int × Int} {rid : String} {old : Option Chunk} {s a : Int}
    {X out cr ci : Chunk} (hX : X.start ≤ X.stop)
    (hpre : (old = none ∧ s ≤ X.start ∧ a = X.start) ∨ (∃ o, old = some o ∧ o.start ≤ s ∧ s ≤ o.stop ∧ a = s))
    (h : step1 f w rid old s X = .ok (out, cr, ci)) :
    out.start = a ∧ out.stop = cr.start ∧ out.start ≤ out.stop ∧ cr.stop = X.stop ∧ cr.start ≤ cr.stop ∧
      ci.start ≤ cr.start ∧ cr.start ≤ ci.stop ∧ ci.stop = X.stop := by
  obtain ⟨I, R, r0, R', i0, hI, hwl, hwr, hR, hs1, hs2, hs3⟩ := step1_inv h
  -- the input of this call
  have hIr : I.start ≤ a ∧ a ≤ I.stop ∧ I.stop = X.stop ∧ max (min s I.stop) I.start = a ∧ I.start ≤ I.stop := by
    rcases hpre with ⟨rfl, hs, rfl⟩ | ⟨o, rfl, ho1, ho2, rfl⟩
    · simp only [Except.ok.injEq] at hI; subst hI
      exact ⟨Int.le_refl _, hX, rfl, by omega, hX⟩
    · obtain ⟨c1, c2, -, c4, -, c6⟩ := concat2_inv hI
      exact ⟨by omega, by omega, c2, by omega, c6⟩
  obtain ⟨hIa, haI, hIX, hclamp, hIle⟩ := hIr
  obtain ⟨-, -, -, hRs, hRe, -⟩ := mkChunk_fields hR
  obtain ⟨t1, -, ht1, -, -, hR's, hR'e, -, -⟩ := split_ranges hs1
  have ht1 := ht1 rfl
  rw [hRs, hRe, hclamp] at ht1
  rw [hRs, ht1] at hR's
  rw [hRe, ht1] at hR'e
  obtain ⟨t2, ht2, -, hos, hoe, hcs, hce, -, hcle⟩ := split_ranges hs2
  obtain ⟨t3, ht3, -, -, -, his, hie, -, -⟩ := split_ranges hs3
  refine ⟨by omega, by omega, by omega, by omega, hcle, by omega, by omega, by omega⟩

/-- splitting a chunk at its own end (what `Plugin.iter` does with a single dependency) -/
theorem split_at_stop {c c1 c2 : Chunk} {early : Bool} (hc : c.start ≤ c.stop)
    (h : c.split c.stop early = .ok (c1, c2)) :
    c1.start = c.start ∧ c1.stop = c.stop ∧ c1.rows = c.rows ∧ c2.start = c.stop ∧ c2.stop = c.stop ∧ c2.rows = [] ∧
      c1.dataType = c.dataType ∧ c2.dataType = c.dataType := by
  obtain ⟨d1, d2, t', hv, h1, h2⟩ := Chunk.split_ok_inv h
  have hm : max (min c.stop c.stop) c.start = c.stop := by omega
  unfold splitData at hv
  rw [if_pos hm] at hv
  simp only [pure, Except.pure, Except.ok.injEq, Prod.mk.injEq] at hv
  obtain ⟨rfl, rfl, rfl⟩ := hv
  obtain ⟨f1d, -, -, f1s, f1e, f1r, -⟩ := mkChunk_fields h1
  obtain ⟨f2d, -, -, f2s, f2e, f2r, -⟩ := mkChunk_fields h2
  rw [hm] at f1e f2s f2e
  exact ⟨f1s, by omega, f1r, by omega, by omega, f2r, f1d, f2d⟩

def lastStop : Chunk → List Chunk → Int
  | b, [] => b.stop
  | _, c :: rest => lastStop c rest

theorem lastStop_spec (b : Chunk) (rest : List Chunk) (cl : Chunk) (h : (b :: rest).getLast? = some cl) :
    lastStop b rest = cl.stop := by
  induction rest generalizing b with
  | nil => simp at h; subst h; rfl
  | cons c rest ih =>
    rw [List.getLast?_cons_cons] at h
    exact ih c h

theorem lastStop_congr (b b' : Chunk) (rest : List Chunk) (h : b.stop = b'.stop) : lastStop b rest = lastStop b' rest := by
  cases rest <;> simp [lastStop, h]

theorem Tiles_cons {a b : Int} {c : Chunk} {rest : List Chunk} :
    Tiles a b (c :: rest) ↔ c.start = a ∧ c.start ≤ c.stop ∧ Tiles c.stop b rest := Iff.rfl

/-- the outputs of the single-dependency loop tile the span from the expected start to the end
of the last chunk -/
theorem iterLoop_tiles (f : List Row → List Row) (w : Int × Int) (rid kind : String) :
    ∀ (rest : List Chunk) (old : Option Chunk) (crd : Dict Chunk) (s a : Int) (buf : Chunk)
      (outs : List (Dict Chunk)) (st' : State),
    buf.start ≤ buf.stop →
    ((old = none ∧ s ≤ 0 ∧ a = buf.start) ∨ (∃ o, old = some o ∧ o.start ≤ s ∧ s ≤ o.stop ∧ a = s)) →
    iterLoop (spec1 f w rid) kind ⟨optDict kind old, crd, s⟩ buf rest = .ok (outs, st') →
    ∃ (cs : List Chunk) (cr : Chunk), outs = cs.map (fun c => [(outType, c)]) ∧
      st'.cachedResults = [(outType, cr)] ∧ Tiles a (lastStop buf rest) (cs ++ [cr]) ∧
      cs.length = rest.length + 1 := by
  intro rest
  induction rest with
  | nil =>
    intro old crd s a buf outs st' hb hpre h
    unfold iterLoop at h
    split at h; · cases h
    rename_i inp buf' hsp
    rw [doCompute_spec1] at h
    split at h; · cases h
    rename_i out st1 hdc
    split at hdc; · cases hdc
    rename_i o cr ci hst
    simp only [Except.ok.injEq, Prod.mk.injEq] at hdc
    obtain ⟨rfl, rfl⟩ := hdc
    simp only at h
    by_cases hstrict : ((spec1 f w rid).strict && !buf'.rows.isEmpty) = true
    · rw [if_pos hstrict] at h; cases h
    rw [if_neg hstrict] at h
    simp only [Except.ok.injEq, Prod.mk.injEq] at h
    obtain ⟨rfl, rfl⟩ := h
    obtain ⟨i1, i2, -⟩ := split_at_stop hb hsp
    have hpre' : (old = none ∧ s ≤ inp.start ∧ a = inp.start) ∨ (∃ o, old = some o ∧ o.start ≤ s ∧ s ≤ o.stop ∧ a = s) := by
      obtain ⟨_, -, -, -, -, -, -, h0, -⟩ := split_ranges hsp
      rw [i1]
      rcases hpre with ⟨p1, p2, p3⟩ | hp
      · exact Or.inl ⟨p1, by omega, p3⟩
      · exact Or.inr hp
    obtain ⟨r1, r2, r3, r4, r5, -⟩ := step1_ranges (by omega) hpre' hst
    refine ⟨[o], cr, rfl, rfl, ?_, rfl⟩
    simp only [List.cons_append, List.nil_append, Tiles, lastStop]
    exact ⟨r1, r3, r2.symm, r5, by omega⟩
  | cons c rest ih =>
    intro old crd s a buf outs st' hb hpre h
    unfold iterLoop at h
    split at h; · cases h
    rename_i inp buf' hsp
    rw [doCompute_spec1] at h
    split at h; · cases h
    rename_i out st1 hdc
    split at hdc; · cases hdc
    rename_i o cr ci hst
    simp only [Except.ok.injEq, Prod.mk.injEq] at hdc
    obtain ⟨rfl, rfl⟩ := hdc
    simp only at h
    split at h; · cases h
    rename_i buf2 hcat
    split at h; · cases h
    rename_i outs2 st2 hrec
    simp only [Except.ok.injEq, Prod.mk.injEq] at h
    obtain ⟨rfl, rfl⟩ := h
    obtain ⟨i1, i2, -, b1, b2, -⟩ := split_at_stop hb hsp
    have hpre' : (old = none ∧ s ≤ inp.start ∧ a = inp.start) ∨ (∃ o, old = some o ∧ o.start ≤ s ∧ s ≤ o.stop ∧ a = s) := by
      obtain ⟨_, -, -, -, -, -, -, h0, -⟩ := split_ranges hsp
      rw [i1]
      rcases hpre with ⟨p1, p2, p3⟩ | hp
      · exact Or.inl ⟨p1, by omega, p3⟩
      · exact Or.inr hp
    obtain ⟨r1, r2, r3, r4, r5, r6, r7, r8⟩ := step1_ranges (by omega) hpre' hst
    obtain ⟨c1, c2, -, -, -, c6⟩ := concat2_inv hcat
    have hrec' : iterLoop (spec1 f w rid) kind ⟨optDict kind (some ci), [(outType, cr)], cr.start⟩ buf2 rest
        = .ok (outs2, st2) := hrec
    obtain ⟨cs, crf, hcs, hcrf, ht, hlen⟩ := ih (some ci) _ cr.start cr.start buf2 outs2 st2 c6
      (Or.inr ⟨ci, rfl, r6, r7, rfl⟩) hrec'
    refine ⟨o :: cs, crf, by rw [hcs]; rfl, hcrf, ?_, by simp [hlen]⟩
    simp only [List.cons_append, Tiles, lastStop]
    refine ⟨r1, r3, ?_⟩
    rw [r2, lastStop_congr c buf2 rest c2.symm]
    exact ht

theorem mapE_single (cs : List Chunk) :
    mapE single (cs.map (fun c => [(outType, c)])) = .ok cs := by
  induction cs with
  | nil => rfl
  | cons c cs ih => simp only [List.map, mapE, single, ih]

theorem mapE_single_append (cs : List Chunk) (cr : Chunk) :
    mapE single (cs.map (fun c => [(outType, c)]) ++ [[(outType, cr)]]) = .ok (cs ++ [cr]) := by
  have := mapE_single (cs ++ [cr])
  simpa using this

/-- contiguity of everything a single-output plugin yields, for all inputs -/
theorem runOverlap_tiles {f : List Row → List Row} {w : Int × Int} {cs outs : List Chunk}
    (hr : ∀ c ∈ cs, c.start ≤ c.stop) (h : runOverlap f w cs = .ok outs) :
    ∃ c0 cl, cs.head? = some c0 ∧ cs.getLast? = some cl ∧ Tiles c0.start cl.stop outs ∧
      outs.length = cs.length + 1 := by
  unfold runOverlap at h
  split at h; · cases h
  rename_i c rest
  split at h; · cases h
  rename_i rid hrid
  split at h; · cases h
  rename_i ds hds
  simp only [runDicts] at hds
  split at hds; · cases hds
  rename_i outs1 st1 hloop
  simp only [Except.ok.injEq] at hds
  subst hds
  have hloop' : iterLoop (spec1 f w rid) c.kind ⟨optDict c.kind none, [], 0⟩ c rest = .ok (outs1, st1) := hloop
  obtain ⟨ocs, cr, h1, h2, h3, h4⟩ := iterLoop_tiles f w rid c.kind rest none [] 0 c.start c outs1 st1
    (hr c (by simp)) (Or.inl ⟨rfl, Int.le_refl 0, rfl⟩) hloop'
  rw [h1, h2, mapE_single_append] at h
  simp only [Except.ok.injEq] at h
  subst h
  obtain ⟨cl, hcl⟩ : ∃ cl, (c :: rest).getLast? = some cl := by
    cases hl : (c :: rest).getLast? with
    | none => simp at hl
    | some cl => exact ⟨cl, rfl⟩
  refine ⟨c, cl, rfl, hcl, ?_, ?_⟩
  · rw [← lastStop_spec c rest cl hcl]; exact h3
  · simp [h4]

/-! ## §4 lists of positive-duration rows: decompositions at a time -/

/-- if a list is cut in two ways, the left part of the second cut ending no later than the right
part of the first cut starts, then the second cut is the earlier one -/
theorem append_split_sep {L1 L2 M1 M2 : List Row} {t t' : Int} (hpos : PositiveRows (L1 ++ L2))
    (h : L1 ++ L2 = M1 ++ M2) (hM1 : ∀ x ∈ M1, x.endt ≤ t) (hL2 : ∀ x ∈ L2, t' ≤ x.time) (htt : t ≤ t') :
    ∃ K, L1 = M1 ++ K ∧ M2 = K ++ L2 := by
  rcases List.append_eq_append_iff.1 h with ⟨a', h1, h2⟩ | ⟨c', h1, h2⟩
  · -- M1 = L1 ++ a', L2 = a' ++ M2 : a' must be empty
    cases a' with
    | nil => exact ⟨[], by simpa using h1.symm, by simpa using h2.symm⟩
    | cons x xs =>
      have hx1 := hM1 x (by rw [h1]; simp)
      have hx2 := hL2 x (by rw [h2]; simp)
      have hx3 := hpos x (by rw [h2]; simp)
      omega
  · exact ⟨c', h1, h2⟩

/-- a list of positive-duration rows has at most one decomposition into rows ending by `t` followed
by rows starting from `t` on -/
theorem sep_unique {A B A' B' : List Row} {t : Int} (hpos : PositiveRows (A ++ B)) (h : A ++ B = A' ++ B')
    (hA : ∀ x ∈ A, x.endt ≤ t) (hB : ∀ x ∈ B, t ≤ x.time) (hB' : ∀ x ∈ B', t ≤ x.time)
    (hA' : ∀ x ∈ A', x.endt ≤ t) : A = A' ∧ B = B' := by
  obtain ⟨K, h1, h2⟩ := append_split_sep hpos h hA' hB (Int.le_refl t)
  cases K with
  | nil => exact ⟨by simpa using h1, by simpa using h2.symm⟩
  | cons x xs =>
    have hx1 := hA x (by rw [h1]; simp)
    have hx2 := hB' x (by rw [h2]; simp)
    have hx3 := hpos x (by rw [h1]; simp)
    omega

/-- the rows `ctx` as seen from the rows of `l`: the per-row computation with kernel `g` -/
def ctxMap (wl wr : Int) (g : Row → List Row → Row) (ctx l : List Row) : List Row :=
  l.map (fun r => g r (ctx.filter (near wl wr r)))

theorem perRow_eq_ctxMap (wl wr : Int) (g : Row → List Row → Row) (rows : List Row) :
    perRow wl wr g rows = ctxMap wl wr g rows rows := rfl

theorem ctxMap_append (wl wr : Int) (g : Row → List Row → Row) (ctx a b : List Row) :
    ctxMap wl wr g ctx (a ++ b) = ctxMap wl wr g ctx a ++ ctxMap wl wr g ctx b := by
  simp [ctxMap]

theorem ctxMap_nil (wl wr : Int) (g : Row → List Row → Row) (ctx : List Row) : ctxMap wl wr g ctx [] = [] := rfl

/-- interval-preserving kernel -/
def Keeps (g : Row → List Row → Row) : Prop := ∀ r ctx, (g r ctx).time = r.time ∧ (g r ctx).endt = r.endt

theorem ctxMap_mem {wl wr : Int} {g : Row → List Row → Row} (hg : Keeps g) {ctx l : List Row} {y : Row}
    (hy : y ∈ ctxMap wl wr g ctx l) : ∃ r ∈ l, y.time = r.time ∧ y.endt = r.endt := by
  simp only [ctxMap, List.mem_map] at hy
  obtain ⟨r, hr, rfl⟩ := hy
  exact ⟨r, hr, hg r _⟩

theorem ctxMap_positive {wl wr : Int} {g : Row → List Row → Row} (hg : Keeps g) {ctx l : List Row}
    (h : PositiveRows l) : PositiveRows (ctxMap wl wr g ctx l) := by
  intro y hy
  obtain ⟨r, hr, h1, h2⟩ := ctxMap_mem hg hy
  have := h r hr; omega

theorem ctxMap_sorted {wl wr : Int} {g : Row → List Row → Row} (hg : Keeps g) {ctx l : List Row}
    (h : SortedByTime l) : SortedByTime (ctxMap wl wr g ctx l) := by
  rw [sortedByTime_iff_pairwise] at *
  simp only [ctxMap, List.pairwise_map]
  refine h.imp ?_
  intro a b hab
  rw [(hg a _).1, (hg b _).1]; exact hab

/-- rows that end before the window of `r` opens or start after it closes do not matter -/
theorem filter_near_ctx (wl wr : Int) (r : Row) (D I F : List Row)
    (hD : ∀ n ∈ D, n.endt ≤ r.time - wl) (hF : ∀ n ∈ F, r.endt + wr ≤ n.time) :
    (D ++ I ++ F).filter (near wl wr r) = I.filter (near wl wr r) := by
  have h1 : D.filter (near wl wr r) = [] := by
    rw [List.filter_eq_nil_iff]
    intro n hn
    have := hD n hn
    simp only [near, Bool.and_eq_true, decide_eq_true_eq, not_and]
    intro; omega
  have h2 : F.filter (near wl wr r) = [] := by
    rw [List.filter_eq_nil_iff]
    intro n hn
    have := hF n hn
    simp only [near, Bool.and_eq_true, decide_eq_true_eq, not_and]
    intro; omega
  simp [List.filter_append, h1, h2]

theorem ctxMap_congr {wl wr : Int} {g : Row → List Row → Row} {ctx ctx' l : List Row}
    (h : ∀ r ∈ l, ctx.filter (near wl wr r) = ctx'.filter (near wl wr r)) :
    ctxMap wl wr g ctx l = ctxMap wl wr g ctx' l := by
  simp only [ctxMap]
  apply List.map_congr_left
  intro r hr
  rw [h r hr]

/-! ## §5 splits of good chunks exist -/

theorem split_good_early_ok {c : Chunk} (hg : c.good = true) (t : Int) : ∃ c1 c2, c.split t true = .ok (c1, c2) := by
  have hg' := hg
  simp only [Chunk.good, Bool.and_eq_true] at hg'
  obtain ⟨hwf, hsimple⟩ := hg'
  obtain ⟨hsub, rid, hrid, hsup⟩ := (Chunk.simple_iff c).1 hsimple
  obtain ⟨h0, hse, hs, hpos, hin⟩ := (Chunk.wf_iff c).1 hwf
  have hex : ∃ v, splitData c t true = .ok v := by
    unfold splitData
    split; · exact ⟨_, rfl⟩
    split; · exact ⟨_, rfl⟩
    exact splitArray_early_ok _ _
  obtain ⟨⟨d1, d2, t'⟩, hv⟩ := hex
  obtain ⟨ha, hst, hts, hl, hr⟩ := splitData_wf hwf hv
  have hin1 : ∀ x ∈ d1, c.start ≤ x.time ∧ x.endt ≤ t' :=
    fun x hx => ⟨(hin x (by rw [← ha]; simp [hx])).1, hl x hx⟩
  have hin2 : ∀ x ∈ d2, t' ≤ x.time ∧ x.endt ≤ c.stop :=
    fun x hx => ⟨hr x hx, (hin x (by rw [← ha]; simp [hx])).2⟩
  exact ⟨_, _, split_simple_ok hsub hsup h0 hst hts hin1 hin2 hv⟩

theorem split_good_strict_ok {c : Chunk} (hg : c.good = true) (t : Int)
    (hns : ¬ ∃ r ∈ c.rows, r.straddles t) : ∃ c1 c2, c.split t false = .ok (c1, c2) := by
  have hg' := hg
  simp only [Chunk.good, Bool.and_eq_true] at hg'
  obtain ⟨hwf, hsimple⟩ := hg'
  obtain ⟨hsub, rid, hrid, hsup⟩ := (Chunk.simple_iff c).1 hsimple
  obtain ⟨h0, hse, hs, hpos, hin⟩ := (Chunk.wf_iff c).1 hwf
  have hnn : ∀ r ∈ c.rows, 0 ≤ r.time := by intro r hr; have := hin r hr; omega
  have hex : ∃ v, splitData c t false = .ok v := by
    cases hv : splitData c t false with
    | ok v => exact ⟨v, rfl⟩
    | error e =>
      obtain ⟨h1, h2, hsa⟩ := splitData_error hv
      have := splitArray_strict_error hsa
      subst this
      exact absurd (straddler_of_splitArray_refuses hnn hsa) hns
  obtain ⟨⟨d1, d2, t'⟩, hv⟩ := hex
  obtain ⟨ha, hst, hts, hl, hr⟩ := splitData_wf hwf hv
  have hin1 : ∀ x ∈ d1, c.start ≤ x.time ∧ x.endt ≤ t' :=
    fun x hx => ⟨(hin x (by rw [← ha]; simp [hx])).1, hl x hx⟩
  have hin2 : ∀ x ∈ d2, t' ≤ x.time ∧ x.endt ≤ c.stop :=
    fun x hx => ⟨hr x hx, (hin x (by rw [← ha]; simp [hx])).2⟩
  exact ⟨_, _, split_simple_ok hsub hsup h0 hst hts hin1 hin2 hv⟩

/-- `split_good` with the fields spelled out -/
theorem split_good' {c : Chunk} {t : Int} {early : Bool} {c1 c2 : Chunk}
    (hg : c.good = true) (h : c.split t early = .ok (c1, c2)) :
    ∃ t', c.start ≤ t' ∧ t' ≤ c.stop ∧ t' ≤ max t c.start ∧ (early = false → t' = max (min t c.stop) c.start) ∧
      c1.start = c.start ∧ c1.stop = t' ∧ c2.start = t' ∧ c2.stop = c.stop ∧
      c1.dataType = c.dataType ∧ c2.dataType = c.dataType ∧ c1.runId = c.runId ∧ c2.runId = c.runId ∧
      c1.rows ++ c2.rows = c.rows ∧ (∀ x ∈ c1.rows, x.endt ≤ t') ∧ (∀ x ∈ c2.rows, t' ≤ x.time) ∧
      c1.good = true ∧ c2.good = true := by
  obtain ⟨rid, t', hrid, h1, h2, h3, hc1, hc2, hrows, hl, hr, g1, g2⟩ := split_good hg h
  obtain ⟨t'', -, hstrict, -, -, hs2, -, -, -⟩ := split_ranges h
  have e1 : c1.start = c.start := by rw [hc1]
  have e2 : c1.stop = t' := by rw [hc1]
  have e3 : c2.start = t' := by rw [hc2]
  have e4 : c2.stop = c.stop := by rw [hc2]
  refine ⟨t', h1, h2, h3, ?_, e1, e2, e3, e4, by rw [hc1], by rw [hc2], by rw [hc1, hrid], by rw [hc2, hrid],
    hrows, hl, hr, g1, g2⟩
  intro he
  have := hstrict he
  have hse : c.start ≤ c.stop := by omega
  omega

/-- the chunk handed to `compute`: the new chunk, or the cached input followed by it -/
theorem input_good {rid : String} {old : Option Chunk} {s : Int} {X : Chunk} {S2 P : List Row}
    (hX : X.good = true) (hXr : X.runId = some rid)
    (hold : (old = none ∧ S2 = [] ∧ P = [] ∧ s ≤ X.start) ∨
      (∃ o, old = some o ∧ o.good = true ∧ o.dataType = X.dataType ∧ o.runId = some rid ∧ o.stop = X.start ∧
        o.rows = S2 ++ P ∧ o.start ≤ s ∧ s ≤ o.stop)) :
    ∃ I a, (match old with
         | none => Except.ok X
         | some o => concatenate [o, X] false) = .ok I ∧
      I.good = true ∧ I.rows = S2 ++ P ++ X.rows ∧ I.stop = X.stop ∧ I.runId = some rid ∧ I.dataType = X.dataType ∧
      a = max (min s I.stop) I.start ∧ s ≤ a ∧ I.start ≤ a ∧ a ≤ I.stop ∧
      (∀ r ∈ X.rows, a ≤ r.time) ∧ (P ≠ [] → a = s) := by
  have hX' := hX
  simp only [Chunk.good, Bool.and_eq_true] at hX'
  obtain ⟨x0, xse, -, -, xin⟩ := (Chunk.wf_iff X).1 hX'.1
  rcases hold with ⟨rfl, rfl, rfl, hs⟩ | ⟨o, rfl, ho, hdt, hor, hadj, hrows, hs1, hs2⟩
  · refine ⟨X, X.start, rfl, hX, by simp, rfl, hXr, rfl, by omega, hs, Int.le_refl _, xse, ?_, by simp⟩
    intro r hr; exact (xin r hr).1
  · obtain ⟨rid', hr', hcat, hgood⟩ := concat_good2 ho hX hadj hdt (by rw [hor, hXr])
    rw [hor] at hr'
    simp only [Option.some.injEq] at hr'
    subst hr'
    have ho' := ho
    simp only [Chunk.good, Bool.and_eq_true] at ho'
    obtain ⟨o0, ose, -, -, -⟩ := (Chunk.wf_iff o).1 ho'.1
    refine ⟨_, s, hcat, hgood, by simp [hrows], rfl, rfl, hdt, by simp only; omega, Int.le_refl _, hs1,
      by simp only; omega, ?_, fun _ => rfl⟩
    intro r hr; have := (xin r hr).1; omega

/-- The step on good chunks, with the intermediate chunks exposed (used by the multi-output proof). The step on good chunks. `S2 ++ P` are the rows of the cached input: the results for `S2` have
been sent (they end by `s`), those for `P` are pending (they start from `s` on).  The call
succeeds; it sends the results for `Qo` and keeps those for `Qc`, where `P ++ X.rows = Qo ++ Qc`;
every row of `Qo` ends at least `2·wr + 1` before the end of the input; the new input cache
drops `D2`, rows ending at least `2·wl + 1` before the new `sent_until`. -/
theorem step1_good_ex {g : Row → List Row → Row} (hg : Keeps g) {f : List Row → List Row} {wl wr : Int}
    (hf : ∀ rows, PositiveRows rows → f rows = perRow wl wr g rows) (hwl : 0 ≤ wl) (hwr : 0 ≤ wr)
    {rid : String} {old : Option Chunk} {s : Int} {X : Chunk} {S2 P : List Row}
    (hX : X.good = true) (hXr : X.runId = some rid)
    (hold : (old = none ∧ S2 = [] ∧ P = [] ∧ s ≤ X.start) ∨
      (∃ o, old = some o ∧ o.good = true ∧ o.dataType = X.dataType ∧ o.runId = some rid ∧ o.stop = X.start ∧
        o.rows = S2 ++ P ∧ o.start ≤ s ∧ s ≤ o.stop))
    (hS2 : ∀ r ∈ S2, r.endt ≤ s) (hP : ∀ r ∈ P, s ≤ r.time) :
    ∃ out cr ci Qo Qc D2 S2',
      step1 f (wl, wr) rid old s X = .ok (out, cr, ci) ∧
      P ++ X.rows = Qo ++ Qc ∧
      out.rows = ctxMap wl wr g (S2 ++ P ++ X.rows) Qo ∧
      cr.rows = ctxMap wl wr g (S2 ++ P ++ X.rows) Qc ∧
      (∀ r ∈ Qo, r.endt ≤ X.stop - 2 * wr - 1) ∧ (∀ r ∈ Qo ++ Qc, s ≤ r.time) ∧
      ci.good = true ∧ ci.dataType = X.dataType ∧ ci.runId = some rid ∧ ci.stop = X.stop ∧
      ci.start ≤ cr.start ∧ cr.start ≤ ci.stop ∧ s ≤ cr.start ∧
      S2 ++ Qo = D2 ++ S2' ∧ ci.rows = S2' ++ Qc ∧
      (∀ n ∈ D2, n.endt ≤ cr.start - 2 * wl - 1) ∧ (∀ r ∈ S2', r.endt ≤ cr.start) ∧
      (∀ r ∈ Qc, cr.start ≤ r.time) ∧
      -- the chunks the call went through
      ∃ I r0 R' i0, (match old with
         | none => Except.ok X
         | some o => concatenate [o, X] false) = .ok I ∧
        I.good = true ∧ I.rows = S2 ++ P ++ X.rows ∧ I.runId = some rid ∧ I.subruns = none ∧
        I.superrun = [⟨rid, I.start, I.stop⟩] ∧
        (Chunk.good ⟨outType, outKind, some rid, I.start, I.stop, perRow wl wr g I.rows, none,
          [⟨rid, I.start, I.stop⟩], 1000⟩) = true ∧
        (Chunk.split ⟨outType, outKind, some rid, I.start, I.stop, perRow wl wr g I.rows, none,
          [⟨rid, I.start, I.stop⟩], 1000⟩ s false) = .ok (r0, R') ∧ R'.good = true ∧
        R'.split (I.stop - 2 * wr - 1) true = .ok (out, cr) ∧
        I.split (cr.start - 2 * wl - 1) true = .ok (i0, ci) := by
  obtain ⟨I, a, hI, hIg, hIrows, hIstop, hIrid, hIdt, ha, hsa, hIa, haI, hXa, hPa⟩ := input_good hX hXr hold
  have hIg' := hIg
  simp only [Chunk.good, Bool.and_eq_true] at hIg'
  obtain ⟨hIwf, hIsimple⟩ := hIg'
  obtain ⟨hIsub, rid', hrid', hIsup⟩ := (Chunk.simple_iff I).1 hIsimple
  rw [hIrid] at hrid'; simp only [Option.some.injEq] at hrid'; subst hrid'
  obtain ⟨hI0, hIse, hIsorted, hIpos, hIin⟩ := (Chunk.wf_iff I).1 hIwf
  have hPa' : ∀ r ∈ P, a ≤ r.time := by
    intro r hr
    have : P ≠ [] := by intro h; rw [h] at hr; simp at hr
    rw [hPa this]; exact hP r hr
  have hQa : ∀ r ∈ P ++ X.rows, a ≤ r.time := by
    intro r hr
    rcases List.mem_append.1 hr with h | h
    · exact hPa' r h
    · exact hXa r h
  -- the result chunk
  have hRrows : perRow wl wr g I.rows = ctxMap wl wr g I.rows S2 ++ ctxMap wl wr g I.rows (P ++ X.rows) := by
    rw [perRow_eq_ctxMap, ← ctxMap_append, hIrows, List.append_assoc]
  have hRin : ∀ x ∈ perRow wl wr g I.rows, I.start ≤ x.time ∧ x.endt ≤ I.stop := by
    intro x hx
    obtain ⟨r, hr, h1, h2⟩ := ctxMap_mem hg (by rw [perRow_eq_ctxMap] at hx; exact hx)
    have := hIin r hr; omega
  have hR := mkChunk_plain (dt := outType) (k := outKind) (rid := rid) (tg := 1000)
    (sup := some [⟨rid, I.start, I.stop⟩]) hI0 hIse hRin (Or.inr rfl)
  have hRpos : PositiveRows (perRow wl wr g I.rows) := by
    rw [perRow_eq_ctxMap]; exact ctxMap_positive hg hIpos
  have hRg : (Chunk.good ⟨outType, outKind, some rid, I.start, I.stop, perRow wl wr g I.rows, none,
      [⟨rid, I.start, I.stop⟩], 1000⟩) = true := by
    simp only [Chunk.good, Bool.and_eq_true]
    refine ⟨(Chunk.wf_iff _).2 ⟨hI0, hIse, ?_, hRpos, hRin⟩, (Chunk.simple_iff _).2 ⟨rfl, rid, rfl, rfl⟩⟩
    rw [perRow_eq_ctxMap]; exact ctxMap_sorted hg hIsorted
  -- drop what has been sent
  have hns : ¬ ∃ r ∈ perRow wl wr g I.rows, r.straddles s := by
    rintro ⟨y, hy, hy1, hy2⟩
    rw [hRrows] at hy
    rcases List.mem_append.1 hy with h | h
    · obtain ⟨r, hr, -, h2⟩ := ctxMap_mem hg h
      have := hS2 r hr; omega
    · obtain ⟨r, hr, h1, -⟩ := ctxMap_mem hg h
      have := hQa r hr; omega
  obtain ⟨r0, R', hs1⟩ := split_good_strict_ok hRg s hns
  obtain ⟨t1, -, -, -, ht1, -, -, hR's, hR'e, -, -, -, -, hrows1, hl1, hr1, -, hR'g⟩ := split_good' hRg hs1
  have ht1 : t1 = a := by rw [ht1 rfl, ha]
  subst ht1
  have hR'rows : R'.rows = ctxMap wl wr g I.rows (P ++ X.rows) := by
    have := sep_unique (t := t1) (by rw [hrows1]; exact hRpos) (hrows1.trans hRrows) hl1 hr1
      (by
        intro y hy
        obtain ⟨r, hr, h1, -⟩ := ctxMap_mem hg hy
        have := hQa r hr; omega)
      (by
        intro y hy
        obtain ⟨r, hr, -, h2⟩ := ctxMap_mem hg hy
        have := hS2 r hr; omega)
    exact this.2
  -- send what is final, keep the rest
  obtain ⟨out, cr, hs2⟩ := split_good_early_ok hR'g (I.stop - 2 * wr - 1)
  obtain ⟨t2, ht2a, ht2b, ht2c, -, hos, hoe, hcs, hce, -, -, -, -, hrows2, hl2, hr2, hog, hcg⟩ := split_good' hR'g hs2
  rw [hR's] at ht2a ht2c hos
  rw [hR'e] at ht2b hce
  obtain ⟨Qo, Qc, hQ, hQo, hQc⟩ : ∃ Qo Qc, P ++ X.rows = Qo ++ Qc ∧ out.rows = ctxMap wl wr g I.rows Qo ∧
      cr.rows = ctxMap wl wr g I.rows Qc := by
    have h := hrows2.trans hR'rows
    simp only [ctxMap] at h
    obtain ⟨l1, l2, e1, e2, e3⟩ := List.append_eq_map_iff.1 h
    exact ⟨l1, l2, e1, e2.symm, e3.symm⟩
  have hQo_end : ∀ r ∈ Qo, r.endt ≤ t2 := by
    intro r hr
    have hy : g r (I.rows.filter (near wl wr r)) ∈ out.rows := by
      rw [hQo]; simp only [ctxMap, List.mem_map]; exact ⟨r, hr, rfl⟩
    have := hl2 _ hy
    rw [(hg r _).2] at this; exact this
  have hQc_start : ∀ r ∈ Qc, t2 ≤ r.time := by
    intro r hr
    have hy : g r (I.rows.filter (near wl wr r)) ∈ cr.rows := by
      rw [hQc]; simp only [ctxMap, List.mem_map]; exact ⟨r, hr, rfl⟩
    have := hr2 _ hy
    rw [(hg r _).1] at this; exact this
  have hog' := hog
  simp only [Chunk.good, Bool.and_eq_true] at hog'
  obtain ⟨-, -, -, hopos, hoin⟩ := (Chunk.wf_iff out).1 hog'.1
  have hQo_final : ∀ r ∈ Qo, r.endt ≤ X.stop - 2 * wr - 1 := by
    intro r hr
    have hy : g r (I.rows.filter (near wl wr r)) ∈ out.rows := by
      rw [hQo]; simp only [ctxMap, List.mem_map]; exact ⟨r, hr, rfl⟩
    have h1 := hoin _ hy
    have h2 := hopos _ hy
    have h3 := hQo_end r hr
    rw [(hg r _).1, (hg r _).2, hos, hoe] at h1
    rw [(hg r _).1, (hg r _).2] at h2
    rw [← hIstop]
    omega
  -- cache the input that later results may need
  obtain ⟨i0, ci, hs3⟩ := split_good_early_ok hIg (cr.start - 2 * wl - 1)
  obtain ⟨t3, ht3a, ht3b, ht3c, -, -, -, his, hie, -, hidt, -, hirid, hrows3, hl3, hr3, -, hig⟩ := split_good' hIg hs3
  rw [hcs] at ht3c
  have hD2 : ∀ n ∈ i0.rows, n.endt ≤ t2 - 2 * wl - 1 := by
    intro n hn
    have h1 := hl3 n hn
    have hn' : n ∈ I.rows := by rw [← hrows3]; simp [hn]
    have h2 := hIin n hn'
    have h3 := hIpos n hn'
    omega
  have hsplit : (S2 ++ Qo) ++ Qc = i0.rows ++ ci.rows := by
    rw [hrows3, hIrows, List.append_assoc, List.append_assoc, hQ]
  obtain ⟨S2', hK1, hK2⟩ := append_split_sep (t := t2 - 2 * wl - 1) (t' := t2)
    (by rw [hsplit, hrows3]; exact hIpos) hsplit hD2 hQc_start (by omega)
  refine ⟨out, cr, ci, Qo, Qc, i0.rows, S2', ?_, hQ, ?_, ?_, hQo_final, ?_, hig, by rw [hidt, hIdt], by rw [hirid, hIrid],
    by rw [hie, hIstop], by rw [his, hcs]; omega, by rw [hcs, hie]; exact ht2b, by rw [hcs]; omega, hK1, hK2,
    by rw [hcs]; exact hD2, ?_, by rw [hcs]; exact hQc_start,
    I, r0, R', i0, hI, hIg, hIrows, hIrid, hIsub, hIsup, hRg, hs1, hR'g, hs2, hs3⟩
  · -- the computation itself
    unfold step1
    simp only [hI]
    have hw : ¬ ((decide ((wl, wr).1 < 0) || decide ((wl, wr).2 < 0)) = true) := by
      simp only [Bool.or_eq_true, decide_eq_true_eq, not_or, Int.not_lt]; exact ⟨hwl, hwr⟩
    rw [if_neg hw]
    have hlen : ¬ (I.superrun.length > 1) := by rw [hIsup]; simp
    rw [if_neg hlen, hIsub, hIsup, hf I.rows hIpos, hR]
    simp only [hs1, hs2, hs3]
  · rw [hQo, hIrows]
  · rw [hQc, hIrows]
  · intro r hr
    rw [← hQ] at hr
    have := hQa r hr; omega
  · intro r hr
    have hr' : r ∈ S2 ++ Qo := by rw [hK1]; simp [hr]
    rw [hcs]
    rcases List.mem_append.1 hr' with h | h
    · have := hS2 r h; omega
    · exact hQo_end r h

/-- The step on good chunks. `S2 ++ P` are the rows of the cached input: the results for `S2` have
been sent (they end by `s`), those for `P` are pending (they start from `s` on).  The call
succeeds; it sends the results for `Qo` and keeps those for `Qc`, where `P ++ X.rows = Qo ++ Qc`;
every row of `Qo` ends at least `2·wr + 1` before the end of the input; the new input cache
drops `D2`, rows ending at least `2·wl + 1` before the new `sent_until`. -/
theorem step1_good {g : Row → List Row → Row} (hg : Keeps g) {f : List Row → List Row} {wl wr : Int}
    (hf : ∀ rows, PositiveRows rows → f rows = perRow wl wr g rows) (hwl : 0 ≤ wl) (hwr : 0 ≤ wr)
    {rid : String} {old : Option Chunk} {s : Int} {X : Chunk} {S2 P : List Row}
    (hX : X.good = true) (hXr : X.runId = some rid)
    (hold : (old = none ∧ S2 = [] ∧ P = [] ∧ s ≤ X.start) ∨
      (∃ o, old = some o ∧ o.good = true ∧ o.dataType = X.dataType ∧ o.runId = some rid ∧ o.stop = X.start ∧
        o.rows = S2 ++ P ∧ o.start ≤ s ∧ s ≤ o.stop))
    (hS2 : ∀ r ∈ S2, r.endt ≤ s) (hP : ∀ r ∈ P, s ≤ r.time) :
    ∃ out cr ci Qo Qc D2 S2',
      step1 f (wl, wr) rid old s X = .ok (out, cr, ci) ∧
      P ++ X.rows = Qo ++ Qc ∧
      out.rows = ctxMap wl wr g (S2 ++ P ++ X.rows) Qo ∧
      cr.rows = ctxMap wl wr g (S2 ++ P ++ X.rows) Qc ∧
      (∀ r ∈ Qo, r.endt ≤ X.stop - 2 * wr - 1) ∧ (∀ r ∈ Qo ++ Qc, s ≤ r.time) ∧
      ci.good = true ∧ ci.dataType = X.dataType ∧ ci.runId = some rid ∧ ci.stop = X.stop ∧
      ci.start ≤ cr.start ∧ cr.start ≤ ci.stop ∧ s ≤ cr.start ∧
      S2 ++ Qo = D2 ++ S2' ∧ ci.rows = S2' ++ Qc ∧
      (∀ n ∈ D2, n.endt ≤ cr.start - 2 * wl - 1) ∧ (∀ r ∈ S2', r.endt ≤ cr.start) ∧
      (∀ r ∈ Qc, cr.start ≤ r.time) := by
  obtain ⟨out, cr, ci, Qo, Qc, D2, S2', h1, h2, h3, h4, h5, h6, h7, h8, h9, h10, h11, h12, h13, h14, h15, h16, h17,
    h18, -⟩ := step1_good_ex hg hf hwl hwr hX hXr hold hS2 hP
  exact ⟨out, cr, ci, Qo, Qc, D2, S2', h1, h2, h3, h4, h5, h6, h7, h8, h9, h10, h11, h12, h13, h14, h15, h16, h17, h18⟩

/-! ## §6 the main induction -/

/-- consecutive chunks are adjacent, the first starting at `e` -/
def Chain (e : Int) : List Chunk → Prop
  | [] => True
  | c :: rest => c.start = e ∧ Chain c.stop rest

theorem allRows_cons (c : Chunk) (rest : List Chunk) : allRows (c :: rest) = c.rows ++ allRows rest := by
  simp [allRows]

theorem chain_rows_later {e : Int} {rest : List Chunk} (hc : Chain e rest) (hg : ∀ c ∈ rest, c.good = true) :
    ∀ n ∈ allRows rest, e ≤ n.time := by
  induction rest generalizing e with
  | nil => intro n hn; simp [allRows] at hn
  | cons c rest ih =>
    intro n hn
    obtain ⟨h1, h2⟩ := hc
    have hcg := hg c (by simp)
    simp only [Chunk.good, Bool.and_eq_true] at hcg
    obtain ⟨-, cse, -, -, cin⟩ := (Chunk.wf_iff c).1 hcg.1
    rw [allRows_cons] at hn
    rcases List.mem_append.1 hn with h | h
    · have := (cin n h).1; omega
    · have := ih h2 (fun c hc => hg c (by simp [hc])) n h; omega

theorem flatMap_rows_map_wrap (cs : List Chunk) : cs.flatMap (·.rows) = allRows cs := rfl

theorem iterLoop_whole {g : Row → List Row → Row} (hg : Keeps g) {f : List Row → List Row} {wl wr : Int}
    (hf : ∀ rows, PositiveRows rows → f rows = perRow wl wr g rows) (hwl : 0 ≤ wl) (hwr : 0 ≤ wr)
    (rid kind dt : String) (T : List Row) :
    ∀ (rest : List Chunk) (old : Option Chunk) (crd : Dict Chunk) (s : Int) (buf : Chunk) (Dtot S2 P : List Row),
    buf.good = true → buf.runId = some rid → buf.dataType = dt →
    (∀ c ∈ rest, c.good = true ∧ c.runId = some rid ∧ c.dataType = dt) →
    Chain buf.stop rest →
    ((old = none ∧ S2 = [] ∧ P = [] ∧ s ≤ buf.start) ∨
      (∃ o, old = some o ∧ o.good = true ∧ o.dataType = dt ∧ o.runId = some rid ∧ o.stop = buf.start ∧
        o.rows = S2 ++ P ∧ o.start ≤ s ∧ s ≤ o.stop)) →
    (∀ r ∈ S2, r.endt ≤ s) → (∀ r ∈ P, s ≤ r.time) →
    T = Dtot ++ (S2 ++ P ++ buf.rows) ++ allRows rest →
    (∀ n ∈ Dtot, n.endt ≤ s - 2 * wl - 1) →
    ∃ outs st' cs cr,
      iterLoop (spec1 f (wl, wr) rid) kind ⟨optDict kind old, crd, s⟩ buf rest = .ok (outs, st') ∧
      outs = cs.map (fun c => [(outType, c)]) ∧ st'.cachedResults = [(outType, cr)] ∧
      allRows cs ++ cr.rows = ctxMap wl wr g T (P ++ buf.rows ++ allRows rest) := by
  intro rest
  induction rest with
  | nil =>
    intro old crd s buf Dtot S2 P hbg hbr hbd hrest hchain hold hS2 hP hT hD
    have hbg' := hbg
    simp only [Chunk.good, Bool.and_eq_true] at hbg'
    obtain ⟨-, bse, -, -, -⟩ := (Chunk.wf_iff buf).1 hbg'.1
    obtain ⟨inp, buf', hsp⟩ := split_good_early_ok hbg buf.stop
    obtain ⟨i1, i2, i3, b1, b2, b3, i4, b4⟩ := split_at_stop bse hsp
    obtain ⟨_, -, -, -, -, -, -, -, -, -, -, i5, b5, -, -, -, hig, hb'g⟩ := split_good' hbg hsp
    have hold' : (old = none ∧ S2 = [] ∧ P = [] ∧ s ≤ inp.start) ∨
      (∃ o, old = some o ∧ o.good = true ∧ o.dataType = inp.dataType ∧ o.runId = some rid ∧ o.stop = inp.start ∧
        o.rows = S2 ++ P ∧ o.start ≤ s ∧ s ≤ o.stop) := by
      rw [i1, i4, hbd]; exact hold
    obtain ⟨out, cr, ci, Qo, Qc, D2, S2', hstep, hQ, hout, hcr, hQof, hQs, -⟩ :=
      step1_good hg hf hwl hwr hig (by rw [i5, hbr]) hold' hS2 hP
    rw [i3] at hQ hout hcr
    refine ⟨[[(outType, out)]], ⟨[(kind, ci)], [(outType, cr)], cr.start⟩, [out], cr, ?_, rfl, rfl, ?_⟩
    · unfold iterLoop
      simp only [hsp, doCompute_spec1, hstep, b3]
      rfl
    · simp only [allRows, List.flatMap_cons, List.flatMap_nil, List.append_nil]
      rw [hout, hcr, ← ctxMap_append, ← hQ]
      apply ctxMap_congr
      intro r hr
      rw [hT]
      simp only [allRows, List.flatMap_nil, List.append_nil]
      have := filter_near_ctx wl wr r Dtot (S2 ++ P ++ buf.rows) [] (by
        intro n hn
        have h1 := hD n hn
        have h2 := hQs r (by rw [← hQ]; exact hr)
        omega) (by simp)
      simpa using this.symm
  | cons c rest ih =>
    intro old crd s buf Dtot S2 P hbg hbr hbd hrest hchain hold hS2 hP hT hD
    have hbg' := hbg
    simp only [Chunk.good, Bool.and_eq_true] at hbg'
    obtain ⟨-, bse, -, -, -⟩ := (Chunk.wf_iff buf).1 hbg'.1
    obtain ⟨inp, buf', hsp⟩ := split_good_early_ok hbg buf.stop
    obtain ⟨i1, i2, i3, b1, b2, b3, i4, b4⟩ := split_at_stop bse hsp
    obtain ⟨_, -, -, -, -, -, -, -, -, -, -, i5, b5, -, -, -, hig, hb'g⟩ := split_good' hbg hsp
    have hold' : (old = none ∧ S2 = [] ∧ P = [] ∧ s ≤ inp.start) ∨
      (∃ o, old = some o ∧ o.good = true ∧ o.dataType = inp.dataType ∧ o.runId = some rid ∧ o.stop = inp.start ∧
        o.rows = S2 ++ P ∧ o.start ≤ s ∧ s ≤ o.stop) := by
      rw [i1, i4, hbd]; exact hold
    obtain ⟨out, cr, ci, Qo, Qc, D2, S2', hstep, hQ, hout, hcr, hQof, hQs, hcig, hcid, hcir, hcie, hci1, hci2, hss,
      hK1, hK2, hD2, hS2', hQc⟩ := step1_good hg hf hwl hwr hig (by rw [i5, hbr]) hold' hS2 hP
    rw [i3] at hQ hout hcr
    obtain ⟨hcg, hcr', hcd⟩ := hrest c (by simp)
    obtain ⟨hch1, hch2⟩ := hchain
    obtain ⟨rid', hr', hcat, hb2g⟩ := concat_good2 hb'g hcg (by rw [b2, hch1]) (by rw [b4, hbd, hcd]) (by rw [b5, hbr, hcr'])
    rw [b5, hbr] at hr'
    simp only [Option.some.injEq] at hr'
    subst hr'
    -- the recursive call
    have hT' : T = (Dtot ++ D2) ++ (S2' ++ Qc ++ (buf'.rows ++ c.rows)) ++ allRows rest := by
      rw [hT, allRows_cons, b3]
      have e1 : S2 ++ P ++ buf.rows = S2 ++ (Qo ++ Qc) := by rw [List.append_assoc, hQ]
      rw [e1, ← List.append_assoc S2 Qo Qc, hK1]
      simp only [List.append_assoc, List.nil_append]
    obtain ⟨outs2, st2, cs2, crf, hrec, hcs2, hcrf, hrows⟩ := ih (some ci) [(outType, cr)] cr.start
      ⟨buf'.dataType, buf'.kind, some rid, buf'.start, c.stop, buf'.rows ++ c.rows, none,
        [⟨rid, buf'.start, c.stop⟩], max buf'.target c.target⟩ (Dtot ++ D2) S2' Qc
      hb2g rfl (by simp only; rw [b4, hbd])
      (fun c' hc' => hrest c' (by simp [hc'])) hch2
      (Or.inr ⟨ci, rfl, hcig, by rw [hcid, i4, hbd], hcir, by rw [hcie, i2, b1], hK2, hci1, hci2⟩)
      hS2' hQc hT'
      (by
        intro n hn
        rcases List.mem_append.1 hn with h | h
        · have := hD n h; omega
        · exact hD2 n h)
    refine ⟨[(outType, out)] :: outs2, st2, out :: cs2, crf, ?_, by rw [hcs2]; rfl, hcrf, ?_⟩
    · unfold iterLoop
      simp only [hsp, doCompute_spec1, hstep, hcat]
      have hrec' : iterLoop (spec1 f (wl, wr) rid) kind
          ⟨[(kind, ci)], [(outType, cr)], cr.start⟩ _ rest = .ok (outs2, st2) := hrec
      rw [hrec']
    · rw [allRows_cons, List.append_assoc, hrows, b3, allRows_cons]
      simp only [List.nil_append]
      have hout' : out.rows = ctxMap wl wr g T Qo := by
        rw [hout]
        apply ctxMap_congr
        intro r hr
        rw [hT]
        have hlater := chain_rows_later (e := buf.stop) (rest := c :: rest) ⟨hch1, hch2⟩ (fun c' hc' => (hrest c' hc').1)
        exact (filter_near_ctx wl wr r Dtot (S2 ++ P ++ buf.rows) (allRows (c :: rest)) (by
          intro n hn
          have h1 := hD n hn
          have h2 := hQs r (by simp [hr])
          omega) (by
          intro n hn
          have h1 := hlater n hn
          have h2 := hQof r hr
          rw [i2] at h2
          omega)).symm
      rw [hout', ← ctxMap_append, ← List.append_assoc Qo, ← List.append_assoc Qo, ← hQ]
      simp only [List.append_assoc]

/-! ### from the decidable hypothesis `Stream` to the invariant -/

theorem disjointB_cons_cons (a b : Row) (l : List Row) :
    disjointB (a :: b :: l) = (decide (a.endt ≤ b.time) && disjointB (b :: l)) := rfl

theorem disjointB_tail {a : Row} {l : List Row} (h : disjointB (a :: l) = true) : disjointB l = true := by
  cases l with
  | nil => rfl
  | cons b l => rw [disjointB_cons_cons, Bool.and_eq_true] at h; exact h.2

theorem disjointB_append {a b : List Row} (h : disjointB (a ++ b) = true) : disjointB a = true ∧ disjointB b = true := by
  induction a with
  | nil => exact ⟨rfl, h⟩
  | cons x a ih =>
    have ht := ih (disjointB_tail h)
    refine ⟨?_, ht.2⟩
    cases a with
    | nil => rfl
    | cons y a =>
      simp only [List.cons_append] at h
      rw [disjointB_cons_cons, Bool.and_eq_true] at h
      rw [disjointB_cons_cons, Bool.and_eq_true]
      exact ⟨h.1, ht.1⟩

theorem sorted_of_disjoint {l : List Row} (hd : disjointB l = true) (hp : PositiveRows l) : SortedByTime l := by
  induction l with
  | nil => trivial
  | cons a l ih =>
    cases l with
    | nil => trivial
    | cons b l =>
      rw [disjointB_cons_cons, Bool.and_eq_true, decide_eq_true_eq] at hd
      refine ⟨?_, ih hd.2 (fun r hr => hp r (by simp [hr]))⟩
      have := hp a (by simp); omega

theorem plain_good {dt kind rid : String} {c : Chunk} (hp : plainB dt kind rid c = true)
    (hd : disjointB c.rows = true) : c.good = true ∧ c.runId = some rid ∧ c.dataType = dt ∧ c.kind = kind := by
  simp only [plainB, Bool.and_eq_true, beq_iff_eq, decide_eq_true_eq, List.all_eq_true, Option.isNone_iff_eq_none] at hp
  obtain ⟨⟨⟨⟨⟨⟨⟨h1, h2⟩, h3⟩, h4⟩, h5⟩, h6⟩, h7⟩, h8⟩ := hp
  have hpos : PositiveRows c.rows := fun r hr => (h8 r hr).1.2
  refine ⟨?_, h3, h1, h2⟩
  simp only [Chunk.good, Bool.and_eq_true]
  refine ⟨(Chunk.wf_iff c).2 ⟨h6, h7, sorted_of_disjoint hd hpos, hpos, fun r hr => ⟨(h8 r hr).1.1, (h8 r hr).2⟩⟩,
    (Chunk.simple_iff c).2 ⟨h4, rid, h3, h5⟩⟩

theorem chain_of_adjacent {c : Chunk} {rest : List Chunk} (h : adjacentB (c :: rest) = true) : Chain c.stop rest := by
  induction rest generalizing c with
  | nil => trivial
  | cons d rest ih =>
    simp only [adjacentB, Bool.and_eq_true, decide_eq_true_eq] at h
    exact ⟨h.1.symm, ih h.2⟩

theorem stream_parts {cs : List Chunk} (hs : Stream cs) :
    ∃ c rest rid, cs = c :: rest ∧ c.runId = some rid ∧
      (∀ c' ∈ c :: rest, c'.good = true ∧ c'.runId = some rid ∧ c'.dataType = c.dataType) ∧
      Chain c.stop rest ∧ 0 ≤ c.start := by
  unfold Stream streamB at hs
  split at hs; · cases hs
  rename_i c rest
  split at hs; · cases hs
  rename_i rid hrid
  simp only [Bool.and_eq_true, List.all_eq_true] at hs
  obtain ⟨⟨hall, hadj⟩, hdis⟩ := hs
  have hd : ∀ c' ∈ c :: rest, disjointB c'.rows = true := by
    intro c' hc'
    obtain ⟨pre, post, hpp⟩ := List.append_of_mem hc'
    rw [hpp] at hdis
    simp only [List.flatMap_append, List.flatMap_cons] at hdis
    exact (disjointB_append (disjointB_append hdis).2).1
  refine ⟨c, rest, rid, rfl, hrid, ?_, chain_of_adjacent hadj, ?_⟩
  · intro c' hc'
    obtain ⟨g1, g2, g3, -⟩ := plain_good (hall c' hc') (hd c' hc')
    exact ⟨g1, g2, g3⟩
  · have := (plain_good (hall c (by simp)) (hd c (by simp))).1
    simp only [Chunk.good, Bool.and_eq_true] at this
    exact ((Chunk.wf_iff c).1 this.1).1

/-- The whole-run theorem for a per-row computation given by an interval-preserving kernel: on a
law-abiding chunking of a run of disjoint rows the plugin does not fail, and everything it yields,
concatenated, is the computation over the whole run. -/
theorem runOverlap_whole {g : Row → List Row → Row} (hg : Keeps g) {f : List Row → List Row} {wl wr : Int}
    (hf : ∀ rows, PositiveRows rows → f rows = perRow wl wr g rows) (hwl : 0 ≤ wl) (hwr : 0 ≤ wr)
    {cs : List Chunk} (hs : Stream cs) :
    ∃ outs, runOverlap f (wl, wr) cs = .ok outs ∧ allRows outs = f (allRows cs) := by
  obtain ⟨c, rest, rid, rfl, hrid, hall, hchain, h0⟩ := stream_parts hs
  obtain ⟨hcg, -, -⟩ := hall c (by simp)
  obtain ⟨outs, st', ocs, cr, hloop, houts, hcr, hrows⟩ :=
    iterLoop_whole hg hf hwl hwr rid c.kind c.dataType (allRows (c :: rest)) rest none [] 0 c [] [] []
      hcg hrid rfl (fun c' hc' => hall c' (by simp [hc'])) hchain (Or.inl ⟨rfl, rfl, rfl, h0⟩)
      (by simp) (by simp) (by simp [allRows_cons]) (by simp)
  refine ⟨ocs ++ [cr], ?_, ?_⟩
  · unfold runOverlap
    simp only [hrid, runDicts]
    have hloop' : iterLoop (spec1 f (wl, wr) rid) c.kind State.init c rest = .ok (outs, st') := hloop
    rw [hloop']
    simp only [houts, hcr, mapE_single_append]
  · have : allRows (ocs ++ [cr]) = allRows ocs ++ cr.rows := by simp [allRows]
    have hposT : PositiveRows (allRows (c :: rest)) := by
      intro r hr
      simp only [allRows, List.mem_flatMap] at hr
      obtain ⟨c', hc', hr'⟩ := hr
      have hg' := (hall c' hc').1
      simp only [Chunk.good, Bool.and_eq_true] at hg'
      exact ((Chunk.wf_iff c').1 hg'.1).2.2.2.1 r hr'
    rw [this, hrows, hf _ hposT, perRow_eq_ctxMap, allRows_cons]
    simp

/-! ## §7 multi-output plugins: the chunks of one result are aligned -/

def keys {α : Type} (d : Dict α) : List String := d.map (·.1)

theorem dictGet_dictSet {α : Type} (d : Dict α) (k k' : String) (v : α) :
    dictGet (dictSet d k v) k' = if k' = k then some v else dictGet d k' := by
  induction d with
  | nil =>
    simp only [dictSet, dictGet]
    by_cases h : k' = k
    · subst h; simp
    · have : (k == k') = false := by simp; exact fun e => h e.symm
      simp [h, this]
  | cons p d ih =>
    obtain ⟨k0, v0⟩ := p
    simp only [dictSet]
    by_cases h0 : (k0 == k) = true
    · have e0 : k0 = k := by simpa using h0
      subst e0
      simp only [beq_self_eq_true, if_true, dictGet]
      by_cases h : k' = k0
      · subst h; simp
      · have : (k0 == k') = false := by simp; exact fun e => h e.symm
        simp [h, this]
    · have h0' : (k0 == k) = false := by simpa using h0
      simp only [h0', Bool.false_eq_true, if_false, dictGet]
      by_cases h1 : (k0 == k') = true
      · have e1 : k0 = k' := by simpa using h1
        subst e1
        have : ¬ k0 = k := by simpa using h0'
        simp [this]
      · have h1' : (k0 == k') = false := by simpa using h1
        simp only [h1', Bool.false_eq_true, if_false, ih]

theorem keys_dictSet {α : Type} (d : Dict α) (k : String) (v : α) :
    keys (dictSet d k v) = if k ∈ keys d then keys d else keys d ++ [k] := by
  induction d with
  | nil => simp [dictSet, keys]
  | cons p d ih =>
    obtain ⟨k0, v0⟩ := p
    simp only [dictSet]
    by_cases h0 : (k0 == k) = true
    · have e0 : k0 = k := by simpa using h0
      subst e0
      simp [keys]
    · have h0' : (k0 == k) = false := by simpa using h0
      have hne : ¬ k = k0 := by intro e; subst e; simp at h0'
      simp only [h0', Bool.false_eq_true, if_false]
      simp only [keys, List.map_cons, List.mem_cons, hne, false_or] at ih ⊢
      rw [ih]
      split <;> simp [*]

theorem mem_of_dictGet {α : Type} {d : Dict α} {k : String} {v : α} (h : dictGet d k = some v) : (k, v) ∈ d := by
  induction d with
  | nil => simp [dictGet] at h
  | cons p d ih =>
    obtain ⟨k0, v0⟩ := p
    simp only [dictGet] at h
    split at h
    · rename_i hk
      have e : k0 = k := by simpa using hk
      simp only [Option.some.injEq] at h
      subst e h; simp
    · simp [ih h]

theorem dictGet_of_mem {α : Type} {d : Dict α} {k : String} {v : α} (hnd : (keys d).Nodup) (h : (k, v) ∈ d) :
    dictGet d k = some v := by
  induction d with
  | nil => simp at h
  | cons p d ih =>
    obtain ⟨k0, v0⟩ := p
    simp only [keys, List.map_cons, List.nodup_cons] at hnd
    simp only [List.mem_cons, Prod.mk.injEq] at h
    simp only [dictGet]
    rcases h with ⟨rfl, rfl⟩ | h
    · simp
    · have hne : ¬ k0 = k := by
        intro e; subst e
        exact hnd.1 (List.mem_map.2 ⟨(k0, v), h, rfl⟩)
      have : (k0 == k) = false := by simpa using hne
      simp only [this, Bool.false_eq_true, if_false]
      exact ih hnd.2 h

theorem keys_dictSet_nodup {α : Type} {d : Dict α} (k : String) (v : α) (h : (keys d).Nodup) :
    (keys (dictSet d k v)).Nodup := by
  rw [keys_dictSet]
  split
  · exact h
  · rename_i hk
    rw [List.nodup_append]
    refine ⟨h, by simp, ?_⟩
    intro a ha b hb
    simp at hb; subst hb
    intro e; subst e; exact hk ha

theorem keys_dictSet_sub {α : Type} {d : Dict α} (k : String) (v : α) {names : List String}
    (h : ∀ x ∈ keys d, x ∈ names) (hk : k ∈ names) : ∀ x ∈ keys (dictSet d k v), x ∈ names := by
  rw [keys_dictSet]
  split
  · exact h
  · intro x hx
    simp at hx
    rcases hx with hx | rfl
    · exact h x (by simpa [keys] using hx)
    · exact hk

theorem keys_cons {α : Type} (k : String) (v : α) (d : Dict α) : keys ((k, v) :: d) = k :: keys d := rfl

theorem splitAll_spec (t : Int) : ∀ (result cached outs cached' : Dict Chunk),
    splitAll t result cached = .ok (outs, cached') → (keys result).Nodup → (keys cached).Nodup →
    (keys cached').Nodup ∧
    (∀ x ∈ keys cached', x ∈ keys cached ∨ x ∈ keys result) ∧
    (∀ k, k ∉ keys result → dictGet cached' k = dictGet cached k) ∧
    (∀ k c1, (k, c1) ∈ outs → ∃ c c2, (k, c) ∈ result ∧ c.split t true = .ok (c1, c2) ∧ dictGet cached' k = some c2) ∧
    (∀ k, k ∈ keys result → ∃ c c1 c2, (k, c) ∈ result ∧ c.split t true = .ok (c1, c2) ∧ dictGet cached' k = some c2) := by
  intro result
  induction result with
  | nil =>
    intro cached outs cached' h _ hc
    simp only [splitAll, Except.ok.injEq, Prod.mk.injEq] at h
    obtain ⟨rfl, rfl⟩ := h
    exact ⟨hc, fun x hx => Or.inl hx, fun _ _ => rfl, by simp, by simp [keys]⟩
  | cons p rest ih =>
    intro cached outs cached' h hnd hc
    obtain ⟨k0, c0⟩ := p
    simp only [splitAll] at h
    split at h; · cases h
    rename_i c1 c2 hsp
    split at h; · cases h
    rename_i outs' cached'' hrec
    simp only [Except.ok.injEq, Prod.mk.injEq] at h
    obtain ⟨rfl, rfl⟩ := h
    rw [keys_cons, List.nodup_cons] at hnd
    obtain ⟨i1, i2, i3, i4, i5⟩ := ih _ _ _ hrec hnd.2 (keys_dictSet_nodup k0 c2 hc)
    have hk0 : dictGet cached'' k0 = some c2 := by
      rw [i3 k0 hnd.1, dictGet_dictSet]; simp
    refine ⟨i1, ?_, ?_, ?_, ?_⟩
    · intro x hx
      rcases i2 x hx with h | h
      · rw [keys_dictSet] at h
        split at h
        · exact Or.inl h
        · simp at h
          rcases h with h | rfl
          · exact Or.inl (by simpa [keys] using h)
          · exact Or.inr (by simp [keys_cons])
      · exact Or.inr (by simp [keys_cons, h])
    · intro k hk
      rw [keys_cons, List.mem_cons, not_or] at hk
      rw [i3 k hk.2, dictGet_dictSet, if_neg hk.1]
    · intro k c1' hmem
      rcases List.mem_cons.1 hmem with h | h
      · simp only [Prod.mk.injEq] at h
        obtain ⟨rfl, rfl⟩ := h
        exact ⟨c0, c2, by simp, hsp, hk0⟩
      · obtain ⟨c, c2', m1, m2, m3⟩ := i4 k c1' h
        exact ⟨c, c2', by simp [m1], m2, m3⟩
    · intro k hk
      rw [keys_cons, List.mem_cons] at hk
      rcases hk with rfl | hk
      · exact ⟨c0, c1, c2, by simp, hsp, hk0⟩
      · obtain ⟨c, c1', c2', m1, m2, m3⟩ := i5 k hk
        exact ⟨c, c1', c2', by simp [m1], m2, m3⟩

theorem cachePass_keys : ∀ (io : Dict Chunk) (prev : Int) (cached : Dict Chunk) (p' : Int) (cached' : Dict Chunk),
    cachePass io prev cached = .ok (p', cached') → (keys cached).Nodup →
    (keys cached').Nodup ∧ ∀ x ∈ keys cached', x ∈ keys cached ∨ x ∈ keys io := by
  intro io
  induction io with
  | nil =>
    intro prev cached p' cached' h hc
    simp only [cachePass, Except.ok.injEq, Prod.mk.injEq] at h
    obtain ⟨rfl, rfl⟩ := h
    exact ⟨hc, fun x hx => Or.inl hx⟩
  | cons p rest ih =>
    intro prev cached p' cached' h hc
    obtain ⟨k0, c0⟩ := p
    simp only [cachePass] at h
    split at h; · cases h
    rename_i c1 c2 hsp
    obtain ⟨i1, i2⟩ := ih _ _ _ _ h (keys_dictSet_nodup k0 c2 hc)
    refine ⟨i1, ?_⟩
    intro x hx
    rcases i2 x hx with h | h
    · rw [keys_dictSet] at h
      split at h
      · exact Or.inl h
      · simp at h
        rcases h with h | rfl
        · exact Or.inl (by simpa [keys] using h)
        · exact Or.inr (by simp [keys_cons])
    · exact Or.inr (by simp [keys_cons, h])

theorem cacheBeyond_keys : ∀ (n : Nat) (io : Dict Chunk) (prev : Int) (cached : Dict Chunk) (p' : Int) (cached' : Dict Chunk),
    cacheBeyond n io prev cached = .ok (p', cached') → (keys cached).Nodup →
    (keys cached').Nodup ∧ ∀ x ∈ keys cached', x ∈ keys cached ∨ x ∈ keys io := by
  intro n
  induction n with
  | zero => intro io prev cached p' cached' h; simp [cacheBeyond] at h
  | succ n ih =>
    intro io prev cached p' cached' h hc
    simp only [cacheBeyond] at h
    split at h; · cases h
    rename_i p1 c1 hpass
    obtain ⟨j1, j2⟩ := cachePass_keys _ _ _ _ _ hpass hc
    split at h
    · simp only [Except.ok.injEq, Prod.mk.injEq] at h
      obtain ⟨rfl, rfl⟩ := h
      exact ⟨j1, j2⟩
    · obtain ⟨i1, i2⟩ := ih _ _ _ _ _ h j1
      refine ⟨i1, ?_⟩
      intro x hx
      rcases i2 x hx with h | h
      · exact j2 x h
      · exact Or.inr h

theorem mapE_ok_mem {α β : Type} {f : α → Except Err β} : ∀ {l : List α} {r : List β},
    mapE f l = .ok r → ∀ b ∈ r, ∃ a ∈ l, f a = .ok b := by
  intro l
  induction l with
  | nil => intro r h; simp only [mapE, Except.ok.injEq] at h; subst h; simp
  | cons a l ih =>
    intro r h
    simp only [mapE] at h
    split at h; · cases h
    rename_i b hb
    split at h; · cases h
    rename_i bs hbs
    simp only [Except.ok.injEq] at h; subst h
    intro b' hb'
    rcases List.mem_cons.1 hb' with rfl | hb'
    · exact ⟨a, by simp, hb⟩
    · obtain ⟨a', ha', hf⟩ := ih hbs b' hb'
      exact ⟨a', by simp [ha'], hf⟩

theorem mapE_ok_map {α β γ : Type} {f : α → Except Err β} {φ : β → γ} {ψ : α → γ}
    (hf : ∀ a b, f a = .ok b → φ b = ψ a) : ∀ {l : List α} {r : List β},
    mapE f l = .ok r → r.map φ = l.map ψ := by
  intro l
  induction l with
  | nil => intro r h; simp only [mapE, Except.ok.injEq] at h; subst h; rfl
  | cons a l ih =>
    intro r h
    simp only [mapE] at h
    split at h; · cases h
    rename_i b hb
    split at h; · cases h
    rename_i bs hbs
    simp only [Except.ok.injEq] at h; subst h
    simp only [List.map_cons, hf a b hb, ih hbs]

/-- all chunks of one result share one range -/
def AlignedD (d : Dict Chunk) : Prop := ∀ p ∈ d, ∀ q ∈ d, p.2.start = q.2.start ∧ p.2.stop = q.2.stop

theorem baseCompute_shape {P : Spec} {kwargs result : Dict Chunk} (h : baseCompute P kwargs = .ok result) :
    keys result = P.provides.map (·.1) ∧ ∃ A E, A ≤ E ∧ ∀ p ∈ result, p.2.start = A ∧ p.2.stop = E := by
  unfold baseCompute at h
  split at h; · cases h
  rename_i k0 c0 rest
  simp only at h
  split at h; · cases h
  split at h; · cases h
  split at h; · cases h
  have hfix : ∀ (A E : Int) (sub : Option Runs) (sup : Runs) (res : Dict (List Row)) (p : String × String) (b : String × Chunk),
      fixOutput P A E sub sup res p = .ok b → b.1 = p.1 ∧ b.2.start = A ∧ b.2.stop = E ∧ A ≤ E := by
    intro A E sub sup res p b hb
    unfold fixOutput at hb
    split at hb; · cases hb
    split at hb; · cases hb
    split at hb; · cases hb
    rename_i c hc
    simp only [Except.ok.injEq] at hb; subst hb
    obtain ⟨-, -, -, f1, f2, -, -, -, f3, -⟩ := mkChunk_fields hc
    exact ⟨rfl, f1, f2, f3⟩
  refine ⟨?_, ?_⟩
  · exact mapE_ok_map (φ := fun b => b.1) (ψ := fun p => p.1) (fun a b hb => (hfix _ _ _ _ _ a b hb).1) h
  · cases hr : result with
    | nil => exact ⟨0, 0, Int.le_refl _, by simp⟩
    | cons q qs =>
      obtain ⟨a, -, ha⟩ := mapE_ok_mem h q (by rw [hr]; simp)
      obtain ⟨-, -, -, hle⟩ := hfix _ _ _ _ _ a q ha
      refine ⟨_, _, hle, ?_⟩
      intro p hp
      obtain ⟨a', -, ha'⟩ := mapE_ok_mem h p (by rw [hr]; exact hp)
      obtain ⟨-, h1, h2, -⟩ := hfix _ _ _ _ _ a' p ha'
      exact ⟨h1, h2⟩

theorem dropSent_shape {s : Int} {result result' : Dict Chunk} {A E : Int} (hAE : A ≤ E)
    (hr : ∀ p ∈ result, p.2.start = A ∧ p.2.stop = E) (h : dropSent s result = .ok result') :
    keys result' = keys result ∧ ∀ p ∈ result', p.2.start = max (min s E) A ∧ p.2.stop = E := by
  unfold dropSent at h
  have hf : ∀ (a b : String × Chunk), (match a.2.split s false with
      | .error e => Except.error e
      | .ok (_, c2) => Except.ok (a.1, c2)) = Except.ok b → b.1 = a.1 ∧ ∃ c1, a.2.split s false = .ok (c1, b.2) := by
    intro a b hb
    split at hb; · cases hb
    rename_i c1 c2 hsp
    simp only [Except.ok.injEq] at hb; subst hb
    exact ⟨rfl, c1, hsp⟩
  refine ⟨mapE_ok_map (φ := fun b : String × Chunk => b.1) (ψ := fun p : String × Chunk => p.1)
    (fun a b hb => (hf a b hb).1) h, ?_⟩
  intro p hp
  obtain ⟨a, ha, hfa⟩ := mapE_ok_mem h p hp
  obtain ⟨-, c1, hsp⟩ := hf a p hfa
  obtain ⟨ha1, ha2⟩ := hr a ha
  obtain ⟨t', -, hst, -, -, h2s, h2e, -, -⟩ := split_ranges hsp
  have := hst rfl
  omega



/-- one call of a multi-output plugin: the chunks it sends share one range, and so do the chunks
it withholds -/
theorem doCompute_multi {P : Spec} {st st' : State} {kwargs out : Dict Chunk} (hm : P.multi = true)
    (hnd : (P.provides.map (·.1)).Nodup)
    (hk : (keys st.cachedResults).Nodup ∧ ∀ x ∈ keys st.cachedResults, x ∈ P.provides.map (·.1))
    (h : doCompute P st kwargs = .ok (out, st')) :
    AlignedD out ∧ AlignedD st'.cachedResults ∧
      (keys st'.cachedResults).Nodup ∧ ∀ x ∈ keys st'.cachedResults, x ∈ P.provides.map (·.1) := by
  unfold doCompute at h
  simp only [hm, if_true] at h
  split at h; · cases h
  split at h; · cases h
  rename_i kw hprep
  split at h; · cases h
  split at h; · cases h
  rename_i k0 c0 kwrest
  split at h; · cases h
  split at h; · cases h
  rename_i result0 hbase
  split at h; · cases h
  rename_i result hdrop
  split at h; · cases h
  rename_i prevSplit cached1 hcb
  split at h; · cases h
  rename_i out' cached2 hsa
  split at h; · cases h
  rename_i huniq
  split at h; · cases h
  rename_i x cachedIn hcb2
  simp only [Except.ok.injEq, Prod.mk.injEq] at h
  obtain ⟨rfl, rfl⟩ := h
  simp only
  obtain ⟨hkeys0, A, E, hAE, hr0⟩ := baseCompute_shape hbase
  obtain ⟨hkeys, hr⟩ := dropSent_shape hAE hr0 hdrop
  rw [hkeys0] at hkeys
  obtain ⟨c1nd, c1sub⟩ := cacheBeyond_keys _ _ _ _ _ _ hcb hk.1
  obtain ⟨s1, s2, s3, s4, s5⟩ := splitAll_spec prevSplit result cached1 out' cached2 hsa (by rw [hkeys]; exact hnd) c1nd
  have hsub2 : ∀ x ∈ keys cached2, x ∈ P.provides.map (·.1) := by
    intro x hx
    rcases s2 x hx with h | h
    · rcases c1sub x h with h | h
      · exact hk.2 x h
      · rw [hkeys] at h; exact h
    · rw [hkeys] at h; exact h
  -- every withheld chunk is the right half of this call's split of its result
  have hfresh : ∀ p ∈ cached2, ∃ c c1, (p.1, c) ∈ result ∧ c.split prevSplit true = .ok (c1, p.2) := by
    intro p hp
    have hpk : p.1 ∈ keys result := by
      rw [hkeys]; exact hsub2 p.1 (List.mem_map.2 ⟨p, hp, rfl⟩)
    obtain ⟨c, c1, c2, m1, m2, m3⟩ := s5 p.1 hpk
    have := dictGet_of_mem s1 (show (p.1, p.2) ∈ cached2 from hp)
    rw [this] at m3
    simp only [Option.some.injEq] at m3
    subst m3
    exact ⟨c, c1, m1, m2⟩
  -- the check of the code: all withheld chunks start together
  have hu : ∀ p ∈ cached2, ∀ q ∈ cached2, p.2.start = q.2.start := by
    have hu' : uniqueB (cached2.map (·.2.start)) = true := by
      cases hb : uniqueB (cached2.map (·.2.start)) with
      | true => rfl
      | false => rw [hb] at huniq; simp at huniq
    cases hc2 : cached2 with
    | nil => simp
    | cons z zs =>
      rw [hc2] at hu'
      simp only [List.map_cons, uniqueB, List.all_eq_true, List.mem_map, beq_iff_eq] at hu'
      have hz : ∀ p ∈ z :: zs, p.2.start = z.2.start := by
        intro p hp
        rcases List.mem_cons.1 hp with rfl | hp
        · rfl
        · exact hu' _ ⟨p, hp, rfl⟩
      intro p hp q hq
      rw [hz p hp, hz q hq]
  refine ⟨?_, ?_, s1, hsub2⟩
  · intro p hp q hq
    obtain ⟨cp, c2p, mp1, mp2, mp3⟩ := s4 p.1 p.2 hp
    obtain ⟨cq, c2q, mq1, mq2, mq3⟩ := s4 q.1 q.2 hq
    obtain ⟨tp, -, -, p1s, p1e, p2s, -⟩ := split_ranges mp2
    obtain ⟨tq, -, -, q1s, q1e, q2s, -⟩ := split_ranges mq2
    have e1 := hu _ (mem_of_dictGet mp3) _ (mem_of_dictGet mq3)
    simp only at e1
    have := (hr _ mp1).1
    have := (hr _ mq1).1
    simp only at *
    refine ⟨by omega, by omega⟩
  · intro p hp q hq
    obtain ⟨cp, c1p, mp1, mp2⟩ := hfresh p hp
    obtain ⟨cq, c1q, mq1, mq2⟩ := hfresh q hq
    obtain ⟨tp, htp, -, -, -, -, p2e, -, -⟩ := split_ranges mp2
    obtain ⟨tq, htq, -, -, -, -, q2e, -, -⟩ := split_ranges mq2
    have := hr _ mp1
    have := hr _ mq1
    simp only at *
    refine ⟨hu p hp q hq, by omega⟩


/-- what every reachable state of a multi-output plugin satisfies -/
def InvM (P : Spec) (st : State) : Prop :=
  AlignedD st.cachedResults ∧ (keys st.cachedResults).Nodup ∧ ∀ x ∈ keys st.cachedResults, x ∈ P.provides.map (·.1)

theorem iterLoop_multi {P : Spec} (hm : P.multi = true) (hnd : (P.provides.map (·.1)).Nodup) (kind : String) :
    ∀ (rest : List Chunk) (st : State) (buf : Chunk) (outs : List (Dict Chunk)) (st' : State),
    InvM P st → iterLoop P kind st buf rest = .ok (outs, st') → (∀ d ∈ outs, AlignedD d) ∧ InvM P st' := by
  intro rest
  induction rest with
  | nil =>
    intro st buf outs st' hinv h
    unfold iterLoop at h
    split at h; · cases h
    split at h; · cases h
    rename_i out st1 hdc
    simp only at h
    split at h; · cases h
    simp only [Except.ok.injEq, Prod.mk.injEq] at h
    obtain ⟨rfl, rfl⟩ := h
    obtain ⟨a1, a2, a3, a4⟩ := doCompute_multi hm hnd ⟨hinv.2.1, hinv.2.2⟩ hdc
    exact ⟨by simpa using a1, a2, a3, a4⟩
  | cons c rest ih =>
    intro st buf outs st' hinv h
    unfold iterLoop at h
    split at h; · cases h
    split at h; · cases h
    rename_i out st1 hdc
    simp only at h
    split at h; · cases h
    split at h; · cases h
    rename_i outs2 st2 hrec
    simp only [Except.ok.injEq, Prod.mk.injEq] at h
    obtain ⟨rfl, rfl⟩ := h
    obtain ⟨a1, a2, a3, a4⟩ := doCompute_multi hm hnd ⟨hinv.2.1, hinv.2.2⟩ hdc
    obtain ⟨b1, b2⟩ := ih _ _ _ _ ⟨a2, a3, a4⟩ hrec
    refine ⟨?_, b2⟩
    intro d hd
    rcases List.mem_cons.1 hd with rfl | hd
    · exact a1
    · exact b1 d hd

/-- everything a multi-output plugin yields (final flush included) is a dict of aligned chunks -/
theorem runDicts_multi {P : Spec} (hm : P.multi = true) (hnd : (P.provides.map (·.1)).Nodup) {kind : String}
    {cs : List Chunk} {ds : List (Dict Chunk)} (h : runDicts P kind cs = .ok ds) : ∀ d ∈ ds, AlignedD d := by
  unfold runDicts at h
  split at h; · cases h
  rename_i c rest
  split at h; · cases h
  rename_i outs st hloop
  simp only [Except.ok.injEq] at h
  subst h
  obtain ⟨b1, b2⟩ := iterLoop_multi hm hnd kind rest State.init c outs st
    ⟨by intro p hp; simp [State.init] at hp, by simp [State.init, keys], by simp [State.init, keys]⟩ hloop
  intro d hd
  rcases List.mem_append.1 hd with hd | hd
  · exact b1 d hd
  · simp only [List.mem_singleton] at hd
    subst hd
    exact b2.1

end Strax.Overlap
