import StraxModel.Lemmas.MailboxLive
/-
  Deadlock freedom for arbitrary (explicit, out-of-order) numberings whose displacement is below the capacity.
-/
namespace Strax.Mailbox
open Strax

/-! ### explicitly numbered out-of-order sends (eager mode): displacement below the capacity -/

/-- at send position `k`: how many already sent numbers exceed the smallest number not yet sent -/
def displAt (nums : List Nat) (k : Nat) : Nat :=
  match (nums.drop k).min? with
  | some mn => ((nums.take k).filter (fun n => decide (mn < n))).length
  | none => 0

/-- the displacement of a numbering: the number of buffer slots the sender may need for messages nobody can
consume yet -/
def displ (nums : List Nat) : Nat := (List.range nums.length).foldl (fun acc k => max acc (displAt nums k)) 0

theorem foldl_max_ge (f : Nat → Nat) (l : List Nat) (acc : Nat) :
    acc ≤ l.foldl (fun a k => max a (f k)) acc ∧ ∀ k ∈ l, f k ≤ l.foldl (fun a k => max a (f k)) acc := by
  induction l generalizing acc with
  | nil => simp
  | cons x r ih =>
    simp only [List.foldl_cons, List.mem_cons]
    have h1 := ih (max acc (f x))
    refine ⟨by have := h1.1; omega, ?_⟩
    rintro k (rfl | hk)
    · have := h1.1; omega
    · exact h1.2 k hk

theorem displAt_le_displ (nums : List Nat) (k : Nat) (hk : k < nums.length) : displAt nums k ≤ displ nums :=
  (foldl_max_ge (displAt nums) (List.range nums.length) 0).2 k (by simpa using hk)

/-- any numbering, EAGER mode: unlimited capacity or displacement below it.  (Lazy mode is left out on purpose:
in strax the fetch gate lives in `_send_from` / `divide_outputs`, which number in order; a caller of
`send(msg, msg_number=…)` on a lazy mailbox passes no gate at all, so "lazy + explicit numbers behind a gate" is
a system that exists only in this model.) -/
def Config.liveOoo (c : Config) : Bool :=
  c.basic && !c.lazy &&
  (match c.cap with
   | none => true
   | some cp => decide (displ ((numbered c.prog 0).map (·.1)) < cp))

/-- the buffer holds no entry twice -/
theorem heap_nodup {c : Config} {s : Sys} (hv : c.valid = true) (hb : c.basic = true) (h : Reachable c s) :
    s.mb.heap.Nodup := by
  induction h with
  | init => simp [Mailbox.init]
  | @step s s' t hr hs ih =>
    have hinv := Inv.reachable hr
    have hp := ProgInv.reachable hv hr
    have hli := LiveInv.reachable hv hb hr
    obtain ⟨hok, _, hnd, hlt⟩ := valid_parts hv
    have hpushed : ∀ (n : Nat) (m : Msg), n ∉ s.sent.map (·.1) → (s.mb.push n m).heap.Nodup := by
      intro n m hn
      simp only [MB.push, MB.notifyRead]
      rw [List.nodup_append]
      refine ⟨ih, by simp, ?_⟩
      intro a ha b hb'
      simp only [List.mem_singleton] at hb'
      subst hb'
      intro hab; subst hab
      exact hn (List.mem_map_of_mem (hli.heapSub _ ha))
    cases t with
    | sender =>
      have hpc := hp.pc
      simp only [Mailbox.step, stepSender] at hs
      split at hs
      · split at hs
        · simp at hs
        · rename_i ok mb hg
          simp only [Option.some.injEq] at hs; subst hs
          simp only [MB.gateStep] at hg
          split at hg
          · simp at hg
          · split at hg <;> (simp only [Option.some.injEq, Prod.mk.injEq] at hg; obtain ⟨rfl, rfl⟩ := hg; exact ih)
      · split at hs <;> (simp only [Option.some.injEq] at hs; subst hs; exact ih)
      · rename_i num m hspc
        simp only [progPc, hspc] at hpc
        obtain ⟨hprog, hsent, hcl, hget⟩ := hpc
        have hres : resolveNum num s.mb.nSent = resolveNum num s.sent.length := by rw [hp.nsent]
        have hunsent : resolveNum num s.sent.length ∉ s.sent.map (·.1) := by
          have := nodup_take_not_mem hnd hget
          rw [← hsent] at this; exact this
        have hnot : ¬ resolveNum num s.sent.length < minNext s.mb.subs := le_minNext_of_not_sent hinv.mb hunsent
        have key : ∀ (out : SendOut) (mb : MB), s.mb.sendStep num m = some (out, mb) → mb.heap.Nodup := by
          intro out mb hst
          unfold MB.sendStep at hst; rw [hres] at hst
          rcases sendCore_alive hcl hp.fkilled hp.killed hnot hst with ⟨_, hmb, _⟩ | ⟨_, hmb, _⟩
          · rw [hmb]; exact hpushed _ _ hunsent
          · rw [hmb]; exact ih
        split at hs
        · simp at hs
        all_goals (rename_i hst; simp only [Option.some.injEq] at hs; subst hs; exact key _ _ hst)
      · rename_i hspc
        simp only [progPc, hspc] at hpc
        obtain ⟨hprog, hsent, hcl⟩ := hpc
        have hlen := numbered_length c.prog 0 hok
        have hunsent : s.mb.nSent ∉ s.sent.map (·.1) := by
          intro hmem
          rw [hsent] at hmem
          have := hlt _ hmem
          rw [hp.nsent, hsent, hlen] at this; omega
        have hnot : ¬ s.mb.nSent < minNext s.mb.subs := le_minNext_of_not_sent hinv.mb hunsent
        have key : ∀ (out : SendOut) (mb : MB), s.mb.sendStep none .stop = some (out, mb) → mb.heap.Nodup := by
          intro out mb hst
          simp only [MB.sendStep, resolveNum] at hst
          rcases sendCore_alive hcl hp.fkilled hp.killed hnot hst with ⟨_, hmb, _⟩ | ⟨_, hmb, _⟩
          · rw [hmb]; exact hpushed _ _ hunsent
          · rw [hmb]; exact ih
        split at hs
        · simp at hs
        all_goals (rename_i hst; simp only [Option.some.injEq] at hs; subst hs; exact (key _ _ hst :))
      · simp only [Option.some.injEq] at hs; subst hs
        rw [(kill_heap s.mb true).1]; exact ih
      · simp at hs
      · simp at hs
    | reader i =>
      have hheap : ∀ (out : ReadOut) (mb : MB), s.mb.readStep i = some (out, mb) → mb.heap.Nodup := by
        intro out mb hst
        rcases readStep_heap hst with ⟨h1, _⟩ | h1
        · rw [h1]; exact ih
        · rw [h1]; exact List.Pairwise.filter _ ih
      simp only [Mailbox.step, stepReader] at hs
      split at hs
      · simp at hs
      · split at hs
        · split at hs
          · simp at hs
          all_goals (rename_i hst; simp only [Option.some.injEq] at hs; subst hs; exact hheap _ _ hst)
        · split at hs
          · split at hs
            · simp only [Option.some.injEq] at hs; subst hs; exact ih
            · simp at hs
          · simp at hs
        · simp at hs
        · simp at hs
    | worker j =>
      simp only [Mailbox.step, stepWorker] at hs
      split at hs
      · simp only [Option.some.injEq] at hs; subst hs; exact ih
      · simp at hs
    | killer k =>
      simp only [Mailbox.step, stepKiller, hp.noKill] at hs
      simp at hs


theorem mem_take_or_drop {α} (l : List α) (k : Nat) {a : α} (h : a ∈ l) : a ∈ l.take k ∨ a ∈ l.drop k := by
  rw [← List.take_append_drop k l] at h
  exact List.mem_append.mp h

theorem nodup_take_drop_disjoint {l : List Nat} (hnd : l.Nodup) (k : Nat) {a : Nat} (h1 : a ∈ l.take k) (h2 : a ∈ l.drop k) :
    False := by
  rw [← List.take_append_drop k l, List.nodup_append] at hnd
  exact hnd.2.2 a h1 a h2 rfl

/-- eager sender blocked on `_write_condition` while every subscriber is blocked: impossible when the
displacement of the numbering is below the capacity -/
theorem write_contra_ooo {c : Config} {s : Sys} (hv : c.valid = true) (hl : c.liveOoo = true) (h : Reachable c s)
    (_hnd : s.spc ≠ .done) (hblk : ∀ (i : Nat) (sub : Sub), s.mb.subs[i]? = some sub → sub.flag = some false)
    (hwf : s.mb.writeFlag = some false) : False := by
  have hl' := hl
  simp only [Config.liveOoo, Bool.and_eq_true] at hl'
  obtain ⟨⟨hb, _⟩, hcapd⟩ := hl'
  have hinv := Inv.reachable h
  have hp := ProgInv.reachable hv h
  have hli := LiveInv.reachable hv hb h
  have hstat := Static.reachable h
  have hnodup := heap_nodup hv hb h
  obtain ⟨hok, _, hnd', hlt⟩ := valid_parts hv
  have hsurj := valid_surj hv
  have hlen := numbered_length c.prog 0 hok
  have hdrive : c.drive ≠ [] := by
    simp only [Config.basic, Bool.and_eq_true, Bool.not_eq_true', List.isEmpty_eq_false_iff] at hb; exact hb.1
  have e1 : s.mb.cap = c.cap := congrArg (fun x => x.1) hstat
  have e4 : s.mb.subs.map (fun x => x.canDrive) = c.drive := congrArg (fun x => x.2.2.2) hstat
  have hne : s.mb.subs ≠ [] := by
    intro hnil; rw [hnil] at e4; exact hdrive e4.symm
  -- the capacity is finite and exhausted
  have hcw := hinv.mb.wakeW hwf
  simp only [MB.canWrite, hp.killed, Bool.or_false] at hcw
  cases hc : s.mb.cap with
  | none => simp [hc] at hcw
  | some cp =>
    simp only [hc, decide_eq_false_iff_not, Nat.not_lt] at hcw
    rw [e1] at hc
    simp only [hc, decide_eq_true_eq] at hcapd
    -- the slowest subscriber waits for `mn`, which has not been sent
    obtain ⟨subm, hmm, hmn⟩ := minNext_mem hne
    obtain ⟨im, him1, him2⟩ := List.getElem_of_mem hmm
    have him : s.mb.subs[im]? = some subm := by rw [List.getElem?_eq_getElem him1, him2]
    have hwm := (hinv.mb.wakeR im subm him (hblk im subm him)).1
    have hunsent : minNext s.mb.subs ∉ s.sent.map (·.1) := by
      intro hmem
      have hsome := mem_getMsg_isSome hmem
      rw [← hinv.mb.heapEq _ (Nat.le_refl _), ← hasNum_iff_getMsg, ← hmn, hwm] at hsome
      cases hsome
    -- every buffered entry is a sent one with a number above `mn`
    have hheapsub : ∀ e ∈ s.mb.heap, e ∈ s.sent.filter (fun e => decide (minNext s.mb.subs < e.1)) := by
      intro e he
      have h1 := hli.heapGe e he
      have h2 := hli.heapSub e he
      have h3 : e.1 ≠ minNext s.mb.subs := fun heq => hunsent (heq ▸ List.mem_map_of_mem h2)
      exact List.mem_filter.mpr ⟨h2, by simp; omega⟩
    have hcount : s.mb.heap.length ≤ (s.sent.filter (fun e => decide (minNext s.mb.subs < e.1))).length :=
      List.Nodup.length_le_of_subset hnodup hheapsub
    -- where is the sender?
    have hpc := hp.pc
    rcases hinv.wPc (by rw [hwf]; simp) with ⟨n, m, hspc⟩ | hspc
    · -- in `send`: position k < K
      simp only [progPc, hspc] at hpc
      obtain ⟨_, hsent, _, hget⟩ := hpc
      have hk : s.sent.length < c.prog.length := by
        have := (List.getElem?_eq_some_iff.mp hget).1; rw [hlen] at this; exact this
      have hsentnums : s.sent.map (·.1) = ((numbered c.prog 0).map (·.1)).take s.sent.length := by
        rw [← List.map_take, ← hsent]
      -- `mn` is the smallest number not sent yet
      have hmnlt : minNext s.mb.subs < c.prog.length := by
        apply Classical.byContradiction
        intro hge
        have hall : ∀ j ∈ List.range c.prog.length, j ∈ s.sent.map (·.1) := by
          intro j hj
          have hjlt : j < subm.next := by simp at hj; omega
          exact getMsg_isSome_mem (hinv.mb.found im subm him j hjlt)
        have := List.Nodup.length_le_of_subset List.nodup_range hall
        simp only [List.length_range, List.length_map] at this
        omega
      have hmin : (((numbered c.prog 0).map (·.1)).drop s.sent.length).min? = some (minNext s.mb.subs) := by
        rw [List.min?_eq_some_iff]
        constructor
        · rcases mem_take_or_drop _ s.sent.length (hsurj _ hmnlt) with ht | hd
          · rw [← hsentnums] at ht; exact absurd ht hunsent
          · exact hd
        · intro b hb'
          have hbun : b ∉ s.sent.map (·.1) := by
            intro hbs; rw [hsentnums] at hbs
            exact nodup_take_drop_disjoint hnd' _ hbs hb'
          have := le_minNext_of_not_sent hinv.mb hbun
          omega
      have hdis : displAt ((numbered c.prog 0).map (·.1)) s.sent.length =
          (s.sent.filter (fun e => decide (minNext s.mb.subs < e.1))).length := by
        simp only [displAt, hmin, ← hsentnums]
        rw [List.filter_map, List.length_map]; rfl
      have hle := displAt_le_displ ((numbered c.prog 0).map (·.1)) s.sent.length (by rw [List.length_map, hlen]; exact hk)
      omega
    · -- in `close`: everything has been sent, so nothing is buffered above `mn`
      simp only [progPc, hspc] at hpc
      obtain ⟨_, hsent, _⟩ := hpc
      have hmnge : c.prog.length ≤ minNext s.mb.subs := by
        apply Classical.byContradiction
        intro hlt'
        exact hunsent (by rw [hsent]; exact hsurj _ (by omega))
      have hempty : s.sent.filter (fun e => decide (minNext s.mb.subs < e.1)) = [] := by
        rw [List.filter_eq_nil_iff]
        intro e he
        have : e.1 < c.prog.length := hlt _ (by rw [hsent] at he; exact List.mem_map_of_mem he)
        simp; omega
      rw [hempty] at hcount
      simp only [List.length_nil, Nat.le_zero_eq] at hcount
      omega

/-- lazy sender blocked on `_fetch_new_condition` while every subscriber is blocked: impossible under the repaired
gate rule when a driver exists (no assumption on the numbering) -/
theorem gate_contra_hasMsg {c : Config} {s : Sys} (h : Reachable c s) (hr : c.gateRule = .hasMsg)
    (hdr : c.drive.contains true = true)
    (hblk : ∀ (i : Nat) (sub : Sub), s.mb.subs[i]? = some sub → sub.flag = some false)
    (hk : s.mb.killed = false) (hff : s.mb.fetchFlag = some false) : False := by
  have hinv := Inv.reachable h
  have hstat := Static.reachable h
  have e3 : s.mb.gateRule = c.gateRule := congrArg (fun x => x.2.2.1) hstat
  have e4 : s.mb.subs.map (fun x => x.canDrive) = c.drive := congrArg (fun x => x.2.2.2) hstat
  have hcf := hinv.mb.wakeF hff
  have hdw : s.mb.driverWaits = true := by
    rw [← e4] at hdr
    simp only [List.contains_iff_mem, List.mem_map] at hdr
    obtain ⟨sub, hm, hcd⟩ := hdr
    obtain ⟨i, hi1, hi2⟩ := List.getElem_of_mem hm
    have hi : s.mb.subs[i]? = some sub := by rw [List.getElem?_eq_getElem hi1, hi2]
    have hw := hinv.mb.waitFor i sub hi
    rw [hblk i sub hi] at hw
    simp only [MB.driverWaits, List.any_eq_true, Bool.and_eq_true]
    exact ⟨sub, hm, hcd, by rw [hw]; simp⟩
  have hst : s.mb.staleWaiter = false := by
    simp only [MB.staleWaiter, List.any_eq_false]
    intro sub hm
    obtain ⟨i, hi1, hi2⟩ := List.getElem_of_mem hm
    have hi : s.mb.subs[i]? = some sub := by rw [List.getElem?_eq_getElem hi1, hi2]
    have hw := hinv.mb.waitFor i sub hi
    rw [hblk i sub hi] at hw
    have hn := (hinv.mb.wakeR i sub hi (hblk i sub hi)).1
    simp only [hw, e3, hr]
    simp [staleTest, hn]
  simp [MB.canFetch, hk, hst, hdw] at hcf

theorem deadlock_free_ooo_core {c : Config} {s : Sys} (hv : c.valid = true) (hl : c.liveOoo = true) (h : Reachable c s)
    (hstuck : ∀ t, step s t = none) : s.final = true := by
  have hl' := hl
  simp only [Config.liveOoo, Bool.and_eq_true, Bool.not_eq_true'] at hl'
  obtain ⟨⟨hb, hlz⟩, _⟩ := hl'
  refine deadlock_free_gen hv hb h (write_contra_ooo hv hl h) ?_ hstuck
  intro hspc _ _
  have := (Inv.reachable h).gateLazy hspc
  have e2 : s.mb.lazy = c.lazy := congrArg (fun x => x.2.1) (Static.reachable h)
  rw [e2, hlz] at this; cases this

end Strax.Mailbox
